"""Coverage-guided differential search (thorough tier): libFuzzer drives protocol lines through lzma-rs
(in-process, instrumented, rebuilt from /repo's working tree) and through the Lean model (child
process); a line on which the two answers differ — or on which the implementation panics — is kept.

This supports the correspondence check (it looks for inputs on which the model no longer describes
the code, also in code a change has added); it is a search, not a proof, and no theorem rests on it."""
import glob
import hashlib
import os
import re
import shutil
import subprocess
import time

from . import core

FUZZ_DIR = os.path.join(core.ROOT, "fuzz")
WORK = os.path.join(core.ROOT, "work", "fuzz")
OPS = ("lzma", "lzma2", "xz", "stream", "rawlzma", "rawlzma2", "enc")
TARGET = os.path.join(FUZZ_DIR, "target", "x86_64-unknown-linux-gnu", "release", "diff")


def build():
    env = dict(core.ENV, RUSTFLAGS="--cfg lzma_rs_verif", CARGO_NET_OFFLINE="true")
    p = subprocess.run(["cargo", "+nightly", "fuzz", "build", "--fuzz-dir", FUZZ_DIR, "-s", "none", "diff"],
                       capture_output=True, text=True, env=env, cwd=FUZZ_DIR, timeout=3600)
    if p.returncode != 0 or not os.path.exists(TARGET):
        raise core.BuildError("cargo fuzz build failed:\n" + (p.stderr or p.stdout)[-4000:])
    return TARGET


def corpus_from_cases(prop, cases, max_line=6000, max_files=600):
    d = os.path.join(WORK, prop)
    shutil.rmtree(d, ignore_errors=True)
    os.makedirs(os.path.join(d, "corpus"))
    os.makedirs(os.path.join(d, "artifacts"))
    n = 0
    ok = [c for c in cases if c[2].get("cmp", True) and len(c[1]) <= max_line and c[1].split(" ")[0] in OPS
          and " rfail=" not in c[1] and " pos=1" not in c[1]]
    # an even sample over the generator's groups (every fork job replays the whole seed corpus first)
    step = max(1, len(ok) // max_files)
    for cid, line, meta in ok[::step]:
        l = re.sub(r" id=\d+ ", " id=0 ", line, 1)
        l = l.replace(" fsdump=1", "")     # the state hand-over is two-stage; the search runs one line on both sides at once
        with open(os.path.join(d, "corpus", hashlib.sha1(l.encode()).hexdigest()[:16]), "w") as f:
            f.write(l)
        n += 1
        if n >= max_files:
            break
    return d, n


def run(prop, cases, seconds, jobs=8, max_files=600):
    """returns dict(execs, corpus_in, corpus_out, cov, findings=[dict(line, model, impl)], wall_s)"""
    t0 = time.time()
    target = build()
    d, n = corpus_from_cases(prop, cases, max_files=max_files)
    res = dict(corpus_in=n, execs=0, cov=0, corpus_out=0, findings=[], seconds=seconds, jobs=jobs)
    if n == 0:
        res["note"] = "no protocol line of this property is in the fuzz target's domain"
        return res
    env = dict(core.ENV, LZV_MODEL_BIN=core.LZMODEL)
    p = subprocess.run([target, "corpus", "-max_total_time=%d" % seconds, "-max_len=16384", "-timeout=30", "-rss_limit_mb=6000",
                        "-artifact_prefix=artifacts/", "-fork=%d" % jobs, "-ignore_crashes=0", "-print_final_stats=0"],
                       capture_output=True, text=True, cwd=d, env=env, timeout=seconds + 600)
    log = p.stderr + p.stdout
    for m in re.finditer(r"#(\d+): cov: (\d+) ft: \d+ corp: (\d+)", log):
        res["execs"], res["cov"], res["corpus_out"] = int(m.group(1)), int(m.group(2)), int(m.group(3))
    arts = sorted(glob.glob(os.path.join(d, "artifacts", "*")))
    lines = []
    for a in arts:
        try:
            l = open(a).read().strip()
        except Exception:
            continue
        if l and l not in lines:
            lines.append(l)
    if lines:
        # replay each artifact through the ordinary drivers (fresh harness build, fresh model process)
        numbered = [re.sub(r" id=\d+ ", " id=%d " % i, l, 1) for i, l in enumerate(lines)]
        model = core.run_model(numbered)
        impl = core.run_impl(numbered)
        for i, l in enumerate(lines):
            cid = str(i)
            mres, ires = model.get(cid, "missing"), core.strip_peak(impl.get(cid, "missing"))[0]
            kind = os.path.basename([a for a in arts if open(a).read().strip() == l][0]).split("-")[0]
            res["findings"].append(dict(line=l, model=mres, impl=ires, kind=kind))
    elif p.returncode != 0:
        res["note"] = "fuzzer exited with status %d without an artifact: %s" % (p.returncode, log[-600:])
    res["wall_s"] = round(time.time() - t0, 1)
    shutil.rmtree(os.path.join(d, "corpus"), ignore_errors=True)
    return res
