"""Per-property case generation and oracles (the property predicate evaluated
directly on the implementation), on top of the model/implementation
correspondence done by Run."""
import os
import lzma as pylzma
import zlib

from . import core
from .core import crc32, lzma_header, out_repr
from .run import Run

U64MAX = 2**64 - 1


def v(res):
    return res.split(" ")[0] if res else "missing"


def outfield(res):
    return core.fields(res).get("out", "")


def is_prefix_repr(rep, expected):
    """does the canonical output rendering `rep` denote a prefix of `expected`?"""
    if rep.startswith("#"):
        n, c = rep[1:].split(":")
        n = int(n)
        return n <= len(expected) and "%08x" % crc32(expected[:n]) == c
    try:
        b = bytes.fromhex(rep)
    except ValueError:
        return False
    return expected[:len(b)] == b


def repr_len(rep):
    if rep.startswith("#"):
        return int(rep[1:].split(":")[0])
    return len(rep) // 2


def exp_ok_out(expected, extra=None):
    def oracle(res, meta, peak):
        if v(res) != "ok":
            return "expected success, got `%s`" % res[:120]
        if outfield(res) != out_repr(expected):
            return "output differs from the format's meaning (expected %s, got %s)" % (
                out_repr(expected)[:80], outfield(res)[:80])
        if extra:
            return extra(res, meta, peak)
        return None
    return oracle


def exp_err(prefix_of=None):
    def oracle(res, meta, peak):
        if v(res) != "err":
            return "expected an error, got `%s`" % res[:120]
        if prefix_of is not None and not is_prefix_repr(outfield(res), prefix_of):
            return "sink does not hold a prefix of the correct output"
        return None
    return oracle


def no_crash(res, meta, peak):
    if v(res) not in ("ok", "err"):
        return "verdict `%s` (panic / hang / abort)" % v(res)
    return None


# ----------------------------------------------------------------- material helpers

def sizes(tier, quick, thorough):
    return thorough if tier == "thorough" else quick


def reader_kind(rng, n, hot=()):
    """a reader kind for an n-byte input: a small BufReader capacity, pseudo-random fragments, or explicit
    seams (near the `hot` offsets when given: header fields, chunk headers, padding, the last bytes)"""
    k = rng.below(4)
    if n == 0:
        return "cur"
    if k == 0:
        return "buf:%d" % rng.pick([1, 2, 3, 4, 5, 6, 7, 9, 12, 16, 18, 19])
    if k == 1:
        return "frag:%d:%d" % (rng.below(1000) + 1, rng.pick([1, 2, 3, 7]))
    if k == 2 and hot:
        hs = [rng.pick(list(hot)) for _ in range(rng.below(4) + 1)]
        cuts = sorted(set(min(max(1, h + rng.below(3) - 1), n) for h in hs))
        return "cut:" + ",".join(map(str, cuts))
    return "cut:" + ",".join(str(x) for x in sorted(set(rng.below(n) + 1 for _ in range(rng.below(4) + 1))))


def seam_program(rng, dict_size, laps=1, rounds=120, alphabet=4):
    """a program for the script encoder: fill the window `laps` times, then `rounds` times a few literals, a
    copy whose distance equals the window cursor after the copy (the byte a following literal is matched
    against sits in slot 0 of the circular window), and one literal"""
    toks = ["X%d.%d.%d" % (dict_size * laps, rng.below(999), alphabet)]
    total = dict_size * laps
    for _ in range(rounds):
        k = rng.pick([1, 2, 3, 5])
        toks.append("X%d.%d.%d" % (k, rng.below(999), alphabet))
        total += k
        ln = rng.pick([2, 3, 5, 9])
        dist = (total % dict_size) + ln
        if dist > dict_size or dist < 1:
            continue
        toks.append("M%d.%d" % (dist, ln))
        total += ln
        toks.append("L%d" % rng.pick([11, 48, 85, 122]))
        total += 1
    return ",".join(toks)


def costly_marker_program(rng, reps=220):
    """a program (lc = lp = pb = 0, dictionary 1 MiB) whose end marker reads 17-18 input bytes: every adaptive
    probability on the marker's path that can be trained within 64 KiB of history has been driven to the
    opposite extreme, deepest tree node first (length 273 through the high-length tree, slot 63, align 1111,
    is_rep, is_match)"""
    t = ["L97", "R0.273*300"]
    for d in range(7, -1, -1):
        ones = 0 if d == 0 else ((1 << d) - 1) << (8 - d)
        ln = 16 + ones + 2
        dist = 65537 if d == 7 else (129 + ((1 << d) - 1) if d < 4 else 129)
        t.append("M%d.%d*%d" % (dist, ln, reps))
    t.append("M129.10*%d" % reps)          # mid length: choice2 -> 0
    t.append("M129.5*%d" % reps)           # low length: choice -> 0
    t += ["L97"] * 4
    for _ in range(reps):
        t += ["S", "L97", "L97", "L97"]     # is_rep[0] -> 1
    t.append("L97*400")                    # is_match[0] -> 0
    t.append("M4294967296.273")            # the marker, with the longest length
    return ",".join(t)


def lzma_file(m, dict_field=None, size="auto"):
    if size == "auto":
        size = None if m["eos"] else len(m["out"])
    return lzma_header(m["lc"], m["lp"], m["pb"], m["dict"] if dict_field is None else dict_field, size) + m["payload"]


def liblzma_alone(data):
    try:
        d = pylzma.LZMADecompressor(format=pylzma.FORMAT_ALONE)
        out = d.decompress(data)
        return ("ok", out, d.eof, len(d.unused_data))
    except (pylzma.LZMAError, EOFError, MemoryError) as e:
        return ("err", b"", False, 0)


def liblzma_auto(data):
    """the auto-detecting decoder (what `xz -d` / lzma::decompress use): pickier about .lzma headers"""
    try:
        d = pylzma.LZMADecompressor(format=pylzma.FORMAT_AUTO)
        out = d.decompress(data)
        return ("ok", out)
    except (pylzma.LZMAError, EOFError, MemoryError):
        return ("err", b"")


def liblzma_raw2(data, dict_size=1 << 26):
    try:
        d = pylzma.LZMADecompressor(format=pylzma.FORMAT_RAW,
                                    filters=[{"id": pylzma.FILTER_LZMA2, "dict_size": dict_size}])
        out = d.decompress(data)
        if not d.eof:
            return ("err", out, False, 0)
        return ("ok", out, True, len(d.unused_data))
    except (pylzma.LZMAError, EOFError, MemoryError):
        return ("err", b"", False, 0)


def liblzma_xz(data):
    try:
        d = pylzma.LZMADecompressor(format=pylzma.FORMAT_XZ)
        out = d.decompress(data)
        if not d.eof or d.unused_data:
            return ("err", out)
        return ("ok", out)
    except (pylzma.LZMAError, EOFError, MemoryError):
        return ("err", b"")


def spec_check(run, what, ok):
    run.count("spec_vs_liblzma:" + ("agree" if ok else "DISAGREE"))
    if not ok:
        run.violations.append(dict(id="-", case=what, impl="-", tag="spec",
                                   why="the specification layer (reference encoder / expand) disagrees with liblzma"))


def real_lzma2_streams(rng, n, maxlen=6000):
    """raw LZMA2 streams produced by liblzma (real encoder: matches, reps, several chunks)"""
    res = []
    for i in range(n):
        kind = rng.below(4)
        ln = rng.pick([0, 1, 50, 700, maxlen])
        if kind == 0:
            data = bytes(rng.below(4) + 97 for _ in range(ln))
        elif kind == 1:
            data = (b"abcabcabd" * (ln // 9 + 1))[:ln]
        elif kind == 2:
            data = rng.bytes(ln)
        else:
            data = bytes((j * j // 7) & 0xFF for j in range(ln))
        lc, lp = rng.pick([(3, 0), (0, 0), (4, 0), (0, 4), (2, 2), (1, 3)])
        pb = rng.below(5)
        filt = [{"id": pylzma.FILTER_LZMA2, "dict_size": rng.pick([4096, 65536, 1 << 20]), "lc": lc, "lp": lp,
                 "pb": pb, "mode": rng.pick([pylzma.MODE_FAST, pylzma.MODE_NORMAL]),
                 "nice_len": rng.pick([8, 32, 273]), "mf": pylzma.MF_HC4, "depth": 0}]
        try:
            enc = pylzma.compress(data, format=pylzma.FORMAT_RAW, filters=filt)
        except pylzma.LZMAError:
            continue
        res.append(dict(payload=enc, out=data, desc="liblzma lc%d lp%d pb%d len%d" % (lc, lp, pb, ln)))
    return res


# ----------------------------------------------------------------- C01

def c01(run: Run):
    t = run.tier
    mats = core.gen_material("lzma", run.seed, sizes(t, 150, 2500)) + \
        core.gen_material("lzmawrap", run.seed, sizes(t, 5, 40))
    # exhaustive small scope: every well-formed program of <= 4 symbols over an 8-symbol alphabet, dict 1..3
    exh = core.gen_material("lzmaexh", 1, 1)
    mats += exh if t == "thorough" else exh[run.seed % 7::7]
    run.extra_cov["exhaustive_small_scope_programs"] = len(exh) if t == "thorough" else len(exh[run.seed % 7::7])
    rng = run.rng
    for m in mats:
        d, out = m["dict"], m["out"]
        kinds = m.get("kinds", "")
        nontriv = m["nsyms"] > 1 and kinds.split("/")[1:4] != ["0", "0", "0"]
        wraps = len(out) > d
        run.count("props:%d%d%d" % (m["lc"], m["lp"], m["pb"]) if False else "lclp>4" if m["lc"] + m["lp"] > 4 else "lclp<=4")
        run.count("wraps" if wraps else "nowrap")
        run.count("eos" if m["eos"] else "sized")
        if d >= 4096:
            variants = [d]
            if d == 4096:
                variants += [rng.pick([0, 1, 4095])]
            variants += [rng.pick([d * 2 + 1, 2**32 - 1, d + 1])]
            for df in variants:
                data = lzma_file(m, df)
                run.add("lzma us=hdr in=%s" % data.hex(), oracle=exp_ok_out(out), tag="c01:hdr",
                        nontrivial=nontriv)
            if rng.chance(1, 3):
                # through a reader that hands the stream over in pieces (seams in the header and the coder's first bytes)
                data = lzma_file(m, d)
                run.add("lzma us=hdr rk=%s in=%s" % (reader_kind(rng, len(data), [5, 13, 14, 15, 16, 17, 18]), data.hex()),
                        oracle=exp_ok_out(out), tag="c01:reader", nontrivial=nontriv)
            if m["eos"]:
                # end marker after a declared size: the decoder stops at the size
                data = lzma_file(m, d, size=len(out))
                run.add("lzma us=hdr in=%s" % data.hex(), oracle=exp_ok_out(out), tag="c01:eos+size",
                        nontrivial=nontriv)
            if m["lc"] + m["lp"] <= 4 and rng.chance(1, 2):
                r = liblzma_alone(lzma_file(m, d))
                spec_check(run, "lzma idx=%s" % m.get("idx"), r[0] == "ok" and r[1] == out)
        else:
            us = "none" if m["eos"] else str(len(out))
            for dd in [d, rng.pick([d + 1, 4096, 2**32 - 1])]:
                run.add("rawlzma lc=%d lp=%d pb=%d dict=%d us=%s ml=none ops=st;d:%s;st" % (
                    m["lc"], m["lp"], m["pb"], dd, us, m["payload"].hex()),
                    oracle=lambda res, meta, peak, out=out: None if res.startswith("new:ok st:") and res.split(" ")[2].startswith("ok:") and
                    res.split(" ")[2].split(":", 2)[2] == out_repr(out) else "raw decoder: expected ok with the format's output, got `%s`" % res[:100],
                    tag="c01:raw", nontrivial=nontriv)
    # copies that end where the next literal's match byte sits exactly at the seam of the circular window
    for b in core.script([dict(kind="lzma", lc=rng.pick([3, 0, 4]), lp=rng.pick([0, 1]), pb=2, dict=d_, prog=seam_program(rng, d_, rng.pick([1, 2])) + rng.pick(["", ",E"]))
                          for d_ in (4096, 4097)]):
        run.add("lzma us=hdr in=%s" % lzma_file(b).hex(), oracle=exp_ok_out(b["out"]), tag="c01:window-seam")
    # probabilities driven to their extremes (long runs of one literal, then the improbable symbol), and distances
    # in the higher position slots (history of about 1 MiB: slots up to 41, many direct bits)
    reqs = [dict(kind="lzma", lc=lc_, lp=0, pb=pb_, dict=4096, prog="X400.%d.1,L255,X200.%d.1,L0,M1.273,L7,X300.%d.1%s" % (
        rng.below(99), rng.below(99), rng.below(99), rng.pick(["", ",E"]))) for lc_, pb_ in ((3, 2), (0, 0), (8, 4))]
    far = ",".join("M%d.%d" % (dd, rng.pick([2, 3, 9, 18, 273])) for k in range(7, 21) for dd in ((1 << k) - 1, 1 << k, (1 << k) + 1, 3 << (k - 1)) if dd < 1090000)
    reqs.append(dict(kind="lzma", lc=3, lp=0, pb=2, dict=1 << 21, prog="X40.%d.200,M40.273*4000,%s,L65%s" % (rng.below(99), far, rng.pick(["", ",E"]))))
    for b in core.script(reqs):
        run.add("lzma us=hdr in=%s" % lzma_file(b).hex(), oracle=exp_ok_out(b["out"]), tag="c01:extreme-probabilities-and-slots")
        if b["dict"] > 4096:
            r = liblzma_alone(lzma_file(b))
            spec_check(run, "lzma high position slots", r[0] == "ok" and r[1] == b["out"])
    # dictionaries of 128 KiB and 192 KiB lapped more than twice (hand-over of a large window to the sink)
    for b in core.script([dict(kind="lzma", lc=3, lp=0, pb=2, dict=d_, prog="X300.%d.200,M%d.273*%d,X9.%d.200,M%d.40%s" % (
            rng.below(99), rng.pick([7, 300]), (d_ * 5 // 2) // 273, rng.below(99), d_, rng.pick(["", ",E"]))) for d_ in (1 << 17, 3 << 16)]):
        run.add("lzma us=hdr in=%s" % lzma_file(b).hex(), oracle=exp_ok_out(b["out"]), tag="c01:large-window-laps")
    # one-shot decodes share nothing: a 128 KiB window first, then three laps of a 4 KiB window (same thread)
    seq = core.script([dict(kind="lzma", lc=3, lp=0, pb=2, dict=1 << 17, prog="X300.%d.200,M300.273*520" % rng.below(99)),
                       dict(kind="lzma", lc=3, lp=0, pb=2, dict=4096, prog="X200.%d.200,M9.273*45,X30.%d.200,E" % (rng.below(99), rng.below(99)))])
    run.add("lzma us=hdr in=%s" % lzma_file(seq[0]).hex(), oracle=exp_ok_out(seq[0]["out"]), tag="c01:big-window-then-small:first")
    run.add("lzma us=hdr in=%s" % lzma_file(seq[1]).hex(), oracle=exp_ok_out(seq[1]["out"]), tag="c01:big-window-then-small:second")
    # several laps of a small window handed to a sink that takes only part of each write
    for b in core.script([dict(kind="lzma", lc=3, lp=0, pb=2, dict=4096, prog="X200.%d.200,M9.273*45,X30.%d.200%s" % (rng.below(99), rng.below(99), e_)) for e_ in ("", ",E")]):
        script = ",".join(rng.pick(["u1", "u100", "u1000", "u3000"]) for _ in range(60))
        run.add("lzma us=hdr sink=%s in=%s" % (script, lzma_file(b).hex()), oracle=exp_ok_out(b["out"]), tag="c01:laps-short-writing-sink")
    # the end marker is a match with distance 2^32 - 1 of ANY legal length (encoders write the minimum; the
    # format and liblzma accept all); and the marker still ends the stream when the caller asks to ignore a
    # (wrong) size field in the header
    reqs = []
    for ln in (2, 3, 4, 5, 9, 10, 17, 18, 100, 273):
        lc, lp, pb = rng.pick([(3, 0, 2), (0, 0, 0), (8, 4, 4), (4, 1, 3)])
        reqs.append(dict(kind="lzma", lc=lc, lp=lp, pb=pb, dict=4096, prog="X%d.%d.200,M3.4,M4294967296.%d" % (rng.pick([4, 5, 40, 300]), rng.below(999), ln)))
    for b in core.script(reqs):
        data = lzma_header(b["lc"], b["lp"], b["pb"], 4096, None) + b["payload"]
        run.add("lzma us=hdr in=%s" % data.hex(), oracle=exp_ok_out(b["out"]), tag="c01:long-marker")
        if b["lc"] + b["lp"] <= 4:       # liblzma refuses lc + lp > 4 (the format allows it, lzma-rs decodes it)
            r = liblzma_alone(data)
            spec_check(run, "lzma long end marker", r[0] == "ok" and r[1] == b["out"])
    for m in [x for x in mats if x["eos"] and x["dict"] >= 4096][:sizes(t, 20, 200)]:
        data = lzma_header(m["lc"], m["lp"], m["pb"], m["dict"], rng.pick([0, 1, len(m["out"]), len(m["out"]) + 9, 2**40])) + m["payload"]
        run.add("lzma us=hup:none in=%s" % data.hex(), oracle=exp_ok_out(m["out"]), tag="c01:marker-under-ignored-size-field")
    run.extra_cov["streams"] = len(mats)


# ----------------------------------------------------------------- C02

def parse_lzma2(data):
    """chunk table of an LZMA2 stream: list of dicts(off, ctrl, kind, hdrlen, unpacked, packed, props_off)"""
    chunks = []
    i = 0
    while i < len(data):
        c = data[i]
        if c == 0:
            chunks.append(dict(off=i, ctrl=0, kind="end", hdrlen=1, total=1))
            break
        if c in (1, 2):
            n = int.from_bytes(data[i + 1:i + 3], "big") + 1
            chunks.append(dict(off=i, ctrl=c, kind="raw", hdrlen=3, unpacked=n, total=3 + n))
            i += 3 + n
        elif c >= 0x80:
            u = (((c & 0x1F) << 16) | int.from_bytes(data[i + 1:i + 3], "big")) + 1
            p = int.from_bytes(data[i + 3:i + 5], "big") + 1
            hl = 6 if c >= 0xC0 else 5
            chunks.append(dict(off=i, ctrl=c, kind="lzma", hdrlen=hl, unpacked=u, packed=p, total=hl + p,
                               props_off=(i + 5) if c >= 0xC0 else None))
            i += hl + p
        else:
            break
    return chunks


def lzma2_material(run, nq, nt, nreal_q, nreal_t):
    t = run.tier
    mats = core.gen_material("lzma2", run.seed, sizes(t, nq, nt))
    res = [dict(payload=m["payload"], out=m["out"], desc=m.get("chunks", ""), gen=True) for m in mats]
    res += real_lzma2_streams(run.rng, sizes(t, nreal_q, nreal_t))
    return res


def c02(run: Run):
    mats = lzma2_material(run, 120, 2000, 25, 300)
    # chunk size extremes from the reference encoder: packed size exactly 65536, unpacked exactly 2 MiB
    for b in core.gen_material("lzma2big", 1, 2):
        mats.append(dict(payload=b["payload"], out=b["out"], desc="extreme:" + b.get("what", "")))
    if run.tier == "thorough":
        # size extremes: 64 KiB uncompressed chunk, 2 MiB unpacked compressed chunk (from liblzma)
        big = bytes((i * 7 + i // 300) & 0xFF for i in range(3 * 1024 * 1024))
        enc = pylzma.compress(big, format=pylzma.FORMAT_RAW, filters=[{"id": pylzma.FILTER_LZMA2, "preset": 1}])
        mats.append(dict(payload=enc, out=big, desc="liblzma 3MiB"))
        rnd = run.rng.bytes(70000)
        enc = pylzma.compress(rnd, format=pylzma.FORMAT_RAW, filters=[{"id": pylzma.FILTER_LZMA2, "preset": 0}])
        mats.append(dict(payload=enc, out=rnd, desc="liblzma incompressible 70000"))
    rng = run.rng
    # mid-stream compressed chunks of more than 64 KiB (control bytes 0xA1 / 0xC1 / 0xE1: the size's high
    # bits share the control byte with the reset class), reaching back across the chunk boundary when allowed
    reqs = []
    for cls in (1, 2, 3, 3):
        s1 = rng.below(1000)
        back = 250 if cls == 3 else 330
        # the byte before the boundary has non-zero upper bits (a literal context other than the initial one)
        reqs.append(dict(kind="lzma2", chunks="C3:2.1.2:X40.%d.200,L%d|C%d:3.0.1:X300.%d.200,M%d.273*241,X25.%d.200|C0:3.0.1:L65,M3.7" % (
            s1, rng.pick([229, 0x9C, 0x41]), cls, s1 + 1, back, s1 + 2)))
    for b in core.script(reqs):
        mats.append(dict(payload=b["payload"], out=b["out"], desc="bigmid:" + b.get("chunks", "")))
    # concatenations: a stream minus its end byte, followed by a stream that opens with a dictionary reset
    small = [m for m in mats if len(m["payload"]) < 4000]
    for i in range(sizes(run.tier, 40, 400)):
        a, b = rng.pick(small), rng.pick(small)
        chb = parse_lzma2(b["payload"])
        if not chb or chb[0]["kind"] == "end" or not (chb[0]["ctrl"] == 1 or chb[0]["ctrl"] >= 0xE0):
            continue
        mats.append(dict(payload=a["payload"][:-1] + b["payload"], out=a["out"] + b["out"], desc="concat"))
    for m in mats:
        ch = parse_lzma2(m["payload"])
        for c in ch:
            run.count("ctrl:%s" % ("end" if c["ctrl"] == 0 else "raw%d" % c["ctrl"] if c["ctrl"] < 3 else "%02x" % (c["ctrl"] & 0xE0)))
            if c["ctrl"] >= 0x80 and c["ctrl"] & 0x1F and c["off"] > 0:
                run.count("midstream-chunk>64KiB")
        run.add("lzma2 in=%s" % m["payload"].hex(), oracle=exp_ok_out(m["out"]), tag="c02",
                nontrivial=len(ch) > 1)
        if len(m["out"]) < 20000 and sum(1 for c in ch if c["ctrl"] == 1 or c["ctrl"] >= 0xE0) >= 2 and rng.chance(1, 2):
            # a sink that takes only part of each write must still receive everything (data is handed over at
            # every dictionary reset and at the end)
            script = ",".join(rng.pick(["u1", "u3", "u7", "u100"]) for _ in range(40))
            run.add("lzma2 sink=%s in=%s" % (script, m["payload"].hex()), oracle=exp_ok_out(m["out"]), tag="c02:short-writing-sink")
        if ch and rng.chance(1, 10):
            # the caller's reader itself decodes something with the library while it is being read
            run.add("lzma2 nest=1 in=%s" % m["payload"].hex(), oracle=exp_ok_out(m["out"]), tag="c02:nested-use")
        if len(m["payload"]) < 20000 and ch:
            # the same stream through a reader that hands it over in pieces (seams inside chunk headers)
            hot = [c["off"] + d for c in ch for d in (1, 2, 3, 4, 5, 6)]
            run.add("lzma2 rk=%s in=%s" % (reader_kind(rng, len(m["payload"]), hot), m["payload"].hex()),
                    oracle=exp_ok_out(m["out"]), tag="c02:reader", nontrivial=len(ch) > 1)
        if m.get("gen") and run.rng.chance(1, 2):
            r = liblzma_raw2(m["payload"])
            spec_check(run, "lzma2 %s" % m["desc"], r[0] == "ok" and r[1] == m["out"])
    # a well-formed stream resets dictionary, state and properties in its first chunk: whatever a previous, failed
    # decode left in the raw decoder object (no reset in between) must not show
    small = [m for m in mats if 0 < len(m["payload"]) < 4000 and len(m["out"]) > 0]
    for i in range(sizes(run.tier, 40, 300)):
        a, b = rng.pick(small), rng.pick(small)
        pa = a["payload"]
        bad = rng.pick([pa[:rng.below(len(pa) - 1) + 1], pa[:-1] + b"\x03", pa[:max(1, len(pa) // 2)] + b"\xff" * 9])

        def after_failure(res, meta, peak, out=b["out"], used=len(b["payload"])):
            toks = res.split(" ")
            if "panic" in res or v(res) in ("hang", "abort", "missing"):
                return "panic/hang"
            want = "ok:%d:%s" % (used, out_repr(out))
            return None if toks[-1] == want else "a well-formed stream decoded after a failed one (same raw decoder, no reset) gave %s, the format defines %s" % (toks[-1][:60], want[:60])
        run.add("rawlzma2 ops=%s:%s;d:%s" % (rng.pick(["d", "df"]), bad.hex(), b["payload"].hex()), oracle=after_failure, tag="c02:after-failed-decode")
    many = b"\x01\x00\x00A" + b"\x02\x00\x00B" * 50000 + b"\x00"
    run.add("lzma2 stk=2097152 in=%s" % many.hex(), oracle=exp_ok_out(b"A" + b"B" * 50000), tag="c02:50000-chunks-on-a-2MiB-stack", cmp=False)
    if run.tier == "thorough":
        # more than 16 MiB since the last dictionary reset, then a copy reaching 9 MiB back
        big = core.script([dict(kind="lzma2", chunks="|".join(["V1:65536.%d" % 1] + ["V2:65536.%d" % (i_ + 2) for i_ in range(263)]) +
                                "|C2:3.0.2:M%d.40,L9,M%d.273" % (9 * 1024 * 1024 + 123, 16 * 1024 * 1024))])[0]
        run.add("lzma2 in=%s" % big["payload"].hex(), oracle=exp_ok_out(big["out"]), tag="c02:window>16MiB", cmp=True)
    run.extra_cov["streams"] = len(mats)


# ----------------------------------------------------------------- C03

def xz_files(run, n, lz2):
    """well-formed supported .xz files around LZMA2 payloads; returns list of (bytes, out, desc, rec, check, blocks)"""
    rng = run.rng
    files = []
    for i in range(n):
        nb = rng.pick([0, 1, 1, 2, 3, 5])
        check = rng.pick([0, 1, 4])
        blocks = []
        for _ in range(nb):
            m = rng.pick(lz2)
            w = {}
            for k in ("packed", "unpacked", "idx_unpadded", "idx_unpacked", "filter_id", "props_size"):
                if rng.chance(1, 4):
                    w[k] = rng.pick([2, 3, 5, 9])
            blocks.append(core.XzBlock(m["payload"], m["out"], decl_packed=rng.chance(1, 2),
                                       decl_unpacked=rng.chance(1, 2), extra_pad_words=rng.pick([0, 0, 1, 3, 59, 60, 61, 120, 240, 249]),
                                       widths=w, props=bytes([rng.pick([0x16, 0, 40])])))
        rec = {}
        data = core.build_xz(check, blocks, rec)
        files.append(dict(data=data, out=b"".join(b.out for b in blocks), rec=rec, check=check, blocks=blocks,
                          desc="check%d blocks%d" % (check, nb)))
    return files


def c03(run: Run):
    lz2 = lzma2_material(run, 40, 300, 15, 100)
    files = xz_files(run, sizes(run.tier, 120, 1500), lz2)
    for f in files:
        run.count("check:%d" % f["check"])
        run.count("blocks:%d" % len(f["blocks"]))
        nonmin = any(b.widths for b in f["blocks"])
        run.count("nonminimal-mb" if nonmin else "minimal-mb")
        run.add("xz in=%s" % f["data"].hex(), oracle=exp_ok_out(f["out"]), tag="c03", nontrivial=len(f["blocks"]) > 0)
        if len(f["data"]) < 20000:
            # the same file through a reader that hands it over in pieces: seams inside the magic, the
            # block headers and their padding, the index, the footer and right before the last bytes
            n = len(f["data"])
            hot = [1, 3, 5, 7, 11, n - 1, n - 2, n - 3, n - 11] + [vv[0] for k, vv in f["rec"].items() if not k.startswith("_")] + \
                  [vv[0] + vv[1] for k, vv in f["rec"].items() if not k.startswith("_") and vv[1] > 1]
            run.add("xz rk=%s in=%s" % (reader_kind(run.rng, n, [h for h in hot if 0 < h <= n]), f["data"].hex()),
                    oracle=exp_ok_out(f["out"]), tag="c03:reader", nontrivial=len(f["blocks"]) > 0)
        if f["blocks"] and f["check"] in (1, 4) and run.rng.chance(1, 6):
            # a decode that fails late (bad block check: the payload has been decoded) followed, in the same process
            # and thread, by the valid file again: one-shot decodes share nothing
            d_ = bytearray(f["data"])
            o_, ln_ = f["rec"]["b0_check"]
            d_[o_] ^= 0x01
            run.add("xz in=%s" % bytes(d_).hex(), oracle=exp_err(), tag="c03:corrupt-then-valid")
            run.add("xz sink=f in=%s" % f["data"].hex(), oracle=None, tag="c03:sinkfault-then-valid", nontrivial=False)
            run.add("xz in=%s" % f["data"].hex(), oracle=exp_ok_out(f["out"]), tag="c03:corrupt-then-valid")
        if f["blocks"] and run.rng.chance(1, 8):
            # the caller's reader itself decodes something with the library while it is being read
            run.add("xz nest=1 in=%s" % f["data"].hex(), oracle=exp_ok_out(f["out"]), tag="c03:nested-use")
        if f["blocks"] and run.rng.chance(1, 4):
            # a sink that accepts only part of each write is still a sink: it must receive everything
            script = ",".join(run.rng.pick(["u1", "u3", "u7", "u100"]) for _ in range(60))
            run.add("xz sink=%s in=%s" % (script, f["data"].hex()), oracle=exp_ok_out(f["out"]), tag="c03:short-writing-sink")
        if not nonmin and all(b.props[0] in (0x16, 40) for b in f["blocks"]):   # props byte 0 = 4 KiB dictionary: liblzma enforces it, lzma-rs ignores the byte (recorded leniency)
            r = liblzma_xz(f["data"])
            spec_check(run, "xz " + f["desc"], r[0] == "ok" and r[1] == f["out"])
    # the dictionary size announced in the filter properties: a match at a distance of exactly that size is
    # legal (the byte encodes 4 KiB, 6 KiB, 8 KiB, … ; 40 is the format's maximum, 4 GiB - 1)
    reqs, pbs = [], []
    for pbyte, d in ((0, 4096), (1, 6144), (2, 8192), (4, 16384), (40, 4096), (39, 8192)):
        for dist in (d, d - 1) if pbyte < 39 else (d,):
            reqs.append(dict(kind="lzma2", chunks="V1:%d.%d|C2:3.0.2:L65,M%d.16,L66,M%d.2" % (d, run.rng.below(1000), dist, dist)))
            pbs.append(pbyte)
    for pbyte, b in zip(pbs, core.script(reqs)):
        blk = core.XzBlock(b["payload"], b["out"], decl_packed=run.rng.chance(1, 2), decl_unpacked=run.rng.chance(1, 2), props=bytes([pbyte]))
        data = core.build_xz(run.rng.pick([0, 1, 4]), [blk])
        run.add("xz in=%s" % data.hex(), oracle=exp_ok_out(b["out"]), tag="c03:dict-size-edge")
        r = liblzma_xz(data)
        spec_check(run, "xz dict-size edge props=%d" % pbyte, r[0] == "ok" and r[1] == b["out"])
    # chunk size extremes inside a container (2 MiB uncompressed size: every bit of the size field counts)
    for b in core.gen_material("lzma2big", 1, 2):
        blk = core.XzBlock(b["payload"], b["out"], decl_packed=True, decl_unpacked=True)
        run.add("xz in=%s" % core.build_xz(run.rng.pick([1, 4]), [blk]).hex(), oracle=exp_ok_out(b["out"]), tag="c03:chunk-extreme")
    # the two optional size fields of the block header, in every presence combination
    for i in range(sizes(run.tier, 8, 40)):
        m = run.rng.pick(lz2)
        for dp in (False, True):
            for du in (False, True):
                data = core.build_xz(run.rng.pick([0, 1, 4]), [core.XzBlock(m["payload"], m["out"], decl_packed=dp, decl_unpacked=du)])
                run.add("xz in=%s" % data.hex(), oracle=exp_ok_out(m["out"]), tag="c03:size-fields:%d%d" % (dp, du))
    # filter chains [LZMA2, LZMA2, …] (accepted by lzma-rs, a recorded leniency): every later filter
    # re-decodes the previous output, which must itself be an LZMA2 stream
    def raw_lzma2(data):
        out = b""
        for i in range(0, len(data), 65536):
            c = data[i:i + 65536]
            out += bytes([1]) + (len(c) - 1).to_bytes(2, "big") + c
        return out + b"\x00"
    for i in range(sizes(run.tier, 12, 80)):
        m = run.rng.pick(lz2)
        nf = run.rng.pick([2, 3, 4])
        payload = m["payload"]
        for _ in range(nf - 1):
            payload = raw_lzma2(payload)
        blk = core.XzBlock(payload, m["out"], decl_packed=run.rng.chance(1, 2), decl_unpacked=run.rng.chance(1, 2), nfilters=nf)
        run.add("xz in=%s" % core.build_xz(run.rng.pick([0, 1, 4]), [blk]).hex(), oracle=exp_ok_out(m["out"]), tag="c03:filter-chain")
        # filter property field of the wrong length
        bad = core.XzBlock(m["payload"], m["out"], props=run.rng.pick([b"", b"\x16\x00"]))
        run.add("xz in=%s" % core.build_xz(1, [bad]).hex(), oracle=exp_err(), tag="c03:filter-props-length")
    # files from liblzma itself
    for i in range(sizes(run.tier, 20, 200)):
        data = run.rng.pick([b"", b"a", b"hello world\n" * 50, run.rng.bytes(3000), bytes(5000)])
        chk = run.rng.pick([pylzma.CHECK_NONE, pylzma.CHECK_CRC32, pylzma.CHECK_CRC64])
        enc = pylzma.compress(data, format=pylzma.FORMAT_XZ, check=chk, preset=run.rng.below(7))
        run.add("xz in=%s" % enc.hex(), oracle=exp_ok_out(data), tag="c03:liblzma")
    run.extra_cov["files"] = len(files)
    crc_cases(run)


def crc_cases(run, n=25):
    """the model's CRC functions are opaque in the proofs: validate them against crate `crc` (and zlib)"""
    for i in range(n):
        data = run.rng.bytes(run.rng.pick([0, 1, 2, 9, 100, 1000]))
        run.add("crc in=%s" % data.hex(), tag="crc",
                oracle=lambda res, meta, peak, data=data: None if ("crc32=%08x" % crc32(data)) in res and
                ("crc64=%016x" % core.crc64(data)) in res else "crate crc disagrees with zlib/reference CRC", nontrivial=False)


# ----------------------------------------------------------------- C04

def c04(run: Run):
    rng = run.rng
    t = run.tier
    inputs = [b"", b"a", b"\x00", b"\xff", b"ab" * 30, bytes(300), b"\xff" * 300, bytes(range(256)) * 2]
    for _ in range(sizes(t, 6, 40)):
        inputs.append(rng.bytes(rng.pick([2, 17, 100, 1000])))
    # lengths that put a 7-bit group of the XZ index sizes (U, U + 16, …) on 0 / 127 / 128
    for n in [111, 112, 113, 127, 128, 129, 16367, 16368, 16383, 16384, 16385, 16400]:
        inputs.append(bytes((i * 13) & 0xFF for i in range(n)))
    big = [65535, 65536, 65537, 131072] if t == "quick" else [65535, 65536, 65537, 131072, 131073, 196608]
    for n in big:
        inputs.append(bytes((i * 31 + i // 251) & 0xFF for i in range(n)))
    # inputs that reach the rare carry classes of the range encoder's write_low (found by tools/enc_carry_search.c)
    for ln in open(os.path.join(core.ROOT, "corpus", "enc_carry.txt")):
        if ln.strip():
            inputs.append(bytes.fromhex(ln.split()[1]))
            run.count("enc-carry:" + ln.split()[0])
    inputs.append(b"\x00" * 70000)
    inputs.append(b"\xff" * 66000)
    pending = []
    for data in inputs:
        small = len(data) <= 2000
        frag_sets = ["", "1", "1,1,1,2,3", "7", "65536", "65535,1", "3,65536"]
        if small:
            fr = rng.pick(frag_sets) if rng.chance(1, 2) else ",".join(str(rng.below(9) + 1) for _ in range(12))
        else:
            fr = rng.pick(frag_sets)
        for kind, opts in (("lzma", ["hnone", "h%d" % len(data), "skip"]), ("lzma2", [""]), ("xz", [""])):
            if kind == "lzma" and len(data) > 70000 and t == "quick":
                continue
            for opt in opts:
                # sinks that take part of each write (1, 7 or 100 bytes): a short write may stop anywhere, also
                # between a chunk's header and its payload when the writer offers both in one vectored call
                for sink in ([""] if not small else ["", "u1," * 40, rng.pick(["u7,", "u5,", "u100,"]) * 60]):
                    cid = run.add("enc kind=%s opt=%s full=1 frags=%s sink=%s in=%s" % (kind, opt or "hnone", fr, sink.rstrip(","), data.hex()),
                                  oracle=lambda res, meta, peak: None if v(res) == "ok" else "encoder failed: %s" % res[:80],
                                  tag="c04:enc:" + kind, nontrivial=len(data) > 0)
                    pending.append((cid, kind, opt, data))
                    run.count("len:%s" % ("0" if not data else "<64K" if len(data) < 65535 else ">=64K"))

    # a source that itself uses the library while it is being read (a reader that compresses records lazily):
    # the encoders keep no state outside the call
    nested = []
    for data in inputs[:8]:
        for kind in ("lzma", "lzma2", "xz"):
            a_ = run.add("enc kind=%s opt=hnone full=1 in=%s" % (kind, data.hex()), oracle=None, tag="c04:enc:plain", nontrivial=False)
            b_ = run.add("enc kind=%s opt=hnone full=1 nest=1 in=%s" % (kind, data.hex()),
                         oracle=lambda res, meta, peak: None if v(res) == "ok" else "encoder failed when its source used the library too: %s" % res[:80],
                         tag="c04:enc:nested-use")
            nested.append((a_, b_))

    def post(run):
        for a_, b_ in nested:
            if run.impl[a_] != run.impl[b_]:
                run.report_violation(b_, run.cases[int(b_)][1], run.cases[int(b_)][2], run.impl[b_],
                                     "output differs when the source uses the library while being read")
        # decode what the implementation emitted: with lzma-rs, with the model decoder, with liblzma
        second = Run(run.prop, run.tier, run.seed)
        for cid, kind, opt, data in pending:
            res = run.impl[cid]
            if v(res) != "ok":
                continue
            enc = bytes.fromhex(outfield(res))
            if kind == "lzma":
                us = {"hnone": "hdr", "skip": "up:%d" % len(data)}.get(opt, "hdr")
                second.add("lzma us=%s in=%s" % (us, enc.hex()), oracle=exp_ok_out(data), tag="c04:dec:lzma")
                if len(enc) < 3000:
                    # … and by the streaming decoder, the encoding arriving in small pieces
                    c = run.rng.pick([1, 2, 3, 4, 5, 7, 9])
                    pieces = [enc[i:i + c] for i in range(0, len(enc), c)]
                    second.add("stream us=%s ops=%s" % (us, ";".join(["wa:" + x.hex() for x in pieces] + ["fin"])),
                               oracle=lambda res, meta, peak, data=data: None if stream_verdict(res) == "ok" and outfield(res) == out_repr(data) else
                               "the streaming decoder does not decode the encoder's output back (pieces of %d bytes): %s" % (meta["c"], res[-80:]),
                               tag="c04:dec:lzma-stream", c=c)
                if opt == "skip":
                    full_file = enc[:5] + len(data).to_bytes(8, "little") + enc[5:]
                else:
                    full_file = enc
                ref = liblzma_alone(full_file)
                ref2 = liblzma_auto(full_file)
                okref = ref[0] == "ok" and ref[1] == data and ref2[0] == "ok" and ref2[1] == data
            elif kind == "lzma2":
                second.add("lzma2 in=%s" % enc.hex(), oracle=exp_ok_out(data), tag="c04:dec:lzma2")
                ref = liblzma_raw2(enc)
                okref = ref[0] == "ok" and ref[1] == data
            else:
                second.add("xz in=%s" % enc.hex(), oracle=exp_ok_out(data), tag="c04:dec:xz")
                ref = liblzma_xz(enc)
                okref = ref[0] == "ok" and ref[1] == data
            run.count("liblzma:" + ("ok" if okref else "REJECT"))
            if not okref:
                run.violations.append(dict(id=cid, case=run.cases[int(cid)][1][:400], impl=res[:200], tag="c04:liblzma",
                                           why="an independent conforming decoder (liblzma) does not decode the emitted %s stream back to the input" % kind))
        second.execute()
        run.violations += second.violations
        run.disagreements += second.disagreements
        run.extra_cov["roundtrips_decoded"] = len(second.cases)
        for k, n in second.dist.items():
            run.count("rt:" + k, n)
    run.post = post


# ----------------------------------------------------------------- C05 / C15 / C16 (streaming)

def compositions(n):
    """all compositions of n (as lists of part sizes)"""
    if n == 0:
        return [[]]
    res = []
    for first in range(1, n + 1):
        for rest in compositions(n - first):
            res.append([first] + rest)
    return res


def chunkings(rng, n, k):
    """k chunkings of n bytes: structured and random (parts may be empty)"""
    res = [[n], [1] * n]
    for c in (2, 3, 5, 7, 13, 17, 18, 19, 20, 21, 23):
        if c < n:
            res.append([c] * (n // c) + ([n % c] if n % c else []))
    for cut in (1, 4, 5, 6, 12, 13, 14, 17, 18, 19):
        if cut < n:
            res.append([cut, n - cut])
            res.append([cut, 0, 1, n - cut - 1] if n - cut >= 1 else [cut, n - cut])
    while len(res) < k + 20:
        parts = []
        left = n
        while left > 0:
            p = rng.pick([0, 1, 1, 2, 3, 5, 8, 20, 21, 60, 300])
            p = min(p, left)
            parts.append(p)
            left -= p
        res.append(parts)
    rng_order = list(range(len(res)))
    # keep the first two (whole, bytewise) and a sample of the others
    picked = res[:2]
    rest = res[2:]
    while rest and len(picked) < k:
        picked.append(rest.pop(rng.below(len(rest))))
    return picked


def split_by(data, parts):
    out = []
    i = 0
    for p in parts:
        out.append(data[i:i + p])
        i += p
    if i < len(data):
        out.append(data[i:])
    return out


def stream_ops(data, parts, op="wa", st=False):
    """`st=True` interleaves state-digest probes (model vs implementation: staged bytes, range, code,
    carry-over buffer, every probability, state, reps)"""
    sep = ";st;" if st else ";"
    # an empty piece is a real `write(&[])` call (a feeding loop would not issue it)
    return sep.join("%s:%s" % (op if c else "w", c.hex()) for c in split_by(data, parts)) + (";st" if st else "") + ";fin"


def stream_verdict(res):
    toks = res.split(" ")
    calls = [t for t in toks if t.startswith(("wa", "w", "f")) and "=" not in t]
    bad = [t for t in calls if "err" in t or "panic" in t]
    if any("panic" in t for t in calls):
        return "panic"
    if res.startswith(("hang", "abort", "missing")):
        return v(res)
    fin = [t for t in calls if t.startswith("fin")]
    if bad or not fin:
        return "err"
    return "ok"


def c05_inputs(run, n):
    rng = run.rng
    mats = [m for m in core.gen_material("lzma", run.seed + 5, n * 3) if m["dict"] >= 4096 and len(m["out"]) < 40000][:n]
    # far matches under a 4 KiB dictionary (distance of exactly / nearly the dictionary size)
    far = core.script([dict(kind="lzma", lc=3, lp=0, pb=2, dict=4096, prog="X%d.%d.4,M%d.9,L65,M%d.3%s" % (
        4200, rng.below(1000), rng.pick([4096, 4095, 3000]), rng.pick([4096, 2049]), rng.pick(["", ",E"]))) for _ in range(2)])
    mats = far + mats
    inputs = []
    for m in mats:
        base = lzma_file(m)
        L = len(m["out"])
        inputs.append((base, "hdr", "valid"))
        inputs.append((lzma_file(m, size=L), "hdr", "valid-sized"))
        inputs.append((lzma_header(m["lc"], m["lp"], m["pb"], m["dict"], "skip") + m["payload"],
                       "up:%s" % ("none" if m["eos"] else L), "valid-up"))
        inputs.append((base, "hup:%s" % ("none" if m["eos"] else L), "valid-hup"))
        if len(base) > 14:
            cut = rng.below(len(base) - 1) + 1
            inputs.append((base[:cut], "hdr", "truncated"))
            inputs.append((base[:rng.pick([1, 4, 5, 12, 13, 14, 17, 18, 19])], "hdr", "truncated-header"))
            pos = rng.below(len(base))
            inputs.append((base[:pos] + bytes([base[pos] ^ (1 << rng.below(8))]) + base[pos + 1:], "hdr", "bitflip"))
        inputs.append((base + rng.bytes(rng.pick([1, 2, 30])), "hdr", "trailing"))
        inputs.append((base + rng.pick([b"\x00", b"\x00\x00\x00\x00\x00\x00", rng.bytes(25)]), "hdr", "trailing@%d" % len(base)))
        if m["dict"] == 4096:
            # a header announcing less than 4 KiB means 4 KiB (one rule, in the header parser, for both decoders)
            inputs.append((lzma_file(m, dict_field=rng.pick([0, 0, 1, 100, 2048, 4095])), "hdr", "small-dict-field"))
        if rng.chance(1, 4):
            inputs.append((lzma_header(m["lc"], m["lp"], m["pb"], m["dict"], "skip") + m["payload"], "up:%d" % U64MAX, "provided-2^64-1"))
            inputs.append((base, "hup:%d" % rng.pick([U64MAX, U64MAX - 1, 2**32]), "provided-huge"))
        inputs.append((lzma_file(m, size=L + 1), "hdr", "size+1"))
        if L > 0:
            inputs.append((lzma_file(m, size=L - 1), "hdr", "size-1"))
    # a valid stream whose last symbol reads 17-18 input bytes (the look-ahead bound of the streaming decoder is 20)
    cm = core.script([dict(kind="lzma", lc=0, lp=0, pb=0, dict=1 << 20, prog=costly_marker_program(rng))])[0]
    inputs.append((lzma_file(cm, size=None), "hdr", "costly-marker"))
    inputs.append((bytes([225]) + bytes(20), "hdr", "bad-props"))
    inputs.append((b"\x5d\x00\x00\x80\x00" + b"\xff" * 8 + b"\x00" * 5, "hdr", "k1-witness"))
    inputs.append((rng.bytes(40), "hdr", "random"))
    return inputs


def c05(run: Run):
    rng = run.rng
    inputs = c05_inputs(run, sizes(run.tier, 25, 300))
    groups = []
    per = sizes(run.tier, 6, 14)
    for data, us, kind in inputs:
        ref = run.add("lzma us=%s in=%s" % (us, data.hex()), oracle=no_crash, tag="c05:oneshot:" + kind)
        ks = []
        hl = 5 if us.startswith("up:") else 13
        if run.tier == "thorough" and hl < len(data) <= hl + 11:
            # header in one piece, then EVERY composition of what follows (<= 1024), plus every
            # single cut inside the header
            chs = [[hl] + c for c in compositions(len(data) - hl)] + [[k, len(data) - k] for k in range(1, hl)]
        else:
            chs = chunkings(rng, len(data), per)
        if kind == "costly-marker":
            # every two-piece split inside the last 48 bytes, and one-byte pieces over them
            n_ = len(data)
            chs = [[n_]] + [[c_, n_ - c_] for c_ in range(n_ - 48, n_)] + [[n_ - 48] + [1] * 48, [n_ - 30, 13, 17]]
        if "@" in kind:
            # cut exactly at the end of the valid stream: what follows arrives in later writes
            b = int(kind.split("@")[1])
            chs = chs[:3] + [[b, len(data) - b], [b, 1, len(data) - b - 1], [b - 1, 1, len(data) - b]]
        if kind in ("valid", "valid-sized") and rng.chance(1, 3):
            # under a memory limit both decoders must agree too (the window the limit is measured against is the same)
            ml = rng.pick([0, 1, 100, 4095, 4096, 5000, 2**40])
            r2 = run.add("lzma us=%s ml=%d in=%s" % (us, ml, data.hex()), oracle=no_crash, tag="c05:oneshot:memlimit")
            k2 = [run.add("stream us=%s ml=%d ops=%s" % (us, ml, stream_ops(data, parts)), oracle=None, tag="c05:stream:memlimit")
                  for parts in chunkings(rng, len(data), 3)]
            groups.append((r2, k2, data, kind))
        for parts in chs:
            ks.append(run.add("stream us=%s ops=%s" % (us, stream_ops(data, parts, st=(len(parts) <= 12 and len(data) > 0 and data[0] < 225 and data[0] % 9 + (data[0] // 9) % 5 <= 3))), oracle=None,
                              tag="c05:stream:" + kind, nontrivial=len(parts) > 1))
        groups.append((ref, ks, data, kind))

    # outputs that lap a dictionary whose size is not a multiple of 16 (4097, 5000), under limits at and just above
    # the dictionary size: both decoders measure the limit against the same window
    for m in [x for x in core.gen_material("lzmawrap", run.seed + 5, sizes(run.tier, 4, 12)) if len(x["out"]) > x["dict"]][:sizes(run.tier, 3, 8)]:
        data = lzma_file(m)
        for ml in (m["dict"] - 1, m["dict"], m["dict"] + 1, ((m["dict"] + 15) & ~15) - 1, (m["dict"] + 15) & ~15):
            r2 = run.add("lzma us=hdr ml=%d in=%s" % (ml, data.hex()), oracle=no_crash, tag="c05:oneshot:memlimit-wrap")
            k2 = [run.add("stream us=hdr ml=%d ops=%s" % (ml, stream_ops(data, parts)), oracle=None, tag="c05:stream:memlimit-wrap")
                  for parts in chunkings(rng, len(data), 2)]
            groups.append((r2, k2, data, "memlimit-wrap"))

    def post(run):
        for ref, ks, data, kind in groups:
            r = run.impl[ref]
            for k in ks:
                s = run.impl[k]
                sv = stream_verdict(s)
                if sv in ("panic", "hang", "abort", "missing"):
                    run.report_violation(k, run.cases[int(k)][1], run.cases[int(k)][2], s, "stream decoder: " + sv)
                    continue
                if len(data) == 0:
                    continue
                if sv != v(r) or (sv == "ok" and outfield(s) != outfield(r)):
                    run.report_violation(k, run.cases[int(k)][1], run.cases[int(k)][2], s,
                                         "streaming result differs from one-shot result `%s`" % r[:100])
    run.post = post


def c15(run: Run):
    rng = run.rng
    mats = [m for m in core.gen_material("lzma", run.seed + 15, 200) if m["dict"] >= 4096 and 0 < len(m["out"]) < 30000]
    mats = mats[:sizes(run.tier, 12, 100)]
    mats += core.script([dict(kind="lzma", lc=3, lp=0, pb=2, dict=4096, prog="X%d.%d.4,M%d.9,L65,M%d.3%s" % (
        4200, rng.below(1000), rng.pick([4096, 4095, 3000]), rng.pick([4096, 2049]), rng.pick(["", ",E"])))])
    mats += core.script([dict(kind="lzma", lc=3, lp=0, pb=2, dict=4096, prog=seam_program(rng, 4096, 1, 60) + rng.pick(["", ",E"]))])
    costly = core.script([dict(kind="lzma", lc=0, lp=0, pb=0, dict=1 << 20, prog=costly_marker_program(rng))])[0]
    costly["costly"], costly["eos"] = True, 1        # ends with a (long) end marker: no size in the header
    mats.append(costly)
    # outputs several times larger than the dictionary (laps of the window, copies ending on lap boundaries)
    mats += [m for m in core.gen_material("lzmawrap", run.seed + 15, sizes(run.tier, 3, 20)) if len(m["out"]) > m["dict"]]
    groups = []
    # streams share nothing either: a stream that grew a 128 KiB window is finished, then (same thread) the ordinary cases follow
    first = core.script([dict(kind="lzma", lc=3, lp=0, pb=2, dict=1 << 17, prog="X300.%d.200,M300.273*520" % rng.below(99))])[0]
    run.add("stream us=hdr ops=%s" % stream_ops(lzma_file(first), [700, len(lzma_file(first))]), oracle=lambda res, meta, peak, out=first["out"]:
            None if stream_verdict(res) == "ok" and outfield(res) == out_repr(out) else "a stream with a 128 KiB dictionary was not decoded correctly", tag="c15:big-window-first")
    if run.tier == "thorough":
        # one single write of more than 4 MiB (and the same bytes in 300 kB writes): incompressible data through the
        # crate's own literal-only encoding, so the compressed stream is as long as the data
        big = rng.bytes(4600000)
        bigenc = pylzma.compress(big, format=pylzma.FORMAT_ALONE, filters=[{"id": pylzma.FILTER_LZMA1, "preset": 0, "dict_size": 1 << 16}])
        for parts in ([len(bigenc)], [300000] * (len(bigenc) // 300000) + [len(bigenc) % 300000]):
            run.add("stream us=hdr ops=%s" % stream_ops(bigenc, [p_ for p_ in parts if p_]),
                    oracle=lambda res, meta, peak, out=big: None if stream_verdict(res) == "ok" and outfield(res) == out_repr(out) else
                    "a long stream written in %d call(s) was not decoded correctly: %s" % (meta["ncalls"], res[-80:]), tag="c15:huge-write", ncalls=len(parts),
                    cmp=False)       # implementation-only (the list-based model needs hours for 4.6 million literals)
    for m in mats:
        L = len(m["out"])
        forms = [("hdr", lzma_file(m), 13)]
        # 5-byte header (size supplied by the caller): header + preamble is 10 bytes, the staging buffer holds 18
        forms.append(("up:%s" % ("none" if m["eos"] else L),
                      lzma_header(m["lc"], m["lp"], m["pb"], m["dict"], "skip") + m["payload"], 5))
        # 13-byte header whose size field is read and ignored
        forms.append(("hup:%s" % ("none" if m["eos"] else L),
                      lzma_header(m["lc"], m["lp"], m["pb"], m["dict"], rng.pick([0, 7, 2**63])) + m["payload"], 13))
        if m["dict"] == 4096:
            # a header announcing less than 4 KiB means 4 KiB
            forms.append(("hdr", lzma_file(m, dict_field=rng.pick([0, 1, 100, 2048, 4095])), 13))
        for us, data, hl in forms:
            tr = run.add("trace us=%s in=%s" % (us, data.hex()), oracle=None, cmp=False, tag="c15:trace", nontrivial=False)
            cuts = sorted(set([hl + 5, hl + 6, hl + 7, hl + 12, len(data) // 2, len(data) - 1, len(data)] +
                              [rng.below(len(data)) + 1 for _ in range(sizes(run.tier, 3, 8))]))
            if m.get("costly"):
                if us != "hdr":
                    continue
                cuts = list(range(len(data) - 24, len(data) + 1))
            for cut in cuts:
                if cut < hl + 5 or cut > len(data):
                    continue
                pre = data[:cut]
                chs = chunkings(rng, len(pre), sizes(run.tier, 2, 5))
                if m.get("costly"):
                    # the write boundary inside the expensive symbol
                    chs = [[len(pre) - k_, k_] for k_ in (1, 2, 5, 17) if k_ < len(pre)]
                # a first piece shorter than header + preamble, then everything else in one go
                chs.append([rng.below(hl + 4) + 1, len(pre)])
                for parts in chs:
                    pieces = split_by(pre, parts)
                    ops = []
                    for c in pieces:
                        ops.append("wa:" + c.hex())
                        if rng.chance(1, 4):
                            ops.append("f")          # Write::flush between writes
                    ops.append("fin")
                    sink = ""
                    if len(m["out"]) > m["dict"] and rng.chance(1, 2):
                        # the window is handed to the sink lap by lap: a sink taking part of each write must still get all of it
                        sink = " sink=" + ",".join(rng.pick(["u1000", "u777", "u4000"]) for _ in range(80))
                    k = run.add("stream us=%s ai=1 full=1%s ops=%s" % (us, sink, ";".join(ops)), oracle=None,
                                tag="c15:prefix:" + us.split(":")[0] + (":shortsink" if sink else ""), nontrivial=cut < len(data))
                    groups.append((k, tr, m, cut))

    def post(run):
        traces = {}
        for k, tr, m, cut in groups:
            if tr not in traces:
                t = run_model_trace(run, tr)
                traces[tr] = t
            table = traces[tr]
            s = run.impl[k]
            meta = run.cases[int(k)][2]
            sv = stream_verdict(s)
            if sv != "ok":
                run.report_violation(k, run.cases[int(k)][1], meta, s,
                                     "finish with allow_incomplete failed after a prefix containing header and preamble (%s)" % sv)
                continue
            got = bytes.fromhex(outfield(s))
            if m["out"][:len(got)] != got:
                run.report_violation(k, run.cases[int(k)][1], meta, s, "streamed output is not a prefix of the final output")
                continue
            # monotone sink lengths
            lens = [int(t.split("@")[1]) for t in s.split(" ") if "@" in t and t.split("@")[1].isdigit()]
            if any(b < a for a, b in zip(lens, lens[1:])):
                run.report_violation(k, run.cases[int(k)][1], meta, s, "sink length decreased")
            # progress: everything determined by the input minus a 64-byte look-ahead
            accepted = sum(int(t[2:].split("@")[0]) for t in s.split(" ") if t.startswith("wa") and t[2:3].isdigit())
            need = 0
            for consumed, produced in table:
                if consumed <= accepted - 64:
                    need = produced
            if len(got) < need:
                run.report_violation(k, run.cases[int(k)][1], meta, s,
                                     "output lags behind: %d bytes delivered, %d determined by input[:-64]" % (len(got), need))
    run.post = post


def run_model_trace(run, tr):
    line = run.cases[int(tr)][1]
    res = core.run_model([line]).get(tr, "")
    table = []
    for tok in res.split(","):
        if ":" in tok:
            a, b = tok.split(":")
            if a.isdigit() and b.isdigit():
                table.append((int(a), int(b)))
    return table


def c16(run: Run):
    rng = run.rng
    mats = [m for m in core.gen_material("lzma", run.seed + 16, 120) if m["dict"] >= 4096 and 0 < len(m["out"]) < 20000]
    mats = mats[:sizes(run.tier, 20, 200)]
    for m in mats:
        good = lzma_file(m)
        L = len(m["out"])
        # (a) corrupt stream: error latches
        bad = bytearray(good)
        for _ in range(3):
            p = 13 + rng.below(max(1, len(bad) - 13))
            bad[p] ^= 0xFF
        bad = bytes(bad) + bytes(40)
        parts = split_by(bad, chunkings(rng, len(bad), 3)[-1])
        extra = [rng.bytes(rng.pick([0, 1, 30])) for _ in range(3)]
        # `wx` is the trait's own write_all: after a failure it must not report its (non-empty) buffer as written
        ops = ";".join(["go", "dbg"] + ["w:" + c.hex() for c in parts] + ["go", "dbg", "f"] + ["w:" + e.hex() for e in extra] +
                       ["f", "wx:" + rng.bytes(rng.pick([1, 7, 40])).hex(), "go", "w:" + good.hex(), "wx:" + good.hex(), "fin"])
        run.add("stream us=hdr ops=%s" % ops, oracle=latch_oracle, tag="c16:corrupt")
        # sink failure mid-stream latches too
        run.add("stream us=hdr sink=f ops=%s" % ";".join(["wa:" + good.hex(), "w:" + good.hex(), "f", "w:00", "wx:00", "fin"]),
                oracle=latch_oracle, tag="c16:sinkfault")
        # (b) size reached: further writes consume nothing
        sized = lzma_file(m, size=L)
        ops = ";".join(["wa:" + sized.hex()] + ["w:" + e.hex() for e in extra] + ["wx:" + rng.bytes(rng.pick([1, 9])).hex(), "go", "w:" + good.hex(), "f", "fin"])
        run.add("stream us=hdr ops=%s" % ops, oracle=size_latch_oracle(m["out"]), tag="c16:size-reached")
        # over-long input in one go
        run.add("stream us=hdr ops=%s" % ";".join(["wa:" + (sized + rng.bytes(50)).hex(), "w:aa", "wx:bb", "fin"]),
                oracle=size_latch_oracle(m["out"]), tag="c16:overlong")
        # (a1) a marker-terminated stream consumed completely by one write, then more writes: no call panics,
        # and whatever the first extra write does, the stream does not deliver more bytes afterwards
        if m["eos"]:
            def after_marker(res, meta, peak, n=L):
                toks = [t for t in res.split(" ") if "=" not in t]
                if any("panic" in t for t in toks) or v(res) in ("hang", "abort", "missing"):
                    return "panic/hang in a call sequence after the end marker"
                lens = [int(t.split("@")[1]) for t in toks if "@" in t and t.split("@")[1].isdigit()]
                if lens and max(lens) > n:
                    return "bytes delivered to the sink after the end marker"
                return latch_oracle(res, meta, peak)
            run.add("stream us=hdr ops=%s" % ";".join(["wa:" + good.hex(), "w:" + rng.bytes(rng.pick([1, 2, 25])).hex(), "w:" + good.hex(), "wx:00", "f", "fin"]),
                    oracle=after_marker, tag="c16:after-marker")
        # (a2) a header announcing a dictionary below 4 KiB (0 included) is a valid header: no call panics
        if m["dict"] == 4096 and rng.chance(1, 2):
            small = lzma_file(m, dict_field=rng.pick([0, 0, 1, 2048, 4095]))
            parts = split_by(small, chunkings(rng, len(small), 3)[-1])

            def valid_oracle(res, meta, peak, out=m["out"]):
                if stream_verdict(res) != "ok":
                    return "a valid stream fed in pieces did not finish successfully: %s" % res[:100]
                return None if outfield(res) == out_repr(out) else "a valid stream fed in pieces produced the wrong output"
            run.add("stream us=hdr ops=%s" % ";".join(["wa:" + c.hex() for c in parts] + ["fin"]), oracle=valid_oracle, tag="c16:small-dict-field")
        # (a3) the 5-byte header (size supplied by the caller) arriving in small pieces: header + preamble is
        # 10 bytes, the staging buffer holds 18
        if rng.chance(1, 2):
            up = lzma_header(m["lc"], m["lp"], m["pb"], m["dict"], "skip") + m["payload"]
            c = rng.pick([1, 2, 3, 4, 5, 6, 7, 8, 9])
            pieces = [up[i:i + c] for i in range(0, min(len(up), 24), c)] + ([up[((min(len(up), 24) + c - 1) // c) * c:]] if len(up) > 24 else [])

            def valid_oracle2(res, meta, peak, out=m["out"]):
                if stream_verdict(res) != "ok":
                    return "a valid stream (5-byte header) fed in pieces did not finish successfully: %s" % res[:100]
                return None if outfield(res) == out_repr(out) else "a valid stream (5-byte header) fed in pieces produced the wrong output"
            run.add("stream us=up:%s ops=%s" % ("none" if m["eos"] else L, ";".join(["wa:" + x.hex() for x in pieces if x] + ["fin"])),
                    oracle=valid_oracle2, tag="c16:short-header-pieces")
    # (b2) the declared size falls strictly inside a copy: the output passes it without ever being equal
    for m in [x for x in mats if x.get("cum")][:sizes(run.tier, 15, 120)]:
        cum = set(int(c) for c in m["cum"].split(",") if c)
        inside = [n for n in range(1, len(m["out"])) if n not in cum]
        if not inside:
            continue
        n = rng.pick(inside)
        data = lzma_header(m["lc"], m["lp"], m["pb"], m["dict"], n) + m["payload"] + bytes(40)
        extra = [rng.bytes(30), rng.bytes(30), good[:60]]

        def passed_oracle(res, meta, peak):
            toks = [t for t in res.split(" ") if "=" not in t]
            if any("panic" in t for t in toks) or v(res) in ("hang", "abort", "missing"):
                return "panic/hang in a call sequence"
            for t in toks[1:]:
                if t.startswith("w") and not (t.startswith("w0@") or t.startswith("werr")):
                    return "the declared size was passed (a copy straddles it) but a later write still consumed input: %s" % t
            if "finok" in toks:
                return "finish succeeded although the output passed the declared size"
            return None
        good = lzma_file(m)
        run.add("stream us=hdr ops=%s" % ";".join(["wa:" + data.hex()] + ["w:" + e.hex() for e in extra] + ["fin"]),
                oracle=passed_oracle, tag="c16:size-inside-copy")
    # (c) the moment the size is reached is visible when dict == declared size: from then on nothing is consumed
    wraps = core.gen_material("lzmawrap", run.seed + 16, sizes(run.tier, 12, 60))
    for m in wraps:
        if len(m["out"]) <= m["dict"]:
            continue
        D = m["dict"]
        data = lzma_header(m["lc"], m["lp"], m["pb"], D, D) + m["payload"][:700]
        for rep in range(sizes(run.tier, 5, 12)):
            ops, i = [], 0
            step = rng.pick([1, 2, 3, 4, 5, 7])
            while i < len(data):
                n = step if rng.chance(3, 4) else rng.below(9) + 1
                ops.append("wa:" + data[i:i + n].hex())
                i += n
            ops.append("fin")

            def reached_oracle(res, meta, peak, D=D):
                toks = [t for t in res.split(" ") if "=" not in t]
                seen = False
                for t in toks:
                    if t.startswith("wa") and "@" in t:
                        body, at = t[2:].split("@")
                        if seen and body != "0":
                            return "after the declared size was reached (sink holds %d bytes) a write still consumed input: %s" % (D, t)
                        if at.isdigit() and int(at) >= D:
                            seen = True
                    if "panic" in t:
                        return "panic"
                return None
            run.add("stream us=hdr ops=%s" % ";".join(ops), oracle=reached_oracle, tag="c16:size-visible", nontrivial=True)
    # (c2) the sink fails when a full lap of the window is handed over (k-th sink call), once or for good, also
    # after accepting part of that write: the write fails, and from then on the stream is inert
    for m in wraps[:sizes(run.tier, 6, 30)]:
        if len(m["out"]) <= m["dict"]:
            continue
        data = lzma_file(m)
        for k in (0, 1, 2):
            for tail in ("f", "f,a,a,a,a,a,a,a,a", "u1000,f,a,a,a,a,a,a,a"):
                script = ",".join(["a"] * k + [tail])
                parts = split_by(data, chunkings(rng, len(data), 3)[-1])
                ops = ["wa:" + c.hex() for c in parts] + ["w:" + rng.bytes(5).hex(), "wx:" + rng.bytes(3).hex(), "f", "w:" + data[:50].hex(), "fin"]
                run.add("stream us=hdr ai=%d sink=%s ops=%s" % (rng.below(2), script, ";".join(ops)), oracle=latch_oracle, tag="c16:sinkfault-at-lap")
    # (d) UseProvided: 5-byte header, fragmented; the payload left in the staging buffer is corrupt
    bads = [b for b in core.gen_material("lzmabad", run.seed + 16, sizes(run.tier, 150, 600)) if b["nsyms"] <= 2 and b["dict"] >= 4096]
    for b in bads[:sizes(run.tier, 25, 120)]:
        data = lzma_header(b["lc"], b["lp"], b["pb"], b["dict"], "skip") + b["payload"] + bytes(12)
        k = rng.below(9) + 1
        ops = ["wa:" + data[:k].hex(), "wa:" + data[k:].hex(), "w:0000", "f", "w:" + data.hex(), "fin"]
        run.add("stream us=up:none ai=%d ops=%s" % (rng.below(2), ";".join(ops)), oracle=latch_oracle, tag="c16:corrupt-in-staging")
    # (e) tiny streams, size supplied by the caller (5-byte header), header and preamble in small pieces, over-long
    # input: the size is reached inside the bytes still staged
    for b in core.script([dict(kind="lzma", lc=3, lp=0, pb=2, dict=4096, prog=pr) for pr in ("L65", "L65,L66", "L65,S", "L1,L2,L3", "L65,M1.5")]):
        n_ = len(b["out"])
        data = lzma_header(3, 0, 2, 4096, "skip") + b["payload"] + rng.bytes(rng.pick([3, 8, 30]))
        for c_ in (1, 2, 3, 4, 6, 7, 9):
            pieces = [data[i:i + c_] for i in range(0, len(data), c_)]
            run.add("stream us=up:%d ops=%s" % (n_, ";".join(["wa:" + x.hex() for x in pieces] + ["w:00", "go", "fin"])),
                    oracle=lambda res, meta, peak: "panic/hang in a call sequence" if (any("panic" in t for t in res.split(" ") if "=" not in t)
                                                                                       or v(res) in ("hang", "abort", "missing")) else None,
                    tag="c16:tiny-provided-size")
    # (f) the range coder's initial code at its extremes (all ones: code = range), fed in pieces
    for code in (0xFFFFFFFF, 0x7FFFFC00, 0):
        data = lzma_header(3, 0, 2, 4096, None) + b"\x00" + code.to_bytes(4, "big") + rng.bytes(20)
        for parts in chunkings(rng, len(data), 3):
            run.add("stream us=hdr ops=%s" % stream_ops(data, parts, op="w"), oracle=latch_oracle, tag="c16:coder-extremes")
    # header-state errors
    run.add("stream us=hdr ops=w:%s;w:00;w:%s;fin" % ((bytes([230]) + bytes(30)).hex(), bytes(40).hex()),
            oracle=latch_oracle, tag="c16:bad-header")


def latch_oracle(res, meta, peak):
    toks = [t for t in res.split(" ") if "=" not in t]
    if any("panic" in t for t in toks) or v(res) in ("hang", "abort", "missing"):
        return "panic/hang in a call sequence"
    failed_at = None
    for i, t in enumerate(toks):
        if t.startswith(("werr", "waerr")):
            failed_at = i
            break
    if failed_at is None:
        return None
    sink_len = toks[failed_at].split("@")[1]
    for t in toks[failed_at + 1:]:
        if t.startswith("go:"):
            if t != "go:none":
                return "get_output still hands out the sink after a failed write: %s" % t
        elif t.startswith("wx"):
            if t != "wxerr@" + sink_len:
                return "write_all after a failed write did not fail (or delivered bytes): %s" % t
        elif t.startswith("w"):
            if not (t.startswith("w0@") or t.startswith("wa0@")):
                return "a write after a failed write reported progress or failed differently: %s" % t
            if t.split("@")[1] != sink_len:
                return "a write after a failed write delivered bytes to the sink"
        if t.startswith("fin") and t != "finerr":
            return "finish succeeded after a failed write"
    if core.fields(res).get("out") is not None and repr_len(core.fields(res)["out"]) != int(sink_len):
        return "sink changed after a failed write"
    return None


def size_latch_oracle(expected):
    def oracle(res, meta, peak):
        toks = [t for t in res.split(" ") if "=" not in t]
        if any("panic" in t for t in toks) or v(res) in ("hang", "abort", "missing"):
            return "panic/hang in a call sequence"
        if not toks or not toks[0].startswith("wa") or "err" in toks[0]:
            return "feeding a valid sized stream failed: %s" % toks[:1]
        base = toks[0].split("@")[1]
        for t in toks[1:]:
            if t.startswith("go:"):
                if t == "go:none" or t == "go:inconsistent":
                    return "get_output does not hand out the sink of a healthy stream: %s" % t
            elif t.startswith("wx"):
                if t != "wxerr@" + base:
                    return "write_all after the declared size was reached reported its buffer as written: %s" % t
            elif t.startswith("w") and not t.startswith("w0@" + base):
                return "a write after the declared size was reached consumed input or changed the output: %s" % t
        if "finok" not in toks:
            return "finish failed after the declared size was reached"
        if outfield(res) != out_repr(expected):
            return "output changed after the declared size was reached"
        return None
    return oracle
