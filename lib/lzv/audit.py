"""Static audits run with every check (cheap translator-style ties to the source)."""
import os
import re

from . import core

SRC = os.path.join(core.REPO, "src")

# raw I/O call sites the model's reader/sink layer accounts for: (file, regex of the line)
ALLOWED_RAW = {
    ".read(": [
        ("decode/rangecoder.rs", r"self\.stream\.read\(dst\)"),                 # RangeDecoder::read_into (Stream only, on Cursor)
        ("decode/util.rs", r"self\.read\.read\(buf\)"),                         # CrcDigestRead::read, CountBufRead::read
        ("decode/stream.rs", r"input\.read\(&mut self\.tmp"),                    # Stream::write staging copies (in-memory Cursor)
        ("encode/lzma2.rs", r"input\.read\(&mut buf\)"),                         # LZMA2 writer (fragmentation oracle in the model)
    ],
    ".write(": [
        ("encode/util.rs", r"self\.write\.write\(buf\)"),                       # CrcDigestWrite / CountWrite forwarders
    ],
    ".fill_buf(": [
        ("decode/util.rs", r"input\.fill_buf\(\)"),                             # is_eof, flush_zero_padding
        ("decode/util.rs", r"self\.read\.fill_buf\(\)"),                        # CountBufRead forwarder
        ("decode/lzma.rs", r"rangecoder\.stream\.fill_buf\(\)"),                # process_mode
    ],
    ".consume(": [
        ("decode/util.rs", r"input\.consume\(len\)"),
        ("decode/util.rs", r"self\.read\.consume\(amt\)"),
    ],
    ".bytes()": [
        ("encode/dumbencoder.rs", r"input\.bytes\(\)"),
    ],
}


def strip_tests(text):
    i = text.find("#[cfg(test)]\nmod test")
    return text if i < 0 else text[:i]


def raw_io_sites():
    sites = []
    for root, _, files in os.walk(SRC):
        for fn in files:
            if not fn.endswith(".rs"):
                continue
            p = os.path.join(root, fn)
            rel = os.path.relpath(p, SRC)
            text = strip_tests(open(p).read())
            for ln, line in enumerate(text.splitlines(), 1):
                code = re.sub(r"//.*$", "", line)
                for pat in ALLOWED_RAW:
                    if pat in code:
                        sites.append((rel, ln, pat, code.strip()))
    return sites


def run_audits(prop):
    rep = {}
    problems = []
    if prop in ("C12", "C13", "C04"):
        unknown = []
        sites = raw_io_sites()
        for rel, ln, pat, code in sites:
            if not any(rel == f and re.search(rx, code) for f, rx in ALLOWED_RAW[pat]):
                unknown.append("%s:%d `%s`" % (rel, ln, code))
        rep["raw_io_call_sites"] = len(sites)
        rep["raw_io_unaccounted"] = unknown
        if unknown:
            problems.append("call-site audit: raw I/O call(s) the model's reader/sink layer does not account for: " + "; ".join(unknown[:4]))
    return dict(report=rep, problems=problems)
