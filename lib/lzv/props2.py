"""Per-property case generation and oracles, part 2 (C06–C14, C17, C18)."""
import lzma as pylzma

from . import core
from .core import crc32, lzma_header, out_repr
from .run import Run
from .props import (reader_kind, costly_marker_program, v, outfield, is_prefix_repr, repr_len, exp_ok_out, exp_err, no_crash, sizes, lzma_file,
                    liblzma_raw2, liblzma_xz, liblzma_alone, lzma2_material, xz_files, parse_lzma2, chunkings,
                    split_by, stream_ops, stream_verdict, spec_check)

U64MAX = 2**64 - 1


# ----------------------------------------------------------------- C06

def c06(run: Run):
    rng = run.rng
    lz2 = [m for m in lzma2_material(run, 30, 120, 8, 40) if len(m["payload"]) < 600]
    base = [f for f in xz_files(run, 60, lz2) if f["check"] in (1, 4) and len(f["blocks"]) >= 1 and len(f["data"]) < 1500]
    base = base[:sizes(run.tier, 3, 30)]
    none_files = [f for f in xz_files(run, 30, lz2) if f["check"] == 0 and len(f["blocks"]) >= 1][:sizes(run.tier, 1, 6)]
    for f in base:
        data, out = f["data"], f["out"]
        run.add("xz in=%s" % data.hex(), oracle=exp_ok_out(out), tag="c06:valid")

        def intact(res, meta, peak, out=out):
            if v(res) == "ok" and outfield(res) != out_repr(out):
                return "corrupted file accepted with output that differs from the original"
            return no_crash(res, meta, peak)

        def must_reject(res, meta, peak):
            if v(res) != "err":
                return "corrupted integrity field accepted (%s)" % meta.get("field")
            return None
        # every single-bit flip
        step = 1 if run.tier == "thorough" or len(data) < 400 else 3
        for i in range(0, len(data) * 8, step):
            mut = bytearray(data)
            mut[i // 8] ^= 1 << (i % 8)
            run.add("xz in=%s" % bytes(mut).hex(), oracle=intact, tag="c06:bitflip", nontrivial=True)
        # truncation at every byte
        for i in range(len(data)):
            run.add("xz in=%s" % data[:i].hex(), oracle=exp_err(), tag="c06:truncate")
        # every integrity/size field replaced, enclosing CRCs recomputed
        rec = f["rec"]
        nb = len(f["blocks"])
        for name, val in sorted(rec.items()):
            if name.startswith("_"):
                continue
            off, ln = val
            if ln == 0:
                continue
            muts = []
            if name in ("ftr_backward",):
                orig = int.from_bytes(data[off:off + 4], "little")
                for val in (0, orig + 1, orig - 1 if orig else 7, orig | 0x40000000, orig | 0x80000000, 0xFFFFFFFF, 2**31):
                    if val != orig:
                        muts.append(data[:off] + (val & 0xFFFFFFFF).to_bytes(4, "little") + data[off + 4:])
            elif name.endswith(("_crc", "_hcrc", "_check", "_magic")) or name == "hdr_crc":
                for j in range(ln):
                    muts.append(data[:off + j] + bytes([data[off + j] ^ 0x01]) + data[off + j + 1:])
                # these are the CRCs themselves: do not refresh them
                for mu in muts:
                    run.add("xz in=%s" % mu.hex(), oracle=must_reject, tag="c06:field:" + name.split("_", 1)[-1], field=name)
                continue
            elif name.endswith(("pad", "hpad")):
                if ln >= 2:
                    # every padding byte the same non-zero value / two equal bytes (sums and XORs cancel)
                    for fill in (b"\x41" * ln, b"\x5a\x5a" + b"\x00" * (ln - 2), b"\x80" * ln, b"\xff" * ln):
                        muts.append(data[:off] + fill + data[off + ln:])
                for j in range(ln):
                    muts.append(data[:off + j] + b"\x01" + data[off + j + 1:])
                    # … also when the reader hands the padding over in pieces (a seam right after the bad byte,
                    # small BufReader capacities): the verdict must not depend on the last piece alone
                    mu2 = core.refresh_crcs(muts[-1], rec, nb)
                    for rk in ["cut:%d" % (off + j + 1), "buf:%d" % rng.pick([1, 2, 3, 5, 6, 7, 9, 18, 19]), reader_kind(rng, len(mu2), [off, off + j, off + ln])]:
                        run.add("xz rk=%s in=%s" % (rk, mu2.hex()), oracle=must_reject, tag="c06:field:" + name.split("_", 1)[-1] + ":reader", field=name)
            elif name in ("flags", "ftr_flags"):
                cur = data[off + 1]
                for val in range(256):          # every value of the check-type byte (reserved bits included)
                    if val != cur:
                        muts.append(data[:off + 1] + bytes([val]) + data[off + 2:])
                for val in (1, 0x80, 0xFF):
                    muts.append(data[:off] + bytes([val]) + data[off + 1:])
            elif "idx" in name or name.endswith(("_packed", "_unpacked")):
                b0 = data[off]
                for val in ((b0 & 0x80) | ((b0 + 1) & 0x7F), (b0 & 0x80) | ((b0 - 1) & 0x7F), b0 ^ 0x40):
                    if val != b0:
                        muts.append(data[:off] + bytes([val]) + data[off + 1:])
            elif name.endswith("_hs"):
                continue
            else:
                continue
            for mu in muts:
                mu2 = core.refresh_crcs(mu, rec, nb)
                run.add("xz in=%s" % mu2.hex(), oracle=must_reject, tag="c06:field:" + name.split("_", 1)[-1], field=name)
    # declared block sizes replaced by special values (0 included: a declared size of zero is still a declared
    # size), and a self-consistent index with fewer / more records than there are blocks
    def must_reject3(res, meta, peak):
        return None if v(res) == "err" else "%s but the file was accepted" % meta.get("what")
    for f in base + [x for x in xz_files(run, 40, lz2) if len(x["blocks"]) >= 2 and len(x["data"]) < 4000][:sizes(run.tier, 3, 20)]:
        for bi, b0 in enumerate(f["blocks"][:2]):
            for which, true in (("unpacked", len(b0.out)), ("packed", len(b0.payload))):
                for val in (0, 1, true + 1, true - 1, 2**21, true + 128, true + 2**64, true + 63 * 2**64):  # the last two: ten-byte encodings whose low 64 bits are right (seeded change C06f-2)
                    if val == true or val < 0:
                        continue
                    bl = [core.XzBlock(b.payload, b.out, b.decl_packed, b.decl_unpacked, b.extra_pad_words, dict(b.widths),
                                       b.filter_id, b.flags_extra, b.props) for b in f["blocks"]]
                    if which == "unpacked":
                        bl[bi].decl_unpacked, bl[bi].unpacked_override = True, val
                    else:
                        bl[bi].decl_packed, bl[bi].packed_override = True, val
                    run.add("xz rk=%s in=%s" % (rng.pick(["flat", "buf:3", "cur"]), core.build_xz(f["check"], bl).hex()), oracle=must_reject3,
                            tag="c06:declared-size", what="block %d declares %s size %d, the real one is %d" % (bi, which, val, true))
        recs = f["rec"]["_records"]
        for vr, what in ((recs[:-1], "index lists one record fewer than there are blocks"), ([], "index lists no record"),
                         (recs[1:], "index lacks the first block's record"), (recs + recs[-1:], "index lists one record too many")):
            if vr == recs:
                continue
            run.add("xz in=%s" % core.build_xz(f["check"], f["blocks"], index_records=vr).hex(), oracle=must_reject3,
                    tag="c06:index-count", what=what)
    # the same size checks on blocks with a chain of filters (lzma-rs accepts LZMA2 -> LZMA2)
    for i in range(sizes(run.tier, 4, 20)):
        m = rng.pick(lz2)
        inner = m["payload"]
        outer = b"".join(bytes([1 if j == 0 else 2]) + (len(inner[j:j + 65536]) - 1).to_bytes(2, "big") + inner[j:j + 65536] for j in range(0, len(inner), 65536)) + b"\x00"
        for which, true in (("packed", len(outer)), ("unpacked", len(m["out"]))):
            for val in (true + 1, max(0, true - 1), 0, true + 1000):
                if val == true:
                    continue
                blk = core.XzBlock(outer, m["out"], decl_packed=True, decl_unpacked=True, nfilters=2)
                if which == "packed":
                    blk.packed_override = val
                else:
                    blk.unpacked_override = val
                run.add("xz in=%s" % core.build_xz(rng.pick([0, 1, 4]), [blk]).hex(), oracle=must_reject3, tag="c06:declared-size-filter-chain",
                        what="two-filter block declares %s size %d, the real one is %d" % (which, val, true))
        run.add("xz in=%s" % core.build_xz(1, [core.XzBlock(outer, m["out"], decl_packed=True, decl_unpacked=True, nfilters=2)]).hex(),
                oracle=exp_ok_out(m["out"]), tag="c06:valid-filter-chain")
    # index records that are individually wrong but keep the totals (swap, +k/-k)
    multi = [f for f in xz_files(run, 80, lz2) if len(f["blocks"]) >= 2 and len(f["data"]) < 4000][:sizes(run.tier, 4, 30)]
    for f in multi:
        recs = f["rec"]["_records"]
        variants = []
        if recs[0] != recs[1]:
            variants.append([recs[1], recs[0]] + recs[2:])
        for k in (1, 4, 5):
            if recs[1][1] >= k:
                variants.append([(recs[0][0], recs[0][1] + k), (recs[1][0], recs[1][1] - k)] + recs[2:])
            if recs[1][0] > k:
                variants.append([(recs[0][0] + k, recs[0][1]), (recs[1][0] - k, recs[1][1])] + recs[2:])
        run.add("xz in=%s" % f["data"].hex(), oracle=exp_ok_out(f["out"]), tag="c06:valid-multiblock")
        for vr in variants:
            d2 = core.build_xz(f["check"], f["blocks"], index_records=vr)

            def must_reject2(res, meta, peak):
                return None if v(res) == "err" else "index records disagree with the blocks (totals preserved) but the file was accepted"
            run.add("xz in=%s" % d2.hex(), oracle=must_reject2, tag="c06:index-records")
    for f in none_files:
        data = f["data"]
        run.add("xz in=%s" % data.hex(), oracle=exp_ok_out(f["out"]), tag="c06:valid-nocheck")
        for i in range(len(data)):
            run.add("xz in=%s" % data[:i].hex(), oracle=exp_err(), tag="c06:truncate")
    from .props import crc_cases
    crc_cases(run)
    run.extra_cov["base_files"] = len(base) + len(none_files)
    run.extra_cov["exhaustive_part"] = "all single-bit flips (thorough; every 3rd bit of large files in quick) and all truncations of each base file"


# ----------------------------------------------------------------- C07

def c07(run: Run):
    rng = run.rng
    n = sizes(run.tier, 60, 1200)
    lz = [m for m in core.gen_material("lzma", run.seed + 7, 60) if len(m["payload"]) < 3000]
    lz2 = [m for m in lzma2_material(run, 30, 100, 6, 30) if len(m["payload"]) < 3000]
    xzs = [f for f in xz_files(run, 30, lz2) if len(f["data"]) < 3000]

    def bound(inlen):
        def oracle(res, meta, peak):
            msg = no_crash(res, meta, peak)
            if msg:
                return msg
            outlen = repr_len(outfield(res)) if "out=" in res else 0
            limit = 8 * 1024 * 1024 + 4 * (inlen + outlen) + 4 * 1024 * 1024 * meta.get("litfactor", 0)
            if peak > limit:
                return "heap peak %d bytes out of proportion to %d consumed + %d produced" % (peak, inlen, outlen)
            return None
        return oracle

    def mutate(data):
        k = rng.below(7)
        d = bytearray(data)
        if not d:
            return bytes(rng.bytes(5))
        if k == 0:
            for _ in range(rng.below(4) + 1):
                d[rng.below(len(d))] ^= 1 << rng.below(8)
        elif k == 1:
            p = rng.below(len(d))
            val = rng.pick([b"\x00" * 4, b"\xff" * 4, (2**31).to_bytes(4, "little"), (2**32 - 1).to_bytes(4, "little"), b"\xff" * 8])
            d[p:p + len(val)] = val
        elif k == 2:
            d = d[:rng.below(len(d))]
        elif k == 3:
            p = rng.below(len(d))
            d = d[:p] + d[p:p + rng.below(40)] * 2 + d[p:]
        elif k == 4:
            other = rng.pick(lz)["payload"]
            p = rng.below(len(d))
            d = d[:p] + other[rng.below(len(other) + 1):]
        elif k == 5:
            d = d + rng.bytes(rng.below(30))
        else:
            p = rng.below(len(d))
            d[p] = rng.pick([0, 1, 2, 3, 0x7F, 0x80, 0xE0, 0xFF, 224, 225])
        return bytes(d)

    for i in range(n):
        which = rng.below(10)
        if which == 0:
            data = rng.bytes(rng.pick([0, 1, 5, 13, 18, 40, 300]))
        elif which < 4:
            data = mutate(lzma_file(rng.pick(lz)))
        elif which < 6:
            data = mutate(rng.pick(lz2)["payload"])
        elif which < 9:
            f = rng.pick(xzs)
            data = mutate(f["data"])
            if rng.chance(1, 2) and len(data) == len(f["data"]):
                try:
                    data = core.refresh_crcs(data, f["rec"], len(f["blocks"]))
                except Exception:
                    pass
        else:
            # header announcing a huge dictionary / size, then little data
            data = lzma_header(rng.below(9), rng.below(5), rng.below(5), rng.pick([2**32 - 1, 2**31, 2**30]),
                               rng.pick([None, 2**63, 2**64 - 2, 0])) + rng.bytes(rng.pick([0, 5, 6, 40]))
        us = rng.pick(["hdr", "hdr", "hup:none", "hup:%d" % rng.pick([0, 5, 2**40]), "up:none", "up:%d" % rng.pick([0, 7, 2**62])])
        ml = rng.pick(["none", "none", "0", "1", "4096", str(2**40)])
        h = data.hex()
        lit = 1
        o = bound(len(data))
        run.add("lzma us=%s ml=%s in=%s" % (us, ml, h), oracle=o, tag="c07:lzma", release=True, litfactor=lit)
        run.add("lzma2 in=%s" % h, oracle=o, tag="c07:lzma2", release=True)
        run.add("xz in=%s" % h, oracle=o, tag="c07:xz", release=True)
        parts = chunkings(rng, len(data), 3)[-1]
        run.add("stream us=%s ml=%s ai=%d ops=%s" % (us, ml, rng.below(2), stream_ops(data, parts, op=rng.pick(["w", "wa"]))),
                oracle=lambda res, meta, peak: "panic/hang in stream" if (stream_verdict(res) in ("panic", "hang", "abort", "missing")) else None,
                tag="c07:stream", release=True)
        if rng.chance(1, 3):
            lc, lp, pb = rng.below(9), rng.below(5), rng.below(5)
            dict_size = rng.pick([1, 2, 3, 4096, 2**32 - 1])
            run.add("rawlzma lc=%d lp=%d pb=%d dict=%d us=%s ml=%s ops=d:%s;r;d:%s" % (
                lc, lp, pb, dict_size, rng.pick(["none", "0", "100", str(2**63)]), ml, h, h),
                oracle=lambda res, meta, peak: "panic/hang in raw decoder: " + res[:80] if ("panic" in res or v(res) in ("hang", "abort", "missing")) else None,
                tag="c07:rawlzma", release=True)
            run.add("rawlzma2 ops=d:%s;r;d:%s" % (h, h),
                    oracle=lambda res, meta, peak: "panic/hang in raw decoder: " + res[:80] if ("panic" in res or v(res) in ("hang", "abort", "missing")) else None,
                    tag="c07:rawlzma2", release=True)
    # a raw decoder object used again after FAILED decodes without reset, with the state hand-over (`fsdump=1`,
    # two-stage): after each failure the harness dumps the object the call left behind, the model reads it back,
    # evaluates the invariant of the `C07Any` theorems on it (`checkInv`, sound by `C07State.checkInv_sound`) and
    # continues from it — so the following decodes and state digests are compared exactly instead of `unspec`
    def handover_oracle(res, meta, peak):
        if "panic" in res or v(res) in ("hang", "abort", "missing"):
            return "panic/hang in a raw decoder used after a failed decode: " + res[:80]
        return None
    def spoil(data):
        k = rng.below(5)
        if k == 0 and len(data) > 6:
            return data[:5 + rng.below(len(data) - 5)]                      # input ends inside a symbol
        if k == 1 and len(data) > 6:
            p = 5 + rng.below(len(data) - 5)
            return data[:p] + bytes([data[p] ^ (1 << rng.below(8))]) + data[p + 1:]
        if k == 2:
            return data[:5 + rng.below(3)] if len(data) > 8 else data[:3]   # range-coder initialisation / first symbols
        if k == 3:
            return data + rng.bytes(rng.below(6) + 1)
        return rng.bytes(rng.below(40) + 6)
    lz_small = [x for x in lz if x["lc"] + x["lp"] <= 4] or lz          # a dump is (0x300 << (lc + lp)) * 2 + ~3 KiB bytes
    for i in range(sizes(run.tier, 60, 600)):
        m = rng.pick(lz_small) if rng.below(8) else rng.pick(lz)
        us = "none" if m["eos"] else rng.pick([str(len(m["out"])), str(len(m["out"])), str(len(m["out"]) + 3), "none"])
        good = m["payload"]
        ops = []
        for j in range(rng.below(4) + 2):
            ops.append("d:" + (spoil(good) if rng.below(3) else good).hex())
            if rng.below(3) == 0:
                ops.append("st")
            if rng.below(6) == 0:
                ops.append(rng.pick(["r", "rs:none", "rs:%d" % len(m["out"])]))
        ops += ["d:" + good.hex(), "st"]
        run.add("rawlzma fsdump=1 lc=%d lp=%d pb=%d dict=%d us=%s ml=none ops=%s" % (m["lc"], m["lp"], m["pb"], m["dict"], us, ";".join(ops)),
                oracle=handover_oracle, tag="c07:rawlzma:after-failure-handover", twostage=True)
    # targeted error paths (the property's "structured mutations": sizes that fall inside a copy,
    # chunk sizes off by a few, stale distances after a dictionary reset, huge announced sizes)
    for m in [x for x in lz if x.get("cum") and len(x["out"]) > 3 and x["dict"] >= 4096][:sizes(run.tier, 25, 200)]:
        cum = set(int(c) for c in m["cum"].split(",") if c)
        inside = [n for n in range(1, len(m["out"])) if n not in cum][:3]
        for n in inside + [len(m["out"]) - 1]:
            data = lzma_header(m["lc"], m["lp"], m["pb"], m["dict"], n) + m["payload"]
            run.add("lzma us=hdr in=%s" % data.hex(), oracle=bound(len(data)), tag="c07:size-inside-copy", release=True)
            run.add("stream us=hdr ops=%s" % stream_ops(data, [len(data)], op="wa"),
                    oracle=lambda res, meta, peak: "panic/hang in stream" if (stream_verdict(res) in ("panic", "hang", "abort", "missing")) else None,
                    tag="c07:stream-size-inside-copy", release=True)
    for m in [x for x in lz2 if x.get("gen")][:sizes(run.tier, 20, 100)]:
        pay = m["payload"]
        for c in [c for c in parse_lzma2(pay) if c["kind"] == "lzma"][:2]:
            o = c["off"]
            for du in (-1, -2, -7, 1):
                nu = c["unpacked"] + du
                if 1 <= nu <= (1 << 21):
                    mut = pay[:o] + bytes([(pay[o] & 0xE0) | ((nu - 1) >> 16)]) + ((nu - 1) & 0xFFFF).to_bytes(2, "big") + pay[o + 3:]
                    run.add("lzma2 in=%s" % mut.hex(), oracle=bound(len(mut)), tag="c07:chunk-size-off", release=True)
    for b in core.gen_material("lzma2bad", run.seed + 7, sizes(run.tier, 40, 300)):
        run.add("lzma2 in=%s" % b["payload"].hex(), oracle=bound(len(b["payload"])), tag="c07:lzma2-stale-distance", release=True)
        run.add("rawlzma2 ops=d:%s;d:%s" % (b["payload"].hex(), b["payload"].hex()),
                oracle=lambda res, meta, peak: "panic/hang in raw decoder: " + res[:80] if ("panic" in res or v(res) in ("hang", "abort", "missing")) else None,
                tag="c07:rawlzma2", release=True)
    for f in [x for x in xzs if x["blocks"]][:sizes(run.tier, 6, 30)]:
        for val in (2**30, 2**40, 2**62, 2**63 - 1):
            for which in ("unpacked", "packed"):
                bl = [core.XzBlock(b.payload, b.out, which == "packed" or b.decl_packed, which == "unpacked" or b.decl_unpacked,
                                   b.extra_pad_words, dict(b.widths), b.filter_id, b.flags_extra, b.props) for b in f["blocks"]]
                if which == "unpacked":
                    bl[0].unpacked_override = val
                else:
                    bl[0].packed_override = val
                d = core.build_xz(f["check"], bl)
                run.add("xz in=%s" % d.hex(), oracle=bound(len(d)), tag="c07:xz-huge-announced-size", release=True)
    # the boundary value of the properties byte, wherever one is read
    for pb_ in (224, 225, 226, 255):
        m = rng.pick(lz)
        data = bytes([pb_]) + lzma_file(m)[1:]
        run.add("lzma us=hdr in=%s" % data.hex(), oracle=bound(len(data)), tag="c07:props-byte", release=True)
        run.add("stream us=hdr ops=%s" % stream_ops(data, chunkings(rng, len(data), 3)[-1]),
                oracle=lambda res, meta, peak: "panic/hang in stream" if (stream_verdict(res) in ("panic", "hang", "abort", "missing")) else None,
                tag="c07:props-byte", release=True)
        for l2 in [x for x in lz2 if x.get("gen")][:6]:
            for c in [c for c in parse_lzma2(l2["payload"]) if c["kind"] == "lzma" and c["props_off"] is not None][:1]:
                mut = l2["payload"][:c["props_off"]] + bytes([pb_]) + l2["payload"][c["props_off"] + 1:]
                run.add("lzma2 in=%s" % mut.hex(), oracle=bound(len(mut)), tag="c07:props-byte", release=True)
                run.add("xz in=%s" % core.build_xz(1, [core.XzBlock(mut, l2["out"])]).hex(), oracle=bound(len(mut) + 60), tag="c07:props-byte", release=True)
    # an end marker followed by more input in a LATER call (stream), or by another decompress (raw decoder)
    for m in [x for x in lz if x["eos"] and x["dict"] >= 4096][:sizes(run.tier, 12, 80)]:
        good = lzma_file(m)
        more = rng.pick([b"\x00", bytes(6), rng.bytes(20), good])
        run.add("stream us=hdr ops=wa:%s;wa:%s;fin" % (good.hex(), more.hex()),
                oracle=lambda res, meta, peak: "panic/hang in stream" if (stream_verdict(res) in ("panic", "hang", "abort", "missing")) else None,
                tag="c07:after-marker", release=True)
        run.add("rawlzma lc=%d lp=%d pb=%d dict=%d us=none ml=none ops=d:%s;d:%s" % (m["lc"], m["lp"], m["pb"], m["dict"], m["payload"].hex(), m["payload"].hex()),
                oracle=lambda res, meta, peak: "panic/hang in raw decoder: " + res[:80] if ("panic" in res or v(res) in ("hang", "abort", "missing")) else None,
                tag="c07:raw-twice", release=True)
    # size fields at their maximum (65536-byte compressed chunk, 2 MiB chunk), also cut right after the chunk header
    for b in core.gen_material("lzma2big", 1, 2):
        run.add("lzma2 in=%s" % b["payload"].hex(), oracle=bound(len(b["payload"])), tag="c07:max-chunk", release=True, cmp=len(b["out"]) < 200000)
        run.add("lzma2 in=%s" % b["payload"][:rng.pick([5, 6, 12])].hex(), oracle=bound(12), tag="c07:max-chunk-truncated", release=True)
    # an index that lists more (or fewer) records than the stream has blocks
    for f in [x for x in xzs if x["blocks"]][:sizes(run.tier, 6, 30)]:
        recs = f["rec"]["_records"]
        for vr in (recs + recs[-1:], recs + recs + recs, recs[:-1], []):
            for cnt in (None, len(vr) + 1, 2**20):
                d = core.build_xz(f["check"], f["blocks"], index_records=vr, index_count=cnt)
                run.add("xz in=%s" % d.hex(), oracle=bound(len(d)), tag="c07:index-count", release=True)
    # the range decoder's comparisons at their ties: the initial code equal to / next to the first bound
    # ((2^32 - 1 >> 11) * 0x400 = 0x7FFFFC00), all ones, zero, and the same after one decoded bit
    for code in (0x7FFFFC00, 0x7FFFFBFF, 0x7FFFFC01, 0xFFFFFFFF, 0, 0x3FFFFC00, 0x3FFFFBFF, 0xBFFFFE00, 0xBFFFFDFF):
        for tail in (bytes(12), b"\xff" * 12, rng.bytes(12)):
            pay = b"\x00" + code.to_bytes(4, "big") + tail
            for us in ("hdr", "up:5"):
                hdr = lzma_header(rng.pick([3, 0, 8]), rng.pick([0, 4]), rng.pick([2, 0, 4]), 4096, None if us == "hdr" else "skip")
                run.add("lzma us=%s in=%s" % (us, (hdr + pay).hex()), oracle=bound(len(pay) + 13), tag="c07:coder-ties", release=True)
            run.add("lzma2 in=%s" % (bytes([0xE0, 0, 9, 0, len(pay) - 1, 0x5D]) + pay + b"\x00").hex(), oracle=bound(30), tag="c07:coder-ties", release=True)
            sd = lzma_header(3, 0, 2, 4096, None) + pay
            run.add("stream us=hdr ops=%s" % stream_ops(sd, chunkings(rng, len(sd), 3)[-1], op="w"),
                    oracle=lambda res, meta, peak: "panic/hang in stream" if (stream_verdict(res) in ("panic", "hang", "abort", "missing")) else None,
                    tag="c07:coder-ties", release=True)
    # a sink that is full (returns Ok(0)) at the hand-over of a window lap / at finish: an error, not a spin
    for b in core.script([dict(kind="lzma", lc=3, lp=0, pb=2, dict=4096, prog="X300.%d.200,M7.273*40,L9%s" % (rng.below(99), e_)) for e_ in ("", ",E")]):
        data = lzma_file(b)
        for k in (0, 1, 2, 3):
            script = ",".join(["a"] * k + ["u0"] * 6)
            run.add("lzma us=hdr sink=%s in=%s" % (script, data.hex()), oracle=bound(len(data)), tag="c07:full-sink", release=True)
            run.add("stream us=hdr sink=%s ops=%s" % (script, stream_ops(data, chunkings(rng, len(data), 3)[-1])),
                    oracle=lambda res, meta, peak: "panic/hang in stream" if (stream_verdict(res) in ("panic", "hang", "abort", "missing")) else None,
                    tag="c07:full-sink", release=True)
    for m in [x for x in lz2 if x.get("gen")][:6]:
        run.add("lzma2 sink=%s in=%s" % (",".join(["a"] * rng.below(3) + ["u0"] * 4), m["payload"].hex()), oracle=bound(len(m["payload"])), tag="c07:full-sink", release=True)
    # very many complete units back to back: neither stack depth nor memory may grow with their number
    unit = core.build_xz(1, [])
    for cnt in (2, 60000):
        data = unit * cnt
        run.add("xz in=%s" % data.hex(), oracle=bound(len(data)), tag="c07:many-streams", release=True)
    data = (b"\x01\x00\x00A" + b"\x02\x00\x00B" * 8000) + b"\x00"
    run.add("lzma2 in=%s" % data.hex(), oracle=bound(len(data)), tag="c07:many-chunks", release=True)
    many = b"\x01\x00\x00A" + b"\x02\x00\x00B" * 50000 + b"\x00"
    run.add("lzma2 stk=2097152 in=%s" % many.hex(), oracle=bound(len(many)), tag="c07:many-chunks-2MiB-stack", release=True, cmp=False)
    data = core.build_xz(4, [core.XzBlock(b"\x01\x00\x00A\x00", b"A")] * 3000)
    run.add("xz stk=2097152 in=%s" % data.hex(), oracle=bound(len(data)), tag="c07:many-blocks-2MiB-stack", release=True, cmp=False)
    run.add("xz in=%s" % data.hex(), oracle=bound(len(data)), tag="c07:many-blocks", release=True)
    # F1/F2 regression witnesses
    f = xzs[0]
    for bs in (0xFFFFFFFF, 0x40000000):
        d = bytearray(f["data"])
        o = f["rec"]["ftr_backward"][0]
        cur = int.from_bytes(d[o:o + 4], "little")
        d[o:o + 4] = ((cur | bs) & 0xFFFFFFFF).to_bytes(4, "little")
        d = core.refresh_crcs(bytes(d), f["rec"], len(f["blocks"]))
        run.add("xz in=%s" % d.hex(), oracle=bound(len(d)), tag="c07:witness-F1", release=True)
    run.add("rawlzma lc=3 lp=0 pb=2 dict=0 us=none ml=none ops=d:%s" % lz[0]["payload"].hex(),
            oracle=lambda res, meta, peak: "panic in raw decoder with dict_size 0" if "panic" in res else None,
            tag="c07:witness-F2", release=True)


# ----------------------------------------------------------------- C08

def c08(run: Run):
    rng = run.rng
    mats = [m for m in core.gen_material("lzma", run.seed + 8, sizes(run.tier, 120, 1500)) if m["dict"] >= 4096]

    def size_rule(n):
        def oracle(res, meta, peak):
            msg = no_crash(res, meta, peak)
            if msg:
                return msg
            if v(res) == "ok" and repr_len(outfield(res)) != n:
                return "success with %d bytes produced although size %d is in effect" % (repr_len(outfield(res)), n)
            return None
        return oracle

    for m in mats:
        L = len(m["out"])
        pay = m["payload"]
        eos = m["eos"]
        hdr5 = lzma_header(m["lc"], m["lp"], m["pb"], m["dict"], "skip")
        garbage_field = rng.pick([0, L + 3, 2**63, U64MAX - 1])
        run.count("eos" if eos else "noeos")
        # --- a size in effect
        small_n = [rng.below(L) for _ in range(3)] + [1, 2, 5] if L > 6 else []
        for n in sorted(set([L, L + 1, max(0, L - 1), 0, 2**32, 2**62, 2**63, 2**63 + L, U64MAX - 1, U64MAX] + [x for x in small_n if x < L])):
            forms = [("hdr", lzma_header(m["lc"], m["lp"], m["pb"], m["dict"], n) + pay, 13),
                     ("hup:%d" % n, lzma_header(m["lc"], m["lp"], m["pb"], m["dict"], rng.pick([garbage_field, L, None])) + pay, 13),
                     ("up:%d" % n, hdr5 + pay, 5)]
            if n == U64MAX:
                forms = forms[1:]        # in the header field this value means "no size"; supplied by the caller it is a size
            for us, data, hl in forms:
                # now and then through a reader that hands the header over in pieces
                if rng.chance(1, 3):
                    us += " rk=" + rng.pick(["buf:1", "buf:2", "buf:3", "buf:6", "buf:12", "frag:%d:2" % (rng.below(99) + 1), "cut:6,9", "cut:5,13", "cur"])
                if n == L:
                    def exact(res, meta, peak, out=m["out"], hl=hl, plen=len(pay), eos=eos):
                        msg = exp_ok_out(out)(res, meta, peak)
                        if msg:
                            return msg
                        used = core.fields(res).get("used")
                        if not eos and used != str(hl + plen):
                            return "consumed %s bytes, expected header %d + payload %d" % (used, hl, plen)
                        return None
                    run.add("lzma us=%s in=%s" % (us, data.hex()), oracle=exact, tag="c08:size=len")
                elif n < L and m.get("cum"):
                    # the format decides: the size falls on a symbol boundary (success with exactly the
                    # first n bytes) or strictly inside a copy (a match that would overshoot: error)
                    cum = set(int(x) for x in m["cum"].split(",") if x) | {0}
                    if n in cum:
                        run.add("lzma us=%s in=%s" % (us, data.hex()), oracle=exp_ok_out(m["out"][:n]), tag="c08:size<len:boundary")
                    else:
                        run.add("lzma us=%s in=%s" % (us, data.hex()), oracle=exp_err(), tag="c08:size<len:overshoot")
                else:
                    run.add("lzma us=%s in=%s" % (us, data.hex()), oracle=size_rule(n),
                            tag="c08:size%s" % ("<len" if n < L else ">len"))
                    if n > L and eos:
                        run.add("lzma us=%s in=%s" % (us, data.hex()), oracle=exp_err(), tag="c08:marker-before-size")
        # success means the sink really received that many bytes, also when it takes them piecewise
        if rng.chance(1, 3):
            us, data = rng.pick([("hdr", lzma_header(m["lc"], m["lp"], m["pb"], m["dict"], L) + pay), ("up:%d" % L, hdr5 + pay)])
            run.add("lzma us=%s sink=%s in=%s" % (us, ",".join(rng.pick(["u1", "u2", "u5"]) for _ in range(30)), data.hex()),
                    oracle=exp_ok_out(m["out"]), tag="c08:size=len:short-writing-sink")
        # raw decoder: reset(None) keeps the size in effect
        if m["dict"] >= 1 and L > 1 and rng.chance(1, 3):
            def kept(res, meta, peak, n=L - 1):
                toks = res.split(" ")
                last = toks[-1] if toks else ""
                if last.startswith("ok:") and repr_len(last.split(":", 2)[2]) != n:
                    return "raw decoder: success with %d bytes although size %d is in effect after reset(None)" % (repr_len(last.split(":", 2)[2]), n)
                return "panic" if "panic" in res else None
            run.add("rawlzma lc=%d lp=%d pb=%d dict=%d us=%d ml=none ops=r;d:%s" % (m["lc"], m["lp"], m["pb"], m["dict"], L - 1, pay.hex()),
                    oracle=kept, tag="c08:raw-size-kept-by-reset")
        # raw decoder: a size set by reset(Some(size)) stays in effect across reset(None), whatever the constructor was given
        if L > 1 and rng.chance(1, 3):
            def kept2(res, meta, peak, n=L - 1):
                last = res.split(" ")[-1]
                if last.startswith("ok:") and repr_len(last.split(":", 2)[2]) != n:
                    return "raw decoder: success with %d bytes although reset(Some(%d)) then reset(None) leave size %d in effect" % (repr_len(last.split(":", 2)[2]), n, n)
                return "panic" if "panic" in res else None
            run.add("rawlzma lc=%d lp=%d pb=%d dict=%d us=%s ml=none ops=rs:%d;r;d:%s" % (m["lc"], m["lp"], m["pb"], m["dict"], rng.pick(["none", str(L), "0"]), L - 1, pay.hex()),
                    oracle=kept2, tag="c08:raw-size-kept-by-reset")
        # streaming finish obeys the same rule
        run.add("stream us=hdr ops=%s" % stream_ops(lzma_header(m["lc"], m["lp"], m["pb"], m["dict"], L + 1) + pay, [len(pay) + 13]),
                oracle=lambda res, meta, peak, L=L: "stream finish succeeded with %d bytes, size %d in effect" % (repr_len(outfield(res)), L + 1)
                if stream_verdict(res) == "ok" and repr_len(outfield(res)) != L + 1 else None, tag="c08:stream-size")
        # --- no size in effect
        nosize_forms = [("hdr", lzma_header(m["lc"], m["lp"], m["pb"], m["dict"], None) + pay),
                        ("hup:none", lzma_header(m["lc"], m["lp"], m["pb"], m["dict"], garbage_field) + pay),
                        ("hup:none", lzma_header(m["lc"], m["lp"], m["pb"], m["dict"], L) + pay),
                        ("hup:none rk=%s" % rng.pick(["buf:1", "buf:5", "cut:7", "frag:3:3"]), lzma_header(m["lc"], m["lp"], m["pb"], m["dict"], max(0, L - 1)) + pay),
                        ("up:none", hdr5 + pay)]
        for us, data in nosize_forms:
            if eos and " rk=" not in us:
                # … also for the streaming decoder when the bytes after the marker arrive in a later write
                junk = rng.bytes(rng.pick([1, 2, 7, 19, 20, 30]))
                run.add("stream us=%s ops=wa:%s;wa:%s;fin" % (us, data.hex(), junk.hex()),
                        oracle=lambda res, meta, peak: "bytes written after the end marker were accepted by the streaming decoder" if stream_verdict(res) == "ok" else
                        ("panic" if stream_verdict(res) not in ("ok", "err") else None), tag="c08:stream-bytes-after-marker")
            if eos:
                run.add("lzma us=%s in=%s" % (us, data.hex()), oracle=exp_ok_out(m["out"]), tag="c08:nosize-marker")
                tail = rng.pick([b"\x00", b"\x01", rng.bytes(5)])
                run.add("lzma us=%s in=%s" % (us, (data + tail).hex()), oracle=exp_err(), tag="c08:bytes-after-marker")
            else:
                run.add("lzma us=%s in=%s" % (us, data.hex()), oracle=exp_err(), tag="c08:nosize-nomarker")
    # no size in effect: decoding runs to the end marker whatever length the marker carries
    reqs = [dict(kind="lzma", lc=3, lp=0, pb=2, dict=4096, prog="X%d.%d.200,M3.4,M4294967296.%d" % (rng.pick([4, 40]), rng.below(999), ln)) for ln in (2, 3, 4, 9, 10, 18, 273)]
    for b in core.script(reqs):
        for us, data in (("hdr", lzma_header(3, 0, 2, 4096, None) + b["payload"]), ("hup:none", lzma_header(3, 0, 2, 4096, 7) + b["payload"]),
                         ("up:none", lzma_header(3, 0, 2, 4096, "skip") + b["payload"])):
            run.add("lzma us=%s in=%s" % (us, data.hex()), oracle=exp_ok_out(b["out"]), tag="c08:nosize-long-marker")
            run.add("lzma us=%s in=%s" % (us, (data + b"\x00").hex()), oracle=exp_err(), tag="c08:bytes-after-long-marker")
    # success implies exactly that many bytes at the sink, also when a window larger than 64 KiB is handed over lap by lap
    for b in core.script([dict(kind="lzma", lc=3, lp=0, pb=2, dict=d_, prog="X300.%d.200,M%d.273*%d,X9.%d.200%s" % (
            rng.below(99), rng.pick([7, 300]), (d_ * 9 // 4) // 273, rng.below(99), e_)) for d_, e_ in ((1 << 17, ""), (5 << 16, ",E"))]):
        L2 = len(b["out"])
        for us, data in (("hdr", lzma_file(b)), ("hup:%s" % ("none" if b["eos"] else L2), lzma_file(b)),
                         ("up:%s" % ("none" if b["eos"] else L2), lzma_header(3, 0, 2, b["dict"], "skip") + b["payload"])):
            run.add("lzma us=%s in=%s" % (us, data.hex()), oracle=exp_ok_out(b["out"]), tag="c08:large-window")
    # one-shot decodes share nothing: a decode that grew a 128 KiB window, then (same process, same thread) a stream
    # with a 4 KiB dictionary whose output laps its window three times
    seq = core.script([dict(kind="lzma", lc=3, lp=0, pb=2, dict=1 << 17, prog="X300.%d.200,M300.273*520" % rng.below(99)),
                       dict(kind="lzma", lc=3, lp=0, pb=2, dict=4096, prog="X200.%d.200,M9.273*45,X30.%d.200" % (rng.below(99), rng.below(99)))])
    for rep in range(2):
        run.add("lzma us=hdr in=%s" % lzma_file(seq[0]).hex(), oracle=exp_ok_out(seq[0]["out"]), tag="c08:big-window-then-small:first")
        run.add("lzma us=%s in=%s" % (rng.pick(["hdr", "hup:%d" % len(seq[1]["out"])]), lzma_file(seq[1]).hex()), oracle=exp_ok_out(seq[1]["out"]),
                tag="c08:big-window-then-small:second")
    # the raw decoder: a size of 2^64 - 1 given to reset is a size (not "unknown"); allow_incomplete changes nothing for the one-shot decoder
    for m in [x for x in mats if x["eos"]][:sizes(run.tier, 10, 60)]:
        run.add("rawlzma lc=%d lp=%d pb=%d dict=%d us=none ml=none ops=rs:%d;d:%s" % (m["lc"], m["lp"], m["pb"], m["dict"], U64MAX, m["payload"].hex()),
                oracle=lambda res, meta, peak: None if res.split(" ")[-1].startswith("err:") else
                "raw decoder reset to size 2^64 - 1 accepted a marker-terminated stream: %s" % res[:80], tag="c08:raw-reset-u64max")
        data = lzma_file(m)
        run.add("lzma us=hdr ai=1 in=%s" % (data + rng.bytes(rng.pick([1, 7]))).hex(), oracle=exp_err(), tag="c08:bytes-after-marker:allow-incomplete")
        run.add("lzma us=hdr ai=1 in=%s" % lzma_file(m, size=len(m["out"]) + 1).hex(), oracle=exp_err(), tag="c08:marker-before-size:allow-incomplete")
    run.add("lzma us=hdr in=%s" % (b"\x5d\x00\x00\x80\x00" + b"\xff" * 8 + b"\x00" * 5).hex(), oracle=exp_err(),
            tag="c08:nosize-nomarker", witness="K1")


# ----------------------------------------------------------------- C09

def ideal_window(ops, d):
    """ideal semantics of a window op list: history list, guard dist <= min(len, d)"""
    H = bytearray()
    flushed = bytearray()
    res = []
    for op in ops:
        if op[0] == "lit":
            H.append(op[1])
            res.append("ok")
        elif op[0] == "lz":
            ln, dist = op[1], op[2]
            if dist > d or dist > len(H):
                res.append("err")
                return flushed + H, res, False
            for _ in range(ln):
                H.append(H[len(H) - dist])
            res.append("ok")
        elif op[0] == "lastn":
            dist = op[1]
            res.append("err" if dist > d or dist > len(H) else str(H[len(H) - dist]))
        elif op[0] == "lastor":
            res.append(str(H[-1] if H else op[1]))
        elif op[0] == "bytes":
            H += op[1]
            res.append("ok")
        elif op[0] == "reset":
            # the history so far goes to the sink and is no longer addressable
            flushed += bytes(H)
            H = bytearray()
            res.append("ok")
    return flushed + H, res, True


def c09(run: Run):
    rng = run.rng
    bad = core.gen_material("lzmabad", run.seed, sizes(run.tier, 150, 2500))
    good_pool = [g for g in core.gen_material("lzma", run.seed + 9, 400) if g["eos"] and len(g["out"]) > 20]
    # accumulating window (LZMA2)
    for m in core.gen_material("lzma2bad", run.seed, sizes(run.tier, 60, 800)):
        run.add("lzma2 in=%s" % m["payload"].hex(), oracle=exp_err(prefix_of=m["out"]), tag="c09:stream-accum")
        blk = core.XzBlock(m["payload"], m["out"])
        if rng.chance(1, 5):
            run.add("xz in=%s" % core.build_xz(1, [blk]).hex(), oracle=exp_err(prefix_of=b""), tag="c09:accum-in-xz")
    for m in bad:
        d = m["dict"]
        run.count("dict:%d" % d)
        run.count("wraps" if len(m["out"]) > d else "nowrap")
        if d >= 4096:
            data = lzma_header(m["lc"], m["lp"], m["pb"], d, None) + m["payload"]
            run.add("lzma us=hdr in=%s" % data.hex(), oracle=exp_err(prefix_of=m["out"]), tag="c09:stream-circ")
            # … whatever memory limit is given (a limit at or above the dictionary size changes nothing)
            ml = rng.pick([d, d + 1, 65536, 1 << 20, 2**40])
            run.add("lzma us=hdr ml=%d in=%s" % (ml, data.hex()), oracle=exp_err(prefix_of=m["out"]), tag="c09:stream-circ:memlimit")
            run.add("stream us=hdr ml=%d ops=%s" % (ml, stream_ops(data + bytes(25), [len(data) + 25])),
                    oracle=lambda res, meta, peak, out=m["out"]: None if stream_verdict(res) == "err" and is_prefix_repr(outfield(res), out)
                    else "out-of-window copy accepted by the streaming decoder under a memory limit, or bytes fabricated", tag="c09:stream-api:memlimit")
            run.add("stream us=hdr ops=%s" % stream_ops(data, [len(data)]),
                    oracle=lambda res, meta, peak, out=m["out"]: None if stream_verdict(res) == "err" and is_prefix_repr(outfield(res), out)
                    else "out-of-window copy accepted by the streaming decoder or bytes fabricated", tag="c09:stream-api")
            # … also in pieces, followed by more input, and when an incomplete stream may be finished
            # (with allow_incomplete at least 10 more bytes follow: a stream that simply ends at the bad symbol is an
            # incomplete one — the symbol's last normalisation byte may be missing — while fewer than 20 bytes keep
            # the decoder on its dry-run path)
            ai = rng.below(2)
            more = data + rng.bytes(rng.pick([10, 12, 15, 25]) if ai else rng.pick([0, 3, 25]))
            run.add("stream us=hdr ai=%d ops=%s" % (ai, stream_ops(more, chunkings(rng, len(more), 3)[-1])),
                    oracle=lambda res, meta, peak, out=m["out"]: None if stream_verdict(res) == "err" and is_prefix_repr(outfield(res), out)
                    else "out-of-window copy accepted by the streaming decoder (pieces / allow_incomplete) or bytes fabricated", tag="c09:stream-api-pieces")
        else:
            def raw_err(res, meta, peak, out=m["out"]):
                toks = res.split(" ")
                if len(toks) < 2 or not toks[1].startswith("err:"):
                    return "out-of-window copy not rejected: %s" % res[:100]
                if not is_prefix_repr(toks[1].split(":", 2)[2], out):
                    return "bytes fabricated: sink is not a prefix of the well-formed prefix's output"
                return None
            run.add("rawlzma lc=%d lp=%d pb=%d dict=%d us=none ml=%s ops=d:%s" % (m["lc"], m["lp"], m["pb"], d, rng.pick(["none", str(d), "4096", str(2**40)]), m["payload"].hex()),
                    oracle=raw_err, tag="c09:raw-circ")
            # the size given to the constructor is not the size in effect after reset(Some(..)): the window
            # rules do not depend on either
            def raw_err2(res, meta, peak, out=m["out"]):
                toks = res.split(" ")
                if len(toks) < 3 or not toks[2].startswith("err:"):
                    return "out-of-window copy not rejected after the size was re-specified by reset: %s" % res[:100]
                if not is_prefix_repr(toks[2].split(":", 2)[2], out):
                    return "bytes fabricated: sink is not a prefix of the well-formed prefix's output"
                return None
            run.add("rawlzma lc=%d lp=%d pb=%d dict=%d us=%d ml=none ops=rs:%s;d:%s" % (
                m["lc"], m["lp"], m["pb"], d, rng.pick([0, 1, d, max(0, d - 1)]), rng.pick(["none", str(2**40)]), m["payload"].hex()),
                oracle=raw_err2, tag="c09:raw-resized")
            # the same decoder object reused: a valid stream first (fills the window), reset, then the bad one
            goods = [g for g in good_pool if (g["lc"], g["lp"], g["pb"]) == (m["lc"], m["lp"], m["pb"]) and g["dict"] <= d] or None
            g = rng.pick(goods) if goods else None
            if g is None:
                continue

            def raw_hist(res, meta, peak, out=m["out"]):
                toks = res.split(" ")
                if len(toks) < 4 or not toks[3].startswith("err:"):
                    return "out-of-window copy not rejected by a reused (reset) decoder: %s" % res[:120]
                if not is_prefix_repr(toks[3].split(":", 2)[2], out):
                    return "reused decoder fabricated bytes from an earlier stream's window"
                return None
            run.add("rawlzma lc=%d lp=%d pb=%d dict=%d us=none ml=none ops=d:%s;r;d:%s" % (
                m["lc"], m["lp"], m["pb"], d, g["payload"].hex(), m["payload"].hex()),
                oracle=raw_hist, tag="c09:raw-reuse")
    # the repeat distance an end marker leaves behind (2^32 - 1) is outside every window: a second payload decoded by
    # the same raw decoder without reset and opening with a short repeat / repeated match / literal is refused
    firsts = core.script([dict(kind="lzma", lc=lc_, lp=0, pb=pb_, dict=4096, prog=pr) for lc_, pb_ in ((3, 2), (0, 0)) for pr in ("X9.1.200,M2.5,E", "S", "R0.2", "R0.273", "L65,L66")])
    for i in range(0, len(firsts), 5):
        eos_stream = firsts[i]
        for nxt in firsts[i + 1:i + 5]:
            def second_refused(res, meta, peak):
                toks = res.split(" ")
                if "panic" in res or v(res) in ("hang", "abort", "missing"):
                    return "panic/hang: %s" % res[:80]
                if len(toks) < 3 or not toks[2].startswith("err:"):
                    return "a payload that opens by using the repeat distance left by an end marker (2^32 - 1) was not refused: %s" % res[:100]
                return None if repr_len(toks[2].split(":", 2)[2]) == 0 else "bytes fabricated for a reference outside the window"
            run.add("rawlzma lc=%d lp=0 pb=%d dict=4096 us=none ml=none ops=d:%s;d:%s" % (eos_stream["lc"], eos_stream["pb"], eos_stream["payload"].hex(), nxt["payload"].hex()),
                    oracle=second_refused, tag="c09:raw-after-marker", release=True)
    # exhaustive small scope (thorough): every op sequence of length <= 4 over a 9-op alphabet, d in 1..3, two limits
    if run.tier == "thorough":
        alpha = [("lit", 7), ("lit", 200), ("lz", 1, 1), ("lz", 2, 1), ("lz", 3, 2), ("lz", 2, 3), ("lz", 5, 1), ("lastn", 1), ("lastn", 2)]
        import itertools
        nexh = 0
        for ln in (1, 2, 3, 4):
            for seq in itertools.product(alpha, repeat=ln):
                for d in (1, 2, 3):
                    txt = [":".join(str(x) for x in op) for op in seq]
                    H, exp, alive = ideal_window(list(seq), d)

                    def oracle(res, meta, peak, H=bytes(H), exp=exp, alive=alive):
                        toks = res.split(" ")
                        got = [t.split("/")[0] for t in toks if "=" not in t]
                        want = exp + (["ok"] if alive else [])
                        if got != want:
                            return "window results %s differ from the ideal history semantics %s" % (got[:12], want[:12])
                        if alive and outfield(res) != out_repr(H):
                            return "window output differs from the ideal history"
                        return None
                    run.add("win kind=circ d=%d m=none ops=%s" % (d, ";".join(txt + ["fin"])), oracle=oracle, tag="c09:ops:exhaustive", nontrivial=ln > 1)
                    nexh += 1
        run.extra_cov["exhaustive_window_op_sequences"] = nexh
    # operation-level: real windows vs model vs ideal semantics
    nseq = sizes(run.tier, 400, 6000)
    for i in range(nseq):
        d = rng.pick([1, 2, 3, 4, 5, 8])
        kind = rng.pick(["circ", "circ", "accum"])
        ops, txt = [], []
        for _ in range(rng.pick([3, 6, 12, 30])):
            k = rng.below(10)
            if k < 4:
                b = rng.below(256)
                ops.append(("lit", b)); txt.append("lit:%d" % b)
            elif k < 8:
                ln, dist = rng.pick([0, 1, 2, 3, 7, 20]), rng.pick([1, 1, 2, 3, 4, 5, 6, 9, 2**32])
                ops.append(("lz", ln, dist)); txt.append("lz:%d:%d" % (ln, dist))
            elif k == 8:
                dist = rng.pick([1, 2, 3, 4, 5, 9])
                ops.append(("lastn", dist)); txt.append("lastn:%d" % dist)
            else:
                b = rng.below(256)
                ops.append(("lastor", b)); txt.append("lastor:%d" % b)
        if kind == "accum" and rng.chance(1, 2):
            # LzAccumBuffer::append_bytes / reset (LZMA2 uncompressed chunks, dictionary reset)
            pos = rng.below(len(ops) + 1)
            bs = rng.bytes(rng.below(4) + 1)
            ops.insert(pos, ("bytes", bs)); txt.insert(pos, "bytes:" + bs.hex())
            if rng.chance(1, 2):
                pos = rng.below(len(ops) + 1)
                ops.insert(pos, ("reset",)); txt.insert(pos, "reset")
        dd = d if kind == "circ" else 2**64
        H, exp, alive = ideal_window(ops, dd)

        def oracle(res, meta, peak, H=bytes(H), exp=exp, alive=alive):
            toks = res.split(" ")
            got = [t.split("/")[0] for t in toks if "=" not in t]
            want = exp + (["ok"] if alive else [])
            if got != want:
                return "window results %s differ from the ideal history semantics %s" % (got[:12], want[:12])
            if alive and outfield(res) != out_repr(H):
                return "window output differs from the ideal history"
            if not alive and not is_prefix_repr(outfield(res), H):
                return "window output is not a prefix of the ideal history"
            return None
        run.add("win kind=%s d=%d m=none ops=%s" % (kind, d, ";".join(txt + ["fin"])), oracle=oracle, tag="c09:ops:" + kind)


# ----------------------------------------------------------------- C10

def c10(run: Run):
    rng = run.rng
    mats = core.gen_material("lzma", run.seed + 10, sizes(run.tier, 60, 800)) + core.gen_material("lzmawrap", run.seed + 10, sizes(run.tier, 2, 12))
    # always: outputs that lap dictionaries whose size is not a multiple of 16 (the window is exactly the dictionary)
    mats += core.script([dict(kind="lzma", lc=3, lp=0, pb=2, dict=d_, prog="X200.%d.200,M%d.273*%d,X7.%d.200%s" % (rng.below(99), rng.pick([9, 150]), (3 * d_) // 273, rng.below(99), e_))
                         for d_, e_ in ((4097, ""), (5000, ",E"), (4100, ""))])
    for m in mats:
        d, out = m["dict"], m["out"]
        need = min(d, len(out))
        for ml in sorted(set([0, max(0, need - 1), need, need + 1, max(0, d - 1), d, 2**63])):
            expect_ok = need <= ml

            def oracle(res, meta, peak, out=out, expect_ok=expect_ok, ml=ml, raw=False):
                if expect_ok:
                    msg = exp_ok_out(out)(res, meta, peak)
                    if msg:
                        return "limit %d >= needed window: %s" % (ml, msg)
                else:
                    if v(res) != "err":
                        return "limit %d below the needed window %d but no error" % (ml, meta["need"])
                    if not is_prefix_repr(outfield(res), out):
                        return "wrong bytes delivered before the limit error"
                if peak > 2 * min(ml, meta["need"] + 1) + 7 * 1024 * 1024 + 6 * len(out) + 4 * meta["inlen"]:
                    return "heap peak %d out of proportion (limit %d, window needed %d)" % (peak, ml, meta["need"])
                return None
            if d >= 4096:
                data = lzma_file(m)
                run.add("lzma us=hdr ml=%d in=%s" % (ml, data.hex()), oracle=oracle, tag="c10:oneshot", need=need, inlen=len(data))
                if ml >= len(out) and rng.chance(1, 2):
                    # the same stream under a header announcing a 1 GiB dictionary: the window needed is
                    # still min(dict, produced) = produced, and nothing more may be allocated
                    big = lzma_file(m, dict_field=2**30)
                    run.add("lzma us=hdr ml=%d in=%s" % (ml, big.hex()), oracle=oracle, tag="c10:hugedict", need=len(out), inlen=len(big))
                parts = chunkings(rng, len(data), 3)[-1]

                def soracle(res, meta, peak, out=out, expect_ok=expect_ok, ml=ml):
                    sv = stream_verdict(res)
                    if expect_ok and (sv != "ok" or outfield(res) != out_repr(out)):
                        return "streaming with limit %d >= needed window failed or differs" % ml
                    if not expect_ok and sv != "err":
                        return "streaming with limit %d below the needed window did not fail" % ml
                    return None
                run.add("stream us=hdr ml=%d ops=%s" % (ml, stream_ops(data, parts)), oracle=soracle, tag="c10:stream")
                if not expect_ok and rng.chance(1, 2):
                    # size supplied by the caller (5-byte header), header and preamble in pieces, allow_incomplete, and
                    # input cut short: whenever the produced window would exceed the limit the stream fails, at the write
                    # or at finish
                    up = lzma_header(m["lc"], m["lp"], m["pb"], d, "skip") + m["payload"]
                    for cut in (len(up), min(len(up), 17), min(len(up), 12)):
                        c_ = rng.pick([1, 2, 3, 4])
                        pre = up[:cut]
                        pieces = [pre[i:i + c_] for i in range(0, min(len(pre), 12), c_)] + ([pre[((min(len(pre), 12) + c_ - 1) // c_) * c_:]] if len(pre) > 12 else [])
                        run.add("stream us=up:%s ml=%d ai=1 full=1 ops=%s" % ("none" if m["eos"] else len(out), ml, ";".join(["wa:" + x.hex() for x in pieces if x] + ["fin"])),
                                oracle=None, tag="c10:stream-provided-incomplete")
            else:
                us = "none" if m["eos"] else str(len(out))

                def roracle(res, meta, peak, out=out, expect_ok=expect_ok, ml=ml):
                    toks = res.split(" ")
                    if len(toks) < 2:
                        return "no result"
                    if expect_ok and not (toks[1].startswith("ok:") and toks[1].split(":", 2)[2] == out_repr(out)):
                        return "raw decoder with limit %d >= needed window failed or differs" % ml
                    if not expect_ok and not toks[1].startswith("err:"):
                        return "raw decoder with limit %d below the needed window did not fail" % ml
                    return None
                run.add("rawlzma lc=%d lp=%d pb=%d dict=%d us=%s ml=%d ops=d:%s" % (m["lc"], m["lp"], m["pb"], d, us, ml, m["payload"].hex()),
                        oracle=roracle, tag="c10:raw")
                if rng.chance(1, 3):
                    # the limit applies to every use of the object, not only the first
                    def again(res, meta, peak, f=roracle):
                        toks = res.split(" ")
                        if len(toks) < 4:
                            return "no result"
                        return f(" ".join([toks[0], toks[1]]), meta, peak) or f(" ".join([toks[0], toks[3]]), meta, peak)
                    run.add("rawlzma lc=%d lp=%d pb=%d dict=%d us=%s ml=%d ops=d:%s;r;d:%s" % (m["lc"], m["lp"], m["pb"], d, us, ml, m["payload"].hex(), m["payload"].hex()),
                            oracle=again, tag="c10:raw-second-use")
                if rng.chance(1, 3):
                    # constructed for a tiny expected size, which reset replaces by the real one
                    def roracle3(res, meta, peak, f=roracle):
                        toks = res.split(" ")
                        return f(" ".join(toks[:1] + toks[2:]), meta, peak)
                    run.add("rawlzma lc=%d lp=%d pb=%d dict=%d us=%d ml=%d ops=rs:%s;d:%s" % (
                        m["lc"], m["lp"], m["pb"], d, rng.pick([0, 1, 2]), ml, us, m["payload"].hex()), oracle=roracle3, tag="c10:raw-resized-up")
                if rng.chance(1, 3):
                    # constructed for a huge expected size, which reset replaces: the limit is measured against the
                    # window actually needed
                    def roracle2(res, meta, peak, f=roracle):
                        toks = res.split(" ")
                        return f(" ".join(toks[:1] + toks[2:]), meta, peak)
                    run.add("rawlzma lc=%d lp=%d pb=%d dict=%d us=%d ml=%d ops=rs:%s;d:%s" % (
                        m["lc"], m["lp"], m["pb"], d, rng.pick([2**40, 2**63, 5000]), ml, us, m["payload"].hex()), oracle=roracle2, tag="c10:raw-resized")
    # raw decoder built in two steps (read_header with some options, then LzmaDecoder::new with the limit): the limit
    # passed to the constructor is the one in effect
    for m in [x for x in mats if x["dict"] >= 4096 and 40 < len(x["out"]) and len(x["payload"]) < 3000][:sizes(run.tier, 10, 60)]:
        need = min(m["dict"], len(m["out"]))
        hdr = lzma_header(m["lc"], m["lp"], m["pb"], m["dict"], None if m["eos"] else len(m["out"]))
        for hml, ml in (("0", "none"), ("none", "0"), ("0", str(need)), (str(2**40), str(need - 1)), ("7", str(2**40))):
            expect_ok = ml == "none" or int(ml) >= need

            def two_step(res, meta, peak, out=m["out"], expect_ok=expect_ok, ml=ml, hml=hml):
                toks = res.split(" ")
                if len(toks) < 2 or toks[0] != "new:ok":
                    return "construction failed: %s" % res[:60]
                if expect_ok and not (toks[1].startswith("ok:") and toks[1].split(":", 2)[2] == out_repr(out)):
                    return "limit %s given to LzmaDecoder::new (header parsed under limit %s) admits the window but decoding failed: %s" % (ml, hml, toks[1][:60])
                if not expect_ok and not toks[1].startswith("err:"):
                    return "limit %s given to LzmaDecoder::new (header parsed under limit %s) is below the needed window but decoding succeeded" % (ml, hml)
                return None
            run.add("rawlzma hdr=%s hus=hdr hml=%s ml=%s ops=d:%s" % (hdr.hex(), hml, ml, m["payload"].hex()), oracle=two_step, tag="c10:raw-two-step")
    # the limit is per decode: after an unlimited decode that grew a large window (same process, same thread), a
    # decode under a small limit fails as it would have failed first
    seq = core.script([dict(kind="lzma", lc=3, lp=0, pb=2, dict=1 << 17, prog="X300.%d.200,M300.273*520" % rng.below(99)),
                       dict(kind="lzma", lc=3, lp=0, pb=2, dict=4096, prog="X200.%d.200,M9.273*20" % rng.below(99))])
    for ml2 in (0, 100, 4095):
        run.add("lzma us=hdr in=%s" % lzma_file(seq[0]).hex(), oracle=exp_ok_out(seq[0]["out"]), tag="c10:unlimited-then-limited:first")
        run.add("lzma us=hdr ml=%d in=%s" % (ml2, lzma_file(seq[1]).hex()), oracle=exp_err(prefix_of=seq[1]["out"]), tag="c10:unlimited-then-limited:second")
        run.add("stream us=hdr ops=%s" % stream_ops(lzma_file(seq[0]), [len(lzma_file(seq[0]))]), oracle=None, tag="c10:unlimited-then-limited:first")
        run.add("stream us=hdr ml=%d ops=%s" % (ml2, stream_ops(lzma_file(seq[1]), [50, 70, 4000])),
                oracle=lambda res, meta, peak: None if stream_verdict(res) == "err" else "streaming under a small limit succeeded right after an unlimited decode grew a large window",
                tag="c10:unlimited-then-limited:second")
    # an announced size / dictionary costs nothing until data arrives, with or without a limit
    for i in range(sizes(run.tier, 6, 30)):
        m = rng.pick([x for x in mats if x["dict"] >= 4096 and len(x["payload"]) < 3000])
        for ml in (4, 1000, 2**40):
            big = lzma_header(m["lc"], m["lp"], m["pb"], rng.pick([2**30, 2**31, 2**32 - 1]), rng.pick([2**30 + 5, 2**40, 2**62])) + m["payload"]

            def noalloc(res, meta, peak, ml=ml):
                if v(res) not in ("ok", "err"):
                    return "verdict " + v(res)
                if peak > 16 * 1024 * 1024:
                    return "heap peak %d bytes for a %d-byte input under memory limit %d: the announced size was allocated up front" % (peak, meta["inlen"], ml)
                return None
            run.add("lzma us=hdr ml=%d in=%s" % (ml, big.hex()), oracle=noalloc, tag="c10:announced-size-not-allocated", inlen=len(big))
            run.add("stream us=hdr ml=%d ops=%s" % (ml, stream_ops(big, [20, len(big) - 20])),
                    oracle=lambda res, meta, peak: None if peak <= 16 * 1024 * 1024 else "stream: heap peak %d bytes: the announced size was allocated up front" % peak,
                    tag="c10:announced-size-not-allocated", inlen=len(big))
    # operation level: the buffer never holds more than m bytes
    for i in range(sizes(run.tier, 300, 4000)):
        d = rng.pick([1, 2, 3, 4, 6])
        mlim = rng.below(7)
        txt = []
        for _ in range(rng.pick([4, 10, 25])):
            if rng.chance(1, 2):
                txt.append("lit:%d" % rng.below(256))
            else:
                txt.append("lz:%d:%d" % (rng.pick([1, 2, 5, 9]), rng.pick([1, 1, 2, 3, 4])))

        def oracle(res, meta, peak, mlim=mlim):
            for t in res.split(" "):
                if t.startswith("ok/"):
                    if int(t.split("/")[1]) > mlim:
                        return "window buffers %s bytes with memory limit %d" % (t.split("/")[1], mlim)
            return None
        run.add("win kind=circ d=%d m=%d ops=%s" % (d, mlim, ";".join(txt + ["fin"])), oracle=oracle, tag="c10:ops")
        if i % 4 == 0:
            # the accumulating window checks its limit on literals only (recorded; LZMA2 passes usize::MAX): model = code
            run.add("win kind=accum d=0 m=%d ops=%s" % (mlim, ";".join(txt + ["fin"])), oracle=None, tag="c10:ops-accum")


# ----------------------------------------------------------------- C11

def c11(run: Run):
    rng = run.rng
    mats = [m for m in core.gen_material("lzma", run.seed + 11, sizes(run.tier, 80, 900)) if m["dict"] >= 4096]
    lz2 = lzma2_material(run, 50, 600, 10, 80)
    rks = ["flat", "cur", "buf:1", "buf:3", "buf:8192"]

    def used_is(n, out):
        def oracle(res, meta, peak):
            msg = exp_ok_out(out)(res, meta, peak)
            if msg:
                return msg
            if core.fields(res).get("used") != str(n):
                return "reader left at %s, payload ends at %d" % (core.fields(res).get("used"), n)
            return None
        return oracle
    for m in mats:
        trail = rng.pick([b"", b"\x00", rng.bytes(rng.below(64) + 1)])
        rk = rng.pick(rks)
        if not m["eos"]:
            data = lzma_file(m)
            run.add("lzma us=hdr rk=%s in=%s" % (rk, (data + trail).hex()), oracle=used_is(len(data), m["out"]),
                    tag="c11:lzma-sized", nontrivial=len(trail) > 0)
        else:
            data = lzma_file(m)
            if trail:
                run.add("lzma us=hdr rk=%s in=%s" % (rk, (data + trail).hex()), oracle=exp_err(), tag="c11:lzma-marker-trailing")
                run.add("lzma us=hdr ai=1 rk=%s in=%s" % (rk, (data + trail).hex()), oracle=exp_err(), tag="c11:lzma-marker-trailing:allow-incomplete")
            else:
                run.add("lzma us=hdr rk=%s in=%s" % (rk, data.hex()), oracle=used_is(len(data), m["out"]), tag="c11:lzma-marker")
            # the caller says "ignore the header's size, expect a marker" while the header does carry the true
            # size: the decoder reads through the marker (and refuses what follows it)
            data2 = lzma_header(m["lc"], m["lp"], m["pb"], m["dict"], rng.pick([len(m["out"]), len(m["out"]), 0, 2**40])) + m["payload"]
            if trail:
                run.add("lzma us=hup:none rk=%s in=%s" % (rk, (data2 + trail).hex()), oracle=exp_err(), tag="c11:lzma-marker-trailing:hup")
            else:
                run.add("lzma us=hup:none rk=%s in=%s" % (rk, data2.hex()), oracle=used_is(len(data2), m["out"]), tag="c11:lzma-marker:hup")
    # a size in effect on a stream that ALSO carries an end marker: the decoder stops at the size; what it
    # consumed, its verdict and its output must not depend on what follows
    for m in [x for x in mats if x["eos"] and len(x["out"]) > 0][:sizes(run.tier, 20, 150)]:
        L = len(m["out"])
        base = lzma_header(m["lc"], m["lp"], m["pb"], m["dict"], L) + m["payload"]
        ids = []
        for trail in (b"", b"\x00", rng.bytes(7), rng.bytes(40)):
            ids.append(run.add("lzma us=hdr in=%s" % (base + trail).hex(), oracle=exp_ok_out(m["out"]), tag="c11:size+marker"))
        run.trail_groups = getattr(run, "trail_groups", []) + [ids]
    # the other option forms, under small reader buffers (the ignored size field must really be skipped)
    for m in [x for x in mats if not x["eos"]][:sizes(run.tier, 20, 150)]:
        L, P = len(m["out"]), len(m["payload"])
        trail = rng.bytes(rng.below(9))
        for us, hdr in (("hup:%d" % L, lzma_header(m["lc"], m["lp"], m["pb"], m["dict"], rng.pick([0, L + 5, 2**63]))),
                        ("up:%d" % L, lzma_header(m["lc"], m["lp"], m["pb"], m["dict"], "skip"))):
            rk = rng.pick(["flat", "buf:1", "buf:3", "buf:5", "buf:12", "cur"])
            run.add("lzma us=%s rk=%s in=%s" % (us, rk, (hdr + m["payload"] + trail).hex()), oracle=used_is(len(hdr) + P, m["out"]),
                    tag="c11:lzma-provided")
    for m in [x for x in mats if not x["eos"]][:sizes(run.tier, 25, 200)]:
        trail = rng.bytes(rng.below(9) + 1)
        L, P = len(m["out"]), len(m["payload"])
        # reset(None) keeps the size set by an earlier reset(Some(..)), not the constructor's
        A = rng.pick([0, L + 3, 1])

        def hist2_oracle(res, meta, peak, out=m["out"], P=P):
            toks = res.split(" ")
            want = "ok:%d:%s" % (P, out_repr(out))
            if len(toks) < 5 or toks[2] != want or toks[4] != want:
                return "raw decoder: size set by reset(Some) not kept across reset(None): %s (wanted %s twice)" % (res[:120], want[:50])
            return None
        run.add("rawlzma lc=%d lp=%d pb=%d dict=%d us=%d ml=none ops=rs:%d;d:%s;r;d:%s" % (
            m["lc"], m["lp"], m["pb"], m["dict"], A, L, (m["payload"] + trail).hex(), (m["payload"] + trail).hex()),
            oracle=hist2_oracle, tag="c11:raw-reset-keeps-size")

        def hist_oracle(res, meta, peak, out=m["out"], P=P):
            toks = res.split(" ")
            want = "ok:%d:%s" % (P, out_repr(out))
            if len(toks) < 3 or toks[-1] != want:
                return "size-bounded raw decode after reset(Some(size)) did not stop exactly at the payload end: %s (wanted %s)" % (res[:100], want[:60])
            return None
        run.add("rawlzma lc=%d lp=%d pb=%d dict=%d us=none ml=none ops=rs:%d;d:%s" % (
            m["lc"], m["lp"], m["pb"], m["dict"], L, (m["payload"] + trail).hex()), oracle=hist_oracle, tag="c11:raw-reset-size")
    for m in [x for x in mats if x["eos"]][:sizes(run.tier, 25, 200)]:
        trail = rng.bytes(rng.below(9) + 1)
        run.add("rawlzma lc=%d lp=%d pb=%d dict=%d us=%d ml=none ops=rs:none;d:%s" % (
            m["lc"], m["lp"], m["pb"], m["dict"], len(m["out"]) + 3, (m["payload"] + trail).hex()),
            oracle=lambda res, meta, peak: None if res.split(" ")[-1].startswith("err:") else
            "marker-terminated raw decode (size cleared by reset) accepted trailing bytes: %s" % res[:100], tag="c11:raw-reset-marker")
    for m in lz2:
        trail = rng.pick([b"", b"\x00", rng.bytes(rng.below(64) + 1)])
        rk = rng.pick(rks)
        run.add("lzma2 rk=%s in=%s" % (rk, (m["payload"] + trail).hex()), oracle=used_is(len(m["payload"]), m["out"]),
                tag="c11:lzma2", nontrivial=len(trail) > 0)
    # one raw decoder object decoding several payloads embedded back to back in a larger container, in place
    # (no reset in between: legitimate, every LZMA2 stream opens with a dictionary reset): each decode must
    # stop just after ITS end byte and deliver ITS data (seeded change C11f-1: a latched "finished" flag)
    for i in range(sizes(run.tier, 12, 80)):
        seq = [rng.pick(lz2) for _ in range(rng.below(3) + 2)]
        trail = rng.pick([b"", b"\x00", rng.bytes(rng.below(16) + 1)])
        ops, exp = [], []
        for j in range(len(seq)):
            rest = b"".join(x["payload"] for x in seq[j:]) + trail
            if rng.below(5) == 0:
                ops.append("r"); exp.append("r")
            ops.append("d:" + rest.hex())
            exp.append("ok:%d:%s" % (len(seq[j]["payload"]), out_repr(seq[j]["out"])))
        def container_oracle(res, meta, peak, exp=exp):
            got = res.split(" ")[1:]
            if got != exp:
                k = next((n for n, (a, b) in enumerate(zip(got, exp)) if a != b), min(len(got), len(exp)))
                return "payload #%d decoded in place by a reused raw decoder: expected `%s`, got `%s`" % (
                    k, exp[k][:60] if k < len(exp) else "-", got[k][:60] if k < len(got) else "-")
            return None
        run.add("rawlzma2 %sops=%s" % (rng.pick(["", "", "ctor=default "]), ";".join(ops)), oracle=container_oracle, tag="c11:rawlzma2:container")
    for f in xz_files(run, sizes(run.tier, 15, 100), lz2):
        for trail in (rng.pick([b"\x00", b"\x00" * 4, rng.bytes(rng.below(12) + 1)]),
                      rng.pick([f["data"], b"YZ", rng.bytes(rng.below(20)) + b"YZ", b"\x00" * 4 + f["data"], f["data"][-12:]])):
            rk = rng.pick(rks)
            run.add("xz rk=%s in=%s" % (rk, (f["data"] + trail).hex()), oracle=exp_err(), tag="c11:xz-trailing")

    def post(run):
        for ids in getattr(run, "trail_groups", []):
            ref = core.fields(run.impl[ids[0]])
            for k in ids[1:]:
                f = core.fields(run.impl[k])
                if v(run.impl[k]) != v(run.impl[ids[0]]) or f.get("used") != ref.get("used") or f.get("out") != ref.get("out"):
                    run.report_violation(k, run.cases[int(k)][1], run.cases[int(k)][2], run.impl[k],
                                         "result depends on the bytes that follow the payload (without them: `%s`)" % run.impl[ids[0]][:100])
    run.post = post


# ----------------------------------------------------------------- C12

def c12(run: Run):
    rng = run.rng
    lzm = [m for m in core.gen_material("lzma", run.seed + 12, 80) if len(m["payload"]) < 400]
    small_dict = [m for m in lzm if m["dict"] < 4096 and len(m["out"]) > 3 * m["dict"]][:sizes(run.tier, 3, 12)]
    hdr = [m for m in lzm if m["dict"] >= 4096][:sizes(run.tier, 3, 12)]
    lz2 = [m for m in lzma2_material(run, 40, 80, 0, 0) if len(m["payload"]) < 400][:sizes(run.tier, 4, 15)]
    xzs = [f for f in xz_files(run, 30, lz2) if len(f["blocks"]) >= 2 and len(f["data"]) < 1500][:sizes(run.tier, 2, 8)]

    def fault_oracle(full_out, flushes):
        def oracle(res, meta, peak):
            if v(res) not in ("ok", "err"):
                return "fault injection: verdict %s" % v(res)
            if v(res) == "ok":
                if outfield(res) != out_repr(full_out):
                    return "success reported but the sink did not receive the complete output"
                if flushes and core.fields(res).get("lf") != "1":
                    return "success without flushing the sink"
            else:
                if not is_prefix_repr(outfield(res), full_out):
                    return "bytes accepted before the failure are not a prefix of the correct output"
            return None
        return oracle

    def decoder_cases(op, args, data, out, flushes, maxcalls, probes_eof=False):
        # sink faults at every call position
        for k in range(maxcalls + 1):
            script = ",".join(["a"] * k + ["f"])
            run.add("%s %s sink=%s in=%s" % (op, args, script, data.hex()), oracle=fault_oracle(out, flushes),
                    tag="c12:%s:sinkfault" % op, script=script)
        # short-writing sinks
        for script in (",".join(["u1"] * (len(out) + 8)), ",".join(rng.pick(["u1", "u2", "u3", "a"]) for _ in range(40))):
            run.add("%s %s sink=%s in=%s" % (op, args, script, data.hex()),
                    oracle=lambda res, meta, peak, out=out, fl=flushes: None if v(res) == "ok" and outfield(res) == out_repr(out) and (not fl or core.fields(res).get("lf") == "1")
                    else "short-writing sink did not receive the complete data / no flush", tag="c12:%s:shortwrite" % op, script="")
        # source faults at every position (decoders that probe for end of input must also fail when
        # that probe is the failing read: p == len)
        for p in range(len(data) + 1):
            run.add("%s %s rbad=1 in=%s" % (op, args, data[:p].hex()),
                    oracle=lambda res, meta, peak, out=out, p=p, n=len(data): ("source fault: verdict %s" % v(res)) if v(res) not in ("ok", "err")
                    else ("source failed at byte %d of %d but success was reported" % (p, n)) if (v(res) == "ok" and p < meta["need"] + (1 if meta["probes"] else 0))
                    else None if is_prefix_repr(outfield(res), out) else "wrong bytes delivered before the source failure",
                    tag="c12:%s:srcfault" % op, need=len(data), script="", probes=probes_eof)
    # one-shot source faults: the k-th read call fails once, later calls would succeed again (a decoder that
    # drops one error keeps going on a misaligned stream); implementation-only oracle, every k, three piece sizes
    def oneshot_cases(op, args, data, out):
        def oracle(res, meta, peak, out=out):
            if v(res) not in ("ok", "err"):
                return "one-shot source fault: verdict %s" % v(res)
            fired = core.fields(res).get("rf") == "1"
            if v(res) == "ok":
                if fired:
                    return "read call #%d failed (once) but the decoder reported success" % meta["k"]
                if outfield(res) != out_repr(out):
                    return "wrong output"
            elif not is_prefix_repr(outfield(res), out):
                return "bytes accepted before the source failure are not a prefix of the correct output"
            return None
        for rk, kmax in (("frag:1:1", min(len(data) + 4, 160)), ("frag:5:4", min(len(data) // 2 + 4, 60)), ("flat", 12)):
            for k in range(1, kmax + 1):
                run.add("%s %s rk=%s rfail=%d rfk=%s in=%s" % (op, args, rk, k, ["other", "wouldblock", "timedout", "invaliddata", "brokenpipe"][k % 5], data.hex()), oracle=oracle, cmp=False,
                        tag="c12:%s:oneshot-srcfault" % op, k=k, script="")
    for m in hdr[:sizes(run.tier, 2, 8)] + core.script([dict(kind="lzma", lc=3, lp=0, pb=2, dict=4096, prog=pr) for pr in ("L97", "L97,L98", "L0,L1,L2,L3", "L97,E")]):
        for us, data in (("hdr", lzma_file(m)), ("hup:%s" % ("none" if m["eos"] else len(m["out"])), lzma_file(m))):
            oneshot_cases("lzma", "us=" + us, data, m["out"])
    for m in lz2[:sizes(run.tier, 2, 8)]:
        oneshot_cases("lzma2", "", m["payload"], m["out"])
    for f in xzs[:sizes(run.tier, 1, 4)]:
        oneshot_cases("xz", "", f["data"], f["out"])
    for m in hdr:
        data = lzma_file(m)
        decoder_cases("lzma", "us=hdr", data, m["out"], True, 3, probes_eof=bool(m["eos"]))
    for m in small_dict:
        # raw decoder API has no sink script in the protocol; use window-level ops instead (below)
        pass
    for m in lz2:
        decoder_cases("lzma2", "", m["payload"], m["out"], True, len(parse_lzma2(m["payload"])) + 2)
    # the streaming decoder under sink faults (outputs that lap the window: the sink is written at every lap and
    # at finish); the fault is one-shot or permanent, possibly after part of the write was accepted
    wr = [m for m in core.gen_material("lzmawrap", run.seed + 12, sizes(run.tier, 3, 10)) if len(m["out"]) > m["dict"]]
    for m in wr:
        data = lzma_file(m)
        nlaps = len(m["out"]) // m["dict"] + 2
        for k in range(nlaps + 1):
            for tail in ("f", "f,a,a,a,a,a,a,a,a,a,a,a,a", "u1000,f,a,a,a,a,a,a,a,a,a,a,a"):
                script = ",".join(["a"] * k + [tail])
                parts = split_by(data, chunkings(rng, len(data), 3)[-1])

                def soracle(res, meta, peak, out=m["out"]):
                    sv = stream_verdict(res)
                    if sv not in ("ok", "err"):
                        return "streaming decoder under a sink fault: " + sv
                    if sv == "ok":
                        return None if outfield(res) == out.hex() else "success reported but the sink did not receive the complete output"
                    return None if out.hex().startswith(outfield(res)) else "bytes the sink accepted are not a prefix of the correct output"
                run.add("stream us=hdr full=1 ai=%d sink=%s ops=%s" % (rng.below(2), script, ";".join(["wa:" + c.hex() for c in parts] + ["fin"])),
                        oracle=soracle, tag="c12:stream:sinkfault", script=script)
    # a raw LZMA2 decoder whose source failed inside a chunk, then reset (or not), then a healthy source: the earlier
    # failure leaves nothing behind
    for m in [x for x in lzma2_material(run, 40, 80, 0, 0) if 3 < len(x["payload"]) < 3000][:sizes(run.tier, 12, 60)]:
        pay = m["payload"]
        for c in parse_lzma2(pay)[:3]:
            if c["kind"] == "end":
                continue
            cut = c["off"] + c["hdrlen"] + max(1, (c["total"] - c["hdrlen"]) // 2)
            for mid in (["r"], []):
                def healthy_again(res, meta, peak, out=m["out"], used=len(pay)):
                    if "panic" in res or v(res) in ("hang", "abort", "missing"):
                        return "panic/hang"
                    want = "ok:%d:%s" % (used, out_repr(out))
                    return None if res.split(" ")[-1] == want else "after a source fault inside a chunk the reused raw decoder gave %s, the format defines %s" % (res.split(" ")[-1][:60], want[:60])
                run.add("rawlzma2 ops=%s" % ";".join(["df:" + pay[:cut].hex()] + mid + ["d:" + pay.hex()]), oracle=healthy_again, tag="c12:rawlzma2:reuse-after-source-fault")
    # the reader uses the library itself in the middle of the outer decode (k-th read call; piecewise readers so
    # that the outer decoder is inside a chunk): same result as without, never a panic
    for m in lz2[:sizes(run.tier, 3, 10)]:
        for k in (1, 2, 3, 5, 8):
            for rk in ("buf:3", "frag:7:2", "buf:16"):
                run.add("lzma2 nest=%d rk=%s in=%s" % (k, rk, m["payload"].hex()), oracle=exp_ok_out(m["out"]), tag="c12:nested-use-mid-decode")
    for f in xzs[:sizes(run.tier, 1, 4)]:
        for k in (2, 4, 7):
            run.add("xz nest=%d rk=buf:5 in=%s" % (k, f["data"].hex()), oracle=exp_ok_out(f["out"]), tag="c12:nested-use-mid-decode")
    # … in particular while the outer decoder is in the middle of an uncompressed chunk's payload
    body = rng.bytes(40)
    stored = b"\x01\x00\x27" + body + b"\x02\x00\x04" + body[:5] + b"\x00"
    for k in range(1, 30):
        run.add("lzma2 nest=%d rk=frag:%d:2 in=%s" % (k, rng.below(99) + 1, stored.hex()), oracle=exp_ok_out(body + body[:5]), tag="c12:nested-use-in-stored-chunk")
    run.add("xz nest=9 rk=frag:3:2 in=%s" % core.build_xz(1, [core.XzBlock(stored, body + body[:5])]).hex(), oracle=exp_ok_out(body + body[:5]), tag="c12:nested-use-in-stored-chunk")
    # nothing to deliver is still a success that flushes: the empty LZMA2 stream, empty .lzma streams
    decoder_cases("lzma2", "", b"\x00", b"", True, 2)
    for e in core.script([dict(kind="lzma", lc=3, lp=0, pb=2, dict=4096, prog="E"), dict(kind="lzma", lc=0, lp=2, pb=1, dict=4096, prog="")]):
        decoder_cases("lzma", "us=hdr", lzma_file(e), b"", True, 2, probes_eof=bool(e["eos"]))
    for f in xzs:
        decoder_cases("xz", "", f["data"], f["out"], False, len(f["blocks"]) + 1, probes_eof=True)
    # window level: many flushes (small dictionary), faults at each
    for i in range(sizes(run.tier, 30, 300)):
        d = rng.pick([1, 2, 3])
        n = rng.pick([5, 9, 14])
        ops = ["lit:%d" % rng.below(256) for _ in range(2)] + ["lz:%d:%d" % (n, rng.pick([1, 2]))]
        H, _, _ = ideal_window([("lit", int(o.split(":")[1])) for o in ops[:2]] + [("lz", n, int(ops[2].split(":")[2]))], d if d >= 2 else 1)
        k = rng.below(n + 3)
        script = ",".join(["a"] * k + ["f"])

        def oracle(res, meta, peak, H=bytes(H)):
            if "panic" in res:
                return "panic under sink fault"
            if not is_prefix_repr(outfield(res), H):
                return "window delivered bytes that are not a prefix of the history"
            return None
        if int(ops[2].split(":")[2]) <= min(2, d):
            run.add("win kind=circ d=%d m=none sink=%s ops=%s" % (d, script, ";".join(ops + ["fin"])), oracle=oracle, tag="c12:win:sinkfault")
    # encoders
    enc_inputs = [b"", b"a", b"hello", bytes(20), rng.bytes(12)][:sizes(run.tier, 3, 5)]
    for data in enc_inputs:
        for kind, opt in (("lzma", "hnone"), ("lzma", "h%d" % len(data)), ("lzma2", ""), ("xz", "")):
            ref = run.add("enc kind=%s opt=%s full=1 in=%s" % (kind, opt or "hnone", data.hex()),
                          oracle=lambda res, meta, peak: None if v(res) == "ok" else "encoder failed", tag="c12:enc:ref")
            run.enc_refs = getattr(run, "enc_refs", []) + [(ref, kind, opt, data)]
    run.post = c12_post


def c12_post(run):
    second = Run(run.prop, run.tier, run.seed)
    for ref, kind, opt, data in getattr(run, "enc_refs", []):
        res = run.impl[ref]
        if v(res) != "ok":
            continue
        full = bytes.fromhex(outfield(res))
        ncalls = int(core.fields(res).get("w", "0"))

        def oracle(res, meta, peak, full=full):
            if v(res) not in ("ok", "err"):
                return "encoder fault injection: verdict %s" % v(res)
            got = outfield(res)
            if v(res) == "ok":
                if got != full.hex():
                    return "encoder reported success but the sink did not receive the complete output"
            elif not full.hex().startswith(got):
                return "encoder: bytes accepted before the failure are not a prefix of the correct output"
            return None
        for k in range(min(ncalls + 1, 140)):
            script = ",".join(["a"] * k + ["f"])
            second.add("enc kind=%s opt=%s full=1 sink=%s in=%s" % (kind, opt or "hnone", script, data.hex()), oracle=oracle,
                       tag="c12:enc:sinkfault", script=script)
        script = ",".join(["u1"] * (len(full) + 4))
        second.add("enc kind=%s opt=%s full=1 sink=%s in=%s" % (kind, opt or "hnone", script, data.hex()), oracle=oracle,
                   tag="c12:enc:shortwrite", script=script)
        for p in range(len(data) + 1):
            # for the .lzma encoder (one byte at a time, no framing that depends on the read pattern) the bytes
            # delivered before the fault must be a prefix of the encoding of the complete input
            second.add("enc kind=%s opt=%s full=1 rbad=1 in=%s" % (kind, opt or "hnone", data[:p].hex()),
                       oracle=lambda res, meta, peak, full=full, kind=kind: "source fault swallowed by the encoder" if v(res) == "ok" else
                       ("verdict " + v(res)) if v(res) != "err" else
                       "encoder: after a source fault the sink holds bytes that are not a prefix of the correct output"
                       if (kind == "lzma" and not full.hex().startswith(outfield(res))) else None,
                       tag="c12:enc:srcfault", script="")
        # one-shot source faults (the k-th read call fails once)
        for frags in ("", "3", "1,1,1,1,1,1,1,1,1,1,1,1,1,1,1,1,1,1,1,1,1,1,1,1"):
            # the fault-free output under the same read pattern (the LZMA2 encoder emits one chunk per read)
            refid = second.add("enc kind=%s opt=%s full=1 frags=%s in=%s" % (kind, opt or "hnone", frags, data.hex()),
                               oracle=lambda res, meta, peak: None if v(res) == "ok" else "encoder failed", tag="c12:enc:ref-frags")
            for k in range(1, (len(data) + 3 if frags else 4)):
                second.add("enc kind=%s opt=%s full=1 frags=%s rfail=%d rfk=%s in=%s" % (kind, opt or "hnone", frags, k, ["wouldblock", "other", "timedout", "invaliddata", "brokenpipe"][k % 5], data.hex()), cmp=False,
                           oracle=lambda res, meta, peak, refid=refid: ("verdict " + v(res)) if v(res) not in ("ok", "err") else
                           "a read call failed (once) but the encoder reported success" if (v(res) == "ok" and core.fields(res).get("rf") == "1") else
                           None if outfield(second.impl[refid]).startswith(outfield(res)) else "encoder: bytes accepted before the source failure are not a prefix of the fault-free output",
                           tag="c12:enc:oneshot-srcfault", script="")
    second.execute()
    run.violations += second.violations
    run.disagreements += second.disagreements
    for k, n in second.dist.items():
        run.count("enc:" + k, n)
    run.extra_cov["encoder_fault_cases"] = len(second.cases)
    run.extra_cases = second.cases


# ----------------------------------------------------------------- C13

def xz_block_header_ranges(data):
    """(start, end) byte ranges of the block headers of an .xz file, found by walking the framing the way the
    decoder does (stream header, per block: header size byte, LZMA2 chunk framing, padding, check); the walk
    stops at the first thing it cannot follow, so a range is reported only for headers the decoder can reach"""
    out = []
    if len(data) < 12:
        return out
    check = {0: 0, 1: 4, 4: 8, 10: 32}.get(data[7] & 0x0F)
    o = 12
    while o < len(data) and data[o] != 0 and check is not None:
        hs = (data[o] + 1) * 4
        out.append((o, o + hs))
        q = o + hs
        while True:                      # LZMA2 chunks
            if q >= len(data):
                return out
            c = data[q]
            if c == 0:
                q += 1
                break
            if c in (1, 2):
                if q + 3 > len(data):
                    return out
                q += 3 + ((data[q + 1] << 8) | data[q + 2]) + 1
            elif c >= 0x80:
                if q + 5 > len(data):
                    return out
                q += 5 + (1 if c >= 0xC0 else 0) + ((data[q + 3] << 8) | data[q + 4]) + 1
            else:
                return out
        q += (-(q - o)) % 4
        o = q + check
    return out


def k2_site(line, pos_a, pos_b):
    """known finding K2 is the read-ahead of `BufReader` over `Take` inside decode::xz::read_block_header: both
    reader positions then lie inside one block header (its first byte .. its end).  A position difference
    anywhere else (stream header, block data, index, footer, trailing bytes) is NOT K2 and is reported."""
    try:
        a, b = int(pos_a), int(pos_b)
        data = bytes.fromhex(core.fields(line).get("in", ""))
    except (TypeError, ValueError):
        return False
    return any(lo <= a <= hi and lo <= b <= hi for lo, hi in xz_block_header_ranges(data))


def c13(run: Run):
    rng = run.rng
    lzm = [m for m in core.gen_material("lzma", run.seed + 13, 100) if m["dict"] >= 4096 and len(m["payload"]) < 2000]
    lz2 = [m for m in lzma2_material(run, 40, 100, 6, 20) if len(m["payload"]) < 3000]
    xzs = [f for f in xz_files(run, 30, lz2) if len(f["data"]) < 4000]
    n = sizes(run.tier, 40, 500)
    rks = ["flat", "cur", "buf:1", "buf:2", "buf:3", "buf:5", "buf:7", "buf:16", "buf:64", "buf:8192", "frag:1:3", "frag:2:7", "frag:3:2"]
    groups = []
    for i in range(n):
        which = rng.below(3)
        if which == 0:
            m = rng.pick(lzm)
            data, op = lzma_file(m), rng.pick(["lzma us=hdr", "lzma us=hdr", "lzma us=hdr ai=1", "lzma us=hup:none ai=1"])
        elif which == 1:
            data, op = rng.pick(lz2)["payload"], "lzma2"
        else:
            data, op = rng.pick(xzs)["data"], "xz"
        mode = rng.below(4)
        if mode == 1 and data:
            p = rng.below(len(data))
            data = data[:p] + bytes([data[p] ^ (1 << rng.below(8))]) + data[p + 1:]
        elif mode == 2:
            data = data[:rng.below(len(data) + 1)]
        elif mode == 3:
            data = data + rng.pick([rng.bytes(rng.below(9)), bytes(rng.pick([4, 8, 12])) + rng.pick(xzs)["data"], rng.pick(xzs)["data"], bytes(rng.pick([1, 4, 7]))])
        ks = []
        picks = ["flat"] + [rng.pick(rks[1:]) for _ in range(sizes(run.tier, 4, 8))]
        for rk in picks:
            if rk.startswith("frag"):
                rk = "frag:%d:%d" % (rng.below(1000) + 1, rng.pick([1, 2, 3, 7]))
            ks.append(run.add("%s rk=%s pos=1 in=%s" % (op, rk, data.hex()), oracle=no_crash, cmp=False,
                              tag="c13:%s:%s" % (op.split(" ")[0], ["valid", "bitflip", "truncated", "trailing"][mode])))
        groups.append((ks, op.split(" ")[0], mode))
        # the flat case is also compared with the model (without the pos field)
        run.add("%s in=%s" % (op, data.hex()), oracle=no_crash, tag="c13:model", nontrivial=False)

    # a declared size on a stream that ALSO carries an end marker (no encoder writes one, so the material above has
    # none): the decoder stops at the size, and how much it has consumed at that moment must not depend on how many
    # bytes the reader happened to have buffered (seeded change C13f-1: an optional marker swallowed by look-ahead)
    for m in [x for x in lzm if x["eos"] and len(x["out"]) > 0][:sizes(run.tier, 10, 60)]:
        base = lzma_file(m, size=len(m["out"]))
        for data in (base, base + rng.bytes(rng.below(30) + 1)):
            ks = [run.add("lzma us=hdr rk=%s pos=1 in=%s" % (rk, data.hex()), oracle=no_crash, cmp=False, tag="c13:lzma:size+marker")
                  for rk in ["flat", "buf:1", "buf:2", rng.pick(["buf:3", "buf:5", "buf:7"]), rng.pick(["buf:16", "buf:64", "cur"]),
                             "frag:%d:%d" % (rng.below(1000) + 1, rng.pick([1, 2, 3]))]]
            groups.append((ks, "lzma", 0))
    # K2 witness: an error at the start of the block header (reserved flag bit, CRC recomputed)
    for f in [x for x in xzs if x["blocks"]][:3]:
        d = bytearray(f["data"])
        o, ln = f["rec"]["b0_flags"]
        d[o] |= 0x04
        d = core.refresh_crcs(bytes(d), f["rec"], len(f["blocks"]))
        ks = [run.add("xz rk=%s pos=1 in=%s" % (rk, d.hex()), oracle=no_crash, cmp=False, tag="c13:xz:hdr-error")
              for rk in ("flat", "buf:1", "buf:2", "frag:5:1", "buf:8192")]
        groups.append((ks, "xz", 1))

    def post(run):
        for ks, op, mode in groups:
            ref = run.impl[ks[0]]
            rf = core.fields(ref)
            for k in ks[1:]:
                r = run.impl[k]
                f = core.fields(r)
                meta = run.cases[int(k)][2]
                if v(r) != v(ref) or f.get("out") != rf.get("out") or f.get("used") != rf.get("used"):
                    run.report_violation(k, run.cases[int(k)][1], meta, r,
                                         "verdict/output/consumed differ from the all-at-once reader: `%s`" % ref[:120])
                elif f.get("pos") != rf.get("pos"):
                    if op == "xz" and v(r) == "err" and k2_site(run.cases[int(k)][1], f.get("pos"), rf.get("pos")):
                        m2 = dict(meta, tag="c13:xz-error-position")
                        run.report_violation(k, run.cases[int(k)][1], m2, r,
                                             "reader position after an xz error depends on fragmentation (%s vs %s)" % (f.get("pos"), rf.get("pos")))
                    else:
                        run.report_violation(k, run.cases[int(k)][1], meta, r,
                                             "reader position differs from the all-at-once reader (%s vs %s)" % (f.get("pos"), rf.get("pos")))
    run.post = post


# ----------------------------------------------------------------- C14

def c14(run: Run):
    rng = run.rng
    groups = []
    # raw LZMA: pools of payloads sharing lc/lp/pb (the generator emits lc3/lp0/pb2 for a quarter of its material)
    allm = [m for m in core.gen_material("lzma", run.seed * 7 + 1, sizes(run.tier, 300, 1500)) if len(m["payload"]) < 3000]
    allbad = core.gen_material("lzmabad", run.seed * 7 + 2, sizes(run.tier, 200, 800))
    byprops = {}
    for m in allm:
        byprops.setdefault((m["lc"], m["lp"], m["pb"]), []).append(m)
    keys = [k for k, v in byprops.items() if len(v) >= 3] or list(byprops)
    for i in range(sizes(run.tier, 25, 300)):
        lc, lp, pb = rng.pick(keys)
        same = byprops[(lc, lp, pb)]
        d = rng.pick([1, 2, 3, 7, 4096, 65536])
        valid = [m for m in same if m["dict"] <= d] or same
        pool = []
        for m in [rng.pick(valid) for _ in range(4)]:
            pay = m["payload"]
            pool.append(pay)
            if len(pay) > 6:
                pool.append(pay[:rng.below(len(pay) - 5) + 5])
                p = rng.below(len(pay) - 5) + 5
                pool.append(pay[:p] + bytes([pay[p] ^ 0x55]) + pay[p + 1:])
                pool.append(pay[:5])
        # streams with one out-of-window copy (a stale window / stale rep registers would accept them)
        pool += [b["payload"] for b in allbad if (b["lc"], b["lp"], b["pb"]) == (lc, lp, pb) and b["dict"] == d][:4]
        # a copy reaching before the start of its own output (a window recycled from the previous stream would serve it)
        pool += [b["payload"] for b in core.script([dict(kind="lzma", lc=lc, lp=lp, pb=pb, dict=d, prog=pr)
                                                     for pr in ("M%d.5" % rng.pick([1, 2, 3]), "L65,L66,M%d.9" % rng.pick([3, 4, 7]), "L1,S")])]
        # the empty stream with end marker (adapts models, leaves rep0 = 0xFFFFFFFF, produces nothing)
        pool.append(bytes.fromhex("0083fffbffffc0000000"))
        # payloads followed by bytes that do not belong to them
        pool += [q + rng.pick([b"\x00", b"\x01\x02", rng.bytes(7)]) for q in pool[:3]]
        m0 = rng.pick(valid)
        us0 = rng.pick(["none", str(len(m0["out"])), "0", "5", str(2**40)])
        ml = rng.pick(["none", "none", "0", "7", "100", str(d), str(2**40)])
        ops = []
        probes = []
        cur_us = us0
        for j in range(rng.pick([2, 4, 6, 10])):
            ops.append(rng.pick(["d:", "d:", "df:"]) + rng.pick(pool).hex())     # df: the source fails where the data ends
            k = rng.below(3)
            if k == 1:
                cur_us = rng.pick(["none", "3", str(len(m0["out"])), str(U64MAX)])
                ops.append("rs:" + cur_us)
            else:
                ops.append("r")
            y = rng.pick(pool)
            ops.append("st")              # the whole decoder state right after the reset …
            ops.append("d:" + y.hex())
            probes.append((len(ops) - 1, y, cur_us))
            ops.append("r")
        hist = run.add("rawlzma lc=%d lp=%d pb=%d dict=%d us=%s ml=%s ops=%s" % (lc, lp, pb, d, us0, ml, ";".join(ops)),
                       oracle=lambda res, meta, peak: "panic in history" if "panic" in res else None, tag="c14:lzma:history")
        for idx, y, us in probes:
            # … must equal the state of a freshly constructed decoder (every table and register)
            fresh = run.add("rawlzma lc=%d lp=%d pb=%d dict=%d us=%s ml=%s ops=st;d:%s" % (lc, lp, pb, d, us, ml, y.hex()),
                            oracle=None, tag="c14:lzma:fresh", nontrivial=False)
            groups.append((hist, idx, fresh, 2))
            groups.append((hist, idx - 1, fresh, 1))
    # memory limit x size re-specified by reset: the limit is measured against the window a decode needs, whatever
    # sizes the object was constructed or reset with
    for m in [x for x in allm if len(x["out"]) > 40 and x["dict"] >= 64][:sizes(run.tier, 12, 80)]:
        L = len(m["out"])
        ml = rng.pick([7, 16, 30, min(L, m["dict"]) - 1])
        us_final = "none" if m["eos"] else str(L)
        for us0, rs in (("none", str(L)), (str(2**40), str(L)), ("3", str(L)), (str(L), "none" if m["eos"] else str(L))):
            ops = ["rs:%s" % rs] + (["rs:%s" % us_final] if rs != us_final else []) + ["st", "d:" + m["payload"].hex()]
            hist = run.add("rawlzma lc=%d lp=%d pb=%d dict=%d us=%s ml=%d ops=%s" % (m["lc"], m["lp"], m["pb"], m["dict"], us0, ml, ";".join(ops)),
                           oracle=lambda res, meta, peak: "panic in history" if "panic" in res else None, tag="c14:lzma:memlimit-resized")
            fresh = run.add("rawlzma lc=%d lp=%d pb=%d dict=%d us=%s ml=%d ops=st;d:%s" % (m["lc"], m["lp"], m["pb"], m["dict"], us_final, ml, m["payload"].hex()),
                            oracle=None, tag="c14:lzma:fresh", nontrivial=False)
            groups.append((hist, len(ops) - 1, fresh, 2))
            groups.append((hist, len(ops) - 2, fresh, 1))
    # "any number of reuse cycles": hundreds of resets between two uses of the same literal contexts (counters
    # that wrap, lazily refreshed tables); A touches many contexts, B only a few
    cyc = []
    for (lc, lp, pb) in [(4, 1, 0), (8, 0, 2), (3, 2, 1), (3, 0, 2), (0, 4, 4), (8, 4, 0)][:sizes(run.tier, 4, 6)]:
        cyc.append((lc, lp, pb))
    reqs = []
    for (lc, lp, pb) in cyc:
        reqs.append(dict(kind="lzma", lc=lc, lp=lp, pb=pb, dict=4096, prog="X60.%d.200,M7.12,X20.%d.200,M3.11,E" % (rng.below(999), rng.below(999))))
        reqs.append(dict(kind="lzma", lc=lc, lp=lp, pb=pb, dict=4096, prog="L0,L1,M1.10,E"))
    cm = core.script(reqs)
    for i, (lc, lp, pb) in enumerate(cyc):
        A, B = cm[2 * i]["payload"], cm[2 * i + 1]["payload"]
        k = [255, 256, 257, 512, 511, 65536][i] if run.tier == "thorough" or i < 4 else 256
        if k > 1000 and lc + lp > 6:
            k = 1024
        ops = ["d:" + A.hex()] + ["r", "d:" + B.hex()] * (k - 1) + ["r", "st", "d:" + A.hex()]
        hist = run.add("rawlzma lc=%d lp=%d pb=%d dict=4096 us=none ml=none ops=%s" % (lc, lp, pb, ";".join(ops)),
                       oracle=lambda res, meta, peak: "panic in history" if "panic" in res else None, tag="c14:lzma:long-cycle", cycles=k)
        fresh = run.add("rawlzma lc=%d lp=%d pb=%d dict=4096 us=none ml=none ops=st;d:%s" % (lc, lp, pb, A.hex()), oracle=None,
                        tag="c14:lzma:fresh", nontrivial=False)
        groups.append((hist, len(ops) - 1, fresh, 2))
        groups.append((hist, len(ops) - 2, fresh, 1))
    lz2 = lzma2_material(run, 60, 300, 6, 30)
    for i in range(sizes(run.tier, 25, 300)):
        pool = []
        for m in [rng.pick(lz2) for _ in range(5)]:
            pay = m["payload"]
            pool.append(pay)
            if len(pay) > 3:
                pool.append(pay[:rng.below(len(pay) - 1) + 1])
                p = rng.below(len(pay))
                pool.append(pay[:p] + bytes([pay[p] ^ 0x21]) + pay[p + 1:])
                # strip the leading dictionary/state reset so that a stale state would show
                ch = parse_lzma2(pay)
                if ch and ch[0]["kind"] == "lzma" and ch[0]["ctrl"] >= 0xE0:
                    pool.append(bytes([0x80 | (pay[0] & 0x1F)]) + pay[1:5] + pay[6:])
        # streams that do not open with a dictionary reset (accepted leniently): they start from whatever position
        # bookkeeping the object has; and streams cut inside an uncompressed chunk / after some completed chunks
        for m in [rng.pick(lz2) for _ in range(3)]:
            pay = m["payload"]
            ch = parse_lzma2(pay)
            if ch and ch[0]["kind"] == "lzma" and ch[0]["ctrl"] >= 0xE0:
                pool.append(bytes([0xC0 | (pay[0] & 0x1F)]) + pay[1:])
            if ch and ch[0]["kind"] == "raw":
                pool.append(b"\x02" + pay[1:])
            for c in ch[1:3]:
                pool.append(pay[:c["off"]])                                   # ends right after a completed chunk
                if c["kind"] == "raw" and c["unpacked"] > 1:
                    pool.append(pay[:c["off"] + 3 + c["unpacked"] // 2])      # ends inside an uncompressed chunk
        ops, probes = [], []
        for j in range(rng.pick([2, 4, 8])):
            ops.append(rng.pick(["d:", "d:", "df:"]) + rng.pick(pool).hex())
            ops.append("r")
            y = rng.pick(pool)
            ops.append("d:" + y.hex())
            probes.append((len(ops) - 1, y))
            ops.append("r")
        hist = run.add("rawlzma2 %sops=%s" % (rng.pick(["", "", "ctor=default "]), ";".join(ops)), oracle=lambda res, meta, peak: "panic in history" if "panic" in res else None,
                       tag="c14:lzma2:history")
        if i % 5 == 0:
            # a decoder from Default::default(): its first decode equals a new() decoder's, also for streams whose first
            # chunk carries no properties byte (accepted leniently, decoded with the initial properties)
            y0 = rng.pick(pool)
            a_ = run.add("rawlzma2 ctor=default ops=st;d:%s" % y0.hex(), oracle=None, tag="c14:lzma2:default-ctor")
            b_ = run.add("rawlzma2 ops=st;d:%s" % y0.hex(), oracle=None, tag="c14:lzma2:fresh", nontrivial=False)
            groups.append((a_, 1, b_, 2))
            groups.append((a_, 0, b_, 1))
        for idx, y in probes:
            fresh = run.add("rawlzma2 ops=d:%s" % y.hex(), oracle=None, tag="c14:lzma2:fresh", nontrivial=False)
            groups.append((hist, idx, fresh, 1))

    def post(run):
        for hist, idx, fresh, fpos in groups:
            h = run.impl[hist].split(" ")
            f = run.impl[fresh].split(" ")
            if len(h) < idx + 2 or len(f) < fpos + 1:
                continue
            if h[idx + 1] != f[fpos]:
                run.report_violation(hist, run.cases[int(hist)][1], run.cases[int(hist)][2], run.impl[hist],
                                     "after reset, op #%d gave `%s` but a fresh decoder gives `%s`" % (idx, h[idx + 1][:80], f[fpos][:80]))
    run.post = post


# ----------------------------------------------------------------- C17

def c17(run: Run):
    rng = run.rng
    mats = [m for m in lzma2_material(run, 80, 900, 10, 80) if len(m["payload"]) < 5000]

    # a compressed chunk whose last match runs past its declared size, with the declared END on a multiple of 64 KiB
    # (since the last dictionary reset) and next to it — a window that grows in 64 KiB steps has no slack exactly there
    # (seeded change C17f-1).  The chunk is the reference encoder's; only the declared size in its header is lowered.
    def overshoot_rejected(res, meta, peak):
        return None if res.split(" ")[0] == "err" or res.split(" ")[-1].startswith("err") else \
            "chunk producing %d bytes beyond its declared size accepted: %s" % (meta.get("over"), res[:80])
    for pre, over in ((0, 2), (4096, 5), (0, 1)) if run.tier == "quick" else ((0, 2), (4096, 5), (0, 1), (65536, 3), (1, 7), (65535, 2)):
        target = 65536 * ((pre + 64) // 65536 + 1)      # the declared end (since the dictionary reset) lands here
        lits = target - pre - 8 + over
        m = core.script([dict(kind="lzma2", chunks=("V1:%d.%d|" % (pre, rng.below(99)) if pre else "") +
                              "C%d:3.0.2:X%d.%d.200,M7.8" % (3 if not pre else 2, lits, rng.below(99)))])[0]
        pay = bytearray(m["payload"])
        o = (3 + pre) if pre else 0                    # offset of the compressed chunk's header
        true = lits + 8
        if not (o + 2 < len(pay) and pay[o] & 0xE0 in (0xE0, 0xC0) and ((pay[o] & 0x1F) << 16 | pay[o + 1] << 8 | pay[o + 2]) + 1 == true):
            run.notes.append("c17:overshoot-at-64k: unexpected layout of the scripted chunk sequence (pre=%d), variant skipped" % pre)
            continue
        for decl in (true - over, true - over + 1, true - over - 1):
            if decl == true:
                continue
            q = bytearray(pay)
            q[o] = (q[o] & 0xE0) | ((decl - 1) >> 16)
            q[o + 1], q[o + 2] = ((decl - 1) >> 8) & 0xFF, (decl - 1) & 0xFF
            run.add("lzma2 in=%s" % bytes(q).hex(), oracle=overshoot_rejected, tag="c17:overshoot-at-64k", over=true - decl, nontrivial=(decl == true - over))
            run.add("rawlzma2 ops=d:%s" % bytes(q).hex(), oracle=overshoot_rejected, tag="c17:overshoot-at-64k:raw", over=true - decl, nontrivial=False)

    def reject_if_liblzma_rejects(data):
        ref = liblzma_raw2(data)

        def oracle(res, meta, peak):
            msg = no_crash(res, meta, peak)
            if msg:
                return msg
            if ref[0] == "err" and v(res) != "err":
                return "malformed framing (%s) accepted; liblzma rejects it" % meta.get("mut")
            if ref[0] == "ok" and v(res) == "ok" and outfield(res) != out_repr(ref[1]):
                return "output differs from liblzma's on a stream both accept"
            return None
        return oracle, ref[0]
    for m in mats:
        pay = m["payload"]
        chunks = parse_lzma2(pay)
        for ci, c in enumerate(chunks):
            muts = []
            o = c["off"]
            if c["kind"] != "end":
                for val in (3, 0x10, 0x7F, rng.below(0x7D) + 3):
                    muts.append(("ctrl=0x%02x" % val, pay[:o] + bytes([val]) + pay[o + 1:], True))
            if c["kind"] == "lzma":
                if c["props_off"] is not None:
                    po = c["props_off"]
                    for val in (225, 255, 4 + 9 * 1, 8, 2 + 9 * 3, 9 * 4 + 1 + 45):
                        lc, lp = val % 9, (val // 9) % 5
                        if val >= 225 or lc + lp > 4:
                            muts.append(("props=%d" % val, pay[:po] + bytes([val]) + pay[po + 1:], True))
                # declared packed size too small / too large
                p = c["packed"]
                for dp in (-1, +1):
                    np_ = p + dp
                    if 1 <= np_ <= 65536:
                        muts.append(("packed%+d" % dp, pay[:o + 3] + (np_ - 1).to_bytes(2, "big") + pay[o + 5:], False))
                u = c["unpacked"]
                for du in (-1, +1):
                    nu = u + du
                    if 1 <= nu <= (1 << 21):
                        nc = (pay[o] & 0xE0) | ((nu - 1) >> 16)
                        muts.append(("unpacked%+d" % du, pay[:o] + bytes([nc]) + ((nu - 1) & 0xFFFF).to_bytes(2, "big") + pay[o + 3:], False))
            if c["kind"] == "raw":
                n = c["unpacked"]
                # data shorter than declared: cut the stream inside the chunk
                muts.append(("raw-short", pay[:o + 3 + n - 1], True))
            if c["kind"] == "end":
                muts.append(("no-end", pay[:o], True))
                muts.append(("cut-before-end", pay[:max(0, o - rng.below(3) - 1)], True))
            for name, data, always in muts:
                if always:
                    run.add("lzma2 in=%s" % data.hex(), oracle=exp_err(), tag="c17:" + name.split("=")[0].rstrip("+-1"), mut=name)
                    if rng.chance(1, 4) or name.startswith("props"):
                        # … and whatever the decoder object has seen before (the same malformed stream, a valid one)
                        def twice(res, meta, peak):
                            toks = res.split(" ")
                            if "panic" in res or v(res) in ("hang", "abort", "missing"):
                                return "panic/hang"
                            bad = [i for i in meta["bad_at"] if len(toks) <= i or not (toks[i].startswith("err:") or toks[i] == "unspec")]
                            return "malformed framing (%s) accepted by a reused raw decoder: %s" % (meta.get("mut"), res[:100]) if bad else None
                        ops, bad_at = rng.pick(([] if name.startswith("props") else [(["d:" + data.hex(), "d:" + data.hex()], [1, 2])]) + [
                                                (["d:" + pay.hex(), "d:" + data.hex(), "d:" + data.hex()], [2, 3]),
                                                (["d:" + data.hex(), "r", "d:" + data.hex()], [1, 3])][:2 if name.startswith("props") else 3])
                        run.add("rawlzma2 ops=%s" % ";".join(ops), oracle=twice, tag="c17:reused-decoder", mut=name, bad_at=bad_at)
                else:
                    oracle, refv = reject_if_liblzma_rejects(data)
                    run.count("liblzma-on-size-mutation:" + refv)
                    run.add("lzma2 in=%s" % data.hex(), oracle=oracle, tag="c17:" + name[:-2], mut=name)
        # the same inside XZ for one mutation
        if chunks and chunks[0]["kind"] != "end" and rng.chance(1, 4):
            bad = bytes([0x40]) + pay[1:]
            blk = core.XzBlock(bad, m["out"])
            run.add("xz in=%s" % core.build_xz(1, [blk]).hex(), oracle=exp_err(), tag="c17:in-xz", mut="ctrl=0x40")
    # a chunk that ends early with an end marker although it declares more bytes
    for m in [x for x in core.gen_material("lzma", run.seed + 17, sizes(run.tier, 200, 1200)) if x["eos"] and x["lc"] + x["lp"] <= 4
              and 0 < len(x["out"]) < 60000 and len(x["payload"]) <= 65536][:sizes(run.tier, 25, 200)]:
        for extra in (1, 5):
            u = len(m["out"]) + extra - 1
            chunk = bytes([0xE0 | (u >> 16)]) + (u & 0xFFFF).to_bytes(2, "big") + (len(m["payload"]) - 1).to_bytes(2, "big") + \
                bytes([core.props_byte(m["lc"], m["lp"], m["pb"])]) + m["payload"]
            data = chunk + b"\x02\x00\x00\x41\x00"
            run.add("lzma2 in=%s" % data.hex(), oracle=exp_err(), tag="c17:marker-before-declared-size", mut="unpacked+%d, ends with marker" % extra)
    # the declared uncompressed size ends on a symbol boundary and what follows is so predictable that decoding
    # it would fetch no further input byte: only the coder's end condition (code = 0) can tell
    reqs = []
    for i in range(sizes(run.tier, 6, 30)):
        per = rng.pick([7, 8, 9])
        reqs.append(dict(kind="lzma2", chunks="%sC3:3.0.2:X%d.%d.200,M%d.%d*%d" % (rng.pick(["", "V1:20.%d|" % rng.below(99)]), per, rng.below(999), per, per, rng.pick([20, 30, 60]))))
    for b, rq in zip(core.script(reqs), reqs):
        pay = b["payload"]
        per = int(rq["chunks"].split("M")[1].split(".")[0])
        c = [c for c in parse_lzma2(pay) if c["kind"] == "lzma"][-1]
        for drop in (per, 2 * per):
            nu = c["unpacked"] - drop
            o = c["off"]
            mut = pay[:o] + bytes([(pay[o] & 0xE0) | ((nu - 1) >> 16)]) + ((nu - 1) & 0xFFFF).to_bytes(2, "big") + pay[o + 3:]
            ref = liblzma_raw2(mut)
            run.count("liblzma-on-cheap-tail:" + ref[0])
            run.add("lzma2 in=%s" % mut.hex(), oracle=exp_err(), tag="c17:unpacked-cheap-tail", mut="unpacked-%d (whole final copies dropped)" % drop)
        run.add("lzma2 in=%s" % pay.hex(), oracle=exp_ok_out(b["out"]), tag="c17:valid-cheap-tail")
    # the reserved control byte 0x7F in front of what would be a valid 2 MiB chunk under 0xFF
    for b in core.gen_material("lzma2big", 1, 2):
        if b.get("what") == "unpacked2MiB":
            run.add("lzma2 in=%s" % b["payload"].hex(), oracle=exp_ok_out(b["out"]), tag="c17:valid-2MiB")
            for ctrl in (0x7F, 0x5F, 0x1F):
                run.add("lzma2 in=%s" % (bytes([ctrl]) + b["payload"][1:]).hex(), oracle=exp_err(), tag="c17:ctrl", mut="ctrl=0x%02x" % ctrl)
    # F5 witness (a chunk declaring one byte less than its payload encodes)
    w = bytes.fromhex("e0001400185d0031190848" "52b0dc9a25eba19447c2fb7497484699" "5b2837" "0000")
    run.add("lzma2 in=%s" % w.hex(), oracle=exp_err(), tag="c17:witness-F5", mut="unpacked-1")


# ----------------------------------------------------------------- C18

def c18(run: Run):
    rng = run.rng
    lz2 = [m for m in lzma2_material(run, 30, 100, 6, 30) if len(m["payload"]) < 2000]
    base = xz_files(run, sizes(run.tier, 25, 250), lz2)

    def refused(res, meta, peak):
        if v(res) != "err":
            return "file using an unsupported feature (%s) was not refused: %s" % (meta.get("feature"), res[:80])
        return None
    for f in base:
        blocks = f["blocks"]
        # all 16 check ids
        for cid in range(16):
            if cid in (0, 1, 4):
                continue
            data = core.build_xz(cid, blocks) if cid == 0x0A else patch_check_id(f, cid)
            run.add("xz in=%s" % data.hex(), oracle=refused, tag="c18:check-id", feature="check id %d" % cid,
                    nontrivial=True)
        # other filters
        for fid in (0x03, 0x04, 0x05, 0x06, 0x07, 0x08, 0x09, 0x0A, 0x20, 0x22, rng.below(2**40) + 0x100, 2**62 + 1,
                    0x100000021, (rng.below(2**20) + 1 << 32) | 0x21, 2**62 + 0x21, 0x2100, 0x121, 0x10021):
            if not blocks:
                break
            bl = [core.XzBlock(b.payload, b.out, b.decl_packed, b.decl_unpacked, b.extra_pad_words, dict(b.widths), b.filter_id, b.flags_extra, b.props) for b in blocks]
            k = rng.below(len(bl))
            bl[k].filter_id = fid
            if fid == 0x03:
                bl[k].props = b"\x00"
            run.add("xz in=%s" % core.build_xz(f["check"], bl).hex(), oracle=refused, tag="c18:filter-id", feature="filter 0x%x" % fid)
        # every one-byte filter id on one block of a few files (the assigned ids 0x03..0x0B and the gaps)
        if blocks and rng.chance(1, 6):
            for fid in range(0x80):
                if fid == 0x21:
                    continue
                bl = [core.XzBlock(b.payload, b.out, b.decl_packed, b.decl_unpacked, b.extra_pad_words, dict(b.widths), b.filter_id, b.flags_extra, b.props) for b in blocks]
                bl[0].filter_id = fid
                run.add("xz in=%s" % core.build_xz(f["check"], bl).hex(), oracle=refused, tag="c18:filter-id-sweep", feature="filter 0x%x" % fid)
        # a chain that continues behind LZMA2 (an unknown filter with id 0 and no properties looks like padding),
        # and an LZMA2 filter with a property field of another size
        if blocks and rng.chance(1, 3):
            b0 = blocks[0]
            for chain in ([(0x21, b0.props), (0x00, b"")], [(0x21, b0.props), (0x00, b""), (0x00, b"")], [(0x21, b0.props), (0x03, b"\x00")],
                          [(0x21, b0.props + b"\x00")], [(0x21, b"")], [(0x21, b0.props + b0.props)]):
                body = bytearray([len(chain) - 1])
                for fid, pr in chain:
                    body += core.mb(fid) + core.mb(len(pr)) + pr
                total = 1 + len(body) + 4
                total += core.pad4(total)
                hdr = bytes([total // 4 - 1]) + bytes(body) + b"\x00" * (total - 5 - len(body))
                raw = bytearray(b"\xfd7zXZ\x00" + bytes([0, f["check"]]) + crc32(bytes([0, f["check"]])).to_bytes(4, "little"))
                start = len(raw)
                raw += hdr + crc32(hdr).to_bytes(4, "little") + b0.payload
                unp = len(raw) - start
                raw += b"\x00" * core.pad4(unp)
                if f["check"] == 1:
                    raw += crc32(b0.out).to_bytes(4, "little"); unp += 4
                elif f["check"] == 4:
                    raw += core.crc64(b0.out).to_bytes(8, "little"); unp += 8
                idx = b"\x00" + core.mb(1) + core.mb(unp) + core.mb(len(b0.out))
                idx += b"\x00" * core.pad4(len(idx))
                raw += idx + crc32(idx).to_bytes(4, "little")
                ftr = ((len(idx) + 4) // 4 - 1).to_bytes(4, "little") + bytes([0, f["check"]])
                raw += crc32(ftr).to_bytes(4, "little") + ftr + b"YZ"
                run.add("xz in=%s" % bytes(raw).hex(), oracle=refused, tag="c18:filter-chain-tail", feature="filter chain %s" % [(hex(a), len(b)) for a, b in chain])
        # reserved stream-flag bits set in BOTH flag bytes at once (first byte = upper nibble of the second, and others)
        if rng.chance(1, 3):
            for n_ in range(1, 16):
                for b0_, b1_ in ((n_ << 4, (n_ << 4) | f["check"]), (n_, (n_ << 4) | f["check"]), (n_ << 4, (rng.below(15) + 1 << 4) | f["check"])):
                    d = bytearray(f["data"])
                    for name in ("flags", "ftr_flags"):
                        o = f["rec"][name][0]
                        d[o], d[o + 1] = b0_, b1_
                    d = core.refresh_crcs(bytes(d), f["rec"], len(blocks))
                    run.add("xz in=%s" % d.hex(), oracle=refused, tag="c18:stream-flags-pairs", feature="stream flag bytes %02x %02x" % (b0_, b1_))
        # reserved block flag bits
        for bit in (0x04, 0x08, 0x10, 0x20):
            if not blocks:
                break
            bl = [core.XzBlock(b.payload, b.out, b.decl_packed, b.decl_unpacked, b.extra_pad_words, dict(b.widths), b.filter_id, b.flags_extra, b.props) for b in blocks]
            bl[rng.below(len(bl))].flags_extra = bit
            run.add("xz in=%s" % core.build_xz(f["check"], bl).hex(), oracle=refused, tag="c18:block-flags", feature="block flag 0x%x" % bit)
        # reserved stream flag bits (header and footer, CRCs recomputed)
        for hi, lo in ((0x01, None), (0x80, None), (None, 0x10), (None, 0x80), (None, 0x20)):
            d = bytearray(f["data"])
            for name in ("flags", "ftr_flags"):
                o = f["rec"][name][0]
                if hi is not None:
                    d[o] |= hi
                if lo is not None:
                    d[o + 1] |= lo
            d = core.refresh_crcs(bytes(d), f["rec"], len(blocks))
            run.add("xz in=%s" % d.hex(), oracle=refused, tag="c18:stream-flags", feature="stream flag bits")
        # more than one stream / stream padding
        other = rng.pick(base)["data"]
        run.add("xz in=%s" % (f["data"] + other).hex(), oracle=refused, tag="c18:two-streams", feature="concatenated streams")
        for padn in (4, 8, 12):
            run.add("xz in=%s" % (f["data"] + bytes(padn)).hex(), oracle=refused, tag="c18:stream-padding", feature="stream padding")
            run.add("xz in=%s" % (f["data"] + bytes(padn) + other).hex(), oracle=refused, tag="c18:padding+stream", feature="padding + stream")
    # a second stream / padding that arrives in its own piece, with ONE read call interrupted (EINTR) — the end-of-input
    # probe after the first footer included: whatever the reader does there, the file must not be accepted as the first
    # stream alone (seeded change C18f-1).  Implementation-only: the model's monad does not continue after a fault.
    # (every `fill_buf`/`read` call counts, one per symbol: sweep the call index over the whole decode)
    for f in sorted([x for x in base if x["blocks"]], key=lambda x: len(x["data"]))[:sizes(run.tier, 2, 8)]:
        other = min((x["data"] for x in base), key=len)
        n = len(f["data"])
        for tail, what in ((other, "concatenated streams"), (bytes(4) + other, "padding + stream"), (bytes(8), "stream padding")):
            for k in range(1, min(3 * n + 40, 1500)):
                run.add("xz rk=cut:%d rfail=%d rfk=interrupted in=%s" % (n, k, (f["data"] + tail).hex()), oracle=refused, cmp=False,
                        tag="c18:interrupted-probe", feature=what + ", read call #%d interrupted once" % k, nontrivial=False)
    # SHA-256 without blocks (finding F4) as liblzma writes it
    enc = pylzma.compress(b"", format=pylzma.FORMAT_XZ, check=pylzma.CHECK_SHA256)
    run.add("xz in=%s" % enc.hex(), oracle=refused, tag="c18:witness-F4", feature="sha256, zero blocks")
    enc = pylzma.compress(b"abc", format=pylzma.FORMAT_XZ, check=pylzma.CHECK_SHA256)
    run.add("xz in=%s" % enc.hex(), oracle=refused, tag="c18:check-id", feature="sha256")
    enc = pylzma.compress(b"abc" * 100, format=pylzma.FORMAT_XZ, filters=[{"id": pylzma.FILTER_DELTA, "dist": 1}, {"id": pylzma.FILTER_LZMA2}])
    run.add("xz in=%s" % enc.hex(), oracle=refused, tag="c18:filter-id", feature="delta filter (liblzma)")
    enc = pylzma.compress(b"abc" * 100, format=pylzma.FORMAT_XZ, filters=[{"id": pylzma.FILTER_X86}, {"id": pylzma.FILTER_LZMA2}])
    run.add("xz in=%s" % enc.hex(), oracle=refused, tag="c18:filter-id", feature="x86 BCJ filter (liblzma)")


def patch_check_id(f, cid):
    """same file with another check id in header and footer (check fields keep their old size:
    the refusal must come from the id itself), CRCs recomputed"""
    d = bytearray(f["data"])
    for name in ("flags", "ftr_flags"):
        o = f["rec"][name][0]
        d[o + 1] = cid
    return core.refresh_crcs(bytes(d), f["rec"], len(f["blocks"]))
