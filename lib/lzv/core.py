"""Core machinery of the lzma-rs verification checks: builds, drivers, material,
containers, evidence, replays.  Everything random derives from VERIF_SEED."""
import hashlib
import json
import os
import re
import subprocess
import sys
import time
import zlib

ROOT = "/verif"
LEAN = os.path.join(ROOT, "lean")
HARNESS = os.path.join(ROOT, "harness")
REPO = "/repo"
LZMODEL = os.path.join(LEAN, ".lake/build/bin/lzmodel")
ENV = dict(os.environ, CARGO_NET_OFFLINE="true")

ALLOWED_AXIOMS = {"propext", "Classical.choice", "Quot.sound"}


class Rng:
    """splitmix64; one state per check run"""

    def __init__(self, seed):
        self.s = (seed * 0x9E3779B97F4A7C15 + 0x1234567) & (2**64 - 1)

    def next(self):
        self.s = (self.s + 0x9E3779B97F4A7C15) & (2**64 - 1)
        z = self.s
        z = ((z ^ (z >> 30)) * 0xBF58476D1CE4E5B9) & (2**64 - 1)
        z = ((z ^ (z >> 27)) * 0x94D049BB133111EB) & (2**64 - 1)
        return z ^ (z >> 31)

    def below(self, n):
        return self.next() % n if n > 0 else 0

    def pick(self, xs):
        return xs[self.below(len(xs))]

    def bytes(self, n):
        return bytes(self.below(256) for _ in range(n))

    def chance(self, num, den):
        return self.below(den) < num


# ---------------------------------------------------------------- builds

def sh(cmd, cwd=None, timeout=3600, env=None):
    p = subprocess.run(cmd, cwd=cwd, capture_output=True, text=True, timeout=timeout, env=env or ENV)
    return p.returncode, p.stdout + p.stderr


_built = {}


def build_harness(release=False, logging=False):
    """(re)build the harness against /repo's working tree; returns binary path or raises.
    `logging`: the crate's optional `enable_logging` feature compiled in, with a logger that formats every record"""
    if logging:
        if "logging" in _built:
            return _built["logging"]
        rc, out = sh(["cargo", "build", "--offline", "--features", "logging", "--target-dir", "target-logging"], cwd=HARNESS, timeout=1800)
        if rc != 0:
            raise BuildError("harness build with the logging feature failed\n" + out[-4000:])
        _built["logging"] = os.path.join(HARNESS, "target-logging", "debug", "lzverif-harness")
        return _built["logging"]
    key = "release" if release else "dev"
    if os.environ.get("LZV_HARNESS_BIN") and not release:
        return os.environ["LZV_HARNESS_BIN"]        # bin/coverage: an instrumented build of the same harness
    if key in _built:
        return _built[key]
    lock_src = os.path.join(REPO, "Cargo.lock")
    lock_dst = os.path.join(HARNESS, "Cargo.lock")
    if os.path.exists(lock_src) and not os.path.exists(lock_dst):
        import shutil
        shutil.copy(lock_src, lock_dst)
    cmd = ["cargo", "build", "--offline"] + (["--release"] if release else [])
    rc, out = sh(cmd, cwd=HARNESS, timeout=1800)
    if rc != 0:
        raise BuildError("harness build failed (does /repo still compile with --cfg lzma_rs_verif "
                         "--features stream,raw_decoder?)\n" + out[-4000:])
    path = os.path.join(HARNESS, "target", "release" if release else "debug", "lzverif-harness")
    _built[key] = path
    return path


class BuildError(Exception):
    pass


def build_lean(targets):
    rc, out = sh(["lake", "build"] + targets, cwd=LEAN, timeout=7200)
    return rc == 0, out


# ---------------------------------------------------------------- drivers

def _parse_results(text):
    res = {}
    for line in text.splitlines():
        line = line.strip()
        if not line.startswith("id="):
            continue
        sp = line.find(" ")
        if sp < 0:
            continue
        res[line[3:sp]] = line[sp + 1:]
    return res


def run_model(lines, timeout=3600):
    if not lines:
        return {}
    p = subprocess.run([LZMODEL, "run"], input="\n".join(lines) + "\n", capture_output=True,
                       text=True, timeout=timeout)
    if p.returncode != 0:
        raise BuildError("model driver failed: " + p.stderr[-2000:])
    return _parse_results(p.stdout)


def case_id(line):
    m = re.search(r"\bid=(\S+)", line)
    return m.group(1) if m else None


def run_impl(lines, release=False, case_timeout_ms=20000, timeout=3600, logging=False):
    """Run cases on the real code.  A hang (watchdog) or a process death (abort,
    e.g. allocation failure) is attributed to the case being run and the
    harness is restarted after it."""
    binary = build_harness(release, logging=logging)
    results = {}
    todo = list(lines)
    env = dict(ENV, LZV_CASE_TIMEOUT_MS=str(case_timeout_ms))
    guard = 0
    while todo and guard < 200:
        guard += 1
        p = subprocess.run([binary], input="\n".join(todo) + "\n", capture_output=True, text=True,
                           timeout=timeout, env=env)
        got = _parse_results(p.stdout)
        results.update(got)
        ids = [case_id(l) for l in todo]
        done = [i for i in ids if i in got]
        if p.returncode == 0 and len(done) == len(todo):
            break
        # find first case without a result
        k = 0
        while k < len(todo) and ids[k] in got:
            k += 1
        if k >= len(todo):
            break
        if p.returncode == 3 or (ids[k] in got and got[ids[k]].startswith("hang")):
            results.setdefault(ids[k], "hang")
        else:
            results[ids[k]] = "abort rc=%s" % p.returncode
        todo = todo[k + 1:]
    # `fsdump=1` cases: the object a failed raw decode left behind is dumped as `fst:<hex>`; every build's result
    # carries the dump as length and CRC-32 only (what the model prints for the state it reads back), the dumps
    # themselves are kept aside for the hand-over to the model
    import zlib
    dumps = {}
    for cid, raw in list(results.items()):
        if " fst:" in raw:
            toks = raw.split(" ")
            dumps[cid] = [t[4:] for t in toks if t.startswith("fst:")]
            results[cid] = " ".join(("fst:%d:%08x" % (len(t[4:]) // 2, zlib.crc32(bytes.fromhex(t[4:])) & 0xFFFFFFFF))
                                    if t.startswith("fst:") else t for t in toks)
    FST_DUMPS[(bool(release), bool(logging))] = dumps
    return results


FST_DUMPS = {}


def strip_peak(r):
    """harness result without the ' peak=N' suffix, and the peak"""
    m = re.search(r" peak=(\d+)$", r)
    if m:
        return r[:m.start()], int(m.group(1))
    return r, 0


def fields(res):
    """key=value fields of a result line (plus positional tokens under '_')"""
    d = {"_": []}
    for tok in res.split(" "):
        if "=" in tok:
            k, v = tok.split("=", 1)
            d[k] = v
        else:
            d["_"].append(tok)
    return d


def out_repr(bs, full=False):
    if full or len(bs) <= 256:
        return bs.hex()
    return "#%d:%08x" % (len(bs), zlib.crc32(bs) & 0xFFFFFFFF)


# ---------------------------------------------------------------- material

def gen_material(kind, seed, n):
    if kind == "lzma2big":
        # expensive to generate (a quarter of a million symbols): kept as a committed corpus file,
        # produced by `lzmodel gen lzma2big 1 2 > corpus/lzma2big.txt`
        text = open(os.path.join(ROOT, "corpus", "lzma2big.txt")).read()
    else:
        p = subprocess.run([LZMODEL, "gen", kind, str(seed), str(n)], capture_output=True, text=True,
                           timeout=3600)
        if p.returncode != 0:
            raise BuildError("generator failed: " + p.stderr[-2000:])
        text = p.stdout
    return _parse_mats(text)


def script(requests):
    """the reference encoder as a service: `requests` are dicts(kind="lzma", lc, lp, pb, dict, prog="L65,M2.5,…")
    or dicts(kind="lzma2", chunks="U1:<hex>|C3:3.0.2:<prog>|…"); returns the material dicts (payload, out, wf, cum …)"""
    lines = []
    for i, r in enumerate(requests):
        lines.append("script idx=%d " % i + " ".join("%s=%s" % (k, v) for k, v in r.items()))
    p = subprocess.run([LZMODEL, "script"], input="\n".join(lines) + "\n", capture_output=True, text=True, timeout=3600)
    if p.returncode != 0:
        raise BuildError("script encoder failed: " + p.stderr[-2000:])
    mats = _parse_mats(p.stdout)
    if len(mats) != len(requests):
        raise BuildError("script encoder returned %d lines for %d requests" % (len(mats), len(requests)))
    return mats


def _parse_mats(text):
    mats = []
    for line in text.splitlines():
        if not line.startswith("mat "):
            continue
        d = {}
        for tok in line.split(" ")[1:]:
            if "=" in tok:
                k, v = tok.split("=", 1)
                d[k] = v
        for k in ("lc", "lp", "pb", "dict", "eos", "nsyms", "idx", "nchunks", "wf"):
            if k in d:
                d[k] = int(d[k])
        d["payload"] = bytes.fromhex(d.get("payload", ""))
        if "outrle" in d:
            out = b""
            for part in d["outrle"].split("+"):
                if "*" in part:
                    b, n = part.split("*")
                    out += bytes.fromhex(b) * int(n)
                else:
                    out += bytes.fromhex(part)
            d["out"] = out
        else:
            d["out"] = bytes.fromhex(d.get("out", ""))
        mats.append(d)
    return mats


def props_byte(lc, lp, pb):
    return lc + 9 * (lp + 5 * pb)


def lzma_header(lc, lp, pb, dict_field, size_field):
    """13-byte (size_field int or None => all ones) header; size_field='skip' => 5 bytes"""
    h = bytes([props_byte(lc, lp, pb)]) + (dict_field & 0xFFFFFFFF).to_bytes(4, "little")
    if size_field == "skip":
        return h
    if size_field is None:
        return h + b"\xff" * 8
    return h + (size_field & (2**64 - 1)).to_bytes(8, "little")


# CRC64-XZ
_CRC64_TABLE = []


def _crc64_init():
    poly = 0xC96C5795D7870F42
    for i in range(256):
        c = i
        for _ in range(8):
            c = (c >> 1) ^ poly if c & 1 else c >> 1
        _CRC64_TABLE.append(c)


_crc64_init()


def crc64(data):
    c = 0xFFFFFFFFFFFFFFFF
    for b in data:
        c = _CRC64_TABLE[(c ^ b) & 0xFF] ^ (c >> 8)
    return c ^ 0xFFFFFFFFFFFFFFFF


def crc32(data):
    return zlib.crc32(data) & 0xFFFFFFFF


def mb(n, width=None):
    """XZ multibyte integer; width>=minimal gives a non-minimal encoding"""
    out = []
    while True:
        b = n & 0x7F
        n >>= 7
        if n == 0:
            out.append(b)
            break
        out.append(0x80 | b)
    if width is not None and width > len(out):
        out[-1] |= 0x80
        while len(out) < width - 1:
            out.append(0x80)
        out.append(0x00)
    return bytes(out)


def pad4(n):
    return (4 - n % 4) % 4


class XzBlock:
    def __init__(self, payload, out, decl_packed=False, decl_unpacked=False, extra_pad_words=0,
                 widths=None, filter_id=0x21, flags_extra=0, props=b"\x16", nfilters=1,
                 unpacked_override=None, packed_override=None):
        self.unpacked_override, self.packed_override = unpacked_override, packed_override
        self.payload, self.out = payload, out
        self.decl_packed, self.decl_unpacked = decl_packed, decl_unpacked
        self.extra_pad_words = extra_pad_words
        self.widths = widths or {}
        self.filter_id = filter_id
        self.flags_extra = flags_extra
        self.props = props
        self.nfilters = nfilters


def build_xz(check_id, blocks, rec=None, index_records=None, index_count=None):
    """Build a single-stream .xz file.  `rec`, if a dict, receives field offsets
    (for targeted mutations): each entry name -> (offset, length)."""
    f = bytearray()
    off = {}
    f += b"\xfd7zXZ\x00"
    off["flags"] = (len(f), 2)
    flags = bytes([0, check_id])
    f += flags
    off["hdr_crc"] = (len(f), 4)
    f += crc32(flags).to_bytes(4, "little")
    records = []
    for bi, b in enumerate(blocks):
        start = len(f)
        body = bytearray()
        fl = (b.nfilters - 1) | (0x40 if b.decl_packed else 0) | (0x80 if b.decl_unpacked else 0) | b.flags_extra
        body.append(fl)
        fo = {}
        if b.decl_packed:
            fo["packed"] = len(body)
            body += mb(len(b.payload) if b.packed_override is None else b.packed_override, b.widths.get("packed"))
        if b.decl_unpacked:
            fo["unpacked"] = len(body)
            body += mb(len(b.out) if b.unpacked_override is None else b.unpacked_override, b.widths.get("unpacked"))
        for _ in range(b.nfilters):
            fo["filter_id"] = len(body)
            body += mb(b.filter_id, b.widths.get("filter_id"))
            body += mb(len(b.props), b.widths.get("props_size"))
            body += b.props
        total = 1 + len(body) + 4
        total += pad4(total)
        total += 4 * b.extra_pad_words
        total = min(total, 1024) if 1 + len(body) + 4 <= 1024 else total     # header size byte <= 0xFF
        hs = total // 4 - 1
        hdr = bytes([hs]) + bytes(body) + b"\x00" * (total - 4 - 1 - len(body))
        off["b%d_hs" % bi] = (start, 1)
        off["b%d_flags" % bi] = (start + 1, 1)
        for k, v in fo.items():
            off["b%d_%s" % (bi, k)] = (start + 1 + v, 1)
        off["b%d_hpad" % bi] = (start + 1 + len(body), total - 4 - 1 - len(body))
        f += hdr
        off["b%d_hcrc" % bi] = (len(f), 4)
        f += crc32(hdr).to_bytes(4, "little")
        off["b%d_payload" % bi] = (len(f), len(b.payload))
        f += b.payload
        unpadded = len(f) - start
        p = pad4(unpadded)
        off["b%d_pad" % bi] = (len(f), p)
        f += b"\x00" * p
        if check_id == 1:
            off["b%d_check" % bi] = (len(f), 4)
            f += crc32(b.out).to_bytes(4, "little")
            unpadded += 4
        elif check_id == 4:
            off["b%d_check" % bi] = (len(f), 8)
            f += crc64(b.out).to_bytes(8, "little")
            unpadded += 8
        elif check_id == 0x0A:
            off["b%d_check" % bi] = (len(f), 32)
            f += hashlib.sha256(b.out).digest()
            unpadded += 32
        records.append((unpadded, len(b.out), b))
    istart = len(f)
    idx = bytearray(b"\x00")
    off["idx_count"] = (istart + len(idx), 1)
    if index_records is not None:
        # a self-consistent index of any length (fewer or more records than blocks)
        recs2 = []
        for i, (u2, n2) in enumerate(index_records):
            b = records[i][2] if i < len(records) else (records[-1][2] if records else XzBlock(b"", b""))
            recs2.append((u2, n2, b))
        records = recs2
    idx += mb(len(records) if index_count is None else index_count)
    for bi, (u, n, b) in enumerate(records):
        off["idx%d_unpadded" % bi] = (istart + len(idx), 1)
        idx += mb(u, b.widths.get("idx_unpadded"))
        off["idx%d_unpacked" % bi] = (istart + len(idx), 1)
        idx += mb(n, b.widths.get("idx_unpacked"))
    ip = pad4(len(idx))
    off["idx_pad"] = (istart + len(idx), ip)
    idx += b"\x00" * ip
    f += idx
    off["idx_crc"] = (len(f), 4)
    f += crc32(bytes(idx)).to_bytes(4, "little")
    index_size = len(f) - istart
    footer = (index_size // 4 - 1).to_bytes(4, "little") + flags
    off["ftr_crc"] = (len(f), 4)
    f += crc32(footer).to_bytes(4, "little")
    off["ftr_backward"] = (len(f), 4)
    off["ftr_flags"] = (len(f) + 4, 2)
    f += footer
    off["ftr_magic"] = (len(f), 2)
    f += b"YZ"
    if rec is not None:
        rec.update(off)
        rec["_index_start"] = istart
        rec["_index_size"] = index_size
        rec["_records"] = [(u, n) for (u, n, _) in records]
    return bytes(f)


def refresh_crcs(f, off, nblocks):
    """recompute every enclosing CRC32 of a mutated file (header, block headers,
    index, footer) so that only a field's own validation can object"""
    f = bytearray(f)
    o, l = off["flags"]
    c, _ = off["hdr_crc"]
    f[c:c + 4] = crc32(bytes(f[o:o + 2])).to_bytes(4, "little")
    for bi in range(nblocks):
        hs_off = off["b%d_hs" % bi][0]
        hc = off["b%d_hcrc" % bi][0]
        f[hc:hc + 4] = crc32(bytes(f[hs_off:hc])).to_bytes(4, "little")
    istart = off["_index_start"]
    ic = off["idx_crc"][0]
    f[ic:ic + 4] = crc32(bytes(f[istart:ic])).to_bytes(4, "little")
    fc = off["ftr_crc"][0]
    fb = off["ftr_backward"][0]
    f[fc:fc + 4] = crc32(bytes(f[fb:fb + 6])).to_bytes(4, "little")
    return bytes(f)


# ---------------------------------------------------------------- proof step

def theorem_names(module_path):
    """(namespace-qualified) names of theorems declared in a Props file"""
    names = []
    ns = []
    try:
        text = open(module_path).read()
    except OSError:
        return names
    # strip block comments
    text = re.sub(r"/-.*?-/", "", text, flags=re.S)
    for line in text.splitlines():
        line = re.sub(r"--.*$", "", line)
        m = re.match(r"\s*namespace\s+(\S+)", line)
        if m:
            ns.append(m.group(1))
            continue
        m = re.match(r"\s*end\s+(\S+)", line)
        if m and ns and ns[-1].split(".")[-1] == m.group(1).split(".")[-1]:
            ns.pop()
            continue
        if re.match(r"\s*(?:@\[[^\]]*\]\s*)?private\s+theorem\s", line):
            continue          # private helpers are not property theorems (and cannot be named from outside)
        m = re.match(r"\s*(?:@\[[^\]]*\]\s*)?(?:protected\s+)?theorem\s+(\S+)", line)
        if m:
            nm = m.group(1)
            names.append(nm[len("_root_."):] if nm.startswith("_root_.") else ".".join(ns + [nm]))
    return names


HYGIENE_RE = re.compile(r"\bsorry\b|\badmit\b|^\s*axiom\s|native_decide|bv_decide|implemented_by|\bunsafe\s|maxHeartbeats\s+0\b")


def hygiene_scan(paths):
    hits = []
    for p in paths:
        try:
            text = open(p).read()
        except OSError:
            continue
        text = re.sub(r"/-.*?-/", lambda m: "\n" * m.group(0).count("\n"), text, flags=re.S)
        for i, line in enumerate(text.splitlines(), 1):
            code = re.sub(r"--.*$", "", line)
            if HYGIENE_RE.search(code):
                hits.append("%s:%d: %s" % (p, i, line.strip()))
    return hits


def lean_deps(module_files):
    """transitive closure of project-local imports of the given files"""
    seen = set()
    todo = list(module_files)
    while todo:
        p = todo.pop()
        if p in seen or not os.path.exists(p):
            continue
        seen.add(p)
        for m in re.finditer(r"^import\s+(\S+)", open(p).read(), flags=re.M):
            mod = m.group(1)
            if mod.split(".")[0] in ("LzmaModel", "LzmaSpec", "LzmaProofs", "LzmaGen"):
                todo.append(os.path.join(LEAN, mod.replace(".", "/") + ".lean"))
    return sorted(seen)


def proof_step(prop, modules, thorough=False):
    """Build the property's theorem modules, audit hygiene and axioms.
    Returns dict(obligations, discharged, theorems{name: axioms}, problems[list of str], checker_cmd, wall)."""
    t0 = time.time()
    res = {"obligations": 0, "discharged": 0, "theorems": {}, "problems": [], "partial": [],
           "modules": modules}
    files = [os.path.join(LEAN, m.replace(".", "/") + ".lean") for m in modules]
    existing = [(m, f) for m, f in zip(modules, files) if os.path.exists(f)]
    if not existing:
        res["problems"].append("no theorem module present for %s" % prop)
        res["checker_cmd"] = ""
        return res
    mods = [m for m, _ in existing]
    ok, out = build_lean(mods)
    res["checker_cmd"] = "cd /verif/lean && lake build " + " ".join(mods) + " && lake env lean <axiom audit>"
    if not ok:
        # name the failing declarations
        errs = re.findall(r"error: (\S+:\d+:\d+): (.*)", out)
        res["problems"].append("lake build failed: " + "; ".join("%s %s" % e for e in errs[:5]))
        res["build_log_tail"] = out[-3000:]
    names = []
    for m, f in existing:
        names += theorem_names(f)
    res["obligations"] = len(names)
    hits = hygiene_scan(lean_deps([f for _, f in existing]))
    if hits:
        res["problems"].append("hygiene: " + "; ".join(hits[:5]))
    if ok and names:
        audit = "\n".join(["import " + m for m in mods] + ["#print axioms %s" % n for n in names]) + "\n"
        ap = os.path.join(LEAN, ".lake", "audit_%s.lean" % prop)
        os.makedirs(os.path.dirname(ap), exist_ok=True)
        open(ap, "w").write(audit)
        rc, aout = sh(["lake", "env", "lean", ap], cwd=LEAN, timeout=3600)
        # parse: "'Name' depends on axioms: [a, b]" / "'Name' does not depend on any axioms"
        aout1 = re.sub(r"\s+", " ", aout)
        for n in names:
            m = re.search(r"'%s' depends on axioms: \[([^\]]*)\]" % re.escape(n), aout1)
            if m:
                ax = [a.strip() for a in m.group(1).split(",") if a.strip()]
            elif re.search(r"'%s' does not depend on any axioms" % re.escape(n), aout1):
                ax = []
            else:
                res["problems"].append("axiom audit: no report for " + n)
                continue
            res["theorems"][n] = ax
            bad = [a for a in ax if a not in ALLOWED_AXIOMS]
            if bad:
                res["problems"].append("theorem %s depends on %s" % (n, bad))
            else:
                res["discharged"] += 1
            if n.endswith("_partial") or "_partial_" in n:
                res["partial"].append(n)
        if thorough:
            for m in mods:
                rc, lout = sh(["lake", "env", "leanchecker", m], cwd=LEAN, timeout=3600)
                if rc != 0:
                    res["problems"].append("leanchecker failed on %s: %s" % (m, lout[-300:]))
            res["checker_cmd"] += " && lake env leanchecker " + " ".join(mods)
    res["wall"] = time.time() - t0
    return res


# ---------------------------------------------------------------- evidence / replays

def write_replay(prop, payload):
    os.makedirs(os.path.join(ROOT, "replays"), exist_ok=True)
    blob = json.dumps(payload, sort_keys=True)
    h = hashlib.sha1(blob.encode()).hexdigest()[:12]
    path = os.path.join(ROOT, "replays", "%s-%s.json" % (prop, h))
    with open(path, "w") as f:
        json.dump(payload, f, indent=1, sort_keys=True)
    return path


def load_known():
    try:
        return json.load(open(os.path.join(ROOT, "known_findings.json")))
    except OSError:
        return {"findings": [], "fixed": []}


def write_evidence(prop, ev):
    os.makedirs(os.path.join(ROOT, "evidence"), exist_ok=True)
    with open(os.path.join(ROOT, "evidence", prop + ".json"), "w") as f:
        json.dump(ev, f, indent=1, sort_keys=True)
