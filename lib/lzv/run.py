"""Case collection, execution against model and implementation, verdicts."""
import json
import os
import time

from . import core


class Run:
    def __init__(self, prop, tier, seed):
        self.prop, self.tier, self.seed = prop, tier, seed
        self.rng = core.Rng(seed * 1000 + int(prop[1:]))
        self.cases = []          # (id, line, meta)
        self.violations = []     # dicts
        self.disagreements = []  # dicts
        self.known_hits = []     # (finding id, text)
        self.dist = {}           # distribution counters
        self.samples = []
        self.notes = []
        self.extra_cov = {}
        self.t0 = time.time()
        self.known = [f for f in core.load_known().get("findings", []) if f.get("property") == prop]

    # -- collection
    def add(self, line, oracle=None, cmp=True, nontrivial=True, tag="", release=False, **meta):
        cid = str(len(self.cases))
        op, rest = line.split(" ", 1) if " " in line else (line, "")
        full = "%s id=%s %s" % (op, cid, rest)
        meta.update(oracle=oracle, cmp=cmp, nontrivial=nontrivial, tag=tag, release=release)
        self.cases.append((cid, full, meta))
        self.count("tag:" + (tag or op))
        return cid

    def count(self, key, n=1):
        self.dist[key] = self.dist.get(key, 0) + n

    # -- execution
    def execute(self):
        lines = [l for _, l, _ in self.cases]
        self.impl_raw = core.run_impl(lines)
        # two-stage cases (`fsdump=1`): the implementation dumps the object a FAILED raw decode left behind
        # (`fst:<hex>` tokens); the model gets those dumps (`fst=` field), reads them back, checks the safety
        # invariant on them and continues from them.  For the comparison the dump is replaced by its length
        # and CRC-32, which the model prints for the state it re-serialises.
        handed = {}
        dumps = core.FST_DUMPS.get((False, False), {})
        for cid, line, meta in self.cases:
            if meta.get("twostage") and dumps.get(cid):
                handed[cid] = ",".join(dumps[cid])
                self.count("twostage:states-handed-over", len(dumps[cid]))
        cmp_lines = [(l + (" fst=" + handed[c] if handed.get(c) else "")) for c, l, m in self.cases if m["cmp"]]
        self.model = core.run_model(cmp_lines)
        rel = [l for _, l, m in self.cases if m["release"]]
        self.impl_rel = core.run_impl(rel, release=True) if rel else {}
        self.impl = {}
        self.peak = {}
        for cid, line, meta in self.cases:
            raw = self.impl_raw.get(cid, "missing")
            r, pk = core.strip_peak(raw)
            self.impl[cid] = r
            self.peak[cid] = pk
        self.evaluate()

    def evaluate(self):
        for cid, line, meta in self.cases:
            r = self.impl[cid]
            verdict = r.split(" ")[0] if r else "missing"
            self.count("impl:" + (verdict if verdict in ("ok", "err", "panic", "hang", "abort", "missing") else "seq"))
            # property oracle evaluated directly on the implementation
            if meta["oracle"] is not None:
                for which, res in (("dev", r),) + ((("release", core.strip_peak(self.impl_rel.get(cid, "missing"))[0]),) if meta["release"] else ()):
                    msg = meta["oracle"](res, meta, self.peak.get(cid, 0))
                    if msg:
                        self.report_violation(cid, line, meta, res, "%s [%s build]" % (msg, which))
            # correspondence
            if meta["cmp"]:
                m = self.model.get(cid, "missing")
                if not same_result(m, r):
                    self.disagreements.append(dict(id=cid, case=line, model=m, impl=r, tag=meta["tag"]))
            if meta["release"]:
                rr = core.strip_peak(self.impl_rel.get(cid, "missing"))[0]
                if not same_result(rr, r):
                    self.disagreements.append(dict(id=cid, case=line, model="(release build) " + rr, impl=r,
                                                   tag=meta["tag"] + ":dev-vs-release"))
        if len(self.samples) < 6:
            for cid, line, meta in self.cases[:: max(1, len(self.cases) // 6)][:6]:
                self.samples.append(dict(case=shorten(line), impl=shorten(self.impl[cid]), tag=meta["tag"]))

    def report_violation(self, cid, line, meta, res, msg):
        # known finding?
        for k in self.known:
            if match_known(k, line, meta, res):
                self.known_hits.append((k["id"], k["text"]))
                return
        self.violations.append(dict(id=cid, case=line, impl=res, why=msg, tag=meta["tag"]))

    # -- summary
    def nontrivial_distinct(self):
        seen = set()
        for cid, line, meta in self.cases:
            if meta["nontrivial"]:
                # distinct by content, not id
                seen.add(core.hashlib.sha1(line.split(" ", 2)[0].encode() + line.split(" ", 2)[2].encode()).hexdigest())
        return len(seen)


def shorten(s, n=300):
    return s if len(s) <= n else s[:n] + "…(%d chars)" % len(s)


def same_result(model, impl):
    """model vs implementation; `unspec` tokens (state after a failed decode that
    was not reset) are wildcards"""
    if model == impl:
        return True
    a, b = model.split(" "), impl.split(" ")
    if len(a) != len(b):
        return False
    for x, y in zip(a, b):
        if x == y or x == "unspec" or y == "unspec":
            continue
        return False
    return True


def match_known(k, line, meta, res):
    m = k.get("match", {})
    if "tag" in m and m["tag"] != meta.get("tag"):
        return False
    if "tag_prefix" in m and not str(meta.get("tag", "")).startswith(m["tag_prefix"]):
        return False
    if "case_contains" in m and m["case_contains"] not in line:
        return False
    if "result_regex" in m:
        import re
        mm = re.search(m["result_regex"], res)
        if not mm:
            return False
        if m.get("used_equals_input_length"):
            im = re.search(r"\bin=([0-9a-f]*)", line)
            if not im or int(mm.group(1)) != len(im.group(1)) // 2:
                return False
    if "meta" in m:
        for kk, vv in m["meta"].items():
            if meta.get(kk) != vv:
                return False
    return True
