"""Fingerprint of the Rust sources the generators, oracles and the model were last validated against.
A different fingerprint is not a finding: it only makes the quick tier look harder (a second seed and a
short coverage-guided model/implementation search), restricted to the properties the changed files can
affect."""
import glob
import hashlib
import json
import os

from . import core

BASELINE = os.path.join(core.ROOT, "lib", "lzv", "srcprint.json")
REPO = "/repo"

ALL = ["C%02d" % i for i in range(1, 19)]
DECODE = [p for p in ALL if p != "C04"]
AFFECTS = {
    "src/encode/": ["C04", "C12"],
    "src/decode/stream.rs": ["C05", "C07", "C08", "C09", "C10", "C15", "C16"],
    "src/decode/xz.rs": ["C03", "C04", "C06", "C07", "C11", "C12", "C13", "C18"],
    "src/xz/": ["C03", "C04", "C06", "C07", "C11", "C12", "C13", "C18"],
    "src/decode/lzma2.rs": ["C02", "C03", "C06", "C07", "C09", "C11", "C12", "C13", "C14", "C17", "C18"],
    "src/decode/": DECODE + ["C04"],
}


def current():
    out = {}
    for f in sorted(glob.glob(os.path.join(REPO, "src", "**", "*.rs"), recursive=True)) + [os.path.join(REPO, "Cargo.toml")]:
        try:
            out[os.path.relpath(f, REPO)] = hashlib.sha256(open(f, "rb").read()).hexdigest()
        except OSError:
            pass
    return out


def update():
    """record /repo's committed tree as validated (refused while the working tree has local modifications)"""
    import subprocess
    st = subprocess.run(["git", "-C", REPO, "status", "--porcelain", "--untracked-files=no"], capture_output=True, text=True).stdout
    if st.strip():
        raise SystemExit("srcprint: /repo has local modifications; the baseline is only taken from a committed tree")
    json.dump(current(), open(BASELINE, "w"), indent=1, sort_keys=True)


def changed():
    """files whose content differs from the validated baseline (added and removed files included)"""
    try:
        base = json.load(open(BASELINE))
    except (OSError, ValueError):
        return []
    cur = current()
    return sorted(f for f in set(base) | set(cur) if base.get(f) != cur.get(f))


def affected(files):
    props = set()
    for f in files:
        hit = None
        for pre, ps in AFFECTS.items():
            if f.startswith(pre):
                hit = ps
                break
        props.update(hit if hit is not None else ALL)
    return props
