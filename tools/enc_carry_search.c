// One-off search; its results are committed as corpus/enc_carry.txt and used by the C04 cases.
// Looks for inputs that drive lzma-rs's range encoder (src/encode/rangecoder.rs as used by the
// literal-only encoder in src/encode/dumbencoder.rs) into the rare classes of `write_low`:
//   carry+ff                 a carry arrives (low > 0xFFFFFFFF) while the byte below it is 0xFF again
//   carry-through-4-pending  a carry ripples through four or more pending 0xFF bytes
// The C transcription of the encoder is only used to FIND inputs (random prefix, a run of one byte that
// saturates the probabilities, every two-byte tail); what the encoder does on them is decided by the
// ordinary C04 cases (model, crate and liblzma on the same input).
// build/run:  gcc -O2 -o /tmp/ecs tools/enc_carry_search.c && /tmp/ecs <seed>
#include <stdio.h>
#include <stdlib.h>
#include <string.h>
#include <stdint.h>
typedef struct { uint32_t range; uint64_t low; uint32_t csz; uint16_t lit[8][0x300]; uint16_t ism[4]; uint8_t prev; uint32_t n; int hit; } E;
static inline void wl(E*e){ if(e->low<0xFF000000ULL||e->low>0xFFFFFFFFULL){ if(e->low>0xFFFFFFFFULL && ((e->low>>24)&0xFF)==0xFF) e->hit|=1; if(e->low>0xFFFFFFFFULL && e->csz>=4) e->hit|=2; e->csz=0;} e->csz++; e->low=(e->low<<8)&0xFFFFFFFFULL; }
static inline void bit(E*e,uint16_t*p,int b){ uint32_t bound=(e->range>>11)*(*p); if(b){*p-=*p>>5; e->low+=bound; e->range-=bound;} else {*p+=(0x800-*p)>>5; e->range=bound;} while(e->range<0x01000000){e->range<<=8; wl(e);} }
static inline void byte(E*e,uint8_t x){ bit(e,&e->ism[e->n&3],0); uint16_t*pr=e->lit[e->prev>>5]; uint32_t r=1; for(int i=0;i<8;i++){int b=(x>>(7-i))&1; bit(e,&pr[r],b); r=(r<<1)^b;} e->prev=x; e->n++; }
static void init(E*e){ e->range=0xFFFFFFFF; e->low=0; e->csz=1; for(int i=0;i<8;i++)for(int j=0;j<0x300;j++)e->lit[i][j]=0x400; for(int i=0;i<4;i++)e->ism[i]=0x400; e->prev=0;e->n=0;e->hit=0; }
int main(int argc,char**argv){ unsigned seed=argc>1?atoi(argv[1]):1; srand(seed); int found1=0,found2=0; static E base,t1,t2; uint8_t data[256];
  for(long tries=0; tries<200000000L && (found1<4||found2<2); tries++){ init(&base); int pl=rand()%9; int len=0; for(int i=0;i<pl;i++){data[len]=rand()&0xFF; byte(&base,data[len]); len++;}
    uint8_t fill = (rand()%3)?0:(rand()&0xFF); int kmax=10+rand()%60;
    for(int k=0;k<kmax;k++){ data[len]=fill; byte(&base,fill); len++; int h0=base.hit;
      if(base.range>=0x1800000) continue;
      for(int a=0;a<256;a++){ t1=base; byte(&t1,a); for(int b=0;b<256;b++){ t2=t1; byte(&t2,b); int nh=t2.hit&~h0; if((nh&1)&&found1<4){found1++; printf("carry+ff ");for(int i=0;i<len;i++)printf("%02x",data[i]);printf("%02x%02x\n",a,b);fflush(stdout);} if((nh&2)&&found2<2){found2++; printf("carry-through-4-pending ");for(int i=0;i<len;i++)printf("%02x",data[i]);printf("%02x%02x\n",a,b);fflush(stdout);} } } } }
  return 0; }
