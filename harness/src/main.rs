//! lzverif-harness: executes line-protocol cases against the real lzma-rs crate
//! (built from /repo's working tree with `--cfg lzma_rs_verif`, features
//! `stream` + `raw_decoder`) and prints canonical result lines in exactly the
//! format of the Lean model driver (`lzmodel run`), plus ` peak=<bytes>`.

use lzma_rs::decompress::raw::{Lzma2Decoder, LzmaDecoder, LzmaParams, LzmaProperties};
use lzma_rs::decompress::{Options, Stream, UnpackedSize};
use std::alloc::{GlobalAlloc, Layout, System};
use std::cell::RefCell;
use std::collections::HashMap;
use std::io::{self, BufRead, Read, Write};
use std::panic::{catch_unwind, AssertUnwindSafe};
use std::rc::Rc;
use std::sync::atomic::{AtomicU64, AtomicUsize, Ordering};

// ---------------------------------------------------------------- allocator

struct Counting;
static LIVE: AtomicUsize = AtomicUsize::new(0);
static PEAK: AtomicUsize = AtomicUsize::new(0);

unsafe impl GlobalAlloc for Counting {
    unsafe fn alloc(&self, l: Layout) -> *mut u8 {
        let p = System.alloc(l);
        if !p.is_null() {
            let live = LIVE.fetch_add(l.size(), Ordering::Relaxed) + l.size();
            PEAK.fetch_max(live, Ordering::Relaxed);
        }
        p
    }
    unsafe fn dealloc(&self, p: *mut u8, l: Layout) {
        LIVE.fetch_sub(l.size(), Ordering::Relaxed);
        System.dealloc(p, l)
    }
    unsafe fn realloc(&self, p: *mut u8, l: Layout, new: usize) -> *mut u8 {
        let q = System.realloc(p, l, new);
        if !q.is_null() {
            if new >= l.size() {
                let live = LIVE.fetch_add(new - l.size(), Ordering::Relaxed) + (new - l.size());
                PEAK.fetch_max(live, Ordering::Relaxed);
            } else {
                LIVE.fetch_sub(l.size() - new, Ordering::Relaxed);
            }
        }
        q
    }
}

#[global_allocator]
static A: Counting = Counting;

// ---------------------------------------------------------------- utilities

fn hex(bs: &[u8]) -> String {
    let mut s = String::with_capacity(bs.len() * 2);
    for b in bs {
        s.push_str(&format!("{:02x}", b));
    }
    s
}

fn unhex(s: &str) -> Vec<u8> {
    let b = s.as_bytes();
    let mut v = Vec::with_capacity(b.len() / 2);
    let mut i = 0;
    while i + 1 < b.len() {
        let h = (b[i] as char).to_digit(16).unwrap_or(0);
        let l = (b[i + 1] as char).to_digit(16).unwrap_or(0);
        v.push((h * 16 + l) as u8);
        i += 2;
    }
    v
}

fn crc32(b: &[u8]) -> u32 {
    crc::Crc::<u32>::new(&crc::CRC_32_ISO_HDLC).checksum(b)
}
fn crc64(b: &[u8]) -> u64 {
    crc::Crc::<u64>::new(&crc::CRC_64_XZ).checksum(b)
}

fn out_repr_full(bs: &[u8], full: bool) -> String {
    if full {
        hex(bs)
    } else {
        out_repr(bs)
    }
}

fn out_repr(bs: &[u8]) -> String {
    if bs.len() <= 256 {
        hex(bs)
    } else {
        format!("#{}:{:08x}", bs.len(), crc32(bs))
    }
}

type Fields = HashMap<String, String>;

fn parse_fields(line: &str) -> Fields {
    let mut m = HashMap::new();
    for tok in line.trim().split(' ') {
        if let Some(p) = tok.find('=') {
            m.insert(tok[..p].to_string(), tok[p + 1..].to_string());
        }
    }
    m
}

fn get<'a>(f: &'a Fields, k: &str) -> &'a str {
    f.get(k).map(|s| s.as_str()).unwrap_or("")
}
fn nat(f: &Fields, k: &str) -> u64 {
    get(f, k).parse().unwrap_or(0)
}
fn opt_nat(s: &str) -> Option<u64> {
    if s == "none" || s.is_empty() {
        None
    } else {
        s.parse().ok()
    }
}

fn parse_us(s: &str) -> UnpackedSize {
    let parts: Vec<&str> = s.split(':').collect();
    match parts.as_slice() {
        ["hup", v] => UnpackedSize::ReadHeaderButUseProvided(opt_nat(v)),
        ["up", v] => UnpackedSize::UseProvided(opt_nat(v)),
        _ => UnpackedSize::ReadFromHeader,
    }
}

fn parse_options(f: &Fields) -> Options {
    Options {
        unpacked_size: parse_us(get(f, "us")),
        memlimit: opt_nat(get(f, "ml")).map(|x| x as usize),
        allow_incomplete: get(f, "ai") == "1",
    }
}

// ---------------------------------------------------------------- scripted sink

#[derive(Clone, Copy)]
enum Beh {
    All,
    Upto(usize),
    Fail,
}

#[derive(Default)]
struct SinkState {
    out: Vec<u8>,
    script: std::collections::VecDeque<Beh>,
    writes: usize,
    flushes: usize,
    last_flush: bool,
}

#[derive(Clone)]
struct Sink(Rc<RefCell<SinkState>>);

impl std::fmt::Debug for Sink {
    fn fmt(&self, f: &mut std::fmt::Formatter) -> std::fmt::Result {
        write!(f, "Sink({} bytes)", self.len())
    }
}

impl Sink {
    fn parse(s: &str) -> Sink {
        let mut st = SinkState::default();
        for t in s.split(',') {
            if t == "a" {
                st.script.push_back(Beh::All)
            } else if t == "f" {
                st.script.push_back(Beh::Fail)
            } else if let Some(n) = t.strip_prefix('u') {
                if let Ok(n) = n.parse() {
                    st.script.push_back(Beh::Upto(n))
                }
            }
        }
        Sink(Rc::new(RefCell::new(st)))
    }
    fn repr(&self) -> String {
        self.repr_full(false)
    }
    fn repr_full(&self, full: bool) -> String {
        let s = self.0.borrow();
        format!(
            "out={} fl={} lf={}",
            out_repr_full(&s.out, full),
            s.flushes,
            if s.last_flush { 1 } else { 0 }
        )
    }
    fn len(&self) -> usize {
        self.0.borrow().out.len()
    }
}

impl Write for Sink {
    fn write(&mut self, buf: &[u8]) -> io::Result<usize> {
        let mut s = self.0.borrow_mut();
        s.writes += 1;
        match s.script.pop_front() {
            None | Some(Beh::All) => {
                s.out.extend_from_slice(buf);
                s.last_flush = false;
                Ok(buf.len())
            }
            Some(Beh::Upto(n)) => {
                let k = n.min(buf.len());
                s.out.extend_from_slice(&buf[..k]);
                s.last_flush = false;
                Ok(k)
            }
            Some(Beh::Fail) => Err(io::Error::new(io::ErrorKind::Other, "sink write fault")),
        }
    }
    /// a sink with a native vectored write (pipes, sockets, files have one): the scripted behaviour applies to
    /// the bytes of all slices together, so a short write can stop inside any slice
    fn write_vectored(&mut self, bufs: &[io::IoSlice<'_>]) -> io::Result<usize> {
        let mut s = self.0.borrow_mut();
        s.writes += 1;
        let total: usize = bufs.iter().map(|b| b.len()).sum();
        let take = match s.script.pop_front() {
            None | Some(Beh::All) => total,
            Some(Beh::Upto(n)) => n.min(total),
            Some(Beh::Fail) => return Err(io::Error::new(io::ErrorKind::Other, "sink write fault")),
        };
        let mut left = take;
        for b in bufs {
            let k = left.min(b.len());
            s.out.extend_from_slice(&b[..k]);
            left -= k;
        }
        s.last_flush = false;
        Ok(take)
    }
    fn flush(&mut self) -> io::Result<()> {
        let mut s = self.0.borrow_mut();
        s.flushes += 1;
        match s.script.pop_front() {
            Some(Beh::Fail) => Err(io::Error::new(io::ErrorKind::Other, "sink flush fault")),
            _ => {
                s.last_flush = true;
                Ok(())
            }
        }
    }
}

// ---------------------------------------------------------------- readers

/// A `BufRead` over a byte slice that exposes it in fragments and can fail at the end.
struct FragReader<'a> {
    data: &'a [u8],
    pos: usize,
    /// current fragment end
    frag_end: usize,
    /// fragment sizes generator state (0 = everything at once)
    seed: u64,
    maxfrag: usize,
    bad: bool,
    /// explicit fragment boundaries (absolute positions); when non-empty they replace the generator
    cuts: Vec<usize>,
    /// one-shot fault: the `fail_at`-th call of `fill_buf`/`read` fails once (0 = never)
    fail_at: usize,
    calls: usize,
    fired: bool,
    fail_kind: io::ErrorKind,
}

impl<'a> FragReader<'a> {
    fn new(data: &'a [u8], seed: u64, maxfrag: usize, bad: bool) -> Self {
        FragReader {
            data,
            pos: 0,
            frag_end: 0,
            seed,
            maxfrag,
            bad,
            cuts: Vec::new(),
            fail_at: 0,
            calls: 0,
            fired: false,
            fail_kind: io::ErrorKind::Other,
        }
    }
    fn with_cuts(data: &'a [u8], cuts: Vec<usize>) -> Self {
        let mut f = FragReader::new(data, 0, 0, false);
        f.cuts = cuts;
        f
    }
    fn next_frag(&mut self) {
        if self.pos >= self.frag_end {
            let rest = self.data.len() - self.pos;
            let n = if !self.cuts.is_empty() {
                let pos = self.pos;
                self.cuts
                    .iter()
                    .copied()
                    .filter(|c| *c > pos)
                    .min()
                    .map(|c| c - pos)
                    .unwrap_or(rest)
            } else if self.maxfrag == 0 {
                rest
            } else {
                self.seed = self
                    .seed
                    .wrapping_mul(6364136223846793005)
                    .wrapping_add(1442695040888963407);
                1 + ((self.seed >> 33) as usize % self.maxfrag)
            };
            self.frag_end = self.pos + n.min(rest);
        }
    }
}

impl<'a> Read for FragReader<'a> {
    fn read(&mut self, buf: &mut [u8]) -> io::Result<usize> {
        if buf.is_empty() {
            return Ok(0);
        }
        let n = {
            let avail = self.fill_buf()?;
            let n = avail.len().min(buf.len());
            buf[..n].copy_from_slice(&avail[..n]);
            n
        };
        self.consume(n);
        Ok(n)
    }
}

impl<'a> BufRead for FragReader<'a> {
    fn fill_buf(&mut self) -> io::Result<&[u8]> {
        self.calls += 1;
        if self.fail_at != 0 && self.calls == self.fail_at {
            self.fired = true;
            return Err(io::Error::new(self.fail_kind, "one-shot source fault"));
        }
        self.next_frag();
        if self.pos >= self.data.len() && self.bad {
            return Err(io::Error::new(io::ErrorKind::Other, "source fault"));
        }
        Ok(&self.data[self.pos..self.frag_end])
    }
    fn consume(&mut self, amt: usize) {
        self.pos += amt;
    }
}

/// error kinds a failing source may report (never `Interrupted`, which std's helpers legitimately retry)
fn fault_kind(s: &str) -> io::ErrorKind {
    match s {
        "wouldblock" => io::ErrorKind::WouldBlock,
        "timedout" => io::ErrorKind::TimedOut,
        "invaliddata" => io::ErrorKind::InvalidData,
        "brokenpipe" => io::ErrorKind::BrokenPipe,
        "interrupted" => io::ErrorKind::Interrupted,
        _ => io::ErrorKind::Other,
    }
}

/// reader kind: `flat` (default), `cur`, `buf:<cap>`, `frag:<seed>:<max>`, `cut:<p1>,<p2>,…`
enum AnyReader<'a> {
    Flat(&'a [u8], usize),
    Cur(io::Cursor<&'a [u8]>),
    Buf(io::BufReader<&'a [u8]>, usize),
    Frag(FragReader<'a>),
}

impl<'a> AnyReader<'a> {
    fn with_fault(data: &'a [u8], rk: &str, fail_at: usize, kind: io::ErrorKind) -> Self {
        let mut r = AnyReader::new(data, rk, false);
        if fail_at != 0 {
            if !matches!(r, AnyReader::Frag(_)) {
                r = AnyReader::Frag(FragReader::new(data, 0, 0, false));
            }
            if let AnyReader::Frag(f) = &mut r {
                f.fail_at = fail_at;
                f.fail_kind = kind;
            }
        }
        r
    }
    fn fired(&self) -> bool {
        match self {
            AnyReader::Frag(f) => f.fired,
            _ => false,
        }
    }
    fn new(data: &'a [u8], rk: &str, bad: bool) -> Self {
        let parts: Vec<&str> = rk.split(':').collect();
        if bad {
            let (seed, max) = match parts.as_slice() {
                ["frag", s, m] => (s.parse().unwrap_or(1), m.parse().unwrap_or(4)),
                _ => (0, 0),
            };
            return AnyReader::Frag(FragReader::new(data, seed, max, true));
        }
        match parts.as_slice() {
            ["cur"] => AnyReader::Cur(io::Cursor::new(data)),
            ["buf", c] => AnyReader::Buf(
                io::BufReader::with_capacity(c.parse().unwrap_or(1).max(1), data),
                data.len(),
            ),
            ["frag", s, m] => AnyReader::Frag(FragReader::new(
                data,
                s.parse().unwrap_or(1),
                m.parse().unwrap_or(4),
                false,
            )),
            ["cut", c] => AnyReader::Frag(FragReader::with_cuts(
                data,
                c.split(',').filter_map(|x| x.parse().ok()).collect(),
            )),
            _ => AnyReader::Flat(data, data.len()),
        }
    }
    /// bytes consumed from the caller's point of view
    fn used(&self) -> usize {
        match self {
            AnyReader::Flat(s, total) => total - s.len(),
            AnyReader::Cur(c) => (c.position() as usize).min(c.get_ref().len()),
            AnyReader::Buf(b, total) => total - b.get_ref().len() - b.buffer().len(),
            AnyReader::Frag(f) => f.pos,
        }
    }
}

impl<'a> Read for AnyReader<'a> {
    fn read(&mut self, buf: &mut [u8]) -> io::Result<usize> {
        match self {
            AnyReader::Flat(s, _) => s.read(buf),
            AnyReader::Cur(c) => c.read(buf),
            AnyReader::Buf(b, _) => b.read(buf),
            AnyReader::Frag(f) => f.read(buf),
        }
    }
}
impl<'a> BufRead for AnyReader<'a> {
    fn fill_buf(&mut self) -> io::Result<&[u8]> {
        match self {
            AnyReader::Flat(s, _) => s.fill_buf(),
            AnyReader::Cur(c) => c.fill_buf(),
            AnyReader::Buf(b, _) => b.fill_buf(),
            AnyReader::Frag(f) => f.fill_buf(),
        }
    }
    fn consume(&mut self, amt: usize) {
        match self {
            AnyReader::Flat(s, _) => s.consume(amt),
            AnyReader::Cur(c) => c.consume(amt),
            AnyReader::Buf(b, _) => b.consume(amt),
            AnyReader::Frag(f) => f.consume(amt),
        }
    }
}

/// a source that itself uses the library the first time it is asked for data (a reader that unpacks an
/// outer layer lazily): the decoders keep no state outside the call
struct NestReader<'a> {
    inner: AnyReader<'a>,
    /// the nested use happens inside the `armed`-th call of `read`/`fill_buf` (0 = never)
    armed: usize,
}
impl<'a> NestReader<'a> {
    fn trigger(&mut self) -> io::Result<()> {
        if self.armed > 0 {
            self.armed -= 1;
        } else {
            return Ok(());
        }
        if self.armed == 0 {
            let to_io = |e: lzma_rs::error::Error| io::Error::new(io::ErrorKind::Other, format!("{:?}", e));
            let mut out = Vec::new();
            let mut a: &[u8] = &[0x01, 0x00, 0x02, b'a', b'b', b'c', 0x00];
            lzma_rs::lzma2_decompress(&mut a, &mut out).map_err(to_io)?;
            let mut enc = Vec::new();
            let mut src: &[u8] = b"nested record";
            lzma_rs::xz_compress(&mut src, &mut enc)?;
            lzma_rs::xz_decompress(&mut &enc[..], &mut out).map_err(to_io)?;
            let mut enc = Vec::new();
            let mut src: &[u8] = b"nested record";
            lzma_rs::lzma_compress(&mut src, &mut enc)?;
            lzma_rs::lzma_decompress(&mut &enc[..], &mut out).map_err(to_io)?;
            if out != b"abcnested recordnested record" {
                return Err(io::Error::new(io::ErrorKind::Other, "nested decode produced wrong output"));
            }
        }
        Ok(())
    }
}
impl<'a> Read for NestReader<'a> {
    fn read(&mut self, buf: &mut [u8]) -> io::Result<usize> {
        self.trigger()?;
        self.inner.read(buf)
    }
}
impl<'a> BufRead for NestReader<'a> {
    fn fill_buf(&mut self) -> io::Result<&[u8]> {
        self.trigger()?;
        self.inner.fill_buf()
    }
    fn consume(&mut self, amt: usize) {
        self.inner.consume(amt)
    }
}

/// encoder input: `Read::read` returns the scripted fragment sizes
struct ScriptedRead<'a> {
    data: &'a [u8],
    pos: usize,
    frags: std::collections::VecDeque<usize>,
    bad: bool,
    fail_at: usize,
    calls: usize,
    fired: bool,
    /// the source itself uses the library while it is being read (a reader that compresses records lazily)
    nest: bool,
    fail_kind: io::ErrorKind,
}
impl<'a> Read for ScriptedRead<'a> {
    fn read(&mut self, buf: &mut [u8]) -> io::Result<usize> {
        if buf.is_empty() {
            return Ok(0);
        }
        if self.nest {
            self.nest = false;
            let mut inner: &[u8] = b"nested record";
            let mut out = Vec::new();
            lzma_rs::lzma2_compress(&mut inner, &mut out)?;
            let mut inner: &[u8] = b"nested record";
            lzma_rs::xz_compress(&mut inner, &mut out)?;
            let mut inner: &[u8] = b"nested record";
            lzma_rs::lzma_compress(&mut inner, &mut out)?;
        }
        self.calls += 1;
        if self.fail_at != 0 && self.calls == self.fail_at {
            self.fired = true;
            return Err(io::Error::new(self.fail_kind, "one-shot source fault"));
        }
        let rest = self.data.len() - self.pos;
        if rest == 0 {
            if self.bad {
                return Err(io::Error::new(io::ErrorKind::Other, "source fault"));
            }
            return Ok(0);
        }
        let want = match self.frags.pop_front() {
            None | Some(0) => buf.len(),
            Some(f) => f.min(buf.len()),
        };
        let n = want.min(rest);
        buf[..n].copy_from_slice(&self.data[self.pos..self.pos + n]);
        self.pos += n;
        Ok(n)
    }
}
impl<'a> BufRead for ScriptedRead<'a> {
    fn fill_buf(&mut self) -> io::Result<&[u8]> {
        self.calls += 1;
        if self.fail_at != 0 && self.calls == self.fail_at {
            self.fired = true;
            return Err(io::Error::new(io::ErrorKind::Other, "one-shot source fault"));
        }
        if self.pos >= self.data.len() && self.bad {
            return Err(io::Error::new(io::ErrorKind::Other, "source fault"));
        }
        // expose at most the next fragment without consuming the script entry
        let rest = &self.data[self.pos..];
        let n = match self.frags.front() {
            None | Some(0) => rest.len(),
            Some(f) => (*f).min(rest.len()),
        };
        Ok(&rest[..n])
    }
    fn consume(&mut self, amt: usize) {
        self.pos += amt;
        if let Some(f) = self.frags.front_mut() {
            if *f > amt {
                *f -= amt
            } else {
                self.frags.pop_front();
            }
        }
    }
}

// ---------------------------------------------------------------- cases

fn verdict<T, E>(r: &Result<Result<T, E>, Box<dyn std::any::Any + Send>>) -> &'static str {
    match r {
        Ok(Ok(_)) => "ok",
        Ok(Err(_)) => "err",
        Err(_) => "panic",
    }
}

fn run_oneshot(op: &str, f: &Fields) -> String {
    let data = unhex(get(f, "in"));
    let sink = Sink::parse(get(f, "sink"));
    let rfail: usize = get(f, "rfail").parse().unwrap_or(0);
    let inner = if rfail != 0 {
        AnyReader::with_fault(&data, get(f, "rk"), rfail, fault_kind(get(f, "rfk")))
    } else {
        AnyReader::new(&data, get(f, "rk"), get(f, "rbad") == "1")
    };
    let mut rd = NestReader {
        inner,
        armed: get(f, "nest").parse().unwrap_or(0),
    };
    let opts = parse_options(f);
    let r = catch_unwind(AssertUnwindSafe(|| {
        let mut s = sink.clone();
        match op {
            "lzma" => lzma_rs::lzma_decompress_with_options(&mut rd, &mut s, &opts),
            "lzma2" => lzma_rs::lzma2_decompress(&mut rd, &mut s),
            _ => lzma_rs::xz_decompress(&mut rd, &mut s),
        }
    }));
    let used = match &r {
        Ok(Ok(_)) => format!("{}", rd.inner.used()),
        _ => "-".to_string(),
    };
    let mut extra = if get(f, "pos") == "1" {
        format!(" pos={}", rd.inner.used())
    } else {
        String::new()
    };
    if rfail != 0 {
        extra.push_str(if rd.inner.fired() { " rf=1" } else { " rf=0" });
    }
    format!(
        "{} used={} {}{}",
        verdict(&r),
        used,
        sink.repr_full(get(f, "full") == "1"),
        extra
    )
}

fn run_rawlzma(f: &Fields) -> String {
    let props = LzmaProperties {
        lc: nat(f, "lc") as u32,
        lp: nat(f, "lp") as u32,
        pb: nat(f, "pb") as u32,
    };
    // `hdr=<hex>`: the two-step construction read_header(&options) -> LzmaDecoder::new(params, ml)
    let params = if f.contains_key("hdr") {
        let hdr = unhex(get(f, "hdr"));
        let opts = Options {
            unpacked_size: parse_us(get(f, "hus")),
            memlimit: opt_nat(get(f, "hml")).map(|x| x as usize),
            allow_incomplete: get(f, "hai") == "1",
        };
        match catch_unwind(AssertUnwindSafe(|| LzmaParams::read_header(&mut &hdr[..], &opts))) {
            Ok(Ok(p)) => p,
            Ok(Err(_)) => return "new:err".to_string(),
            Err(_) => return "new:panic".to_string(),
        }
    } else {
        LzmaParams::new(props, nat(f, "dict") as u32, opt_nat(get(f, "us")))
    };
    let ml = opt_nat(get(f, "ml")).map(|x| x as usize);
    let d = catch_unwind(AssertUnwindSafe(|| LzmaDecoder::new(params, ml)));
    let mut d = match d {
        Ok(Ok(d)) => d,
        Ok(Err(_)) => return "new:err".to_string(),
        Err(_) => return "new:panic".to_string(),
    };
    let mut outs = vec!["new:ok".to_string()];
    let mut dirty = false;
    for op in get(f, "ops").split(';') {
        let parts: Vec<&str> = op.split(':').collect();
        match parts.as_slice() {
            ["d", h] | ["df", h] => {
                // a decode after a failed one without reset is executed too (the model leaves its
                // result unspecified, the safety oracles do not); `df`: the source fails where the data ends
                let data = unhex(h);
                let mut rd = AnyReader::new(&data, get(f, "rk"), parts[0] == "df");
                let mut out = Vec::new();
                let r = catch_unwind(AssertUnwindSafe(|| d.decompress(&mut rd, &mut out)));
                match &r {
                    Ok(Ok(_)) => outs.push(format!("ok:{}:{}", rd.used(), out_repr(&out))),
                    _ => {
                        dirty = true;
                        outs.push(format!("{}:-:{}", verdict(&r), out_repr(&out)));
                        // `fsdump=1`: hand the object the failed call left behind to the model (which
                        // reads it back, checks the safety invariant on it and continues from it)
                        if get(f, "fsdump") == "1" && matches!(r, Ok(Err(_))) {
                            outs.push(format!("fst:{}", hex(&d.verif_state_bytes())));
                            dirty = false;
                        }
                    }
                }
            }
            ["st"] => {
                if dirty {
                    outs.push("unspec".into());
                } else {
                    let b = d.verif_state_bytes();
                    outs.push(format!("st:{}:{:08x}", b.len(), crc32(&b)));
                }
            }
            ["r"] => {
                let r = catch_unwind(AssertUnwindSafe(|| d.reset(None)));
                if r.is_ok() {
                    dirty = false;
                    outs.push("r".into())
                } else {
                    outs.push("panic".into())
                }
            }
            ["rs", v] => {
                let v = opt_nat(v);
                let r = catch_unwind(AssertUnwindSafe(|| d.reset(Some(v))));
                if r.is_ok() {
                    dirty = false;
                    outs.push("r".into())
                } else {
                    outs.push("panic".into())
                }
            }
            _ => {}
        }
    }
    outs.join(" ")
}

fn run_rawlzma2(f: &Fields) -> String {
    let mut d = if get(f, "ctor") == "default" {
        Lzma2Decoder::default()
    } else {
        Lzma2Decoder::new()
    };
    let mut outs = vec!["new:ok".to_string()];
    let mut dirty = false;
    for op in get(f, "ops").split(';') {
        let parts: Vec<&str> = op.split(':').collect();
        match parts.as_slice() {
            ["d", h] | ["df", h] => {
                // a decode after a failed one without reset is executed too (the model leaves its
                // result unspecified, the safety oracles do not); `df`: the source fails where the data ends
                let data = unhex(h);
                let mut rd = AnyReader::new(&data, get(f, "rk"), parts[0] == "df");
                let mut out = Vec::new();
                let r = catch_unwind(AssertUnwindSafe(|| d.decompress(&mut rd, &mut out)));
                match &r {
                    Ok(Ok(_)) => outs.push(format!("ok:{}:{}", rd.used(), out_repr(&out))),
                    _ => {
                        dirty = true;
                        outs.push(format!("{}:-:{}", verdict(&r), out_repr(&out)))
                    }
                }
            }
            ["st"] => {
                if dirty {
                    outs.push("unspec".into());
                } else {
                    // the expected-size field is masked: in LZMA2 every chunk header overwrites it before
                    // use (theorem lzma2_ignores_stale_size), `reset` leaves it alone, and after a failed
                    // decode it holds the failing chunk's size, which the model does not track
                    let mut b = d.verif_state_bytes();
                    for x in b.iter_mut().skip(4).take(9) {
                        *x = 0;
                    }
                    outs.push(format!("st:{}:{:08x}", b.len(), crc32(&b)));
                }
            }
            ["r"] => {
                let r = catch_unwind(AssertUnwindSafe(|| d.reset()));
                if r.is_ok() {
                    dirty = false;
                    outs.push("r".into())
                } else {
                    outs.push("panic".into())
                }
            }
            _ => {}
        }
    }
    outs.join(" ")
}

fn run_stream(f: &Fields) -> String {
    let sink = Sink::parse(get(f, "sink"));
    let opts = parse_options(f);
    let mut st = Some(Stream::new_with_options(&opts, sink.clone()));
    let mut outs = Vec::new();
    for op in get(f, "ops").split(';') {
        let parts: Vec<&str> = op.split(':').collect();
        match parts.as_slice() {
            ["w", h] => {
                let data = unhex(h);
                let s = match st.as_mut() {
                    Some(s) => s,
                    None => break,
                };
                let r = catch_unwind(AssertUnwindSafe(|| s.write(&data)));
                match r {
                    Ok(Ok(n)) => outs.push(format!("w{}@{}", n, sink.len())),
                    Ok(Err(_)) => outs.push(format!("werr@{}", sink.len())),
                    Err(_) => outs.push(format!("wpanic@{}", sink.len())),
                }
            }
            ["wa", h] => {
                let data = unhex(h);
                let s = match st.as_mut() {
                    Some(s) => s,
                    None => break,
                };
                let mut rest: &[u8] = &data;
                let mut acc = 0usize;
                let mut res: Option<&'static str> = None;
                while !rest.is_empty() {
                    let r = catch_unwind(AssertUnwindSafe(|| s.write(rest)));
                    match r {
                        Ok(Ok(0)) => break,
                        Ok(Ok(n)) => {
                            acc += n;
                            rest = &rest[n..];
                        }
                        Ok(Err(_)) => {
                            res = Some("err");
                            break;
                        }
                        Err(_) => {
                            res = Some("panic");
                            break;
                        }
                    }
                }
                match res {
                    None => outs.push(format!("wa{}@{}", acc, sink.len())),
                    Some(v) => outs.push(format!("wa{}@{}", v, sink.len())),
                }
            }
            ["wx", h] => {
                // the trait's own write_all (std's default loop unless the crate overrides it)
                let data = unhex(h);
                let s = match st.as_mut() {
                    Some(s) => s,
                    None => break,
                };
                let r = catch_unwind(AssertUnwindSafe(|| s.write_all(&data)));
                match r {
                    Ok(Ok(())) => outs.push(format!("wxok@{}", sink.len())),
                    Ok(Err(_)) => outs.push(format!("wxerr@{}", sink.len())),
                    Err(_) => outs.push(format!("wxpanic@{}", sink.len())),
                }
            }
            ["f"] => {
                let s = match st.as_mut() {
                    Some(s) => s,
                    None => break,
                };
                let r = catch_unwind(AssertUnwindSafe(|| s.flush()));
                outs.push(format!("f{}", verdict(&r)));
            }
            ["st"] => {
                let s = match st.as_ref() {
                    Some(s) => s,
                    None => break,
                };
                match s.verif_state_bytes() {
                    None => outs.push("st:none".to_string()),
                    Some(b) => outs.push(format!("st:{}:{:08x}", b.len(), crc32(&b))),
                }
            }
            ["dbg"] => {
                // the Debug impl (logging a stream is an ordinary thing to do, also after a failure)
                let s = match st.as_ref() {
                    Some(s) => s,
                    None => break,
                };
                let r = catch_unwind(AssertUnwindSafe(|| format!("{:?}", s).len()));
                outs.push(if r.is_ok() { "dbgok".to_string() } else { "dbgpanic".to_string() });
            }
            ["go"] => {
                // Stream::get_output / get_output_mut: the sink is reachable unless the stream has failed
                let s = match st.as_mut() {
                    Some(s) => s,
                    None => break,
                };
                let a = s.get_output().map(|w| w.len());
                let b = s.get_output_mut().map(|w| w.len());
                outs.push(match (a, b) {
                    (Some(x), Some(y)) if x == y => format!("go:{}", x),
                    (None, None) => "go:none".to_string(),
                    _ => "go:inconsistent".to_string(),
                });
            }
            ["fin"] => {
                let s = match st.take() {
                    Some(s) => s,
                    None => break,
                };
                let r = catch_unwind(AssertUnwindSafe(|| s.finish().map(|_| ())));
                outs.push(format!("fin{}", verdict(&r)));
                break;
            }
            _ => {}
        }
    }
    format!(
        "{} {}",
        outs.join(" "),
        sink.repr_full(get(f, "full") == "1")
    )
}

#[cfg(lzma_rs_verif)]
fn run_win(f: &Fields) -> String {
    use lzma_rs::verif_hooks::Window;
    let sink = Sink::parse(get(f, "sink"));
    let m = opt_nat(get(f, "m")).map(|x| x as usize).unwrap_or(usize::MAX);
    let mut w = Some(if get(f, "kind") == "circ" {
        Window::circular(sink.clone(), nat(f, "d") as usize, m)
    } else {
        Window::accum(sink.clone(), m)
    });
    let mut outs: Vec<String> = Vec::new();
    fn fmt<T: std::fmt::Display>(
        r: Result<Result<T, String>, Box<dyn std::any::Any + Send>>,
    ) -> (String, bool) {
        match r {
            Ok(Ok(v)) => (format!("{}", v), true),
            Ok(Err(_)) => ("err".into(), false),
            Err(_) => ("panic".into(), false),
        }
    }
    for op in get(f, "ops").split(';') {
        let parts: Vec<&str> = op.split(':').collect();
        let win = match w.as_mut() {
            Some(w) => w,
            None => break,
        };
        let mut stop = false;
        match parts.as_slice() {
            ["lit", b] => {
                let b: u8 = b.parse().unwrap_or(0);
                let r = catch_unwind(AssertUnwindSafe(|| win.append_literal(b)));
                let (s, ok) = fmt(r.map(|r| r.map(|_| "")));
                if ok {
                    outs.push(format!("ok/{}/{}", win.buf_len(), win.len()))
                } else {
                    outs.push(s);
                    stop = true
                }
            }
            ["lz", l, d] => {
                let (l, d): (usize, usize) = (l.parse().unwrap_or(0), d.parse().unwrap_or(0));
                let r = catch_unwind(AssertUnwindSafe(|| win.append_lz(l, d)));
                let (s, ok) = fmt(r.map(|r| r.map(|_| "")));
                if ok {
                    outs.push(format!("ok/{}/{}", win.buf_len(), win.len()))
                } else {
                    outs.push(s);
                    stop = true
                }
            }
            ["lastn", d] => {
                let d: usize = d.parse().unwrap_or(0);
                let r = catch_unwind(AssertUnwindSafe(|| win.last_n(d)));
                outs.push(fmt(r).0)
            }
            ["lastor", b] => {
                let b: u8 = b.parse().unwrap_or(0);
                let r = catch_unwind(AssertUnwindSafe(|| Ok::<u8, String>(win.last_or(b))));
                outs.push(fmt(r).0)
            }
            ["bytes", h] => {
                let data = unhex(h);
                let r = catch_unwind(AssertUnwindSafe(|| win.append_bytes(&data)));
                let (s, ok) = fmt(r.map(|r| r.map(|_| "")));
                if ok {
                    outs.push(format!("ok/{}/{}", win.buf_len(), win.len()))
                } else {
                    outs.push(s);
                    stop = true
                }
            }
            ["reset"] => {
                let r = catch_unwind(AssertUnwindSafe(|| win.reset()));
                let (s, ok) = fmt(r.map(|r| r.map(|_| "")));
                if ok {
                    outs.push(format!("ok/{}/{}", win.buf_len(), win.len()))
                } else {
                    outs.push(s);
                    stop = true
                }
            }
            ["fin"] => {
                let win = w.take().unwrap();
                let r = catch_unwind(AssertUnwindSafe(|| win.finish().map(|_| "ok")));
                outs.push(fmt(r).0);
                stop = true
            }
            _ => {}
        }
        if stop {
            break;
        }
    }
    format!("{} {}", outs.join(" "), sink.repr())
}

#[cfg(not(lzma_rs_verif))]
fn run_win(_f: &Fields) -> String {
    "no-hooks".to_string()
}

fn run_enc(f: &Fields) -> String {
    let data = unhex(get(f, "in"));
    let sink = Sink::parse(get(f, "sink"));
    let frags = get(f, "frags")
        .split(',')
        .filter_map(|s| s.parse().ok())
        .collect();
    let mut rd = ScriptedRead {
        data: &data,
        pos: 0,
        frags,
        bad: get(f, "rbad") == "1",
        fail_at: get(f, "rfail").parse().unwrap_or(0),
        calls: 0,
        fired: false,
        nest: get(f, "nest") == "1",
        fail_kind: fault_kind(get(f, "rfk")),
    };
    let o = get(f, "opt");
    let opt = if o == "skip" {
        lzma_rs::compress::UnpackedSize::SkipWritingToHeader
    } else if o == "hnone" || o.is_empty() {
        lzma_rs::compress::UnpackedSize::WriteToHeader(None)
    } else {
        lzma_rs::compress::UnpackedSize::WriteToHeader(o[1..].parse().ok())
    };
    let kind = get(f, "kind").to_string();
    let r = catch_unwind(AssertUnwindSafe(|| {
        let mut s = sink.clone();
        match kind.as_str() {
            "lzma" => lzma_rs::lzma_compress_with_options(
                &mut rd,
                &mut s,
                &lzma_rs::compress::Options { unpacked_size: opt },
            ),
            "lzma2" => lzma_rs::lzma2_compress(&mut rd, &mut s),
            _ => lzma_rs::xz_compress(&mut rd, &mut s),
        }
    }));
    let w = sink.0.borrow().writes;
    let rf = if rd.fail_at != 0 {
        if rd.fired {
            " rf=1"
        } else {
            " rf=0"
        }
    } else {
        ""
    };
    format!(
        "{} {} w={}{}",
        verdict(&r),
        sink.repr_full(get(f, "full") == "1"),
        w,
        rf
    )
}

fn run_crc(f: &Fields) -> String {
    let data = unhex(get(f, "in"));
    format!("crc32={:08x} crc64={:016x}", crc32(&data), crc64(&data))
}

fn dispatch(op: &str, f: &Fields) -> String {
    // `stk=<bytes>`: run the case on a thread with that much stack (stack use must not depend on the input)
    if let Ok(n) = get(f, "stk").parse::<usize>() {
        let mut f2 = f.clone();
        f2.remove("stk");
        let op2 = op.to_string();
        let h = std::thread::Builder::new()
            .stack_size(n)
            .spawn(move || dispatch(&op2, &f2));
        return match h {
            Ok(h) => h.join().unwrap_or_else(|_| "panic".to_string()),
            Err(_) => "bad-op".to_string(),
        };
    }
    match op {
        "lzma" | "lzma2" | "xz" => run_oneshot(op, f),
        "rawlzma" => run_rawlzma(f),
        "rawlzma2" => run_rawlzma2(f),
        "stream" => run_stream(f),
        "win" => run_win(f),
        "enc" => run_enc(f),
        "crc" => run_crc(f),
        _ => "bad-op".to_string(),
    }
}

/// one protocol line in, the result (without id and heap peak) out: entry point of the
/// differential fuzz target (`/verif/fuzz`), which includes this file as a module
#[allow(dead_code)]
pub fn run_line(line: &str) -> String {
    let t = line.trim();
    let op = t.split(' ').next().unwrap_or("");
    let f = parse_fields(t);
    dispatch(op, &f)
}

static CURRENT: AtomicU64 = AtomicU64::new(0);
static CURRENT_ID: AtomicU64 = AtomicU64::new(u64::MAX);

#[cfg(feature = "logging")]
struct EvalLogger;
#[cfg(feature = "logging")]
impl log::Log for EvalLogger {
    fn enabled(&self, _: &log::Metadata) -> bool {
        true
    }
    fn log(&self, record: &log::Record) {
        // evaluate the arguments (that is where code hides), discard the text
        let s = format!("{}", record.args());
        std::hint::black_box(s);
    }
    fn flush(&self) {}
}
#[cfg(feature = "logging")]
static EVAL_LOGGER: EvalLogger = EvalLogger;

fn main() {
    #[cfg(feature = "logging")]
    {
        let _ = log::set_logger(&EVAL_LOGGER);
        log::set_max_level(log::LevelFilter::Trace);
    }
    std::panic::set_hook(Box::new(|_| {}));
    // watchdog: a case that runs longer than the limit is reported as `hang`
    // and the process exits with status 3 (the orchestrator restarts after it).
    let limit_ms: u64 = std::env::var("LZV_CASE_TIMEOUT_MS")
        .ok()
        .and_then(|s| s.parse().ok())
        .unwrap_or(20000);
    std::thread::spawn(move || {
        let mut last = 0u64;
        let mut since = std::time::Instant::now();
        loop {
            std::thread::sleep(std::time::Duration::from_millis(100));
            let cur = CURRENT.load(Ordering::SeqCst);
            if cur != last {
                last = cur;
                since = std::time::Instant::now();
            } else if cur != 0 && since.elapsed().as_millis() as u64 > limit_ms {
                let id = CURRENT_ID.load(Ordering::SeqCst);
                println!("id={} hang", id);
                let _ = io::stdout().flush();
                std::process::exit(3);
            }
        }
    });
    let stdin = io::stdin();
    let stdout = io::stdout();
    let mut out = io::BufWriter::new(stdout.lock());
    let mut n = 0u64;
    for line in stdin.lock().lines() {
        let line = match line {
            Ok(l) => l,
            Err(_) => break,
        };
        let t = line.trim();
        if t.is_empty() {
            continue;
        }
        let op = t.split(' ').next().unwrap_or("");
        let f = parse_fields(t);
        n += 1;
        CURRENT_ID.store(get(&f, "id").parse().unwrap_or(u64::MAX), Ordering::SeqCst);
        CURRENT.store(n, Ordering::SeqCst);
        let base = LIVE.load(Ordering::Relaxed);
        PEAK.store(base, Ordering::Relaxed);
        let res = dispatch(op, &f);
        let peak = PEAK.load(Ordering::Relaxed).saturating_sub(base);
        CURRENT.store(0, Ordering::SeqCst);
        let _ = writeln!(out, "id={} {} peak={}", get(&f, "id"), res, peak);
        let _ = out.flush();
    }
}
