/-
  LzmaGen.Proto — the line protocol shared with the Rust harness: parsing of case
  lines, execution of the model on a case, canonical result lines.
-/
import LzmaModel
import LzmaSpec.Sym
namespace Lzma.Proto
open Lzma

def hexDigit (n : Nat) : Char := if n < 10 then Char.ofNat (48 + n) else Char.ofNat (87 + n)

def hexOfBytes (bs : Bytes) : String :=
  String.ofList (bs.foldr (fun b acc => hexDigit (b.toNat / 16) :: hexDigit (b.toNat % 16) :: acc) [])

def hexVal (c : Char) : Option Nat :=
  if '0' ≤ c ∧ c ≤ '9' then some (c.toNat - 48)
  else if 'a' ≤ c ∧ c ≤ 'f' then some (c.toNat - 87)
  else if 'A' ≤ c ∧ c ≤ 'F' then some (c.toNat - 55)
  else none

def bytesOfHexAux : List Char → Bytes → Option Bytes
  | [], acc => some acc.reverse
  | [_], _ => none
  | a :: b :: rest, acc =>
    match hexVal a, hexVal b with
    | some x, some y => bytesOfHexAux rest (UInt8.ofNat (x * 16 + y) :: acc)
    | _, _ => none

def bytesOfHex (s : String) : Option Bytes := bytesOfHexAux s.toList []

def hex8 (n : Nat) : String :=
  String.ofList ((List.range 8).reverse.map fun i => hexDigit ((n >>> (4 * i)) % 16))

/-- canonical rendering of an output: full hex when short, else length and CRC32 -/
def outRepr (bs : Bytes) (full : Bool := false) : String :=
  if full || bs.length ≤ 256 then hexOfBytes bs else s!"#{bs.length}:{hex8 (crc32 bs)}"

/-- key=value fields of a case line -/
abbrev Fields := List (String × String)

def parseFields (line : String) : Fields :=
  (line.trimAscii.toString.splitOn " ").filterMap fun tok =>
    match tok.splitOn "=" with
    | [k, v] => some (k, v)
    | [k] => if k.isEmpty then none else some (k, "")
    | _ => none

def Fields.get (f : Fields) (k : String) : String := (f.lookup k).getD ""
def Fields.nat (f : Fields) (k : String) (dflt : Nat := 0) : Nat := ((f.lookup k).bind String.toNat?).getD dflt
def Fields.bytes (f : Fields) (k : String) : Bytes := ((f.lookup k).bind bytesOfHex).getD []

def parseOptNat (s : String) : Option Nat := if s == "none" then none else s.toNat?

/-- `us=hdr | hup:none | hup:<n> | up:none | up:<n>` -/
def parseUs (s : String) : UnpackedSizeOpt :=
  match s.splitOn ":" with
  | ["hup", v] => .readHeaderButUseProvided (parseOptNat v)
  | ["up", v] => .useProvided (parseOptNat v)
  | _ => .readFromHeader

def parseOptions (f : Fields) : Options :=
  { unpackedSize := parseUs (f.get "us")
    memlimit := parseOptNat (f.get "ml" |> fun s => if s.isEmpty then "none" else s)
    allowIncomplete := f.get "ai" == "1" }

/-- `sink=a,u3,f,…` -/
def parseSink (s : String) : Sink :=
  let script := (s.splitOn ",").filterMap fun t =>
    if t == "a" then some SinkBeh.all
    else if t == "f" then some SinkBeh.fail
    else if t.startsWith "u" then (t.drop 1).toString.toNat?.map SinkBeh.upto
    else none
  { script := script }

def verdictOf : Except Err α → String
  | .ok _ => "ok"
  | .error (.panic _) => "panic"
  | .error .fuel => "hang"
  | .error _ => "err"

def sinkRepr (s : Sink) (full : Bool := false) : String :=
  s!"out={outRepr s.out.toList full} fl={s.flushes} lf={if s.lastFlush then 1 else 0}"

/-- one-shot decoders -/
def runOneShot (op : String) (f : Fields) : String :=
  let rd : Rd := { rem := f.bytes "in", bad := f.get "rbad" == "1" }
  let snk := parseSink (f.get "sink")
  let m : M Rd :=
    if op == "lzma" then lzmaDecompress rd (parseOptions f)
    else if op == "lzma2" then lzma2Decompress rd
    else xzDecompress rd
  let (snk, r) := m snk
  let used := match r with
    | .ok rd' => s!"{rd.rem.length - rd'.rem.length}"
    | .error _ => "-"
  s!"{verdictOf r} used={used} {sinkRepr snk (f.get "full" == "1")}"

/-- the decoder state in the byte layout of the `verif_state_bytes` hook: carry-over length,
lc/lp/pb, expected size, every probability table (u16 LE) in the hook's order, state, rep[0..4] (u64 LE) -/
def crcBytes (c : UInt32) (bs : Bytes) : UInt32 := bs.foldl crc32Step c

@[inline] def crcU16 (c : UInt32) (n : Nat) : UInt32 :=
  crc32Step (crc32Step c (UInt8.ofNat (n % 256))) (UInt8.ofNat (n / 256 % 256))

def crcArr (c : UInt32) (a : Array Nat) : UInt32 := a.foldl crcU16 c

def crcLen (c : UInt32) (l : LenProbs) : UInt32 :=
  crcArr (crcArr (crcArr (crcU16 (crcU16 c l.choice) l.choice2) l.low) l.mid) l.high

/-- number of bytes of the state layout and its running CRC, started from `c0` after `pre` bytes -/
def stateCrc (c : UInt32) (s : DState) : UInt32 × Nat :=
  let hdr : Bytes := [UInt8.ofNat s.partialBuf.length, UInt8.ofNat s.props.lc, UInt8.ofNat s.props.lp, UInt8.ofNat s.props.pb] ++
    (match s.unpackedSize with
     | none => List.replicate 9 0
     | some n => 1 :: leBytes 8 n)
  let c := crcBytes c hdr
  let p := s.probs
  let c := crcArr c p.lit
  let c := crcArr c p.posSlot
  let c := crcArr c p.align
  let c := crcArr c p.posDec
  let c := crcArr c p.isMatch
  let c := crcArr c p.isRep
  let c := crcArr c p.isRepG0
  let c := crcArr c p.isRepG1
  let c := crcArr c p.isRepG2
  let c := crcArr c p.isRep0Long
  let c := crcLen c p.len
  let c := crcLen c p.repLen
  let tail : Bytes := [UInt8.ofNat s.state] ++ leBytes 8 s.rep0 ++ leBytes 8 s.rep1 ++ leBytes 8 s.rep2 ++ leBytes 8 s.rep3
  let c := crcBytes c tail
  let nprobs := p.lit.size + p.posSlot.size + p.align.size + p.posDec.size + p.isMatch.size + p.isRep.size +
    p.isRepG0.size + p.isRepG1.size + p.isRepG2.size + p.isRep0Long.size +
    2 * (2 + p.len.low.size + p.len.mid.size + p.len.high.size)
  (c, hdr.length + 2 * nprobs + tail.length)

def stReprOf (pre : Bytes) (s : DState) : String :=
  let (c, n) := stateCrc (crcBytes 0xFFFFFFFF pre) s
  s!"st:{pre.length + n}:{hex8 ((c ^^^ 0xFFFFFFFF).toNat)}"

def stRepr (bs : Bytes) : String := s!"st:{bs.length}:{hex8 (crc32 bs)}"

/-- raw LZMA decoder histories: `ops=d:<hex>;r;rs:none;rs:<n>;st` -/
def runRawLzma (f : Fields) : String :=
  -- `hdr=<hex>`: the two-step construction read_header(&options) → LzmaDecoder::new(params, ml)
  let paramsE : Except Err LzmaParams :=
    if (f.get "hdr").isEmpty then
      .ok { props := { lc := f.nat "lc", lp := f.nat "lp", pb := f.nat "pb" }
            dictSize := f.nat "dict", unpackedSize := parseOptNat (f.get "us") }
    else
      let opts : Options :=
        { unpackedSize := parseUs (f.get "hus")
          memlimit := parseOptNat (f.get "hml" |> fun s => if s.isEmpty then "none" else s)
          allowIncomplete := f.get "hai" == "1" }
      (readHeader (Rd.ofBytes (f.bytes "hdr")) opts).map Prod.fst
  match paramsE with
  | .error e => s!"new:{verdictOf (Except.error e : Except Err Unit)}"
  | .ok params =>
  match LzmaDecoder.new params (parseOptNat (f.get "ml")) with
  | .error e => s!"new:{verdictOf (Except.error e : Except Err Unit)}"
  | .ok d0 =>
    -- `fst=<hex>,<hex>,…`: the state the REAL decoder was left in by its k-th failed decode (dumped by the
    -- harness through the state hook).  The model, whose error path returns no object, reads it back
    -- (`DState.ofBytes`), evaluates the safety invariant on it (`DState.checkInv`, sound for `DStateInv`:
    -- C07State.checkInv_sound) and goes on from exactly that object instead of answering `unspec`.
    let decode (d : LzmaDecoder) (dirty : Bool) (acc : List String) (fsts : List String) (h : String) (bad : Bool) :
        LzmaDecoder × Bool × List String × List String :=
      if dirty then (d, dirty, acc ++ ["unspec"], fsts)
      else
        let rd : Rd := { rem := (bytesOfHex h).getD [], bad := bad }
        match d.decompress rd {} with
        | (snk, .ok (d', rd')) =>
          (d', false, acc ++ [s!"ok:{rd.rem.length - rd'.rem.length}:{outRepr snk.out.toList}"], fsts)
        | (snk, .error e) =>
          let tok := s!"{verdictOf (Except.error e : Except Err Unit)}:-:{outRepr snk.out.toList}"
          match fsts with
          | [] => (d, true, acc ++ [tok], [])
          | fh :: rest =>
            match (bytesOfHex fh).bind DState.ofBytes with
            | none => (d, true, acc ++ [tok, "fst:unparsable"], rest)
            | some s' =>
              if s'.checkInv then ({ d with state := s' }, false, acc ++ [tok, "f" ++ stRepr s'.toBytes], rest)
              else (d, true, acc ++ [tok, "fst:invariant-violated"], rest)
    let fsts0 := if (f.get "fst").isEmpty then [] else (f.get "fst").splitOn ","
    let ops := (f.get "ops").splitOn ";"
    let (_, _, outs, _) := ops.foldl (init := (d0, false, ([] : List String), fsts0)) fun (d, dirty, acc, fsts) op =>
      match op.splitOn ":" with
      | ["d", h] => decode d dirty acc fsts h false
      | ["df", h] => decode d dirty acc fsts h true      -- the source fails where the data ends
      | ["st"] => (d, dirty, acc ++ [if dirty then "unspec" else stReprOf [] d.state], fsts)
      | ["r"] =>
        match d.reset none with
        | .ok d' => (d', false, acc ++ ["r"], fsts)
        | .error _ => (d, dirty, acc ++ ["panic"], fsts)
      | ["rs", v] =>
        match d.reset (some (parseOptNat v)) with
        | .ok d' => (d', false, acc ++ ["r"], fsts)
        | .error _ => (d, dirty, acc ++ ["panic"], fsts)
      | _ => (d, dirty, acc, fsts)
    "new:ok " ++ " ".intercalate outs

def runRawLzma2 (f : Fields) : String :=
  match Lzma2Decoder.new with
  | .error _ => "new:panic"
  | .ok d0 =>
    let decode (d : Lzma2Decoder) (dirty : Bool) (acc : List String) (h : String) (bad : Bool) : Lzma2Decoder × Bool × List String :=
      if dirty then (d, dirty, acc ++ ["unspec"])
      else
        let rd : Rd := { rem := (bytesOfHex h).getD [], bad := bad }
        match d.decompress rd {} with
        | (snk, .ok (d', rd')) =>
          (d', false, acc ++ [s!"ok:{rd.rem.length - rd'.rem.length}:{outRepr snk.out.toList}"])
        | (snk, .error e) =>
          (d, true, acc ++ [s!"{verdictOf (Except.error e : Except Err Unit)}:-:{outRepr snk.out.toList}"])
    let ops := (f.get "ops").splitOn ";"
    let (_, _, outs) := ops.foldl (init := (d0, false, ([] : List String))) fun (d, dirty, acc) op =>
      match op.splitOn ":" with
      | ["d", h] => decode d dirty acc h false
      | ["df", h] => decode d dirty acc h true      -- the source fails where the data ends
      -- the expected-size field is masked (dead across chunks: `lzma2_ignores_stale_size`)
      | ["st"] => (d, dirty, acc ++ [if dirty then "unspec" else stReprOf [] { d.lzmaState with unpackedSize := none }])
      | ["r"] =>
        match d.reset with
        | .ok d' => (d', false, acc ++ ["r"])
        | .error _ => (d, dirty, acc ++ ["panic"])
      | _ => (d, dirty, acc)
    "new:ok " ++ " ".intercalate outs

/-- `Stream` call sequences: `ops=w:<hex>;f;fin`.  After a failed `write` the
stream is in the `none` state.  Each op reports its result and the number of
bytes the sink holds afterwards. -/
def runStream (f : Fields) : String :=
  let st0 := Stream.newWithOptions (parseOptions f)
  let snk0 := parseSink (f.get "sink")
  let ops := (f.get "ops").splitOn ";"
  let (_, snk, outs, _) := ops.foldl (init := (st0, snk0, ([] : List String), false)) fun (st, snk, acc, done) op =>
    if done then (st, snk, acc, done) else
    match op.splitOn ":" with
    | ["w", h] =>
      let data := (bytesOfHex h).getD []
      match st.writeS data snk with
      | (snk', st', .ok n) => (st', snk', acc ++ [s!"w{n}@{snk'.out.size}"], false)
      | (snk', st', .error e) =>
        (st', snk', acc ++ [s!"w{verdictOf (Except.error e : Except Err Unit)}@{snk'.out.size}"], false)
    | ["wa", h] =>
      let data := (bytesOfHex h).getD []
      match Stream.feed (data.length + 1) st data 0 snk with
      | (snk', st', .ok n) => (st', snk', acc ++ [s!"wa{n}@{snk'.out.size}"], false)
      | (snk', st', .error e) =>
        (st', snk', acc ++ [s!"wa{verdictOf (Except.error e : Except Err Unit)}@{snk'.out.size}"], false)
    | ["wx", h] =>
      -- `Write::write_all` as std defines it: repeat `write`; `Ok(0)` on a non-empty rest is `WriteZero`
      let data := (bytesOfHex h).getD []
      match st.writeAll data snk with
      | (snk', st', r) => (st', snk', acc ++ [s!"wx{verdictOf r}@{snk'.out.size}"], false)
    | ["f"] =>
      match st.flush snk with
      | (snk', r) => (st, snk', acc ++ [s!"f{verdictOf r}"], false)
    | ["st"] =>
      let r := match st.state with
        | none => "st:none"
        | some .header => stRepr ([0, UInt8.ofNat st.tmp.length] ++ st.tmp)
        | some (.data rs) =>
          stReprOf ([1, UInt8.ofNat st.tmp.length] ++ st.tmp ++ leBytes 4 rs.range ++ leBytes 4 rs.code ++
            leBytes 8 rs.output.len) rs.decoder
      (st, snk, acc ++ [r], false)
    | ["dbg"] => (st, snk, acc ++ ["dbgok"], false)      -- formatting a stream never panics
    | ["go"] =>
      -- `get_output` / `get_output_mut`: the sink is reachable unless the stream has failed
      (st, snk, acc ++ [match st.state with
        | none => "go:none"
        | some _ => s!"go:{snk.out.size}"], false)
    | ["fin"] =>
      match st.finish snk with
      | (snk', r) => (st, snk', acc ++ [s!"fin{verdictOf r}"], true)
    | _ => (st, snk, acc, done)
  " ".intercalate outs ++ " " ++ sinkRepr snk (f.get "full" == "1")

/-- model-only: per-symbol table (bytes consumed, bytes produced) of a one-shot
`.lzma` decode, used as the progress oracle of C15 -/
partial def traceLoop (orig : Nat) (s : DState) (w : Circ) (rc : RC) (rd : Rd) (snk : Sink)
    (acc : Array String) : Array String :=
  let stop : Bool := match s.unpackedSize with
    | some n => decide (w.len ≥ n)
    | none => rd.rem.isEmpty && rc.code == 0
  if stop then acc.push "end"
  else
    match s.processNext w rc rd snk with
    | (snk', .ok (st, s', w', rc', rd')) =>
      let acc := acc.push s!"{orig - rd'.rem.length}:{w'.len}"
      if st == .finished then acc.push "marker" else traceLoop orig s' w' rc' rd' snk' acc
    | (_, .error _) => acc.push "err"

def runTrace (f : Fields) : String :=
  let data := f.bytes "in"
  let rd := Rd.ofBytes data
  match readHeader rd (parseOptions f) with
  | .error _ => "hdrerr"
  | .ok (params, rd) =>
    match DState.new params.props params.unpackedSize, RC.new rd with
    | .ok st, .ok (rc, rd) =>
      let acc := traceLoop data.length st (Circ.fromStream params.dictSize USIZE_MAX) rc rd {} #[s!"{data.length - rd.rem.length}:0"]
      ",".intercalate acc.toList
    | _, _ => "initerr"

/-- window operation sequences (C09/C10): `kind=circ|accum d= m= ops=…` -/
def runWin (f : Fields) : String :=
  let ops := (f.get "ops").splitOn ";"
  let m := (parseOptNat (f.get "m")).getD USIZE_MAX
  let snk0 := parseSink (f.get "sink")
  let fmt (r : Except Err String) : String := match r with
    | .ok s => s
    | .error (.panic _) => "panic"
    | .error _ => "err"
  if f.get "kind" == "circ" then
    let w0 := Circ.fromStream (f.nat "d") m
    let (_, snk, outs, _) := ops.foldl (init := (w0, snk0, ([] : List String), false)) fun (w, snk, acc, done) op =>
      if done then (w, snk, acc, done) else
      match op.splitOn ":" with
      | ["lit", b] =>
        match w.appendLiteral (UInt8.ofNat b.toNat!) snk with
        | (snk', .ok w') => (w', snk', acc ++ [s!"ok/{w'.buf.size}/{w'.len}"], false)
        | (snk', .error e) => (w, snk', acc ++ [fmt (.error e)], true)
      | ["lz", l, d] =>
        match w.appendLz l.toNat! d.toNat! snk with
        | (snk', .ok w') => (w', snk', acc ++ [s!"ok/{w'.buf.size}/{w'.len}"], false)
        | (snk', .error e) => (w, snk', acc ++ [fmt (.error e)], true)
      | ["lastn", d] => (w, snk, acc ++ [fmt ((w.lastN d.toNat!).map fun b => s!"{b.toNat}")], false)
      | ["lastor", b] => (w, snk, acc ++ [fmt ((w.lastOr (UInt8.ofNat b.toNat!)).map fun b => s!"{b.toNat}")], false)
      | ["fin"] =>
        match w.finish snk with
        | (snk', r) => (w, snk', acc ++ [fmt (r.map fun _ => "ok")], true)
      | _ => (w, snk, acc, done)
    " ".intercalate outs ++ " " ++ sinkRepr snk
  else
    let w0 := Accum.fromStream m
    let (_, snk, outs, _) := ops.foldl (init := (w0, snk0, ([] : List String), false)) fun (w, snk, acc, done) op =>
      if done then (w, snk, acc, done) else
      match op.splitOn ":" with
      | ["lit", b] =>
        match w.appendLiteral (UInt8.ofNat b.toNat!) snk with
        | (snk', .ok w') => (w', snk', acc ++ [s!"ok/{w'.buf.size}/{w'.len}"], false)
        | (snk', .error e) => (w, snk', acc ++ [fmt (.error e)], true)
      | ["lz", l, d] =>
        match w.appendLz l.toNat! d.toNat! snk with
        | (snk', .ok w') => (w', snk', acc ++ [s!"ok/{w'.buf.size}/{w'.len}"], false)
        | (snk', .error e) => (w, snk', acc ++ [fmt (.error e)], true)
      | ["lastn", d] => (w, snk, acc ++ [fmt ((w.lastN d.toNat!).map fun b => s!"{b.toNat}")], false)
      | ["lastor", b] => (w, snk, acc ++ [fmt ((w.lastOr (UInt8.ofNat b.toNat!)).map fun b => s!"{b.toNat}")], false)
      | ["bytes", h] =>
        let w' := w.appendBytes ((bytesOfHex h).getD [])
        (w', snk, acc ++ [s!"ok/{w'.buf.size}/{w'.len}"], false)
      | ["reset"] =>
        match w.reset snk with
        | (snk', .ok w') => (w', snk', acc ++ [s!"ok/{w'.buf.size}/{w'.len}"], false)
        | (snk', .error e) => (w, snk', acc ++ [fmt (.error e)], true)
      | ["fin"] =>
        match w.finish snk with
        | (snk', r) => (w, snk', acc ++ [fmt (r.map fun _ => "ok")], true)
      | _ => (w, snk, acc, done)
    " ".intercalate outs ++ " " ++ sinkRepr snk

/-- encoders: `kind=lzma|lzma2|xz opt=hnone|h<n>|skip in= frags=a,b,c rbad= sink=` -/
def runEnc (f : Fields) : String :=
  let frags := ((f.get "frags").splitOn ",").filterMap String.toNat?
  let rd : ERd := { rem := f.bytes "in", bad := f.get "rbad" == "1", frags := frags }
  let snk := parseSink (f.get "sink")
  let kind := f.get "kind"
  let opt : EncSizeOpt :=
    let o := f.get "opt"
    if o == "skip" then .skipWritingToHeader
    else if o == "hnone" then .writeToHeader none
    else .writeToHeader ((o.drop 1).toString.toNat?)
  let m : M Unit :=
    if kind == "lzma" then lzmaCompress rd opt
    else if kind == "lzma2" then do let _ ← lzma2Compress rd; pure ()
    else xzCompress rd
  let (snk, r) := m snk
  s!"{verdictOf r} {sinkRepr snk (f.get "full" == "1")} w={snk.writes}"

/-- CRC validation cases -/
def runCrc (f : Fields) : String :=
  let bs := f.bytes "in"
  s!"crc32={hex8 (crc32 bs)} crc64={hex8 (crc64 bs >>> 32)}{hex8 (crc64 bs % U32)}"

def runCase (line : String) : String :=
  let toks := line.trimAscii.toString.splitOn " "
  match toks with
  | [] => ""
  | op :: _ =>
    let f := parseFields line
    let id := f.get "id"
    let res :=
      if op == "lzma" || op == "lzma2" || op == "xz" then runOneShot op f
      else if op == "rawlzma" then runRawLzma f
      else if op == "rawlzma2" then runRawLzma2 f
      else if op == "stream" then runStream f
      else if op == "win" then runWin f
      else if op == "enc" then runEnc f
      else if op == "crc" then runCrc f
      else if op == "trace" then runTrace f
      else "bad-op"
    s!"id={id} {res}"

end Lzma.Proto
