/-
  LzmaGen.Gen — generators of format-level material (symbol programs and LZMA2
  chunk sequences with their reference encodings and meanings).  The Python
  orchestrator wraps this material into cases (headers, options, mutations,
  chunkings, readers, sink scripts).  Every random choice derives from one PRNG
  state so that a run replays exactly from its seed.
-/
import LzmaGen.Proto
namespace Lzma.Gen
open Lzma Lzma.Proto

/-- splitmix-style PRNG on 64-bit state -/
structure Rng where
  s : UInt64
  deriving Inhabited

def Rng.next (r : Rng) : Rng × UInt64 :=
  let s := r.s + 0x9E3779B97F4A7C15
  let z := s
  let z := (z ^^^ (z >>> 30)) * 0xBF58476D1CE4E5B9
  let z := (z ^^^ (z >>> 27)) * 0x94D049BB133111EB
  ({ s := s }, z ^^^ (z >>> 31))

def Rng.below (r : Rng) (n : Nat) : Rng × Nat :=
  let (r, v) := r.next
  (r, if n = 0 then 0 else v.toNat % n)

def Rng.pick [Inhabited α] (r : Rng) (xs : List α) : Rng × α :=
  let (r, i) := r.below xs.length
  (r, xs[i]!)

/-- parameters steering a random program -/
structure ProgCfg where
  nsyms : Nat
  dict : Nat            -- dictionary limit in effect
  alphabet : Nat := 4   -- literal bytes are drawn from `alphabet` values (small ⇒ matched literals differ little)
  maxLen : Nat := 273
  eos : Bool := false
  /-- inject one ill-formed copy (distance beyond history or dictionary) at this symbol index -/
  badAt : Option Nat := none
  /-- when set to the dictionary size: every other time a lap boundary is within reach, end a
  non-overlapping match exactly on it -/
  alignTo : Option Nat := none
  deriving Repr, Inhabited

def lenChoices : List Nat := [2, 2, 3, 5, 9, 10, 11, 17, 18, 19, 40, 272, 273]

/-- distances covering every slot: small ones, powers of two ± 1, the maximum allowed -/
def pickDist (r : Rng) (maxd : Nat) : Rng × Nat :=
  if maxd ≤ 1 then (r, 1)
  else
    let (r, k) := r.below 6
    if k = 0 then (r, 1)
    else if k = 1 then (r, maxd)
    else if k = 2 then
      let (r, e) := r.below (bitLen maxd)
      let d := 1 <<< e
      let (r, j) := r.below 3
      let d := d + j
      (r, if d = 0 then 1 else if d > maxd then maxd else d)
    else
      let (r, d) := r.below maxd
      (r, d + 1)

def genProgAux (cfg : ProgCfg) : Nat → Nat → Rng → SpecSt → List Sym → Rng × List Sym
  | 0, _, r, _, acc => (r, acc.reverse)
  | n+1, i, r, st, acc =>
    let hl := st.hist.size
    let maxd := min hl cfg.dict
    if cfg.badAt = some i then
      -- one ill-formed copy: a match beyond history/dictionary, or a short rep / rep match whose
      -- remembered distance is not (yet) inside the produced window
      let (r, k) := r.below 4
      let bad := if k = 0 then hl + 1 else if k = 1 then cfg.dict + 1 else if k = 2 then 0xFFFFFFFF else max (hl + 1) (cfg.dict + 1) + 7
      let cands : List Sym := [Sym.mtch bad 2, Sym.mtch bad 273] ++
        (if st.rep0 + 1 > maxd then [Sym.shortRep, Sym.shortRep, Sym.rep 0 2, Sym.rep 0 19] else []) ++
        (if st.rep1 + 1 > maxd then [Sym.rep 1 3] else []) ++
        (if st.rep2 + 1 > maxd then [Sym.rep 2 2] else []) ++
        (if st.rep3 + 1 > maxd then [Sym.rep 3 273] else [])
      let (r, sym) := r.pick cands
      (r, (sym :: acc).reverse)
    else
    let (r, k) := r.below 10
    let toEdge := match cfg.alignTo with
      | some d => if d = 0 then 0 else d - hl % d
      | none => 0
    let (r, edge) := r.below 2
    let (r, sym) : Rng × Sym :=
      if toEdge ≥ 2 ∧ toEdge ≤ 273 ∧ edge = 0 ∧ hl > 0 then
        -- a copy that ends exactly on the lap boundary; non-overlapping when the history allows
        if maxd ≥ toEdge then
          let (r, extra) := r.below (maxd - toEdge + 1)
          (r, .mtch (toEdge + extra) toEdge)
        else (r, .mtch maxd toEdge)
      else if hl = 0 ∨ k < 4 then
        let (r, b) := r.below cfg.alphabet
        let (r, hi) := r.below 8
        (r, .lit (UInt8.ofNat (if hi = 0 then 255 - b else b * 37 % 256)))
      else if k < 7 then
        let (r, d) := pickDist r maxd
        let (r, l) := r.pick lenChoices
        (r, .mtch d (min l cfg.maxLen))
      else if k = 7 then
        if st.rep0 + 1 ≤ maxd then (r, .shortRep) else (r, .lit 0x41)
      else
        let (r, idx) := r.below 4
        let d := match idx with
          | 0 => st.rep0 | 1 => st.rep1 | 2 => st.rep2 | _ => st.rep3
        if d + 1 ≤ maxd then
          let (r, l) := r.pick lenChoices
          (r, .rep idx (min l cfg.maxLen))
        else (r, .lit 0x42)
    match SpecSt.step cfg.dict st sym with
    | some (st', _) => genProgAux cfg n (i + 1) r st' (sym :: acc)
    | none => genProgAux cfg n (i + 1) r st (Sym.lit 0x43 :: acc)   -- unreachable by construction

def genProg (cfg : ProgCfg) (r : Rng) (st : SpecSt := {}) : Rng × List Sym :=
  let (r, p) := genProgAux cfg cfg.nsyms 0 r st []
  (r, if cfg.eos then p ++ [.eos] else p)

def symKinds (p : List Sym) : String :=
  let c := p.foldl (init := (0, 0, 0, 0, 0)) fun (a, b, c, d, e) s =>
    match s with
    | .lit _ => (a + 1, b, c, d, e)
    | .mtch .. => (a, b + 1, c, d, e)
    | .shortRep => (a, b, c + 1, d, e)
    | .rep .. => (a, b, c, d + 1, e)
    | .eos => (a, b, c, d, e + 1)
  s!"{c.1}/{c.2.1}/{c.2.2.1}/{c.2.2.2.1}/{c.2.2.2.2}"

def symRepr : Sym → String
  | .lit b => s!"L{b.toNat}"
  | .mtch d l => s!"M{d},{l}"
  | .shortRep => "S"
  | .rep i l => s!"R{i},{l}"
  | .eos => "E"

def progRepr (p : List Sym) : String :=
  if p.length ≤ 24 then ",".intercalate (p.map symRepr) else s!"{p.length}syms"

/-- output length after each symbol of a well-formed program -/
def cumLens (dict : Nat) (prog : List Sym) : List Nat :=
  (prog.foldl (init := (({} : SpecSt), ([] : List Nat))) fun (st, acc) sym =>
    match SpecSt.step dict st sym with
    | some (st', _) => (st', st'.hist.size :: acc)
    | none => (st, st.hist.size :: acc)).2.reverse

def cumRepr (dict : Nat) (prog : List Sym) : String :=
  ",".intercalate ((cumLens dict prog).map toString)

/-- all 225 property triples, cycled -/
def propsOfIndex (i : Nat) : Props :=
  let i := i % 225
  { lc := i % 9, lp := (i / 9) % 5, pb := i / 45 }

/-- material line for `.lzma`-style payloads -/
def genLzmaLine (seed idx : Nat) : String :=
  let r : Rng := { s := UInt64.ofNat (seed * 1000003 + idx * 7919 + 1) }
  let (r, pi) := r.below 225
  -- bias towards the common and the extreme settings
  let (r, pk) := r.below 4
  let props := if pk = 0 then { lc := 3, lp := 0, pb := 2 } else if pk = 1 then propsOfIndex idx else propsOfIndex pi
  let (r, dk) := r.below 8
  -- effective dictionary: tiny (raw decoder only), 4096 (header minimum), larger
  let dict := match dk with
    | 0 => 1 | 1 => 2 | 2 => 3 | 3 => 7 | 4 => 4096 | 5 => 4096 | 6 => 4097 | _ => 65536
  let (r, nk) := r.below 6
  let nsyms := match nk with
    | 0 => 0 | 1 => 1 | 2 => 5 | 3 => 30 | 4 => 120 | _ => 400
  let (r, ek) := r.below 2
  let (r, ak) := r.below 3
  let cfg : ProgCfg := { nsyms := nsyms, dict := dict, alphabet := if ak = 0 then 2 else if ak = 1 then 4 else 200, eos := ek = 0 }
  let (_, prog) := genProg cfg r
  let payload := encodeSyms props dict prog
  let out := (expand dict prog).getD []
  s!"mat kind=lzma idx={idx} lc={props.lc} lp={props.lp} pb={props.pb} dict={dict} eos={if cfg.eos then 1 else 0} " ++
    s!"nsyms={prog.length} kinds={symKinds prog} prog={progRepr prog} cum={cumRepr dict prog} payload={hexOfBytes payload} out={hexOfBytes out}"

/-- long outputs that lap a 4096-byte dictionary many times -/
def genLzmaWrapLine (seed idx : Nat) : String :=
  let r : Rng := { s := UInt64.ofNat (seed * 1000003 + idx * 104729 + 77) }
  let (r, pi) := r.below 225
  let props := propsOfIndex pi
  let (r, dk) := r.below 3
  let dict := match dk with
    | 0 => 4096 | 1 => 4097 | _ => 5000
  let (r, ek) := r.below 2
  let cfg : ProgCfg := { nsyms := 700, dict := dict, alphabet := 3, eos := ek = 0, alignTo := some dict }
  let (_, prog) := genProg cfg r
  let payload := encodeSyms props dict prog
  let out := (expand dict prog).getD []
  s!"mat kind=lzma idx={idx} lc={props.lc} lp={props.lp} pb={props.pb} dict={dict} eos={if cfg.eos then 1 else 0} " ++
    s!"nsyms={prog.length} kinds={symKinds prog} prog={progRepr prog} payload={hexOfBytes payload} out={hexOfBytes out}"

/-- a program whose last symbol is an out-of-window copy (C09); `out` is the
meaning of the well-formed prefix -/
def genBadLine (seed idx : Nat) : String :=
  let r : Rng := { s := UInt64.ofNat (seed * 1000003 + idx * 15485863 + 5) }
  let (r, pk) := r.below 3
  let props := if pk = 0 then { lc := 3, lp := 0, pb := 2 } else propsOfIndex (idx * 7)
  let (r, dk) := r.below 7
  let dict := match dk with
    | 0 => 1 | 1 => 2 | 2 => 3 | 3 => 8 | 4 => 4096 | 5 => 4097 | _ => 65536
  let (r, nk) := r.below 5
  -- positions around the wrap point of the dictionary
  let n := match nk with
    | 0 => 0 | 1 => 1 | 2 => 7 | 3 => 40 | _ => 90
  let cfg : ProgCfg := { nsyms := n + 1, dict := dict, alphabet := 3, badAt := some n }
  let (_, prog) := genProg cfg r
  let good := prog.take n
  let payload := encodeSyms props dict prog
  let out := (expand dict good).getD []
  s!"mat kind=lzmabad idx={idx} lc={props.lc} lp={props.lp} pb={props.pb} dict={dict} eos=0 " ++
    s!"nsyms={prog.length} kinds={symKinds prog} prog={progRepr prog} payload={hexOfBytes payload} out={hexOfBytes out}"

/-! ## LZMA2 chunk sequences -/

inductive Chunk where
  | raw (resetDict : Bool) (data : Bytes)
  /-- `cls`: 0 nothing, 1 state reset, 2 state reset + new props, 3 + dict reset -/
  | lzma (cls : Nat) (props : Props) (prog : List Sym)
  deriving Repr, Inhabited

/-- encode a chunk sequence with the reference encoder; returns bytes and meaning -/
def encode2Aux : List Chunk → EncSt → Bytes → Bytes → Bytes × Bytes
  | [], _, bytes, out => (bytes ++ [0], out)
  | .raw rd data :: rest, st, bytes, out =>
    let st := if rd then { st with spec := { st.spec with hist := #[] } } else st
    let st := { st with spec := { st.spec with hist := st.spec.hist ++ data.toArray } }
    let n := data.length - 1
    encode2Aux rest st (bytes ++ [if rd then 1 else 2] ++ beBytes 2 n ++ data) (out ++ data)
  | .lzma cls props prog :: rest, st, bytes, out =>
    let st := if cls = 3 then { st with spec := { st.spec with hist := #[] } } else st
    let st : EncSt :=
      if cls ≥ 1 then
        let p := if cls ≥ 2 then props else st.props
        { props := p, probs := Probs.init (1 <<< (p.lc + p.lp)), spec := { hist := st.spec.hist } }
      else st
    let before := st.spec.hist.size
    let m : M EncSt := do
      let (s, e) ← encodeProg 0xFFFFFFFF prog st {}
      let _ ← e.finish
      pure s
    match m {} with
    | (snk, .ok st') =>
      let payload := snk.out.toList
      let produced := (st'.spec.hist.toList.drop before)
      let u := produced.length - 1
      let p := payload.length - 1
      let ctrl := 0x80 + cls * 32 + (u >>> 16)
      let hdr := [UInt8.ofNat ctrl] ++ beBytes 2 (u % 65536) ++ beBytes 2 p ++
        (if cls ≥ 2 then [UInt8.ofNat (props.lc + 9 * (props.lp + 5 * props.pb))] else [])
      encode2Aux rest st' (bytes ++ hdr ++ payload) (out ++ produced)
    | (_, .error _) => (bytes, out)

def encode2 (cs : List Chunk) : Bytes × Bytes :=
  encode2Aux cs (EncSt.new { lc := 0, lp := 0, pb := 0 }) [] []

def randBytes : Nat → Rng → Bytes → Rng × Bytes
  | 0, r, acc => (r, acc)
  | n+1, r, acc =>
    let (r, b) := r.below 5
    randBytes n r (UInt8.ofNat (b * 50 + 3) :: acc)

def lzma2Props (i : Nat) : Props :=
  -- lc + lp ≤ 4
  let combos : List (Nat × Nat) := [(0,0),(3,0),(4,0),(0,4),(2,2),(1,3),(3,1),(0,1),(1,0)]
  let (lc, lp) := combos[i % combos.length]!
  { lc := lc, lp := lp, pb := (i / 9) % 5 }

def genChunks : Nat → Nat → Rng → EncSt → Bool → List Chunk → Rng × List Chunk
  | 0, _, r, _, _, acc => (r, acc.reverse)
  | n+1, i, r, st, needProps, acc =>
    let (r, k) := r.below 10
    let first := acc.isEmpty
    if k < 3 then
      -- uncompressed chunk
      let (r, rdk) := r.below 3
      let resetDict := first ∨ rdk = 0
      let (r, sk) := r.below 6
      let sz := match sk with
        | 0 => 1 | 1 => 2 | 2 => 17 | 3 => 300 | 4 => 1 | _ => 40
      let (r, data) := randBytes sz r []
      let st := if resetDict then { st with spec := { st.spec with hist := #[] } } else st
      let st := { st with spec := { st.spec with hist := st.spec.hist ++ data.toArray } }
      genChunks n (i + 1) r st (needProps ∨ resetDict) (.raw resetDict data :: acc)
    else
      let (r, ck) := r.below 4
      let cls := if first then 3 else if needProps then (if ck = 3 then 3 else 2) else ck
      let (r, pk) := r.below 40
      let props := lzma2Props pk
      let st := if cls = 3 then { st with spec := { st.spec with hist := #[] } } else st
      let st : EncSt :=
        if cls ≥ 1 then
          let p := if cls ≥ 2 then props else st.props
          { props := p, probs := Probs.init (1 <<< (p.lc + p.lp)), spec := { hist := st.spec.hist } }
        else st
      let (r, nk) := r.below 4
      let nsyms := match nk with
        | 0 => 1 | 1 => 6 | 2 => 40 | _ => 150
      let (r, prog) := genProg { nsyms := nsyms, dict := 0xFFFFFFFF, alphabet := 3 } r st.spec
      -- advance the spec state (probabilities are not needed to pick later symbols)
      let spec := prog.foldl (init := st.spec) fun s sym =>
        match SpecSt.step 0xFFFFFFFF s sym with
        | some (s', _) => s'
        | none => s
      let st := { st with spec := spec }
      genChunks n (i + 1) r st false (.lzma cls (if cls ≥ 2 then props else st.props) prog :: acc)

def chunkRepr : Chunk → String
  | .raw rd data => s!"U{if rd then 1 else 2}:{data.length}"
  | .lzma cls p prog => s!"C{cls}:{p.lc}{p.lp}{p.pb}:{prog.length}"

def genLzma2Line (seed idx : Nat) : String :=
  let r : Rng := { s := UInt64.ofNat (seed * 1000003 + idx * 611953 + 11) }
  let (r, nk) := r.below 5
  let n := match nk with
    | 0 => 0 | 1 => 1 | 2 => 2 | 3 => 4 | _ => 7
  let (_, cs) := genChunks n 0 r (EncSt.new { lc := 0, lp := 0, pb := 0 }) true []
  let (bytes, out) := encode2 cs
  s!"mat kind=lzma2 idx={idx} nchunks={cs.length} chunks={",".intercalate (cs.map chunkRepr)} " ++
    s!"payload={hexOfBytes bytes} out={hexOfBytes out}"

/-- chunk sequences ending in a compressed chunk with an out-of-window copy (accumulating window):
(a) a match beyond the history since the last dictionary reset, (b) a stale repeated distance used
after a dictionary reset by an uncompressed chunk (no state reset in between) -/
def genLzma2BadLine (seed idx : Nat) : String :=
  let r : Rng := { s := UInt64.ofNat (seed * 1000003 + idx * 32452843 + 3) }
  let (r, nk) := r.below 4
  let n := match nk with
    | 0 => 0 | 1 => 1 | 2 => 2 | _ => 4
  let (r, cs) := genChunks n 0 r (EncSt.new { lc := 0, lp := 0, pb := 0 }) true []
  let (r, flavour) := r.below 3
  let (r, pk) := r.below 40
  let props := lzma2Props pk
  let (r, d) := r.pick [5, 17, 300]
  let (r, k) := r.pick [1, 2, 4]
  let (r, data) := randBytes k r []
  let (r, lits) := randBytes (d + 3) r []
  let (_, badsym) := r.pick [Sym.shortRep, Sym.rep 0 2, Sym.rep 0 40]
  let tail : List Chunk :=
    if flavour = 0 then
      -- fresh dictionary, a few literals, then a match reaching before them
      [.lzma 3 props ((lits.take 3).map Sym.lit ++ [Sym.mtch 4 2])]
    else if flavour = 1 then
      -- establish rep0 = d - 1, reset only the dictionary with an uncompressed chunk, reuse rep0
      [.lzma 3 props (lits.map Sym.lit ++ [Sym.mtch d 2]), .raw true data, .lzma 0 props [badsym]]
    else
      -- the same, but the next symbol is a LITERAL: after a match it is decoded against the byte at
      -- distance rep0 + 1, which the reset dictionary does not hold
      [.lzma 3 props (lits.map Sym.lit ++ [Sym.mtch d 2]), .raw true data, .lzma 0 props [Sym.lit 0x33, Sym.lit 0x34]]
  let all := cs ++ tail
  let (bytes, out) := encode2 all
  s!"mat kind=lzma2bad idx={idx} nchunks={all.length} chunks={",".intercalate (all.map chunkRepr)} " ++
    s!"payload={hexOfBytes bytes} out={hexOfBytes out}"

/-- size extremes of a compressed LZMA2 chunk.
`idx % 2 = 0`: packed size exactly 65536 (field 0xFFFF): literals over a 4-letter alphabet are
encoded one by one until the payload (with its 5-byte flush) is 65536 bytes long;
`idx % 2 = 1`: unpacked size exactly 2 MiB (control byte 0xFF): one literal, then copies of length 273. -/
partial def literalsUntil (target : Nat) (r : Rng) (st : EncSt) (e : REnc) (snk : Sink) (n : Nat) : Nat × EncSt × REnc × Sink :=
  if snk.out.size + e.cachesz + 4 ≥ target ∨ n ≥ 600000 then (n, st, e, snk)
  else
    let (r, b) := r.below 4
    let sym := Sym.lit (UInt8.ofNat (b * 61 + 7))
    match encodeProg 0xFFFFFFFF [sym] st e snk with
    | (snk', .ok (st', e')) => literalsUntil target r st' e' snk' (n + 1)
    | (_, .error _) => (n, st, e, snk)

def genLzma2BigLine (seed idx : Nat) : String :=
  let r : Rng := { s := UInt64.ofNat (seed * 1000003 + idx * 49979687 + 13) }
  let props : Props := { lc := 3, lp := 0, pb := 2 }
  let st0 := EncSt.new props
  if idx % 2 = 0 then
    let (_, st, e, snk) := literalsUntil 65536 r st0 {} {} 0
    match e.finish snk with
    | (snk', .ok _) =>
      let payload := snk'.out.toList
      let out := st.spec.hist.toList
      let u := out.length - 1
      let hdr := [UInt8.ofNat (0xE0 + (u >>> 16))] ++ beBytes 2 (u % 65536) ++ beBytes 2 (payload.length - 1) ++
        [UInt8.ofNat (props.lc + 9 * (props.lp + 5 * props.pb))]
      -- followed by a small chunk that continues without any reset
      let tail : List Chunk := [.lzma 0 props [Sym.lit 0x41, Sym.mtch 2 5]]
      let (tb, tout) := encode2Aux tail { st with spec := st.spec } [] []
      s!"mat kind=lzma2big idx={idx} what=packed65536 packed={payload.length} unpacked={out.length} " ++
        s!"payload={hexOfBytes (hdr ++ payload ++ tb)} out={hexOfBytes (out ++ tout)}"
    | _ => "mat kind=lzma2big idx=0 what=failed payload= out="
  else
    let total := 2097152
    let nfull := (total - 1) / 273
    let rest := (total - 1) - nfull * 273
    let prog : List Sym := [Sym.lit 0x5A] ++ List.replicate nfull (Sym.mtch 1 273) ++ (if rest ≥ 2 then [Sym.mtch 1 rest] else List.replicate rest (Sym.lit 0x5A))
    let (bytes, out) := encode2 [.lzma 3 props prog, .raw false [1, 2, 3]]
    s!"mat kind=lzma2big idx={idx} what=unpacked2MiB unpacked={out.length - 3} payload={hexOfBytes bytes} outrle=5a*{out.length - 3}+010203"

/-- exhaustive small scope: every program of 1..4 symbols over a fixed 8-symbol alphabet that is
well-formed for dictionary `d ∈ {1,2,3}`; props alternate between 0/0/0 and 3/0/2 -/
def exhAlphabet : List Sym :=
  [.lit 0x61, .lit 0x62, .mtch 1 2, .mtch 2 3, .mtch 3 2, .shortRep, .rep 0 2, .rep 1 9]

def progOfIndex : Nat → Nat → List Sym
  | 0, _ => []
  | len+1, i => exhAlphabet[i % 8]! :: progOfIndex len (i / 8)

def genExhLines (_seed : Nat) : List String := Id.run do
  let mut out : List String := []
  let mut idx := 0
  for len in [1, 2, 3, 4] do
    for i in List.range (8 ^ len) do
      let prog := progOfIndex len i
      for d in [1, 2, 3] do
        match SpecSt.run d {} prog with
        | some (st, _) =>
          let props : Props := if (i + d) % 2 = 0 then { lc := 0, lp := 0, pb := 0 } else { lc := 3, lp := 0, pb := 2 }
          let payload := encodeSyms props d prog
          out := (s!"mat kind=lzma idx={idx} lc={props.lc} lp={props.lp} pb={props.pb} dict={d} eos=0 " ++
            s!"nsyms={prog.length} kinds={symKinds prog} prog={progRepr prog} cum={cumRepr d prog} payload={hexOfBytes payload} out={hexOfBytes st.hist.toList}") :: out
          idx := idx + 1
        | none => pure ()
  return out.reverse

/-! ## scripted programs: the reference encoder as a service

`script kind=lzma lc= lp= pb= dict= prog=<tok>,<tok>,…` and
`script kind=lzma2 chunks=<chunk>|<chunk>|…` let the orchestrator ask for the encoding and the
meaning of a specific symbol program.  Tokens: `L<byte>`, `M<dist>.<len>`, `S`, `R<idx>.<len>`, `E`,
`X<n>.<seed>.<alphabet>` (n pseudo-random literals), each optionally followed by `*<count>`.
Chunks: `U1:<hex>` / `U2:<hex>` (uncompressed, with / without dictionary reset),
`V1:<n>.<seed>` / `V2:<n>.<seed>` (the same with n pseudo-random bytes),
`C<cls>:<lc>.<lp>.<pb>:<tokens>` (compressed; cls 0 nothing, 1 state reset, 2 + new props, 3 + dict reset). -/

def pseudoLits : Nat → Rng → Nat → List Sym → List Sym
  | 0, _, _, acc => acc.reverse
  | n+1, r, a, acc =>
    let (r, b) := r.below (max a 1)
    pseudoLits n r a (Sym.lit (UInt8.ofNat ((b * 37 + 11) % 256)) :: acc)

def natArgs (s : String) : List Nat := (s.splitOn ".").map fun x => x.toNat?.getD 0

def parseTok (t : String) : List Sym :=
  let (body, k) := match t.splitOn "*" with
    | [b, k] => (b, k.toNat?.getD 1)
    | _ => (t, 1)
  let args := natArgs (body.drop 1).toString
  let one : List Sym :=
    if body == "S" then [.shortRep]
    else if body == "E" then [.eos]
    else if body.startsWith "L" then [.lit (UInt8.ofNat (args.getD 0 0))]
    else if body.startsWith "M" then [.mtch (args.getD 0 1) (args.getD 1 2)]
    else if body.startsWith "R" then [.rep (args.getD 0 0) (args.getD 1 2)]
    else if body.startsWith "X" then
      pseudoLits (args.getD 0 0) { s := UInt64.ofNat (args.getD 1 1 * 2654435761 + 12345) } (args.getD 2 256) []
    else []
  (List.replicate k one).flatten

def parseProg (s : String) : List Sym :=
  if s.isEmpty then [] else ((s.splitOn ",").map parseTok).flatten

/-- meaning of the longest well-formed prefix of a program -/
def expandPrefix (dict : Nat) (prog : List Sym) : Bytes × Bool :=
  let (st, ok) := prog.foldl (init := (({} : SpecSt), true)) fun (st, ok) sym =>
    if !ok then (st, ok) else
    match SpecSt.step dict st sym with
    | some (st', _) => (st', true)
    | none => (st, false)
  (st.hist.toList, ok)

def parseChunk (c : String) : Option Chunk :=
  match c.splitOn ":" with
  | ["U1", h] => some (.raw true ((bytesOfHex h).getD []))
  | ["U2", h] => some (.raw false ((bytesOfHex h).getD []))
  | ["V1", a] => let xs := natArgs a; some (.raw true (randBytes (xs.getD 0 1) { s := UInt64.ofNat (xs.getD 1 1 * 7919 + 1) } []).2)
  | ["V2", a] => let xs := natArgs a; some (.raw false (randBytes (xs.getD 0 1) { s := UInt64.ofNat (xs.getD 1 1 * 7919 + 1) } []).2)
  | [k, p, toks] =>
    let xs := natArgs p
    some (.lzma ((k.drop 1).toString.toNat?.getD 3) { lc := xs.getD 0 0, lp := xs.getD 1 0, pb := xs.getD 2 0 } (parseProg toks))
  | _ => none

def scriptLine (line : String) : String :=
  let f := parseFields line
  let idx := f.get "idx"
  if f.get "kind" == "lzma2" then
    let cs := ((f.get "chunks").splitOn "|").filterMap parseChunk
    let (bytes, out) := encode2 cs
    s!"mat kind=lzma2 idx={idx} nchunks={cs.length} chunks={",".intercalate (cs.map chunkRepr)} " ++
      s!"payload={hexOfBytes bytes} out={hexOfBytes out}"
  else
    let props : Props := { lc := f.nat "lc", lp := f.nat "lp", pb := f.nat "pb" }
    let dict := f.nat "dict"
    let prog := parseProg (f.get "prog")
    let payload := encodeSyms props dict prog
    let (out, wf) := expandPrefix dict prog
    let eos := prog.getLast? == some Sym.eos
    s!"mat kind=lzma idx={idx} lc={props.lc} lp={props.lp} pb={props.pb} dict={dict} eos={if eos then 1 else 0} wf={if wf then 1 else 0} " ++
      s!"nsyms={prog.length} kinds={symKinds prog} prog={progRepr prog} cum={cumRepr dict prog} payload={hexOfBytes payload} out={hexOfBytes out}"

def generate (kind : String) (seed n : Nat) : List String :=
  if kind == "lzmaexh" then genExhLines seed else
  (List.range n).map fun i =>
    if kind == "lzma" then genLzmaLine seed i
    else if kind == "lzmawrap" then genLzmaWrapLine seed i
    else if kind == "lzmabad" then genBadLine seed i
    else if kind == "lzma2" then genLzma2Line seed i
    else if kind == "lzma2bad" then genLzma2BadLine seed i
    else if kind == "lzma2big" then genLzma2BigLine seed i
    else "bad-kind"

end Lzma.Gen
