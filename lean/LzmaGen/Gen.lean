import LzmaGen.Proto
namespace Lzma.Gen
def generate (_kind : String) (_seed _n : Nat) : List String := []
end Lzma.Gen
