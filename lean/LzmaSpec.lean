import LzmaSpec.Sym
