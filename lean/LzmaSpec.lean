import LzmaSpec.Sym
import LzmaSpec.Events
