/-
  LzmaModel.Stream — `decode/stream.rs`: `Stream::{new_with_options, write,
  flush, finish, get_output}` with its `Option<State>` (`none` after a failed
  `write`), the 18-byte header staging buffer `tmp` and `RunState`.
-/
import LzmaModel.Lzma
namespace Lzma

def MAX_TMP_LEN : Nat := 18

structure RunState where
  decoder : DState
  range : Nat
  code : Nat
  output : Circ
  deriving Repr, Inhabited

inductive StreamState where
  | header
  | data (rs : RunState)
  deriving Repr, Inhabited

structure Stream where
  /-- `tmp[..position]` -/
  tmp : Bytes := []
  state : Option StreamState := some .header
  options : Options
  deriving Repr, Inhabited

namespace Stream

def newWithOptions (opts : Options) : Stream := { options := opts }

/-- `Stream::read_header`: `ok none` = "need more data, stay in Header" -/
def readHeader (rd : Rd) (opts : Options) : Except Err (Option RunState × Rd) :=
  match Lzma.readHeader rd opts with
  | .ok (params, rd') =>
    match DState.new params.props params.unpackedSize with
    | .error e => .error e
    | .ok decoder =>
      let output := Circ.fromStream params.dictSize (opts.memlimit.getD USIZE_MAX)
      match RC.new rd' with
      | .ok (rc, rd'') =>
        .ok (some { decoder := decoder, range := rc.range, code := rc.code, output := output }, rd'')
      | .error _ => .ok (none, rd')
  | .error .headerTooShort => .ok (none, rd)
  | .error e => .error e

/-- `Stream::read_data` -/
def readData (rs : RunState) (rd : Rd) : M (RunState × Rd) := do
  let (dec, out, rc, rd) ← rs.decoder.processMode .stream rs.output { range := rs.range, code := rs.code } rd
  pure ({ decoder := dec, range := rc.range, code := rc.code, output := out }, rd)

/-- `<Stream as Write>::write`: returns the stream and `Ok(n)`; on `Err` the
state stays `none` (it was `take`n before processing) -/
def write (st : Stream) (data : Bytes) : M (Stream × Nat) :=
  match st.state with
  | none => pure (st, 0)
  | some .header =>
    if st.tmp.length > 0 then
      -- fill the staging buffer, parse the header from it
      let k := min data.length (MAX_TMP_LEN - st.tmp.length)
      let tmp := st.tmp ++ data.take k
      fun snk =>
        match readHeader (Rd.ofBytes tmp) st.options with
        | .error e => (snk, .error e)
        | .ok (some rs, rd') => (snk, .ok ({ st with tmp := rd'.rem, state := some (.data rs) }, k))
        | .ok (none, _) => (snk, .ok ({ st with tmp := tmp, state := some .header }, k))
    else
      fun snk =>
        match readHeader (Rd.ofBytes data) st.options with
        | .error e => (snk, .error e)
        | .ok (some rs, rd') =>
          (snk, .ok ({ st with state := some (.data rs) }, data.length - rd'.rem.length))
        | .ok (none, _) =>
          let k := min data.length MAX_TMP_LEN
          (snk, .ok ({ st with tmp := data.take k, state := some .header }, k))
  | some (.data rs) => do
    let rs ← if st.tmp.length > 0 then do
        let (rs, _) ← readData rs (Rd.ofBytes st.tmp)
        pure rs
      else pure rs
    let (rs, rd) ← readData rs (Rd.ofBytes data)
    pure ({ st with tmp := [], state := some (.data rs) }, data.length - rd.rem.length)

/-- the stream as left behind by a `write` that returned `Err`: the state was
`take`n at the start of `write` and is only put back on success -/
def failed (st : Stream) : Stream := { st with state := none }

/-- `write` as a state transition of the `Stream` object: the stream after the
call (also when the call fails) and the call's result -/
def writeS (st : Stream) (data : Bytes) (snk : Sink) : Sink × Stream × Except Err Nat :=
  match st.write data snk with
  | (snk', .ok (st', n)) => (snk', st', .ok n)
  | (snk', .error e) => (snk', st.failed, .error e)

/-- the feeding loop of a caller that re-submits what a `write` did not accept
(like `write_all`, except that `Ok(0)` just ends the feeding): returns the
number of bytes accepted in total -/
def feed : Nat → Stream → Bytes → Nat → Sink → Sink × Stream × Except Err Nat
  | 0, st, _, acc, snk => (snk, st, .ok acc)
  | fuel+1, st, data, acc, snk =>
    if data.isEmpty then (snk, st, .ok acc)
    else
      match st.writeS data snk with
      | (snk', st', .error e) => (snk', st', .error e)
      | (snk', st', .ok n) =>
        if n = 0 then (snk', st', .ok acc)
        else feed fuel st' (data.drop n) (acc + n) snk'

/-- `Write::write_all` as std defines it for a type that does not override it (lzma-rs does not):
`write` is repeated on what is left; `Ok(0)` while something is left is the error `WriteZero` -/
def writeAll (st : Stream) (data : Bytes) (snk : Sink) : Sink × Stream × Except Err Unit :=
  match feed (data.length + 1) st data 0 snk with
  | (snk', st', .ok n) => (snk', st', if n = data.length then .ok () else .error .io)
  | (snk', st', .error e) => (snk', st', .error e)

/-- `<Stream as Write>::flush` -/
def flush (st : Stream) : M Unit :=
  match st.state with
  | some (.data _) => flushSink
  | _ => pure ()

/-- `Stream::finish` -/
def finish (st : Stream) : M Unit :=
  match st.state with
  | none => throwM .lzma
  | some .header => if st.tmp.length > 0 then throwM .lzma else pure ()
  | some (.data rs) => do
    let out ← if !st.options.allowIncomplete then do
        let (_, out, _, _) ← rs.decoder.processMode .finish rs.output
          { range := rs.range, code := rs.code } (Rd.ofBytes st.tmp)
        pure out
      else pure rs.output
    out.finish

end Stream
end Lzma
