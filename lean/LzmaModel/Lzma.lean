/-
  LzmaModel.Lzma — `decode/options.rs`, `LzmaParams::read_header`,
  `LzmaDecoder::{new, reset, decompress}` and `lib.rs::lzma_decompress_with_options`.
-/
import LzmaModel.Decoder
namespace Lzma

/-- `decompress::UnpackedSize` -/
inductive UnpackedSizeOpt where
  | readFromHeader
  | readHeaderButUseProvided (x : Option Nat)
  | useProvided (x : Option Nat)
  deriving Repr, DecidableEq, Inhabited

/-- `decompress::Options` -/
structure Options where
  unpackedSize : UnpackedSizeOpt := .readFromHeader
  memlimit : Option Nat := none
  allowIncomplete : Bool := false
  deriving Repr, DecidableEq, Inhabited

def USIZE_MAX : Nat := U64 - 1

structure LzmaParams where
  props : Props
  dictSize : Nat
  unpackedSize : Option Nat
  deriving Repr, DecidableEq, Inhabited

/-- map the I/O error of a header read to `HeaderTooShort` -/
def hdrErr : Except Err α → Except Err α
  | .ok a => .ok a
  | .error _ => .error .headerTooShort

/-- `LzmaParams::read_header` -/
def readHeader (rd : Rd) (opts : Options) : Except Err (LzmaParams × Rd) := do
  let (props, rd) ← hdrErr rd.readU8
  let pb := props.toNat
  if pb ≥ 225 then throw .lzma
  let lc := pb % 9
  let pb := pb / 9
  let lp := pb % 5
  let pb := pb / 5
  let (dictProvided, rd) ← hdrErr rd.readU32LE
  let dictSize := if dictProvided < 0x1000 then 0x1000 else dictProvided
  let (unpackedSize, rd) ← match opts.unpackedSize with
    | .readFromHeader => do
      let (u, rd) ← hdrErr rd.readU64LE
      pure (if u = 0xFFFFFFFFFFFFFFFF then none else some u, rd)
    | .readHeaderButUseProvided x => do
      let (_, rd) ← hdrErr rd.readU64LE
      pure (x, rd)
    | .useProvided x => pure (x, rd)
  pure ({ props := { lc := lc, lp := lp, pb := pb }, dictSize := dictSize, unpackedSize := unpackedSize }, rd)

/-- raw `LzmaDecoder` -/
structure LzmaDecoder where
  params : LzmaParams
  memlimit : Nat
  state : DState
  deriving Repr, Inhabited

namespace LzmaDecoder

/-- `LzmaDecoder::new` (with the `fix:` that rejects a zero dictionary size) -/
def new (params : LzmaParams) (memlimit : Option Nat) : Except Err LzmaDecoder := do
  if params.dictSize = 0 then throw .lzma
  let st ← DState.new params.props params.unpackedSize
  pure { params := params, memlimit := memlimit.getD USIZE_MAX, state := st }

/-- `LzmaDecoder::reset` -/
def reset (d : LzmaDecoder) (unpackedSize : Option (Option Nat)) : Except Err LzmaDecoder := do
  let st ← d.state.resetState d.params.props
  let st := match unpackedSize with
    | some u => st.setUnpackedSize u
    | none => st
  pure { d with state := st }

/-- `LzmaDecoder::decompress` -/
def decompress (d : LzmaDecoder) (rd : Rd) : M (LzmaDecoder × Rd) := do
  let w := Circ.fromStream d.params.dictSize d.memlimit
  let (rc, rd) ← liftE (match RC.new rd with
    | .ok x => .ok x
    | .error _ => .error .lzma)
  let (st, w, _, rd) ← d.state.processMode .finish w rc rd
  w.finish
  pure ({ d with state := st }, rd)

end LzmaDecoder

/-- `lzma_decompress_with_options`; returns the reader so that the number of
bytes consumed is observable -/
def lzmaDecompress (rd : Rd) (opts : Options) : M Rd := do
  let (params, rd) ← liftE (readHeader rd opts)
  let dec ← liftE (LzmaDecoder.new params opts.memlimit)
  let (_, rd) ← dec.decompress rd
  pure rd

end Lzma
