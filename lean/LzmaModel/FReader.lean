/-
  LzmaModel.FReader — a FRAGMENTED input reader (property C13).

  `Rd` (LzmaModel/Reader.lean) is the flat reader: one `fill_buf` exposes all
  remaining bytes.  A real `BufRead` (a `BufReader` with a small capacity, a
  network source, …) exposes its data in arbitrary non-empty pieces.  `FRd`
  models exactly that: the list of pieces still to be delivered.  Every
  primitive below is written from the documented behaviour of Rust's std
  `BufRead`/`Read` default methods on top of `fill_buf`/`consume`:

  * `fill_buf`   exposes the current piece (never crosses a piece boundary);
                 at a piece boundary it exposes the next piece; after the last
                 piece it returns the empty slice (EOF) or, for `bad`, an I/O error;
  * `consume n`  advances inside the exposed piece (`n ≤` exposed length);
  * `read(buf)`  = `fill_buf`, copy `min(buf.len(), piece.len())` bytes, `consume` them
                 (`impl Read for BufReader`/`&[u8]`; returns 0 only at EOF or for an empty `buf`);
  * `read_exact` = `default_read_exact`: loop of `read` until the buffer is filled,
                 `UnexpectedEof` when a `read` returns 0 early;
  * `read_u8/u16/u32/u64` (crate byteorder) = `read_exact` into a zeroed array of 1/2/4/8 bytes;
  * `io::Take`   limits what `fill_buf`/`read` expose to the remaining budget.

  and lzma-rs's own helpers of `decode/util.rs` are transcribed on top of them.
  Core Lean only.
-/
import LzmaModel.Reader
import LzmaModel.RangeDec
import LzmaModel.Xz
namespace Lzma

structure FRd where
  /-- the pieces still to be delivered, in order; the first one is what `fill_buf` currently exposes -/
  frags : List Bytes
  /-- like `Rd.bad`: after the last piece, reading yields an I/O error instead of EOF -/
  bad : Bool := false
  deriving Repr, Inhabited, DecidableEq

namespace FRd

/-- well-formedness: no empty piece (`fill_buf` returns an empty slice only at EOF) -/
def WF (r : FRd) : Prop := ∀ f ∈ r.frags, f ≠ []

instance (r : FRd) : Decidable r.WF := by unfold WF; infer_instance

/-- a well-formed reader from arbitrary pieces (empty ones are dropped) -/
def ofFrags (fs : List Bytes) (bad : Bool := false) : FRd :=
  { frags := fs.filter (fun f => !f.isEmpty), bad := bad }

/-- the logical content: all remaining bytes -/
def join (r : FRd) : Bytes := r.frags.flatten

/-- the flat reader over the same remaining bytes -/
def toRd (r : FRd) : Rd := { rem := r.join, bad := r.bad }

/-- error produced when data is demanded beyond the end -/
@[inline] def endErr (r : FRd) : Err := if r.bad then .io else .eof

/-! ## `BufRead` -/

/-- `fill_buf`: the currently exposed piece (the reader itself is unchanged) -/
def fillBuf (r : FRd) : Except Err Bytes :=
  match r.frags with
  | f :: _ => .ok f
  | [] => if r.bad then .error .io else .ok []

/-- `consume n` (`n ≤` length of the exposed piece; like `BufReader::consume` it
saturates beyond).  When the piece is used up the next `fill_buf` exposes the
next piece. -/
def consume (r : FRd) (n : Nat) : FRd :=
  match r.frags with
  | [] => r
  | f :: rest =>
    if n < f.length then { r with frags := f.drop n :: rest } else { r with frags := rest }

/-! ## `Read` -/

/-- `read(buf)` with `buf.len() = cap`: copies from ONE `fill_buf`; a single
call never crosses a piece boundary. -/
def read (r : FRd) (cap : Nat) : Except Err (Bytes × FRd) :=
  match r.fillBuf with
  | .error e => .error e
  | .ok piece =>
    let bs := piece.take cap
    .ok (bs, r.consume bs.length)

/-- `read_exact` of `n` bytes (`std::io::default_read_exact`) -/
def readExact (r : FRd) (n : Nat) : Except Err (Bytes × FRd) :=
  if n = 0 then .ok ([], r)
  else
    match r.read n with
    | .error e => .error e
    | .ok (bs, r') =>
      if _h : bs.isEmpty then .error .eof         -- `Ok(0)` ⇒ `UnexpectedEof`
      else
        match readExact r' (n - bs.length) with
        | .error e => .error e
        | .ok (cs, r'') => .ok (bs ++ cs, r'')
termination_by n
decreasing_by
  cases bs with
  | nil => simp at *
  | cons b t => simp; omega

/-- byteorder `read_u8`: `let mut buf = [0; 1]; read_exact(&mut buf)?; buf[0]` -/
def readU8 (r : FRd) : Except Err (UInt8 × FRd) := do
  let (bs, r) ← r.readExact 1; pure (bs.headD 0, r)

def readU16BE (r : FRd) : Except Err (Nat × FRd) := do
  let (bs, r) ← r.readExact 2; pure (beVal bs, r)
def readU32BE (r : FRd) : Except Err (Nat × FRd) := do
  let (bs, r) ← r.readExact 4; pure (beVal bs, r)
def readU32LE (r : FRd) : Except Err (Nat × FRd) := do
  let (bs, r) ← r.readExact 4; pure (leVal bs, r)
def readU64LE (r : FRd) : Except Err (Nat × FRd) := do
  let (bs, r) ← r.readExact 8; pure (leVal bs, r)

/-! ## `decode/util.rs` -/

/-- `util::is_eof`: `fill_buf()?.is_empty()` -/
def isEof (r : FRd) : Except Err Bool := do
  let buf ← r.fillBuf; pure buf.isEmpty

/-- `util::read_tag` -/
def readTag (r : FRd) (tag : Bytes) : Except Err (Bool × FRd) := do
  let (bs, r) ← r.readExact tag.length
  pure (bs == tag, r)

theorem consume_frags_length_lt {r : FRd} {piece : Bytes}
    (hf : r.fillBuf = .ok piece) (hne : ¬ piece.isEmpty) :
    (r.consume piece.length).frags.length < r.frags.length := by
  cases r with
  | mk frags bad =>
    cases frags with
    | nil =>
      simp only [fillBuf] at hf
      split at hf
      · cases hf
      · cases hf; simp at hne
    | cons f rest =>
      simp only [fillBuf] at hf
      cases hf
      simp [consume]

/-- `util::flush_zero_padding`: the refill LOOP — `fill_buf`; empty ⇒ `true`;
a non-zero byte in the exposed piece ⇒ `false` WITHOUT consuming; otherwise
consume the whole piece and loop. -/
def flushZeroPadding (r : FRd) : Except Err (Bool × FRd) :=
  match _hf : r.fillBuf with
  | .error e => .error e
  | .ok piece =>
    if _hne : piece.isEmpty then .ok (true, r)
    else if piece.all (· == 0) then flushZeroPadding (r.consume piece.length)
    else .ok (false, r)
termination_by r.frags.length
decreasing_by exact consume_frags_length_lt (by assumption) (by assumption)

/-! ## `io::Take` as a split of the fragment list -/

/-- split a fragment list at byte offset `n` (a piece straddling the offset is cut) -/
def splitFrags : List Bytes → Nat → List Bytes × List Bytes
  | [], _ => ([], [])
  | f :: rest, n =>
    if n = 0 then ([], f :: rest)
    else if f.length ≤ n then
      let (a, b) := splitFrags rest (n - f.length)
      (f :: a, b)
    else ([f.take n], f.drop n :: rest)

/-- `Read::take(n)`: the sub-reader (what `Take`'s `fill_buf`/`read` expose: the
underlying pieces, cut at the remaining budget) and the pieces beyond the
limit.  As for `Rd.split`, the sub-reader reports plain EOF at the limit and
inherits the fault only when the underlying data ends before the limit. -/
def take (r : FRd) (n : Nat) : FRd × List Bytes :=
  let (a, b) := splitFrags r.frags n
  ({ frags := a, bad := r.bad && decide (r.join.length < n) }, b)

/-- give the unread part of a `take` back to the underlying reader -/
def unsplit (r : FRd) (inner : FRd) (rest : List Bytes) : FRd :=
  { r with frags := inner.frags ++ rest }

/-! ### `io::Take` itself (std: `impl BufRead for Take<T>` / `impl Read for Take<T>`)

`takeView` ties the two: a `Take` behaves exactly like the sub-reader of `take`. -/

structure FTake where
  inner : FRd
  limit : Nat
  deriving Repr, Inhabited, DecidableEq

namespace FTake
/-- `Take::fill_buf`: `if limit == 0 { return Ok(&[]) }; let buf = inner.fill_buf()?;
&buf[..min(buf.len(), limit)]` -/
def fillBuf (t : FTake) : Except Err Bytes :=
  if t.limit = 0 then .ok []
  else match t.inner.fillBuf with
    | .error e => .error e
    | .ok buf => .ok (buf.take t.limit)

/-- `Take::consume`: `let amt = min(amt, limit); limit -= amt; inner.consume(amt)` -/
def consume (t : FTake) (n : Nat) : FTake :=
  let amt := min n t.limit
  { inner := t.inner.consume amt, limit := t.limit - amt }

/-- `Take::read`: `if limit == 0 { return Ok(0) }; let max = min(buf.len(), limit);
let n = inner.read(&mut buf[..max])?; limit -= n` -/
def read (t : FTake) (cap : Nat) : Except Err (Bytes × FTake) :=
  if t.limit = 0 then .ok ([], t)
  else match t.inner.read (min cap t.limit) with
    | .error e => .error e
    | .ok (bs, r) => .ok (bs, { inner := r, limit := t.limit - bs.length })

/-- the `FRd` a `Take` is indistinguishable from -/
def view (t : FTake) : FRd := (t.inner.take t.limit).1
end FTake

/-! ## `BufReader` read-ahead (finding K2) -/

/-- `BufReader::fill_buf` on an empty buffer: ONE underlying `read` of up to
`cap` bytes — it gets at most the current piece.  Returns the new buffer
contents and the underlying reader. -/
def bufFill (r : FRd) (cap : Nat) : Except Err (Bytes × FRd) := r.read cap

/-- The first step of `read_block`'s header parse as seen from the caller's
reader: `BufReader::new(CrcDigestRead(Take(header_size)))`, then `read_u8` of
the flags through the `BufReader` (one refill of capacity 8192), then the
reserved-bits check.  Returns whether the check fails (⇒ `read_block_header`
returns an error at once, abandoning the `BufReader`) together with the
caller's reader at that moment. -/
def k2Probe (r : FRd) (headerSize : Nat) : Except Err (Bool × FRd) :=
  let (t, rest) := r.take headerSize
  match t.bufFill 8192 with
  | .error e => .error e
  | .ok (buf, t') =>
    match buf with
    | [] => .error .eof
    | flags :: _ => .ok (decide (flags.toNat &&& 0x3C ≠ 0), r.unsplit t' rest)

/-! ## decoder code over the fragmented reader (same recursion as in `Xz.lean`) -/

/-- `get_multibyte` over `FRd.readU8` -/
def getMultibyteAux : Nat → Nat → Nat → Bytes → FRd → Except Err (Nat × Bytes × FRd)
  | 0, _, _, _, _ => throw .xz
  | fuel+1, i, result, acc, rd => do
    let (byte, rd) ← rd.readU8
    let result := result ^^^ ((byte.toNat &&& 0x7F) <<< (i * 7))
    if byte.toNat &&& 0x80 = 0 then pure (result, acc ++ [byte], rd)
    else getMultibyteAux fuel (i + 1) result (acc ++ [byte]) rd

def getMultibyte (rd : FRd) : Except Err (Nat × Bytes × FRd) := getMultibyteAux 9 0 0 [] rd

end FRd

/-! ## The range decoder over an abstract byte source

The functions of `RangeDec.lean` use their reader only through `read_u8` and
`read_u32::<BigEndian>` (and `is_eof`).  Written once over this interface, the
instance at `Rd` IS the model's function (`…_Rd` lemmas in the proofs) and the
instance at `FRd` is the same code on a fragmented reader. -/

class ByteSrc (ρ : Type) where
  readU8 : ρ → Except Err (UInt8 × ρ)
  readU32BE : ρ → Except Err (Nat × ρ)
  isEof : ρ → Except Err Bool

instance : ByteSrc Rd := ⟨Rd.readU8, Rd.readU32BE, Rd.isEof⟩
instance : ByteSrc FRd := ⟨FRd.readU8, FRd.readU32BE, FRd.isEof⟩

namespace RC

def newG [ByteSrc ρ] (rd : ρ) : Except Err (RC × ρ) := do
  let (_, rd) ← ByteSrc.readU8 rd
  let (code, rd) ← ByteSrc.readU32BE rd
  pure ({ range := 0xFFFFFFFF, code := code }, rd)

def normalizeG [ByteSrc ρ] (rc : RC) (rd : ρ) : Except Err (RC × ρ) :=
  if rc.range < 0x01000000 then do
    let (b, rd) ← ByteSrc.readU8 rd
    pure ({ range := shlU32 rc.range 8, code := (shlU32 rc.code 8) ^^^ b.toNat }, rd)
  else pure (rc, rd)

def getBitG [ByteSrc ρ] (rc : RC) (rd : ρ) : Except Err (Bool × RC × ρ) := do
  let range := rc.range >>> 1
  let bit := decide (rc.code ≥ range)
  let code := if bit then rc.code - range else rc.code
  let (rc, rd) ← RC.normalizeG { range := range, code := code } rd
  pure (bit, rc, rd)

def decodeBitG [ByteSrc ρ] (update : Bool) (p : Nat) (rc : RC) (rd : ρ) :
    Except Err (Bool × Nat × RC × ρ) := do
  let bound ← mulChk U32 "decode_bit: bound overflow" (rc.range >>> 11) p
  if rc.code < bound then do
    let p' ← if update then do
        let d ← subChk "decode_bit: 0x800 - prob" 0x800 p
        addChk U16 "decode_bit: prob += overflow" p (d >>> 5)
      else pure p
    let (rc, rd) ← RC.normalizeG { range := bound, code := rc.code } rd
    pure (false, p', rc, rd)
  else do
    let p' := if update then p - (p >>> 5) else p
    let code ← subChk "decode_bit: code -= bound" rc.code bound
    let range ← subChk "decode_bit: range -= bound" rc.range bound
    let (rc, rd) ← RC.normalizeG { range := range, code := code } rd
    pure (true, p', rc, rd)

def isFinishedOkG [ByteSrc ρ] (rc : RC) (rd : ρ) : Except Err Bool :=
  if rc.code == 0 then ByteSrc.isEof rd else pure false

end RC

/-- `runDec` over an abstract byte source (same recursion) -/
def runDecG [ProbStore σ ι] [ByteSrc ρ] (update : Bool) :
    Coder ι α → σ → RC → ρ → Except Err (α × σ × RC × ρ)
  | .ret a, s, rc, rd => .ok (a, s, rc, rd)
  | .fail e, _, _, _ => .error e
  | .bit i k, s, rc, rd =>
    match ProbStore.get s i with
    | .error e => .error e
    | .ok p =>
      match RC.decodeBitG update p rc rd with
      | .error e => .error e
      | .ok (b, p', rc, rd) =>
        runDecG update (k b) (if update then ProbStore.set s i p' else s) rc rd
  | .direct k, s, rc, rd =>
    match RC.getBitG rc rd with
    | .error e => .error e
    | .ok (b, rc, rd) => runDecG update (k b) s rc rd

/-- the range-decoder interpreter on a fragmented reader -/
def runDecF [ProbStore σ ι] (update : Bool) (c : Coder ι α) (s : σ) (rc : RC) (rd : FRd) :
    Except Err (α × σ × RC × FRd) :=
  runDecG update c s rc rd

end Lzma
