/-
  LzmaModel.Lzma2 — `decode/lzma2.rs` (`Lzma2Decoder::{new, reset, decompress,
  parse_lzma, parse_uncompressed}`) and `lib.rs::lzma2_decompress`.
-/
import LzmaModel.Lzma
namespace Lzma

structure Lzma2Decoder where
  lzmaState : DState
  deriving Repr, Inhabited

/-- turn any I/O error of a framing read into the `LzmaError` the code maps it to -/
def lzErr : Except Err α → Except Err α
  | .ok a => .ok a
  | .error _ => .error .lzma

namespace Lzma2Decoder

def zeroProps : Props := { lc := 0, lp := 0, pb := 0 }

def new : Except Err Lzma2Decoder := do
  let st ← DState.new zeroProps none
  pure { lzmaState := st }

def reset (d : Lzma2Decoder) : Except Err Lzma2Decoder := do
  let st ← d.lzmaState.resetState zeroProps
  pure { lzmaState := st }

/-- `parse_uncompressed` -/
def parseUncompressed (accum : Accum) (rd : Rd) (resetDict : Bool) : M (Accum × Rd) := do
  let (u, rd) ← liftE (lzErr rd.readU16BE)
  let unpackedSize := u + 1
  let accum ← if resetDict then accum.reset else pure accum
  let (buf, rd) ← liftE (lzErr (rd.readExact unpackedSize))
  pure (accum.appendBytes buf, rd)

/-- `parse_lzma` (with the `fix:` that validates the end of the chunk) -/
def parseLzma (d : Lzma2Decoder) (accum : Accum) (rd : Rd) (status : Nat) :
    M (Lzma2Decoder × Accum × Rd) := do
  if status &&& 0x80 = 0 then throwM .lzma
  let cls := (status >>> 5) &&& 0x3
  let resetDict := cls = 3
  let resetState := cls ≥ 1
  let resetProps := cls ≥ 2
  let (u, rd) ← liftE (lzErr rd.readU16BE)
  let unpackedSize := (((status &&& 0x1F) <<< 16) ||| u) + 1
  let (p, rd) ← liftE (lzErr rd.readU16BE)
  let packedSize := p + 1
  let accum ← if resetDict then accum.reset else pure accum
  let (st, rd) ← if resetState then do
      let (newProps, rd) ← if resetProps then do
          let (props, rd) ← liftE (lzErr rd.readU8)
          let pb := props.toNat
          if pb ≥ 225 then throwM .lzma
          let lc := pb % 9
          let pb := pb / 9
          let lp := pb % 5
          let pb := pb / 5
          if lc + lp > 4 then throwM .lzma
          pure (({ lc := lc, lp := lp, pb := pb } : Props), rd)
        else pure (d.lzmaState.props, rd)
      let st ← liftE (d.lzmaState.resetState newProps)
      pure (st, rd)
    else pure (d.lzmaState, rd)
  let st := st.setUnpackedSize (some (unpackedSize + accum.len))
  let (taken, rest) := rd.split packedSize
  let (rc, taken) ← liftE (lzErr (RC.new taken))
  let (st, accum, rc, taken) ← st.processMode .finish accum rc taken
  let fin ← liftE (rc.isFinishedOk taken)
  if !fin then throwM .lzma
  pure ({ lzmaState := st }, accum, rd.unsplit taken rest)

/-- the chunk loop of `decompress`; fuel = number of control bytes that can still follow -/
def chunkLoop : Nat → Lzma2Decoder → Accum → Rd → M (Lzma2Decoder × Accum × Rd)
  | 0, _, _, _ => throwM .fuel
  | fuel+1, d, accum, rd => do
    let (status, rd) ← liftE (lzErr rd.readU8)
    let status := status.toNat
    if status = 0 then pure (d, accum, rd)
    else if status = 1 then do
      let (accum, rd) ← parseUncompressed accum rd true
      chunkLoop fuel d accum rd
    else if status = 2 then do
      let (accum, rd) ← parseUncompressed accum rd false
      chunkLoop fuel d accum rd
    else do
      let (d, accum, rd) ← d.parseLzma accum rd status
      chunkLoop fuel d accum rd

/-- `Lzma2Decoder::decompress` -/
def decompress (d : Lzma2Decoder) (rd : Rd) : M (Lzma2Decoder × Rd) := do
  let accum := Accum.fromStream USIZE_MAX
  let (d, accum, rd) ← chunkLoop (rd.rem.length + 1) d accum rd
  accum.finish
  pure (d, rd)

end Lzma2Decoder

/-- `lzma2_decompress` -/
def lzma2Decompress (rd : Rd) : M Rd := do
  let d ← liftE Lzma2Decoder.new
  let (_, rd) ← d.decompress rd
  pure rd

end Lzma
