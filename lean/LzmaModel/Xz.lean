/-
  LzmaModel.Xz — `decode/xz.rs`, `xz/{mod,header,footer}.rs`.

  `CountBufRead` is modelled by differences of remaining lengths, the
  `CrcDigestRead` wrappers by computing the CRC of exactly the bytes read
  through them.  The block header goes through
  `BufReader(CrcDigestRead(Take(header_size)))`: on a flat reader the first
  refill digests all `min(header_size, available)` bytes, and a successful parse
  has consumed all of them (`flush_zero_padding` drains the `Take`).
-/
import LzmaModel.Lzma2
import LzmaModel.Crc
namespace Lzma

inductive CheckMethod where
  | none
  | crc32
  | crc64
  | sha256
  deriving Repr, DecidableEq, Inhabited

def CheckMethod.tryFrom (id : Nat) : Except Err CheckMethod :=
  if id = 0x00 then pure .none
  else if id = 0x01 then pure .crc32
  else if id = 0x04 then pure .crc64
  else if id = 0x0A then pure .sha256
  else throw .xz

def CheckMethod.id : CheckMethod → Nat
  | .none => 0x00 | .crc32 => 0x01 | .crc64 => 0x04 | .sha256 => 0x0A

/-- `StreamFlags::parse` on the big-endian 16-bit field -/
def parseStreamFlags (field : Nat) : Except Err CheckMethod :=
  if field >>> 8 ≠ 0 then throw .xz else CheckMethod.tryFrom (field &&& 0xFF)

def XZ_MAGIC : Bytes := [0xFD, 0x37, 0x7A, 0x58, 0x5A, 0x00]
def XZ_MAGIC_FOOTER : Bytes := [0x59, 0x5A]

/-- `StreamHeader::parse` -/
def parseStreamHeader (rd : Rd) : Except Err (CheckMethod × Rd) := do
  let (ok, rd) ← rd.readTag XZ_MAGIC
  if !ok then throw .xz
  let (flagBytes, rd) ← rd.readExact 2
  let (crc, rd) ← rd.readU32LE
  if crc ≠ crc32 flagBytes then throw .xz
  let check ← parseStreamFlags (beVal flagBytes)
  pure (check, rd)

/-- `get_multibyte`; also returns the bytes read (for the digests) -/
def getMultibyteAux : Nat → Nat → Nat → Bytes → Rd → Except Err (Nat × Bytes × Rd)
  | 0, _, _, _, _ => throw .xz
  | fuel+1, i, result, acc, rd => do
    let (byte, rd) ← rd.readU8
    let result := result ^^^ ((byte.toNat &&& 0x7F) <<< (i * 7))
    if byte.toNat &&& 0x80 = 0 then pure (result, acc ++ [byte], rd)
    else getMultibyteAux fuel (i + 1) result (acc ++ [byte]) rd

def getMultibyte (rd : Rd) : Except Err (Nat × Bytes × Rd) := getMultibyteAux 9 0 0 [] rd

structure Record where
  unpaddedSize : Nat
  unpackedSize : Nat
  deriving Repr, DecidableEq, Inhabited

/-- the padding computation used for blocks and the index -/
def paddingSize (count : Nat) : Nat := ((count ^^^ 0x03) + 1) &&& 0x03

def readZeroBytes : Nat → Bytes → Rd → Except Err (Bytes × Rd)
  | 0, acc, rd => pure (acc, rd)
  | n+1, acc, rd => do
    let (b, rd) ← rd.readU8
    if b ≠ 0 then throw .xz
    readZeroBytes n (acc ++ [b]) rd

/-- the per-record loop of `check_index` -/
def checkRecords : List Record → Bytes → Rd → Except Err (Bytes × Rd)
  | [], dig, rd => pure (dig, rd)
  | r :: rs, dig, rd => do
    let (unpadded, b1, rd) ← getMultibyte rd
    if unpadded ≠ r.unpaddedSize then throw .xz
    let (unpacked, b2, rd) ← getMultibyte rd
    if unpacked ≠ r.unpackedSize then throw .xz
    checkRecords rs (dig ++ b1 ++ b2) rd

/-- `check_index`; `start` = remaining length when the `CountBufRead` was created
(i.e. before the index indicator byte) -/
def checkIndex (start : Nat) (records : List Record) (rd : Rd) : Except Err Rd := do
  let dig : Bytes := [0]
  let (numRecords, b, rd) ← getMultibyte rd
  if numRecords ≠ records.length then throw .xz
  let (dig, rd) ← checkRecords records (dig ++ b) rd
  let count := start - rd.rem.length
  let (pad, rd) ← readZeroBytes (paddingSize count) [] rd
  let dig := dig ++ pad
  let (crc, rd) ← rd.readU32LE
  if crc ≠ crc32 dig then throw .xz
  pure rd

structure Filter where
  props : Bytes
  deriving Repr, Inhabited

structure BlockHeader where
  filters : List Filter
  packedSize : Option Nat
  unpackedSize : Option Nat
  deriving Repr, Inhabited

def readFilters : Nat → Nat → List Filter → Rd → Except Err (List Filter × Rd)
  | 0, _, acc, rd => pure (acc, rd)
  | n+1, headerSize, acc, rd => do
    let (id, _, rd) ← getMultibyte rd
    if id ≠ 0x21 then throw .xz
    let (sizeOfProps, _, rd) ← getMultibyte rd
    if sizeOfProps > headerSize then throw .xz
    let (buf, rd) ← match rd.readExact sizeOfProps with
      | .ok x => pure x
      | .error _ => throw .xz
    readFilters n headerSize (acc ++ [{ props := buf }]) rd

/-- `read_block_header` on the `Take`n header bytes -/
def readBlockHeader (rd : Rd) (headerSize : Nat) : Except Err (BlockHeader × Rd) := do
  let (flags, rd) ← rd.readU8
  let flags := flags.toNat
  let numFilters := (flags &&& 0x03) + 1
  if flags &&& 0x3C ≠ 0 then throw .xz
  let (packedSize, rd) ← if flags &&& 0x40 ≠ 0 then do
      let (v, _, rd) ← getMultibyte rd
      pure (some v, rd)
    else pure (none, rd)
  let (unpackedSize, rd) ← if flags &&& 0x80 ≠ 0 then do
      let (v, _, rd) ← getMultibyte rd
      pure (some v, rd)
    else pure (none, rd)
  let (filters, rd) ← readFilters numFilters headerSize [] rd
  let (ok, rd) ← rd.flushZeroPadding
  if !ok then throw .xz
  pure ({ filters := filters, packedSize := packedSize, unpackedSize := unpackedSize }, rd)

/-- `decode_filter`: LZMA2-decode `rd` into a fresh `Vec` -/
def decodeFilter (rd : Rd) (f : Filter) : Except Err (Bytes × Rd) := do
  if f.props.length ≠ 1 then throw .xz
  let d ← Lzma2Decoder.new
  match d.decompress rd {} with
  | (snk, .ok (_, rd)) => pure (snk.out.toList, rd)
  | (_, .error e) => throw e

/-- filters after the first decode the previous output held in memory -/
def laterFilters : List Filter → Bytes → Except Err Bytes
  | [], buf => pure buf
  | f :: fs, buf => do
    let (newbuf, _) ← decodeFilter (Rd.ofBytes buf) f
    laterFilters fs newbuf

/-- `validate_block_check` -/
def validateBlockCheck (rd : Rd) (buf : Bytes) : CheckMethod → Except Err Rd
  | .none => pure rd
  | .crc32 => do
    let (crc, rd) ← rd.readU32LE
    if crc ≠ crc32 buf then throw .xz
    pure rd
  | .crc64 => do
    let (crc, rd) ← rd.readU64LE
    if crc ≠ crc64 buf then throw .xz
    pure rd
  | .sha256 => throw .xz

/-- `read_block`; `start` = remaining length before the header-size byte -/
def readBlock (start : Nat) (rd : Rd) (check : CheckMethod) (hsByte : UInt8) :
    M (Record × Rd) := do
  let headerSize ← liftE (subChk "read_block: (header_size << 2) - 1" (hsByte.toNat <<< 2) 1)
  let (hdrRd, rest) := rd.split headerSize
  let hdrBytes := hdrRd.rem
  let (bh, hdrRd) ← liftE (readBlockHeader hdrRd headerSize)
  let rd := rd.unsplit hdrRd rest
  let (crc, rd) ← liftE rd.readU32LE
  if crc ≠ crc32 (hsByte :: hdrBytes) then throwM .xz
  let tmpbuf ← liftE (match bh.filters with
    | [] => pure ([], rd)      -- unreachable: num_filters ≥ 1
    | f :: fs => do
      let before := rd.rem.length
      let (buf, rd) ← decodeFilter rd f
      let packed := before - rd.rem.length
      match bh.packedSize with
      | some e => if packed ≠ e then throw .xz
      | none => pure ()
      let buf ← laterFilters fs buf
      pure (buf, rd))
  let (tmpbuf, rd) := tmpbuf
  let unpackedSize := tmpbuf.length
  match bh.unpackedSize with
  | some e => if unpackedSize ≠ e then throwM .xz
  | none => pure ()
  let count := start - rd.rem.length
  let padding := paddingSize count
  let (_, rd) ← liftE (readZeroBytes padding [] rd)
  let rd ← liftE (validateBlockCheck rd tmpbuf check)
  writeAll tmpbuf.toArray
  let unpadded ← liftE (subChk "read_block: count - padding_size" (start - rd.rem.length) padding)
  pure ({ unpaddedSize := unpadded, unpackedSize := unpackedSize }, rd)

/-- the block loop of `decode_stream`; returns the index size -/
def blockLoop (check : CheckMethod) : Nat → List Record → Rd → M (Nat × Rd)
  | 0, _, _ => throwM .fuel
  | fuel+1, records, rd => do
    let start := rd.rem.length
    let (hs, rd) ← liftE rd.readU8
    if hs = 0 then do
      let rd ← liftE (checkIndex start records rd)
      pure (start - rd.rem.length, rd)
    else do
      let (rec, rd) ← readBlock start rd check hs
      blockLoop check fuel (records ++ [rec]) rd

/-- `decode_stream` (= `xz_decompress`), with the `fix:`es for the backward size
(64-bit comparison) and the early SHA-256 refusal -/
def xzDecompress (rd : Rd) : M Rd := do
  let (check, rd) ← liftE (parseStreamHeader rd)
  if check = .sha256 then throwM .xz
  let (indexSize, rd) ← blockLoop check (rd.rem.length + 1) [] rd
  let (crc, rd) ← liftE rd.readU32LE
  let (bsBytes, rd) ← liftE (rd.readExact 4)
  let backwardSize := leVal bsBytes
  if indexSize ≠ (backwardSize + 1) <<< 2 then throwM .xz
  let (flagBytes, rd) ← liftE (rd.readExact 2)
  let flags ← liftE (parseStreamFlags (beVal flagBytes))
  if check ≠ flags then throwM .xz
  if crc ≠ crc32 (bsBytes ++ flagBytes) then throwM .xz
  let (ok, rd) ← liftE (rd.readTag XZ_MAGIC_FOOTER)
  if !ok then throwM .xz
  let eof ← liftE rd.isEof
  if !eof then throwM .xz
  pure rd

end Lzma
