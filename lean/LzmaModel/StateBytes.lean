/-
  The byte layout of `DecoderState::verif_state_bytes` (the state hook in
  /repo/src/decode/lzma.rs, behind `--cfg lzma_rs_verif`) and its inverse.

  `DState.ofBytes` reads the real decoder's state back into the model, so that after a
  FAILED `decompress` (where the model's error path returns no object) the model can go
  on from the object the Rust call really left behind; `DState.checkInv` is the
  executable form of the safety invariant `Safety.DStateInv` (soundness:
  `LzmaProofs/Props/C07State.lean`), evaluated on that object.
-/
import LzmaModel.Decoder
namespace Lzma

/-- `n` little-endian `u16` values -/
def takeU16 : Nat → Bytes → Array Nat → Option (Array Nat × Bytes)
  | 0, bs, acc => some (acc, bs)
  | n+1, a :: b :: bs, acc => takeU16 n bs (acc.push (a.toNat + 256 * b.toNat))
  | _+1, _, _ => none

def u16Bytes (a : Array Nat) : Bytes :=
  a.toList.flatMap (fun v => [UInt8.ofNat (v % 256), UInt8.ofNat (v / 256)])

def LenProbs.toBytes (l : LenProbs) : Bytes :=
  u16Bytes #[l.choice, l.choice2] ++ u16Bytes l.low ++ u16Bytes l.mid ++ u16Bytes l.high

def LenProbs.ofBytes (bs : Bytes) : Option (LenProbs × Bytes) := do
  let (c, bs) ← takeU16 2 bs #[]
  let (low, bs) ← takeU16 128 bs #[]
  let (mid, bs) ← takeU16 128 bs #[]
  let (high, bs) ← takeU16 256 bs #[]
  pure ({ choice := c[0]!, choice2 := c[1]!, low := low, mid := mid, high := high }, bs)

namespace DState

/-- the hook's layout: carry-over length, lc, lp, pb, expected size (flag + 8 bytes), every
probability table as `u16`, `state`, `rep[0..4]` as `u64` -/
def toBytes (s : DState) : Bytes :=
  [UInt8.ofNat s.partialBuf.length, UInt8.ofNat s.props.lc, UInt8.ofNat s.props.lp, UInt8.ofNat s.props.pb] ++
  (match s.unpackedSize with
   | none => List.replicate 9 0
   | some n => 1 :: leBytes 8 n) ++
  u16Bytes s.probs.lit ++ u16Bytes s.probs.posSlot ++ u16Bytes s.probs.align ++ u16Bytes s.probs.posDec ++
  u16Bytes s.probs.isMatch ++ u16Bytes s.probs.isRep ++ u16Bytes s.probs.isRepG0 ++ u16Bytes s.probs.isRepG1 ++
  u16Bytes s.probs.isRepG2 ++ u16Bytes s.probs.isRep0Long ++ s.probs.len.toBytes ++ s.probs.repLen.toBytes ++
  [UInt8.ofNat s.state] ++ leBytes 8 s.rep0 ++ leBytes 8 s.rep1 ++ leBytes 8 s.rep2 ++ leBytes 8 s.rep3

/-- inverse of `toBytes` for objects with an empty carry-over buffer (the hook records only its
length; raw decoders run in Finish mode, which never fills it).  The table sizes are the ones the
Rust types fix (`[u16; N]`, `Vec2D` of `0x300 << (lc + lp)` cells): a dump of any other length is
refused. -/
def ofBytes (bs : Bytes) : Option DState :=
  match bs with
  | pl :: lc :: lp :: pb :: rest =>
    if pl != 0 ∨ lc.toNat + lp.toNat > 12 then none else
    match rest with
    | flag :: rest =>
      if rest.length < 8 then none else
      let size := leVal (rest.take 8)
      let rest := rest.drop 8
      if flag.toNat > 1 ∨ (flag == 0 ∧ size != 0) then none else do
      let rows := 1 <<< (lc.toNat + lp.toNat)
      let (lit, rest) ← takeU16 (rows * 0x300) rest #[]
      let (posSlot, rest) ← takeU16 256 rest #[]
      let (align, rest) ← takeU16 16 rest #[]
      let (posDec, rest) ← takeU16 115 rest #[]
      let (isMatch, rest) ← takeU16 192 rest #[]
      let (isRep, rest) ← takeU16 12 rest #[]
      let (g0, rest) ← takeU16 12 rest #[]
      let (g1, rest) ← takeU16 12 rest #[]
      let (g2, rest) ← takeU16 12 rest #[]
      let (r0l, rest) ← takeU16 192 rest #[]
      let (len, rest) ← LenProbs.ofBytes rest
      let (repLen, rest) ← LenProbs.ofBytes rest
      match rest with
      | st :: reps =>
        if reps.length != 32 then none else
        pure { partialBuf := []
               props := { lc := lc.toNat, lp := lp.toNat, pb := pb.toNat }
               unpackedSize := if flag == 1 then some size else none
               probs := { lit := lit, litRows := rows, posSlot := posSlot, align := align, posDec := posDec,
                          isMatch := isMatch, isRep := isRep, isRepG0 := g0, isRepG1 := g1, isRepG2 := g2,
                          isRep0Long := r0l, len := len, repLen := repLen }
               state := st.toNat
               rep0 := leVal (reps.take 8), rep1 := leVal ((reps.drop 8).take 8)
               rep2 := leVal ((reps.drop 16).take 8), rep3 := leVal ((reps.drop 24).take 8) }
      | [] => none
    | [] => none
  | _ => none

/-- a table of the allocated size whose values all lie in `[31, 2017]` -/
def arrOkB (n : Nat) (a : Array Nat) : Bool :=
  a.size == n && a.all (fun v => decide (31 ≤ v) && decide (v ≤ 2017))

def lenOkB (l : LenProbs) : Bool :=
  decide (31 ≤ l.choice) && decide (l.choice ≤ 2017) && decide (31 ≤ l.choice2) && decide (l.choice2 ≤ 2017) &&
  arrOkB 128 l.low && arrOkB 128 l.mid && arrOkB 256 l.high

/-- executable form of `Safety.DStateInv` -/
def checkInv (s : DState) : Bool :=
  arrOkB (s.probs.litRows * 0x300) s.probs.lit && arrOkB 256 s.probs.posSlot && arrOkB 16 s.probs.align &&
  arrOkB 115 s.probs.posDec && arrOkB 192 s.probs.isMatch && arrOkB 12 s.probs.isRep &&
  arrOkB 12 s.probs.isRepG0 && arrOkB 12 s.probs.isRepG1 && arrOkB 12 s.probs.isRepG2 &&
  arrOkB 192 s.probs.isRep0Long && lenOkB s.probs.len && lenOkB s.probs.repLen &&
  decide (s.state < 12) && decide (s.props.lc ≤ 8) && decide (s.props.lp ≤ 4) && decide (s.props.pb ≤ 4) &&
  decide (s.probs.litRows = 1 <<< (s.props.lc + s.props.lp)) && decide (s.partialBuf.length ≤ 20)

end DState
end Lzma
