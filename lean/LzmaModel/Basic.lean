/-
  LzmaModel.Basic — errors, the scripted output sink and the `M` monad
  (models `error.rs`, `io::Write` sinks, `write_all`, `flush`).

  Every model function that can touch the caller's output sink lives in
  `M α = Sink → Sink × Except Err α`: the sink survives an error, exactly as the
  caller's `&mut W` does in Rust.  Core Lean only (no Mathlib) so that the
  driver links as a `lean_exe`.
-/
namespace Lzma

/-- Verdict-relevant error classes.  `panic` = a Rust panic (index out of
bounds, arithmetic overflow in a checked build, division by zero, `unwrap`),
`fuel` = the model's loop bound was hit (never, by theorem). -/
inductive Err where
  | panic (what : String)
  | io
  | eof
  | lzma
  | xz
  | headerTooShort
  | fuel
  deriving Repr, DecidableEq, Inhabited

def Err.isPanic : Err → Bool
  | .panic _ => true
  | _ => false

abbrev Bytes := List UInt8

/-! ## Scripted sink -/

/-- Behaviour of one raw `write`/`flush` call on the sink. -/
inductive SinkBeh where
  | all                -- accept everything that is offered
  | upto (n : Nat)     -- accept at most `n` bytes (`n = 0` ⇒ `write_all` reports WriteZero)
  | fail               -- the call returns an I/O error
  deriving Repr, DecidableEq, Inhabited

structure Sink where
  out : Array UInt8 := #[]
  /-- behaviour of the upcoming raw calls; when exhausted every call accepts everything -/
  script : List SinkBeh := []
  /-- number of raw `write` calls made so far -/
  writes : Nat := 0
  /-- number of raw `flush` calls made so far -/
  flushes : Nat := 0
  /-- the last successful raw call was a `flush` -/
  lastFlush : Bool := false
  deriving Repr, Inhabited

def M (α : Type) : Type := Sink → Sink × Except Err α

@[inline] def M.pure (a : α) : M α := fun s => (s, .ok a)
@[inline] def M.bind (m : M α) (f : α → M β) : M β := fun s =>
  match m s with
  | (s', .ok a) => f a s'
  | (s', .error e) => (s', .error e)

instance : Monad M where
  pure := M.pure
  bind := M.bind

@[inline] def throwM (e : Err) : M α := fun s => (s, .error e)
@[inline] def liftE : Except Err α → M α
  | .ok a => M.pure a
  | .error e => throwM e

instance : MonadLift (Except Err) M := ⟨liftE⟩

/-- One raw `write` call: returns the number of bytes accepted. -/
def Sink.write1 (s : Sink) (bs : Bytes) : Sink × Except Err Nat :=
  match s.script with
  | [] => ({ s with out := s.out ++ bs.toArray, writes := s.writes + 1, lastFlush := false }, .ok bs.length)
  | .all :: rest =>
    ({ s with out := s.out ++ bs.toArray, script := rest, writes := s.writes + 1, lastFlush := false },
      .ok bs.length)
  | .upto n :: rest =>
    ({ s with out := s.out ++ (bs.take n).toArray, script := rest, writes := s.writes + 1,
              lastFlush := false }, .ok (min n bs.length))
  | .fail :: rest => ({ s with script := rest, writes := s.writes + 1 }, .error .io)

/-- `io::Write::write_all` on a list of bytes (std semantics: loop until all
accepted; `Ok(0)` is the `WriteZero` error; an empty buffer makes no call). -/
def writeAllList (bs : Bytes) : M Unit := fun s =>
  if bs.isEmpty then (s, .ok ())
  else
    match s.write1 bs with
    | (s', .error e) => (s', .error e)
    | (s', .ok n) =>
      if n = 0 then (s', .error .io)
      else if n ≥ bs.length then (s', .ok ())
      else writeAllList (bs.drop n) s'
termination_by bs.length
decreasing_by simp [List.length_drop]; omega

/-- `write_all` of an array segment; with an exhausted script this is one append. -/
def writeAll (bs : Array UInt8) : M Unit := fun s =>
  if bs.isEmpty then (s, .ok ())
  else if s.script.isEmpty then
    ({ s with out := s.out ++ bs, writes := s.writes + 1, lastFlush := false }, .ok ())
  else writeAllList bs.toList s

/-- `write_u8` & co. go through `write_all` of a short slice. -/
def writeBytes (bs : Bytes) : M Unit := writeAll bs.toArray

def flushSink : M Unit := fun s =>
  match s.script with
  | .fail :: rest => ({ s with script := rest, flushes := s.flushes + 1 }, .error .io)
  | _ :: rest => ({ s with script := rest, flushes := s.flushes + 1, lastFlush := true }, .ok ())
  | [] => ({ s with flushes := s.flushes + 1, lastFlush := true }, .ok ())

/-! ## Checked machine arithmetic (a debug build panics where these return `panic`) -/

def U8 : Nat := 256
def U16 : Nat := 65536
def U32 : Nat := 4294967296
def U64 : Nat := 18446744073709551616

@[inline] def addChk (bound : Nat) (what : String) (a b : Nat) : Except Err Nat :=
  if a + b < bound then .ok (a + b) else .error (.panic what)
@[inline] def subChk (what : String) (a b : Nat) : Except Err Nat :=
  if b ≤ a then .ok (a - b) else .error (.panic what)
@[inline] def mulChk (bound : Nat) (what : String) (a b : Nat) : Except Err Nat :=
  if a * b < bound then .ok (a * b) else .error (.panic what)

/-- `x << k` on a `u32` (bits shifted out are dropped; no panic for `k < 32`). -/
@[inline] def shlU32 (x k : Nat) : Nat := (x <<< k) % U32

/-- little-endian / big-endian value of a byte list -/
def leVal : Bytes → Nat
  | [] => 0
  | b :: r => b.toNat + 256 * leVal r
def beVal (bs : Bytes) : Nat := bs.foldl (fun acc b => acc * 256 + b.toNat) 0

/-- `n` as `k` little-endian bytes -/
def leBytes : Nat → Nat → Bytes
  | 0, _ => []
  | k+1, n => UInt8.ofNat (n % 256) :: leBytes k (n / 256)
def beBytes (k n : Nat) : Bytes := (leBytes k n).reverse

end Lzma
