/-
  LzmaModel.RangeDec — `decode/rangecoder.rs`.

  The bit-level decoders are written once as decision trees (`Coder`) over
  probability indices; `runDec` interprets a tree with the real range decoder
  (`range`, `code`, input reader).  `update = false` is the dry run of
  `try_process_next`.
-/
import LzmaModel.Reader
namespace Lzma

/-- A decision tree: which probability (or direct bit) to decode next, given the
bits decoded so far. -/
inductive Coder (ι : Type) (α : Type) where
  | ret : α → Coder ι α
  | bit : ι → (Bool → Coder ι α) → Coder ι α
  | direct : (Bool → Coder ι α) → Coder ι α
  | fail : Err → Coder ι α

namespace Coder
def bind : Coder ι α → (α → Coder ι β) → Coder ι β
  | .ret a, f => f a
  | .bit i k, f => .bit i (fun b => (k b).bind f)
  | .direct k, f => .direct (fun b => (k b).bind f)
  | .fail e, _ => .fail e

def map (f : α → β) (c : Coder ι α) : Coder ι β := c.bind (fun a => .ret (f a))

/-- lift a checked computation into a tree -/
def ofExcept : Except Err α → Coder ι α
  | .ok a => .ret a
  | .error e => .fail e
end Coder

/-- `RangeDecoder` without its stream -/
structure RC where
  range : Nat
  code : Nat
  deriving Repr, DecidableEq, Inhabited

/-- `RangeDecoder::new`: one ignored byte, then the big-endian code -/
def RC.new (rd : Rd) : Except Err (RC × Rd) := do
  let (_, rd) ← rd.readU8
  let (code, rd) ← rd.readU32BE
  pure ({ range := 0xFFFFFFFF, code := code }, rd)

/-- `RangeDecoder::normalize` -/
@[inline] def RC.normalize (rc : RC) (rd : Rd) : Except Err (RC × Rd) :=
  if rc.range < 0x01000000 then do
    let (b, rd) ← rd.readU8
    pure ({ range := shlU32 rc.range 8, code := (shlU32 rc.code 8) ^^^ b.toNat }, rd)
  else pure (rc, rd)

/-- `RangeDecoder::get_bit` (direct bit) -/
@[inline] def RC.getBit (rc : RC) (rd : Rd) : Except Err (Bool × RC × Rd) := do
  let range := rc.range >>> 1
  let bit := decide (rc.code ≥ range)
  let code := if bit then rc.code - range else rc.code
  let (rc, rd) ← RC.normalize { range := range, code := code } rd
  pure (bit, rc, rd)

/-- `RangeDecoder::decode_bit` on probability value `p`; returns the bit and the
updated probability (`p` itself when `update = false`). -/
@[inline] def RC.decodeBit (update : Bool) (p : Nat) (rc : RC) (rd : Rd) :
    Except Err (Bool × Nat × RC × Rd) := do
  let bound ← mulChk U32 "decode_bit: bound overflow" (rc.range >>> 11) p
  if rc.code < bound then do
    let p' ← if update then do
        let d ← subChk "decode_bit: 0x800 - prob" 0x800 p
        addChk U16 "decode_bit: prob += overflow" p (d >>> 5)
      else pure p
    let (rc, rd) ← RC.normalize { range := bound, code := rc.code } rd
    pure (false, p', rc, rd)
  else do
    let p' := if update then p - (p >>> 5) else p
    let code ← subChk "decode_bit: code -= bound" rc.code bound
    let range ← subChk "decode_bit: range -= bound" rc.range bound
    let (rc, rd) ← RC.normalize { range := range, code := code } rd
    pure (true, p', rc, rd)

/-- `is_finished_ok`: `code == 0 && is_eof()?` (short-circuit) -/
@[inline] def RC.isFinishedOk (rc : RC) (rd : Rd) : Except Err Bool :=
  if rc.code == 0 then rd.isEof else pure false

/-- A store of adaptive probabilities addressed by `ι`. `get` fails (panic)
when the Rust index would be out of bounds. -/
class ProbStore (σ : Type) (ι : outParam Type) where
  get : σ → ι → Except Err Nat
  set : σ → ι → Nat → σ

/-- Interpret a tree with the real range decoder. -/
def runDec [ProbStore σ ι] (update : Bool) :
    Coder ι α → σ → RC → Rd → Except Err (α × σ × RC × Rd)
  | .ret a, s, rc, rd => .ok (a, s, rc, rd)
  | .fail e, _, _, _ => .error e
  | .bit i k, s, rc, rd =>
    match ProbStore.get s i with
    | .error e => .error e
    | .ok p =>
      match RC.decodeBit update p rc rd with
      | .error e => .error e
      | .ok (b, p', rc, rd) =>
        runDec update (k b) (if update then ProbStore.set s i p' else s) rc rd
  | .direct k, s, rc, rd =>
    match RC.getBit rc rd with
    | .error e => .error e
    | .ok (b, rc, rd) => runDec update (k b) s rc rd

/-! ### generic trees -/

/-- `parse_bit_tree`: `num_bits` probability bits, MSB first; node index `tmp`
starts at 1; returns the final `tmp` (caller subtracts `1 << num_bits`).
`(tmp << 1) ^ bit` is written `2*tmp + bit` (the shifted value is even). -/
def bitTreeAux (mk : Nat → ι) : Nat → Nat → Coder ι Nat
  | 0, tmp => .ret tmp
  | n+1, tmp => .bit (mk tmp) fun b => bitTreeAux mk n (2 * tmp + b.toNat)

def bitTree (mk : Nat → ι) (numBits : Nat) : Coder ι Nat :=
  (bitTreeAux mk numBits 1).bind fun tmp =>
    .ofExcept (subChk "parse_bit_tree: tmp - (1 << num_bits)" tmp (1 <<< numBits))

/-- `parse_reverse_bit_tree`: bit `i` of the result is the `i`-th decoded bit.
`result ^= bit << i` is written as an addition (bit `i` of `result` is still 0). -/
def revBitTreeAux (mk : Nat → ι) (offset : Nat) : Nat → Nat → Nat → Nat → Coder ι Nat
  | 0, _, _, result => .ret result
  | n+1, i, tmp, result =>
    .bit (mk (offset + tmp)) fun b =>
      revBitTreeAux mk offset n (i + 1) (2 * tmp + b.toNat) (result + b.toNat * 2 ^ i)

def revBitTree (mk : Nat → ι) (offset numBits : Nat) : Coder ι Nat :=
  revBitTreeAux mk offset numBits 0 1 0

/-- `RangeDecoder::get(count)`: `count` direct bits, MSB first -/
def directBits : Nat → Nat → Coder ι Nat
  | 0, acc => .ret acc
  | n+1, acc => .direct fun b => directBits n (2 * acc + b.toNat)

end Lzma
