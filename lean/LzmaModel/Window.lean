/-
  LzmaModel.Window — `decode/lzbuffer.rs`: the circular window (LZMA) and the
  accumulating window (LZMA2), transcribed operation by operation, including the
  lazy growth of the circular buffer, the memory limit, the `unwrap_or(&0)`
  default of `get`, the flush on a full lap and `finish`.

  The output sink is the state of the `M` monad (the Rust windows own `stream`).
  `usize` additions on `len`/`cursor` are not checked for overflow: they count
  produced bytes and would need 2^64 bytes of output (stated in the trusted base).
-/
import LzmaModel.Basic
namespace Lzma

/-- the operations of `trait LzBuffer` the symbol decoder uses -/
class LzBuf (ω : Type) where
  len : ω → Nat
  lastOr : ω → UInt8 → Except Err UInt8
  lastN : ω → Nat → Except Err UInt8
  appendLiteral : ω → UInt8 → M ω
  appendLz : ω → Nat → Nat → M ω

/-! ## LzCircularBuffer -/

structure Circ where
  buf : Array UInt8 := #[]
  dictSize : Nat
  memlimit : Nat
  cursor : Nat := 0
  len : Nat := 0
  deriving Repr, Inhabited

namespace Circ

def fromStream (dictSize memlimit : Nat) : Circ := { dictSize := dictSize, memlimit := memlimit }

/-- `get`: `*self.buf.get(index).unwrap_or(&0)` -/
@[inline] def get (w : Circ) (index : Nat) : UInt8 := w.buf[index]?.getD 0

/-- `set` -/
def set (w : Circ) (index : Nat) (value : UInt8) : Except Err Circ :=
  let newLen := index + 1
  if w.buf.size < newLen then
    if newLen ≤ w.memlimit then
      let buf := w.buf ++ Array.replicate (newLen - w.buf.size) (0 : UInt8)
      .ok { w with buf := buf.setIfInBounds index value }
    else .error .lzma
  else .ok { w with buf := w.buf.setIfInBounds index value }

/-- `(self.dict_size + self.cursor - dist) % self.dict_size` with Rust's panics -/
@[inline] def offsetOf (w : Circ) (dist : Nat) : Except Err Nat := do
  let a ← subChk "lzbuffer: dict_size + cursor - dist" (w.dictSize + w.cursor) dist
  if w.dictSize = 0 then .error (.panic "lzbuffer: remainder by zero") else pure (a % w.dictSize)

def lastOr (w : Circ) (lit : UInt8) : Except Err UInt8 :=
  if w.len = 0 then pure lit
  else do
    let off ← w.offsetOf 1
    pure (w.get off)

def lastN (w : Circ) (dist : Nat) : Except Err UInt8 :=
  if dist > w.dictSize then .error .lzma
  else if dist > w.len then .error .lzma
  else do
    let off ← w.offsetOf dist
    pure (w.get off)

def appendLiteral (w : Circ) (lit : UInt8) : M Circ := do
  let w ← liftE (w.set w.cursor lit)
  let w := { w with cursor := w.cursor + 1, len := w.len + 1 }
  if w.cursor = w.dictSize then do
    writeAll w.buf
    pure { w with cursor := 0 }
  else pure w

/-- the copy loop of `append_lz` -/
def copyLoop : Nat → Circ → Nat → M Circ
  | 0, w, _ => pure w
  | n+1, w, offset => do
    let x := w.get offset
    let w ← w.appendLiteral x
    let offset := offset + 1
    let offset := if offset = w.dictSize then 0 else offset
    copyLoop n w offset

def appendLz (w : Circ) (len dist : Nat) : M Circ :=
  if dist > w.dictSize then throwM .lzma
  else if dist > w.len then throwM .lzma
  else do
    let offset ← liftE (w.offsetOf dist)
    copyLoop len w offset

/-- `finish`: write the unflushed part of the current lap, then flush -/
def finish (w : Circ) : M Unit := do
  if w.cursor > 0 then
    if w.cursor ≤ w.buf.size then writeAll (w.buf.extract 0 w.cursor)
    else throwM (.panic "lzbuffer: finish slice out of range")
  flushSink

instance : LzBuf Circ where
  len w := w.len
  lastOr := lastOr
  lastN := lastN
  appendLiteral := appendLiteral
  appendLz := appendLz

end Circ

/-! ## LzAccumBuffer -/

structure Accum where
  buf : Array UInt8 := #[]
  memlimit : Nat
  len : Nat := 0
  deriving Repr, Inhabited

namespace Accum

def fromStream (memlimit : Nat) : Accum := { memlimit := memlimit }

def appendBytes (w : Accum) (bs : Bytes) : Accum :=
  { w with buf := w.buf ++ bs.toArray, len := w.len + bs.length }

/-- `reset`: flush the history to the sink and forget it -/
def reset (w : Accum) : M Accum := do
  writeAll w.buf
  pure { w with buf := #[], len := 0 }

def lastOr (w : Accum) (lit : UInt8) : Except Err UInt8 :=
  if w.buf.size = 0 then pure lit
  else match w.buf[w.buf.size - 1]? with
    | some b => pure b
    | none => .error (.panic "lzbuffer: index out of bounds")

def lastN (w : Accum) (dist : Nat) : Except Err UInt8 :=
  if dist > w.buf.size then .error .lzma
  else match w.buf[w.buf.size - dist]? with
    | some b => pure b
    | none => .error (.panic "lzbuffer: index out of bounds")

def appendLiteral (w : Accum) (lit : UInt8) : M Accum :=
  let newLen := w.len + 1
  if newLen > w.memlimit then throwM .lzma
  else pure { w with buf := w.buf.push lit, len := newLen }

def copyLoop : Nat → Array UInt8 → Nat → Except Err (Array UInt8)
  | 0, buf, _ => pure buf
  | n+1, buf, offset =>
    match buf[offset]? with
    | some x => copyLoop n (buf.push x) (offset + 1)
    | none => .error (.panic "lzbuffer: index out of bounds")

def appendLz (w : Accum) (len dist : Nat) : M Accum :=
  if dist > w.buf.size then throwM .lzma
  else do
    let buf ← liftE (copyLoop len w.buf (w.buf.size - dist))
    pure { w with buf := buf, len := w.len + len }

def finish (w : Accum) : M Unit := do
  writeAll w.buf
  flushSink

instance : LzBuf Accum where
  len w := w.len
  lastOr := lastOr
  lastN := lastN
  appendLiteral := appendLiteral
  appendLz := appendLz

end Accum
end Lzma
