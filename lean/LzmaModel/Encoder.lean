/-
  LzmaModel.Encoder — `encode/rangecoder.rs` (`RangeEncoder`), `encode/dumbencoder.rs`,
  `encode/lzma2.rs`, `encode/xz.rs`, `encode/util.rs`, `encode/options.rs` and the
  `lib.rs` entry points `lzma_compress_with_options`, `lzma2_compress`, `xz_compress`.

  The input of an encoder is an `ERd`: the bytes still to be delivered, the end
  kind, and a fragmentation oracle for `Read::read` (the LZMA2 writer asks for
  up to 64 KiB per call and takes whatever it gets).
-/
import LzmaModel.Reader
import LzmaModel.Crc
import LzmaModel.Xz
namespace Lzma

/-! ## RangeEncoder -/

structure REnc where
  range : Nat := 0xFFFFFFFF
  low : Nat := 0
  cache : Nat := 0
  cachesz : Nat := 1
  deriving Repr, DecidableEq, Inhabited

namespace REnc

/-- the `loop { … }` of `write_low`: `cachesz` bytes, the first one is
`cache + carry`, the others `0xFF + carry` (wrapping `u8` additions) -/
def emitLoop (carry : Nat) : Nat → Nat → M Unit
  | 0, _ => pure ()
  | n+1, tmp => do
    writeBytes [UInt8.ofNat ((tmp + carry) % 256)]
    emitLoop carry n 0xFF

/-- `write_low` -/
def writeLow (e : REnc) : M REnc := do
  let e ← if e.low < 0xFF000000 ∨ e.low > 0xFFFFFFFF then do
      if e.cachesz = 0 then throwM (.panic "write_low: cachesz underflow")
      emitLoop ((e.low >>> 32) % 256) e.cachesz e.cache
      pure { e with cachesz := 0, cache := (e.low >>> 24) % 256 }
    else pure e
  pure { e with cachesz := e.cachesz + 1, low := (e.low <<< 8) &&& 0xFFFFFFFF }

/-- `finish`: five `write_low` -/
def finish (e : REnc) : M REnc := do
  let e ← e.writeLow
  let e ← e.writeLow
  let e ← e.writeLow
  let e ← e.writeLow
  e.writeLow

/-- `normalize`: `while range < 2^24` (at most 4 rounds for a non-zero range) -/
def normalize : Nat → REnc → M REnc
  | 0, e => if e.range < 0x01000000 then throwM .fuel else pure e
  | fuel+1, e =>
    if e.range < 0x01000000 then do
      let e ← ({ e with range := shlU32 e.range 8 } : REnc).writeLow
      normalize fuel e
    else pure e

/-- `encode_bit`; returns the updated probability -/
def encodeBit (e : REnc) (p : Nat) (bit : Bool) : M (REnc × Nat) := do
  let bound ← liftE (mulChk U32 "encode_bit: bound overflow" (e.range >>> 11) p)
  if bit then do
    let p' := p - (p >>> 5)
    let range ← liftE (subChk "encode_bit: range -= bound" e.range bound)
    let e ← normalize 4 { e with low := e.low + bound, range := range }
    pure (e, p')
  else do
    let d ← liftE (subChk "encode_bit: 0x800 - prob" 0x800 p)
    let p' := p + (d >>> 5)
    let e ← normalize 4 { e with range := bound }
    pure (e, p')

end REnc

/-! ## encoder input -/

structure ERd where
  rem : Bytes
  bad : Bool := false
  /-- sizes returned by the upcoming `read` calls (clipped to what is asked for
  and what is left; a `0` entry is skipped); exhausted ⇒ as much as possible -/
  frags : List Nat := []
  deriving Repr, Inhabited

/-- one `Read::read` into a buffer of `cap` bytes -/
def ERd.read (r : ERd) (cap : Nat) : Except Err (Bytes × ERd) :=
  if r.rem.isEmpty then (if r.bad then .error .io else .ok ([], r))
  else
    let (want, frags) := match r.frags with
      | [] => (cap, [])
      | f :: fs => (if f = 0 then cap else min f cap, fs)
    .ok (r.rem.take want, { r with rem := r.rem.drop want, frags := frags })

/-! ## dumbencoder -/

/-- `compress::UnpackedSize` -/
inductive EncSizeOpt where
  | writeToHeader (x : Option Nat)
  | skipWritingToHeader
  deriving Repr, DecidableEq, Inhabited

structure DumbEnc where
  rc : REnc := {}
  litProbs : Array Nat := Array.replicate (8 * 0x300) 0x400
  isMatch : Array Nat := Array.replicate 4 0x400
  opt : EncSizeOpt
  deriving Repr, Inhabited

namespace DumbEnc

/-- `Encoder::from_stream`: writes the header -/
def fromStream (opt : EncSizeOpt) : M DumbEnc := do
  writeBytes [UInt8.ofNat (3 + 9 * (0 + 5 * 2))]
  writeBytes (leBytes 4 0x00800000)
  match opt with
  | .writeToHeader x =>
    let v := match x with
      | none => 0xFFFFFFFFFFFFFFFF
      | some n => n
    writeBytes (leBytes 8 v)
  | .skipWritingToHeader => pure ()
  pure { opt := opt }

def encodeLiteralLoop (row : Nat) (byte : Nat) : Nat → Nat → DumbEnc → M DumbEnc
  | 0, _, e => pure e
  | n+1, result, e => do
    let i := 8 - (n + 1)
    let bit := ((byte >>> (7 - i)) &&& 1) != 0
    let p ← liftE (if row < 8 ∧ result < 0x300 then arrGet e.litProbs (row * 0x300 + result) else oob)
    let (rc, p') ← e.rc.encodeBit p bit
    let e := { e with rc := rc, litProbs := e.litProbs.setIfInBounds (row * 0x300 + result) p' }
    encodeLiteralLoop row byte n (2 * result + bit.toNat) e

def encodeLiteral (e : DumbEnc) (byte prevByte : Nat) : M DumbEnc :=
  encodeLiteralLoop (prevByte >>> 5) byte 8 1 e

/-- `n` bits coded with a fresh probability `0x400` each -/
def encodeFresh (bit : Bool) : Nat → REnc → M REnc
  | 0, rc => pure rc
  | n+1, rc => do
    let (rc, _) ← rc.encodeBit 0x400 bit
    encodeFresh bit n rc

/-- `Encoder::finish` -/
def finish (e : DumbEnc) (inputLen : Nat) : M Unit := do
  let rc ← match e.opt with
    | .skipWritingToHeader => pure e.rc
    | .writeToHeader (some _) => pure e.rc
    | .writeToHeader none => do
      let posState := inputLen &&& 3
      let p ← liftE (arrGet e.isMatch posState)
      let (rc, _) ← e.rc.encodeBit p true
      let (rc, _) ← rc.encodeBit 0x400 false
      let rc ← encodeFresh false 4 rc
      let rc ← encodeFresh true 6 rc
      encodeFresh true 30 rc
  let _ ← rc.finish
  pure ()

/-- the `for … in input.bytes().enumerate()` loop of `process`; fuel = number of
bytes that can still arrive + 1 -/
def processLoop : Nat → Nat → Nat → Nat → DumbEnc → ERd → M (DumbEnc × Nat)
  | 0, _, _, _, _, _ => throwM .fuel
  | fuel+1, outLen, inputLen, prevByte, e, rd => do
    let (bs, rd) ← liftE (rd.read 1)
    match bs with
    | [] => pure (e, inputLen)
    | byte :: _ => do
      let posState := outLen &&& 3
      let p ← liftE (arrGet e.isMatch posState)
      let (rc, p') ← e.rc.encodeBit p false
      let e := { e with rc := rc, isMatch := e.isMatch.setIfInBounds posState p' }
      let e ← e.encodeLiteral byte.toNat prevByte
      processLoop fuel (outLen + 1) outLen byte.toNat e rd

/-- `Encoder::process` -/
def process (e : DumbEnc) (rd : ERd) : M Unit := do
  let (e, inputLen) ← processLoop (rd.rem.length + 1) 0 0 0 e rd
  e.finish (inputLen + 1)

end DumbEnc

/-- `lzma_compress_with_options` -/
def lzmaCompress (rd : ERd) (opt : EncSizeOpt) : M Unit := do
  let e ← DumbEnc.fromStream opt
  e.process rd

/-! ## encode/lzma2.rs -/

/-- the loop of `lzma2::encode_stream`; returns the reader (its byte count is
used by the XZ writer) -/
def lzma2EncodeLoop : Nat → ERd → M ERd
  | 0, _ => throwM .fuel
  | fuel+1, rd => do
    let (buf, rd) ← liftE (rd.read 0x10000)
    if buf.isEmpty then do
      writeBytes [0]
      pure rd
    else do
      writeBytes [1]
      let n1 ← liftE (subChk "lzma2 encode: n - 1" buf.length 1)
      writeBytes (beBytes 2 (n1 % U16))
      writeAll buf.toArray
      lzma2EncodeLoop fuel rd

/-- `lzma2_compress` -/
def lzma2Compress (rd : ERd) : M ERd := lzma2EncodeLoop (rd.rem.length + 1) rd

/-! ## encode/xz.rs -/

/-- `write_multibyte` -/
def writeMultibyteAux : Nat → Nat → Bytes
  | 0, _ => []
  | fuel+1, value =>
    let byte := value &&& 0x7F
    let value := value >>> 7
    if value = 0 then [UInt8.ofNat byte]
    else UInt8.ofNat (0x80 ||| byte) :: writeMultibyteAux fuel value

def multibyteBytes (value : Nat) : Bytes := writeMultibyteAux 10 value

/-- `write_header` -/
def xzWriteHeader (check : CheckMethod) : M Unit := do
  writeAll XZ_MAGIC.toArray
  let flags : Bytes := [0x00, UInt8.ofNat check.id]
  writeAll flags.toArray
  writeBytes (leBytes 4 (crc32 flags))

/-- `write_block`: returns `(unpadded_size, unpacked_size)` -/
def xzWriteBlock (rd : ERd) : M (Nat × Nat) := do
  let start ← fun snk => (snk, .ok snk.out.size)
  let hdr : Bytes := [UInt8.ofNat (8 >>> 2), 0x00, 0x21, 1, 22, 0, 0, 0]
  -- the eight header bytes go out as five `write_u8` and one `write_all`
  writeBytes [hdr[0]!]
  writeBytes [hdr[1]!]
  writeBytes [hdr[2]!]
  writeBytes [hdr[3]!]
  writeBytes [hdr[4]!]
  writeBytes [0, 0, 0]
  writeBytes (leBytes 4 (crc32 hdr))
  let inLen := rd.rem.length
  let rd ← lzma2Compress rd
  let fin ← fun snk => (snk, .ok snk.out.size)
  let unpadded := fin - start
  let unpacked := inLen - rd.rem.length
  let padding := paddingSize unpadded
  writeAll (Array.replicate padding (0 : UInt8))
  pure (unpadded, unpacked)

/-- `write_index`: returns the index size -/
def xzWriteIndex (unpadded unpacked : Nat) : M Nat := do
  let body : Bytes := [0] ++ multibyteBytes 1 ++ multibyteBytes unpadded ++ multibyteBytes unpacked
  -- byte-by-byte `write_u8`
  body.forM (fun b => writeBytes [b])
  let padding := paddingSize body.length
  let pad : Bytes := List.replicate padding 0
  writeAll pad.toArray
  writeBytes (leBytes 4 (crc32 (body ++ pad)))
  pure (body.length + padding + 4)

/-- `write_footer` -/
def xzWriteFooter (check : CheckMethod) (indexSize : Nat) : M Unit := do
  let bs ← liftE (subChk "write_footer: (index_size >> 2) - 1" (indexSize >>> 2) 1)
  let footer : Bytes := leBytes 4 (bs % U32) ++ [0x00, UInt8.ofNat check.id]
  writeBytes (leBytes 4 (crc32 footer))
  writeAll footer.toArray
  writeAll XZ_MAGIC_FOOTER.toArray

/-- `xz_compress` -/
def xzCompress (rd : ERd) : M Unit := do
  xzWriteHeader .none
  let (unpadded, unpacked) ← xzWriteBlock rd
  let indexSize ← xzWriteIndex unpadded unpacked
  xzWriteFooter .none indexSize

end Lzma
