/-
  LzmaModel.Reader — the flat input reader (`&[u8]` / `Cursor` / any `BufRead`
  seen through the primitives the decoders use), `byteorder` reads, `io::Take`,
  and `decode/util.rs` (`read_tag`, `is_eof`, `flush_zero_padding`).

  A reader is the list of bytes not yet consumed plus its end kind: `bad = true`
  means that demanding a byte beyond the data yields an I/O error instead of
  EOF (fault injection for C12).  "Bytes consumed" is always
  `original.length - rem.length`.
-/
import LzmaModel.Basic
namespace Lzma

structure Rd where
  rem : Bytes
  bad : Bool := false
  deriving Repr, Inhabited

namespace Rd

@[inline] def ofBytes (bs : Bytes) : Rd := { rem := bs }

/-- error produced when data is demanded beyond the end -/
@[inline] def endErr (r : Rd) : Err := if r.bad then .io else .eof

/-- `read_u8` -/
@[inline] def readU8 (r : Rd) : Except Err (UInt8 × Rd) :=
  match r.rem with
  | b :: rest => .ok (b, { r with rem := rest })
  | [] => .error r.endErr

/-- `read_exact` of `n` bytes -/
def readExact (r : Rd) (n : Nat) : Except Err (Bytes × Rd) :=
  if n ≤ r.rem.length then .ok (r.rem.take n, { r with rem := r.rem.drop n })
  else .error r.endErr

/-- `fill_buf` (only its error behaviour and emptiness are observable) -/
@[inline] def fillBuf (r : Rd) : Except Err Unit :=
  if r.rem.isEmpty && r.bad then .error .io else .ok ()

/-- `util::is_eof`: `fill_buf()?.is_empty()` -/
@[inline] def isEof (r : Rd) : Except Err Bool :=
  if r.rem.isEmpty then (if r.bad then .error .io else .ok true) else .ok false

def readU16BE (r : Rd) : Except Err (Nat × Rd) := do
  let (bs, r) ← r.readExact 2; pure (beVal bs, r)
def readU32BE (r : Rd) : Except Err (Nat × Rd) := do
  let (bs, r) ← r.readExact 4; pure (beVal bs, r)
def readU32LE (r : Rd) : Except Err (Nat × Rd) := do
  let (bs, r) ← r.readExact 4; pure (leVal bs, r)
def readU64LE (r : Rd) : Except Err (Nat × Rd) := do
  let (bs, r) ← r.readExact 8; pure (leVal bs, r)

/-- `util::read_tag` -/
def readTag (r : Rd) (tag : Bytes) : Except Err (Bool × Rd) := do
  let (bs, r) ← r.readExact tag.length
  pure (bs == tag, r)

/-- `Read::take(n)`: the sub-reader and the bytes beyond the limit.  The
sub-reader reports plain EOF at the limit; it inherits the fault only when the
underlying data ends before the limit. -/
def split (r : Rd) (n : Nat) : Rd × Bytes :=
  ({ rem := r.rem.take n, bad := r.bad && decide (r.rem.length < n) }, r.rem.drop n)

/-- give the unread part of a `take` back to the underlying reader -/
def unsplit (r : Rd) (inner : Rd) (rest : Bytes) : Rd :=
  { r with rem := inner.rem ++ rest }

/-- `util::flush_zero_padding` on a flat reader: one `fill_buf` exposes all
remaining bytes; they must all be zero, then they are consumed. -/
def flushZeroPadding (r : Rd) : Except Err (Bool × Rd) :=
  if r.rem.isEmpty then (if r.bad then .error .io else .ok (true, r))
  else if r.rem.all (· == 0) then
    (if r.bad then .error .io else .ok (true, { r with rem := [] }))
  else .ok (false, r)

end Rd
end Lzma
