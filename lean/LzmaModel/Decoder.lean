/-
  LzmaModel.Decoder — `decode/lzma.rs`: `DecoderState` (`new`, `reset_state`,
  `set_unpacked_size`, `process_next_inner`, `try_process_next`,
  `read_partial_input_buf`, `process_mode`, `decode_literal`, `decode_distance`)
  and `LenDecoder::decode`.

  `process_next_inner` is split into the bit-level decision tree `symTree`
  (interpreted by `runDec`, with `update = false` for the dry run) and
  `applySym` (the state / window effects performed when `update = true`).
-/
import LzmaModel.RangeDec
import LzmaModel.Window
namespace Lzma

structure Props where
  lc : Nat
  lp : Nat
  pb : Nat
  deriving Repr, DecidableEq, Inhabited

/-- `LenDecoder` -/
structure LenProbs where
  choice : Nat := 0x400
  choice2 : Nat := 0x400
  low : Array Nat := Array.replicate 128 0x400      -- [BitTree<8>; 16]
  mid : Array Nat := Array.replicate 128 0x400      -- [BitTree<8>; 16]
  high : Array Nat := Array.replicate 256 0x400     -- BitTree<256>
  deriving Repr, Inhabited

/-- all adaptive probabilities of `DecoderState` -/
structure Probs where
  lit : Array Nat            -- Vec2D<u16>, `litRows` rows of 0x300
  litRows : Nat
  posSlot : Array Nat := Array.replicate 256 0x400  -- [BitTree<64>; 4]
  align : Array Nat := Array.replicate 16 0x400     -- BitTree<16>
  posDec : Array Nat := Array.replicate 115 0x400
  isMatch : Array Nat := Array.replicate 192 0x400
  isRep : Array Nat := Array.replicate 12 0x400
  isRepG0 : Array Nat := Array.replicate 12 0x400
  isRepG1 : Array Nat := Array.replicate 12 0x400
  isRepG2 : Array Nat := Array.replicate 12 0x400
  isRep0Long : Array Nat := Array.replicate 192 0x400
  len : LenProbs := {}
  repLen : LenProbs := {}
  deriving Repr, Inhabited

/-- address of one probability -/
inductive PIdx where
  | lit (row col : Nat)
  | posSlot (lenState t : Nat)
  | align (t : Nat)
  | posDec (i : Nat)
  | isMatch (i : Nat)
  | isRep (i : Nat)
  | isRepG0 (i : Nat)
  | isRepG1 (i : Nat)
  | isRepG2 (i : Nat)
  | isRep0Long (i : Nat)
  | lenChoice (rep : Bool)
  | lenChoice2 (rep : Bool)
  | lenLow (rep : Bool) (posState t : Nat)
  | lenMid (rep : Bool) (posState t : Nat)
  | lenHigh (rep : Bool) (t : Nat)
  deriving Repr, DecidableEq, Inhabited

def oob : Except Err α := .error (.panic "index out of bounds")

@[inline] def arrGet (a : Array Nat) (i : Nat) : Except Err Nat :=
  match a[i]? with
  | some v => .ok v
  | none => oob

namespace LenProbs
def get (l : LenProbs) : PIdx → Except Err Nat
  | .lenChoice _ => .ok l.choice
  | .lenChoice2 _ => .ok l.choice2
  | .lenLow _ ps t => if ps < 16 ∧ t < 8 then arrGet l.low (ps * 8 + t) else oob
  | .lenMid _ ps t => if ps < 16 ∧ t < 8 then arrGet l.mid (ps * 8 + t) else oob
  | .lenHigh _ t => arrGet l.high t
  | _ => oob
def set (l : LenProbs) (i : PIdx) (v : Nat) : LenProbs :=
  match i with
  | .lenChoice _ => { l with choice := v }
  | .lenChoice2 _ => { l with choice2 := v }
  | .lenLow _ ps t => { l with low := l.low.setIfInBounds (ps * 8 + t) v }
  | .lenMid _ ps t => { l with mid := l.mid.setIfInBounds (ps * 8 + t) v }
  | .lenHigh _ t => { l with high := l.high.setIfInBounds t v }
  | _ => l
end LenProbs

namespace Probs

/-- fresh tables for `lc + lp = k` (`DecoderState::new` / `reset_state`) -/
def init (litRows : Nat) : Probs :=
  { lit := Array.replicate (litRows * 0x300) 0x400, litRows := litRows }

def get (p : Probs) : PIdx → Except Err Nat
  | .lit row col =>
    -- Vec2D row slice `[row*cols .. row*cols+cols]`, then `probs[col]`
    if row * 0x300 + 0x300 ≤ p.lit.size ∧ col < 0x300 then arrGet p.lit (row * 0x300 + col) else oob
  | .posSlot ls t => if ls < 4 ∧ t < 64 then arrGet p.posSlot (ls * 64 + t) else oob
  | .align t => arrGet p.align t
  | .posDec i => arrGet p.posDec i
  | .isMatch i => arrGet p.isMatch i
  | .isRep i => arrGet p.isRep i
  | .isRepG0 i => arrGet p.isRepG0 i
  | .isRepG1 i => arrGet p.isRepG1 i
  | .isRepG2 i => arrGet p.isRepG2 i
  | .isRep0Long i => arrGet p.isRep0Long i
  | .lenChoice rep => (if rep then p.repLen else p.len).get (.lenChoice rep)
  | .lenChoice2 rep => (if rep then p.repLen else p.len).get (.lenChoice2 rep)
  | .lenLow rep ps t => (if rep then p.repLen else p.len).get (.lenLow rep ps t)
  | .lenMid rep ps t => (if rep then p.repLen else p.len).get (.lenMid rep ps t)
  | .lenHigh rep t => (if rep then p.repLen else p.len).get (.lenHigh rep t)

def setLen (p : Probs) (rep : Bool) (i : PIdx) (v : Nat) : Probs :=
  if rep then { p with repLen := p.repLen.set i v } else { p with len := p.len.set i v }

def set (p : Probs) (i : PIdx) (v : Nat) : Probs :=
  match i with
  | .lit row col => { p with lit := p.lit.setIfInBounds (row * 0x300 + col) v }
  | .posSlot ls t => { p with posSlot := p.posSlot.setIfInBounds (ls * 64 + t) v }
  | .align t => { p with align := p.align.setIfInBounds t v }
  | .posDec i => { p with posDec := p.posDec.setIfInBounds i v }
  | .isMatch i => { p with isMatch := p.isMatch.setIfInBounds i v }
  | .isRep i => { p with isRep := p.isRep.setIfInBounds i v }
  | .isRepG0 i => { p with isRepG0 := p.isRepG0.setIfInBounds i v }
  | .isRepG1 i => { p with isRepG1 := p.isRepG1.setIfInBounds i v }
  | .isRepG2 i => { p with isRepG2 := p.isRepG2.setIfInBounds i v }
  | .isRep0Long i => { p with isRep0Long := p.isRep0Long.setIfInBounds i v }
  | .lenChoice rep => p.setLen rep i v
  | .lenChoice2 rep => p.setLen rep i v
  | .lenLow rep _ _ => p.setLen rep i v
  | .lenMid rep _ _ => p.setLen rep i v
  | .lenHigh rep _ => p.setLen rep i v

instance : ProbStore Probs PIdx := ⟨Probs.get, Probs.set⟩

end Probs

/-! ## bit-level trees -/

/-- `LenDecoder::decode` -/
def lenTree (rep : Bool) (posState : Nat) : Coder PIdx Nat :=
  .bit (.lenChoice rep) fun b =>
    if !b then bitTree (.lenLow rep posState) 3
    else .bit (.lenChoice2 rep) fun b =>
      if !b then (bitTree (.lenMid rep posState) 3).map (· + 8)
      else (bitTree (.lenHigh rep) 8).map (· + 16)

/-- the plain loop of `decode_literal`: `while result < 0x100` -/
def litPlain (row : Nat) : Nat → Nat → Coder PIdx Nat
  | 0, result => if result < 0x100 then .fail .fuel else .ret result
  | fuel+1, result =>
    if result < 0x100 then
      .bit (.lit row result) fun b => litPlain row fuel (2 * result + b.toNat)
    else .ret result

/-- the matched loop of `decode_literal` (taken when `state >= 7`) followed by
the plain loop -/
def litMatched (row : Nat) : Nat → Nat → Nat → Coder PIdx Nat
  | 0, _, result => if result < 0x100 then .fail .fuel else .ret result
  | fuel+1, matchByte, result =>
    if result < 0x100 then
      let matchBit := (matchByte >>> 7) &&& 1
      .bit (.lit row (((1 + matchBit) <<< 8) + result)) fun b =>
        let result' := 2 * result + b.toNat
        if matchBit != b.toNat then litPlain row fuel result'
        else litMatched row fuel (matchByte <<< 1) result'
    else .ret result

/-- `decode_distance` -/
def distTree (length : Nat) : Coder PIdx Nat :=
  let lenState := if length > 3 then 3 else length
  (bitTree (.posSlot lenState) 6).bind fun posSlot =>
    if posSlot < 4 then .ret posSlot
    else
      let numDirectBits := (posSlot >>> 1) - 1
      let result := (2 ^^^ (posSlot &&& 1)) <<< numDirectBits
      if posSlot < 14 then
        match subChk "decode_distance: result - pos_slot" result posSlot with
        | .error e => .fail e
        | .ok off => (revBitTree .posDec off numDirectBits).map (result + ·)
      else
        (directBits (numDirectBits - 4) 0).bind fun d =>
          (revBitTree .align 0 4).map fun a => result + (d <<< 4) + a

/-- what one iteration of `process_next_inner` decodes -/
inductive RawSym where
  | lit (byte : Nat)
  | shortRep
  | rep (idx : Nat) (len : Nat)        -- `len` as decoded (before `+ 2`)
  | mtch (len : Nat) (rep0 : Nat)      -- `len` as decoded, `rep0` = distance - 1
  deriving Repr, DecidableEq, Inhabited

/-- everything `process_next_inner` reads from the decoder state and the window
before/while decoding bits -/
structure Ctx where
  state : Nat
  posState : Nat
  /-- row of the literal table (includes the panics of computing it) -/
  litRow : Except Err Nat
  /-- `output.last_n(rep[0] + 1)`, demanded only for a literal with `state >= 7` -/
  matchByte : Except Err Nat

def symTree (c : Ctx) : Coder PIdx RawSym :=
  .bit (.isMatch ((c.state <<< 4) + c.posState)) fun b =>
    if !b then
      -- decode_literal
      match c.litRow with
      | .error e => .fail e
      | .ok row =>
        let t : Coder PIdx Nat :=
          if c.state ≥ 7 then
            match c.matchByte with
            | .error e => .fail e
            | .ok mb => litMatched row 8 mb 1
          else litPlain row 8 1
        t.bind fun result =>
          match subChk "decode_literal: result - 0x100" result 0x100 with
          | .error e => .fail e
          | .ok v => .ret (.lit (v % 256))
    else
      .bit (.isRep c.state) fun b =>
        if b then
          .bit (.isRepG0 c.state) fun b =>
            if !b then
              .bit (.isRep0Long ((c.state <<< 4) + c.posState)) fun b =>
                if !b then .ret .shortRep
                else (lenTree true c.posState).map (.rep 0)
            else
              .bit (.isRepG1 c.state) fun b =>
                if !b then (lenTree true c.posState).map (.rep 1)
                else .bit (.isRepG2 c.state) fun b =>
                  if !b then (lenTree true c.posState).map (.rep 2)
                  else (lenTree true c.posState).map (.rep 3)
        else
          (lenTree false c.posState).bind fun len =>
            (distTree len).map (.mtch len)

/-! ## DecoderState -/

structure DState where
  /-- `partial_input_buf[..position]` -/
  partialBuf : Bytes := []
  props : Props
  unpackedSize : Option Nat
  probs : Probs
  state : Nat := 0
  rep0 : Nat := 0
  rep1 : Nat := 0
  rep2 : Nat := 0
  rep3 : Nat := 0
  deriving Repr, Inhabited

/-- `LzmaProperties::validate` -/
def Props.validate (p : Props) : Except Err Unit :=
  if p.lc ≤ 8 ∧ p.lp ≤ 4 ∧ p.pb ≤ 4 then pure () else .error (.panic "validate")

namespace DState

def new (props : Props) (unpackedSize : Option Nat) : Except Err DState := do
  props.validate
  pure { props := props, unpackedSize := unpackedSize, probs := Probs.init (1 <<< (props.lc + props.lp)) }

/-- `reset_state`: everything except `partial_input_buf` and `unpacked_size` -/
def resetState (s : DState) (newProps : Props) : Except Err DState := do
  newProps.validate
  let lit : Array Nat × Nat :=
    if s.props.lc + s.props.lp = newProps.lc + newProps.lp then
      (Array.replicate s.probs.lit.size 0x400, s.probs.litRows)      -- `fill(0x400)`
    else
      let rows := 1 <<< (newProps.lc + newProps.lp)
      (Array.replicate (rows * 0x300) 0x400, rows)
  pure { s with
    props := newProps
    probs := { lit := lit.1, litRows := lit.2 }
    state := 0, rep0 := 0, rep1 := 0, rep2 := 0, rep3 := 0 }

def setUnpackedSize (s : DState) (u : Option Nat) : DState := { s with unpackedSize := u }

variable {ω : Type} [LzBuf ω]

/-- the reads `process_next_inner` performs on state and window -/
def mkCtx (s : DState) (w : ω) : Ctx :=
  let len := LzBuf.len w
  { state := s.state
    posState := len &&& ((1 <<< s.props.pb) - 1)
    litRow := do
      let prev ← LzBuf.lastOr w 0
      let sh ← subChk "decode_literal: 8 - lc" 8 s.props.lc
      let row := ((len &&& ((1 <<< s.props.lp) - 1)) <<< s.props.lc) + (prev.toNat >>> sh)
      if row * 0x300 + 0x300 ≤ s.probs.lit.size then pure row else oob
    matchByte := do
      let b ← LzBuf.lastN w (s.rep0 + 1)
      pure b.toNat }

inductive Status where
  | continue
  | finished
  deriving Repr, DecidableEq, Inhabited

/-- the `update = true` effects of `process_next_inner` for a decoded symbol -/
def applySym (s : DState) (w : ω) (rc : RC) (rd : Rd) : RawSym → M (Status × DState × ω)
  | .lit byte => do
    let w ← LzBuf.appendLiteral w (UInt8.ofNat byte)
    let st := if s.state < 4 then 0 else if s.state < 10 then s.state - 3 else s.state - 6
    pure (.continue, { s with state := st }, w)
  | .shortRep => do
    let st := if s.state < 7 then 9 else 11
    let w ← LzBuf.appendLz w 1 (s.rep0 + 1)
    pure (.continue, { s with state := st }, w)
  | .rep idx len => do
    let s := match idx with
      | 0 => s
      | 1 => { s with rep0 := s.rep1, rep1 := s.rep0 }
      | 2 => { s with rep0 := s.rep2, rep1 := s.rep0, rep2 := s.rep1 }
      | _ => { s with rep0 := s.rep3, rep1 := s.rep0, rep2 := s.rep1, rep3 := s.rep2 }
    let s := { s with state := if s.state < 7 then 8 else 11 }
    let w ← LzBuf.appendLz w (len + 2) (s.rep0 + 1)
    pure (.continue, s, w)
  | .mtch len r0 => do
    let s := { s with rep3 := s.rep2, rep2 := s.rep1, rep1 := s.rep0, rep0 := r0,
                      state := if s.state < 7 then 7 else 10 }
    if r0 = 0xFFFFFFFF then do
      let fin ← liftE (rc.isFinishedOk rd)
      if fin then pure (.finished, s, w) else throwM .lzma
    else do
      let w ← LzBuf.appendLz w (len + 2) (s.rep0 + 1)
      pure (.continue, s, w)

/-- `process_next` (`process_next_inner` with `update = true`) -/
def processNext (s : DState) (w : ω) (rc : RC) (rd : Rd) : M (Status × DState × ω × RC × Rd) := do
  let (sym, probs, rc, rd) ← liftE (runDec true (symTree (s.mkCtx w)) s.probs rc rd)
  let (st, s, w) ← applySym { s with probs := probs } w rc rd sym
  pure (st, s, w, rc, rd)

/-- `try_process_next`: dry run on `buf`; only success/failure is used -/
def tryProcessNext (s : DState) (w : ω) (buf : Bytes) (rc : RC) : Bool :=
  match runDec false (symTree (s.mkCtx w)) s.probs rc (Rd.ofBytes buf) with
  | .ok _ => true
  | .error _ => false

inductive Mode where
  | stream
  | finish
  deriving Repr, DecidableEq, Inhabited

def MAX_REQUIRED_INPUT : Nat := 20

/-- `read_partial_input_buf`: `read` into the free tail of the 20-byte buffer -/
def readPartialInputBuf (s : DState) (rd : Rd) : Except Err (DState × Rd) :=
  let room := MAX_REQUIRED_INPUT - s.partialBuf.length
  if room > 0 ∧ rd.rem.isEmpty ∧ rd.bad then .error .io
  else
    let k := min room rd.rem.length
    .ok ({ s with partialBuf := s.partialBuf ++ rd.rem.take k }, { rd with rem := rd.rem.drop k })

/-- the loop of `process_mode`; returns when the Rust loop `break`s or returns early -/
def processLoop (mode : Mode) : Nat → DState → ω → RC → Rd → M (DState × ω × RC × Rd)
  | 0, _, _, _, _ => throwM .fuel
  | fuel+1, s, w, rc, rd => do
    let stop ← liftE (match s.unpackedSize with
      | some n => pure (decide (LzBuf.len w ≥ n))
      | none =>
        match mode with
        | .stream => do
          let e ← rd.isEof
          pure (e && s.partialBuf.isEmpty)
        | .finish => do
          let f ← rc.isFinishedOk rd
          pure (f && s.partialBuf.isEmpty))
    if stop then pure (s, w, rc, rd)
    else if !s.partialBuf.isEmpty then do
      let (s, rd) ← liftE (s.readPartialInputBuf rd)
      if mode = .stream ∧ s.partialBuf.length < MAX_REQUIRED_INPUT ∧
          !(s.tryProcessNext w s.partialBuf rc) then
        pure (s, w, rc, rd)
      else do
        let (st, s', w, rc, tmp) ← processNext s w rc (Rd.ofBytes s.partialBuf)
        let s := { s' with partialBuf := tmp.rem }
        if st = .finished then pure (s, w, rc, rd) else processLoop mode fuel s w rc rd
    else do
      liftE rd.fillBuf
      if mode = .stream ∧ rd.rem.length < MAX_REQUIRED_INPUT ∧ !(s.tryProcessNext w rd.rem rc) then do
        let (s, rd) ← liftE (s.readPartialInputBuf rd)
        pure (s, w, rc, rd)
      else do
        let (st, s, w, rc, rd) ← processNext s w rc rd
        if st = .finished then pure (s, w, rc, rd) else processLoop mode fuel s w rc rd

/-- fuel that always suffices: every iteration decodes at least one bit, and a
bit either consumes an input byte or strictly shrinks `range < 2^32` -/
def loopFuel (s : DState) (rd : Rd) : Nat := (rd.rem.length + s.partialBuf.length + 1) * U32 + 1

/-- `process_mode` -/
def processMode (mode : Mode) (s : DState) (w : ω) (rc : RC) (rd : Rd) :
    M (DState × ω × RC × Rd) := do
  let (s, w, rc, rd) ← processLoop mode (loopFuel s rd) s w rc rd
  match s.unpackedSize with
  | some n =>
    if mode = .finish ∧ n ≠ LzBuf.len w then throwM .lzma else pure (s, w, rc, rd)
  | none => pure (s, w, rc, rd)

end DState
end Lzma
