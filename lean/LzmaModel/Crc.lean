/-
  LzmaModel.Crc — the two CRC functions of `xz/crc.rs` (crate `crc`:
  `CRC_32_ISO_HDLC`, `CRC_64_XZ`), bitwise and executable.  All proofs treat
  them as opaque functions; the correspondence run validates them against the
  crate on every run.
-/
import LzmaModel.Basic
namespace Lzma

def crc32Step (crc : UInt32) (b : UInt8) : UInt32 := Id.run do
  let mut c := crc ^^^ b.toUInt32
  for _ in [0:8] do
    c := if c &&& 1 = 1 then (c >>> 1) ^^^ 0xEDB88320 else c >>> 1
  return c

def crc32 (bs : Bytes) : Nat :=
  ((bs.foldl crc32Step 0xFFFFFFFF) ^^^ 0xFFFFFFFF).toNat

def crc64Step (crc : UInt64) (b : UInt8) : UInt64 := Id.run do
  let mut c := crc ^^^ b.toUInt64
  for _ in [0:8] do
    c := if c &&& 1 = 1 then (c >>> 1) ^^^ 0xC96C5795D7870F42 else c >>> 1
  return c

def crc64 (bs : Bytes) : Nat :=
  ((bs.foldl crc64Step 0xFFFFFFFFFFFFFFFF) ^^^ 0xFFFFFFFFFFFFFFFF).toNat

end Lzma
