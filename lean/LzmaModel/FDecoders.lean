/-
  LzmaModel.FDecoders — the ONE-SHOT decoders written once over an abstract
  input reader (property C13, whole decoders).

  `DecSrc ρ` is the reader interface the one-shot decoders use (on top of
  `ByteSrc ρ` = `read_u8`, `read_u32::<BigEndian>`, `is_eof`).  Every `…G`
  function below is a line-by-line copy of the model function of the same name
  (`Decoder.lean`, `Lzma.lean`, `Lzma2.lean`, `Xz.lean`) with the concrete flat
  reader `Rd` replaced by `ρ`:

  * instance `DecSrc Rd`  = the model's own reader functions, so that the `…G`
    function at `ρ := Rd` IS the model function (proved in
    `LzmaProofs/Lemmas/FDecoders.lean`, `…G_Rd`);
  * instance `DecSrc FRd` = the std-faithful primitives of the fragmented
    reader (`LzmaModel/FReader.lean`).

  Scope.  `process_mode` is transcribed for `ProcessingMode::Finish` only (the
  one-shot decoders never use `Partial`; `Partial` inspects the CONTENTS of
  `fill_buf` and is only ever run by `Stream` on in-memory cursors).  In Finish
  mode with nothing staged in `partial_input_buf` (always the case for the
  one-shot decoders: the buffer starts empty and only `Partial` mode fills it)
  the loop uses its reader only through `is_eof`, the ERROR behaviour of
  `fill_buf`, and `read_u8`.  The branch for a non-empty `partial_input_buf` is
  transcribed too (it needs one raw `read`, whose result does depend on the
  fragmentation) so that the generic loop equals the model loop without side
  condition; the correspondence theorems assume the buffer empty.

  `content` is a specification-level observer (the bytes not yet consumed); it
  is used exactly where the flat model uses `rd.rem`: loop fuel, the
  `CountBufRead` byte counts (differences of remaining lengths) and the bytes a
  `CrcDigestRead` has seen when the `Take` it wraps has been drained.

  XZ block header.  Rust parses it through
  `BufReader::new(CrcDigestRead::new(&mut count_input.take(header_size)))`.
  As in the flat model, `readBlockG` takes `header_size` bytes off the reader and
  parses the taken sub-reader directly.  The `BufReader` in between only decides
  HOW MANY of the header bytes have been pulled from the caller's reader at the
  moment a header parse FAILS (finding K2, `FRd.k2Probe`); a successful parse
  has drained the `Take` (`flush_zero_padding`), so that all `header_size` bytes
  are consumed and digested whatever the fragmentation.

  Core Lean only.
-/
import LzmaModel.FReader
import LzmaModel.Xz
namespace Lzma

/-- what the one-shot decoders need from their reader beyond `ByteSrc` -/
class DecSrc (ρ : Type) [ByteSrc ρ] where
  /-- what `Read::take` leaves behind (the part of the reader beyond the limit) -/
  Rest : Type
  /-- specification-level: the bytes not yet consumed -/
  content : ρ → Bytes
  /-- `fill_buf()?` where only the error matters -/
  fillBufOk : ρ → Except Err Unit
  /-- ONE raw `read` into a buffer of the given length (used only for `partial_input_buf`) -/
  read : ρ → Nat → Except Err (Bytes × ρ)
  readExact : ρ → Nat → Except Err (Bytes × ρ)
  readU16BE : ρ → Except Err (Nat × ρ)
  readU32LE : ρ → Except Err (Nat × ρ)
  readU64LE : ρ → Except Err (Nat × ρ)
  readTag : ρ → Bytes → Except Err (Bool × ρ)
  flushZeroPadding : ρ → Except Err (Bool × ρ)
  /-- `Read::take(n)` -/
  take : ρ → Nat → ρ × Rest
  /-- drop the `Take`, continuing with the underlying reader -/
  unsplit : ρ → ρ → Rest → ρ

/-- the raw `read` of the flat reader as `read_partial_input_buf` sees it -/
def Rd.readRaw (rd : Rd) (room : Nat) : Except Err (Bytes × Rd) :=
  if room > 0 ∧ rd.rem.isEmpty ∧ rd.bad then .error .io
  else
    let k := min room rd.rem.length
    .ok (rd.rem.take k, { rd with rem := rd.rem.drop k })

instance : DecSrc Rd where
  Rest := Bytes
  content := Rd.rem
  fillBufOk := Rd.fillBuf
  read := Rd.readRaw
  readExact := Rd.readExact
  readU16BE := Rd.readU16BE
  readU32LE := Rd.readU32LE
  readU64LE := Rd.readU64LE
  readTag := Rd.readTag
  flushZeroPadding := Rd.flushZeroPadding
  take := Rd.split
  unsplit := Rd.unsplit

/-- `fill_buf()?` on a fragmented reader, result discarded -/
def FRd.fillBufOk (r : FRd) : Except Err Unit :=
  match r.fillBuf with
  | .ok _ => .ok ()
  | .error e => .error e

instance : DecSrc FRd where
  Rest := List Bytes
  content := FRd.join
  fillBufOk := FRd.fillBufOk
  read := FRd.read
  readExact := FRd.readExact
  readU16BE := FRd.readU16BE
  readU32LE := FRd.readU32LE
  readU64LE := FRd.readU64LE
  readTag := FRd.readTag
  flushZeroPadding := FRd.flushZeroPadding
  take := FRd.take
  unsplit := FRd.unsplit

section
variable {ρ : Type} [ByteSrc ρ]

/-! ## `decode/lzma.rs` -/

namespace DState
variable {ω : Type} [LzBuf ω]

/-- `applySym` over an abstract reader -/
def applySymG (s : DState) (w : ω) (rc : RC) (rd : ρ) : RawSym → M (Status × DState × ω)
  | .lit byte => do
    let w ← LzBuf.appendLiteral w (UInt8.ofNat byte)
    let st := if s.state < 4 then 0 else if s.state < 10 then s.state - 3 else s.state - 6
    pure (.continue, { s with state := st }, w)
  | .shortRep => do
    let st := if s.state < 7 then 9 else 11
    let w ← LzBuf.appendLz w 1 (s.rep0 + 1)
    pure (.continue, { s with state := st }, w)
  | .rep idx len => do
    let s := match idx with
      | 0 => s
      | 1 => { s with rep0 := s.rep1, rep1 := s.rep0 }
      | 2 => { s with rep0 := s.rep2, rep1 := s.rep0, rep2 := s.rep1 }
      | _ => { s with rep0 := s.rep3, rep1 := s.rep0, rep2 := s.rep1, rep3 := s.rep2 }
    let s := { s with state := if s.state < 7 then 8 else 11 }
    let w ← LzBuf.appendLz w (len + 2) (s.rep0 + 1)
    pure (.continue, s, w)
  | .mtch len r0 => do
    let s := { s with rep3 := s.rep2, rep2 := s.rep1, rep1 := s.rep0, rep0 := r0,
                      state := if s.state < 7 then 7 else 10 }
    if r0 = 0xFFFFFFFF then do
      let fin ← liftE (rc.isFinishedOkG rd)
      if fin then pure (.finished, s, w) else throwM .lzma
    else do
      let w ← LzBuf.appendLz w (len + 2) (s.rep0 + 1)
      pure (.continue, s, w)

/-- `processNext` over an abstract reader -/
def processNextG (s : DState) (w : ω) (rc : RC) (rd : ρ) : M (Status × DState × ω × RC × ρ) := do
  let (sym, probs, rc, rd) ← liftE (runDecG true (symTree (s.mkCtx w)) s.probs rc rd)
  let (st, s, w) ← applySymG { s with probs := probs } w rc rd sym
  pure (st, s, w, rc, rd)

variable [DecSrc ρ]

/-- `readPartialInputBuf` over an abstract reader: ONE raw `read` into the free
tail of the 20-byte buffer -/
def readPartialInputBufG (s : DState) (rd : ρ) : Except Err (DState × ρ) :=
  match DecSrc.read rd (MAX_REQUIRED_INPUT - s.partialBuf.length) with
  | .error e => .error e
  | .ok (bs, rd) => .ok ({ s with partialBuf := s.partialBuf ++ bs }, rd)

/-- `processLoop .finish` over an abstract reader -/
def processLoopG : Nat → DState → ω → RC → ρ → M (DState × ω × RC × ρ)
  | 0, _, _, _, _ => throwM .fuel
  | fuel+1, s, w, rc, rd => do
    let stop ← liftE (match s.unpackedSize with
      | some n => pure (decide (LzBuf.len w ≥ n))
      | none => do
        let f ← rc.isFinishedOkG rd
        pure (f && s.partialBuf.isEmpty))
    if stop then pure (s, w, rc, rd)
    else if !s.partialBuf.isEmpty then do
      let (s, rd) ← liftE (s.readPartialInputBufG rd)
      let (st, s', w, rc, tmp) ← processNext s w rc (Rd.ofBytes s.partialBuf)
      let s := { s' with partialBuf := tmp.rem }
      if st = .finished then pure (s, w, rc, rd) else processLoopG fuel s w rc rd
    else do
      liftE (DecSrc.fillBufOk rd)
      let (st, s, w, rc, rd) ← processNextG s w rc rd
      if st = .finished then pure (s, w, rc, rd) else processLoopG fuel s w rc rd

/-- `loopFuel` over an abstract reader -/
def loopFuelG (s : DState) (rd : ρ) : Nat :=
  ((DecSrc.content rd).length + s.partialBuf.length + 1) * U32 + 1

/-- `processMode .finish` over an abstract reader -/
def processModeG (s : DState) (w : ω) (rc : RC) (rd : ρ) : M (DState × ω × RC × ρ) := do
  let (s, w, rc, rd) ← processLoopG (loopFuelG s rd) s w rc rd
  match s.unpackedSize with
  | some n =>
    if n ≠ LzBuf.len w then throwM .lzma else pure (s, w, rc, rd)
  | none => pure (s, w, rc, rd)

end DState

variable [DecSrc ρ]

/-! ## `decode/lzma.rs` / `lib.rs`: the `.lzma` decoder -/

/-- `readHeader` over an abstract reader -/
def readHeaderG (rd : ρ) (opts : Options) : Except Err (LzmaParams × ρ) := do
  let (props, rd) ← hdrErr (ByteSrc.readU8 rd)
  let pb := props.toNat
  if pb ≥ 225 then throw .lzma
  let lc := pb % 9
  let pb := pb / 9
  let lp := pb % 5
  let pb := pb / 5
  let (dictProvided, rd) ← hdrErr (DecSrc.readU32LE rd)
  let dictSize := if dictProvided < 0x1000 then 0x1000 else dictProvided
  let (unpackedSize, rd) ← match opts.unpackedSize with
    | .readFromHeader => do
      let (u, rd) ← hdrErr (DecSrc.readU64LE rd)
      pure (if u = 0xFFFFFFFFFFFFFFFF then none else some u, rd)
    | .readHeaderButUseProvided x => do
      let (_, rd) ← hdrErr (DecSrc.readU64LE rd)
      pure (x, rd)
    | .useProvided x => pure (x, rd)
  pure ({ props := { lc := lc, lp := lp, pb := pb }, dictSize := dictSize, unpackedSize := unpackedSize }, rd)

/-- `LzmaDecoder.decompress` over an abstract reader -/
def LzmaDecoder.decompressG (d : LzmaDecoder) (rd : ρ) : M (LzmaDecoder × ρ) := do
  let w := Circ.fromStream d.params.dictSize d.memlimit
  let (rc, rd) ← liftE (match RC.newG rd with
    | .ok x => .ok x
    | .error _ => .error .lzma)
  let (st, w, _, rd) ← d.state.processModeG w rc rd
  w.finish
  pure ({ d with state := st }, rd)

/-- `lzmaDecompress` over an abstract reader -/
def lzmaDecompressG (rd : ρ) (opts : Options) : M ρ := do
  let (params, rd) ← liftE (readHeaderG rd opts)
  let dec ← liftE (LzmaDecoder.new params opts.memlimit)
  let (_, rd) ← dec.decompressG rd
  pure rd

/-! ## `decode/lzma2.rs` -/

namespace Lzma2Decoder

/-- `parseUncompressed` over an abstract reader -/
def parseUncompressedG (accum : Accum) (rd : ρ) (resetDict : Bool) : M (Accum × ρ) := do
  let (u, rd) ← liftE (lzErr (DecSrc.readU16BE rd))
  let unpackedSize := u + 1
  let accum ← if resetDict then accum.reset else pure accum
  let (buf, rd) ← liftE (lzErr (DecSrc.readExact rd unpackedSize))
  pure (accum.appendBytes buf, rd)

/-- `parseLzma` over an abstract reader -/
def parseLzmaG (d : Lzma2Decoder) (accum : Accum) (rd : ρ) (status : Nat) :
    M (Lzma2Decoder × Accum × ρ) := do
  if status &&& 0x80 = 0 then throwM .lzma
  let cls := (status >>> 5) &&& 0x3
  let resetDict := cls = 3
  let resetState := cls ≥ 1
  let resetProps := cls ≥ 2
  let (u, rd) ← liftE (lzErr (DecSrc.readU16BE rd))
  let unpackedSize := (((status &&& 0x1F) <<< 16) ||| u) + 1
  let (p, rd) ← liftE (lzErr (DecSrc.readU16BE rd))
  let packedSize := p + 1
  let accum ← if resetDict then accum.reset else pure accum
  let (st, rd) ← if resetState then do
      let (newProps, rd) ← if resetProps then do
          let (props, rd) ← liftE (lzErr (ByteSrc.readU8 rd))
          let pb := props.toNat
          if pb ≥ 225 then throwM .lzma
          let lc := pb % 9
          let pb := pb / 9
          let lp := pb % 5
          let pb := pb / 5
          if lc + lp > 4 then throwM .lzma
          pure (({ lc := lc, lp := lp, pb := pb } : Props), rd)
        else pure (d.lzmaState.props, rd)
      let st ← liftE (d.lzmaState.resetState newProps)
      pure (st, rd)
    else pure (d.lzmaState, rd)
  let st := st.setUnpackedSize (some (unpackedSize + accum.len))
  let (taken, rest) := DecSrc.take rd packedSize
  let (rc, taken) ← liftE (lzErr (RC.newG taken))
  let (st, accum, rc, taken) ← st.processModeG accum rc taken
  let fin ← liftE (rc.isFinishedOkG taken)
  if !fin then throwM .lzma
  pure ({ lzmaState := st }, accum, DecSrc.unsplit rd taken rest)

/-- `chunkLoop` over an abstract reader -/
def chunkLoopG : Nat → Lzma2Decoder → Accum → ρ → M (Lzma2Decoder × Accum × ρ)
  | 0, _, _, _ => throwM .fuel
  | fuel+1, d, accum, rd => do
    let (status, rd) ← liftE (lzErr (ByteSrc.readU8 rd))
    let status := status.toNat
    if status = 0 then pure (d, accum, rd)
    else if status = 1 then do
      let (accum, rd) ← parseUncompressedG accum rd true
      chunkLoopG fuel d accum rd
    else if status = 2 then do
      let (accum, rd) ← parseUncompressedG accum rd false
      chunkLoopG fuel d accum rd
    else do
      let (d, accum, rd) ← d.parseLzmaG accum rd status
      chunkLoopG fuel d accum rd

/-- `Lzma2Decoder.decompress` over an abstract reader -/
def decompressG (d : Lzma2Decoder) (rd : ρ) : M (Lzma2Decoder × ρ) := do
  let accum := Accum.fromStream USIZE_MAX
  let (d, accum, rd) ← chunkLoopG ((DecSrc.content rd).length + 1) d accum rd
  accum.finish
  pure (d, rd)

end Lzma2Decoder

/-- `lzma2Decompress` over an abstract reader -/
def lzma2DecompressG (rd : ρ) : M ρ := do
  let d ← liftE Lzma2Decoder.new
  let (_, rd) ← d.decompressG rd
  pure rd

/-! ## `decode/xz.rs` -/

/-- `parseStreamHeader` over an abstract reader -/
def parseStreamHeaderG (rd : ρ) : Except Err (CheckMethod × ρ) := do
  let (ok, rd) ← DecSrc.readTag rd XZ_MAGIC
  if !ok then throw .xz
  let (flagBytes, rd) ← DecSrc.readExact rd 2
  let (crc, rd) ← DecSrc.readU32LE rd
  if crc ≠ crc32 flagBytes then throw .xz
  let check ← parseStreamFlags (beVal flagBytes)
  pure (check, rd)

/-- `getMultibyteAux` over an abstract reader -/
def getMultibyteAuxG : Nat → Nat → Nat → Bytes → ρ → Except Err (Nat × Bytes × ρ)
  | 0, _, _, _, _ => throw .xz
  | fuel+1, i, result, acc, rd => do
    let (byte, rd) ← ByteSrc.readU8 rd
    let result := result ^^^ ((byte.toNat &&& 0x7F) <<< (i * 7))
    if byte.toNat &&& 0x80 = 0 then pure (result, acc ++ [byte], rd)
    else getMultibyteAuxG fuel (i + 1) result (acc ++ [byte]) rd

def getMultibyteG (rd : ρ) : Except Err (Nat × Bytes × ρ) := getMultibyteAuxG 9 0 0 [] rd

def readZeroBytesG : Nat → Bytes → ρ → Except Err (Bytes × ρ)
  | 0, acc, rd => pure (acc, rd)
  | n+1, acc, rd => do
    let (b, rd) ← ByteSrc.readU8 rd
    if b ≠ 0 then throw .xz
    readZeroBytesG n (acc ++ [b]) rd

def checkRecordsG : List Record → Bytes → ρ → Except Err (Bytes × ρ)
  | [], dig, rd => pure (dig, rd)
  | r :: rs, dig, rd => do
    let (unpadded, b1, rd) ← getMultibyteG rd
    if unpadded ≠ r.unpaddedSize then throw .xz
    let (unpacked, b2, rd) ← getMultibyteG rd
    if unpacked ≠ r.unpackedSize then throw .xz
    checkRecordsG rs (dig ++ b1 ++ b2) rd

/-- `checkIndex` over an abstract reader -/
def checkIndexG (start : Nat) (records : List Record) (rd : ρ) : Except Err ρ := do
  let dig : Bytes := [0]
  let (numRecords, b, rd) ← getMultibyteG rd
  if numRecords ≠ records.length then throw .xz
  let (dig, rd) ← checkRecordsG records (dig ++ b) rd
  let count := start - (DecSrc.content rd).length
  let (pad, rd) ← readZeroBytesG (paddingSize count) [] rd
  let dig := dig ++ pad
  let (crc, rd) ← DecSrc.readU32LE rd
  if crc ≠ crc32 dig then throw .xz
  pure rd

def readFiltersG : Nat → Nat → List Filter → ρ → Except Err (List Filter × ρ)
  | 0, _, acc, rd => pure (acc, rd)
  | n+1, headerSize, acc, rd => do
    let (id, _, rd) ← getMultibyteG rd
    if id ≠ 0x21 then throw .xz
    let (sizeOfProps, _, rd) ← getMultibyteG rd
    if sizeOfProps > headerSize then throw .xz
    let (buf, rd) ← match DecSrc.readExact rd sizeOfProps with
      | .ok x => pure x
      | .error _ => throw .xz
    readFiltersG n headerSize (acc ++ [{ props := buf }]) rd

/-- `readBlockHeader` over an abstract reader (the `Take`n header bytes) -/
def readBlockHeaderG (rd : ρ) (headerSize : Nat) : Except Err (BlockHeader × ρ) := do
  let (flags, rd) ← ByteSrc.readU8 rd
  let flags := flags.toNat
  let numFilters := (flags &&& 0x03) + 1
  if flags &&& 0x3C ≠ 0 then throw .xz
  let (packedSize, rd) ← if flags &&& 0x40 ≠ 0 then do
      let (v, _, rd) ← getMultibyteG rd
      pure (some v, rd)
    else pure (none, rd)
  let (unpackedSize, rd) ← if flags &&& 0x80 ≠ 0 then do
      let (v, _, rd) ← getMultibyteG rd
      pure (some v, rd)
    else pure (none, rd)
  let (filters, rd) ← readFiltersG numFilters headerSize [] rd
  let (ok, rd) ← DecSrc.flushZeroPadding rd
  if !ok then throw .xz
  pure ({ filters := filters, packedSize := packedSize, unpackedSize := unpackedSize }, rd)

/-- `decodeFilter` over an abstract reader -/
def decodeFilterG (rd : ρ) (f : Filter) : Except Err (Bytes × ρ) := do
  if f.props.length ≠ 1 then throw .xz
  let d ← Lzma2Decoder.new
  match d.decompressG rd {} with
  | (snk, .ok (_, rd)) => pure (snk.out.toList, rd)
  | (_, .error e) => throw e

/-- `validateBlockCheck` over an abstract reader -/
def validateBlockCheckG (rd : ρ) (buf : Bytes) : CheckMethod → Except Err ρ
  | .none => pure rd
  | .crc32 => do
    let (crc, rd) ← DecSrc.readU32LE rd
    if crc ≠ crc32 buf then throw .xz
    pure rd
  | .crc64 => do
    let (crc, rd) ← DecSrc.readU64LE rd
    if crc ≠ crc64 buf then throw .xz
    pure rd
  | .sha256 => throw .xz

/-- `readBlock` over an abstract reader.  Filters after the first run on
in-memory data (`laterFilters`, unchanged). -/
def readBlockG (start : Nat) (rd : ρ) (check : CheckMethod) (hsByte : UInt8) :
    M (Record × ρ) := do
  let headerSize ← liftE (subChk "read_block: (header_size << 2) - 1" (hsByte.toNat <<< 2) 1)
  let (hdrRd, rest) := DecSrc.take rd headerSize
  let hdrBytes := DecSrc.content hdrRd
  let (bh, hdrRd) ← liftE (readBlockHeaderG hdrRd headerSize)
  let rd := DecSrc.unsplit rd hdrRd rest
  let (crc, rd) ← liftE (DecSrc.readU32LE rd)
  if crc ≠ crc32 (hsByte :: hdrBytes) then throwM .xz
  let tmpbuf ← liftE (match bh.filters with
    | [] => pure ([], rd)      -- unreachable: num_filters ≥ 1
    | f :: fs => do
      let before := (DecSrc.content rd).length
      let (buf, rd) ← decodeFilterG rd f
      let packed := before - (DecSrc.content rd).length
      match bh.packedSize with
      | some e => if packed ≠ e then throw .xz
      | none => pure ()
      let buf ← laterFilters fs buf
      pure (buf, rd))
  let (tmpbuf, rd) := tmpbuf
  let unpackedSize := tmpbuf.length
  match bh.unpackedSize with
  | some e => if unpackedSize ≠ e then throwM .xz
  | none => pure ()
  let count := start - (DecSrc.content rd).length
  let padding := paddingSize count
  let (_, rd) ← liftE (readZeroBytesG padding [] rd)
  let rd ← liftE (validateBlockCheckG rd tmpbuf check)
  writeAll tmpbuf.toArray
  let unpadded ← liftE (subChk "read_block: count - padding_size" (start - (DecSrc.content rd).length) padding)
  pure ({ unpaddedSize := unpadded, unpackedSize := unpackedSize }, rd)

/-- `blockLoop` over an abstract reader -/
def blockLoopG (check : CheckMethod) : Nat → List Record → ρ → M (Nat × ρ)
  | 0, _, _ => throwM .fuel
  | fuel+1, records, rd => do
    let start := (DecSrc.content rd).length
    let (hs, rd) ← liftE (ByteSrc.readU8 rd)
    if hs = 0 then do
      let rd ← liftE (checkIndexG start records rd)
      pure (start - (DecSrc.content rd).length, rd)
    else do
      let (rec, rd) ← readBlockG start rd check hs
      blockLoopG check fuel (records ++ [rec]) rd

/-- `xzDecompress` over an abstract reader -/
def xzDecompressG (rd : ρ) : M ρ := do
  let (check, rd) ← liftE (parseStreamHeaderG rd)
  if check = .sha256 then throwM .xz
  let (indexSize, rd) ← blockLoopG check ((DecSrc.content rd).length + 1) [] rd
  let (crc, rd) ← liftE (DecSrc.readU32LE rd)
  let (bsBytes, rd) ← liftE (DecSrc.readExact rd 4)
  let backwardSize := leVal bsBytes
  if indexSize ≠ (backwardSize + 1) <<< 2 then throwM .xz
  let (flagBytes, rd) ← liftE (DecSrc.readExact rd 2)
  let flags ← liftE (parseStreamFlags (beVal flagBytes))
  if check ≠ flags then throwM .xz
  if crc ≠ crc32 (bsBytes ++ flagBytes) then throwM .xz
  let (ok, rd) ← liftE (DecSrc.readTag rd XZ_MAGIC_FOOTER)
  if !ok then throwM .xz
  let eof ← liftE (ByteSrc.isEof rd)
  if !eof then throwM .xz
  pure rd

end

end Lzma
