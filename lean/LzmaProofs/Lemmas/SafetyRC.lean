/-
  C07 — layer 1: the range decoder (`RC.new`, `normalize`, `getBit`, `decodeBit`)
  is safe under `RCInv`, keeps `RCInv`, and every decoded bit strictly decreases
  the measure `mu = remaining bytes * 2^32 + range`.
-/
import LzmaProofs.Lemmas.Safety
namespace Lzma
namespace Safety

/-- a stored probability: `31 ≤ v ≤ 2017` (so `0 < v < 0x800`) -/
def PVal (v : Nat) : Prop := 31 ≤ v ∧ v ≤ 2017

theorem PVal_init : PVal 0x400 := by unfold PVal; omega

/-- the range-decoder invariant between two bits -/
def RCInv (rc : RC) : Prop := 0x1000000 ≤ rc.range ∧ rc.range < 4294967296 ∧ rc.code < 4294967296

/-- termination measure of the symbol loop -/
def mu (rd : Rd) (rc : RC) : Nat := rd.rem.length * 4294967296 + rc.range

theorem RC_new_safe (rd : Rd) :
    ESafe (fun x => RCInv x.1 ∧ x.2.rem.length + 5 = rd.rem.length) (RC.new rd) := by
  unfold RC.new
  refine (readU8_safe rd).bind ?_
  rintro ⟨b, rd1⟩ h1
  refine (readU32BE_safe rd1).bind ?_
  rintro ⟨code, rd2⟩ ⟨h2, h3⟩
  simp only [ESafe_pure, RCInv]
  simp at h1 h2 h3 ⊢
  omega

theorem xor_byte_lt (c : Nat) (b : UInt8) :
    ((c <<< 8) % 4294967296) ^^^ b.toNat < 4294967296 := by
  have h1 : (c <<< 8) % 4294967296 < 2 ^ 32 := Nat.mod_lt _ (by omega)
  have h2 : b.toNat < 2 ^ 32 := Nat.lt_trans b.toNat_lt (by omega)
  exact Nat.xor_lt_two_pow h1 h2

/-- `normalize` after a bit: the range before is in `[2^16, 2^32)`. -/
theorem normalize_safe (rc : RC) (rd : Rd) (h1 : 0x10000 ≤ rc.range) (h2 : rc.range < 4294967296)
    (h3 : rc.code < 4294967296) :
    ESafe (fun x => RCInv x.1 ∧ x.2.rem.length ≤ rd.rem.length ∧ mu x.2 x.1 ≤ mu rd rc)
      (RC.normalize rc rd) := by
  unfold RC.normalize
  split
  · rename_i hlt
    refine (readU8_safe rd).bind ?_
    rintro ⟨b, rd1⟩ h
    simp only [ESafe_pure, RCInv, mu, shlU32, U32, Nat.shiftLeft_eq] at *
    have := xor_byte_lt rc.code b
    simp only [Nat.shiftLeft_eq] at this
    refine ⟨⟨?_, ?_, this⟩, ?_, ?_⟩ <;> omega
  · simp only [ESafe_pure, RCInv, mu]
    omega

theorem getBit_safe (rc : RC) (rd : Rd) (h : RCInv rc) :
    ESafe (fun x => RCInv x.2.1 ∧ x.2.2.rem.length ≤ rd.rem.length ∧ mu x.2.2 x.2.1 < mu rd rc)
      (RC.getBit rc rd) := by
  unfold RC.getBit
  obtain ⟨h1, h2, h3⟩ := h
  have hr : rc.range >>> 1 = rc.range / 2 := by simp [Nat.shiftRight_eq_div_pow]
  refine ESafe.bind (normalize_safe _ rd ?_ ?_ ?_) ?_
  · simp only [hr]; omega
  · simp only [hr]; omega
  · simp only [hr]; split <;> omega
  · rintro ⟨rc', rd'⟩ ⟨hi, hl, hm⟩
    simp only [ESafe_pure]
    refine ⟨hi, hl, ?_⟩
    simp only [mu, hr] at hm ⊢
    omega

/-- probability update keeps `PVal` -/
theorem PVal_up {p : Nat} (h : PVal p) : PVal (p + (0x800 - p) >>> 5) := by
  unfold PVal at *
  simp only [Nat.shiftRight_eq_div_pow]
  omega

theorem PVal_down {p : Nat} (h : PVal p) : PVal (p - p >>> 5) := by
  unfold PVal at *
  simp only [Nat.shiftRight_eq_div_pow]
  omega

theorem decodeBit_safe (u : Bool) (p : Nat) (rc : RC) (rd : Rd) (hp : PVal p) (h : RCInv rc) :
    ESafe (fun x => PVal x.2.1 ∧ RCInv x.2.2.1 ∧ x.2.2.2.rem.length ≤ rd.rem.length ∧
        mu x.2.2.2 x.2.2.1 < mu rd rc)
      (RC.decodeBit u p rc rd) := by
  unfold RC.decodeBit
  obtain ⟨h1, h2, h3⟩ := h
  have hp' := hp
  obtain ⟨hp1, hp2⟩ := hp'
  have hq : rc.range >>> 11 = rc.range / 2048 := by simp [Nat.shiftRight_eq_div_pow]
  have hb1 : rc.range / 2048 * 31 ≤ rc.range / 2048 * p := Nat.mul_le_mul_left _ hp1
  have hb2 : rc.range / 2048 * p ≤ rc.range / 2048 * 2017 := Nat.mul_le_mul_left _ hp2
  rw [hq]
  generalize hbd : rc.range / 2048 * p = bound at *
  have hmul : mulChk U32 "decode_bit: bound overflow" (rc.range / 2048) p = .ok bound := by
    rw [← hbd]; apply mulChk_safe; rw [hbd]; simp only [U32]; omega
  rw [hmul]
  show ESafe _ (if rc.code < bound then _ else _)
  split
  · rename_i hlt
    have hup := PVal_up hp
    have key : ∀ p', PVal p' → ESafe (fun x => PVal x.2.1 ∧ RCInv x.2.2.1 ∧
        x.2.2.2.rem.length ≤ rd.rem.length ∧ mu x.2.2.2 x.2.2.1 < mu rd rc)
        (do let (rc', rd') ← RC.normalize { range := bound, code := rc.code } rd
            pure (false, p', rc', rd')) := by
      intro p' hpv
      refine ESafe.bind (normalize_safe _ rd ?_ ?_ ?_) ?_
      · show 0x10000 ≤ bound; omega
      · show bound < 4294967296; omega
      · exact h3
      · rintro ⟨rc', rd'⟩ ⟨hi, hl, hm⟩
        simp only [ESafe_pure]
        refine ⟨hpv, hi, hl, ?_⟩
        simp only [mu] at hm ⊢
        omega
    cases u
    · exact key p hp
    · simp only [if_true]
      rw [subChk_safe (by omega)]
      simp only [ok_bind]
      rw [addChk_safe (by unfold PVal at hup; simp only [U16]; omega)]
      exact key _ hup
  · rename_i hge
    rw [subChk_safe (by omega)]
    simp only [ok_bind]
    rw [subChk_safe (by omega)]
    simp only [ok_bind]
    refine ESafe.bind (normalize_safe _ rd ?_ ?_ ?_) ?_
    · show 0x10000 ≤ rc.range - bound; omega
    · show rc.range - bound < 4294967296; omega
    · show rc.code - bound < 4294967296; omega
    · rintro ⟨rc', rd'⟩ ⟨hi, hl, hm⟩
      simp only [ESafe_pure]
      refine ⟨?_, hi, hl, ?_⟩
      · show PVal (if u then p - p >>> 5 else p)
        split
        · exact PVal_down hp
        · exact hp
      · simp only [mu] at hm ⊢
        omega

/-- the error of a failing bit is an ordinary end-of-input error -/
theorem decodeBit_ok_or_eof (u : Bool) (p : Nat) (rc : RC) (rd : Rd) (hp : PVal p) (h : RCInv rc) :
    (∃ x, RC.decodeBit u p rc rd = .ok x) ∨ RC.decodeBit u p rc rd = .error rd.endErr ∨
      ∃ e, RC.decodeBit u p rc rd = .error e ∧ bad e = false := by
  have := decodeBit_safe u p rc rd hp h
  cases hx : RC.decodeBit u p rc rd with
  | ok x => exact .inl ⟨x, rfl⟩
  | error e => rw [hx] at this; exact .inr (.inr ⟨e, rfl, this⟩)

end Safety
end Lzma
