/-
  Encoder steps (`normalize`, `encode_bit`, direct bit, `finish`) as pure
  functions on `REnc`, their agreement with the monadic model on an
  all-accepting sink, and their effect on the denoted integer `EV`.
-/
import LzmaProofs.Lemmas.RcEnc
namespace Lzma
open RcArith

/-- admissible adaptive probability: the values reachable from `0x400` -/
def ProbOk (p : Nat) : Prop := 31 ≤ p ∧ p ≤ 2017

instance (p : Nat) : Decidable (ProbOk p) := by unfold ProbOk; infer_instance

/-- the probability update of `encode_bit` / `decode_bit` -/
def updP (p : Nat) (b : Bool) : Nat := if b then p - (p >>> 5) else p + ((0x800 - p) >>> 5)

theorem ProbOk.upd {p : Nat} (h : ProbOk p) (b : Bool) : ProbOk (updP p b) := by
  unfold ProbOk updP at *
  simp only [Nat.shiftRight_eq_div_pow]
  cases b <;> simp <;> omega

theorem probOk_init : ProbOk 0x400 := by decide

namespace REnc

/-- consistent encoder state (between two events) -/
structure EOk (e : REnc) : Prop where
  inv : EInv e e.range
  lo : 16777216 ≤ e.range
  hi : e.range < 4294967296

theorem eok_fresh : EOk ({} : REnc) := by
  refine ⟨⟨?_, ?_, ?_, ?_, ?_⟩, ?_, ?_⟩ <;> simp

/-- `m` is `e` after narrowing the interval: `low += δ`, new width `m.range`,
nested in the old one; the width stays at least `2^16` (one shift renormalises) -/
structure Upd (e m : REnc) (δ : Nat) : Prop where
  cache : m.cache = e.cache
  cachesz : m.cachesz = e.cachesz
  low : m.low = e.low + δ
  nest : δ + m.range ≤ e.range
  lo : 65536 ≤ m.range

theorem Upd.einv {e m : REnc} {δ : Nat} (he : EOk e) (h : Upd e m δ) : EInv m m.range := by
  obtain ⟨⟨a, b, c, d, f⟩, _, _⟩ := he
  obtain ⟨h1, h2, h3, h4, h5⟩ := h
  refine ⟨by omega, by omega, by omega, by omega, fun h => ?_⟩
  have := f (by omega); omega

theorem Upd.ev {e m : REnc} {δ : Nat} (h : Upd e m δ) (out : Bytes) :
    EV m out = EV e out + δ ∧ EN m out = EN e out := by
  obtain ⟨h1, h2, h3, h4, h5⟩ := h
  simp [EV, EN, pend, h1, h2, h3]; omega

/-! ## normalisation (a single shift suffices) -/

/-- `normalize` when the width is at least `2^16`: at most one `write_low` -/
def norm1 (m : REnc) : REnc × Bytes :=
  if m.range < 0x01000000 then wl { m with range := m.range * 256 } else (m, [])

theorem normalize_run (m : REnc) (snk : Sink) (hs : snk.script = []) (hc : 1 ≤ m.cachesz)
    (hlo : 65536 ≤ m.range) :
    ∃ snk', normalize 4 m snk = (snk', .ok (norm1 m).1) ∧ SinkExt snk snk' (norm1 m).2 := by
  unfold norm1
  by_cases h : m.range < 0x01000000
  · obtain ⟨s1, h1, e1⟩ := writeLow_run { m with range := m.range * 256 } snk hs hc
    refine ⟨s1, ?_, by simpa [h] using e1⟩
    have hr : (wl { m with range := m.range * 256 }).1.range = m.range * 256 := wl_range _
    have h3 : ¬ (wl { m with range := m.range * 256 }).1.range < 0x01000000 := by
      rw [hr]; omega
    simp only [h, if_true]
    unfold normalize
    simp only [h, if_true, shlU32_eq _ h]
    rw [bind_run_ok h1]
    unfold normalize
    simp only [h3, if_false]
    rfl
  · refine ⟨snk, ?_, by simpa [h] using SinkExt.refl hs⟩
    unfold normalize
    simp only [h, if_false]
    rfl

/-- effect of `norm1` on a narrowed state -/
theorem norm1_spec (m : REnc) (out : Bytes) (hi : EInv m m.range) (hlo : 65536 ≤ m.range)
    (hhi : m.range < 4294967296) :
    EOk (norm1 m).1 ∧
      (if m.range < 16777216 then
        EV (norm1 m).1 (out ++ (norm1 m).2) = 256 * EV m out ∧
        EN (norm1 m).1 (out ++ (norm1 m).2) = EN m out + 1 ∧
        (norm1 m).1.range = 256 * m.range
      else (norm1 m).1 = m ∧ (norm1 m).2 = []) := by
  unfold norm1
  by_cases h : m.range < 16777216
  · have hi' : EInv { m with range := m.range * 256 } m.range :=
      ⟨hi.cs, hi.cache, hi.rpos, hi.low, hi.ff⟩
    obtain ⟨h1, h2, h3⟩ := wl_spec { m with range := m.range * 256 } out m.range hi' (by omega)
    have hr : (wl { m with range := m.range * 256 }).1.range = m.range * 256 := wl_range _
    have h0 : m.range < 0x01000000 := h
    have hr' : (wl { m with range := m.range * 256 }).1.range = 256 * m.range := by
      rw [hr, Nat.mul_comm]
    simp only [h0, if_true]
    refine ⟨⟨?_, by omega, by omega⟩, ?_, h3, by omega⟩
    · rw [hr']; exact h1
    · rw [h2]
      simp [EV, pend]
  · have h0 : ¬ m.range < 0x01000000 := h
    simp only [h0, if_false]
    exact ⟨⟨hi, by omega, hhi⟩, by simp⟩

/-! ## `encode_bit` -/

theorem rc_liftE_ok_bind {α β : Type} (a : α) (f : α → M β) (s : Sink) :
    ((liftE (.ok a) : M α) >>= f) s = f a s := rfl

/-- state after the interval update of `encode_bit`, before normalisation -/
def midBit (e : REnc) (p : Nat) (b : Bool) : REnc :=
  if b then { e with low := e.low + (e.range >>> 11) * p, range := e.range - (e.range >>> 11) * p }
  else { e with range := (e.range >>> 11) * p }

def stepBit (e : REnc) (p : Nat) (b : Bool) : REnc × Bytes := norm1 (midBit e p b)

/-- facts about `bound = (range >> 11) * p` -/
theorem bound_facts {range p : Nat} (hlo : 16777216 ≤ range) (hhi : range < 4294967296) (hp : ProbOk p) :
    65536 ≤ (range >>> 11) * p ∧ (range >>> 11) * p + 65536 ≤ range := by
  rw [Nat.shiftRight_eq_div_pow]
  obtain ⟨h1, h2⟩ := hp
  have hq : 8192 ≤ range / 2 ^ 11 := by omega
  have hq2 : range / 2 ^ 11 * 2048 ≤ range := by omega
  have a1 : range / 2 ^ 11 * 31 ≤ range / 2 ^ 11 * p := Nat.mul_le_mul_left _ h1
  have a2 : range / 2 ^ 11 * p ≤ range / 2 ^ 11 * 2017 := Nat.mul_le_mul_left _ h2
  omega

theorem midBit_upd (e : REnc) (p : Nat) (b : Bool) (he : EOk e) (hp : ProbOk p) :
    Upd e (midBit e p b) (if b then (e.range >>> 11) * p else 0) := by
  obtain ⟨h1, h2⟩ := bound_facts he.lo he.hi hp
  cases b
  · exact ⟨rfl, rfl, rfl, by simp [midBit]; omega, by simpa [midBit] using h1⟩
  · refine ⟨rfl, rfl, rfl, ?_, ?_⟩ <;> simp [midBit] <;> omega

theorem encodeBit_run (e : REnc) (p : Nat) (b : Bool) (snk : Sink) (hs : snk.script = [])
    (he : EOk e) (hp : ProbOk p) :
    ∃ snk', e.encodeBit p b snk = (snk', .ok ((stepBit e p b).1, updP p b)) ∧
      SinkExt snk snk' (stepBit e p b).2 := by
  obtain ⟨h1, h2⟩ := bound_facts he.lo he.hi hp
  have hu := midBit_upd e p b he hp
  obtain ⟨s1, hn, e1⟩ := normalize_run (midBit e p b) snk hs
    (by rw [hu.cachesz]; exact he.inv.cs) hu.lo
  refine ⟨s1, ?_, e1⟩
  have hm : mulChk U32 "encode_bit: bound overflow" (e.range >>> 11) p = .ok ((e.range >>> 11) * p) := by
    have : (e.range >>> 11) * p < U32 := by have := he.hi; unfold U32; omega
    simp [mulChk, this]
  have hsub : subChk "encode_bit: range -= bound" e.range ((e.range >>> 11) * p)
      = .ok (e.range - (e.range >>> 11) * p) := by
    simp [subChk]; omega
  have hsub2 : subChk "encode_bit: 0x800 - prob" 0x800 p = .ok (0x800 - p) := by
    have := hp.2; simp [subChk]; omega
  unfold encodeBit
  rw [hm]
  cases b
  · have hn' := hn
    simp only [midBit, Bool.false_eq_true, if_false] at hn'
    rw [rc_liftE_ok_bind]
    simp only [Bool.false_eq_true, if_false, hsub2]
    rw [rc_liftE_ok_bind, bind_run_ok hn']
    rfl
  · have hn' := hn
    simp only [midBit, if_true] at hn'
    rw [rc_liftE_ok_bind]
    simp only [if_true, hsub]
    rw [rc_liftE_ok_bind, bind_run_ok hn']
    rfl

/-! ## direct bits -/

def midDirect (e : REnc) (b : Bool) : REnc :=
  { e with range := e.range >>> 1, low := if b then e.low + (e.range >>> 1) else e.low }

def stepDirect (e : REnc) (b : Bool) : REnc × Bytes := norm1 (midDirect e b)

theorem midDirect_upd (e : REnc) (b : Bool) (he : EOk e) :
    Upd e (midDirect e b) (if b then e.range >>> 1 else 0) := by
  have h1 := he.lo
  have hs : e.range >>> 1 = e.range / 2 := by rw [Nat.shiftRight_eq_div_pow]
  cases b
  · refine ⟨rfl, rfl, by simp [midDirect], ?_, ?_⟩ <;> simp [midDirect] <;> omega
  · refine ⟨rfl, rfl, by simp [midDirect], ?_, ?_⟩ <;> simp [midDirect] <;> omega

theorem encodeDirect_run (e : REnc) (b : Bool) (snk : Sink) (hs : snk.script = []) (he : EOk e) :
    ∃ snk', e.encodeDirect b snk = (snk', .ok (stepDirect e b).1) ∧
      SinkExt snk snk' (stepDirect e b).2 := by
  have hu := midDirect_upd e b he
  obtain ⟨s1, hn, e1⟩ := normalize_run (midDirect e b) snk hs
    (by rw [hu.cachesz]; exact he.inv.cs) hu.lo
  exact ⟨s1, hn, e1⟩

/-! ## `finish` -/

theorem wl_flush_cachesz (e : REnc) (h : e.flushes) : (wl e).1.cachesz = 1 := by
  unfold wl; rw [if_pos h]

theorem wl_flush_cache (e : REnc) (h : e.flushes) : (wl e).1.cache = (e.low >>> 24) % 256 := by
  unfold wl; rw [if_pos h]

/-- `finish` as a pure function -/
def fin (e : REnc) : REnc × Bytes :=
  let a := wl e; let b := wl a.1; let c := wl b.1; let d := wl c.1; let f := wl d.1
  (f.1, a.2 ++ b.2 ++ c.2 ++ d.2 ++ f.2)

theorem finish_run (e : REnc) (snk : Sink) (hs : snk.script = []) (he : EOk e) :
    ∃ snk', e.finish snk = (snk', .ok (fin e).1) ∧ SinkExt snk snk' (fin e).2 ∧
      (fin e).2.length = e.cachesz + 4 ∧
      beVal (snk.out.toList ++ (fin e).2) = EV e snk.out.toList := by
  have i0 : EInv e 1 := he.inv.mono (by omega) (by have := he.lo; omega)
  generalize hout : snk.out.toList = out
  obtain ⟨i1, v1, n1⟩ := wl_spec e out 1 i0 (by omega)
  replace i1 := i1.mono (r' := 1) (by omega) (by omega)
  obtain ⟨i2, v2, n2⟩ := wl_spec _ (out ++ (wl e).2) 1 i1 (by omega)
  replace i2 := i2.mono (r' := 1) (by omega) (by omega)
  obtain ⟨i3, v3, n3⟩ := wl_spec _ (out ++ (wl e).2 ++ (wl (wl e).1).2) 1 i2 (by omega)
  replace i3 := i3.mono (r' := 1) (by omega) (by omega)
  obtain ⟨i4, v4, n4⟩ := wl_spec _ (out ++ (wl e).2 ++ (wl (wl e).1).2 ++ (wl (wl (wl e).1).1).2) 1 i3 (by omega)
  replace i4 := i4.mono (r' := 1) (by omega) (by omega)
  obtain ⟨i5, v5, n5⟩ := wl_spec _ (out ++ (wl e).2 ++ (wl (wl e).1).2 ++ (wl (wl (wl e).1).1).2
    ++ (wl (wl (wl (wl e).1).1).1).2) 1 i4 (by omega)
  obtain ⟨s1, r1, x1⟩ := writeLow_run e snk hs i0.cs
  obtain ⟨s2, r2, x2⟩ := writeLow_run _ s1 x1.1 i1.cs
  obtain ⟨s3, r3, x3⟩ := writeLow_run _ s2 x2.1 i2.cs
  obtain ⟨s4, r4, x4⟩ := writeLow_run _ s3 x3.1 i3.cs
  obtain ⟨s5, r5, x5⟩ := writeLow_run _ s4 x4.1 i4.cs
  -- the low word is zero before the fifth `write_low`
  have l1 := wl_low e
  have l2 := wl_low (wl e).1
  have l3 := wl_low (wl (wl e).1).1
  have l4 := wl_low (wl (wl (wl e).1).1).1
  have hl4 : (wl (wl (wl (wl e).1).1).1).1.low = 0 := by omega
  have hfl : (wl (wl (wl (wl e).1).1).1).1.flushes := by
    unfold flushes; rw [hl4]; omega
  have hc5 : (wl (wl (wl (wl (wl e).1).1).1).1).1.cachesz = 1 := wl_flush_cachesz _ hfl
  have hca5 : (wl (wl (wl (wl (wl e).1).1).1).1).1.cache = 0 := by
    rw [wl_flush_cache _ hfl, hl4]; rfl
  have hl5 : (wl (wl (wl (wl (wl e).1).1).1).1).1.low = 0 := by
    rw [wl_low, hl4]
  refine ⟨s5, ?_, ?_, ?_, ?_⟩
  · unfold finish
    rw [bind_run_ok r1, bind_run_ok r2, bind_run_ok r3, bind_run_ok r4, r5]
    rfl
  · have := (((x1.trans x2).trans x3).trans x4).trans x5
    simpa [fin] using this
  · simp only [EN, hc5, List.length_append] at n1 n2 n3 n4 n5 ⊢
    simp only [fin, List.length_append]
    omega
  · rw [v4, v3, v2, v1] at v5
    simp only [fin, ← List.append_assoc]
    have hz : (UInt8.ofNat 0).toNat = 0 := rfl
    generalize EV e out = V0 at v5 ⊢
    generalize (wl (wl (wl (wl (wl e).1).1).1).1).1 = e5 at *
    simp only [EV, pend, hc5, hca5, hl5, Nat.sub_self, List.replicate_zero, beVal_snoc, hz] at v5
    omega

end REnc
end Lzma
