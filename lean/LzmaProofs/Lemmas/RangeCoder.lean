/-
  Range coder round trip at the level of event lists and decision trees:
  the modelled decoder (`runDec` over `RC.decodeBit` / `RC.getBit`) reads back
  exactly the events the modelled encoder (`encodeEvents`, `REnc.finish`) wrote,
  for every event list, with arbitrary trailing bytes after the payload.
-/
import LzmaProofs.Lemmas.RcSim
import LzmaProofs.Lemmas.RcProbs
import LzmaSpec.Events
namespace Lzma
open RcArith
open REnc

/-! ## unfolding `encodeEvents` -/

theorem rc_liftE_error_bind {α β : Type} (x : Err) (f : α → M β) (s : Sink) :
    ((liftE (.error x) : M α) >>= f) s = (s, .error x) := rfl

theorem encodeEvents_nil (probs : Probs) (e : REnc) (snk : Sink) :
    encodeEvents [] probs e snk = (snk, .ok (probs, e)) := rfl

theorem encodeEvents_pbit_eq (i : PIdx) (b : Bool) (rest : List Ev) (probs : Probs) (e : REnc) :
    encodeEvents (.pbit i b :: rest) probs e =
      (liftE (probs.get i) >>= fun v => e.encodeBit v b >>= fun x =>
        encodeEvents rest (probs.set i x.2) x.1) := rfl

theorem encodeEvents_dbit_eq (b : Bool) (rest : List Ev) (probs : Probs) (e : REnc) :
    encodeEvents (.dbit b :: rest) probs e =
      (REnc.encodeDirect e b >>= fun e' => encodeEvents rest probs e') := rfl

/-- one `pbit` event of the encoder, on an all-accepting sink -/
theorem encodeEvents_pbit {i : PIdx} {b : Bool} {probs : Probs} {e : REnc}
    {snk : Sink} (hs : snk.script = []) (he : EOk e) {v : Nat} (hg : probs.get i = .ok v)
    (hv : ProbOk v) :
    ∃ snk1, SinkExt snk snk1 (stepBit e v b).2 ∧
      ∀ rest, encodeEvents (.pbit i b :: rest) probs e snk =
        encodeEvents rest (probs.set i (updP v b)) (stepBit e v b).1 snk1 := by
  obtain ⟨s1, h1, x1⟩ := encodeBit_run e v b snk hs he hv
  refine ⟨s1, x1, fun rest => ?_⟩
  rw [encodeEvents_pbit_eq, hg, rc_liftE_ok_bind, bind_run_ok h1]

theorem encodeEvents_pbit_get {i : PIdx} {b : Bool} {rest : List Ev} {probs : Probs} {e : REnc}
    {snk snkF : Sink} {r : Probs × REnc}
    (h : encodeEvents (.pbit i b :: rest) probs e snk = (snkF, .ok r)) :
    ∃ v, probs.get i = .ok v := by
  rw [encodeEvents_pbit_eq] at h
  cases hg : probs.get i with
  | ok v => exact ⟨v, rfl⟩
  | error x => rw [hg, rc_liftE_error_bind] at h; cases h

/-- one `dbit` event of the encoder, on an all-accepting sink -/
theorem encodeEvents_dbit {b : Bool} {e : REnc}
    {snk : Sink} (hs : snk.script = []) (he : EOk e) :
    ∃ snk1, SinkExt snk snk1 (stepDirect e b).2 ∧
      ∀ rest probs, encodeEvents (.dbit b :: rest) probs e snk =
        encodeEvents rest probs (stepDirect e b).1 snk1 := by
  obtain ⟨s1, h1, x1⟩ := encodeDirect_run e b snk hs he
  refine ⟨s1, x1, fun rest probs => ?_⟩
  rw [encodeEvents_dbit_eq, bind_run_ok h1]

/-! ## states after a step are consistent -/

theorem stepBit_ok {e : REnc} {p : Nat} (b : Bool) (he : EOk e) (hp : ProbOk p) :
    EOk (stepBit e p b).1 := by
  have hu := midBit_upd e p b he hp
  exact (norm1_spec _ [] (hu.einv he) hu.lo (by have := hu.nest; have := he.hi; omega)).1

theorem stepDirect_ok {e : REnc} (b : Bool) (he : EOk e) : EOk (stepDirect e b).1 := by
  have hu := midDirect_upd e b he
  exact (norm1_spec _ [] (hu.einv he) hu.lo (by have := hu.nest; have := he.hi; omega)).1

/-- going back over one step: the future of the state before -/
theorem fut_step {B : Bytes} {e m : REnc} {δ : Nat} (out : Bytes) (he : EOk e) (hu : Upd e m δ)
    (hfut : FutN B (EV (norm1 m).1 (out ++ (norm1 m).2)) (EN (norm1 m).1 (out ++ (norm1 m).2))
      (norm1 m).1.range) :
    FutN B (EV e out) (EN e out) e.range := by
  have hhi : m.range < 4294967296 := by have := hu.nest; have := he.hi; omega
  have hm := fut_norm1 m out (hu.einv he) hu.lo hhi hfut
  obtain ⟨hv, hn⟩ := hu.ev out
  rw [hv, hn] at hm
  exact hm.upd hu.nest

/-! ## the future of every encoder state -/

/-- The bytes finally produced (`B`) extend the bytes produced so far, and their
first `EN + 4` bytes denote a value inside the encoder's current interval. -/
theorem encode_future : ∀ (evs : List Ev) (probs : Probs) (e : REnc) (snk snkF snkB : Sink)
    (probsF : Probs) (eF e2 : REnc),
    snk.script = [] → EOk e → ProbsOk probs →
    encodeEvents evs probs e snk = (snkF, .ok (probsF, eF)) →
    eF.finish snkF = (snkB, .ok e2) →
    FutN snkB.out.toList (EV e snk.out.toList) (EN e snk.out.toList) e.range ∧
      (∃ P, snkB.out.toList = snk.out.toList ++ P) ∧
      EOk eF ∧ snkF.script = [] ∧
      snkB.out.toList.length = EN eF snkF.out.toList + 4 ∧
      beVal snkB.out.toList = EV eF snkF.out.toList
  | [], probs, e, snk, snkF, snkB, probsF, eF, e2, hs, he, _, henc, hfin => by
    rw [encodeEvents_nil] at henc
    cases henc
    obtain ⟨s', hr, hx, hl, hv⟩ := finish_run e snk hs he
    rw [hr] at hfin
    cases hfin
    have hlen : snkB.out.toList.length = EN e snk.out.toList + 4 := by
      rw [hx.2, List.length_append, hl]; simp [EN]; omega
    have hval : beVal snkB.out.toList = EV e snk.out.toList := by rw [hx.2, hv]
    refine ⟨⟨by omega, ?_, ?_⟩, ⟨_, hx.2⟩, he, hs, hlen, hval⟩
    · rw [beVal_take_all _ _ (by omega), hval]; omega
    · rw [beVal_take_all _ _ (by omega), hval]; have := he.lo; omega
  | .pbit i b :: rest, probs, e, snk, snkF, snkB, probsF, eF, e2, hs, he, hp, henc, hfin => by
    obtain ⟨v, hg⟩ := encodeEvents_pbit_get henc
    have hv := hp i v hg
    obtain ⟨s1, x1, heq⟩ := encodeEvents_pbit (b := b) hs he hg hv
    rw [heq] at henc
    obtain ⟨f1, ⟨P, hP⟩, r⟩ := encode_future rest _ _ s1 snkF snkB probsF eF e2 x1.1
      (stepBit_ok b he hv) (hp.set i (hv.upd b)) henc hfin
    rw [x1.2] at f1 hP
    refine ⟨fut_step _ he (midBit_upd e v b he hv) f1, ⟨(stepBit e v b).2 ++ P, ?_⟩, r⟩
    rw [hP, List.append_assoc]
  | .dbit b :: rest, probs, e, snk, snkF, snkB, probsF, eF, e2, hs, he, hp, henc, hfin => by
    obtain ⟨s1, x1, heq⟩ := encodeEvents_dbit (b := b) hs he
    rw [heq] at henc
    obtain ⟨f1, ⟨P, hP⟩, r⟩ := encode_future rest _ _ s1 snkF snkB probsF eF e2 x1.1
      (stepDirect_ok b he) hp henc hfin
    rw [x1.2] at f1 hP
    refine ⟨fut_step _ he (midDirect_upd e b he) f1, ⟨(stepDirect e b).2 ++ P, ?_⟩, r⟩
    rw [hP, List.append_assoc]

/-! ## the tree-level simulation -/

/-- **Simulation of a decision tree.**  If the events `evs` still to be encoded
start with a path of the tree `t` (`runEv t evs = some (a, rest)`), then the real
decoder on `t` returns `a`, updates the probabilities exactly as the encoder does
on that path, and is again in simulation with the encoder state after the path. -/
theorem runDec_sim {α : Type} {T : Bytes} {snkF snkB : Sink} {probsF : Probs} {eF e2 : REnc}
    (hfin : eF.finish snkF = (snkB, .ok e2)) (t : Coder PIdx α) :
    ∀ (evs rest : List Ev) (a : α) (probs : Probs) (e : REnc) (snk : Sink) (rc : RC) (rd : Rd),
    snk.script = [] → ProbsOk probs →
    RcSim snkB.out.toList T e snk.out.toList rc rd →
    runEv t evs = some (a, rest) →
    encodeEvents evs probs e snk = (snkF, .ok (probsF, eF)) →
    ∃ (probs' : Probs) (e' : REnc) (snk' : Sink) (rc' : RC) (rd' : Rd),
      runDec true t probs rc rd = .ok (a, probs', rc', rd') ∧
      snk'.script = [] ∧ ProbsOk probs' ∧
      RcSim snkB.out.toList T e' snk'.out.toList rc' rd' ∧
      encodeEvents rest probs' e' snk' = (snkF, .ok (probsF, eF)) ∧
      rd'.bad = rd.bad ∧
      ∃ seg, evs = seg ++ rest ∧ encodeEvents seg probs e snk = (snk', .ok (probs', e')) := by
  induction t with
  | ret a0 =>
    intro evs rest a probs e snk rc rd hs hp hsim hrun henc
    simp only [runEv, Option.some.injEq, Prod.mk.injEq] at hrun
    obtain ⟨rfl, rfl⟩ := hrun
    exact ⟨probs, e, snk, rc, rd, rfl, hs, hp, hsim, henc, rfl, [], rfl, rfl⟩
  | fail x =>
    intro evs rest a probs e snk rc rd hs hp hsim hrun henc
    simp [runEv] at hrun
  | bit i k ih =>
    intro evs rest a probs e snk rc rd hs hp hsim hrun henc
    match evs, hrun, henc with
    | [], hrun, _ => simp [runEv] at hrun
    | .dbit _ :: _, hrun, _ => simp [runEv] at hrun
    | .pbit j b :: evs', hrun, henc =>
      simp only [runEv] at hrun
      by_cases hij : i = j
      · subst hij
        rw [if_pos rfl] at hrun
        obtain ⟨v, hg⟩ := encodeEvents_pbit_get henc
        have hv := hp i v hg
        obtain ⟨s1, x1, heq⟩ := encodeEvents_pbit (b := b) hs hsim.ok hg hv
        have henc1 := henc
        rw [heq] at henc1
        have hok1 := stepBit_ok b hsim.ok hv
        have hp1 := hp.set i (hv.upd b)
        obtain ⟨f1, _⟩ := encode_future evs' _ _ s1 snkF snkB probsF eF e2 x1.1 hok1 hp1 henc1 hfin
        rw [x1.2] at f1
        obtain ⟨rc1, rd1, hd, hbad, hsim1⟩ := sim_pbit v b hsim hv f1
        rw [← x1.2] at hsim1
        obtain ⟨probs', e', snk', rc', rd', hr, hs', hp', hsim', henc', hbad', seg, hseg, hsenc⟩ :=
          ih b evs' rest a _ _ s1 rc1 rd1 x1.1 hp1 hsim1 hrun henc1
        refine ⟨probs', e', snk', rc', rd', ?_, hs', hp', hsim', henc', by rw [hbad', hbad],
          .pbit i b :: seg, by rw [hseg]; rfl, ?_⟩
        · have hget : ProbStore.get probs i = .ok v := hg
          simp only [runDec, hget, hd, if_true]
          exact hr
        · rw [heq seg]; exact hsenc
      · rw [if_neg hij] at hrun; cases hrun
  | direct k ih =>
    intro evs rest a probs e snk rc rd hs hp hsim hrun henc
    match evs, hrun, henc with
    | [], hrun, _ => simp [runEv] at hrun
    | .pbit _ _ :: _, hrun, _ => simp [runEv] at hrun
    | .dbit b :: evs', hrun, henc =>
      simp only [runEv] at hrun
      obtain ⟨s1, x1, heq⟩ := encodeEvents_dbit (b := b) hs hsim.ok
      have henc1 := henc
      rw [heq] at henc1
      have hok1 := stepDirect_ok b hsim.ok
      obtain ⟨f1, _⟩ := encode_future evs' _ _ s1 snkF snkB probsF eF e2 x1.1 hok1 hp henc1 hfin
      rw [x1.2] at f1
      obtain ⟨rc1, rd1, hd, hbad, hsim1⟩ := sim_dbit b hsim f1
      rw [← x1.2] at hsim1
      obtain ⟨probs', e', snk', rc', rd', hr, hs', hp', hsim', henc', hbad', seg, hseg, hsenc⟩ :=
        ih b evs' rest a _ _ s1 rc1 rd1 x1.1 hp hsim1 hrun henc1
      refine ⟨probs', e', snk', rc', rd', ?_, hs', hp', hsim', henc', by rw [hbad', hbad],
        .dbit b :: seg, by rw [hseg]; rfl, ?_⟩
      · simp only [runDec, hd]
        exact hr
      · rw [heq seg]; exact hsenc

/-! ## start and end of the simulation -/

theorem rc_five_le_length {P : Bytes} (h : 5 ≤ P.length) :
    ∃ b0 b1 b2 b3 b4 P', P = b0 :: b1 :: b2 :: b3 :: b4 :: P' := by
  match P, h with
  | b0 :: b1 :: b2 :: b3 :: b4 :: P', _ => exact ⟨b0, b1, b2, b3, b4, P', rfl⟩
  | [], h => simp at h
  | [_], h => simp at h
  | [_, _], h => simp at h
  | [_, _, _], h => simp at h
  | [_, _, _, _], h => simp at h

/-- `RangeDecoder::new` on the payload of a fresh encoder: the ignored first byte is
`0`, the next four are the initial `code`. `out` = what the sink held before. -/
theorem rcSim_init {out P T : Bytes} (bad : Bool)
    (hfut : FutN (out ++ P) (EV {} out) (EN {} out) 0xFFFFFFFF) :
    ∃ rc rd', RC.new { rem := P ++ T, bad := bad } = .ok (rc, rd') ∧ rd'.bad = bad ∧
      RcSim (out ++ P) T {} out rc rd' := by
  obtain ⟨h1, h2, h3⟩ := hfut
  have hEN : EN {} out = out.length + 1 := rfl
  have hz : (UInt8.ofNat 0).toNat = 0 := rfl
  have hEV : EV {} out = beVal out * 256 * 4294967296 := by
    show beVal (out ++ [UInt8.ofNat 0]) * 4294967296 + 0 = _
    rw [beVal_snoc, hz]; omega
  rw [hEN] at h1 h2 h3
  rw [hEV] at h2 h3
  rw [List.length_append] at h1
  obtain ⟨b0, b1, b2, b3, b4, P', rfl⟩ := rc_five_le_length (P := P) (by omega)
  have htake : (out ++ b0 :: b1 :: b2 :: b3 :: b4 :: P').take (out.length + 1 + 4)
      = out ++ [b0, b1, b2, b3, b4] := by
    rw [show out.length + 1 + 4 = out.length + 5 by omega, List.take_length_add_append]
    rfl
  have hdrop : (out ++ b0 :: b1 :: b2 :: b3 :: b4 :: P').drop (out.length + 1 + 4) = P' := by
    rw [show out.length + 1 + 4 = out.length + 5 by omega, List.drop_length_add_append]
    rfl
  rw [htake, beVal_append] at h2 h3
  have hp4 : (256 : Nat) ^ 4 = 4294967296 := by decide
  have hl4 : ([b1, b2, b3, b4] : Bytes).length = 4 := rfl
  have hv : beVal [b0, b1, b2, b3, b4] = b0.toNat * 4294967296 + beVal [b1, b2, b3, b4] := by
    rw [beVal_cons, hl4, hp4]
  have hc : beVal [b1, b2, b3, b4] < 4294967296 := by
    have := rc_beVal_lt [b1, b2, b3, b4]
    rwa [hl4, hp4] at this
  have hl5 : ([b0, b1, b2, b3, b4] : Bytes).length = 5 := rfl
  have hpow : (256 : Nat) ^ 5 = 1099511627776 := by decide
  rw [hl5, hpow, hv] at h2 h3
  have hb0 : b0.toNat = 0 := by omega
  refine ⟨{ range := 0xFFFFFFFF, code := beVal [b1, b2, b3, b4] },
    { rem := P' ++ T, bad := bad }, ?_, rfl, ?_⟩
  · simp [RC.new, Rd.readU8, Rd.readU32BE, Rd.readExact, rc_except_ok_bind]
    rfl
  · refine ⟨eok_fresh, rfl, ?_, ?_, ?_⟩
    · rw [hEN, List.length_append]; simp; omega
    · rw [hEN, hdrop]
    · show _ = _ + beVal [b1, b2, b3, b4]
      rw [hEN, htake, beVal_append, hl5, hpow, hv, hEV, hb0]
      omega

/-- when nothing is left to encode, the decoder has consumed exactly the payload
and its `code` is `0` -/
theorem RcSim.final {B T : Bytes} {e : REnc} {out : Bytes} {rc : RC} {rd : Rd}
    (h : RcSim B T e out rc rd) (hlen : B.length = EN e out + 4) (hval : beVal B = EV e out) :
    rd.rem = T ∧ rc.code = 0 := by
  have h1 := h.rem
  have h2 := h.code
  rw [← hlen] at h1 h2
  rw [List.drop_length, List.nil_append] at h1
  rw [List.take_length, hval] at h2
  exact ⟨h1, by omega⟩

/-! ## sequencing trees -/

theorem rc_runEv_bind {α β : Type} (t : Coder PIdx α) (f : α → Coder PIdx β) :
    ∀ evs, runEv (t.bind f) evs =
      match runEv t evs with
      | some (a, rest) => runEv (f a) rest
      | none => none := by
  induction t with
  | ret a => intro evs; rfl
  | fail x => intro evs; simp [Coder.bind, runEv]
  | bit i k ih =>
    intro evs
    match evs with
    | [] => simp [Coder.bind, runEv]
    | .dbit _ :: _ => simp [Coder.bind, runEv]
    | .pbit j b :: evs' =>
      simp only [Coder.bind, runEv]
      by_cases hij : i = j
      · simp only [hij, if_true]; exact ih b evs'
      · simp [hij]
  | direct k ih =>
    intro evs
    match evs with
    | [] => simp [Coder.bind, runEv]
    | .pbit _ _ :: _ => simp [Coder.bind, runEv]
    | .dbit b :: evs' =>
      simp only [Coder.bind, runEv]; exact ih b evs'

theorem rc_runDec_bind {σ ι α β : Type} [ProbStore σ ι] (u : Bool) (t : Coder ι α) (f : α → Coder ι β) :
    ∀ (s : σ) (rc : RC) (rd : Rd), runDec u (t.bind f) s rc rd =
      match runDec u t s rc rd with
      | .ok (a, s', rc', rd') => runDec u (f a) s' rc' rd'
      | .error x => .error x := by
  induction t with
  | ret a => intro s rc rd; rfl
  | fail x => intro s rc rd; rfl
  | bit i k ih =>
    intro s rc rd
    simp only [Coder.bind, runDec]
    cases ProbStore.get s i with
    | error x => rfl
    | ok p =>
      simp only
      cases RC.decodeBit u p rc rd with
      | error x => rfl
      | ok r => obtain ⟨b, p', rc', rd'⟩ := r; exact ih b _ _ _
  | direct k ih =>
    intro s rc rd
    simp only [Coder.bind, runDec]
    cases RC.getBit rc rd with
    | error x => rfl
    | ok r => obtain ⟨b, rc', rd'⟩ := r; exact ih b _ _ _

/-! ## the round-trip theorems -/

/-- follow a list of trees one after the other along the events -/
def runEvList {α : Type} : List (Coder PIdx α) → List Ev → Option (List α × List Ev)
  | [], evs => some ([], evs)
  | t :: ts, evs =>
    match runEv t evs with
    | none => none
    | some (a, rest) =>
      match runEvList ts rest with
      | none => none
      | some (as, r) => some (a :: as, r)

/-- run the real decoder on a list of trees one after the other -/
def runDecList {α : Type} : List (Coder PIdx α) → Probs → RC → Rd →
    Except Err (List α × Probs × RC × Rd)
  | [], s, rc, rd => .ok ([], s, rc, rd)
  | t :: ts, s, rc, rd =>
    match runDec true t s rc rd with
    | .error x => .error x
    | .ok (a, s, rc, rd) =>
      match runDecList ts s rc rd with
      | .error x => .error x
      | .ok (as, r) => .ok (a :: as, r)

/-- list version of `runDec_sim` -/
theorem runDecList_sim {α : Type} {T : Bytes} {snkF snkB : Sink} {probsF : Probs} {eF e2 : REnc}
    (hfin : eF.finish snkF = (snkB, .ok e2)) :
    ∀ (ts : List (Coder PIdx α)) (evs rest : List Ev) (as : List α) (probs : Probs) (e : REnc)
      (snk : Sink) (rc : RC) (rd : Rd),
    snk.script = [] → ProbsOk probs →
    RcSim snkB.out.toList T e snk.out.toList rc rd →
    runEvList ts evs = some (as, rest) →
    encodeEvents evs probs e snk = (snkF, .ok (probsF, eF)) →
    ∃ (probs' : Probs) (e' : REnc) (snk' : Sink) (rc' : RC) (rd' : Rd),
      runDecList ts probs rc rd = .ok (as, probs', rc', rd') ∧
      snk'.script = [] ∧ ProbsOk probs' ∧
      RcSim snkB.out.toList T e' snk'.out.toList rc' rd' ∧
      encodeEvents rest probs' e' snk' = (snkF, .ok (probsF, eF)) ∧
      rd'.bad = rd.bad
  | [], evs, rest, as, probs, e, snk, rc, rd, hs, hp, hsim, hrun, henc => by
    simp only [runEvList, Option.some.injEq, Prod.mk.injEq] at hrun
    obtain ⟨rfl, rfl⟩ := hrun
    exact ⟨probs, e, snk, rc, rd, rfl, hs, hp, hsim, henc, rfl⟩
  | t :: ts, evs, rest, as, probs, e, snk, rc, rd, hs, hp, hsim, hrun, henc => by
    simp only [runEvList] at hrun
    cases h1 : runEv t evs with
    | none => rw [h1] at hrun; cases hrun
    | some r1 =>
      obtain ⟨a, rest1⟩ := r1
      rw [h1] at hrun
      simp only at hrun
      cases h2 : runEvList ts rest1 with
      | none => rw [h2] at hrun; cases hrun
      | some r2 =>
        obtain ⟨as', rest2⟩ := r2
        rw [h2] at hrun
        simp only [Option.some.injEq, Prod.mk.injEq] at hrun
        obtain ⟨rfl, rfl⟩ := hrun
        obtain ⟨p1, e1, s1, rc1, rd1, hd1, hs1, hp1, hsim1, henc1, hbad1, _⟩ :=
          runDec_sim (T := T) hfin t evs rest1 a probs e snk rc rd hs hp hsim h1 henc
        obtain ⟨p2, e2', s2, rc2, rd2, hd2, hs2, hp2, hsim2, henc2, hbad2⟩ :=
          runDecList_sim hfin ts rest1 rest2 as' p1 e1 s1 rc1 rd1 hs1 hp1 hsim1 h2 henc1
        refine ⟨p2, e2', s2, rc2, rd2, ?_, hs2, hp2, hsim2, henc2, by rw [hbad2, hbad1]⟩
        simp only [runDecList, hd1, hd2]

/-- **Range coder round trip (start).**  Encode any events `evs` from a fresh
encoder into an all-accepting sink and flush.  The sink then holds what it held
before plus a payload `P`; on `P ++ T` (any trailing bytes `T`) `RangeDecoder::new`
succeeds and establishes the simulation invariant with the fresh encoder. -/
theorem rc_roundtrip_init {evs : List Ev} {probs probsF : Probs} {snk0 snkF snkB : Sink}
    {eF e2 : REnc} (hs : snk0.script = []) (hp : ProbsOk probs)
    (henc : encodeEvents evs probs {} snk0 = (snkF, .ok (probsF, eF)))
    (hfin : eF.finish snkF = (snkB, .ok e2)) :
    ∃ P, snkB.out.toList = snk0.out.toList ++ P ∧ ∀ (T : Bytes) (bad : Bool),
      ∃ rc rd, RC.new { rem := P ++ T, bad := bad } = .ok (rc, rd) ∧ rd.bad = bad ∧
        RcSim snkB.out.toList T {} snk0.out.toList rc rd := by
  obtain ⟨f0, ⟨P, hP⟩, _⟩ := encode_future evs probs {} snk0 snkF snkB probsF eF e2 hs eok_fresh hp henc hfin
  refine ⟨P, hP, fun T bad => ?_⟩
  rw [hP] at f0 ⊢
  exact rcSim_init bad f0

/-- **Range coder round trip (end).**  Once all events have been decoded the reader
stands exactly behind the payload and `code = 0`. -/
theorem rc_roundtrip_final {T : Bytes} {probs probsF : Probs} {e eF e2 : REnc} {snk snkF snkB : Sink}
    {rc : RC} {rd : Rd} (hs : snk.script = []) (hp : ProbsOk probs)
    (hsim : RcSim snkB.out.toList T e snk.out.toList rc rd)
    (henc : encodeEvents [] probs e snk = (snkF, .ok (probsF, eF)))
    (hfin : eF.finish snkF = (snkB, .ok e2)) :
    rd.rem = T ∧ rc.code = 0 ∧ probs = probsF := by
  obtain ⟨_, _, _, _, hl, hv⟩ := encode_future [] probs e snk snkF snkB probsF eF e2 hs hsim.ok hp henc hfin
  rw [encodeEvents_nil] at henc
  cases henc
  obtain ⟨h1, h2⟩ := hsim.final hl hv
  exact ⟨h1, h2, rfl⟩

/-- **Range coder round trip, list of trees.**  For EVERY event list `evs`, encoded
from the fresh encoder and flushed, and every way of cutting `evs` into consecutive
paths of decision trees `ts`, the real decoder started with `RangeDecoder::new` on
`payload ++ T` returns exactly the values of those paths, ends with the encoder's
final probabilities, leaves exactly `T` unread, and ends with `code = 0`. -/
theorem rc_roundtrip_list {α : Type} {evs : List Ev} {probs probsF : Probs} {snk0 snkF snkB : Sink}
    {eF e2 : REnc} (ts : List (Coder PIdx α)) (as : List α)
    (hs : snk0.script = []) (hp : ProbsOk probs)
    (henc : encodeEvents evs probs {} snk0 = (snkF, .ok (probsF, eF)))
    (hfin : eF.finish snkF = (snkB, .ok e2))
    (hrun : runEvList ts evs = some (as, [])) :
    ∃ P, snkB.out.toList = snk0.out.toList ++ P ∧ ∀ (T : Bytes) (bad : Bool),
      ∃ rc rd rc', RC.new { rem := P ++ T, bad := bad } = .ok (rc, rd) ∧
        runDecList ts probs rc rd = .ok (as, probsF, rc', { rem := T, bad := bad }) ∧
        rc'.code = 0 := by
  obtain ⟨P, hP, hinit⟩ := rc_roundtrip_init hs hp henc hfin
  refine ⟨P, hP, fun T bad => ?_⟩
  obtain ⟨rc, rd, hnew, hbad, hsim⟩ := hinit T bad
  obtain ⟨p', e', s', rc', rd', hd, hs', hp', hsim', henc', hbad'⟩ :=
    runDecList_sim hfin ts evs [] as probs {} snk0 rc rd hs hp hsim hrun henc
  obtain ⟨h1, h2, h3⟩ := rc_roundtrip_final hs' hp' hsim' henc' hfin
  refine ⟨rc, rd, rc', hnew, ?_, h2⟩
  rw [hd, h3]
  have : rd' = { rem := T, bad := bad } := by
    cases rd'; simp_all
  rw [this]

/-- **Range coder round trip, one tree** (use `Coder.bind` / `rc_runDec_bind` to chain
trees of different result types). -/
theorem rc_roundtrip {α : Type} {evs : List Ev} {probs probsF : Probs} {snk0 snkF snkB : Sink}
    {eF e2 : REnc} (t : Coder PIdx α) (a : α)
    (hs : snk0.script = []) (hp : ProbsOk probs)
    (henc : encodeEvents evs probs {} snk0 = (snkF, .ok (probsF, eF)))
    (hfin : eF.finish snkF = (snkB, .ok e2))
    (hrun : runEv t evs = some (a, [])) :
    ∃ P, snkB.out.toList = snk0.out.toList ++ P ∧ ∀ (T : Bytes) (bad : Bool),
      ∃ rc rd rc', RC.new { rem := P ++ T, bad := bad } = .ok (rc, rd) ∧
        runDec true t probs rc rd = .ok (a, probsF, rc', { rem := T, bad := bad }) ∧
        rc'.code = 0 := by
  obtain ⟨P, hP, h⟩ := rc_roundtrip_list [t] [a] hs hp henc hfin (by simp [runEvList, hrun])
  refine ⟨P, hP, fun T bad => ?_⟩
  obtain ⟨rc, rd, rc', h1, h2, h3⟩ := h T bad
  refine ⟨rc, rd, rc', h1, ?_, h3⟩
  simp only [runDecList] at h2
  cases hd : runDec true t probs rc rd with
  | error x => rw [hd] at h2; cases h2
  | ok r =>
    obtain ⟨a', s', rc'', rd''⟩ := r
    rw [hd] at h2
    simp only [Except.ok.injEq, Prod.mk.injEq, List.cons.injEq, and_true] at h2
    obtain ⟨rfl, rfl, rfl, rfl⟩ := h2
    rfl

/-! ## the encoder never fails on an all-accepting sink -/

/-- **The reference encoder is total**: from a consistent state, with admissible
probabilities and in-bounds indices, `encodeEvents` and `finish` succeed (no panic,
no error) on an all-accepting sink. -/
theorem encodeEvents_total : ∀ (evs : List Ev) (probs : Probs) (e : REnc) (snk : Sink),
    snk.script = [] → EOk e → ProbsOk probs →
    (∀ i b, Ev.pbit i b ∈ evs → ∃ v, probs.get i = .ok v) →
    ∃ snkF probsF eF snkB e2, encodeEvents evs probs e snk = (snkF, .ok (probsF, eF)) ∧
      eF.finish snkF = (snkB, .ok e2)
  | [], probs, e, snk, hs, he, _, _ => by
    obtain ⟨s', hr, _⟩ := finish_run e snk hs he
    exact ⟨snk, probs, e, s', _, rfl, hr⟩
  | .pbit i b :: rest, probs, e, snk, hs, he, hp, hidx => by
    obtain ⟨v, hg⟩ := hidx i b (by simp)
    have hv := hp i v hg
    obtain ⟨s1, x1, heq⟩ := encodeEvents_pbit (b := b) hs he hg hv
    obtain ⟨snkF, probsF, eF, snkB, e2, h1, h2⟩ := encodeEvents_total rest (probs.set i (updP v b))
      (stepBit e v b).1 s1 x1.1 (stepBit_ok b he hv) (hp.set i (hv.upd b))
      (fun j c hj => Probs.get_ok_set (hidx j c (by simp [hj])))
    exact ⟨snkF, probsF, eF, snkB, e2, by rw [heq]; exact h1, h2⟩
  | .dbit b :: rest, probs, e, snk, hs, he, hp, hidx => by
    obtain ⟨s1, x1, heq⟩ := encodeEvents_dbit (b := b) hs he
    obtain ⟨snkF, probsF, eF, snkB, e2, h1, h2⟩ := encodeEvents_total rest probs
      (stepDirect e b).1 s1 x1.1 (stepDirect_ok b he) hp
      (fun j c hj => hidx j c (by simp [hj]))
    exact ⟨snkF, probsF, eF, snkB, e2, by rw [heq]; exact h1, h2⟩

/-! ## byte count -/

/-- number of normalisation shifts (`write_low` calls outside `finish`) the encoder
performs on the events -/
def normCount : List Ev → Probs → REnc → Nat
  | [], _, _ => 0
  | .pbit i b :: rest, p, e =>
    match p.get i with
    | .ok v => (if (midBit e v b).range < 16777216 then 1 else 0) +
        normCount rest (p.set i (updP v b)) (stepBit e v b).1
    | .error _ => 0
  | .dbit b :: rest, p, e =>
    (if (midDirect e b).range < 16777216 then 1 else 0) + normCount rest p (stepDirect e b).1

theorem en_step {e m : REnc} {δ : Nat} (out : Bytes) (he : EOk e) (hu : Upd e m δ) :
    EN (norm1 m).1 (out ++ (norm1 m).2) = EN e out + (if m.range < 16777216 then 1 else 0) := by
  have hhi : m.range < 4294967296 := by have := hu.nest; have := he.hi; omega
  obtain ⟨_, h2⟩ := norm1_spec m out (hu.einv he) hu.lo hhi
  obtain ⟨_, hn⟩ := hu.ev out
  by_cases h : m.range < 16777216
  · rw [if_pos h] at h2 ⊢
    rw [h2.2.1, hn]
  · rw [if_neg h] at h2 ⊢
    rw [h2.1, h2.2, List.append_nil, hn]; rfl

theorem encode_en : ∀ (evs : List Ev) (probs : Probs) (e : REnc) (snk snkF : Sink)
    (probsF : Probs) (eF : REnc),
    snk.script = [] → EOk e → ProbsOk probs →
    encodeEvents evs probs e snk = (snkF, .ok (probsF, eF)) →
    EN eF snkF.out.toList = EN e snk.out.toList + normCount evs probs e
  | [], probs, e, snk, snkF, probsF, eF, _, _, _, henc => by
    rw [encodeEvents_nil] at henc
    cases henc
    rfl
  | .pbit i b :: rest, probs, e, snk, snkF, probsF, eF, hs, he, hp, henc => by
    obtain ⟨v, hg⟩ := encodeEvents_pbit_get henc
    have hv := hp i v hg
    obtain ⟨s1, x1, heq⟩ := encodeEvents_pbit (b := b) hs he hg hv
    rw [heq] at henc
    have ih := encode_en rest _ _ s1 snkF probsF eF x1.1 (stepBit_ok b he hv)
      (hp.set i (hv.upd b)) henc
    have hst := en_step snk.out.toList he (midBit_upd e v b he hv)
    rw [x1.2] at ih
    simp only [normCount, hg]
    rw [ih]
    show EN (norm1 (midBit e v b)).1 (snk.out.toList ++ (norm1 (midBit e v b)).2) + _ = _
    rw [hst]; omega
  | .dbit b :: rest, probs, e, snk, snkF, probsF, eF, hs, he, hp, henc => by
    obtain ⟨s1, x1, heq⟩ := encodeEvents_dbit (b := b) hs he
    rw [heq] at henc
    have ih := encode_en rest _ _ s1 snkF probsF eF x1.1 (stepDirect_ok b he) hp henc
    have hst := en_step snk.out.toList he (midDirect_upd e b he)
    rw [x1.2] at ih
    simp only [normCount]
    rw [ih]
    show EN (norm1 (midDirect e b)).1 (snk.out.toList ++ (norm1 (midDirect e b)).2) + _ = _
    rw [hst]; omega

/-- **Byte count.**  From a fresh encoder the payload has exactly
`5 + (number of normalisation shifts)` bytes.  (By `rc_roundtrip` the decoder consumes
exactly the payload: 5 bytes in `RangeDecoder::new`, one per shift.) -/
theorem encoder_byte_count {evs : List Ev} {probs probsF : Probs} {snk0 snkF snkB : Sink}
    {eF e2 : REnc} (hs : snk0.script = []) (hp : ProbsOk probs)
    (henc : encodeEvents evs probs {} snk0 = (snkF, .ok (probsF, eF)))
    (hfin : eF.finish snkF = (snkB, .ok e2)) :
    snkB.out.toList.length = snk0.out.toList.length + 5 + normCount evs probs {} := by
  obtain ⟨_, _, _, _, hl, _⟩ := encode_future evs probs {} snk0 snkF snkB probsF eF e2 hs eok_fresh hp henc hfin
  rw [hl, encode_en evs probs {} snk0 snkF probsF eF hs eok_fresh hp henc]
  show snk0.out.toList.length + 1 + _ + 4 = _
  omega

/-! ## non-vacuity -/

/-- the hypotheses of `rc_roundtrip` are satisfiable for every event list whose
indices are in bounds; in particular for this concrete one (12 events, one direct
bit, a repeated index so that an adapted probability is re-read) -/
def demoEvs : List Ev :=
  [.pbit (.isMatch 0) false, .pbit (.lit 0 1) true, .pbit (.lit 0 3) false, .dbit true,
   .pbit (.isMatch 0) true, .pbit (.isRep 0) false, .pbit (.lenChoice false) false,
   .pbit (.lenLow false 0 1) true, .dbit false, .pbit (.isMatch 0) true,
   .pbit (.posSlot 0 1) true, .pbit (.align 1) false]

example : ProbsOk (Probs.init 1) := probsOk_init 1

example : ∃ snkF probsF eF snkB e2,
    encodeEvents demoEvs (Probs.init 1) {} {} = (snkF, .ok (probsF, eF)) ∧
    eF.finish snkF = (snkB, .ok e2) := by
  apply encodeEvents_total demoEvs (Probs.init 1) {} {} rfl eok_fresh (probsOk_init 1)
  intro i b h
  simp only [demoEvs, List.mem_cons, Ev.pbit.injEq, List.mem_nil_iff, or_false, reduceCtorEq,
    false_or] at h
  rcases h with h | h | h | h | h | h | h | h | h | h <;> obtain ⟨rfl, _⟩ := h <;>
    simp [Probs.get, Probs.init, LenProbs.get, rc_arrGet_ok_iff]

/-- the tree that reads `demoEvs` (three bits, a direct bit, …) is a path of this tree -/
def demoTree : Coder PIdx (List Bool) :=
  .bit (.isMatch 0) fun b1 => .bit (.lit 0 1) fun b2 => .bit (.lit 0 3) fun b3 => .direct fun b4 =>
  .bit (.isMatch 0) fun b5 => .bit (.isRep 0) fun b6 => .bit (.lenChoice false) fun b7 =>
  .bit (.lenLow false 0 1) fun b8 => .direct fun b9 => .bit (.isMatch 0) fun b10 =>
  .bit (.posSlot 0 1) fun b11 => .bit (.align 1) fun b12 =>
  .ret [b1, b2, b3, b4, b5, b6, b7, b8, b9, b10, b11, b12]

example : runEv demoTree demoEvs =
    some ([false, true, false, true, true, false, false, true, false, true, true, false], []) := by
  decide

/-! ## executable form of the round trip, and why `ProbOk` cannot be `0 < p < 0x800` -/

/-- payload of the events from a fresh encoder into an empty all-accepting sink -/
def rcEncode (evs : List Ev) (probs : Probs) : Bytes :=
  let m : M Unit := do
    let (_, e) ← encodeEvents evs probs {}
    let _ ← e.finish
    pure ()
  (m {}).1.out.toList

/-- the linear tree that reads events of the given kinds and returns the bits -/
def rcTreeOf : List Ev → Coder PIdx (List Bool)
  | [] => .ret []
  | .pbit i _ :: r => .bit i fun b => (rcTreeOf r).bind fun bs => .ret (b :: bs)
  | .dbit _ :: r => .direct fun b => (rcTreeOf r).bind fun bs => .ret (b :: bs)

def rcBitsOf (evs : List Ev) : List Bool :=
  evs.map fun
    | .pbit _ b => b
    | .dbit b => b

/-- does the real decoder read back the bits, consume exactly the payload and end with `code = 0`? -/
def rcRoundTrips (evs : List Ev) (probs : Probs) : Bool :=
  match RC.new { rem := rcEncode evs probs } with
  | .ok (rc, rd) =>
    match runDec true (rcTreeOf evs) probs rc rd with
    | .ok (a, _, rc, rd) => a == rcBitsOf evs && rc.code == 0 && rd.rem.isEmpty
    | .error _ => false
  | .error _ => false

theorem runEv_rcTreeOf : ∀ evs, runEv (rcTreeOf evs) evs = some (rcBitsOf evs, [])
  | [] => rfl
  | .pbit i b :: r => by
    simp only [rcTreeOf, runEv, if_true]
    rw [rc_runEv_bind, runEv_rcTreeOf r]
    rfl
  | .dbit b :: r => by
    simp only [rcTreeOf, runEv]
    rw [rc_runEv_bind, runEv_rcTreeOf r]
    rfl

/-- with admissible probabilities the executable round trip always succeeds -/
theorem rcRoundTrips_of_probsOk (evs : List Ev) (probs : Probs) (hp : ProbsOk probs)
    (hidx : ∀ i b, Ev.pbit i b ∈ evs → ∃ v, probs.get i = .ok v) :
    rcRoundTrips evs probs = true := by
  obtain ⟨snkF, probsF, eF, snkB, e2, henc, hfin⟩ :=
    encodeEvents_total evs probs {} {} rfl eok_fresh hp hidx
  obtain ⟨P, hP, h⟩ := rc_roundtrip (rcTreeOf evs) (rcBitsOf evs) rfl hp henc hfin (runEv_rcTreeOf evs)
  obtain ⟨rc, rd, rc', h1, h2, h3⟩ := h [] false
  have hE : rcEncode evs probs = P := by
    unfold rcEncode
    simp only
    rw [bind_run_ok henc]
    simp only
    rw [bind_run_ok hfin]
    simp only [pure_run]
    rw [hP]; rfl
  rw [List.append_nil] at h1
  unfold rcRoundTrips
  rw [hE, h1]
  simp only
  rw [h2]
  simp [h3]

/-- a store with one inadmissible value `1` (which still satisfies `0 < p < 0x800`) -/
def cxProbs : Probs := (Probs.init 1).set (.isMatch 0) 1

def cxEvs : List Ev :=
  [.pbit (.isRep 0) false, .pbit (.isRep 1) false, .pbit (.isRep 2) false, .pbit (.isRep 3) false,
   .pbit (.isRep 4) false, .pbit (.isMatch 0) false, .pbit (.isRepG0 0) true,
   .pbit (.isRepG0 1) false, .pbit (.isRepG0 2) false, .pbit (.isRepG0 3) false,
   .pbit (.isRepG0 4) false, .pbit (.isRepG0 5) false]

/-- **`0 < p < 0x800` is not enough**: with a stored probability of `1` the
encoder's `while range < 2^24` loop shifts twice where the decoder's single `if`
shifts once, and the round trip fails.  (Values reachable from `0x400` stay in
`[31, 2017]`, see `ProbOk.upd`, so this state is unreachable in lzma-rs.) -/
theorem rc_roundtrip_needs_probOk :
    (∀ i v, cxProbs.get i = .ok v → 0 < v ∧ v < 0x800) ∧ rcRoundTrips cxEvs cxProbs = false := by
  refine ⟨fun i v h => ?_, by decide +kernel⟩
  rcases Probs.get_set h with rfl | h'
  · omega
  · have := probsOk_init 1 i v h'
    unfold ProbOk at this; omega

end Lzma
