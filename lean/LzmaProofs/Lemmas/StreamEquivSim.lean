/-
  C05 — layer D, the core: one run of the `.stream` loop (one `read_data`) is
  simulated by the one-shot `.finish` loop on the concatenated input.
-/
import LzmaProofs.Lemmas.StreamEquivStep
namespace Lzma
namespace StreamEq

open DState Safety

/-- what a `.stream` run leaves unread (`a'`) of its input `a`: nothing, or the
size is reached (everything after is ignored), or — only when the run started
with staged bytes — strictly less than it was given (or the stage was full) -/
def Tail (s : DState) (a : Bytes) (s' : DState) (w' : Circ) (a' : Bytes) : Prop :=
  a' = [] ∨ StopNow s' w' ∨
    (s.partialBuf ≠ [] ∧ (a'.length < a.length ∨ s.partialBuf.length = 20))

/-- the simulation statement for a result of the `.stream` loop started in
`(s, w, rc)` on the local input `a` with sink `snk`; `F` is any future input -/
def SimPost (s : DState) (w : Circ) (rc : RC) (a : Bytes) (snk : Sink)
    (res : Sink × Except Err (DState × Circ × RC × Rd)) : Prop :=
  match res with
  | (_, Except.error _) => ∀ F, IsErr (fin (clr s) w rc (s.partialBuf ++ a ++ F) snk)
  | (snk', Except.ok (s', w', rc', rd')) =>
    rd'.bad = false ∧ Inv s' w' rc' ∧ s'.unpackedSize = s.unpackedSize ∧ rd'.rem <:+ a ∧
    Tail s a s' w' rd'.rem ∧ (s'.partialBuf.length < 20 ∨ StopNow s' w') ∧
    ∀ F, Veq (fin (clr s) w rc (s.partialBuf ++ a ++ F) snk)
             (fin (clr s') w' rc' (s'.partialBuf ++ rd'.rem ++ F) snk')

theorem SimPost_step {s : DState} {w : Circ} {rc : RC} {a : Bytes} {snk : Sink}
    {s2 : DState} {w2 : Circ} {rc2 : RC} {a2 : Bytes} {k : Sink}
    (res : Sink × Except Err (DState × Circ × RC × Rd))
    (hus : s2.unpackedSize = s.unpackedSize) (hsuf : a2 <:+ a)
    (heq : ∀ F, fin (clr s) w rc (s.partialBuf ++ a ++ F) snk =
      fin (clr s2) w2 rc2 (s2.partialBuf ++ a2 ++ F) k)
    (htail : ∀ s' w' a', Tail s2 a2 s' w' a' → a' <:+ a2 → Tail s a s' w' a')
    (h : SimPost s2 w2 rc2 a2 k res) : SimPost s w rc a snk res := by
  rcases res with ⟨k2, r⟩
  cases r with
  | error e =>
    intro F
    rw [heq F]
    exact h F
  | ok y =>
    obtain ⟨s', w', rc', rd'⟩ := y
    obtain ⟨h1, h2, h3, h4, h5, h6, h7⟩ := h
    refine ⟨h1, h2, h3.trans hus, h4.trans hsuf, htail _ _ _ h5 h4, h6, fun F => ?_⟩
    rw [heq F]
    exact h7 F

/-- the window reads of `mkCtx` on the circular window never report `eof` -/
theorem mkCtx_litRow_ne_eof (s : DState) (w : Circ) : (s.mkCtx w).litRow ≠ .error .eof := by
  intro h
  simp only [DState.mkCtx, LzBuf.lastOr, Circ.lastOr, Circ.offsetOf, subChk, oob, LzBuf.len] at h
  repeat' split at h
  all_goals simp [bind, Except.bind, pure, Except.pure] at h
  all_goals (try split at h) <;> simp at h

theorem mkCtx_matchByte_ne_eof (s : DState) (w : Circ) : (s.mkCtx w).matchByte ≠ .error .eof := by
  intro h
  simp only [DState.mkCtx, LzBuf.lastN, Circ.lastN, Circ.offsetOf, subChk] at h
  repeat' split at h
  all_goals simp [bind, Except.bind, pure, Except.pure] at h
  all_goals (try split at h) <;> simp at h

theorem not_eof (hN : Need20) {s : DState} {w : Circ} {rc : RC} (hI : Inv s w rc) (X : Bytes)
    (hc : ¬ (X.length < 20 ∧ tryProcessNext s w X rc = false)) :
    dec1 s w rc ⟨X, false⟩ ≠ .error .eof := by
  intro he
  by_cases hl : X.length < 20
  · have ht : tryProcessNext s w X rc = true := by
      cases h : tryProcessNext s w X rc
      · exact absurd ⟨hl, h⟩ hc
      · rfl
    obtain ⟨r, hr⟩ := (try_iff w X rc hI.ds.probs).mp ht
    rw [hr] at he
    cases he
  · exact hN _ _ _ _ (mkCtx_litRow_ne_eof s w) (mkCtx_matchByte_ne_eof s w) hI.ds.probs hI.rc
      (by omega) he

theorem stop_true_cases {s : DState} {w : Circ} {rc : RC} {a : Bytes}
    (h : stopB .stream s w rc a = true) : StopNow s w ∨ (a = [] ∧ s.partialBuf = []) := by
  unfold stopB at h
  cases hu : s.unpackedSize with
  | some n =>
    rw [hu] at h
    left
    exact ⟨n, hu, by simpa using h⟩
  | none =>
    rw [hu] at h
    right
    simpa using h

/-- **Core simulation (depends on `Need20`).**  A run of the `.stream` loop on the
local input `a` (with any sufficient fuel) either fails — then the one-shot tail
on `partialBuf ++ a ++ F` fails for every future `F` — or returns a state from
which the one-shot tail on what is left (`partialBuf' ++ a' ++ F`) has the same
verdict and result as the one-shot tail from the start state. -/
theorem stream_loop_sim_partial (hN : Need20) : ∀ (n : Nat) (s : DState) (w : Circ) (rc : RC) (a : Bytes)
    (snk : Sink), Inv s w rc → lmu s rc a < n →
    SimPost s w rc a snk (processLoop .stream n s w rc ⟨a, false⟩ snk) := by
  intro n
  induction n with
  | zero => intro s w rc a snk _ h; omega
  | succ n ih =>
    intro s w rc a snk hI hn
    rw [processLoop_succ]
    cases hs : stopB .stream s w rc a with
    | true =>
      rw [LB_stop snk hs]
      refine ⟨rfl, hI, rfl, List.suffix_refl a, ?_, ?_, fun F => Veq.refl _⟩
      · rcases stop_true_cases hs with h | ⟨h, _⟩
        · exact .inr (.inl h)
        · exact .inl h
      · rcases stop_true_cases hs with h | ⟨_, h⟩
        · exact .inr h
        · left; rw [h]; decide
    | false =>
      have hstopF : ∀ F, stopB .finish (clr s) w rc (s.partialBuf ++ a ++ F) = false := stop_rel hs
      by_cases hpb : s.partialBuf = []
      · -- direct input
        by_cases hc : (Mode.stream = Mode.stream ∧ a.length < 20 ∧ tryProcessNext s w a rc = false)
        · rw [LB_direct_ret snk hs hpb hc]
          refine ⟨rfl, setpb_inv hI (by have := hc.2.1; omega), rfl, List.nil_suffix, .inl rfl,
            .inl hc.2.1, fun F => Veq.of_eq ?_⟩
          show fin (clr s) w rc (s.partialBuf ++ a ++ F) snk = fin (clr s) w rc (a ++ [] ++ F) snk
          rw [hpb, List.nil_append, List.append_nil]
        · rw [LB_direct_next snk hs hpb hc]
          have hne := not_eof hN hI a (fun h => hc ⟨rfl, h⟩)
          have hstopF' : ∀ F, stopB .finish (clr s) w rc (a ++ F) = false := by
            intro F; have := hstopF F; rwa [hpb, List.nil_append] at this
          rcases processNext_cases s w rc a snk with h | ⟨k, e, h⟩ | ⟨k, s', w', rc', a', hsuf, h⟩ |
            ⟨s', rc', h, hc0, hr0, hs7, hb⟩
          · exact absurd h hne
          · have h0 := h []
            rw [List.append_nil] at h0
            rw [h0, pnTail_err]
            intro F
            rw [hpb, List.nil_append, fin_step_err hI (hstopF' F) (h F)]
            exact isErr_mk _ _
          · have h0 := h []
            rw [List.append_nil, List.append_nil] at h0
            rw [h0, pnTail_cont]
            obtain ⟨hI', _, _, hmu, hpb', hus⟩ := processNext_inv hI h0
            have hpb2 : s'.partialBuf = [] := hpb'.trans hpb
            refine SimPost_step _ hus hsuf ?_ ?_ (ih s' w' rc' a' k hI' ?_)
            · intro F
              rw [hpb, hpb2, List.nil_append, List.nil_append]
              exact fin_step_cont hI (hstopF' F) (h F)
            · intro s'' w'' a'' ht _
              rcases ht with ht | ht | ⟨ht, _⟩
              · exact .inl ht
              · exact .inr (.inl ht)
              · exact absurd hpb2 ht
            · simp only [lmu, hpb2, hpb, List.length_nil, Nat.add_zero] at hn ⊢
              have hmu' : a'.length * 4294967296 + rc'.range < a.length * 4294967296 + rc.range := hmu
              generalize 4294967296 = K at *
              omega
          · rw [h, pnTail_fin]
            obtain ⟨hI', _, _, _, hpb', hus⟩ := processNext_inv hI h
            have hpb2 : s'.partialBuf = [] := hpb'.trans hpb
            refine ⟨rfl, hI', hus, List.nil_suffix, .inl rfl, .inl (by rw [hpb2]; decide), fun F => ?_⟩
            show Veq (fin (clr s) w rc (s.partialBuf ++ a ++ F) snk)
              (fin (clr s') w rc' (s'.partialBuf ++ [] ++ F) snk)
            rw [hpb, hpb2, List.nil_append, List.nil_append, List.nil_append]
            exact fin_step_fin hI (hstopF' F) h hc0 hr0 hs7 hb
      · -- staged input
        obtain ⟨pb1, a1, hr, hcat, hl20, ha1, hI1, hsuf1, hlt1, hne1, hlen⟩ := readPartial_facts a hI
        have hstopF' : ∀ F, stopB .finish (clr s) w rc (pb1 ++ (a1 ++ F)) = false := by
          intro F; have := hstopF F; rwa [hcat, List.append_assoc] at this
        have hcatF : ∀ F, s.partialBuf ++ a ++ F = pb1 ++ (a1 ++ F) := by
          intro F; rw [hcat, List.append_assoc]
        by_cases hc : (Mode.stream = Mode.stream ∧ ({ s with partialBuf := pb1 } : DState).partialBuf.length < 20 ∧
            tryProcessNext { s with partialBuf := pb1 } w ({ s with partialBuf := pb1 } : DState).partialBuf rc = false)
        · rw [LB_buf_ret snk hs hpb hr hc]
          have hl : pb1.length < 20 := hc.2.1
          have ha1' := ha1 hl
          subst ha1'
          refine ⟨rfl, hI1, rfl, List.nil_suffix, .inl rfl, .inl hl, fun F => Veq.of_eq ?_⟩
          show fin (clr s) w rc (s.partialBuf ++ a ++ F) snk = fin (clr s) w rc (pb1 ++ [] ++ F) snk
          rw [hcatF F, List.append_nil, List.nil_append]
        · rw [LB_buf_next snk hs hpb hr hc]
          show SimPost s w rc a snk (pnTail (processLoop .stream n) ⟨a1, false⟩ true
            (processNext { s with partialBuf := pb1 } w rc ⟨pb1, false⟩ snk))
          have hne := not_eof hN hI1 pb1 (fun h => hc ⟨rfl, h⟩)
          rcases processNext_cases { s with partialBuf := pb1 } w rc pb1 snk with h | ⟨k, e, h⟩ |
            ⟨k, s', w', rc', l, hsuf, h⟩ | ⟨s', rc', h, hc0, hr0, hs7, hb⟩
          · exact absurd h hne
          · have h0 := h []
            rw [List.append_nil] at h0
            rw [h0, pnTail_err]
            intro F
            rw [hcatF F]
            have := fin_step_err hI1 (hstopF' F) (h (a1 ++ F))
            rw [show fin (clr s) w rc (pb1 ++ (a1 ++ F)) snk = _ from this]
            exact isErr_mk _ _
          · have h0 := h []
            rw [List.append_nil, List.append_nil] at h0
            rw [h0, pnTail_cont_buf]
            obtain ⟨hI', _, _, hmu, _, hus⟩ := processNext_inv hI1 h0
            have hle : l.length ≤ pb1.length := hsuf.length_le
            have hI2 : Inv { s' with partialBuf := l } w' rc' := setpb_inv hI' (by omega)
            refine SimPost_step (s2 := { s' with partialBuf := l }) _ hus hsuf1 ?_ ?_
              (ih { s' with partialBuf := l } w' rc' a1 k hI2 ?_)
            · intro F
              rw [hcatF F]
              have := fin_step_cont hI1 (hstopF' F) (h (a1 ++ F))
              show fin (clr s) w rc (pb1 ++ (a1 ++ F)) snk = fin (clr s') w' rc' (l ++ a1 ++ F) k
              rw [List.append_assoc]
              exact this
            · intro s'' w'' a'' ht hsuf''
              rcases ht with ht | ht | ⟨_, ht⟩
              · exact .inl ht
              · exact .inr (.inl ht)
              · right; right
                refine ⟨hpb, ?_⟩
                have hle'' : a''.length ≤ a1.length := hsuf''.length_le
                have hle1 : a1.length ≤ a.length := hsuf1.length_le
                by_cases h20 : s.partialBuf.length = 20
                · exact .inr h20
                · left
                  have hpl := hI.ds.pbuf
                  rcases ht with ht | ht
                  · omega
                  · have hl' : l.length = 20 := ht
                    have : a ≠ [] := by
                      intro ha
                      subst ha
                      have : a1.length = 0 := by
                        have := hsuf1.length_le; simpa using this
                      simp only [List.length_nil, Nat.zero_add] at hlen
                      omega
                    have := hlt1 (by omega) this
                    omega
            · have hmu' : l.length * 4294967296 + rc'.range < pb1.length * 4294967296 + rc.range := hmu
              have : (a1.length + l.length) * 4294967296 + rc'.range <
                  (a.length + s.partialBuf.length) * 4294967296 + rc.range := mu_step hlen hmu'
              simp only [lmu] at hn ⊢
              show (a1.length + l.length) * 4294967296 + rc'.range < n
              generalize 4294967296 = K at *
              omega
          · rw [h, pnTail_fin_buf]
            obtain ⟨hI', _, _, _, _, hus⟩ := processNext_inv hI1 h
            refine ⟨rfl, setpb_inv hI' (by simp), hus, hsuf1, ?_, .inl (by simp), fun F => ?_⟩
            · by_cases ha : a = []
              · left
                subst ha
                have := hsuf1.length_le
                exact List.eq_nil_of_length_eq_zero (by simpa using this)
              · right; right
                refine ⟨hpb, ?_⟩
                by_cases h20 : s.partialBuf.length = 20
                · exact .inr h20
                · left
                  have hpl := hI.ds.pbuf
                  exact hlt1 (by omega) ha
            · show Veq (fin (clr s) w rc (s.partialBuf ++ a ++ F) snk)
                (fin (clr s') w rc' ([] ++ a1 ++ F) snk)
              rw [hcatF F, List.nil_append]
              exact fin_step_fin (s := { s with partialBuf := pb1 }) hI1 (hstopF' F) h hc0 hr0 hs7 hb

end StreamEq
end Lzma
