/-
  C07 — layer 6: the `.lzma` container: `readHeader`, `LzmaDecoder`, `lzmaDecompress`.
-/
import LzmaProofs.Lemmas.SafetyLoop
namespace Lzma
namespace Safety

theorem hdrErr_safe {P : α → Prop} {x : Except Err α} (h : ESafe P x) : ESafe P (hdrErr x) := by
  cases x with
  | ok a => exact h
  | error e => rfl

theorem lzErr_safe {P : α → Prop} {x : Except Err α} (h : ESafe P x) : ESafe P (lzErr x) := by
  cases x with
  | ok a => exact h
  | error e => rfl

theorem props_of_byte {pb : Nat} (h : ¬ pb ≥ 225) :
    PropsOk { lc := pb % 9, lp := pb / 9 % 5, pb := pb / 9 / 5 } := by
  unfold PropsOk
  simp only
  omega

theorem readHeader_safe (rd : Rd) (opts : Options) :
    ESafe (fun x => PropsOk x.1.props ∧ 0 < x.1.dictSize ∧ x.2.rem.length ≤ rd.rem.length)
      (readHeader rd opts) := by
  unfold readHeader
  refine (hdrErr_safe (readU8_safe rd)).bind ?_
  rintro ⟨props, rd1⟩ h1
  dsimp only
  split
  · rfl
  · rename_i hpb
    simp only [pure_bind']
    refine (hdrErr_safe (readU32LE_safe rd1)).bind ?_
    rintro ⟨dict, rd2⟩ ⟨h2, _⟩
    dsimp only at h1 h2 ⊢
    have hdict : 0 < (if dict < 4096 then 4096 else dict) := by split <;> omega
    split
    · refine (hdrErr_safe (readU64LE_safe rd2)).bind ?_
      rintro ⟨u, rd3⟩ ⟨h3, _⟩
      refine ESafe_pure.mpr ⟨props_of_byte hpb, hdict, ?_⟩
      dsimp only at h3 ⊢; omega
    · refine (hdrErr_safe (readU64LE_safe rd2)).bind ?_
      rintro ⟨u, rd3⟩ ⟨h3, _⟩
      refine ESafe_pure.mpr ⟨props_of_byte hpb, hdict, ?_⟩
      dsimp only at h3 ⊢; omega
    · refine ESafe_pure.mpr ⟨props_of_byte hpb, hdict, ?_⟩
      dsimp only; omega

theorem LzmaDecoder_new_safe {params : LzmaParams} (hp : PropsOk params.props) (memlimit : Option Nat) :
    ESafe (fun d => DStateInv d.state ∧ 0 < d.params.dictSize ∧ PropsOk d.params.props)
      (LzmaDecoder.new params memlimit) := by
  unfold LzmaDecoder.new
  split
  · rfl
  · rename_i hd
    refine (DState_new_safe hp params.unpackedSize).bind ?_
    intro st ⟨hst, _⟩
    exact ESafe_pure.mpr ⟨hst, by dsimp only; omega, hp⟩

/-- invariant of a raw `LzmaDecoder` object -/
def LzmaDecoderInv (d : LzmaDecoder) : Prop :=
  DStateInv d.state ∧ 0 < d.params.dictSize ∧ PropsOk d.params.props

theorem LzmaDecoder_reset_safe {d : LzmaDecoder} (hd : LzmaDecoderInv d) (u : Option (Option Nat)) :
    ESafe LzmaDecoderInv (d.reset u) := by
  unfold LzmaDecoder.reset
  refine (resetState_safe hd.1 hd.2.2).bind ?_
  intro st ⟨hst, _⟩
  refine ESafe_pure.mpr ⟨?_, hd.2.1, hd.2.2⟩
  dsimp only
  split
  · exact setUnpackedSize_inv hst _
  · exact hst

theorem RC_new_lzma_safe (rd : Rd) :
    ESafe (fun x => RCInv x.1 ∧ x.2.rem.length ≤ rd.rem.length)
      (match RC.new rd with
        | .ok x => .ok x
        | .error _ => .error .lzma) := by
  have := RC_new_safe rd
  cases h : RC.new rd with
  | ok x => rw [h] at this; exact ⟨this.1, by have := this.2; omega⟩
  | error e => rfl

theorem LzmaDecoder_decompress_safe {d : LzmaDecoder} (hd : LzmaDecoderInv d) (rd : Rd) :
    MSafe (fun x => LzmaDecoderInv x.1 ∧ x.2.rem.length ≤ rd.rem.length) (d.decompress rd) := by
  unfold LzmaDecoder.decompress
  dsimp only
  refine MSafe.bind (MSafe.liftE (RC_new_lzma_safe rd)) ?_
  rintro ⟨rc, rd1⟩ ⟨hrc, hl1⟩
  dsimp only
  have hw : LzBufSafe.inv (Circ.fromStream d.params.dictSize d.memlimit) :=
    CircSafe_fromStream hd.2.1
  refine MSafe.bind (processMode_safe .finish rd1 hd.1 hw hrc) ?_
  rintro ⟨st, w, rc2, rd2⟩ ⟨hst, hw2, _, hl2⟩
  dsimp only
  refine MSafe.bind (Circ.finish_safe w hw2) ?_
  intro _ _
  refine MSafe_pure.mpr ⟨⟨hst, hd.2.1, hd.2.2⟩, ?_⟩
  dsimp only at hl1 hl2 ⊢; omega

theorem lzmaDecompress_safe (rd : Rd) (opts : Options) :
    MSafe (fun rd' => rd'.rem.length ≤ rd.rem.length) (lzmaDecompress rd opts) := by
  unfold lzmaDecompress
  refine MSafe.bind (MSafe.liftE (readHeader_safe rd opts)) ?_
  rintro ⟨params, rd1⟩ ⟨hp, hdict, hl1⟩
  dsimp only
  refine MSafe.bind (MSafe.liftE (LzmaDecoder_new_safe hp opts.memlimit)) ?_
  intro dec hdec
  refine MSafe.bind (LzmaDecoder_decompress_safe hdec rd1) ?_
  rintro ⟨_, rd2⟩ ⟨_, hl2⟩
  refine MSafe_pure.mpr ?_
  dsimp only at hl1 hl2 ⊢; omega

theorem lzmaDecompress_no_panic (rd : Rd) (opts : Options) (snk : Sink) (w : String) :
    (lzmaDecompress rd opts snk).2 ≠ .error (.panic w) :=
  (lzmaDecompress_safe rd opts snk).ne_panic w

theorem lzmaDecompress_terminates (rd : Rd) (opts : Options) (snk : Sink) :
    (lzmaDecompress rd opts snk).2 ≠ .error .fuel :=
  (lzmaDecompress_safe rd opts snk).ne_fuel

end Safety
end Lzma
