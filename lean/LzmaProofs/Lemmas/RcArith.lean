/-
  Arithmetic toolbox for the range-coder round trip:
  big-endian values of byte lists, carry into a run of 0xFF bytes,
  `xor` of a shifted value with a byte, `UInt8` conversions.
-/
import LzmaModel
namespace Lzma
-- generic arithmetic lemmas of the range-coder proofs live in their own namespace
-- (`open Lzma.RcArith`) so that they cannot clash with other lemma files
namespace RcArith

/-! ## `beVal` -/

theorem beVal_foldl (bs : Bytes) (acc : Nat) :
    bs.foldl (fun acc b => acc * 256 + b.toNat) acc = acc * 256 ^ bs.length + beVal bs := by
  induction bs generalizing acc with
  | nil => simp [beVal]
  | cons b r ih =>
    simp only [List.foldl_cons, List.length_cons, beVal]
    rw [ih, ih (0 * 256 + b.toNat)]
    simp [Nat.pow_succ, Nat.add_mul, Nat.mul_assoc, Nat.mul_comm 256, Nat.add_assoc]

@[simp] theorem beVal_nil : beVal [] = 0 := rfl

theorem beVal_cons (b : UInt8) (r : Bytes) : beVal (b :: r) = b.toNat * 256 ^ r.length + beVal r := by
  simp only [beVal, List.foldl_cons]
  rw [beVal_foldl]; simp [beVal]

theorem beVal_append (a b : Bytes) : beVal (a ++ b) = beVal a * 256 ^ b.length + beVal b := by
  simp only [beVal, List.foldl_append]
  rw [beVal_foldl]; simp [beVal]

theorem beVal_snoc (a : Bytes) (b : UInt8) : beVal (a ++ [b]) = beVal a * 256 + b.toNat := by
  rw [beVal_append]; simp [beVal]

theorem beVal_replicate_ff (k : Nat) : beVal (List.replicate k (0xFF : UInt8)) + 1 = 256 ^ k := by
  induction k with
  | zero => simp
  | succ k ih =>
    rw [List.replicate_succ', beVal_snoc, Nat.pow_succ]
    have : (0xFF : UInt8).toNat = 255 := rfl
    omega

theorem beVal_replicate_zero (k : Nat) : beVal (List.replicate k (0 : UInt8)) = 0 := by
  induction k with
  | zero => simp
  | succ k ih =>
    rw [List.replicate_succ', beVal_snoc, ih]; rfl

theorem rc_beVal_lt (bs : Bytes) : beVal bs < 256 ^ bs.length := by
  induction bs with
  | nil => simp
  | cons b r ih =>
    rw [beVal_cons, List.length_cons, Nat.pow_succ]
    have h1 : b.toNat * 256 ^ r.length ≤ 255 * 256 ^ r.length :=
      Nat.mul_le_mul_right _ (by have := b.toNat_lt; omega)
    omega

theorem rc_toNat_ofNat_lt {c : Nat} (h : c < 256) : (UInt8.ofNat c).toNat = c := by
  simp [UInt8.toNat_ofNat']; omega

/-- a carry into `c, FF, FF, …` gives `c+1, 00, 00, …` -/
theorem beVal_carry (out : Bytes) (c k : Nat) (hc : c + 1 < 256) :
    beVal (out ++ UInt8.ofNat (c + 1) :: List.replicate k 0) =
      beVal (out ++ UInt8.ofNat c :: List.replicate k 0xFF) + 1 := by
  rw [beVal_append, beVal_append, beVal_cons, beVal_cons, beVal_replicate_zero,
    rc_toNat_ofNat_lt hc, rc_toNat_ofNat_lt (by omega : c < 256)]
  have := beVal_replicate_ff k
  simp only [List.length_cons, List.length_replicate] at *
  rw [Nat.add_mul]
  omega

/-- the value of the first `n+1` bytes from the value of the first `n` -/
theorem beVal_take_succ (B : Bytes) (n : Nat) (h : n < B.length) :
    beVal (B.take (n + 1)) = beVal (B.take n) * 256 + (B[n]).toNat := by
  rw [List.take_succ_eq_append_getElem h, beVal_snoc]

theorem beVal_take_all (B : Bytes) (n : Nat) (h : B.length ≤ n) : beVal (B.take n) = beVal B := by
  rw [List.take_of_length_le h]

/-! ## shifts and xor -/

theorem shlU32_eq (x : Nat) (h : x < 0x01000000) : shlU32 x 8 = x * 256 := by
  unfold shlU32 U32
  rw [Nat.shiftLeft_eq]
  omega

theorem xor_byte (x b : Nat) (hb : b < 256) : (x * 256) ^^^ b = x * 256 + b := by
  have h : x * 256 = x <<< 8 := by rw [Nat.shiftLeft_eq]
  rw [h, Nat.shiftLeft_add_eq_or_of_lt (by simpa using hb)]
  apply Nat.eq_of_testBit_eq
  intro i
  simp only [Nat.testBit_xor, Nat.testBit_or, Nat.testBit_shiftLeft]
  by_cases hi : 8 ≤ i
  · have : b.testBit i = false := Nat.testBit_lt_two_pow (Nat.lt_of_lt_of_le hb (by
      calc 256 = 2 ^ 8 := rfl
        _ ≤ 2 ^ i := Nat.pow_le_pow_right (by decide) hi))
    simp [this]
  · simp [hi]

end RcArith
end Lzma
