/-
  C12 — the scripted sink and the `M` monad: specifications of the raw sink
  primitives, monotonicity (`Mono`) and sink-obliviousness (`Obl`) of every
  model function that writes to the sink.
-/
import LzmaProofs.Lemmas.Monad
namespace Lzma

/-! ## array prefixes -/

/-- `a` is a prefix of `b` (on the sink's `Array UInt8`) -/
def APre (a b : Array UInt8) : Prop := ∃ t : Array UInt8, b = a ++ t

theorem APre.refl (a : Array UInt8) : APre a a := ⟨#[], by simp⟩
theorem APre.trans {a b c : Array UInt8} (h1 : APre a b) (h2 : APre b c) : APre a c := by
  obtain ⟨t1, rfl⟩ := h1; obtain ⟨t2, rfl⟩ := h2
  exact ⟨t1 ++ t2, by simp [Array.append_assoc]⟩
theorem APre.append (a t : Array UInt8) : APre a (a ++ t) := ⟨t, rfl⟩
theorem APre.of_eq {a b : Array UInt8} (h : a = b) : APre a b := h ▸ APre.refl a
theorem APre.toList {a b : Array UInt8} (h : APre a b) : a.toList <+: b.toList := by
  obtain ⟨t, rfl⟩ := h; exact ⟨t.toList, by simp⟩
theorem APre.size_le {a b : Array UInt8} (h : APre a b) : a.size ≤ b.size := by
  obtain ⟨t, rfl⟩ := h; simp

/-! ## the raw calls -/

theorem Sink.write1_script (s : Sink) (bs : Bytes) : (s.write1 bs).1.script = s.script.tail := by
  unfold Sink.write1; split <;> simp_all

theorem Sink.write1_spec (s : Sink) (bs : Bytes) :
    (∃ n, (s.write1 bs).2 = .ok n ∧ n ≤ bs.length ∧
        (s.write1 bs).1.out = s.out ++ (bs.take n).toArray ∧ (s.write1 bs).1.lastFlush = false) ∨
    ((s.write1 bs).2 = .error .io ∧ (s.write1 bs).1.out = s.out ∧
        (s.write1 bs).1.lastFlush = s.lastFlush ∧ ∃ rest, s.script = .fail :: rest) := by
  unfold Sink.write1; split
  · left; exact ⟨bs.length, by simp⟩
  · left; exact ⟨bs.length, by simp⟩
  · rename_i n rest h
    left; refine ⟨min n bs.length, by simp, Nat.min_le_right _ _, ?_, by simp⟩
    have : List.take (min n bs.length) bs = List.take n bs := by
      rw [List.take_eq_take_iff]; omega
    simp [this]
  · right; simp_all

/-- `write_all` on a list, for EVERY script: all bytes in order, or an I/O error after a
strict prefix.  The consumed script entries are a prefix of the script. -/
theorem writeAllList_spec (bs : Bytes) (s : Sink) :
    (∃ used, s.script = used ++ (writeAllList bs s).1.script) ∧
    (((writeAllList bs s).2 = .ok () ∧ (writeAllList bs s).1.out = s.out ++ bs.toArray) ∨
     ((writeAllList bs s).2 = .error .io ∧
        ∃ k, k < bs.length ∧ (writeAllList bs s).1.out = s.out ++ (bs.take k).toArray)) := by
  fun_induction writeAllList bs s with
  | case1 bs s h => simp_all
  | case2 bs s h s' e hw =>
    have h1 := Sink.write1_spec s bs
    have h2 := Sink.write1_script s bs
    rw [hw] at h1 h2
    simp at h1 h2
    refine ⟨⟨s.script.take 1, by rw [h2]; cases s.script <;> simp⟩, Or.inr ⟨by simp [h1.1], 0, ?_, by simp [h1.2.1]⟩⟩
    cases bs <;> simp_all
  | case3 bs s h s' hw =>
    have h1 := Sink.write1_spec s bs
    have h2 := Sink.write1_script s bs
    rw [hw] at h1 h2
    simp at h1 h2
    refine ⟨⟨s.script.take 1, by rw [h2]; cases s.script <;> simp⟩, Or.inr ⟨rfl, 0, ?_, by simp [h1.1]⟩⟩
    cases bs <;> simp_all
  | case4 bs s h s' n hw hn hge =>
    have h1 := Sink.write1_spec s bs
    have h2 := Sink.write1_script s bs
    rw [hw] at h1 h2
    simp at h1 h2
    refine ⟨⟨s.script.take 1, by rw [h2]; cases s.script <;> simp⟩, Or.inl ⟨rfl, ?_⟩⟩
    obtain ⟨hle, ho, _⟩ := h1
    have : n = bs.length := by omega
    simp [ho, this]
  | case5 bs s h s' n hw hn hlt ih =>
    have h1 := Sink.write1_spec s bs
    have h2 := Sink.write1_script s bs
    rw [hw] at h1 h2
    simp at h1 h2
    obtain ⟨hle, ho, _⟩ := h1
    obtain ⟨⟨used, hu⟩, ih⟩ := ih
    refine ⟨⟨s.script.take 1 ++ used, ?_⟩, ?_⟩
    · rw [List.append_assoc, ← hu, h2]; cases s.script <;> simp
    · rcases ih with ⟨hr, hout⟩ | ⟨hr, k, hk, hout⟩
      · left; refine ⟨hr, ?_⟩
        rw [hout, ho, Array.append_assoc]; congr 1
        simp
      · right; refine ⟨hr, n + k, ?_, ?_⟩
        · simp at hk; omega
        · rw [hout, ho, Array.append_assoc]; congr 1
          simp [List.take_add]

/-- with an exhausted script `write_all` is one append and succeeds -/
theorem writeAllList_clean (bs : Bytes) (s : Sink) (h : s.script = []) :
    (writeAllList bs s).2 = .ok () ∧ (writeAllList bs s).1.script = [] ∧
    (writeAllList bs s).1.out = s.out ++ bs.toArray := by
  rw [writeAllList.eq_1]
  cases bs with
  | nil => simp [h]
  | cons b bs => simp [Sink.write1, h]

/-- a script without `fail` and without `upto 0` -/
def Benign (script : List SinkBeh) : Prop := ∀ b ∈ script, b ≠ .fail ∧ b ≠ .upto 0

theorem Sink.write1_benign (s : Sink) (bs : Bytes) (hb : Benign s.script) (hne : bs ≠ []) :
    ∃ n, (s.write1 bs).2 = .ok n ∧ 0 < n ∧ Benign (s.write1 bs).1.script := by
  have hlen : 0 < bs.length := List.length_pos_iff.mpr hne
  unfold Sink.write1; split
  · rename_i h; exact ⟨bs.length, rfl, hlen, by simpa [h] using hb⟩
  · rename_i rest h
    refine ⟨bs.length, rfl, hlen, ?_⟩
    intro b hb'; exact hb b (by simp_all)
  · rename_i n rest h
    refine ⟨min n bs.length, rfl, ?_, ?_⟩
    · have := (hb (.upto n) (by simp [h])).2
      have : n ≠ 0 := fun h0 => this (by rw [h0])
      omega
    · intro b hb'; exact hb b (by simp_all)
  · rename_i rest h
    exact absurd rfl (hb .fail (by simp [h])).1

/-- short writes (`upto n`, `n ≥ 1`) never lose or reorder data: on a script without `fail`
and `upto 0`, `write_all` succeeds and delivers exactly `bs` -/
theorem writeAllList_benign (bs : Bytes) (s : Sink) (hb : Benign s.script) :
    (writeAllList bs s).2 = .ok () ∧ (writeAllList bs s).1.out = s.out ++ bs.toArray ∧
    Benign (writeAllList bs s).1.script := by
  fun_induction writeAllList bs s with
  | case1 bs s h => simp_all
  | case2 bs s h s' e hw =>
    obtain ⟨n, h1, _⟩ := Sink.write1_benign s bs hb (by simpa using h)
    simp [hw] at h1
  | case3 bs s h s' hw =>
    obtain ⟨n, h1, h2, _⟩ := Sink.write1_benign s bs hb (by simpa using h)
    simp [hw] at h1; omega
  | case4 bs s h s' n hw hn hge =>
    obtain ⟨n', h1, h2, h3⟩ := Sink.write1_benign s bs hb (by simpa using h)
    have h4 := writeAllList_spec bs s
    rw [writeAllList.eq_1] at h4
    simp [hw, h, hn, hge] at h4 h3
    simp [h4.2, h3]
  | case5 bs s h s' n hw hn hlt ih =>
    obtain ⟨n', h1, h2, h3⟩ := Sink.write1_benign s bs hb (by simpa using h)
    simp [hw] at h3
    obtain ⟨i1, i2, i3⟩ := ih h3
    refine ⟨i1, ?_, i3⟩
    have h4 := writeAllList_spec bs s
    rw [writeAllList.eq_1] at h4
    simp [hw, h, hn, hlt, i1] at h4
    exact h4.2

/-- `upto 0` on a non-empty buffer is the `WriteZero` error; nothing is delivered -/
theorem writeAllList_upto_zero (bs : Bytes) (s : Sink) (rest : List SinkBeh)
    (h : s.script = .upto 0 :: rest) (hne : bs ≠ []) :
    (writeAllList bs s).2 = .error .io ∧ (writeAllList bs s).1.out = s.out ∧
    (writeAllList bs s).1.script = rest := by
  rw [writeAllList.eq_1]
  cases bs with
  | nil => exact absurd rfl hne
  | cons b bs => simp [Sink.write1, h]

/-- a failing raw call is reported; nothing is delivered by it -/
theorem writeAllList_fail (bs : Bytes) (s : Sink) (rest : List SinkBeh)
    (h : s.script = .fail :: rest) (hne : bs ≠ []) :
    (writeAllList bs s).2 = .error .io ∧ (writeAllList bs s).1.out = s.out ∧
    (writeAllList bs s).1.script = rest := by
  rw [writeAllList.eq_1]
  cases bs with
  | nil => exact absurd rfl hne
  | cons b bs => simp [Sink.write1, h]

theorem take_toArray_eq_extract (bs : Array UInt8) (k : Nat) :
    (bs.toList.take k).toArray = bs.extract 0 k := by
  apply Array.ext' ; simp

theorem writeAll_eq_list (bs : Array UInt8) (s : Sink) :
    ((writeAll bs s).2 = (writeAllList bs.toList s).2) ∧
    ((writeAll bs s).1.out = (writeAllList bs.toList s).1.out) ∧
    ((writeAll bs s).1.script = (writeAllList bs.toList s).1.script) := by
  unfold writeAll
  by_cases h1 : bs.isEmpty
  · have : bs.toList = [] := by simpa using h1
    rw [writeAllList.eq_1]; simp [h1, this]
  · by_cases h2 : s.script.isEmpty
    · have h2' : s.script = [] := by simpa using h2
      have := writeAllList_clean bs.toList s h2'
      simp [h1, this, h2']
    · simp [h1, h2]

/-- `write_all` of an array, for EVERY script -/
theorem writeAll_spec (bs : Array UInt8) (s : Sink) :
    (∃ used, s.script = used ++ (writeAll bs s).1.script) ∧
    (((writeAll bs s).2 = .ok () ∧ (writeAll bs s).1.out = s.out ++ bs) ∨
     ((writeAll bs s).2 = .error .io ∧
        ∃ k, k < bs.size ∧ (writeAll bs s).1.out = s.out ++ bs.extract 0 k)) := by
  obtain ⟨e1, e2, e3⟩ := writeAll_eq_list bs s
  have := writeAllList_spec bs.toList s
  rw [e1, e2, e3]
  simpa [take_toArray_eq_extract] using this

theorem writeAll_clean (bs : Array UInt8) (s : Sink) (h : s.script = []) :
    (writeAll bs s).2 = .ok () ∧ (writeAll bs s).1.script = [] ∧
    (writeAll bs s).1.out = s.out ++ bs := by
  obtain ⟨e1, e2, e3⟩ := writeAll_eq_list bs s
  have := writeAllList_clean bs.toList s h
  rw [e1, e2, e3]; simpa using this

theorem writeAll_benign (bs : Array UInt8) (s : Sink) (hb : Benign s.script) :
    (writeAll bs s).2 = .ok () ∧ (writeAll bs s).1.out = s.out ++ bs ∧
    Benign (writeAll bs s).1.script := by
  obtain ⟨e1, e2, e3⟩ := writeAll_eq_list bs s
  have := writeAllList_benign bs.toList s hb
  rw [e1, e2, e3]; simpa using this

theorem writeBytes_spec (bs : Bytes) (s : Sink) :
    (∃ used, s.script = used ++ (writeBytes bs s).1.script) ∧
    (((writeBytes bs s).2 = .ok () ∧ (writeBytes bs s).1.out = s.out ++ bs.toArray) ∨
     ((writeBytes bs s).2 = .error .io ∧
        ∃ k, k < bs.length ∧ (writeBytes bs s).1.out = s.out ++ (bs.take k).toArray)) := by
  have := writeAll_spec bs.toArray s
  unfold writeBytes
  simpa [← take_toArray_eq_extract] using this

theorem writeBytes_clean (bs : Bytes) (s : Sink) (h : s.script = []) :
    (writeBytes bs s).2 = .ok () ∧ (writeBytes bs s).1.script = [] ∧
    (writeBytes bs s).1.out = s.out ++ bs.toArray := writeAll_clean bs.toArray s h

/-- `flush` never changes the delivered bytes; success records `lastFlush`; it fails exactly on
a scripted `fail` -/
theorem flushSink_spec (s : Sink) :
    (flushSink s).1.out = s.out ∧ (flushSink s).1.script = s.script.tail ∧
    (flushSink s).1.flushes = s.flushes + 1 ∧
    (((flushSink s).2 = .ok () ∧ (flushSink s).1.lastFlush = true ∧ s.script.head? ≠ some .fail) ∨
     ((flushSink s).2 = .error .io ∧ (flushSink s).1.lastFlush = s.lastFlush ∧
        s.script.head? = some .fail)) := by
  unfold flushSink; split <;> simp_all

/-! ## monotonicity and sink-obliviousness -/

/-- `m` only ever appends to the delivered bytes -/
def Mono (m : M α) : Prop := ∀ s, APre s.out (m s).1.out

/-- Sink-obliviousness.  `sp` is a fault-free sink (exhausted script) holding the same bytes as
`s`, whose script is arbitrary.  Then the fault-free run keeps an exhausted script, and the run on
`s` either behaves exactly like the fault-free run (same result, same delivered bytes) or returns
an I/O error having delivered a prefix of what the fault-free run finally delivers. -/
def Obl (m : M α) : Prop := ∀ s sp, sp.script = [] → s.out = sp.out →
    (m sp).1.script = [] ∧
    (((m s).2 = (m sp).2 ∧ (m s).1.out = (m sp).1.out) ∨
     ((m s).2 = .error .io ∧ APre (m s).1.out (m sp).1.out))

/-- Short writes are harmless: under a script without `fail` and `upto 0` (only `all` and
`upto n`, `n ≥ 1`) the run returns the fault-free result and delivers exactly the fault-free
bytes; the rest of the script is again benign. -/
def Ben (m : M α) : Prop := ∀ s sp, Benign s.script → sp.script = [] → s.out = sp.out →
    (m s).2 = (m sp).2 ∧ (m s).1.out = (m sp).1.out ∧ Benign (m s).1.script

/-- the three properties together (the invariant carried through the model) -/
structure OM (m : M α) : Prop where
  mono : Mono m
  obl : Obl m
  ben : Ben m

theorem Mono.bind {m : M α} {f : α → M β} (hm : Mono m) (hf : ∀ a, Mono (f a)) :
    Mono (m >>= f) := by
  intro s
  rw [bind_run]
  have h1 := hm s
  split
  · rename_i s' a h; rw [h] at h1; exact h1.trans (hf a s')
  · rename_i s' e h; rw [h] at h1; exact h1

theorem Obl.bind {m : M α} {f : α → M β} (hm : Obl m) (hf : ∀ a, Obl (f a))
    (hfm : ∀ a, Mono (f a)) : Obl (m >>= f) := by
  intro s sp hsp ho
  obtain ⟨h1, h2⟩ := hm s sp hsp ho
  rw [bind_run, bind_run]
  rcases hs : m s with ⟨s', r⟩
  rcases hp : m sp with ⟨sp', rp⟩
  rw [hs, hp] at h2; rw [hp] at h1
  simp only at h1 h2 ⊢
  rcases h2 with ⟨hr, hout⟩ | ⟨hr, hpre⟩
  · subst hr
    cases r with
    | ok a => exact hf a s' sp' h1 hout
    | error e => exact ⟨h1, Or.inl ⟨rfl, hout⟩⟩
  · subst hr
    cases rp with
    | ok a =>
      exact ⟨(hf a sp' sp' h1 rfl).1, Or.inr ⟨rfl, hpre.trans (hfm a sp')⟩⟩
    | error e => exact ⟨h1, Or.inr ⟨rfl, hpre⟩⟩

theorem Ben.bind {m : M α} {f : α → M β} (hm : Ben m) (hmo : Obl m) (hf : ∀ a, Ben (f a)) :
    Ben (m >>= f) := by
  intro s sp hb hsp ho
  obtain ⟨h1, h2, h3⟩ := hm s sp hb hsp ho
  have h4 := (hmo s sp hsp ho).1
  rw [bind_run, bind_run]
  rcases hs : m s with ⟨s', r⟩
  rcases hp : m sp with ⟨sp', rp⟩
  rw [hs, hp] at h1 h2; rw [hs] at h3; rw [hp] at h4
  simp only at h1 h2 h3 h4 ⊢
  subst h1
  cases r with
  | ok a => exact hf a s' sp' h3 h4 h2
  | error e => exact ⟨rfl, h2, h3⟩

theorem OM.bind {m : M α} {f : α → M β} (hm : OM m) (hf : ∀ a, OM (f a)) : OM (m >>= f) :=
  ⟨hm.mono.bind fun a => (hf a).mono, hm.obl.bind (fun a => (hf a).obl) fun a => (hf a).mono,
   hm.ben.bind hm.obl fun a => (hf a).ben⟩

theorem OM.pure (a : α) : OM (Pure.pure a : M α) :=
  ⟨fun _ => APre.refl _, fun _ _ hsp ho => ⟨hsp, Or.inl ⟨rfl, ho⟩⟩, fun _ _ hb _ ho => ⟨rfl, ho, hb⟩⟩
theorem OM.mpure (a : α) : OM (M.pure a : M α) := OM.pure a
theorem OM.throw (e : Err) : OM (throwM e : M α) :=
  ⟨fun _ => APre.refl _, fun _ _ hsp ho => ⟨hsp, Or.inl ⟨rfl, ho⟩⟩, fun _ _ hb _ ho => ⟨rfl, ho, hb⟩⟩
theorem OM.liftE (x : Except Err α) : OM (liftE x : M α) := by
  cases x with
  | ok a => exact OM.pure a
  | error e => exact OM.throw e
theorem OM.monadLift (x : Except Err α) : OM (MonadLift.monadLift x : M α) := OM.liftE x
theorem OM.liftM (x : Except Err α) : OM (liftM x : M α) := OM.liftE x

/-- reading the current output size (used by the XZ writer) -/
theorem OM.outSize : OM (fun snk => (snk, .ok snk.out.size) : M Nat) :=
  ⟨fun s => APre.refl _, fun s sp hsp ho => ⟨hsp, Or.inl ⟨by simp [ho], ho⟩⟩,
   fun s sp hb _ ho => ⟨by simp [ho], ho, hb⟩⟩

theorem OM.writeAll (bs : Array UInt8) : OM (writeAll bs) := by
  constructor
  · intro s
    rcases (writeAll_spec bs s).2 with ⟨_, h⟩ | ⟨_, k, _, h⟩ <;> rw [h] <;> exact APre.append _ _
  · intro s sp hsp ho
    obtain ⟨c1, c2, c3⟩ := writeAll_clean bs sp hsp
    refine ⟨c2, ?_⟩
    rcases (writeAll_spec bs s).2 with ⟨hr, h⟩ | ⟨hr, k, hk, h⟩
    · left; rw [hr, c1, h, c3, ho]; exact ⟨rfl, rfl⟩
    · right; refine ⟨hr, ?_⟩
      rw [h, c3, ho]
      refine ⟨bs.extract k bs.size, ?_⟩
      rw [Array.append_assoc]; congr 1
      rw [Array.extract_append_extract]
      have : max k bs.size = bs.size := by omega
      simp [this]
  · intro s sp hb hsp ho
    obtain ⟨c1, c2, c3⟩ := writeAll_clean bs sp hsp
    obtain ⟨b1, b2, b3⟩ := writeAll_benign bs s hb
    exact ⟨by rw [b1, c1], by rw [b2, c3, ho], b3⟩

theorem OM.writeBytes (bs : Bytes) : OM (writeBytes bs) := OM.writeAll bs.toArray

theorem OM.flushSink : OM flushSink := by
  constructor
  · intro s; rw [(flushSink_spec s).1]; exact APre.refl _
  · intro s sp hsp ho
    have hs := flushSink_spec s
    have hp := flushSink_spec sp
    refine ⟨by rw [hp.2.1, hsp]; rfl, ?_⟩
    rcases hs.2.2.2 with ⟨hr, _⟩ | ⟨hr, _⟩
    · left
      rcases hp.2.2.2 with ⟨hr', _⟩ | ⟨_, _, hh⟩
      · rw [hr, hr', hs.1, hp.1]; exact ⟨rfl, ho⟩
      · simp [hsp] at hh
    · right; refine ⟨hr, ?_⟩; rw [hs.1, hp.1, ho]; exact APre.refl _
  · intro s sp hb hsp ho
    have hs := flushSink_spec s
    have hp := flushSink_spec sp
    refine ⟨?_, by rw [hs.1, hp.1, ho], ?_⟩
    · rcases hs.2.2.2 with ⟨hr, _⟩ | ⟨_, _, hh⟩
      · rcases hp.2.2.2 with ⟨hr', _⟩ | ⟨_, _, hh⟩
        · rw [hr, hr']
        · simp [hsp] at hh
      · cases hsc : s.script with
        | nil => simp [hsc] at hh
        | cons b r =>
          simp [hsc] at hh
          exact absurd hh (hb b (by simp [hsc])).1
    · rw [hs.2.1]; intro b hb'; exact hb b (List.mem_of_mem_tail hb')

theorem OM.ite {c : Prop} [Decidable c] {a b : M α} (ha : OM a) (hb : OM b) :
    OM (if c then a else b) := by split <;> assumption

theorem OM.dite {c : Prop} [Decidable c] {a : c → M α} {b : ¬c → M α} (ha : ∀ h, OM (a h))
    (hb : ∀ h, OM (b h)) : OM (if h : c then a h else b h) := by
  split
  · exact ha _
  · exact hb _

/-! ### consequences of `Obl` -/

/-- a successful run under ANY script delivered exactly what the fault-free run delivers and
returns the same value -/
theorem Obl.ok_eq {m : M α} (h : Obl m) (s sp : Sink) (hsp : sp.script = []) (ho : s.out = sp.out)
    (a : α) (hok : (m s).2 = .ok a) : (m sp).2 = .ok a ∧ (m s).1.out = (m sp).1.out := by
  rcases (h s sp hsp ho).2 with ⟨hr, hout⟩ | ⟨hr, _⟩
  · exact ⟨hr ▸ hok, hout⟩
  · rw [hok] at hr; cases hr

/-- any result other than an I/O error is the fault-free result, with the same bytes -/
theorem Obl.not_io_eq {m : M α} (h : Obl m) (s sp : Sink) (hsp : sp.script = [])
    (ho : s.out = sp.out) (hne : (m s).2 ≠ .error .io) :
    (m s).2 = (m sp).2 ∧ (m s).1.out = (m sp).1.out := by
  rcases (h s sp hsp ho).2 with h1 | ⟨hr, _⟩
  · exact h1
  · exact absurd hr hne

/-! ## automation: structural descent through `do` blocks -/

/-- one step of the structural `OM` prover; extended by `macro_rules` as lemmas are proved -/
syntax "om_step" : tactic
macro_rules | `(tactic| om_step) => `(tactic| first
  | assumption
  | with_reducible exact OM.pure _
  | with_reducible exact OM.mpure _
  | with_reducible exact OM.throw _
  | with_reducible exact OM.liftE _
  | with_reducible exact OM.writeAll _
  | with_reducible exact OM.writeBytes _
  | with_reducible exact OM.flushSink
  | with_reducible exact OM.outSize
  | with_reducible apply OM.bind
  | intro _
  | split
  | (apply OM.ite)
  | (dsimp only; with_reducible apply OM.bind)
  | dsimp only
  | (apply OM.bind))
macro "om" : tactic => `(tactic| repeat' om_step)

/-! ## the windows -/

theorem OM.circ_appendLiteral (w : Circ) (b : UInt8) : OM (w.appendLiteral b) := by
  unfold Circ.appendLiteral; om
macro_rules | `(tactic| om_step) => `(tactic| with_reducible exact OM.circ_appendLiteral _ _)

theorem OM.circ_copyLoop (n : Nat) (w : Circ) (offset : Nat) : OM (Circ.copyLoop n w offset) := by
  induction n generalizing w offset with
  | zero => unfold Circ.copyLoop; om
  | succ n ih => unfold Circ.copyLoop; om <;> exact ih _ _
macro_rules | `(tactic| om_step) => `(tactic| with_reducible exact OM.circ_copyLoop _ _ _)

theorem OM.circ_appendLz (w : Circ) (len dist : Nat) : OM (w.appendLz len dist) := by
  unfold Circ.appendLz; om
macro_rules | `(tactic| om_step) => `(tactic| with_reducible exact OM.circ_appendLz _ _ _)

theorem OM.circ_finish (w : Circ) : OM w.finish := by
  unfold Circ.finish; om
macro_rules | `(tactic| om_step) => `(tactic| with_reducible exact OM.circ_finish _)

theorem OM.accum_reset (w : Accum) : OM w.reset := by
  unfold Accum.reset; om
macro_rules | `(tactic| om_step) => `(tactic| with_reducible exact OM.accum_reset _)

theorem OM.accum_appendLiteral (w : Accum) (b : UInt8) : OM (w.appendLiteral b) := by
  unfold Accum.appendLiteral; om
macro_rules | `(tactic| om_step) => `(tactic| with_reducible exact OM.accum_appendLiteral _ _)

theorem OM.accum_appendLz (w : Accum) (len dist : Nat) : OM (w.appendLz len dist) := by
  unfold Accum.appendLz; om
macro_rules | `(tactic| om_step) => `(tactic| with_reducible exact OM.accum_appendLz _ _ _)

theorem OM.accum_finish (w : Accum) : OM w.finish := by
  unfold Accum.finish; om
macro_rules | `(tactic| om_step) => `(tactic| with_reducible exact OM.accum_finish _)

/-- the window operations used by the symbol decoder are monotone and sink-oblivious -/
class OMBuf (ω : Type) [LzBuf ω] : Prop where
  appendLiteral : ∀ (w : ω) (b : UInt8), OM (LzBuf.appendLiteral w b)
  appendLz : ∀ (w : ω) (len dist : Nat), OM (LzBuf.appendLz w len dist)

instance : OMBuf Circ := ⟨OM.circ_appendLiteral, OM.circ_appendLz⟩
instance : OMBuf Accum := ⟨OM.accum_appendLiteral, OM.accum_appendLz⟩

macro_rules | `(tactic| om_step) => `(tactic| with_reducible exact OMBuf.appendLiteral _ _)
macro_rules | `(tactic| om_step) => `(tactic| with_reducible exact OMBuf.appendLz _ _ _)

/-! ## the symbol decoder -/

section
variable {ω : Type} [LzBuf ω] [OMBuf ω]

theorem OM.applySym (s : DState) (w : ω) (rc : RC) (rd : Rd) (sym : RawSym) :
    OM (s.applySym w rc rd sym) := by
  cases sym <;> (unfold DState.applySym; om)
macro_rules | `(tactic| om_step) => `(tactic| with_reducible exact OM.applySym _ _ _ _ _)

theorem OM.processNext (s : DState) (w : ω) (rc : RC) (rd : Rd) : OM (s.processNext w rc rd) := by
  unfold DState.processNext; om
macro_rules | `(tactic| om_step) => `(tactic| with_reducible exact OM.processNext _ _ _ _)

theorem OM.processLoop (mode : DState.Mode) (fuel : Nat) (s : DState) (w : ω) (rc : RC) (rd : Rd) :
    OM (DState.processLoop mode fuel s w rc rd) := by
  induction fuel generalizing s w rc rd with
  | zero => unfold DState.processLoop; om
  | succ n ih =>
    unfold DState.processLoop; om <;> exact ih _ _ _ _
macro_rules | `(tactic| om_step) => `(tactic| with_reducible exact OM.processLoop _ _ _ _ _ _)

theorem OM.processMode (mode : DState.Mode) (s : DState) (w : ω) (rc : RC) (rd : Rd) :
    OM (s.processMode mode w rc rd) := by
  unfold DState.processMode; om
macro_rules | `(tactic| om_step) => `(tactic| with_reducible exact OM.processMode _ _ _ _ _)

end

/-! ## the LZMA, LZMA2 and XZ decoders -/

theorem OM.lzmaDecoder_decompress (d : LzmaDecoder) (rd : Rd) : OM (d.decompress rd) := by
  unfold LzmaDecoder.decompress; om
macro_rules | `(tactic| om_step) => `(tactic| with_reducible exact OM.lzmaDecoder_decompress _ _)

theorem OM.lzmaDecompress (rd : Rd) (opts : Options) : OM (lzmaDecompress rd opts) := by
  unfold Lzma.lzmaDecompress; om

theorem OM.parseUncompressed (accum : Accum) (rd : Rd) (resetDict : Bool) :
    OM (Lzma2Decoder.parseUncompressed accum rd resetDict) := by
  unfold Lzma2Decoder.parseUncompressed; om
macro_rules | `(tactic| om_step) => `(tactic| with_reducible exact OM.parseUncompressed _ _ _)

theorem OM.parseLzma (d : Lzma2Decoder) (accum : Accum) (rd : Rd) (status : Nat) :
    OM (d.parseLzma accum rd status) := by
  unfold Lzma2Decoder.parseLzma; om
macro_rules | `(tactic| om_step) => `(tactic| with_reducible exact OM.parseLzma _ _ _ _)

theorem OM.chunkLoop (fuel : Nat) (d : Lzma2Decoder) (accum : Accum) (rd : Rd) :
    OM (Lzma2Decoder.chunkLoop fuel d accum rd) := by
  induction fuel generalizing d accum rd with
  | zero => unfold Lzma2Decoder.chunkLoop; om
  | succ n ih => unfold Lzma2Decoder.chunkLoop; om <;> exact ih _ _ _
macro_rules | `(tactic| om_step) => `(tactic| with_reducible exact OM.chunkLoop _ _ _ _)

theorem OM.lzma2Decoder_decompress (d : Lzma2Decoder) (rd : Rd) : OM (d.decompress rd) := by
  unfold Lzma2Decoder.decompress; om
macro_rules | `(tactic| om_step) => `(tactic| with_reducible exact OM.lzma2Decoder_decompress _ _)

theorem OM.lzma2Decompress (rd : Rd) : OM (lzma2Decompress rd) := by
  unfold Lzma.lzma2Decompress; om

/-- `decodeFilter` / `laterFilters` run the inner LZMA2 decoder on a private fresh sink `{}` and
are `Except`-valued pure functions of their inputs: they enter `readBlock` through `liftE`, so the
caller's sink is touched only by the single `writeAll tmpbuf` at the end of the block. -/
theorem OM.readBlock (start : Nat) (rd : Rd) (check : CheckMethod) (hsByte : UInt8) :
    OM (readBlock start rd check hsByte) := by
  unfold Lzma.readBlock; om
macro_rules | `(tactic| om_step) => `(tactic| with_reducible exact OM.readBlock _ _ _ _)

theorem OM.blockLoop (check : CheckMethod) (fuel : Nat) (records : List Record) (rd : Rd) :
    OM (blockLoop check fuel records rd) := by
  induction fuel generalizing records rd with
  | zero => unfold Lzma.blockLoop; om
  | succ n ih => unfold Lzma.blockLoop; om <;> exact ih _ _
macro_rules | `(tactic| om_step) => `(tactic| with_reducible exact OM.blockLoop _ _ _ _)

theorem OM.xzDecompress (rd : Rd) : OM (xzDecompress rd) := by
  unfold Lzma.xzDecompress; om

/-! ## the encoders -/

theorem OM.emitLoop (carry n tmp : Nat) : OM (REnc.emitLoop carry n tmp) := by
  induction n generalizing tmp with
  | zero => unfold REnc.emitLoop; om
  | succ n ih => unfold REnc.emitLoop; om <;> exact ih _
macro_rules | `(tactic| om_step) => `(tactic| with_reducible exact OM.emitLoop _ _ _)

theorem OM.writeLow (e : REnc) : OM e.writeLow := by
  unfold REnc.writeLow; om
macro_rules | `(tactic| om_step) => `(tactic| with_reducible exact OM.writeLow _)

theorem OM.rencFinish (e : REnc) : OM e.finish := by
  unfold REnc.finish; om
macro_rules | `(tactic| om_step) => `(tactic| with_reducible exact OM.rencFinish _)

theorem OM.normalize (fuel : Nat) (e : REnc) : OM (REnc.normalize fuel e) := by
  induction fuel generalizing e with
  | zero => unfold REnc.normalize; om
  | succ n ih => unfold REnc.normalize; om <;> exact ih _
macro_rules | `(tactic| om_step) => `(tactic| with_reducible exact OM.normalize _ _)

theorem OM.encodeBit (e : REnc) (p : Nat) (bit : Bool) : OM (e.encodeBit p bit) := by
  unfold REnc.encodeBit; om
macro_rules | `(tactic| om_step) => `(tactic| with_reducible exact OM.encodeBit _ _ _)

theorem OM.dumbFromStream (opt : EncSizeOpt) : OM (DumbEnc.fromStream opt) := by
  unfold DumbEnc.fromStream; om
macro_rules | `(tactic| om_step) => `(tactic| with_reducible exact OM.dumbFromStream _)

theorem OM.encodeLiteralLoop (row byte n result : Nat) (e : DumbEnc) :
    OM (DumbEnc.encodeLiteralLoop row byte n result e) := by
  induction n generalizing result e with
  | zero => unfold DumbEnc.encodeLiteralLoop; om
  | succ n ih => unfold DumbEnc.encodeLiteralLoop; om <;> exact ih _ _
macro_rules | `(tactic| om_step) => `(tactic| with_reducible exact OM.encodeLiteralLoop _ _ _ _ _)

theorem OM.encodeLiteral (e : DumbEnc) (byte prevByte : Nat) :
    OM (e.encodeLiteral byte prevByte) := by
  unfold DumbEnc.encodeLiteral; om
macro_rules | `(tactic| om_step) => `(tactic| with_reducible exact OM.encodeLiteral _ _ _)

theorem OM.encodeFresh (bit : Bool) (n : Nat) (rc : REnc) : OM (DumbEnc.encodeFresh bit n rc) := by
  induction n generalizing rc with
  | zero => unfold DumbEnc.encodeFresh; om
  | succ n ih => unfold DumbEnc.encodeFresh; om <;> exact ih _
macro_rules | `(tactic| om_step) => `(tactic| with_reducible exact OM.encodeFresh _ _ _)

theorem OM.dumbFinish (e : DumbEnc) (inputLen : Nat) : OM (e.finish inputLen) := by
  unfold DumbEnc.finish; om
macro_rules | `(tactic| om_step) => `(tactic| with_reducible exact OM.dumbFinish _ _)

theorem OM.dumbProcessLoop (fuel outLen inputLen prevByte : Nat) (e : DumbEnc) (rd : ERd) :
    OM (DumbEnc.processLoop fuel outLen inputLen prevByte e rd) := by
  induction fuel generalizing outLen inputLen prevByte e rd with
  | zero => unfold DumbEnc.processLoop; om
  | succ n ih => unfold DumbEnc.processLoop; om <;> exact ih _ _ _ _ _
macro_rules | `(tactic| om_step) => `(tactic| with_reducible exact OM.dumbProcessLoop _ _ _ _ _ _)

theorem OM.dumbProcess (e : DumbEnc) (rd : ERd) : OM (e.process rd) := by
  unfold DumbEnc.process; om
macro_rules | `(tactic| om_step) => `(tactic| with_reducible exact OM.dumbProcess _ _)

theorem OM.lzmaCompress (rd : ERd) (opt : EncSizeOpt) : OM (lzmaCompress rd opt) := by
  unfold Lzma.lzmaCompress; om

theorem OM.lzma2EncodeLoop (fuel : Nat) (rd : ERd) : OM (lzma2EncodeLoop fuel rd) := by
  induction fuel generalizing rd with
  | zero => unfold Lzma.lzma2EncodeLoop; om
  | succ n ih => unfold Lzma.lzma2EncodeLoop; om <;> exact ih _

theorem OM.lzma2Compress (rd : ERd) : OM (lzma2Compress rd) := by
  unfold Lzma.lzma2Compress; exact OM.lzma2EncodeLoop _ _
macro_rules | `(tactic| om_step) => `(tactic| with_reducible exact OM.lzma2Compress _)

theorem OM.xzWriteHeader (check : CheckMethod) : OM (xzWriteHeader check) := by
  unfold Lzma.xzWriteHeader; om
macro_rules | `(tactic| om_step) => `(tactic| with_reducible exact OM.xzWriteHeader _)

theorem OM.xzWriteBlock (rd : ERd) : OM (xzWriteBlock rd) := by
  unfold Lzma.xzWriteBlock; om
macro_rules | `(tactic| om_step) => `(tactic| with_reducible exact OM.xzWriteBlock _)

theorem OM.forM_writeBytes (l : List UInt8) : OM (l.forM (fun b => Lzma.writeBytes [b])) := by
  induction l with
  | nil => exact OM.pure _
  | cons b l ih => unfold List.forM; om
macro_rules | `(tactic| om_step) => `(tactic| with_reducible exact OM.forM_writeBytes _)

theorem OM.xzWriteIndex (unpadded unpacked : Nat) : OM (xzWriteIndex unpadded unpacked) := by
  unfold Lzma.xzWriteIndex; om
macro_rules | `(tactic| om_step) => `(tactic| with_reducible exact OM.xzWriteIndex _ _)

theorem OM.xzWriteFooter (check : CheckMethod) (indexSize : Nat) :
    OM (xzWriteFooter check indexSize) := by
  unfold Lzma.xzWriteFooter; om
macro_rules | `(tactic| om_step) => `(tactic| with_reducible exact OM.xzWriteFooter _ _)

theorem OM.xzCompress (rd : ERd) : OM (xzCompress rd) := by
  unfold Lzma.xzCompress; om

/-! ## the streaming decoder (`Stream::write/flush/finish`) -/

/-- a computation that neither touches nor inspects the sink -/
theorem OM.of_const {m : M α} (h1 : ∀ s, (m s).1 = s) (h2 : ∀ s s', (m s).2 = (m s').2) : OM m :=
  ⟨fun s => by rw [h1]; exact APre.refl _,
   fun s sp hsp ho => ⟨by rw [h1]; exact hsp, Or.inl ⟨h2 s sp, by rw [h1, h1]; exact ho⟩⟩,
   fun s sp hb _ ho => ⟨h2 s sp, by rw [h1, h1]; exact ho, by rw [h1]; exact hb⟩⟩

theorem OM.streamReadData (rs : RunState) (rd : Rd) : OM (Stream.readData rs rd) := by
  unfold Stream.readData; om
macro_rules | `(tactic| om_step) => `(tactic| with_reducible exact OM.streamReadData _ _)

theorem OM.streamWrite (st : Stream) (data : Bytes) : OM (st.write data) := by
  unfold Stream.write
  split
  · om
  · apply OM.ite
    · apply OM.of_const
      · intro s; (try dsimp only); split <;> rfl
      · intro s s'; (try dsimp only); split <;> rfl
    · apply OM.of_const
      · intro s; (try dsimp only); split <;> rfl
      · intro s s'; (try dsimp only); split <;> rfl
  · om

theorem OM.streamFlush (st : Stream) : OM st.flush := by
  unfold Stream.flush; om

theorem OM.streamFinish (st : Stream) : OM st.finish := by
  unfold Stream.finish; om

/-! ## flushing -/

/-- a successful run ends with a successful `flush` as its last raw sink call -/
def Fl (m : M α) : Prop := ∀ s a, (m s).2 = .ok a → (m s).1.lastFlush = true

/-- `m` does not touch the sink -/
def SinkId (m : M α) : Prop := ∀ s, (m s).1 = s

theorem Fl.flushSink : Fl flushSink := by
  intro s a h
  rcases (flushSink_spec s).2.2.2 with ⟨_, h2, _⟩ | ⟨h1, _⟩
  · exact h2
  · rw [h1] at h; cases h

theorem Fl.bind_right {m : M α} {f : α → M β} (hf : ∀ a, Fl (f a)) : Fl (m >>= f) := by
  intro s b h
  rw [bind_run] at h ⊢
  rcases hms : m s with ⟨s', r⟩
  rw [hms] at h
  cases r with
  | ok a => exact hf a s' b h
  | error e => cases h

theorem Fl.bind_id {m : M α} {f : α → M β} (hm : Fl m) (hf : ∀ a, SinkId (f a)) :
    Fl (m >>= f) := by
  intro s b h
  rw [bind_run] at h ⊢
  have h1 := hm s
  rcases hms : m s with ⟨s', r⟩
  rw [hms] at h1 h
  cases r with
  | ok a => simp only; rw [hf a s']; exact h1 a rfl
  | error e => cases h

theorem Fl.circ_finish (w : Circ) : Fl w.finish := by
  unfold Circ.finish; dsimp only
  repeat' split
  all_goals first | exact Fl.flushSink | exact Fl.bind_right fun _ => Fl.flushSink

theorem Fl.accum_finish (w : Accum) : Fl w.finish := by
  unfold Accum.finish; exact Fl.bind_right fun _ => Fl.flushSink

theorem Fl.lzmaDecoder_decompress (d : LzmaDecoder) (rd : Rd) : Fl (d.decompress rd) := by
  unfold LzmaDecoder.decompress
  refine Fl.bind_right fun x => ?_
  split
  refine Fl.bind_right fun y => ?_
  split
  exact Fl.bind_id (Fl.circ_finish _) fun _ _ => rfl

theorem Fl.lzmaDecompress (rd : Rd) (opts : Options) : Fl (lzmaDecompress rd opts) := by
  unfold Lzma.lzmaDecompress
  refine Fl.bind_right fun x => ?_
  split
  refine Fl.bind_right fun dec => ?_
  refine Fl.bind_id (Fl.lzmaDecoder_decompress _ _) fun a s => ?_
  split; rfl

theorem Fl.lzma2Decoder_decompress (d : Lzma2Decoder) (rd : Rd) : Fl (d.decompress rd) := by
  unfold Lzma2Decoder.decompress
  refine Fl.bind_right fun x => ?_
  split
  exact Fl.bind_id (Fl.accum_finish _) fun _ _ => rfl

theorem Fl.lzma2Decompress (rd : Rd) : Fl (lzma2Decompress rd) := by
  unfold Lzma.lzma2Decompress
  refine Fl.bind_right fun d => ?_
  refine Fl.bind_id (Fl.lzma2Decoder_decompress _ _) fun a s => ?_
  split; rfl

/-- `s'` was reached from `s` without any `flush` call: the flush counter is unchanged, and
`lastFlush` is either untouched (and then nothing was delivered) or was cleared by a write -/
def NoFlushStep (s s' : Sink) : Prop :=
  s'.flushes = s.flushes ∧ ((s'.lastFlush = s.lastFlush ∧ s'.out = s.out) ∨ s'.lastFlush = false)

theorem NoFlushStep.refl (s : Sink) : NoFlushStep s s := ⟨rfl, Or.inl ⟨rfl, rfl⟩⟩
theorem NoFlushStep.trans {a b c : Sink} (h1 : NoFlushStep a b) (h2 : NoFlushStep b c) :
    NoFlushStep a c := by
  refine ⟨h2.1.trans h1.1, ?_⟩
  rcases h2.2 with ⟨h3, h4⟩ | h3
  · rcases h1.2 with ⟨h5, h6⟩ | h5
    · exact Or.inl ⟨h3.trans h5, h4.trans h6⟩
    · exact Or.inr (h3.trans h5)
  · exact Or.inr h3

/-- `m` never calls `flush` -/
structure NF (m : M α) : Prop where
  step : ∀ s, NoFlushStep s (m s).1

theorem NF.bind {m : M α} {f : α → M β} (hm : NF m) (hf : ∀ a, NF (f a)) : NF (m >>= f) := by
  constructor
  intro s
  rw [bind_run]
  have h1 := hm.step s
  split
  · rename_i s' a h; rw [h] at h1; exact h1.trans ((hf a).step s')
  · rename_i s' e h; rw [h] at h1; exact h1

theorem NF.pure (a : α) : NF (Pure.pure a : M α) := ⟨fun s => NoFlushStep.refl s⟩
theorem NF.throw (e : Err) : NF (throwM e : M α) := ⟨fun s => NoFlushStep.refl s⟩
theorem NF.liftE (x : Except Err α) : NF (liftE x : M α) := by
  cases x with
  | ok a => exact NF.pure a
  | error e => exact NF.throw e

theorem Sink.write1_noFlush (s : Sink) (bs : Bytes) : NoFlushStep s (s.write1 bs).1 := by
  unfold Sink.write1 NoFlushStep; split <;> simp

theorem writeAllList_noFlush (bs : Bytes) (s : Sink) : NoFlushStep s (writeAllList bs s).1 := by
  fun_induction writeAllList bs s with
  | case1 bs s h => exact NoFlushStep.refl s
  | case2 bs s h s' e hw => have := Sink.write1_noFlush s bs; rwa [hw] at this
  | case3 bs s h s' hw => have := Sink.write1_noFlush s bs; rwa [hw] at this
  | case4 bs s h s' n hw hn hge => have := Sink.write1_noFlush s bs; rwa [hw] at this
  | case5 bs s h s' n hw hn hlt ih =>
    have := Sink.write1_noFlush s bs; rw [hw] at this; exact this.trans ih

theorem NF.writeAll (bs : Array UInt8) : NF (writeAll bs) := by
  constructor
  intro s
  unfold Lzma.writeAll
  split
  · exact NoFlushStep.refl s
  · split
    · exact ⟨rfl, Or.inr rfl⟩
    · exact writeAllList_noFlush _ _

syntax "nf_step" : tactic
macro_rules | `(tactic| nf_step) => `(tactic| first
  | assumption
  | with_reducible exact NF.pure _
  | with_reducible exact NF.throw _
  | with_reducible exact NF.liftE _
  | with_reducible exact NF.writeAll _
  | with_reducible apply NF.bind
  | intro _
  | split
  | (dsimp only; with_reducible apply NF.bind)
  | dsimp only)
macro "nf" : tactic => `(tactic| repeat' nf_step)

theorem NF.readBlock (start : Nat) (rd : Rd) (check : CheckMethod) (hsByte : UInt8) :
    NF (readBlock start rd check hsByte) := by
  unfold Lzma.readBlock; nf

theorem NF.blockLoop (check : CheckMethod) (fuel : Nat) (records : List Record) (rd : Rd) :
    NF (blockLoop check fuel records rd) := by
  induction fuel generalizing records rd with
  | zero => unfold Lzma.blockLoop; nf
  | succ n ih => unfold Lzma.blockLoop; nf <;> first | exact NF.readBlock _ _ _ _ | exact ih _ _

theorem NF.xzDecompress (rd : Rd) : NF (xzDecompress rd) := by
  unfold Lzma.xzDecompress; nf <;> exact NF.blockLoop _ _ _ _

/-! ## the statement used by the property theorems -/

/-- The explicit form of sink-obliviousness: under ANY fault script the run either behaves exactly
like the fault-free run, or returns an I/O error having delivered `s.out ++ pre` where the
fault-free run finally delivers `s.out ++ pre ++ post`. -/
theorem OM.sink_prefix {m : M α} (h : OM m) (s sp : Sink) (hsp : sp.script = [])
    (ho : s.out = sp.out) :
    (m sp).1.script = [] ∧
    (((m s).2 = (m sp).2 ∧ (m s).1.out = (m sp).1.out) ∨
     ((m s).2 = .error .io ∧ ∃ pre post : Array UInt8,
        (m s).1.out = s.out ++ pre ∧ (m sp).1.out = s.out ++ pre ++ post)) := by
  obtain ⟨h1, h2⟩ := h.obl s sp hsp ho
  refine ⟨h1, ?_⟩
  rcases h2 with h2 | ⟨hr, post, hpost⟩
  · exact Or.inl h2
  · obtain ⟨pre, hpre⟩ := h.mono s
    exact Or.inr ⟨hr, pre, post, hpre, by rw [hpost, hpre]⟩

end Lzma
