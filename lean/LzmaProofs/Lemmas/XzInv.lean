/-
  Inversion lemmas for the XZ container decoder model (`LzmaModel/Xz.lean`) and the
  container grammar `XzParses` used by properties C06 / C18.
  `crc32` / `crc64` are never unfolded.
-/
import LzmaModel
import LzmaProofs.Lemmas.Monad
namespace Lzma

/-! ## Generic inversion lemmas for `Except` and `M` do-blocks -/

theorem Except.bind_eq_ok' {x : Except ε α} {f : α → Except ε β} {b : β} :
    (x >>= f) = .ok b ↔ ∃ a, x = .ok a ∧ f a = .ok b := by
  cases x <;> simp [bind, Except.bind]

@[simp] theorem Except.throw_bind' {e : ε} {f : α → Except ε β} :
    ((throw e : Except ε α) >>= f) = .error e := rfl
@[simp] theorem Except.throw_ne_ok {e : ε} {a : α} :
    ((throw e : Except ε α) = .ok a) ↔ False := by
  simp [throw, throwThe, MonadExceptOf.throw]
@[simp] theorem Except.pure_eq_ok {a b : α} :
    ((pure a : Except ε α) = .ok b) ↔ a = b := by
  simp [pure, Except.pure]

theorem ite_eq_ok {c : Prop} [Decidable c] {x y : Except ε α} {b : α} :
    (if c then x else y) = .ok b ↔ (c ∧ x = .ok b) ∨ (¬ c ∧ y = .ok b) := by
  split <;> simp [*]

theorem mBind_eq_ok {m : M α} {f : α → M β} {s s' : Sink} {b : β} :
    (m >>= f) s = (s', .ok b) ↔ ∃ a s1, m s = (s1, .ok a) ∧ f a s1 = (s', .ok b) := by
  rw [bind_run]
  rcases hm : m s with ⟨s1, e | a⟩
  · simp
  · constructor
    · intro h; exact ⟨a, s1, rfl, h⟩
    · rintro ⟨a', s1', h1, h⟩
      cases h1; exact h

theorem liftE_eq_ok {e : Except Err α} {s s' : Sink} {a : α} :
    (liftE e : M α) s = (s', .ok a) ↔ e = .ok a ∧ s' = s := by
  cases e <;> simp [eq_comm, and_comm]

@[simp] theorem throwM_bind {e : Err} {f : α → M β} : ((throwM e : M α) >>= f) = throwM e := rfl

@[simp] theorem throwM_ne_ok {e : Err} {s s' : Sink} {a : α} :
    ((throwM e : M α) s = (s', .ok a)) ↔ False := by simp

theorem mPure_eq_ok {a b : α} {s s' : Sink} :
    ((pure a : M α) s = (s', .ok b)) ↔ a = b ∧ s' = s := by
  simp [eq_comm, and_comm]

theorem mIte_eq {c : Prop} [Decidable c] {x y : M α} {s : Sink} {r : Sink × Except Err α} :
    (if c then x else y) s = r ↔ (c ∧ x s = r) ∨ (¬ c ∧ y s = r) := by
  split <;> simp [*]

/-! ## Reader primitives -/

namespace Rd

theorem ext' {r r' : Rd} (h1 : r.rem = r'.rem) (h2 : r.bad = r'.bad) : r = r' := by
  cases r; cases r'; simp_all

theorem readU8_ok {r r' : Rd} {b : UInt8} :
    r.readU8 = .ok (b, r') ↔ r.rem = b :: r'.rem ∧ r'.bad = r.bad := by
  obtain ⟨rem, bad⟩ := r
  obtain ⟨rem', bad'⟩ := r'
  cases rem <;> simp [readU8, eq_comm, and_assoc]

theorem readExact_ok {r r' : Rd} {n : Nat} {bs : Bytes} :
    r.readExact n = .ok (bs, r') ↔ r.rem = bs ++ r'.rem ∧ bs.length = n ∧ r'.bad = r.bad := by
  obtain ⟨rem, bad⟩ := r
  obtain ⟨rem', bad'⟩ := r'
  simp only [readExact]
  split
  · simp only [Except.ok.injEq, Prod.mk.injEq, Rd.mk.injEq]
    constructor
    · rintro ⟨rfl, rfl, rfl⟩
      simp; omega
    · rintro ⟨h, rfl, rfl⟩
      subst h
      simp
  · simp only [reduceCtorEq, false_iff]
    rintro ⟨h, rfl, -⟩
    subst h
    simp at *


theorem readU32LE_ok {r r' : Rd} {v : Nat} :
    r.readU32LE = .ok (v, r') ↔
      ∃ bs, r.rem = bs ++ r'.rem ∧ bs.length = 4 ∧ v = leVal bs ∧ r'.bad = r.bad := by
  simp only [readU32LE, Except.bind_eq_ok', Prod.exists, readExact_ok, Except.pure_eq_ok,
    Prod.mk.injEq]
  constructor
  · rintro ⟨bs, r1, ⟨h1, h2, h3⟩, rfl, rfl⟩
    exact ⟨bs, h1, h2, rfl, h3⟩
  · rintro ⟨bs, h1, h2, rfl, h3⟩
    exact ⟨bs, r', ⟨h1, h2, h3⟩, rfl, rfl⟩

theorem readU64LE_ok {r r' : Rd} {v : Nat} :
    r.readU64LE = .ok (v, r') ↔
      ∃ bs, r.rem = bs ++ r'.rem ∧ bs.length = 8 ∧ v = leVal bs ∧ r'.bad = r.bad := by
  simp only [readU64LE, Except.bind_eq_ok', Prod.exists, readExact_ok, Except.pure_eq_ok,
    Prod.mk.injEq]
  constructor
  · rintro ⟨bs, r1, ⟨h1, h2, h3⟩, rfl, rfl⟩
    exact ⟨bs, h1, h2, rfl, h3⟩
  · rintro ⟨bs, h1, h2, rfl, h3⟩
    exact ⟨bs, r', ⟨h1, h2, h3⟩, rfl, rfl⟩

theorem readU16BE_ok {r r' : Rd} {v : Nat} (h : r.readU16BE = .ok (v, r')) :
    ∃ bs, r.rem = bs ++ r'.rem ∧ bs.length = 2 ∧ v = beVal bs ∧ r'.bad = r.bad := by
  simp only [readU16BE, Except.bind_eq_ok', Prod.exists, readExact_ok, Except.pure_eq_ok,
    Prod.mk.injEq] at h
  obtain ⟨bs, r1, ⟨h1, h2, h3⟩, rfl, rfl⟩ := h
  exact ⟨bs, h1, h2, rfl, h3⟩

theorem readTag_ok {r r' : Rd} {tag : Bytes} {ok : Bool} :
    r.readTag tag = .ok (ok, r') ↔
      ∃ bs, r.rem = bs ++ r'.rem ∧ bs.length = tag.length ∧ ok = (bs == tag) ∧ r'.bad = r.bad := by
  simp only [readTag, Except.bind_eq_ok', Prod.exists, readExact_ok, Except.pure_eq_ok,
    Prod.mk.injEq]
  constructor
  · rintro ⟨bs, r1, ⟨h1, h2, h3⟩, rfl, rfl⟩
    exact ⟨bs, h1, h2, rfl, h3⟩
  · rintro ⟨bs, h1, h2, rfl, h3⟩
    exact ⟨bs, r', ⟨h1, h2, h3⟩, rfl, rfl⟩

end Rd

theorem leBytes_leVal (bs : Bytes) : leBytes bs.length (leVal bs) = bs := by
  induction bs with
  | nil => rfl
  | cons b r ih =>
    have hb := b.toNat_lt
    simp only [List.length_cons, leBytes, leVal]
    rw [show (b.toNat + 256 * leVal r) % 256 = b.toNat by omega,
      show (b.toNat + 256 * leVal r) / 256 = leVal r by omega, ih]
    simp

/-! ## Multibyte integers (`get_multibyte`) -/

/-- `MbEnc bs v`: `bs` is a (not necessarily minimal) variable-length encoding of `v`:
every byte but the last has bit 7 set, the last has it clear; seven value bits per byte,
least significant group first. -/
inductive MbEnc : Bytes → Nat → Prop
  | last (b : UInt8) : b.toNat < 128 → MbEnc [b] b.toNat
  | more (b : UInt8) (r : Bytes) (v : Nat) :
      128 ≤ b.toNat → MbEnc r v → MbEnc (b :: r) (b.toNat - 128 + 128 * v)

/-- what `get_multibyte` accepts: an encoding of at most 9 bytes -/
def MbInt (bs : Bytes) (v : Nat) : Prop := MbEnc bs v ∧ bs.length ≤ 9

theorem MbEnc.length_pos {bs : Bytes} {v : Nat} (h : MbEnc bs v) : 1 ≤ bs.length := by
  cases h <;> simp

theorem xor_shiftLeft_of_lt {x m k : Nat} (h : x < 2 ^ k) : x ^^^ (m <<< k) = x + m * 2 ^ k := by
  have h1 : x ^^^ (m <<< k) = (m <<< k) ||| x := by
    apply Nat.eq_of_testBit_eq
    intro j
    simp only [Nat.testBit_xor, Nat.testBit_or, Nat.testBit_shiftLeft]
    by_cases hj : k ≤ j
    · have : x.testBit j = false :=
        Nat.testBit_lt_two_pow (Nat.lt_of_lt_of_le h (Nat.pow_le_pow_right (by omega) hj))
      simp [this]
    · simp [hj]
  rw [h1, ← Nat.shiftLeft_add_eq_or_of_lt h, Nat.shiftLeft_eq]
  omega

theorem and_7F (n : Nat) : n &&& 0x7F = n % 128 :=
  Nat.and_two_pow_sub_one_eq_mod n 7

set_option maxRecDepth 8000 in
theorem and_80_eq_zero : ∀ n < 256, (n &&& 0x80 = 0 ↔ n < 128) := by decide

theorem getMultibyteAux_ok : ∀ (fuel i res : Nat) (acc : Bytes) (rd : Rd) {v : Nat} {bs : Bytes} {r : Rd},
    getMultibyteAux fuel i res acc rd = .ok (v, bs, r) →
    ∃ new w, bs = acc ++ new ∧ rd.rem = new ++ r.rem ∧ r.bad = rd.bad ∧ MbEnc new w ∧
      new.length ≤ fuel ∧ v = res ^^^ (w <<< (i * 7))
  | 0, _, _, _, _, _, _, _, h => by simp [getMultibyteAux] at h
  | fuel+1, i, res, acc, rd, v, bs, r, h => by
    simp only [getMultibyteAux, Except.bind_eq_ok', Prod.exists, Rd.readU8_ok, ite_eq_ok,
      Except.pure_eq_ok, Prod.mk.injEq] at h
    obtain ⟨b, r1, ⟨h1, h2⟩, h⟩ := h
    have hb := b.toNat_lt
    rcases h with ⟨hc, rfl, rfl, rfl⟩ | ⟨hc, h⟩
    · rw [and_80_eq_zero _ hb] at hc
      refine ⟨[b], b.toNat, rfl, by simpa using h1, h2, .last b hc, by simp, ?_⟩
      rw [and_7F]; congr 2; omega
    · rw [and_80_eq_zero _ hb] at hc
      obtain ⟨new, w, rfl, h3, h4, h5, h6, rfl⟩ := getMultibyteAux_ok _ _ _ _ _ h
      refine ⟨b :: new, _, by simp, by simp [h1, h3], by rw [h4, h2], .more b new w (by omega) h5,
        by simp; omega, ?_⟩
      rw [and_7F, Nat.xor_assoc]
      congr 1
      rw [show (i + 1) * 7 = 7 + i * 7 by omega, Nat.shiftLeft_add, ← Nat.shiftLeft_xor_distrib]
      congr 1
      rw [xor_shiftLeft_of_lt (by omega)]
      omega

theorem getMultibyte_ok {rd r : Rd} {v : Nat} {bs : Bytes}
    (h : getMultibyte rd = .ok (v, bs, r)) :
    rd.rem = bs ++ r.rem ∧ r.bad = rd.bad ∧ MbInt bs v := by
  obtain ⟨new, w, rfl, h1, h2, h3, h4, rfl⟩ := getMultibyteAux_ok _ _ _ _ _ h
  exact ⟨h1, h2, by simpa using h3, h4⟩

/-! ## Stream header / stream flags -/

theorem tryFrom_ok {id : Nat} {c : CheckMethod} (h : CheckMethod.tryFrom id = .ok c) :
    id = c.id := by
  simp only [CheckMethod.tryFrom, ite_eq_ok, Except.pure_eq_ok, Except.throw_ne_ok, and_false,
    or_false] at h
  rcases h with ⟨h, rfl⟩ | ⟨-, ⟨h, rfl⟩ | ⟨-, ⟨h, rfl⟩ | ⟨-, h, rfl⟩⟩⟩ <;> exact h

theorem parseStreamFlags_ok {bs : Bytes} {c : CheckMethod} (hl : bs.length = 2)
    (h : parseStreamFlags (beVal bs) = .ok c) :
    bs = [0, UInt8.ofNat c.id] ∧ c.id < 256 := by
  match bs, hl with
  | [a, b], _ =>
    have ha := a.toNat_lt
    have hb := b.toNat_lt
    simp only [parseStreamFlags, beVal, List.foldl, ite_eq_ok, Except.throw_ne_ok, and_false,
      false_or, Nat.zero_mul, Nat.zero_add] at h
    obtain ⟨h1, h2⟩ := h
    have h2 := tryFrom_ok h2
    rw [show (255 : Nat) = 2 ^ 8 - 1 by rfl, Nat.and_two_pow_sub_one_eq_mod] at h2
    rw [Nat.shiftRight_eq_div_pow] at h1
    have : a.toNat = 0 := by omega
    have hb' : b.toNat = c.id := by omega
    refine ⟨?_, by omega⟩
    rw [← hb']
    simp only [UInt8.ofNat_toNat, List.cons.injEq, and_true]
    exact UInt8.toNat_inj.mp this

theorem parseStreamHeader_ok {rd r : Rd} {c : CheckMethod}
    (h : parseStreamHeader rd = .ok (c, r)) :
    rd.rem = XZ_MAGIC ++ [0, UInt8.ofNat c.id] ++ leBytes 4 (crc32 [0, UInt8.ofNat c.id]) ++ r.rem
      ∧ r.bad = rd.bad ∧ c.id < 256 := by
  simp only [parseStreamHeader, Except.bind_eq_ok', Except.throw_bind', ite_eq_ok,
    Except.pure_eq_ok, reduceCtorEq, and_false, false_or, Prod.exists, Rd.readTag_ok,
    Rd.readExact_ok, Rd.readU32LE_ok, Prod.mk.injEq] at h
  obtain ⟨ok, r1, ⟨m, h1, h2, rfl, h3⟩, hm, fb, r2, ⟨h4, h5, h6⟩, crc, r3, ⟨cb, h7, h8, rfl, h9⟩,
    hcrc, c', hfl, rfl, rfl⟩ := h
  obtain ⟨rfl, hid⟩ := parseStreamFlags_ok h5 hfl
  simp only [Bool.not_eq_true, Bool.not_eq_false', beq_iff_eq] at hm
  subst hm
  simp only [ne_eq, Decidable.not_not] at hcrc
  refine ⟨?_, by rw [h9, h6, h3], hid⟩
  rw [h1, h4, h7, ← hcrc, ← h8, leBytes_leVal]
  simp

/-! ## Zero padding, index -/

theorem readZeroBytes_ok : ∀ (n : Nat) (acc : Bytes) (rd : Rd) {bs : Bytes} {r : Rd},
    readZeroBytes n acc rd = .ok (bs, r) →
    bs = acc ++ List.replicate n 0 ∧ rd.rem = List.replicate n 0 ++ r.rem ∧ r.bad = rd.bad
  | 0, acc, rd, bs, r, h => by
    simp only [readZeroBytes, Except.pure_eq_ok, Prod.mk.injEq] at h
    obtain ⟨rfl, rfl⟩ := h
    simp
  | n+1, acc, rd, bs, r, h => by
    simp only [readZeroBytes, Except.bind_eq_ok', Except.throw_bind', ite_eq_ok, reduceCtorEq,
      and_false, false_or, Prod.exists, Rd.readU8_ok] at h
    obtain ⟨b, r1, ⟨h1, h2⟩, hb, h⟩ := h
    simp only [ne_eq, Decidable.not_not] at hb
    subst hb
    obtain ⟨rfl, h3, h4⟩ := readZeroBytes_ok n _ _ h
    refine ⟨by simp [List.replicate_succ], by simp [h1, h3, List.replicate_succ], by rw [h4, h2]⟩

/-- `MbPairs bs l`: `bs` is the concatenation of the multibyte encodings of the pairs in `l`
(the records of the index) -/
inductive MbPairs : Bytes → List (Nat × Nat) → Prop
  | nil : MbPairs [] []
  | cons {e1 e2 r : Bytes} {a b : Nat} {l : List (Nat × Nat)} :
      MbInt e1 a → MbInt e2 b → MbPairs r l → MbPairs (e1 ++ e2 ++ r) ((a, b) :: l)

theorem checkRecords_ok : ∀ (recs : List Record) (dig : Bytes) (rd : Rd) {dig' : Bytes} {r : Rd},
    checkRecords recs dig rd = .ok (dig', r) →
    ∃ enc, dig' = dig ++ enc ∧ rd.rem = enc ++ r.rem ∧ r.bad = rd.bad ∧
      MbPairs enc (recs.map fun x => (x.unpaddedSize, x.unpackedSize))
  | [], dig, rd, dig', r, h => by
    simp only [checkRecords, Except.pure_eq_ok, Prod.mk.injEq] at h
    obtain ⟨rfl, rfl⟩ := h
    exact ⟨[], by simp, by simp, rfl, .nil⟩
  | x :: xs, dig, rd, dig', r, h => by
    simp only [checkRecords, Except.bind_eq_ok', Except.throw_bind', ite_eq_ok, reduceCtorEq,
      and_false, false_or, Prod.exists] at h
    obtain ⟨v1, b1, r1, h1, hv1, v2, b2, r2, h2, hv2, h⟩ := h
    simp only [ne_eq, Decidable.not_not] at hv1 hv2
    subst hv1 hv2
    obtain ⟨e1, e2, m1⟩ := getMultibyte_ok h1
    obtain ⟨f1, f2, m2⟩ := getMultibyte_ok h2
    obtain ⟨enc, rfl, g1, g2, g3⟩ := checkRecords_ok xs _ _ h
    refine ⟨b1 ++ b2 ++ enc, by simp, by simp [e1, f1, g1], by rw [g2, f2, e2], ?_⟩
    exact .cons m1 m2 g3

theorem MbPairs.map_eq {bs : Bytes} {l l' : List (Nat × Nat)} (h : MbPairs bs l) (e : l = l') :
    MbPairs bs l' := e ▸ h

/-- `checkIndex` succeeded: the bytes after the indicator are `count ++ records ++ zero padding
++ crc32` -/
theorem checkIndex_ok {start : Nat} {records : List Record} {rd r : Rd}
    (hs : start = rd.rem.length + 1) (h : checkIndex start records rd = .ok r) :
    ∃ cnt enc, MbInt cnt records.length ∧
      MbPairs enc (records.map fun x => (x.unpaddedSize, x.unpackedSize)) ∧
      rd.rem = cnt ++ enc ++ List.replicate (paddingSize (1 + cnt.length + enc.length)) 0 ++
        leBytes 4 (crc32 (0 :: (cnt ++ enc ++
          List.replicate (paddingSize (1 + cnt.length + enc.length)) 0))) ++ r.rem ∧
      r.bad = rd.bad := by
  simp only [checkIndex, Except.bind_eq_ok', Except.throw_bind', ite_eq_ok, reduceCtorEq,
    and_false, false_or, Prod.exists, Except.pure_eq_ok, Rd.readU32LE_ok] at h
  obtain ⟨n, cnt, r1, h1, hn, dig, r2, h2, pad, r3, h3, crc, r4, ⟨cb, h4, h5, rfl, h6⟩, hcrc, rfl⟩ := h
  simp only [ne_eq, Decidable.not_not] at hn hcrc
  subst hn
  obtain ⟨e1, e2, m1⟩ := getMultibyte_ok h1
  obtain ⟨enc, rfl, g1, g2, g3⟩ := checkRecords_ok _ _ _ h2
  obtain ⟨rfl, z1, z2⟩ := readZeroBytes_ok _ _ _ h3
  have hcount : start - r2.rem.length = 1 + cnt.length + enc.length := by
    rw [hs, e1, g1]; simp; omega
  rw [hcount] at z1 hcrc
  refine ⟨cnt, enc, m1, g3, ?_, by rw [h6, z2, g2, e2]⟩
  have hcb := leBytes_leVal cb
  rw [h5, hcrc] at hcb
  rw [e1, g1, z1, h4, ← hcb]
  simp

/-! ## Block header -/

/-- one filter entry of a block header as laid out in the file -/
structure XzFilterEnc where
  /-- multibyte encoding of the filter id -/
  idEnc : Bytes
  /-- multibyte encoding of the size of the properties -/
  szEnc : Bytes
  props : Bytes
  deriving Repr

def XzFilterEnc.bytes (f : XzFilterEnc) : Bytes := f.idEnc ++ f.szEnc ++ f.props

/-- what `read_block_header` checks of one filter entry: id = 0x21 (LZMA2) -/
def XzFilterEnc.Ok (f : XzFilterEnc) : Prop :=
  MbInt f.idEnc 0x21 ∧ MbInt f.szEnc f.props.length

def XzFilterEnc.toFilter (f : XzFilterEnc) : Filter := { props := f.props }

theorem readFilters_ok : ∀ (n hs : Nat) (acc : List Filter) (rd : Rd) {fs : List Filter} {r : Rd},
    readFilters n hs acc rd = .ok (fs, r) →
    ∃ encs : List XzFilterEnc, encs.length = n ∧ fs = acc ++ encs.map (·.toFilter) ∧
      rd.rem = encs.flatMap (·.bytes) ++ r.rem ∧ r.bad = rd.bad ∧
      (∀ e ∈ encs, e.Ok ∧ e.props.length ≤ hs)
  | 0, hs, acc, rd, fs, r, h => by
    simp only [readFilters, Except.pure_eq_ok, Prod.mk.injEq] at h
    obtain ⟨rfl, rfl⟩ := h
    exact ⟨[], by simp⟩
  | n+1, hs, acc, rd, fs, r, h => by
    simp only [readFilters, Except.bind_eq_ok', Except.throw_bind', ite_eq_ok, reduceCtorEq,
      and_false, false_or, Prod.exists] at h
    obtain ⟨id, b1, r1, h1, hid, sz, b2, r2, h2, hsz, h⟩ := h
    simp only [ne_eq, Decidable.not_not] at hid
    subst hid
    obtain ⟨e1, e2, m1⟩ := getMultibyte_ok h1
    obtain ⟨f1, f2, m2⟩ := getMultibyte_ok h2
    cases h3 : r2.readExact sz with
    | error e => simp [h3] at h
    | ok x =>
    obtain ⟨buf, r3⟩ := x
    simp only [h3, Except.bind_eq_ok', Except.pure_eq_ok, exists_eq_left'] at h
    obtain ⟨g1, g2, g3⟩ := Rd.readExact_ok.mp h3
    subst g2
    obtain ⟨encs, rfl, rfl, k1, k2, k3⟩ := readFilters_ok n hs _ _ h
    refine ⟨⟨b1, b2, buf⟩ :: encs, by simp, by simp [XzFilterEnc.toFilter],
      by simp [XzFilterEnc.bytes, e1, f1, g1, k1], by rw [k2, g3, f2, e2], ?_⟩
    intro e he
    rcases List.mem_cons.mp he with rfl | he
    · exact ⟨⟨m1, m2⟩, by simpa using hsz⟩
    · exact k3 e he

theorem flushZeroPadding_ok {rd r : Rd} {ok : Bool} (h : rd.flushZeroPadding = .ok (ok, r))
    (hok : ok = true) : (∀ b ∈ rd.rem, b = 0) ∧ r.rem = [] ∧ r.bad = rd.bad := by
  subst hok
  unfold Rd.flushZeroPadding at h
  split at h
  · rename_i he
    split at h
    · cases h
    · simp only [Except.ok.injEq, Prod.mk.injEq, true_and] at h
      subst h
      simp only [List.isEmpty_iff] at he
      simp [he]
  · split at h
    · rename_i ha
      split at h
      · cases h
      · simp only [Except.ok.injEq, Prod.mk.injEq, true_and] at h
        subst h
        simpa using ha
    · simp at h

/-- optional multibyte field of the block header, present iff `present` -/
def OptMb (present : Prop) (enc : Bytes) (val : Option Nat) : Prop :=
  (present ∧ ∃ v, val = some v ∧ MbInt enc v) ∨ (¬ present ∧ enc = [] ∧ val = none)

theorem readBlockHeader_tail {r3 r : Rd} {n hs : Nat} {p u : Option Nat} {bh : BlockHeader}
    (T : ∃ fs r4, readFilters n hs [] r3 = Except.ok (fs, r4) ∧
      ∃ ok r5, r4.flushZeroPadding = Except.ok (ok, r5) ∧ ¬(!ok) = true ∧
        ({ filters := fs, packedSize := p, unpackedSize := u } : BlockHeader) = bh ∧ r5 = r) :
    ∃ (encs : List XzFilterEnc) (zp : Bytes),
      r3.rem = encs.flatMap (·.bytes) ++ zp ∧ r.rem = [] ∧ encs.length = n ∧
      bh.filters = encs.map (·.toFilter) ∧ bh.packedSize = p ∧ bh.unpackedSize = u ∧
      (∀ e ∈ encs, e.Ok ∧ e.props.length ≤ hs) ∧ (∀ b ∈ zp, b = 0) := by
  obtain ⟨fs, r4, hfs, ok, r5, hz, hok, rfl, rfl⟩ := T
  simp only [Bool.not_eq_true, Bool.not_eq_false'] at hok
  obtain ⟨z1, z2, z3⟩ := flushZeroPadding_ok hz hok
  obtain ⟨encs, k0, k1, k2, k3, k4⟩ := readFilters_ok _ _ _ _ hfs
  exact ⟨encs, r4.rem, k2, z2, k0, by simpa using k1, rfl, rfl, k4, z1⟩

theorem readBlockHeader_ok {rd r : Rd} {hs : Nat} {bh : BlockHeader}
    (h : readBlockHeader rd hs = .ok (bh, r)) :
    ∃ (flags : UInt8) (pk up : Bytes) (encs : List XzFilterEnc) (zp : Bytes),
      rd.rem = flags :: (pk ++ up ++ encs.flatMap (·.bytes) ++ zp) ∧
      r.rem = [] ∧
      flags.toNat &&& 0x3C = 0 ∧
      OptMb (flags.toNat &&& 0x40 ≠ 0) pk bh.packedSize ∧
      OptMb (flags.toNat &&& 0x80 ≠ 0) up bh.unpackedSize ∧
      encs.length = (flags.toNat &&& 0x03) + 1 ∧
      bh.filters = encs.map (·.toFilter) ∧
      (∀ e ∈ encs, e.Ok ∧ e.props.length ≤ hs) ∧
      (∀ b ∈ zp, b = 0) := by
  simp only [readBlockHeader, Except.bind_eq_ok', Except.throw_bind', ite_eq_ok, reduceCtorEq,
    and_false, false_or, Prod.exists, Except.pure_eq_ok, Rd.readU8_ok, Prod.mk.injEq] at h
  obtain ⟨flags, r1, ⟨h1, h1b⟩, hres, h⟩ := h
  simp only [ne_eq, Decidable.not_not] at hres
  rcases h with ⟨c1, v1, pk, r2, hm1, _, _, ⟨rfl, rfl⟩, ⟨c2, v2, up, r3, hm2, _, _, ⟨rfl, rfl⟩, T⟩ |
      ⟨c2, _, _, ⟨rfl, rfl⟩, T⟩⟩ |
    ⟨c1, _, _, ⟨rfl, rfl⟩, ⟨c2, v2, up, r3, hm2, _, _, ⟨rfl, rfl⟩, T⟩ | ⟨c2, _, _, ⟨rfl, rfl⟩, T⟩⟩
  · obtain ⟨e1, e2, m1⟩ := getMultibyte_ok hm1
    obtain ⟨f1, f2, m2⟩ := getMultibyte_ok hm2
    obtain ⟨encs, zp, t1, t2, t3, t4, t5, t6, t7, t8⟩ := readBlockHeader_tail T
    refine ⟨flags, pk, up, encs, zp, by simp [h1, e1, f1, t1], t2, hres,
      .inl ⟨c1, v1, t5, m1⟩, .inl ⟨c2, v2, t6, m2⟩, t3, t4, t7, t8⟩
  · obtain ⟨e1, e2, m1⟩ := getMultibyte_ok hm1
    obtain ⟨encs, zp, t1, t2, t3, t4, t5, t6, t7, t8⟩ := readBlockHeader_tail T
    refine ⟨flags, pk, [], encs, zp, by simp [h1, e1, t1], t2, hres,
      .inl ⟨c1, v1, t5, m1⟩, .inr ⟨c2, rfl, t6⟩, t3, t4, t7, t8⟩
  · obtain ⟨f1, f2, m2⟩ := getMultibyte_ok hm2
    obtain ⟨encs, zp, t1, t2, t3, t4, t5, t6, t7, t8⟩ := readBlockHeader_tail T
    refine ⟨flags, [], up, encs, zp, by simp [h1, f1, t1], t2, hres,
      .inr ⟨c1, rfl, t5⟩, .inl ⟨c2, v2, t6, m2⟩, t3, t4, t7, t8⟩
  · obtain ⟨encs, zp, t1, t2, t3, t4, t5, t6, t7, t8⟩ := readBlockHeader_tail T
    refine ⟨flags, [], [], encs, zp, by simp [h1, t1], t2, hres,
      .inr ⟨c1, rfl, t5⟩, .inr ⟨c2, rfl, t6⟩, t3, t4, t7, t8⟩

/-! ## The LZMA2 decoder consumes a prefix of its input -/

theorem lzErr_ok {e : Except Err α} {a : α} : lzErr e = .ok a ↔ e = .ok a := by
  cases e <;> simp [lzErr]

theorem parseUncompressed_suffix {accum accum' : Accum} {rd rd' : Rd} {rst : Bool} {s s' : Sink}
    (h : Lzma2Decoder.parseUncompressed accum rd rst s = (s', .ok (accum', rd'))) :
    ∃ p, rd.rem = p ++ rd'.rem ∧ rd'.bad = rd.bad := by
  simp only [Lzma2Decoder.parseUncompressed, mBind_eq_ok, liftE_eq_ok, lzErr_ok, Prod.exists,
    mPure_eq_ok, mIte_eq] at h
  obtain ⟨a, r1, s1, ⟨h1, rfl⟩, h⟩ := h
  obtain ⟨bs, e1, -, -, e2⟩ := Rd.readU16BE_ok h1
  have : ∃ a2, r1.readExact (a + 1) = .ok (a2, rd') := by
    rcases h with ⟨_, _, _, _, a2, b1, _, ⟨h3, _⟩, h4, _⟩ | ⟨_, _, _, _, a2, b1, _, ⟨h3, _⟩, h4, _⟩
    all_goals
      cases h4
      exact ⟨a2, h3⟩
  obtain ⟨a2, h3⟩ := this
  obtain ⟨f1, -, f2⟩ := Rd.readExact_ok.mp h3
  exact ⟨bs ++ a2, by simp [e1, f1], by rw [f2, e2]⟩

theorem parseLzma_suffix {d d' : Lzma2Decoder} {accum accum' : Accum} {rd rd' : Rd} {st : Nat}
    {s s' : Sink}
    (h : d.parseLzma accum rd st s = (s', .ok (d', accum', rd'))) :
    ∃ p, rd.rem = p ++ rd'.rem ∧ rd'.bad = rd.bad := by
  simp only [Lzma2Decoder.parseLzma, mBind_eq_ok, liftE_eq_ok, lzErr_ok, Prod.exists,
    mPure_eq_ok, mIte_eq, throwM_bind, throwM_ne_ok, and_false, false_or, Prod.mk.injEq] at h
  obtain ⟨hst, u, r1, s1, ⟨hu, rfl⟩, p, r2, s2, ⟨hp, rfl⟩, h⟩ := h
  have key : ∃ (r3 taken' : Rd) (rc : RC), (r3 = r2 ∨ ∃ b, r2.readU8 = .ok (b, r3)) ∧
      rc.isFinishedOk taken' = .ok true ∧ r3.unsplit taken' (r3.split (p + 1)).snd = rd' := by
    rcases h with ⟨-, accum1, s3, -, h⟩ | ⟨-, accum1, s3, -, h⟩
    all_goals
      rcases h with ⟨-, ⟨-, b, r3, _, ⟨hb, -⟩, -, -, _, _, _, ⟨⟨-, rfl⟩, -⟩, _, _, -, _, _, _,
            ⟨⟨-, rfl⟩, -⟩, _, _, _, -, _, _, rc, tk, _, -, fin, _, ⟨hfin, -⟩, hf, ⟨-, -, hrd⟩, -⟩ |
          ⟨-, _, _, _, ⟨⟨-, rfl⟩, -⟩, _, _, -, _, _, _, ⟨⟨-, rfl⟩, -⟩, _, _, _, -, _, _, rc, tk, _, -,
            fin, _, ⟨hfin, -⟩, hf, ⟨-, -, hrd⟩, -⟩⟩ |
        ⟨-, _, _, _, ⟨⟨-, rfl⟩, -⟩, _, _, _, -, _, _, rc, tk, _, -, fin, _, ⟨hfin, -⟩, hf,
          ⟨-, -, hrd⟩, -⟩
      all_goals
        simp only [Bool.not_eq_true, Bool.not_eq_false'] at hf
        subst hf
    · exact ⟨_, _, _, .inr ⟨b, hb⟩, hfin, hrd⟩
    · exact ⟨_, _, _, .inl rfl, hfin, hrd⟩
    · exact ⟨_, _, _, .inl rfl, hfin, hrd⟩
    · exact ⟨_, _, _, .inr ⟨b, hb⟩, hfin, hrd⟩
    · exact ⟨_, _, _, .inl rfl, hfin, hrd⟩
    · exact ⟨_, _, _, .inl rfl, hfin, hrd⟩
  clear h
  obtain ⟨r3, tk, rc, h3, hfin, rfl⟩ := key
  have htk : tk.rem = [] := by
    simp only [RC.isFinishedOk, Rd.isEof] at hfin
    revert hfin
    cases tk.rem <;> simp
    split <;> simp
  obtain ⟨b1, e1, -, -, e2⟩ := Rd.readU16BE_ok hu
  obtain ⟨b2, f1, -, -, f2⟩ := Rd.readU16BE_ok hp
  have h3' : ∃ q, r2.rem = q ++ r3.rem ∧ r3.bad = r2.bad := by
    rcases h3 with rfl | ⟨b, hb⟩
    · exact ⟨[], rfl, rfl⟩
    · obtain ⟨g1, g2⟩ := Rd.readU8_ok.mp hb
      exact ⟨[b], g1, g2⟩
  obtain ⟨q, g1, g2⟩ := h3'
  refine ⟨b1 ++ b2 ++ q ++ r3.rem.take (p + 1), ?_, ?_⟩
  · simp [Rd.unsplit, Rd.split, htk, e1, f1, g1]
  · simp [Rd.unsplit, g2, f2, e2]

theorem chunkLoop_suffix : ∀ (fuel : Nat) (d : Lzma2Decoder) (accum : Accum) (rd : Rd)
    {s s' : Sink} {d' : Lzma2Decoder} {accum' : Accum} {rd' : Rd},
    Lzma2Decoder.chunkLoop fuel d accum rd s = (s', .ok (d', accum', rd')) →
    ∃ p, rd.rem = p ++ rd'.rem ∧ rd'.bad = rd.bad
  | 0, _, _, _, _, _, _, _, _, h => by simp [Lzma2Decoder.chunkLoop] at h
  | fuel+1, d, accum, rd, s, s', d', accum', rd', h => by
    simp only [Lzma2Decoder.chunkLoop, mBind_eq_ok, liftE_eq_ok, lzErr_ok, Prod.exists,
      mPure_eq_ok, mIte_eq, Prod.mk.injEq, Rd.readU8_ok] at h
    obtain ⟨b, r1, s1, ⟨⟨e1, e2⟩, rfl⟩, h⟩ := h
    rcases h with ⟨-, ⟨-, -, rfl⟩, -⟩ | ⟨-, ⟨-, a1, r2, s2, hp, h⟩ | ⟨-, ⟨-, a1, r2, s2, hp, h⟩ |
      ⟨-, d1, a1, r2, s2, hp, h⟩⟩⟩
    · exact ⟨[b], e1, e2⟩
    · obtain ⟨p1, f1, f2⟩ := parseUncompressed_suffix hp
      obtain ⟨p2, g1, g2⟩ := chunkLoop_suffix fuel _ _ _ h
      exact ⟨b :: (p1 ++ p2), by simp [e1, f1, g1], by rw [g2, f2, e2]⟩
    · obtain ⟨p1, f1, f2⟩ := parseUncompressed_suffix hp
      obtain ⟨p2, g1, g2⟩ := chunkLoop_suffix fuel _ _ _ h
      exact ⟨b :: (p1 ++ p2), by simp [e1, f1, g1], by rw [g2, f2, e2]⟩
    · obtain ⟨p1, f1, f2⟩ := parseLzma_suffix hp
      obtain ⟨p2, g1, g2⟩ := chunkLoop_suffix fuel _ _ _ h
      exact ⟨b :: (p1 ++ p2), by simp [e1, f1, g1], by rw [g2, f2, e2]⟩

/-- the first filter consumes a prefix of the reader -/
theorem decodeFilter_suffix {rd rd' : Rd} {f : Filter} {buf : Bytes}
    (h : decodeFilter rd f = .ok (buf, rd')) :
    ∃ p, rd.rem = p ++ rd'.rem ∧ rd'.bad = rd.bad := by
  simp only [decodeFilter, Except.bind_eq_ok', Except.throw_bind', ite_eq_ok, reduceCtorEq,
    and_false, false_or] at h
  obtain ⟨-, d, -, h⟩ := h
  split at h
  · rename_i snk x rd1 hd
    simp only [Except.pure_eq_ok, Prod.mk.injEq] at h
    obtain ⟨-, rfl⟩ := h
    simp only [Lzma2Decoder.decompress, mBind_eq_ok, Prod.exists, mPure_eq_ok,
      Prod.mk.injEq] at hd
    obtain ⟨d1, a1, r1, s1, hc, _, _, -, ⟨-, rfl⟩, -⟩ := hd
    exact chunkLoop_suffix _ _ _ _ hc
  · simp at h

/-! ## Blocks -/

/-- the stored check field for `out` -/
def xzCheckBytes : CheckMethod → Bytes → Bytes
  | .none, _ => []
  | .crc32, out => leBytes 4 (crc32 out)
  | .crc64, out => leBytes 8 (crc64 out)
  | .sha256, _ => []

theorem validateBlockCheck_ok {rd r : Rd} {buf : Bytes} {check : CheckMethod}
    (h : validateBlockCheck rd buf check = .ok r) :
    rd.rem = xzCheckBytes check buf ++ r.rem ∧ r.bad = rd.bad := by
  cases check <;>
    simp only [validateBlockCheck, Except.bind_eq_ok', Except.throw_bind', ite_eq_ok, reduceCtorEq,
      and_false, false_or, Prod.exists, Except.pure_eq_ok, Rd.readU32LE_ok, Rd.readU64LE_ok,
      Except.throw_ne_ok] at h
  · subst h; simp [xzCheckBytes]
  · obtain ⟨crc, r1, ⟨cb, h1, h2, rfl, h3⟩, hcrc, rfl⟩ := h
    simp only [ne_eq, Decidable.not_not] at hcrc
    have := leBytes_leVal cb
    rw [h2, hcrc] at this
    exact ⟨by rw [h1, xzCheckBytes, this], h3⟩
  · obtain ⟨crc, r1, ⟨cb, h1, h2, rfl, h3⟩, hcrc, rfl⟩ := h
    simp only [ne_eq, Decidable.not_not] at hcrc
    have := leBytes_leVal cb
    rw [h2, hcrc] at this
    exact ⟨by rw [h1, xzCheckBytes, this], h3⟩

theorem write1_ok_out {s s' : Sink} {bs : Bytes} {n : Nat} (h : s.write1 bs = (s', .ok n)) :
    n ≤ bs.length ∧ s'.out = s.out ++ (bs.take n).toArray := by
  unfold Sink.write1 at h
  split at h
  · cases h; simp
  · cases h; simp
  · rename_i k rest hk
    simp only [Prod.mk.injEq, Except.ok.injEq] at h
    obtain ⟨rfl, rfl⟩ := h
    refine ⟨Nat.min_le_right _ _, ?_⟩
    simp only
    congr 2
    rw [List.take_eq_take_iff]
    omega
  · cases h

theorem writeAllList_ok_out : ∀ (n : Nat) (bs : Bytes) (s s' : Sink) (u : Unit), bs.length ≤ n →
    writeAllList bs s = (s', .ok u) → s'.out = s.out ++ bs.toArray
  | 0, bs, s, s', u, hn, h => by
    have : bs = [] := List.eq_nil_of_length_eq_zero (by omega)
    subst this
    unfold writeAllList at h
    simp at h
    simp [h]
  | n+1, bs, s, s', u, hn, h => by
    unfold writeAllList at h
    split at h
    · rename_i he
      simp only [List.isEmpty_iff] at he
      subst he
      cases h
      simp
    · rename_i he
      split at h
      · cases h
      · rename_i s1 k hw
        obtain ⟨hk, ho⟩ := write1_ok_out hw
        split at h
        · cases h
        · rename_i hk0
          split at h
          · rename_i hge
            cases h
            rw [ho, List.take_of_length_le hge]
          · rename_i hlt
            have ih := writeAllList_ok_out n (bs.drop k) s1 s' u (by simp; omega) h
            rw [ih, ho, Array.append_assoc]
            congr 1
            rw [List.append_toArray, List.take_append_drop]

/-- a successful `write_all` appends exactly the buffer, whatever the sink's script -/
theorem writeAll_ok_out {bs : Array UInt8} {s s' : Sink} {u : Unit}
    (h : writeAll bs s = (s', .ok u)) : s'.out = s.out ++ bs := by
  unfold writeAll at h
  split at h
  · rename_i he
    cases h
    simp only [Array.isEmpty_iff] at he
    simp [he]
  · split at h
    · cases h; rfl
    · have := writeAllList_ok_out _ _ _ _ _ (Nat.le_refl _) h
      simpa using this

theorem laterFilters_props : ∀ (fs : List Filter) (buf : Bytes) {out : Bytes},
    laterFilters fs buf = .ok out → ∀ f ∈ fs, f.props.length = 1
  | [], _, _, _ => by simp
  | f :: fs, buf, out, h => by
    simp only [laterFilters, Except.bind_eq_ok', Prod.exists] at h
    obtain ⟨nb, r, h1, h2⟩ := h
    intro g hg
    rcases List.mem_cons.mp hg with rfl | hg
    · simp only [decodeFilter, Except.bind_eq_ok', Except.throw_bind', ite_eq_ok, reduceCtorEq,
        and_false, false_or] at h1
      simpa using h1.1
    · exact laterFilters_props fs nb h2 g hg

/-- the part of `readBlock` after the size comparison (restated for the proofs) -/
def readBlockTail (start : Nat) (rd : Rd) (tmpbuf : Bytes) (check : CheckMethod) :
    M (Record × Rd) := do
  let count := start - rd.rem.length
  let padding := paddingSize count
  let (_, rd) ← liftE (readZeroBytes padding [] rd)
  let rd ← liftE (validateBlockCheck rd tmpbuf check)
  writeAll tmpbuf.toArray
  let unpadded ← liftE (subChk "read_block: count - padding_size" (start - rd.rem.length) padding)
  pure ({ unpaddedSize := unpadded, unpackedSize := tmpbuf.length }, rd)

/-- the filter chain of `readBlock` (restated for the proofs) -/
def readBlockFilters (bh : BlockHeader) (rd : Rd) : Except Err (Bytes × Rd) :=
  match bh.filters with
    | [] => pure ([], rd)
    | f :: fs => do
      let before := rd.rem.length
      let (buf, rd) ← decodeFilter rd f
      let packed := before - rd.rem.length
      match bh.packedSize with
      | some e => if packed ≠ e then throw .xz
      | none => pure ()
      let buf ← laterFilters fs buf
      pure (buf, rd)

theorem readBlockFilters_ok {bh : BlockHeader} {rd r : Rd} {out : Bytes}
    (hne : bh.filters ≠ []) (h : readBlockFilters bh rd = .ok (out, r)) :
    ∃ f fs mid, bh.filters = f :: fs ∧ decodeFilter rd f = .ok (mid, r) ∧
      laterFilters fs mid = .ok out ∧
      (∀ e, bh.packedSize = some e → rd.rem.length - r.rem.length = e) := by
  unfold readBlockFilters at h
  split at h
  · contradiction
  · rename_i f fs hf
    simp only [Except.bind_eq_ok', Prod.exists] at h
    obtain ⟨mid, r1, h1, h⟩ := h
    split at h
    · rename_i e he
      simp only [Except.bind_eq_ok', Except.throw_bind', ite_eq_ok, reduceCtorEq,
        and_false, false_or, Except.pure_eq_ok, Prod.mk.injEq] at h
      obtain ⟨hp, _, h2, rfl, rfl⟩ := h
      simp only [ne_eq, Decidable.not_not] at hp
      exact ⟨f, fs, mid, hf, h1, h2, fun e' he' => by rw [he] at he'; cases he'; exact hp⟩
    · rename_i he
      simp only [Except.bind_eq_ok', Except.pure_eq_ok, Prod.mk.injEq] at h
      obtain ⟨_, h2, rfl, rfl⟩ := h
      exact ⟨f, fs, mid, hf, h1, h2, fun e' he' => by rw [he] at he'; cases he'⟩

theorem readBlockTail_ok {start : Nat} {rd r : Rd} {tmpbuf : Bytes} {check : CheckMethod}
    {s s' : Sink} {rec : Record}
    (h : readBlockTail start rd tmpbuf check s = (s', .ok (rec, r))) :
    rd.rem = List.replicate (paddingSize (start - rd.rem.length)) 0 ++ xzCheckBytes check tmpbuf
      ++ r.rem ∧ r.bad = rd.bad ∧ s'.out = s.out ++ tmpbuf.toArray ∧
      rec = { unpaddedSize := start - r.rem.length - paddingSize (start - rd.rem.length),
              unpackedSize := tmpbuf.length } := by
  simp only [readBlockTail, mBind_eq_ok, liftE_eq_ok, Prod.exists,
    mPure_eq_ok, Prod.mk.injEq] at h
  obtain ⟨zb, r1, s1, ⟨h1, rfl⟩, r2, s2, ⟨h2, rfl⟩, u, s3, h3, unp, s4, ⟨h4, rfl⟩, ⟨rfl, rfl⟩, rfl⟩ := h
  obtain ⟨-, z1, z2⟩ := readZeroBytes_ok _ _ _ h1
  obtain ⟨v1, v2⟩ := validateBlockCheck_ok h2
  have w1 := writeAll_ok_out h3
  simp only [subChk, ite_eq_ok, Except.ok.injEq, reduceCtorEq, and_false, or_false] at h4
  obtain ⟨-, rfl⟩ := h4
  refine ⟨?_, by rw [v2, z2], w1, rfl⟩
  rw [List.append_assoc, ← v1, ← z1]

/-- one block as laid out in the file -/
structure XzBlock where
  /-- block header size byte -/
  hsByte : UInt8
  /-- block flags -/
  flags : UInt8
  /-- multibyte encoding of the declared compressed size (`[]` if absent) -/
  packedEnc : Bytes
  /-- multibyte encoding of the declared uncompressed size (`[]` if absent) -/
  unpackedEnc : Bytes
  filters : List XzFilterEnc
  /-- header padding -/
  hdrPad : Bytes
  /-- the 4 bytes of the header CRC32 -/
  hdrCrc : Bytes
  /-- the compressed data (consumed by the first filter) -/
  payload : Bytes
  /-- what the block decodes to -/
  out : Bytes
  /-- block padding -/
  pad : Bytes
  /-- check field (0, 4 or 8 bytes) -/
  check : Bytes

/-- the header bytes between the size byte and the header CRC -/
def XzBlock.hdr (b : XzBlock) : Bytes :=
  b.flags :: (b.packedEnc ++ b.unpackedEnc ++ b.filters.flatMap (·.bytes) ++ b.hdrPad)

def XzBlock.bytes (b : XzBlock) : Bytes :=
  b.hsByte :: (b.hdr ++ b.hdrCrc ++ b.payload ++ b.pad ++ b.check)

def XzBlock.unpaddedSize (b : XzBlock) : Nat :=
  1 + b.hdr.length + 4 + b.payload.length + b.check.length

/-- "`payload` decodes to `out` through the filter chain `fs`" as lzma-rs does it: the first
filter LZMA2-decodes the file from the start of `payload` (with `rest` = everything that follows
the payload in the file) and stops exactly at the end of `payload`; every further filter
(a leniency of lzma-rs: the filters all have id 0x21) LZMA2-decodes the previous output. -/
def BlockDecodes (fs : List Filter) (payload rest out : Bytes) : Prop :=
  match fs with
  | [] => False
  | f :: fs => ∃ mid, decodeFilter ⟨payload ++ rest, false⟩ f = .ok (mid, ⟨rest, false⟩) ∧
      laterFilters fs mid = .ok out

/-- the integrity conditions of one block; `rest` = the file after the block's payload -/
structure XzBlock.Valid (check : CheckMethod) (b : XzBlock) (rest : Bytes) : Prop where
  hs_ne : b.hsByte ≠ 0
  hdr_len : 1 + b.hdr.length = 4 * b.hsByte.toNat
  hdr_crc : b.hdrCrc = leBytes 4 (crc32 (b.hsByte :: b.hdr))
  reserved : b.flags.toNat &&& 0x3C = 0
  nfilters : b.filters.length = (b.flags.toNat &&& 0x03) + 1
  packed : if b.flags.toNat &&& 0x40 ≠ 0 then MbInt b.packedEnc b.payload.length
    else b.packedEnc = []
  unpacked : if b.flags.toNat &&& 0x80 ≠ 0 then MbInt b.unpackedEnc b.out.length
    else b.unpackedEnc = []
  filters_ok : ∀ f ∈ b.filters, MbInt f.idEnc 0x21 ∧ MbInt f.szEnc f.props.length ∧
    f.props.length = 1
  hdr_pad : ∀ x ∈ b.hdrPad, x = 0
  decodes : BlockDecodes (b.filters.map (·.toFilter)) b.payload rest b.out
  pad_eq : b.pad = List.replicate (paddingSize (1 + b.hdr.length + 4 + b.payload.length)) 0
  check_eq : b.check = xzCheckBytes check b.out

theorem decodeFilter_props {rd r : Rd} {f : Filter} {buf : Bytes}
    (h : decodeFilter rd f = .ok (buf, r)) : f.props.length = 1 := by
  simp only [decodeFilter, Except.bind_eq_ok', Except.throw_bind', ite_eq_ok, reduceCtorEq,
    and_false, false_or] at h
  simpa using h.1

theorem readBlock_ok {start : Nat} {rd r : Rd} {check : CheckMethod} {hs : UInt8} {s s' : Sink}
    {rec : Record} (hstart : start = rd.rem.length + 1) (hbad : rd.bad = false) (hne : hs ≠ 0)
    (h : readBlock start rd check hs s = (s', .ok (rec, r))) :
    ∃ blk : XzBlock, blk.hsByte = hs ∧ hs :: rd.rem = blk.bytes ++ r.rem ∧
      blk.Valid check (blk.pad ++ blk.check ++ r.rem) ∧
      rec = { unpaddedSize := blk.unpaddedSize, unpackedSize := blk.out.length } ∧
      s'.out = s.out ++ blk.out.toArray ∧ r.bad = false := by
  simp only [readBlock, mBind_eq_ok, liftE_eq_ok, Prod.exists,
    mIte_eq, throwM_bind, throwM_ne_ok, and_false, false_or] at h
  obtain ⟨hsz, s1, ⟨h1, rfl⟩, bh, hr', s2, ⟨h2, rfl⟩, crc, r2, s3, ⟨h3, rfl⟩, hcrc, tmpbuf, r3, s4,
    ⟨h4, rfl⟩, h5⟩ := h
  have h4' : readBlockFilters bh r2 = .ok (tmpbuf, r3) := h4
  have h5' : (match bh.unpackedSize with
      | some e => if tmpbuf.length ≠ e then throwM .xz else readBlockTail start r3 tmpbuf check
      | none => readBlockTail start r3 tmpbuf check) s4 = (s', .ok (rec, r)) := h5
  clear h4 h5
  simp only [ne_eq, Decidable.not_not] at hcrc
  simp only [subChk, ite_eq_ok, Except.ok.injEq, reduceCtorEq, and_false, or_false] at h1
  obtain ⟨hge, rfl⟩ := h1
  obtain ⟨flags, pk, up, encs, zp, k1, k2, kres, kpk, kup, klen, kfs, kok, kzp⟩ :=
    readBlockHeader_ok h2
  obtain ⟨cb, c1, c2, rfl, c3⟩ := Rd.readU32LE_ok.mp h3
  simp only [Rd.unsplit, Rd.split, k2, List.nil_append] at c1 c3 k1 hcrc
  have hlen : hs.toNat <<< 2 - 1 + 4 ≤ rd.rem.length := by
    have := congrArg List.length c1
    simp only [List.length_drop, List.length_append, c2] at this
    omega
  have htake : (rd.rem.take (hs.toNat <<< 2 - 1)).length = hs.toNat <<< 2 - 1 := by
    rw [List.length_take]; omega
  have hrd : rd.rem = rd.rem.take (hs.toNat <<< 2 - 1) ++ (cb ++ r2.rem) := by
    rw [← c1, List.take_append_drop]
  have hfne : bh.filters ≠ [] := by
    rw [kfs]; intro hc
    have := congrArg List.length hc
    simp [klen] at this
  obtain ⟨f, fs, mid, f1, f2, f3, f4⟩ := readBlockFilters_ok hfne h4'
  obtain ⟨payload, p1, p2⟩ := decodeFilter_suffix f2
  have hr2bad : r2.bad = false := by rw [c3, hbad]
  have hr3bad : r3.bad = false := by rw [p2, hr2bad]
  have hupk : ∀ e, bh.unpackedSize = some e → tmpbuf.length = e := by
    intro e he
    rw [he] at h5'
    simp only [mIte_eq, throwM_ne_ok, and_false, false_or] at h5'
    simpa using h5'.1
  have h5'' : readBlockTail start r3 tmpbuf check s4 = (s', .ok (rec, r)) := by
    cases hu : bh.unpackedSize with
    | none => rw [hu] at h5'; exact h5'
    | some e =>
      rw [hu] at h5'
      simp only [mIte_eq, throwM_ne_ok, and_false, false_or] at h5'
      exact h5'.2
  obtain ⟨t1, t2, t3, t5⟩ := readBlockTail_ok h5''
  have hstart3 : start - r3.rem.length = 1 + (hs.toNat <<< 2 - 1) + 4 + payload.length := by
    have := congrArg List.length hrd
    simp only [List.length_append, htake, c2, p1] at this
    omega
  rw [hstart3] at t1 t5
  -- the block
  let blk : XzBlock :=
    { hsByte := hs, flags := flags, packedEnc := pk, unpackedEnc := up, filters := encs,
      hdrPad := zp, hdrCrc := cb, payload := payload, out := tmpbuf,
      pad := List.replicate (paddingSize (1 + (hs.toNat <<< 2 - 1) + 4 + payload.length)) 0,
      check := xzCheckBytes check tmpbuf }
  have hhdr : blk.hdr = rd.rem.take (hs.toNat <<< 2 - 1) := by
    simp only [XzBlock.hdr, blk]; exact k1.symm
  have hhdrlen : blk.hdr.length = hs.toNat <<< 2 - 1 := by rw [hhdr, htake]
  have hcb : cb = leBytes 4 (crc32 (hs :: blk.hdr)) := by
    have := leBytes_leVal cb
    rw [c2, hcrc] at this
    rw [hhdr, this]
  refine ⟨blk, rfl, ?_, ?_, ?_, t3, by rw [t2, hr3bad]⟩
  · show hs :: rd.rem = hs :: (blk.hdr ++ cb ++ payload ++ _ ++ _) ++ r.rem
    rw [hhdr]
    conv => lhs; rw [hrd, p1, t1]
    simp [blk]
  · refine
      { hs_ne := hne
        hdr_len := ?_
        hdr_crc := hcb
        reserved := kres
        nfilters := klen
        packed := ?_
        unpacked := ?_
        filters_ok := ?_
        hdr_pad := kzp
        decodes := ?_
        pad_eq := ?_
        check_eq := rfl }
    · rw [hhdrlen]; show 1 + (hs.toNat <<< 2 - 1) = 4 * hs.toNat
      rw [Nat.shiftLeft_eq] at hge ⊢; omega
    · show if flags.toNat &&& 0x40 ≠ 0 then MbInt pk payload.length else pk = []
      rcases kpk with ⟨c, v, hv, hm⟩ | ⟨c, rfl, -⟩
      · rw [if_pos c]
        have := f4 v hv
        rw [p1] at this
        simp only [List.length_append] at this
        have hv' : payload.length = v := by omega
        rw [hv']; exact hm
      · rw [if_neg c]
    · show if flags.toNat &&& 0x80 ≠ 0 then MbInt up tmpbuf.length else up = []
      rcases kup with ⟨c, v, hv, hm⟩ | ⟨c, rfl, -⟩
      · rw [if_pos c, hupk v hv]; exact hm
      · rw [if_neg c]
    · intro e he
      have hmem : e.toFilter ∈ bh.filters := by
        rw [kfs]; exact List.mem_map_of_mem he
      have hp : e.toFilter.props.length = 1 := by
        rw [f1] at hmem
        rcases List.mem_cons.mp hmem with hx | hx
        · rw [hx]; exact decodeFilter_props f2
        · exact laterFilters_props fs mid f3 _ hx
      exact ⟨(kok e he).1.1, (kok e he).1.2, hp⟩
    · show BlockDecodes (encs.map (·.toFilter)) payload _ tmpbuf
      rw [← kfs, f1]
      refine ⟨mid, ?_, f3⟩
      have e2 : r2 = ⟨payload ++ r3.rem, false⟩ := Rd.ext' p1 hr2bad
      have e3 : r3 = ⟨r3.rem, false⟩ := Rd.ext' rfl hr3bad
      rw [e2, e3] at f2
      rw [t1] at f2
      simpa using f2
    · show List.replicate _ 0 = List.replicate _ 0
      rw [hhdrlen]
  · rw [t5]
    have hl := congrArg List.length t1
    simp only [List.length_append, List.length_replicate] at hl
    simp only [XzBlock.unpaddedSize, hhdrlen, blk, Record.mk.injEq, and_true]
    omega

/-! ## Index, block loop -/

/-- the index as laid out in the file -/
structure XzIndex where
  /-- multibyte encoding of the number of records -/
  countEnc : Bytes
  /-- the encoded records -/
  records : Bytes
  pad : Bytes
  /-- the 4 bytes of the CRC32 -/
  crc : Bytes

def XzIndex.bytes (i : XzIndex) : Bytes := 0 :: (i.countEnc ++ i.records ++ i.pad ++ i.crc)

/-- the integrity conditions of the index, for the list of (unpadded size, uncompressed size)
pairs of the blocks -/
structure XzIndex.Valid (i : XzIndex) (recs : List (Nat × Nat)) : Prop where
  count : MbInt i.countEnc recs.length
  records : MbPairs i.records recs
  pad_eq : i.pad = List.replicate (paddingSize (1 + i.countEnc.length + i.records.length)) 0
  crc_eq : i.crc = leBytes 4 (crc32 (0 :: (i.countEnc ++ i.records ++ i.pad)))

/-- all blocks valid; `tail` = the file after the last block -/
def BlocksValid (check : CheckMethod) : List XzBlock → Bytes → Prop
  | [], _ => True
  | b :: bs, tail =>
    b.Valid check (b.pad ++ b.check ++ (bs.flatMap (·.bytes) ++ tail)) ∧ BlocksValid check bs tail

theorem BlocksValid.of_mem {check : CheckMethod} : ∀ {blocks : List XzBlock} {tail : Bytes},
    BlocksValid check blocks tail → ∀ b ∈ blocks, ∃ rest, b.Valid check rest
  | [], _, _, b, hb => by cases hb
  | c :: cs, tail, h, b, hb => by
    rcases List.mem_cons.mp hb with rfl | hb
    · exact ⟨_, h.1⟩
    · exact BlocksValid.of_mem h.2 b hb

def XzBlock.record (b : XzBlock) : Nat × Nat := (b.unpaddedSize, b.out.length)

theorem blockLoop_ok (check : CheckMethod) : ∀ (fuel : Nat) (records : List Record) (rd : Rd)
    {s s' : Sink} {isz : Nat} {r : Rd}, rd.bad = false →
    blockLoop check fuel records rd s = (s', .ok (isz, r)) →
    ∃ (blocks : List XzBlock) (idx : XzIndex),
      rd.rem = blocks.flatMap (·.bytes) ++ idx.bytes ++ r.rem ∧
      BlocksValid check blocks (idx.bytes ++ r.rem) ∧
      idx.Valid (records.map (fun x => (x.unpaddedSize, x.unpackedSize)) ++
        blocks.map (·.record)) ∧
      isz = idx.bytes.length ∧
      s'.out = s.out ++ (blocks.flatMap (·.out)).toArray ∧ r.bad = false
  | 0, _, _, _, _, _, _, _, h => by simp [blockLoop] at h
  | fuel+1, records, rd, s, s', isz, r, hbad, h => by
    simp only [blockLoop, mBind_eq_ok, liftE_eq_ok, Prod.exists, mPure_eq_ok, mIte_eq,
      Prod.mk.injEq, Rd.readU8_ok] at h
    obtain ⟨hs, r1, s1, ⟨⟨e1, e2⟩, rfl⟩, h⟩ := h
    rcases h with ⟨rfl, r2, s2, ⟨hci, rfl⟩, ⟨rfl, rfl⟩, rfl⟩ | ⟨hne, rec, r2, s2, hrb, h⟩
    · have hst : rd.rem.length = r1.rem.length + 1 := by rw [e1]; simp
      obtain ⟨cnt, enc, m1, m2, hrem, hb⟩ := checkIndex_ok hst hci
      let idx : XzIndex :=
        { countEnc := cnt, records := enc,
          pad := List.replicate (paddingSize (1 + cnt.length + enc.length)) 0,
          crc := leBytes 4 (crc32 (0 :: (cnt ++ enc ++
            List.replicate (paddingSize (1 + cnt.length + enc.length)) 0))) }
      have hrd : rd.rem = idx.bytes ++ r2.rem := by
        rw [e1, hrem]; simp [XzIndex.bytes, idx]
      refine ⟨[], idx, by simpa using hrd, trivial, ?_, ?_, by simp, by rw [hb, e2, hbad]⟩
      · simp only [List.map_nil, List.append_nil]
        exact { count := by simpa using m1, records := m2, pad_eq := rfl, crc_eq := rfl }
      · have := congrArg List.length hrd
        simp only [List.length_append] at this
        omega
    · have hst : rd.rem.length = r1.rem.length + 1 := by rw [e1]; simp
      have hb1 : r1.bad = false := by rw [e2, hbad]
      obtain ⟨blk, b1, b2, b3, b4, b5, b7⟩ := readBlock_ok hst hb1 hne hrb
      obtain ⟨blocks, idx, g1, g2, g3, g4, g5, g7⟩ := blockLoop_ok check fuel _ _ b7 h
      refine ⟨blk :: blocks, idx, ?_, ⟨?_, g2⟩, ?_, g4, ?_, g7⟩
      · rw [e1, b2, g1]; simp
      · rw [g1] at b3; simpa using b3
      · rw [b4] at g3
        simpa [XzBlock.record] using g3
      · rw [g5, b5]; simp

/-! ## The whole file -/

/-- a `.xz` file (single stream) as laid out on disk -/
structure XzFile where
  check : CheckMethod
  blocks : List XzBlock
  index : XzIndex
  /-- the 4 bytes of the footer's backward-size field -/
  backwardSize : Bytes

/-- the two stream-flag bytes -/
def XzFile.flags (f : XzFile) : Bytes := [0, UInt8.ofNat f.check.id]
def XzFile.header (f : XzFile) : Bytes := XZ_MAGIC ++ f.flags ++ leBytes 4 (crc32 f.flags)
def XzFile.footer (f : XzFile) : Bytes :=
  leBytes 4 (crc32 (f.backwardSize ++ f.flags)) ++ f.backwardSize ++ f.flags ++ XZ_MAGIC_FOOTER
def XzFile.bytes (f : XzFile) : Bytes :=
  f.header ++ f.blocks.flatMap (·.bytes) ++ f.index.bytes ++ f.footer
/-- the decoded content -/
def XzFile.out (f : XzFile) : Bytes := f.blocks.flatMap (·.out)

/-- every integrity condition of the container -/
structure XzFile.Valid (f : XzFile) : Prop where
  check_supported : f.check = .none ∨ f.check = .crc32 ∨ f.check = .crc64
  blocks_valid : BlocksValid f.check f.blocks (f.index.bytes ++ f.footer)
  index_valid : f.index.Valid (f.blocks.map (·.record))
  bs_len : f.backwardSize.length = 4
  backward : (leVal f.backwardSize + 1) * 4 = f.index.bytes.length

/-- `x` parses as a valid single-stream `.xz` file with the given check method and blocks -/
def XzParses (x : Bytes) (check : CheckMethod) (blocks : List XzBlock) : Prop :=
  ∃ f : XzFile, f.check = check ∧ f.blocks = blocks ∧ f.Valid ∧ x = f.bytes

theorem xzDecompress_ok {x : Bytes} {s s' : Sink} {rd' : Rd}
    (h : xzDecompress (Rd.ofBytes x) s = (s', .ok rd')) :
    ∃ f : XzFile, f.Valid ∧ x = f.bytes ∧ rd'.rem = [] ∧ rd'.bad = false ∧
      s'.out = s.out ++ f.out.toArray := by
  simp only [xzDecompress, mBind_eq_ok, liftE_eq_ok, Prod.exists, mPure_eq_ok, mIte_eq,
    throwM_bind, throwM_ne_ok, and_false, false_or, Rd.readExact_ok, Rd.readU32LE_ok,
    Rd.readTag_ok] at h
  obtain ⟨check, r1, s1, ⟨hh, rfl⟩, hsha, isz, r2, s2, hbl, crc, r3, s3, ⟨⟨cb, c1, c2, rfl, c3⟩, rfl⟩,
    bsz, r4, s4, ⟨⟨d1, d2, d3⟩, rfl⟩, hbs, fl, r5, s5, ⟨⟨e1, e2, e3⟩, rfl⟩, check', s6,
    ⟨hfl, rfl⟩, hceq, hcrc, ok, r6, s7, ⟨⟨mg, m1, m2, rfl, m3⟩, rfl⟩, hmg, eof, s8, ⟨heof, rfl⟩,
    heof', rfl, rfl⟩ := h
  simp only [ne_eq, Decidable.not_not] at hbs hceq hcrc
  subst hceq
  simp only [Bool.not_eq_true, Bool.not_eq_false', beq_iff_eq] at hmg heof'
  subst hmg heof'
  obtain ⟨p1, p2, p3⟩ := parseStreamHeader_ok hh
  have hb1 : r1.bad = false := by rw [p2]; rfl
  obtain ⟨blocks, idx, g1, g2, g3, g4, g5, g7⟩ := blockLoop_ok check _ _ _ hb1 hbl
  obtain ⟨rfl, -⟩ := parseStreamFlags_ok e2 hfl
  have hb6 : r6.bad = false := by rw [m3, e3, d3, c3, g7]
  have hrem6 : r6.rem = [] := by
    simp only [Rd.isEof, hb6] at heof
    revert heof
    cases r6.rem <;> simp
  have hcb : cb = leBytes 4 (crc32 (bsz ++ [0, UInt8.ofNat check.id])) := by
    have := leBytes_leVal cb
    rw [c2, hcrc] at this
    exact this.symm
  let f : XzFile := { check := check, blocks := blocks, index := idx, backwardSize := bsz }
  have hfooter : r2.rem = f.footer := by
    rw [c1, d1, e1, m1, hrem6, hcb]
    simp [XzFile.footer, XzFile.flags, f]
  refine ⟨f, ?_, ?_, hrem6, hb6, g5⟩
  · refine
      { check_supported := by
          show check = .none ∨ check = .crc32 ∨ check = .crc64
          revert hsha; cases check <;> simp
        blocks_valid := by rw [← hfooter]; exact g2
        index_valid := by simpa using g3
        bs_len := d2
        backward := ?_ }
    rw [← g4, hbs, Nat.shiftLeft_eq]
  · have : x = (Rd.ofBytes x).rem := rfl
    rw [this, p1, g1, hfooter]
    simp [XzFile.bytes, XzFile.header, XzFile.flags, f]

/-! ## Prefix determinism: a successful parse is unaffected by appending bytes to the input -/

/-- the reader with `t` appended to its data -/
def Rd.app (r : Rd) (t : Bytes) : Rd := { r with rem := r.rem ++ t }

@[simp] theorem Rd.app_rem (r : Rd) (t : Bytes) : (r.app t).rem = r.rem ++ t := rfl
@[simp] theorem Rd.app_bad (r : Rd) (t : Bytes) : (r.app t).bad = r.bad := rfl

namespace Rd

theorem readU8_app {r r' : Rd} {b : UInt8} (t : Bytes) (h : r.readU8 = .ok (b, r')) :
    (r.app t).readU8 = .ok (b, r'.app t) := by
  rw [readU8_ok] at h ⊢
  simp [h.1, h.2]

theorem readExact_app {r r' : Rd} {n : Nat} {bs : Bytes} (t : Bytes)
    (h : r.readExact n = .ok (bs, r')) : (r.app t).readExact n = .ok (bs, r'.app t) := by
  rw [readExact_ok] at h ⊢
  simp [h.1, h.2.1, h.2.2]

theorem readU32LE_app {r r' : Rd} {v : Nat} (t : Bytes) (h : r.readU32LE = .ok (v, r')) :
    (r.app t).readU32LE = .ok (v, r'.app t) := by
  rw [readU32LE_ok] at h ⊢
  obtain ⟨bs, h1, h2, h3, h4⟩ := h
  exact ⟨bs, by simp [h1], h2, h3, by simp [h4]⟩

theorem readU64LE_app {r r' : Rd} {v : Nat} (t : Bytes) (h : r.readU64LE = .ok (v, r')) :
    (r.app t).readU64LE = .ok (v, r'.app t) := by
  rw [readU64LE_ok] at h ⊢
  obtain ⟨bs, h1, h2, h3, h4⟩ := h
  exact ⟨bs, by simp [h1], h2, h3, by simp [h4]⟩

theorem readTag_app {r r' : Rd} {tag : Bytes} {ok : Bool} (t : Bytes)
    (h : r.readTag tag = .ok (ok, r')) : (r.app t).readTag tag = .ok (ok, r'.app t) := by
  rw [readTag_ok] at h ⊢
  obtain ⟨bs, h1, h2, h3, h4⟩ := h
  exact ⟨bs, by simp [h1], h2, h3, by simp [h4]⟩

theorem readU16BE_app {r r' : Rd} {v : Nat} (t : Bytes) (h : r.readU16BE = .ok (v, r')) :
    (r.app t).readU16BE = .ok (v, r'.app t) := by
  simp only [readU16BE, Except.bind_eq_ok', Prod.exists, Except.pure_eq_ok,
    Prod.mk.injEq] at h ⊢
  obtain ⟨bs, r1, h1, rfl, rfl⟩ := h
  exact ⟨bs, _, readExact_app t h1, rfl, rfl⟩

end Rd

theorem getMultibyteAux_app (t : Bytes) : ∀ (fuel i res : Nat) (acc : Bytes) (rd : Rd)
    {v : Nat} {bs : Bytes} {r : Rd},
    getMultibyteAux fuel i res acc rd = .ok (v, bs, r) →
    getMultibyteAux fuel i res acc (rd.app t) = .ok (v, bs, r.app t)
  | 0, _, _, _, _, _, _, _, h => by simp [getMultibyteAux] at h
  | fuel+1, i, res, acc, rd, v, bs, r, h => by
    simp only [getMultibyteAux, Except.bind_eq_ok', Prod.exists, ite_eq_ok,
      Except.pure_eq_ok, Prod.mk.injEq] at h ⊢
    obtain ⟨b, r1, h1, h⟩ := h
    refine ⟨b, _, Rd.readU8_app t h1, ?_⟩
    rcases h with ⟨hc, rfl, rfl, rfl⟩ | ⟨hc, h⟩
    · exact .inl ⟨hc, rfl, rfl, rfl⟩
    · exact .inr ⟨hc, getMultibyteAux_app t _ _ _ _ _ h⟩

theorem getMultibyte_app (t : Bytes) {rd r : Rd} {v : Nat} {bs : Bytes}
    (h : getMultibyte rd = .ok (v, bs, r)) : getMultibyte (rd.app t) = .ok (v, bs, r.app t) :=
  getMultibyteAux_app t _ _ _ _ _ h

theorem readZeroBytes_app (t : Bytes) : ∀ (n : Nat) (acc : Bytes) (rd : Rd) {bs : Bytes} {r : Rd},
    readZeroBytes n acc rd = .ok (bs, r) → readZeroBytes n acc (rd.app t) = .ok (bs, r.app t)
  | 0, acc, rd, bs, r, h => by
    simp only [readZeroBytes, Except.pure_eq_ok, Prod.mk.injEq] at h ⊢
    obtain ⟨rfl, rfl⟩ := h
    exact ⟨rfl, rfl⟩
  | n+1, acc, rd, bs, r, h => by
    simp only [readZeroBytes, Except.bind_eq_ok', Except.throw_bind', ite_eq_ok, reduceCtorEq,
      and_false, false_or, Prod.exists] at h ⊢
    obtain ⟨b, r1, h1, hb, h⟩ := h
    exact ⟨b, _, Rd.readU8_app t h1, hb, readZeroBytes_app t n _ _ h⟩

theorem checkRecords_app (t : Bytes) : ∀ (recs : List Record) (dig : Bytes) (rd : Rd)
    {dig' : Bytes} {r : Rd},
    checkRecords recs dig rd = .ok (dig', r) → checkRecords recs dig (rd.app t) = .ok (dig', r.app t)
  | [], dig, rd, dig', r, h => by
    simp only [checkRecords, Except.pure_eq_ok, Prod.mk.injEq] at h ⊢
    obtain ⟨rfl, rfl⟩ := h
    exact ⟨rfl, rfl⟩
  | x :: xs, dig, rd, dig', r, h => by
    simp only [checkRecords, Except.bind_eq_ok', Except.throw_bind', ite_eq_ok, reduceCtorEq,
      and_false, false_or, Prod.exists] at h ⊢
    obtain ⟨v1, b1, r1, h1, hv1, v2, b2, r2, h2, hv2, h⟩ := h
    exact ⟨v1, b1, _, getMultibyte_app t h1, hv1, v2, b2, _, getMultibyte_app t h2, hv2,
      checkRecords_app t xs _ _ h⟩

theorem checkIndex_app (t : Bytes) {start : Nat} {records : List Record} {rd r : Rd}
    (h : checkIndex start records rd = .ok r) :
    checkIndex (start + t.length) records (rd.app t) = .ok (r.app t) := by
  simp only [checkIndex, Except.bind_eq_ok', Except.throw_bind', ite_eq_ok, reduceCtorEq,
    and_false, false_or, Prod.exists, Except.pure_eq_ok] at h ⊢
  obtain ⟨n, cnt, r1, h1, hn, dig, r2, h2, pad, r3, h3, crc, r4, h4, hcrc, rfl⟩ := h
  refine ⟨n, cnt, _, getMultibyte_app t h1, hn, dig, _, checkRecords_app t _ _ _ h2, pad, r3.app t,
    ?_, crc, _, Rd.readU32LE_app t h4, hcrc, rfl⟩
  have : start + t.length - (r2.app t).rem.length = start - r2.rem.length := by
    simp; omega
  rw [this]
  exact readZeroBytes_app t _ _ _ h3

theorem parseStreamHeader_app (t : Bytes) {rd r : Rd} {c : CheckMethod}
    (h : parseStreamHeader rd = .ok (c, r)) : parseStreamHeader (rd.app t) = .ok (c, r.app t) := by
  simp only [parseStreamHeader, Except.bind_eq_ok', Except.throw_bind', ite_eq_ok,
    Except.pure_eq_ok, reduceCtorEq, and_false, false_or, Prod.exists, Prod.mk.injEq] at h ⊢
  obtain ⟨ok, r1, h1, hm, fb, r2, h2, crc, r3, h3, hcrc, c', hfl, rfl, rfl⟩ := h
  exact ⟨ok, _, Rd.readTag_app t h1, hm, fb, _, Rd.readExact_app t h2, crc, _,
    Rd.readU32LE_app t h3, hcrc, c', hfl, rfl, rfl⟩

theorem validateBlockCheck_app (t : Bytes) {rd r : Rd} {buf : Bytes} {check : CheckMethod}
    (h : validateBlockCheck rd buf check = .ok r) :
    validateBlockCheck (rd.app t) buf check = .ok (r.app t) := by
  cases check <;>
    simp only [validateBlockCheck, Except.bind_eq_ok', Except.throw_bind', ite_eq_ok, reduceCtorEq,
      and_false, false_or, Prod.exists, Except.pure_eq_ok, Except.throw_ne_ok] at h ⊢
  · rw [h]
  · obtain ⟨crc, r1, h1, hcrc, rfl⟩ := h
    exact ⟨crc, _, Rd.readU32LE_app t h1, hcrc, rfl⟩
  · obtain ⟨crc, r1, h1, hcrc, rfl⟩ := h
    exact ⟨crc, _, Rd.readU64LE_app t h1, hcrc, rfl⟩

/-! ### LZMA2 layer -/

theorem Rd.split_app_fst {r : Rd} {n : Nat} (t : Bytes) (hn : n ≤ r.rem.length) :
    ((r.app t).split n).fst = (r.split n).fst := by
  simp only [Rd.split, Rd.app_rem, Rd.app_bad, List.length_append, Rd.mk.injEq]
  refine ⟨List.take_append_of_le_length hn, ?_⟩
  have h1 : decide (r.rem.length + t.length < n) = false := by simp; omega
  have h2 : decide (r.rem.length < n) = false := by simp; omega
  rw [h1, h2]

theorem Rd.split_app_snd {r : Rd} {n : Nat} (t : Bytes) (hn : n ≤ r.rem.length) :
    ((r.app t).split n).snd = (r.split n).snd ++ t := by
  simp only [Rd.split, Rd.app_rem]
  exact List.drop_append_of_le_length hn

theorem isFinishedOk_true {rc : RC} {tk : Rd} (h : rc.isFinishedOk tk = .ok true) : tk.rem = [] := by
  simp only [RC.isFinishedOk, Rd.isEof] at h
  revert h
  cases tk.rem <;> simp
  split <;> simp

theorem lzmaTail_app (t : Bytes) {r3 rd' : Rd} {n : Nat} {stX : DState} {accum1 accum' : Accum}
    {sX s' : Sink} {d' : Lzma2Decoder} (hne : rd'.rem ≠ [])
    (T : ∃ rc tk s1, (RC.new (r3.split n).fst = Except.ok (rc, tk) ∧ s1 = sX) ∧
      ∃ st' acc' rc' tk' s2, DState.processMode DState.Mode.finish stX accum1 rc tk s1 =
          (s2, Except.ok (st', acc', rc', tk')) ∧
        ∃ fin s3, (rc'.isFinishedOk tk' = Except.ok fin ∧ s3 = s2) ∧ ¬(!fin) = true ∧
          (({ lzmaState := st' } : Lzma2Decoder) = d' ∧ acc' = accum' ∧
            r3.unsplit tk' (r3.split n).snd = rd') ∧ s' = s3) :
    ∃ rc tk s1, (RC.new ((r3.app t).split n).fst = Except.ok (rc, tk) ∧ s1 = sX) ∧
      ∃ st' acc' rc' tk' s2, DState.processMode DState.Mode.finish stX accum1 rc tk s1 =
          (s2, Except.ok (st', acc', rc', tk')) ∧
        ∃ fin s3, (rc'.isFinishedOk tk' = Except.ok fin ∧ s3 = s2) ∧ ¬(!fin) = true ∧
          (({ lzmaState := st' } : Lzma2Decoder) = d' ∧ acc' = accum' ∧
            (r3.app t).unsplit tk' ((r3.app t).split n).snd = rd'.app t) ∧ s' = s3 := by
  obtain ⟨rc, tk, s1, ⟨h1, rfl⟩, st', acc', rc', tk', s2, h2, fin, s3, ⟨h3, rfl⟩, hf,
    ⟨rfl, rfl, rfl⟩, rfl⟩ := T
  have hfin : fin = true := by simpa using hf
  subst hfin
  have htk := isFinishedOk_true h3
  have hn : n ≤ r3.rem.length := by
    simp only [Rd.unsplit, Rd.split, htk, List.nil_append, ne_eq, List.drop_eq_nil_iff,
      Nat.not_le] at hne
    omega
  refine ⟨rc, tk, _, ⟨by rw [Rd.split_app_fst t hn]; exact h1, rfl⟩, st', acc', rc', tk', _, h2,
    true, _, ⟨h3, rfl⟩, hf, ⟨rfl, rfl, ?_⟩, rfl⟩
  rw [Rd.split_app_snd t hn]
  simp [Rd.unsplit, Rd.app]

theorem parseLzma_app (t : Bytes) {d d' : Lzma2Decoder} {accum accum' : Accum} {rd rd' : Rd}
    {st : Nat} {s s' : Sink} (hne : rd'.rem ≠ [])
    (h : d.parseLzma accum rd st s = (s', .ok (d', accum', rd'))) :
    d.parseLzma accum (rd.app t) st s = (s', .ok (d', accum', rd'.app t)) := by
  simp only [Lzma2Decoder.parseLzma, mBind_eq_ok, liftE_eq_ok, lzErr_ok, Prod.exists,
    mPure_eq_ok, mIte_eq, throwM_bind, throwM_ne_ok, and_false, false_or, Prod.mk.injEq] at h ⊢
  obtain ⟨hst, u, r1, s1, ⟨hu, rfl⟩, p, r2, s2, ⟨hp, rfl⟩, h⟩ := h
  refine ⟨hst, u, _, _, ⟨Rd.readU16BE_app t hu, rfl⟩, p, _, _, ⟨Rd.readU16BE_app t hp, rfl⟩, ?_⟩
  rcases h with ⟨hc3, accum1, s3, hreset, h⟩ | ⟨hc3, accum1, s3, hreset, h⟩
  all_goals
    first
      | refine Or.inl ⟨hc3, accum1, s3, hreset, ?_⟩
      | refine Or.inr ⟨hc3, accum1, s3, hreset, ?_⟩
    rcases h with ⟨hc1, ⟨hc2, b, r3, s4, ⟨hb, rfl⟩, hb1, hb2, pr, r3', s5, ⟨⟨rfl, rfl⟩, rfl⟩, st1,
          s6, ⟨hrs, rfl⟩, st2, r3'', s7, ⟨⟨rfl, rfl⟩, rfl⟩, T⟩ |
        ⟨hc2, pr, r3, s4, ⟨⟨rfl, rfl⟩, rfl⟩, st1, s5, ⟨hrs, rfl⟩, st2, r3', s6, ⟨⟨rfl, rfl⟩, rfl⟩,
          T⟩⟩ |
      ⟨hc1, st1, r3, s4, ⟨⟨rfl, rfl⟩, rfl⟩, T⟩
    · exact Or.inl ⟨hc1, Or.inl ⟨hc2, b, _, _, ⟨Rd.readU8_app t hb, rfl⟩, hb1, hb2, _, _, _,
        ⟨⟨rfl, rfl⟩, rfl⟩, _, _, ⟨hrs, rfl⟩, _, _, _, ⟨⟨rfl, rfl⟩, rfl⟩, lzmaTail_app t hne T⟩⟩
    · exact Or.inl ⟨hc1, Or.inr ⟨hc2, _, _, _, ⟨⟨rfl, rfl⟩, rfl⟩, _, _, ⟨hrs, rfl⟩, _, _, _,
        ⟨⟨rfl, rfl⟩, rfl⟩, lzmaTail_app t hne T⟩⟩
    · exact Or.inr ⟨hc1, _, _, _, ⟨⟨rfl, rfl⟩, rfl⟩, lzmaTail_app t hne T⟩

theorem parseUncompressed_app (t : Bytes) {accum accum' : Accum} {rd rd' : Rd} {rst : Bool}
    {s s' : Sink} (h : Lzma2Decoder.parseUncompressed accum rd rst s = (s', .ok (accum', rd'))) :
    Lzma2Decoder.parseUncompressed accum (rd.app t) rst s = (s', .ok (accum', rd'.app t)) := by
  simp only [Lzma2Decoder.parseUncompressed, mBind_eq_ok, liftE_eq_ok, lzErr_ok, Prod.exists,
    mPure_eq_ok, mIte_eq, Prod.mk.injEq] at h ⊢
  obtain ⟨a, r1, s1, ⟨h1, rfl⟩, h⟩ := h
  refine ⟨a, _, _, ⟨Rd.readU16BE_app t h1, rfl⟩, ?_⟩
  rcases h with ⟨hc, a1, s2, h2, bs, r2, s3, ⟨h3, rfl⟩, ⟨rfl, rfl⟩, rfl⟩ |
    ⟨hc, a1, s2, h2, bs, r2, s3, ⟨h3, rfl⟩, ⟨rfl, rfl⟩, rfl⟩
  · exact Or.inl ⟨hc, a1, _, h2, bs, _, _, ⟨Rd.readExact_app t h3, rfl⟩, ⟨rfl, rfl⟩, rfl⟩
  · exact Or.inr ⟨hc, a1, _, h2, bs, _, _, ⟨Rd.readExact_app t h3, rfl⟩, ⟨rfl, rfl⟩, rfl⟩

theorem chunkLoop_ok_nonempty {fuel : Nat} {d : Lzma2Decoder} {accum : Accum} {rd : Rd}
    {s s' : Sink} {x : Lzma2Decoder × Accum × Rd}
    (h : Lzma2Decoder.chunkLoop fuel d accum rd s = (s', .ok x)) : rd.rem ≠ [] := by
  cases fuel with
  | zero => simp [Lzma2Decoder.chunkLoop] at h
  | succ fuel =>
    simp only [Lzma2Decoder.chunkLoop, mBind_eq_ok, liftE_eq_ok, lzErr_ok, Prod.exists,
      Rd.readU8_ok] at h
    obtain ⟨b, r1, s1, ⟨⟨e1, -⟩, -⟩, -⟩ := h
    simp [e1]

theorem chunkLoop_app (t : Bytes) : ∀ (fuel fuel' : Nat), fuel ≤ fuel' →
    ∀ (d : Lzma2Decoder) (accum : Accum) (rd : Rd)
    {s s' : Sink} {d' : Lzma2Decoder} {accum' : Accum} {rd' : Rd},
    Lzma2Decoder.chunkLoop fuel d accum rd s = (s', .ok (d', accum', rd')) →
    Lzma2Decoder.chunkLoop fuel' d accum (rd.app t) s = (s', .ok (d', accum', rd'.app t))
  | 0, _, _, _, _, _, _, _, _, _, _, h => by simp [Lzma2Decoder.chunkLoop] at h
  | fuel+1, 0, hle, _, _, _, _, _, _, _, _, _ => by omega
  | fuel+1, fuel'+1, hle, d, accum, rd, s, s', d', accum', rd', h => by
    simp only [Lzma2Decoder.chunkLoop, mBind_eq_ok, liftE_eq_ok, lzErr_ok, Prod.exists,
      mPure_eq_ok, mIte_eq, Prod.mk.injEq] at h ⊢
    obtain ⟨b, r1, s1, ⟨e1, rfl⟩, h⟩ := h
    refine ⟨b, _, _, ⟨Rd.readU8_app t e1, rfl⟩, ?_⟩
    have hle' : fuel ≤ fuel' := by omega
    rcases h with ⟨c0, ⟨rfl, rfl, rfl⟩, rfl⟩ | ⟨c0, ⟨c1, a1, r2, s2, hp, h⟩ |
      ⟨c1, ⟨c2, a1, r2, s2, hp, h⟩ | ⟨c2, d1, a1, r2, s2, hp, h⟩⟩⟩
    · exact Or.inl ⟨c0, ⟨rfl, rfl, rfl⟩, rfl⟩
    · exact Or.inr ⟨c0, Or.inl ⟨c1, a1, _, s2, parseUncompressed_app t hp,
        chunkLoop_app t fuel fuel' hle' _ _ _ h⟩⟩
    · exact Or.inr ⟨c0, Or.inr ⟨c1, Or.inl ⟨c2, a1, _, s2, parseUncompressed_app t hp,
        chunkLoop_app t fuel fuel' hle' _ _ _ h⟩⟩⟩
    · exact Or.inr ⟨c0, Or.inr ⟨c1, Or.inr ⟨c2, d1, a1, _, s2,
        parseLzma_app t (chunkLoop_ok_nonempty h) hp,
        chunkLoop_app t fuel fuel' hle' _ _ _ h⟩⟩⟩

theorem decodeFilter_app (t : Bytes) {rd rd' : Rd} {f : Filter} {buf : Bytes}
    (h : decodeFilter rd f = .ok (buf, rd')) :
    decodeFilter (rd.app t) f = .ok (buf, rd'.app t) := by
  simp only [decodeFilter, Except.bind_eq_ok', Except.throw_bind', ite_eq_ok, reduceCtorEq,
    and_false, false_or] at h ⊢
  obtain ⟨hp, d, hd, h⟩ := h
  refine ⟨hp, d, hd, ?_⟩
  split at h
  · rename_i snk x rd1 hdec
    simp only [Except.pure_eq_ok, Prod.mk.injEq] at h
    obtain ⟨rfl, rfl⟩ := h
    have : d.decompress (rd.app t) {} = (snk, .ok (x, rd1.app t)) := by
      simp only [Lzma2Decoder.decompress, mBind_eq_ok, Prod.exists, mPure_eq_ok,
        Prod.mk.injEq] at hdec ⊢
      obtain ⟨d1, a1, r1, s1, hc, u, s2, hfin, ⟨rfl, rfl⟩, rfl⟩ := hdec
      exact ⟨d1, a1, _, s1, chunkLoop_app t _ _ (by simp) _ _ _ hc, u, _, hfin,
        ⟨rfl, rfl⟩, rfl⟩
    rw [this]
    rfl
  · simp at h

/-! ### Block layer -/

theorem readBlockFilters_app (t : Bytes) {bh : BlockHeader} {rd r : Rd} {out : Bytes}
    (h : readBlockFilters bh rd = .ok (out, r)) :
    readBlockFilters bh (rd.app t) = .ok (out, r.app t) := by
  unfold readBlockFilters at h ⊢
  split
  · rename_i hf
    simp only [hf, Except.pure_eq_ok, Prod.mk.injEq] at h
    obtain ⟨rfl, rfl⟩ := h
    rfl
  · rename_i f fs hf
    simp only [hf, Except.bind_eq_ok', Prod.exists] at h ⊢
    obtain ⟨mid, r1, h1, h⟩ := h
    refine ⟨mid, _, decodeFilter_app t h1, ?_⟩
    have hlen : (rd.app t).rem.length - (r1.app t).rem.length = rd.rem.length - r1.rem.length := by
      simp; omega
    rw [hlen]
    split at h
    · rename_i e he
      simp only [Except.bind_eq_ok', Except.throw_bind', ite_eq_ok, reduceCtorEq,
        and_false, false_or, Except.pure_eq_ok, Prod.mk.injEq] at h ⊢
      obtain ⟨hp, u, h2, rfl, rfl⟩ := h
      exact ⟨hp, u, h2, rfl, rfl⟩
    · rename_i he
      simp only [Except.bind_eq_ok', Except.pure_eq_ok, Prod.mk.injEq] at h ⊢
      obtain ⟨u, h2, rfl, rfl⟩ := h
      exact ⟨u, h2, rfl, rfl⟩

theorem readBlockTail_app (t : Bytes) {start : Nat} {rd r : Rd} {tmpbuf : Bytes}
    {check : CheckMethod} {s s' : Sink} {rec : Record}
    (h : readBlockTail start rd tmpbuf check s = (s', .ok (rec, r))) :
    readBlockTail (start + t.length) (rd.app t) tmpbuf check s = (s', .ok (rec, r.app t)) := by
  simp only [readBlockTail, mBind_eq_ok, liftE_eq_ok, Prod.exists,
    mPure_eq_ok, Prod.mk.injEq] at h ⊢
  obtain ⟨zb, r1, s1, ⟨h1, rfl⟩, r2, s2, ⟨h2, rfl⟩, u, s3, h3, unp, s4, ⟨h4, rfl⟩, ⟨rfl, rfl⟩, rfl⟩ := h
  have e1 : start + t.length - (rd.app t).rem.length = start - rd.rem.length := by simp; omega
  have e2 : start + t.length - (r2.app t).rem.length = start - r2.rem.length := by simp; omega
  rw [e1]
  exact ⟨zb, _, _, ⟨readZeroBytes_app t _ _ _ h1, rfl⟩, r2.app t, _,
    ⟨validateBlockCheck_app t h2, rfl⟩, u, _, h3, unp, _, ⟨by rw [e2]; exact h4, rfl⟩,
    ⟨rfl, rfl⟩, rfl⟩

theorem Rd.unsplit_app (r inner : Rd) (rest t : Bytes) :
    (r.app t).unsplit inner (rest ++ t) = (r.unsplit inner rest).app t := by
  simp [Rd.unsplit, Rd.app]

theorem readBlock_app (t : Bytes) {start : Nat} {rd r : Rd} {check : CheckMethod} {hs : UInt8}
    {s s' : Sink} {rec : Record}
    (h : readBlock start rd check hs s = (s', .ok (rec, r))) :
    readBlock (start + t.length) (rd.app t) check hs s = (s', .ok (rec, r.app t)) := by
  simp only [readBlock, mBind_eq_ok, liftE_eq_ok, Prod.exists,
    mIte_eq, throwM_bind, throwM_ne_ok, and_false, false_or] at h ⊢
  obtain ⟨hsz, s1, ⟨h1, rfl⟩, bh, hr', s2, ⟨h2, rfl⟩, crc, r2, s3, ⟨h3, rfl⟩, hcrc, tmpbuf, r3, s4,
    ⟨h4, rfl⟩, h5⟩ := h
  have h4' : readBlockFilters bh r2 = .ok (tmpbuf, r3) := h4
  have h5' : (match bh.unpackedSize with
      | some e => if tmpbuf.length ≠ e then throwM .xz else readBlockTail start r3 tmpbuf check
      | none => readBlockTail start r3 tmpbuf check) s4 = (s', .ok (rec, r)) := h5
  clear h4 h5
  have hn : hsz ≤ rd.rem.length := by
    obtain ⟨_, _, _, _, _, -, k2, -⟩ := readBlockHeader_ok h2
    obtain ⟨cb, c1, c2, -, -⟩ := Rd.readU32LE_ok.mp h3
    have := congrArg List.length c1
    simp only [Rd.unsplit, Rd.split, k2, List.nil_append, List.length_drop, List.length_append,
      c2] at this
    omega
  refine ⟨hsz, _, ⟨h1, rfl⟩, bh, hr', _, ⟨by rw [Rd.split_app_fst t hn]; exact h2, rfl⟩, crc,
    r2.app t, _, ⟨?_, rfl⟩, by rw [Rd.split_app_fst t hn]; exact hcrc, tmpbuf, r3.app t, _,
    ⟨readBlockFilters_app t h4', rfl⟩, ?_⟩
  · rw [Rd.split_app_snd t hn, Rd.unsplit_app]
    exact Rd.readU32LE_app t h3
  · show (match bh.unpackedSize with
      | some e => if tmpbuf.length ≠ e then throwM .xz
          else readBlockTail (start + t.length) (r3.app t) tmpbuf check
      | none => readBlockTail (start + t.length) (r3.app t) tmpbuf check) s4 =
        (s', .ok (rec, r.app t))
    cases hu : bh.unpackedSize with
    | none =>
      rw [hu] at h5'
      exact readBlockTail_app t h5'
    | some e =>
      rw [hu] at h5'
      simp only [mIte_eq, throwM_ne_ok, and_false, false_or] at h5' ⊢
      exact ⟨h5'.1, readBlockTail_app t h5'.2⟩

theorem blockLoop_app (t : Bytes) (check : CheckMethod) : ∀ (fuel fuel' : Nat), fuel ≤ fuel' →
    ∀ (records : List Record) (rd : Rd) {s s' : Sink} {isz : Nat} {r : Rd},
    blockLoop check fuel records rd s = (s', .ok (isz, r)) →
    blockLoop check fuel' records (rd.app t) s = (s', .ok (isz, r.app t))
  | 0, _, _, _, _, _, _, _, _, h => by simp [blockLoop] at h
  | fuel+1, 0, hle, _, _, _, _, _, _, _ => by omega
  | fuel+1, fuel'+1, hle, records, rd, s, s', isz, r, h => by
    simp only [blockLoop, mBind_eq_ok, liftE_eq_ok, Prod.exists, mPure_eq_ok, mIte_eq,
      Prod.mk.injEq] at h ⊢
    obtain ⟨hs, r1, s1, ⟨e1, rfl⟩, h⟩ := h
    refine ⟨hs, _, _, ⟨Rd.readU8_app t e1, rfl⟩, ?_⟩
    have hlen : (rd.app t).rem.length = rd.rem.length + t.length := by simp
    rw [hlen]
    rcases h with ⟨h0, r2, s2, ⟨hci, rfl⟩, ⟨rfl, rfl⟩, rfl⟩ | ⟨hne, rec, r2, s2, hrb, h⟩
    · refine Or.inl ⟨h0, r2.app t, _, ⟨checkIndex_app t hci, rfl⟩, ⟨?_, rfl⟩, rfl⟩
      simp; omega
    · exact Or.inr ⟨hne, rec, r2.app t, s2, readBlock_app t hrb,
        blockLoop_app t check fuel fuel' (by omega) _ _ h⟩

/-- **Prefix determinism.** If `x` decodes successfully then `x ++ t` (`t ≠ []`) is rejected:
the decoder never accepts trailing data (second stream, stream padding, garbage). -/
theorem xzDecompress_trailing {x t : Bytes} {s s' : Sink} {rd' : Rd} (ht : t ≠ [])
    (h : xzDecompress (Rd.ofBytes x) s = (s', .ok rd')) :
    xzDecompress (Rd.ofBytes (x ++ t)) s = (s', .error .xz) := by
  have h0 := h
  simp only [xzDecompress, mBind_eq_ok, liftE_eq_ok, Prod.exists, mPure_eq_ok, mIte_eq,
    throwM_bind, throwM_ne_ok, and_false, false_or] at h
  obtain ⟨check, r1, s1, ⟨hh, rfl⟩, hsha, isz, r2, s2, hbl, crc, r3, s3, ⟨c1, rfl⟩,
    bsz, r4, s4, ⟨d1, rfl⟩, hbs, fl, r5, s5, ⟨e1, rfl⟩, check', s6,
    ⟨hfl, rfl⟩, hceq, hcrc, ok, r6, s7, ⟨m1, rfl⟩, hmg, eof, s8, ⟨heof, rfl⟩,
    heof', rfl, rfl⟩ := h
  have f1 : parseStreamHeader (Rd.ofBytes (x ++ t)) = .ok (check, r1.app t) :=
    parseStreamHeader_app t hh
  have f2 := blockLoop_app t check _ ((r1.app t).rem.length + 1) (by simp) _ _ hbl
  have f3 := Rd.readU32LE_app t c1
  have f4 := Rd.readExact_app t d1
  have f5 := Rd.readExact_app t e1
  have f6 := Rd.readTag_app t m1
  have hok : ok = true := by simpa using hmg
  have hr6 : r6.rem = [] := by
    have : eof = true := by simpa using heof'
    subst this
    simp only [Rd.isEof] at heof
    revert heof
    cases r6.rem <;> simp
  have f7 : (r6.app t).isEof = .ok false := by
    simp only [Rd.isEof, Rd.app_rem, hr6, List.nil_append]
    cases t with
    | nil => exact absurd rfl ht
    | cons a b => rfl
  simp only [ne_eq, Decidable.not_not] at hbs hceq hcrc
  subst hceq hbs hcrc hok
  simp only [xzDecompress, bind_run, f1, liftE_ok, hsha, if_false, f2, f3, f4, f5, f6, f7, hfl,
    ne_eq, not_true_eq_false, Bool.not_true, Bool.false_eq_true,
    Bool.not_false, if_true, throwM_run]

/-! ## Facts that need no assumption on the sink -/

theorem xzDecompress_ok_hdr_eof {x : Bytes} {s s' : Sink} {rd' : Rd}
    (h : xzDecompress (Rd.ofBytes x) s = (s', .ok rd')) :
    (∃ check r1, parseStreamHeader (Rd.ofBytes x) = .ok (check, r1) ∧ check ≠ .sha256) ∧
      rd'.rem = [] := by
  simp only [xzDecompress, mBind_eq_ok, liftE_eq_ok, Prod.exists, mPure_eq_ok, mIte_eq,
    throwM_bind, throwM_ne_ok, and_false, false_or] at h
  obtain ⟨check, r1, s1, ⟨hh, rfl⟩, hsha, isz, r2, s2, hbl, crc, r3, s3, ⟨c1, rfl⟩,
    bsz, r4, s4, ⟨d1, rfl⟩, hbs, fl, r5, s5, ⟨e1, rfl⟩, check', s6,
    ⟨hfl, rfl⟩, hceq, hcrc, ok, r6, s7, ⟨m1, rfl⟩, hmg, eof, s8, ⟨heof, rfl⟩,
    heof', rfl, rfl⟩ := h
  refine ⟨⟨check, r1, hh, hsha⟩, ?_⟩
  have : eof = true := by simpa using heof'
  subst this
  simp only [Rd.isEof] at heof
  revert heof
  cases r6.rem <;> simp

/-- the stream flags of a file: bytes 6 and 7 -/
def streamFlags (x : Bytes) : Bytes := (x.drop 6).take 2

theorem streamFlags_of_header {x rest : Bytes} {a b : UInt8} {crc : Bytes}
    (h : x = XZ_MAGIC ++ [a, b] ++ crc ++ rest) : streamFlags x = [a, b] := by
  subst h; simp [streamFlags, XZ_MAGIC]

/-- a file whose stream flags are not `[0, id]` with a supported `id` is refused before anything
is written (any sink, any script) -/
theorem xzDecompress_bad_flags (x : Bytes) (s : Sink)
    (hbad : ¬ ∃ id : UInt8, (id = 0x00 ∨ id = 0x01 ∨ id = 0x04) ∧ streamFlags x = [0, id]) :
    ∃ e, xzDecompress (Rd.ofBytes x) s = (s, .error e) := by
  unfold xzDecompress
  rw [bind_run]
  cases hh : parseStreamHeader (Rd.ofBytes x) with
  | error e => exact ⟨e, by simp⟩
  | ok v =>
    obtain ⟨check, r1⟩ := v
    obtain ⟨p1, -, -⟩ := parseStreamHeader_ok hh
    have hx : x = (Rd.ofBytes x).rem := rfl
    rw [← hx] at p1
    have hf := streamFlags_of_header p1
    cases check with
    | sha256 => exact ⟨.xz, by simp⟩
    | none => exact absurd ⟨_, .inl rfl, hf⟩ hbad
    | crc32 => exact absurd ⟨_, .inr (.inl rfl), hf⟩ hbad
    | crc64 => exact absurd ⟨_, .inr (.inr rfl), hf⟩ hbad

theorem MbEnc.unique {bs : Bytes} {v w : Nat} (h1 : MbEnc bs v) (h2 : MbEnc bs w) : v = w := by
  induction h1 generalizing w with
  | last b hb =>
    cases h2 with
    | last _ _ => rfl
    | more _ _ _ hb' _ => omega
  | more b r v hb hr ih =>
    cases h2 with
    | last _ hb' => omega
    | more _ _ w' _ hr' => rw [ih hr']

/-- a filter id other than 0x21 (LZMA2) is refused -/
theorem readFilters_rejects_id {n hs : Nat} {acc : List Filter} {rd r : Rd} {id : Nat} {bs : Bytes}
    (h : getMultibyte rd = .ok (id, bs, r)) (hid : id ≠ 0x21) :
    readFilters (n + 1) hs acc rd = .error .xz := by
  simp [readFilters, h, bind, Except.bind, hid]
  rfl

/-- reserved block-flag bits are refused -/
theorem readBlockHeader_rejects_reserved {rd r : Rd} {hs : Nat} {flags : UInt8}
    (h : rd.readU8 = .ok (flags, r)) (hres : flags.toNat &&& 0x3C ≠ 0) :
    readBlockHeader rd hs = .error .xz := by
  simp [readBlockHeader, h, bind, Except.bind, hres]
  rfl

/-! ## The error path: what the sink holds when an error is reported (perfect sink) -/

theorem mBind_eq_error {m : M α} {f : α → M β} {s s' : Sink} {e : Err} :
    (m >>= f) s = (s', .error e) ↔
      m s = (s', .error e) ∨ ∃ a s1, m s = (s1, .ok a) ∧ f a s1 = (s', .error e) := by
  rw [bind_run]
  rcases hm : m s with ⟨s1, e1 | a⟩
  · simp
  · constructor
    · intro h; exact .inr ⟨a, s1, rfl, h⟩
    · rintro (h | ⟨a', s1', h1, h⟩)
      · cases h
      · cases h1; exact h

theorem liftE_eq_error {x : Except Err α} {s s' : Sink} {e : Err} :
    (liftE x : M α) s = (s', .error e) ↔ x = .error e ∧ s' = s := by
  cases x <;> simp [eq_comm, and_comm]

theorem throwM_eq_error {e e' : Err} {s s' : Sink} :
    ((throwM e : M α) s = (s', .error e')) ↔ e = e' ∧ s' = s := by
  simp [eq_comm, and_comm]

theorem mPure_ne_error {a : α} {s s' : Sink} {e : Err} :
    ((pure a : M α) s = (s', .error e)) ↔ False := by simp

theorem writeAll_perfect_ok {bs : Array UInt8} {s : Sink} (hs : s.script = []) :
    ∃ s1, writeAll bs s = (s1, .ok ()) ∧ s1.script = [] := by
  unfold writeAll
  split
  · exact ⟨s, rfl, hs⟩
  · simp [hs]

theorem readBlockTail_error {start : Nat} {rd : Rd} {tmpbuf : Bytes} {check : CheckMethod}
    {s s' : Sink} {e : Err} (hs : s.script = []) (hstart : rd.rem.length ≤ start)
    (h : readBlockTail start rd tmpbuf check s = (s', .error e)) : s' = s := by
  simp only [readBlockTail, mBind_eq_error, liftE_eq_ok, liftE_eq_error, Prod.exists,
    mPure_ne_error] at h
  rcases h with ⟨-, h⟩ | ⟨zb, r1, s1, ⟨h1, rfl⟩, h⟩
  · exact h
  rcases h with ⟨-, h⟩ | ⟨r2, s2, ⟨h2, rfl⟩, h⟩
  · exact h
  obtain ⟨s3, hw, -⟩ := writeAll_perfect_ok (bs := tmpbuf.toArray) hs
  rw [hw] at h
  rcases h with h | ⟨u, s4, -, h⟩
  · cases h
  rcases h with ⟨h4, -⟩ | ⟨_, _, _, hf⟩
  · exfalso
    obtain ⟨-, z1, -⟩ := readZeroBytes_ok _ _ _ h1
    obtain ⟨v1, -⟩ := validateBlockCheck_ok h2
    have l1 := congrArg List.length z1
    have l2 := congrArg List.length v1
    simp only [List.length_append, List.length_replicate] at l1 l2
    simp only [subChk] at h4
    split at h4
    · cases h4
    · omega
  · exact hf.elim

theorem readBlockFilters_len {bh : BlockHeader} {rd r : Rd} {out : Bytes}
    (h : readBlockFilters bh rd = .ok (out, r)) : r.rem.length ≤ rd.rem.length := by
  unfold readBlockFilters at h
  split at h
  · simp only [Except.pure_eq_ok, Prod.mk.injEq] at h
    rw [← h.2]; exact Nat.le_refl _
  · simp only [Except.bind_eq_ok', Prod.exists] at h
    obtain ⟨mid, r1, h1, h⟩ := h
    obtain ⟨p, p1, -⟩ := decodeFilter_suffix h1
    have hr : r = r1 := by
      split at h
      · simp only [Except.bind_eq_ok', Except.throw_bind', ite_eq_ok, reduceCtorEq,
          and_false, false_or, Except.pure_eq_ok, Prod.mk.injEq] at h
        obtain ⟨-, _, -, -, rfl⟩ := h; rfl
      · simp only [Except.bind_eq_ok', Except.pure_eq_ok, Prod.mk.injEq] at h
        obtain ⟨_, -, -, rfl⟩ := h; rfl
    rw [hr, p1]; simp

/-- the part of `readBlock` before the size comparison is sink-pure: an error there leaves the
sink alone; its success gives a reader that is a suffix of the input -/
theorem readBlock_error {start : Nat} {rd : Rd} {check : CheckMethod} {hs : UInt8} {s s' : Sink}
    {e : Err} (hscr : s.script = []) (hstart : rd.rem.length ≤ start)
    (h : readBlock start rd check hs s = (s', .error e)) : s' = s := by
  simp only [readBlock, mBind_eq_error, liftE_eq_ok, liftE_eq_error, Prod.exists,
    mIte_eq, throwM_bind, throwM_eq_error] at h
  rcases h with ⟨-, h⟩ | ⟨hsz, s1, ⟨h1, rfl⟩, h⟩
  · exact h
  rcases h with ⟨-, h⟩ | ⟨bh, hr', s2, ⟨h2, rfl⟩, h⟩
  · exact h
  rcases h with ⟨-, h⟩ | ⟨crc, r2, s3, ⟨h3, rfl⟩, h⟩
  · exact h
  rcases h with ⟨-, -, h⟩ | ⟨-, h⟩
  · exact h
  rcases h with ⟨-, h⟩ | ⟨tmpbuf, r3, s4, ⟨h4, rfl⟩, h5⟩
  · exact h
  have h4' : readBlockFilters bh r2 = .ok (tmpbuf, r3) := h4
  have h5' : (match bh.unpackedSize with
      | some e => if tmpbuf.length ≠ e then throwM .xz else readBlockTail start r3 tmpbuf check
      | none => readBlockTail start r3 tmpbuf check) s4 = (s', .error e) := h5
  clear h4 h5
  have hlen : r3.rem.length ≤ start := by
    obtain ⟨cb, c1, -, -, -⟩ := Rd.readU32LE_ok.mp h3
    obtain ⟨_, _, _, _, _, -, k2, -⟩ := readBlockHeader_ok h2
    have l1 := congrArg List.length c1
    simp only [Rd.unsplit, Rd.split, k2, List.nil_append, List.length_append,
      List.length_drop] at l1
    have l2 := readBlockFilters_len h4'
    omega
  cases hu : bh.unpackedSize with
  | none =>
    rw [hu] at h5'
    exact readBlockTail_error hscr hlen h5'
  | some v =>
    rw [hu] at h5'
    simp only [mIte_eq, throwM_eq_error] at h5'
    rcases h5' with ⟨-, -, h⟩ | ⟨-, h⟩
    · exact h
    · exact readBlockTail_error hscr hlen h

theorem readBlock_ok_script {start : Nat} {rd r : Rd} {check : CheckMethod} {hs : UInt8}
    {s s' : Sink} {rec : Record} (hscr : s.script = [])
    (h : readBlock start rd check hs s = (s', .ok (rec, r))) : s'.script = [] := by
  simp only [readBlock, mBind_eq_ok, liftE_eq_ok, Prod.exists,
    mIte_eq, throwM_bind, throwM_ne_ok, and_false, false_or] at h
  obtain ⟨hsz, s1, ⟨h1, rfl⟩, bh, hr', s2, ⟨h2, rfl⟩, crc, r2, s3, ⟨h3, rfl⟩, hcrc, tmpbuf, r3, s4,
    ⟨h4, rfl⟩, h5⟩ := h
  have h5' : (match bh.unpackedSize with
      | some e => if tmpbuf.length ≠ e then throwM .xz else readBlockTail start r3 tmpbuf check
      | none => readBlockTail start r3 tmpbuf check) s4 = (s', .ok (rec, r)) := h5
  have h5'' : readBlockTail start r3 tmpbuf check s4 = (s', .ok (rec, r)) := by
    cases hu : bh.unpackedSize with
    | none => rw [hu] at h5'; exact h5'
    | some e =>
      rw [hu] at h5'
      simp only [mIte_eq, throwM_ne_ok, and_false, false_or] at h5'
      exact h5'.2
  simp only [readBlockTail, mBind_eq_ok, liftE_eq_ok, Prod.exists,
    mPure_eq_ok, Prod.mk.injEq] at h5''
  obtain ⟨zb, r1, s1, ⟨-, rfl⟩, r2, s2, ⟨-, rfl⟩, u, s3, hw, unp, s4, ⟨-, rfl⟩, -, rfl⟩ := h5''
  obtain ⟨s5, hw', hs5⟩ := writeAll_perfect_ok (bs := tmpbuf.toArray) hscr
  rw [hw'] at hw
  cases hw
  exact hs5

/-- **Error path (perfect sink).**  When the block loop fails, the sink holds exactly the
contents of the blocks that were completely validated before the failure. -/
theorem blockLoop_error (check : CheckMethod) : ∀ (fuel : Nat) (records : List Record) (rd : Rd)
    {s s' : Sink} {e : Err}, rd.bad = false → s.script = [] →
    blockLoop check fuel records rd s = (s', .error e) →
    ∃ (blocks : List XzBlock) (tail : Bytes),
      rd.rem = blocks.flatMap (·.bytes) ++ tail ∧ BlocksValid check blocks tail ∧
      s'.out = s.out ++ (blocks.flatMap (·.out)).toArray
  | 0, _, rd, s, s', e, _, _, h => by
    simp only [blockLoop, throwM_eq_error] at h
    exact ⟨[], rd.rem, by simp, trivial, by simp [h.2]⟩
  | fuel+1, records, rd, s, s', e, hbad, hscr, h => by
    have nil : ∀ {s'' : Sink}, s'' = s → ∃ (blocks : List XzBlock) (tail : Bytes),
        rd.rem = blocks.flatMap (·.bytes) ++ tail ∧ BlocksValid check blocks tail ∧
        s''.out = s.out ++ (blocks.flatMap (·.out)).toArray := by
      rintro _ rfl
      exact ⟨[], rd.rem, by simp, trivial, by simp⟩
    simp only [blockLoop, mBind_eq_error, liftE_eq_ok, liftE_eq_error, Prod.exists,
      mPure_ne_error, mIte_eq, Rd.readU8_ok] at h
    rcases h with ⟨-, h⟩ | ⟨hs, r1, s1, ⟨⟨e1, e2⟩, rfl⟩, h⟩
    · exact nil h
    rcases h with ⟨-, h⟩ | ⟨hne, h⟩
    · rcases h with ⟨-, h⟩ | ⟨_, _, _, hf⟩
      · exact nil h
      · exact hf.elim
    have hst : rd.rem.length = r1.rem.length + 1 := by rw [e1]; simp
    have hb1 : r1.bad = false := by rw [e2, hbad]
    rcases h with h | ⟨rec, r2, s2, hrb, h⟩
    · exact nil (readBlock_error hscr (by omega) h)
    · obtain ⟨blk, b1, b2, b3, b4, b5, b7⟩ := readBlock_ok hst hb1 hne hrb
      have hscr2 := readBlock_ok_script hscr hrb
      obtain ⟨blocks, tail, g1, g2, g3⟩ := blockLoop_error check fuel _ _ b7 hscr2 h
      refine ⟨blk :: blocks, tail, ?_, ⟨?_, g2⟩, ?_⟩
      · rw [e1, b2, g1]; simp
      · rw [g1] at b3; simpa using b3
      · rw [g3, b5]; simp

/-- **Error path of `xz_decompress` (perfect sink).**  If an error is reported, either nothing was
written (the stream header was refused), or the header was valid and the sink holds exactly the
contents of the blocks `blocks` — a prefix of the file's block sequence, each fully validated
(`BlocksValid`) — that precede the point of failure. -/
theorem xzDecompress_error {x : Bytes} {s s' : Sink} {e : Err} (hs : s.script = [])
    (h : xzDecompress (Rd.ofBytes x) s = (s', .error e)) :
    s' = s ∨ ∃ (check : CheckMethod) (blocks : List XzBlock) (tail : Bytes),
      x = XZ_MAGIC ++ [0, UInt8.ofNat check.id] ++ leBytes 4 (crc32 [0, UInt8.ofNat check.id]) ++
        blocks.flatMap (·.bytes) ++ tail ∧
      (check = .none ∨ check = .crc32 ∨ check = .crc64) ∧
      BlocksValid check blocks tail ∧
      s'.out = s.out ++ (blocks.flatMap (·.out)).toArray := by
  simp only [xzDecompress, mBind_eq_error, liftE_eq_ok, liftE_eq_error, Prod.exists,
    mPure_ne_error, mIte_eq, throwM_bind, throwM_eq_error] at h
  rcases h with ⟨-, h⟩ | ⟨check, r1, s1, ⟨hh, rfl⟩, h⟩
  · exact .inl h
  rcases h with ⟨-, -, h⟩ | ⟨hsha, h⟩
  · exact .inl h
  obtain ⟨p1, p2, -⟩ := parseStreamHeader_ok hh
  have hb1 : r1.bad = false := by rw [p2]; rfl
  have hx : (Rd.ofBytes x).rem = x := rfl
  rw [hx] at p1
  have hsup : check = .none ∨ check = .crc32 ∨ check = .crc64 := by
    revert hsha; cases check <;> simp
  right
  rcases h with h | ⟨isz, r2, s2, hbl, h⟩
  · obtain ⟨blocks, tail, g1, g2, g3⟩ := blockLoop_error check _ _ _ hb1 hs h
    exact ⟨check, blocks, tail, by rw [p1, g1]; simp, hsup, g2, g3⟩
  · obtain ⟨blocks, idx, g1, g2, g3, g4, g5, g7⟩ := blockLoop_ok check _ _ _ hb1 hbl
    refine ⟨check, blocks, idx.bytes ++ r2.rem, by rw [p1, g1]; simp, hsup, g2, ?_⟩
    have hs' : s' = s2 := by
      clear hbl g1 g2 g3 g4 g5 g7 hsup hx hb1 p1 p2 hsha hh
      grind
    rw [hs', g5]

end Lzma
