/-
  Symbol layer, part 2: arithmetic of position slots and the round trip of
  `decode_distance`, then the whole `symTree`.
-/
import LzmaProofs.Lemmas.SymLayer
namespace Lzma

/-! ## position slots -/

theorem posSlotOf_small (d : Nat) (h : d < 4) : posSlotOf d = d := by
  simp [posSlotOf, h]

/-- for `d ≥ 4`: with `m = bitLen d - 2` and `bit` = bit `m` of `d`,
`slot = 2(m+1) + bit` and `d ∈ [(2+bit)·2^m, (2+bit)·2^m + 2^m)`. -/
theorem posSlot_facts (d : Nat) (h4 : 4 ≤ d) :
    ∃ m bit, 1 ≤ m ∧ bit ≤ 1 ∧ bitLen d = m + 2 ∧ bit = d / 2 ^ m % 2 ∧
      posSlotOf d = 2 * (m + 1) + bit ∧
      (2 + bit) * 2 ^ m ≤ d ∧ d < (2 + bit) * 2 ^ m + 2 ^ m ∧ (d < 2 ^ 32 → m ≤ 30) := by
  have hd0 : d ≠ 0 := by omega
  have hL2 : 2 ≤ Nat.log2 d := (Nat.le_log2 hd0).2 (by simpa using h4)
  obtain ⟨m, hm⟩ : ∃ m, Nat.log2 d = m + 1 := ⟨Nat.log2 d - 1, by omega⟩
  have hlo : 2 ^ (m + 1) ≤ d := hm ▸ Nat.log2_self_le hd0
  have hhi : d < 2 ^ (m + 2) := by have := Nat.lt_log2_self (n := d); rwa [hm] at this
  have hP : 0 < 2 ^ m := Nat.pow_pos (by decide)
  have hq2 : 2 ≤ d / 2 ^ m := by
    rw [Nat.le_div_iff_mul_le hP]; rw [Nat.pow_succ] at hlo; omega
  have hq4 : d / 2 ^ m < 4 := by
    rw [Nat.div_lt_iff_lt_mul hP]; rw [Nat.pow_succ, Nat.pow_succ] at hhi; omega
  have hdm := Nat.div_add_mod d (2 ^ m)
  have hmod := Nat.mod_lt d hP
  refine ⟨m, d / 2 ^ m % 2, by omega, by omega, ?_, rfl, ?_, ?_, ?_, ?_⟩
  · simp [bitLen, hd0, hm]
  · have hnot : ¬ d < 4 := by omega
    simp only [posSlotOf, hnot, if_false, bitLen, hd0, hm]
    rw [shr_and_one]
    have e1 : m + 1 + 1 - 1 = m + 1 := by omega
    have e2 : m + 1 + 1 - 2 = m := by omega
    rw [e1, e2]
  · have : 2 + d / 2 ^ m % 2 = d / 2 ^ m := by omega
    rw [this, Nat.mul_comm]; omega
  · have : 2 + d / 2 ^ m % 2 = d / 2 ^ m := by omega
    rw [this, Nat.mul_comm]; omega
  · intro h32
    have : Nat.log2 d < 32 := (Nat.log2_lt hd0).2 h32
    omega

theorem bitLen_bounds (d : Nat) (h : d ≠ 0) : 2 ^ (bitLen d - 1) ≤ d ∧ d < 2 ^ bitLen d := by
  simp only [bitLen, h, if_false, Nat.add_sub_cancel]
  exact ⟨Nat.log2_self_le h, Nat.lt_log2_self⟩

theorem posSlotOf_lt_64 (d : Nat) (hd : d < 2 ^ 32) : posSlotOf d < 64 := by
  by_cases h : d < 4
  · rw [posSlotOf_small d h]; omega
  · obtain ⟨m, bit, _, hb, _, _, hs, _, _, hm⟩ := posSlot_facts d (by omega)
    have := hm hd; omega

theorem posSlotOf_ge_4 (d : Nat) (h4 : 4 ≤ d) : 4 ≤ posSlotOf d := by
  obtain ⟨m, bit, hm1, _, _, _, hs, _, _, _⟩ := posSlot_facts d h4
  omega

theorem xor_two_bit (bit : Nat) (hb : bit ≤ 1) : 2 ^^^ bit = 2 + bit := by
  have : bit = 0 ∨ bit = 1 := by omega
  rcases this with h | h <;> subst h <;> rfl

/-- decoder-side quantities of a slot `≥ 4` -/
theorem slot_decomp (m bit : Nat) (hb : bit ≤ 1) :
    ((2 * (m + 1) + bit) >>> 1) - 1 = m ∧
    (2 ^^^ ((2 * (m + 1) + bit) &&& 1)) <<< m = (2 + bit) * 2 ^ m := by
  have h1 : (2 * (m + 1) + bit) >>> 1 = m + 1 := by
    rw [Nat.shiftRight_eq_div_pow]; omega
  have h2 : (2 * (m + 1) + bit) &&& 1 = bit := by
    rw [Nat.and_one_is_mod]; omega
  rw [h1, h2, xor_two_bit bit hb, Nat.shiftLeft_eq]
  exact ⟨by omega, rfl⟩

/-- for slots 4..13 the offset `base - slot` never underflows -/
theorem slot_le_base (m bit : Nat) (hm : 1 ≤ m) (hb : bit ≤ 1) :
    2 * (m + 1) + bit ≤ (2 + bit) * 2 ^ m := by
  have h : m + 1 ≤ 2 ^ m := Nat.succ_le_of_lt (Nat.lt_pow_self (by decide))
  have h2 : 2 ≤ 2 ^ m := by
    calc 2 = 2 ^ 1 := rfl
      _ ≤ 2 ^ m := Nat.pow_le_pow_right (by decide) hm
  have : bit = 0 ∨ bit = 1 := by omega
  rcases this with h | h <;> subst h <;> omega

/-! ## `decode_distance` -/

theorem distTree_roundtrip (l d : Nat) (hd : d < 2 ^ 32) (rest : List Ev) :
    runEv (distTree l) (distEv l d ++ rest) = some (d, rest) := by
  unfold distTree distEv
  simp only []
  rw [List.append_assoc,
    runEv_bind_of_eq (bitTree_roundtrip _ 6 (posSlotOf d) (by simpa using posSlotOf_lt_64 d hd) _)]
  by_cases h4 : d < 4
  · rw [posSlotOf_small d h4]; simp [h4]
  · obtain ⟨m, bit, hm1, hb, _, _, hs, hlo, hhi, hm⟩ := posSlot_facts d (by omega)
    have hm30 := hm hd
    obtain ⟨hnd, hbase⟩ := slot_decomp m bit hb
    have hnot : ¬ (2 * (m + 1) + bit < 4) := by omega
    rw [hs]
    simp only [hnot, if_false, hnd, hbase]
    generalize hB : (2 + bit) * 2 ^ m = base at *
    have hr : d - base < 2 ^ m := by omega
    by_cases h14 : 2 * (m + 1) + bit < 14
    · have hle : 2 * (m + 1) + bit ≤ base := hB ▸ slot_le_base m bit hm1 hb
      simp only [h14, if_true, subChk, hle]
      rw [runEv_map_of_eq (revBitTree_roundtrip _ _ m (d - base) hr rest)]
      congr 2; omega
    · have hm4 : 4 ≤ m := by omega
      obtain ⟨k, rfl⟩ : ∃ k, m = k + 4 := ⟨m - 4, by omega⟩
      simp only [h14, if_false, Nat.add_sub_cancel, List.append_assoc]
      have hr4 : (d - base) >>> 4 < 2 ^ k := by
        rw [Nat.shiftRight_eq_div_pow, Nat.div_lt_iff_lt_mul (by decide)]
        rw [Nat.pow_add] at hr; exact hr
      rw [runEv_bind_of_eq (directBits_roundtrip k _ hr4 _)]
      have ha : (d - base) &&& 0xF < 2 ^ 4 := by
        have : (15 : Nat) = 2 ^ 4 - 1 := rfl
        rw [this, Nat.and_two_pow_sub_one_eq_mod]; exact Nat.mod_lt _ (by decide)
      rw [runEv_map_of_eq (revBitTree_roundtrip _ 0 4 _ ha rest)]
      congr 2
      have : (15 : Nat) = 2 ^ 4 - 1 := rfl
      rw [this, Nat.and_two_pow_sub_one_eq_mod, Nat.shiftRight_eq_div_pow, Nat.shiftLeft_eq]
      have := Nat.div_add_mod (d - base) (2 ^ 4)
      omega

/-! ## one symbol -/

/-- well-formed raw symbols: what a conforming encoder may emit -/
def RawSym.WF : RawSym → Prop
  | .lit b => b < 256
  | .shortRep => True
  | .rep idx l => idx ≤ 3 ∧ l < 272
  | .mtch l d => l < 272 ∧ d < 2 ^ 32

instance : DecidablePred RawSym.WF := fun s => by
  cases s <;> simp only [RawSym.WF] <;> infer_instance

/-- decoder and encoder contexts agree (the match byte only matters for a
literal in a state `≥ 7`) -/
structure CtxMatch (c : Ctx) (e : ECtx) (s : RawSym) : Prop where
  state : c.state = e.state
  posState : c.posState = e.posState
  litRow : (∃ b, s = .lit b) → c.litRow = .ok e.litRow
  matchByte : (∃ b, s = .lit b) → e.state ≥ 7 → c.matchByte = .ok e.matchByte

theorem sym_roundtrip_lemma (c : Ctx) (e : ECtx) (s : RawSym) (hc : CtxMatch c e s) (hs : s.WF)
    (rest : List Ev) : runEv (symTree c) (rawSymEvents e s ++ rest) = some (s, rest) := by
  obtain ⟨hst, hps, hrow, hmb⟩ := hc
  unfold symTree
  rw [hst, hps]
  cases s with
  | lit b =>
    have hb : b < 256 := hs
    have hrow := hrow ⟨b, rfl⟩
    simp only [rawSymEvents, List.cons_append, runEv_bit_cons, Bool.not_false, if_true, hrow]
    by_cases h7 : e.state ≥ 7
    · have hmb := hmb ⟨b, rfl⟩ h7
      simp only [h7, if_true, hmb]
      rw [runEv_bind_of_eq (litMatched_roundtrip _ b _ hb rest)]
      simp [subChk, Nat.mod_eq_of_lt hb]
    · simp only [h7, if_false]
      rw [runEv_bind_of_eq (litPlain_roundtrip _ b hb rest)]
      simp [subChk, Nat.mod_eq_of_lt hb]
  | shortRep =>
    simp [rawSymEvents]
  | rep idx l =>
    obtain ⟨hidx, hl⟩ : idx ≤ 3 ∧ l < 272 := hs
    have : idx = 0 ∨ idx = 1 ∨ idx = 2 ∨ idx = 3 := by omega
    rcases this with h | h | h | h <;> subst h <;>
      simp [rawSymEvents, runEv_map_of_eq (lenTree_roundtrip true e.posState l hl rest)]
  | mtch l d =>
    obtain ⟨hl, hd⟩ : l < 272 ∧ d < 2 ^ 32 := hs
    simp only [rawSymEvents, List.cons_append, List.nil_append, runEv_bit_cons, Bool.not_true,
      Bool.false_eq_true, if_false, List.append_assoc]
    rw [runEv_bind_of_eq (lenTree_roundtrip false e.posState l hl _),
      runEv_map_of_eq (distTree_roundtrip l d hd rest)]

end Lzma
