/-
  C07 — layer 2: probability tables (`ProbsInv`), index validity, `TreeSafe`,
  and `runDec_safe`.
-/
import LzmaProofs.Lemmas.SafetyRC
namespace Lzma
namespace Safety

/-! ## probability tables -/

/-- an array of `n` probabilities -/
def ArrOk (n : Nat) (a : Array Nat) : Prop := a.size = n ∧ ∀ i (h : i < a.size), PVal a[i]

theorem ArrOk_replicate (n : Nat) : ArrOk n (Array.replicate n 0x400) := by
  refine ⟨by simp, ?_⟩
  intro i h
  simp only [Array.getElem_replicate]
  exact PVal_init

theorem ArrOk.set {n : Nat} {a : Array Nat} (h : ArrOk n a) {v : Nat} (hv : PVal v) (i : Nat) :
    ArrOk n (a.setIfInBounds i v) := by
  refine ⟨by simpa using h.1, ?_⟩
  intro j hj
  rw [Array.getElem_setIfInBounds]
  split
  · exact hv
  · exact h.2 j (by simpa using hj)

theorem ArrOk.get {n : Nat} {a : Array Nat} (h : ArrOk n a) {i : Nat} (hi : i < n) :
    ∃ v, arrGet a i = .ok v ∧ PVal v := by
  have hi' : i < a.size := by rw [h.1]; exact hi
  refine ⟨a[i], ?_, h.2 i hi'⟩
  simp [arrGet, hi']

structure LenOk (l : LenProbs) : Prop where
  choice : PVal l.choice
  choice2 : PVal l.choice2
  low : ArrOk 128 l.low
  mid : ArrOk 128 l.mid
  high : ArrOk 256 l.high

theorem LenOk_init : LenOk {} :=
  ⟨PVal_init, PVal_init, ArrOk_replicate _, ArrOk_replicate _, ArrOk_replicate _⟩

/-- every table has its allocated size and holds values in `[31, 2017]` -/
structure ProbsInv (p : Probs) : Prop where
  lit : ArrOk (p.litRows * 0x300) p.lit
  posSlot : ArrOk 256 p.posSlot
  align : ArrOk 16 p.align
  posDec : ArrOk 115 p.posDec
  isMatch : ArrOk 192 p.isMatch
  isRep : ArrOk 12 p.isRep
  isRepG0 : ArrOk 12 p.isRepG0
  isRepG1 : ArrOk 12 p.isRepG1
  isRepG2 : ArrOk 12 p.isRepG2
  isRep0Long : ArrOk 192 p.isRep0Long
  len : LenOk p.len
  repLen : LenOk p.repLen

theorem ProbsInv_init (rows : Nat) : ProbsInv (Probs.init rows) :=
  ⟨ArrOk_replicate _, ArrOk_replicate _, ArrOk_replicate _, ArrOk_replicate _, ArrOk_replicate _,
   ArrOk_replicate _, ArrOk_replicate _, ArrOk_replicate _, ArrOk_replicate _, ArrOk_replicate _,
   LenOk_init, LenOk_init⟩

/-- the tables `reset_state` builds -/
theorem ProbsInv_fresh (n rows : Nat) (h : n = rows * 0x300) :
    ProbsInv { lit := Array.replicate n 0x400, litRows := rows } := by
  subst h
  exact ProbsInv_init rows

/-- in-bounds addresses for a literal table of `R` rows -/
def IdxValid (R : Nat) : PIdx → Prop
  | .lit row col => row < R ∧ col < 0x300
  | .posSlot ls t => ls < 4 ∧ t < 64
  | .align t => t < 16
  | .posDec i => i < 115
  | .isMatch i => i < 192
  | .isRep i => i < 12
  | .isRepG0 i => i < 12
  | .isRepG1 i => i < 12
  | .isRepG2 i => i < 12
  | .isRep0Long i => i < 192
  | .lenChoice _ => True
  | .lenChoice2 _ => True
  | .lenLow _ ps t => ps < 16 ∧ t < 8
  | .lenMid _ ps t => ps < 16 ∧ t < 8
  | .lenHigh _ t => t < 256

theorem LenOk.get_low {l : LenProbs} (h : LenOk l) {r : Bool} {ps t : Nat} (h1 : ps < 16) (h2 : t < 8) :
    ∃ v, l.get (.lenLow r ps t) = .ok v ∧ PVal v := by
  simp only [LenProbs.get, h1, h2, and_self, if_true]
  exact h.low.get (by omega)

theorem LenOk.get_mid {l : LenProbs} (h : LenOk l) {r : Bool} {ps t : Nat} (h1 : ps < 16) (h2 : t < 8) :
    ∃ v, l.get (.lenMid r ps t) = .ok v ∧ PVal v := by
  simp only [LenProbs.get, h1, h2, and_self, if_true]
  exact h.mid.get (by omega)

theorem Probs.get_safe {p : Probs} (h : ProbsInv p) {i : PIdx} (hi : IdxValid p.litRows i) :
    ∃ v, p.get i = .ok v ∧ PVal v := by
  cases i with
  | lit row col =>
    obtain ⟨h1, h2⟩ := hi
    have hs := h.lit.1
    have : row * 0x300 + 0x300 ≤ p.lit.size := by
      rw [hs]
      have := Nat.mul_le_mul_right 0x300 (Nat.succ_le_of_lt h1)
      simp only [Nat.succ_mul] at this
      exact this
    simp only [Probs.get, this, h2, and_self, if_true]
    exact h.lit.get (by rw [← hs]; omega)
  | posSlot ls t =>
    obtain ⟨h1, h2⟩ := hi
    simp only [Probs.get, h1, h2, and_self, if_true]
    exact h.posSlot.get (by omega)
  | align t => exact h.align.get hi
  | posDec i => exact h.posDec.get hi
  | isMatch i => exact h.isMatch.get hi
  | isRep i => exact h.isRep.get hi
  | isRepG0 i => exact h.isRepG0.get hi
  | isRepG1 i => exact h.isRepG1.get hi
  | isRepG2 i => exact h.isRepG2.get hi
  | isRep0Long i => exact h.isRep0Long.get hi
  | lenChoice rep =>
    cases rep
    · exact ⟨_, rfl, h.len.choice⟩
    · exact ⟨_, rfl, h.repLen.choice⟩
  | lenChoice2 rep =>
    cases rep
    · exact ⟨_, rfl, h.len.choice2⟩
    · exact ⟨_, rfl, h.repLen.choice2⟩
  | lenLow rep ps t =>
    obtain ⟨h1, h2⟩ := hi
    cases rep
    · exact h.len.get_low (r := false) h1 h2
    · exact h.repLen.get_low (r := true) h1 h2
  | lenMid rep ps t =>
    obtain ⟨h1, h2⟩ := hi
    cases rep
    · exact h.len.get_mid (r := false) h1 h2
    · exact h.repLen.get_mid (r := true) h1 h2
  | lenHigh rep t =>
    cases rep
    · exact h.len.high.get hi
    · exact h.repLen.high.get hi

theorem LenOk.set {l : LenProbs} (h : LenOk l) {v : Nat} (hv : PVal v) (i : PIdx) : LenOk (l.set i v) := by
  cases i <;> simp only [LenProbs.set] <;> first
    | exact h
    | exact { h with choice := hv }
    | exact { h with choice2 := hv }
    | exact { h with low := h.low.set hv _ }
    | exact { h with mid := h.mid.set hv _ }
    | exact { h with high := h.high.set hv _ }

theorem Probs.setLen_inv {p : Probs} (h : ProbsInv p) {v : Nat} (hv : PVal v) (rep : Bool) (i : PIdx) :
    ProbsInv (p.setLen rep i v) ∧ (p.setLen rep i v).litRows = p.litRows := by
  cases rep
  · exact ⟨{ h with len := h.len.set hv i }, rfl⟩
  · exact ⟨{ h with repLen := h.repLen.set hv i }, rfl⟩

theorem Probs.set_inv {p : Probs} (h : ProbsInv p) {v : Nat} (hv : PVal v) (i : PIdx) :
    ProbsInv (p.set i v) ∧ (p.set i v).litRows = p.litRows := by
  cases i with
  | lit row col => exact ⟨{ h with lit := h.lit.set hv _ }, rfl⟩
  | posSlot ls t => exact ⟨{ h with posSlot := h.posSlot.set hv _ }, rfl⟩
  | align t => exact ⟨{ h with align := h.align.set hv _ }, rfl⟩
  | posDec i => exact ⟨{ h with posDec := h.posDec.set hv _ }, rfl⟩
  | isMatch i => exact ⟨{ h with isMatch := h.isMatch.set hv _ }, rfl⟩
  | isRep i => exact ⟨{ h with isRep := h.isRep.set hv _ }, rfl⟩
  | isRepG0 i => exact ⟨{ h with isRepG0 := h.isRepG0.set hv _ }, rfl⟩
  | isRepG1 i => exact ⟨{ h with isRepG1 := h.isRepG1.set hv _ }, rfl⟩
  | isRepG2 i => exact ⟨{ h with isRepG2 := h.isRepG2.set hv _ }, rfl⟩
  | isRep0Long i => exact ⟨{ h with isRep0Long := h.isRep0Long.set hv _ }, rfl⟩
  | lenChoice rep => exact Probs.setLen_inv h hv rep _
  | lenChoice2 rep => exact Probs.setLen_inv h hv rep _
  | lenLow rep ps t => exact Probs.setLen_inv h hv rep _
  | lenMid rep ps t => exact Probs.setLen_inv h hv rep _
  | lenHigh rep t => exact Probs.setLen_inv h hv rep _

/-! ## safe trees -/

/-- every probability index on every path of the tree is in bounds (for a literal
table of `R` rows), every `.fail` leaf carries an ordinary error, and every
returned value satisfies `Q` -/
def TreeSafe (R : Nat) (Q : α → Prop) : Coder PIdx α → Prop
  | .ret a => Q a
  | .fail e => bad e = false
  | .bit i k => IdxValid R i ∧ ∀ b, TreeSafe R Q (k b)
  | .direct k => ∀ b, TreeSafe R Q (k b)

theorem TreeSafe.mono {R : Nat} {Q Q' : α → Prop} {t : Coder PIdx α} (h : TreeSafe R Q t)
    (hq : ∀ a, Q a → Q' a) : TreeSafe R Q' t := by
  induction t with
  | ret a => exact hq a h
  | fail e => exact h
  | bit i k ih => exact ⟨h.1, fun b => ih b (h.2 b)⟩
  | direct k ih => exact fun b => ih b (h b)

theorem TreeSafe.bind {R : Nat} {Q : α → Prop} {Q' : β → Prop} {t : Coder PIdx α}
    {f : α → Coder PIdx β} (h : TreeSafe R Q t) (hf : ∀ a, Q a → TreeSafe R Q' (f a)) :
    TreeSafe R Q' (t.bind f) := by
  induction t with
  | ret a => exact hf a h
  | fail e => exact h
  | bit i k ih => exact ⟨h.1, fun b => ih b (h.2 b)⟩
  | direct k ih => exact fun b => ih b (h b)

theorem TreeSafe.map {R : Nat} {Q : α → Prop} {Q' : β → Prop} {t : Coder PIdx α}
    {f : α → β} (h : TreeSafe R Q t) (hf : ∀ a, Q a → Q' (f a)) :
    TreeSafe R Q' (t.map f) :=
  TreeSafe.bind h (fun a ha => hf a ha)

theorem TreeSafe_ofExcept {R : Nat} {Q : α → Prop} {x : Except Err α} (h : ESafe Q x) :
    TreeSafe R Q (Coder.ofExcept x : Coder PIdx α) := by
  cases x with
  | ok a => exact h
  | error e => exact h

/-! ## `runDec` on a safe tree -/

/-- The interpreter on a safe tree: never a bad error; on success all invariants
hold again, the reader did not grow and the measure did not increase. -/
theorem runDec_safe {α : Type} (u : Bool) {Q : α → Prop} (t : Coder PIdx α) :
    ∀ (p : Probs) (rc : RC) (rd : Rd), ProbsInv p → TreeSafe p.litRows Q t → RCInv rc →
    ESafe (fun x => Q x.1 ∧ ProbsInv x.2.1 ∧ x.2.1.litRows = p.litRows ∧ RCInv x.2.2.1 ∧
        x.2.2.2.rem.length ≤ rd.rem.length ∧ mu x.2.2.2 x.2.2.1 ≤ mu rd rc)
      (runDec u t p rc rd) := by
  induction t with
  | ret a => intro p rc rd hp ht hrc; exact ⟨ht, hp, rfl, hrc, Nat.le_refl _, Nat.le_refl _⟩
  | fail e => intro p rc rd hp ht hrc; exact ht
  | bit i k ih =>
    intro p rc rd hp ht hrc
    obtain ⟨v, hg, hv⟩ := Probs.get_safe hp ht.1
    have hg' : ProbStore.get p i = .ok v := hg
    simp only [runDec, hg']
    have hd := decodeBit_safe u v rc rd hv hrc
    cases hx : RC.decodeBit u v rc rd with
    | error e => rw [hx] at hd; exact hd
    | ok x =>
      obtain ⟨b, p', rc', rd'⟩ := x
      rw [hx] at hd
      obtain ⟨hpv, hrc', hlen, hmu⟩ := hd
      simp only
      have hset : ProbsInv (if u = true then ProbStore.set p i p' else p) ∧
          (if u = true then ProbStore.set p i p' else p).litRows = p.litRows := by
        split
        · exact Probs.set_inv hp hpv i
        · exact ⟨hp, rfl⟩
      have := ih b _ rc' rd' hset.1 (by rw [hset.2]; exact ht.2 b) hrc'
      refine this.mono ?_
      rintro ⟨a, p2, rc2, rd2⟩ ⟨h1, h2, h3, h4, h5, h6⟩
      exact ⟨h1, h2, by rw [h3, hset.2], h4, Nat.le_trans h5 hlen,
        Nat.le_trans h6 (Nat.le_of_lt hmu)⟩
  | direct k ih =>
    intro p rc rd hp ht hrc
    simp only [runDec]
    have hd := getBit_safe rc rd hrc
    cases hx : RC.getBit rc rd with
    | error e => rw [hx] at hd; exact hd
    | ok x =>
      obtain ⟨b, rc', rd'⟩ := x
      rw [hx] at hd
      obtain ⟨hrc', hlen, hmu⟩ := hd
      simp only
      have := ih b p rc' rd' hp (ht b) hrc'
      refine this.mono ?_
      rintro ⟨a, p2, rc2, rd2⟩ ⟨h1, h2, h3, h4, h5, h6⟩
      exact ⟨h1, h2, h3, h4, Nat.le_trans h5 hlen, Nat.le_trans h6 (Nat.le_of_lt hmu)⟩

/-- A tree that starts with a probability bit strictly decreases the measure. -/
theorem runDec_bit_lt {α : Type} (u : Bool) {Q : α → Prop} (i : PIdx) (k : Bool → Coder PIdx α)
    (p : Probs) (rc : RC) (rd : Rd) (hp : ProbsInv p) (ht : TreeSafe p.litRows Q (.bit i k))
    (hrc : RCInv rc) :
    ESafe (fun x => Q x.1 ∧ ProbsInv x.2.1 ∧ x.2.1.litRows = p.litRows ∧ RCInv x.2.2.1 ∧
        x.2.2.2.rem.length ≤ rd.rem.length ∧ mu x.2.2.2 x.2.2.1 < mu rd rc)
      (runDec u (.bit i k) p rc rd) := by
  obtain ⟨v, hg, hv⟩ := Probs.get_safe hp ht.1
  have hg' : ProbStore.get p i = .ok v := hg
  simp only [runDec, hg']
  have hd := decodeBit_safe u v rc rd hv hrc
  cases hx : RC.decodeBit u v rc rd with
  | error e => rw [hx] at hd; exact hd
  | ok x =>
    obtain ⟨b, p', rc', rd'⟩ := x
    rw [hx] at hd
    obtain ⟨hpv, hrc', hlen, hmu⟩ := hd
    simp only
    have hset : ProbsInv (if u = true then ProbStore.set p i p' else p) ∧
        (if u = true then ProbStore.set p i p' else p).litRows = p.litRows := by
      split
      · exact Probs.set_inv hp hpv i
      · exact ⟨hp, rfl⟩
    have := runDec_safe u (k b) _ rc' rd' hset.1 (by rw [hset.2]; exact ht.2 b) hrc'
    refine this.mono ?_
    rintro ⟨a, p2, rc2, rd2⟩ ⟨h1, h2, h3, h4, h5, h6⟩
    exact ⟨h1, h2, by rw [h3, hset.2], h4, Nat.le_trans h5 hlen, Nat.lt_of_le_of_lt h6 hmu⟩

end Safety
end Lzma
