/-
  C02/C14, history independence — helpers: a chunk list whose first LZMA chunk sets new
  properties (`StartsFresh`) is executed by ANY usable `Lzma2Decoder` object exactly as by the
  fresh one.  (`parse_uncompressed` never touches the coder state; `reset_state` with new
  properties re-creates every table and register; `set_unpacked_size` overwrites the size; the
  window is created per `decompress` call.)
-/
import LzmaProofs.Lemmas.Lzma2ExactRun
import LzmaProofs.Lemmas.Reset
namespace Lzma
namespace L2H
open DState L2 L2E

/-! ## the predicates on chunk lists -/

/-- the FIRST LZMA chunk (if there is one) sets new properties (reset class ≥ 2, which implies a
state reset).  Nothing is demanded of uncompressed chunks before it (lzma-rs creates the window
per `decompress` call, so a missing dictionary reset in the first chunk cannot expose old data). -/
def StartsFresh : List SChunk → Prop
  | [] => True
  | .raw _ _ :: cs => StartsFresh cs
  | .lzma cls _ _ :: _ => cls ≥ 2

instance decStartsFresh : (cs : List SChunk) → Decidable (StartsFresh cs)
  | [] => isTrue trivial
  | .raw _ _ :: cs => decStartsFresh cs
  | .lzma cls _ _ :: _ => inferInstanceAs (Decidable (cls ≥ 2))

/-- what the format demands (and every conforming encoder produces): the first chunk resets the
dictionary — an LZMA chunk of class 3, or an uncompressed chunk with dictionary reset after which
the first LZMA chunk sets new properties -/
def StartsFreshStrict : List SChunk → Prop
  | [] => True
  | .raw rd _ :: cs => rd = true ∧ StartsFresh cs
  | .lzma cls _ _ :: _ => cls = 3

instance (cs : List SChunk) : Decidable (StartsFreshStrict cs) := by
  cases cs with
  | nil => exact isTrue trivial
  | cons c cs =>
    cases c with
    | raw rd data => unfold StartsFreshStrict; infer_instance
    | lzma cls props prog => unfold StartsFreshStrict; infer_instance

theorem StartsFreshStrict.startsFresh : ∀ {cs : List SChunk}, StartsFreshStrict cs → StartsFresh cs
  | [], _ => trivial
  | .raw _ _ :: _, h => h.2
  | .lzma cls _ _ :: _, h => by
    have h3 : cls = 3 := h
    show cls ≥ 2
    omega

/-- no LZMA chunk at all -/
def AllRaw : List SChunk → Prop
  | [] => True
  | .raw _ _ :: cs => AllRaw cs
  | .lzma _ _ _ :: _ => False

instance decAllRaw : (cs : List SChunk) → Decidable (AllRaw cs)
  | [] => isTrue trivial
  | .raw _ _ :: cs => decAllRaw cs
  | .lzma _ _ _ :: _ => isFalse id

/-! ## the two invariants -/

/-- the range invariant of the safety proofs implies the size invariant of C14 -/
theorem wf_of_dinv {st : DState} (h : Safety.DStateInv st) : st.WF :=
  ⟨⟨h.probs.lit.1, h.probs.posSlot.1, h.probs.align.1, h.probs.posDec.1, h.probs.isMatch.1,
     h.probs.isRep.1, h.probs.isRepG0.1, h.probs.isRepG1.1, h.probs.isRepG2.1, h.probs.isRep0Long.1,
     ⟨h.probs.len.low.1, h.probs.len.mid.1, h.probs.len.high.1⟩,
     ⟨h.probs.repLen.low.1, h.probs.repLen.mid.1, h.probs.repLen.high.1⟩⟩, h.rows⟩

theorem inv_of_coupled {d : Lzma2Decoder} {es : EncSt} (h : Coupled d.lzmaState es) : d.Inv :=
  ⟨wf_of_dinv h.dinv, h.pbuf⟩

/-! ## which decoder fields a chunk reads -/

/-- an uncompressed chunk neither reads nor writes the decoder object -/
theorem exec_raw_any {r : Bool} {data : Bytes} {d1 d1' : Lzma2Decoder} {a a' : Accum} {s s' : Sink}
    (h : (Chunk.raw r data).Exec d1 a s d1' a' s') (d2 : Lzma2Decoder) :
    d1' = d1 ∧ (Chunk.raw r data).Exec d2 a s d2 a' s' :=
  ⟨h.1, rfl, h.2⟩

/-- `reset_state(new properties)` followed by `set_unpacked_size` is the same state for all
usable decoder objects -/
theorem reset_then_size {d1 d2 : Lzma2Decoder} (h1 : d1.Inv) (h2 : d2.Inv) {p : Props} {u : Option Nat}
    {st1 : DState} (h : d1.lzmaState.resetState p = .ok st1) :
    ∃ st2, d2.lzmaState.resetState p = .ok st2 ∧ st2.setUnpackedSize u = st1.setUnpackedSize u := by
  cases hv : p.validate with
  | error e => rw [DState.resetState_of_invalid _ hv] at h; cases h
  | ok x =>
    cases x
    rw [DState.resetState_eq h1.wf hv] at h
    cases h
    refine ⟨_, DState.resetState_eq h2.wf hv, ?_⟩
    simp only [DState.setUnpackedSize, h1.partialBuf, h2.partialBuf]

/-- an LZMA chunk that sets new properties (control ≥ 0xC0; any chunk with a state reset and a
properties byte) reads nothing of a usable decoder object: same window, sink and decoder after -/
theorem exec_reset_any {c : UInt8} {u : Nat} {b : UInt8} {payload : Bytes} {d1 d2 d' : Lzma2Decoder}
    {a a' : Accum} {s s' : Sink} (h1 : d1.Inv) (h2 : d2.Inv) (hc : 0xA0 ≤ c.toNat)
    (h : (Chunk.packed c u (some b) payload).Exec d1 a s d' a' s') :
    (Chunk.packed c u (some b) payload).Exec d2 a s d' a' s' := by
  obtain ⟨s0, a0, st0, rc, tk, st1, rc1, tk1, e1, e2, e3, e4, e5, e6, e7, e8⟩ := h
  rw [if_pos hc] at e2
  obtain ⟨st0', g1, g2⟩ := reset_then_size h1 h2 (u := some (u + a0.len)) e2
  refine ⟨s0, a0, st0', rc, tk, st1, rc1, tk1, e1, ?_, e3, ?_, e5, e6, e7, e8⟩
  · rw [if_pos hc]; exact g1
  · rw [g2]; exact e4

/-! ## the shape of the chunk the reference encoder emits -/

theorem raw_shape {es : EncSt} {rd : Bool} {data : Bytes} {ch : Chunk}
    (hb : ch.bytes = (encChunk es (.raw rd data)).1) (hwf : ch.WF) :
    ∃ r' data', ch = .raw r' data' := by
  cases ch with
  | raw r' data' => exact ⟨r', data', rfl⟩
  | packed c u p payload =>
    exfalso
    have h80 : 0x80 ≤ c.toNat := hwf.1
    simp only [Chunk.bytes, Chunk.control, encChunk, List.cons.injEq] at hb
    have hc := hb.1
    cases rd <;> simp at hc <;> subst hc <;> simp at h80

theorem lzma_shape {es : EncSt} {cls : Nat} {props : Props} {prog : List Sym} {ch : Chunk}
    {sp' : SpecSt} {out : Bytes} (hwf : (SChunk.lzma cls props prog).WF es)
    (hb : ch.bytes = (encChunk es (.lzma cls props prog)).1)
    (hsem : (SChunk.lzma cls props prog).sem es.spec = some (sp', out))
    (hsp : (encChunk es (.lzma cls props prog)).2.spec = sp') (hch : ch.WF) (h2 : cls ≥ 2) :
    ∃ c u b payload, ch = .packed c u (some b) payload ∧ 0xC0 ≤ c.toNat := by
  obtain ⟨hcls, -, -, -, -, hrunwf, -⟩ := hwf
  -- the program runs
  have hrun : SpecSt.run dictLim (startSpec cls es.spec) prog = some (sp', false) := by
    simp only [SChunk.sem] at hsem
    split at hsem
    · rename_i sp'' heq
      simp only [Option.some.injEq, Prod.mk.injEq] at hsem
      rw [heq, hsem.1]
    · cases hsem
  rw [hrun] at hrunwf
  obtain ⟨hu1, hu2, -⟩ := hrunwf
  -- the control byte
  cases hp : encPayload (startEnc cls props es) prog with
  | mk snk r =>
  cases r with
  | error e =>
    simp only [encChunk, hp, Chunk.bytes] at hb
    cases hb
  | ok es' =>
    simp only [encChunk, hp] at hb hsp
    rw [hsp, startEnc_spec] at hb
    simp only [Chunk.bytes, List.cons.injEq] at hb
    have hc := hb.1
    have hhi : (sp'.hist.size - (startSpec cls es.spec).hist.size - 1) >>> 16 < 32 := by
      rw [Nat.shiftRight_eq_div_pow]; omega
    have hct := ctrl_toNat (hi := (sp'.hist.size - (startSpec cls es.spec).hist.size - 1) >>> 16)
      hcls hhi
    cases ch with
    | raw r' data' =>
      exfalso
      simp only [Chunk.control] at hc
      rw [← hc] at hct
      cases r' <;> simp at hct <;> omega
    | packed c u p payload =>
      simp only [Chunk.control] at hc
      rw [← hc] at hct
      cases p with
      | none =>
        exfalso
        have : c.toNat < 0xC0 := hch.2.2.2.2.2
        omega
      | some b => exact ⟨c, u, b, payload, rfl, by omega⟩

/-! ## a chunk list from an arbitrary usable decoder object -/

/-- **Shadow run.**  `d0` is a decoder coupled to the reference encoder's state `es` (invariant
`Inv` of the exactness proof); `d` is ANY usable decoder object.  For a well-formed chunk list
whose first LZMA chunk sets new properties, both execute the SAME chunks with the same windows
and sinks; the decoder objects afterwards coincide as soon as an LZMA chunk has been decoded
(otherwise each is unchanged). -/
theorem run_chunks_hist {s0 : Sink} : ∀ (cs : List SChunk) (es : EncSt) (F : Bytes)
    (d0 d : Lzma2Decoder) (a : Accum) (k : Sink), Inv s0 F d0 a k es → d.Inv → WF2Aux es cs →
    StartsFresh cs →
    ∃ (chs : List Chunk) (out : Bytes) (d0' d' : Lzma2Decoder) (a' : Accum) (k' : Sink) (es' : EncSt)
      (F' : Bytes),
      expand2Aux es.spec cs = some out ∧ (∀ c ∈ chs, c.WF) ∧
      encode2Aux es cs = chs.flatMap Chunk.bytes ∧
      Run chs d0 a k d0' a' k' ∧ Run chs d a k d' a' k' ∧
      Inv s0 F' d0' a' k' es' ∧ F' ++ es'.spec.hist.toList = F ++ es.spec.hist.toList ++ out ∧
      (d' = d0' ∨ (AllRaw cs ∧ d' = d ∧ d0' = d0))
  | [], es, F, d0, d, a, k, hinv, _, _, _ =>
    ⟨[], [], d0, d, a, k, es, F, rfl, by simp, rfl, Run.nil _ _ _, Run.nil _ _ _, hinv, by simp,
      .inr ⟨trivial, rfl, rfl⟩⟩
  | .raw rd data :: cs, es, F, d0, d, a, k, hinv, hd, hwf, hsf => by
    obtain ⟨hwfc, hwfs⟩ := hwf
    obtain ⟨ch, sp', out1, d1, a1, k1, F1, h1, h2, h3, h4, h5, h6, h7, -⟩ :=
      chunk_ok hinv (.raw rd data) hwfc
    obtain ⟨r', data', rfl⟩ := raw_shape h2 h1
    obtain ⟨hd1, h3'⟩ := exec_raw_any h3 d
    subst hd1
    obtain ⟨chs, out2, d0', d', a', k', es', F', g1, g2, g3, g4, g4', g5, g6, g7⟩ :=
      run_chunks_hist cs _ F1 d1 d a1 k1 h6 hd hwfs hsf
    rw [h5] at g1 g6
    refine ⟨.raw r' data' :: chs, out1 ++ out2, d0', d', a', k', es', F', ?_, ?_, ?_,
      Run.cons h3 g4, Run.cons h3' g4', g5, ?_, ?_⟩
    · simp only [expand2Aux, h4, g1, Option.map_some]
    · intro x hx
      rcases List.mem_cons.1 hx with rfl | hx
      · exact h1
      · exact g2 x hx
    · simp only [encode2Aux, List.flatMap_cons, h2, g3]
    · rw [g6, h7]; simp only [List.append_assoc]
    · rcases g7 with g7 | ⟨g7, g8, g9⟩
      · exact .inl g7
      · exact .inr ⟨g7, g8, g9⟩
  | .lzma cls props prog :: cs, es, F, d0, d, a, k, hinv, hd, hwf, hsf => by
    obtain ⟨hwfc, hwfs⟩ := hwf
    obtain ⟨ch, sp', out1, d1, a1, k1, F1, h1, h2, h3, h4, h5, h6, h7, -⟩ :=
      chunk_ok hinv (.lzma cls props prog) hwfc
    obtain ⟨c, u, b, payload, rfl, hc⟩ := lzma_shape hwfc h2 h4 h5 h1 hsf
    have h3' := exec_reset_any (inv_of_coupled hinv.cpl) hd (by omega) h3
    obtain ⟨chs, out2, d', a', k', es', F', g1, g2, g3, g4, g5, g6⟩ :=
      run_chunks cs _ F1 d1 a1 k1 h6 hwfs
    rw [h5] at g1 g6
    refine ⟨.packed c u (some b) payload :: chs, out1 ++ out2, d', d', a', k', es', F', ?_, ?_, ?_,
      Run.cons h3 g4, Run.cons h3' g4, g5, ?_, .inl rfl⟩
    · simp only [expand2Aux, h4, g1, Option.map_some]
    · intro x hx
      rcases List.mem_cons.1 hx with rfl | hx
      · exact h1
      · exact g2 x hx
    · simp only [encode2Aux, List.flatMap_cons, h2, g3]
    · rw [g6, h7]; simp only [List.append_assoc]

end L2H
end Lzma
