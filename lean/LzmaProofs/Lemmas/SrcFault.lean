/-
  C12 (reader side) — a source fault never helps.

  `Rd.bad = true` turns "no more data" into an I/O error.  Every model function `f rd …` is
  compared with the same function on the fault-free reader `rd.good` (same bytes, `bad = false`):
  * if the run on `rd` succeeds, the run on `rd.good` succeeds with the same sink and the same
    value, the resulting reader being the `good` version of the faulty run's reader — and the
    fault flag of the reader is handed through unchanged (`Gd.fl`);
  * if the run on `rd` fails, what it delivered to the sink is a prefix of what the fault-free
    run delivers.
  The relation (`SimE` for `Except`-valued, `Sim` for `M`-valued functions) is carried through
  the whole model by structural descent.
-/
import LzmaProofs.Lemmas.Sink
import LzmaProofs.Lemmas.Lzma2
import LzmaProofs.Lemmas.XzInv
namespace Lzma

/-- the same reader without the fault -/
def Rd.good (r : Rd) : Rd := { r with bad := false }

/- deliberately not `rfl`-lemmas: `simp only [Rd.good_rem]` must rewrite `Decidable` instances of
`if`-conditions along with the conditions (a `dsimp`-style rewrite leaves them behind and later
`split`s fail) -/
@[simp] theorem Rd.good_rem (r : Rd) : r.good.rem = r.rem := by cases r; exact rfl
@[simp] theorem Rd.good_bad (r : Rd) : r.good.bad = false := by cases r; exact rfl
@[simp] theorem Rd.good_good (r : Rd) : r.good.good = r.good := by cases r; exact rfl
theorem Rd.good_of_not_bad {r : Rd} (h : r.bad = false) : r.good = r := by
  cases r; simp_all [Rd.good]

namespace SF

/-- results that end in a reader: `gd` makes that reader fault-free, `fl b` says its fault flag
is `b` -/
class Gd (β : Type) where
  gd : β → β
  fl : Bool → β → Prop

instance : Gd Rd := ⟨Rd.good, fun b r => r.bad = b⟩
instance {α β : Type} [Gd β] : Gd (α × β) := ⟨fun p => (p.1, Gd.gd p.2), fun b p => Gd.fl b p.2⟩

@[simp] theorem gd_rd (r : Rd) : Gd.gd r = r.good := rfl
@[simp] theorem gd_pair {α β : Type} [Gd β] (a : α) (x : β) : Gd.gd (a, x) = (a, Gd.gd x) := rfl
@[simp] theorem fl_rd (b : Bool) (r : Rd) : Gd.fl b r = (r.bad = b) := rfl
@[simp] theorem fl_pair {α β : Type} [Gd β] (b : Bool) (a : α) (x : β) :
    Gd.fl b (a, x) = Gd.fl b x := rfl

/-! ## the relation on `Except` -/

/-- success of the faulty computation `eb` implies success of the fault-free one `eg`, with the
related value -/
structure SimE {β : Type} (g : β → β) (P : β → Prop) (eb eg : Except Err β) : Prop where
  ok_of_ok : ∀ x, eb = .ok x → eg = .ok (g x) ∧ P x

/-- the reader-carrying instance -/
abbrev SimEG {β : Type} [Gd β] (b : Bool) (eb eg : Except Err β) : Prop := SimE Gd.gd (Gd.fl b) eb eg
/-- the reader-free instance -/
abbrev SimEI {β : Type} (eb eg : Except Err β) : Prop := SimE id (fun _ => True) eb eg

theorem SimE.error {β : Type} {g : β → β} {P : β → Prop} (e : Err) (eg : Except Err β) :
    SimE g P (.error e) eg := by
  constructor; intro x h; cases h

theorem SimE.throw {β : Type} {g : β → β} {P : β → Prop} (e : Err) (eg : Except Err β) :
    SimE g P (throw e) eg := SimE.error e eg

theorem SimE.ok {β : Type} {g : β → β} {P : β → Prop} {x : β} (h : P x) :
    SimE g P (.ok x) (.ok (g x)) := by
  constructor; intro y hy; cases hy; exact ⟨rfl, h⟩

theorem SimE.pure {β : Type} {g : β → β} {P : β → Prop} {x : β} (h : P x) :
    SimE g P (pure x) (pure (g x)) := SimE.ok h

theorem SimE.refl {β : Type} (e : Except Err β) : SimEI e e := by
  constructor; intro x h; exact ⟨h, trivial⟩

theorem SimE.imp {β : Type} {g : β → β} {P Q : β → Prop} {eb eg : Except Err β}
    (h : SimE g P eb eg) (hpq : ∀ x, P x → Q x) : SimE g Q eb eg := by
  constructor; intro x hx; exact ⟨(h.ok_of_ok x hx).1, hpq x (h.ok_of_ok x hx).2⟩

theorem SimE.bind {α β : Type} {g : α → α} {P : α → Prop} {h : β → β} {Q : β → Prop}
    {eb eg : Except Err α} {fb fg : α → Except Err β}
    (h1 : SimE g P eb eg) (h2 : ∀ x, P x → SimE h Q (fb x) (fg (g x))) :
    SimE h Q (eb >>= fb) (eg >>= fg) := by
  constructor
  intro y hy
  cases eb with
  | error e => cases hy
  | ok x =>
    obtain ⟨e1, p⟩ := h1.ok_of_ok x rfl
    rw [e1]
    exact (h2 x p).ok_of_ok y hy

theorem SimE.bindG {α β : Type} [Gd α] {b : Bool} {h : β → β} {Q : β → Prop}
    {eb eg : Except Err α} {fb fg : α → Except Err β}
    (h1 : SimEG b eb eg) (h2 : ∀ x, Gd.fl b x → SimE h Q (fb x) (fg (Gd.gd x))) :
    SimE h Q (eb >>= fb) (eg >>= fg) := SimE.bind h1 h2

theorem SimE.bindI {α β : Type} {h : β → β} {Q : β → Prop}
    {eb eg : Except Err α} {fb fg : α → Except Err β}
    (h1 : SimEI eb eg) (h2 : ∀ x, True → SimE h Q (fb x) (fg x)) :
    SimE h Q (eb >>= fb) (eg >>= fg) := SimE.bind h1 h2

/-- `if c then throw e` followed by the rest `k` of a `do` block (both copies of the join point) -/
theorem SimE.guard {β : Type} {g : β → β} {P : β → Prop} {c : Prop} [Decidable c] {e e' : Err}
    {kb kg : Except Err β} (h : ¬c → SimE g P kb kg) :
    SimE g P (if c then ((MonadExcept.throw e : Except Err PUnit) >>= fun _ => kb) else kb)
      (if c then ((MonadExcept.throw e' : Except Err PUnit) >>= fun _ => kg) else kg) := by
  split
  · constructor; intro x hx; cases hx
  · exact h ‹_›

theorem SimE.ite {β : Type} {g : β → β} {P : β → Prop} {c : Prop} [Decidable c]
    {a b a' b' : Except Err β} (h1 : c → SimE g P a a') (h2 : ¬c → SimE g P b b') :
    SimE g P (if c then a else b) (if c then a' else b') := by
  split
  · exact h1 ‹_›
  · exact h2 ‹_›

/-! error-class remappings -/

theorem SimE.hdrErr {β : Type} {g : β → β} {P : β → Prop} {eb eg : Except Err β}
    (h : SimE g P eb eg) : SimE g P (hdrErr eb) (hdrErr eg) := by
  constructor
  intro x hx
  cases eb with
  | error e => cases hx
  | ok y =>
    obtain ⟨e1, p⟩ := h.ok_of_ok y rfl
    cases hx
    rw [e1]; exact ⟨rfl, p⟩

theorem SimE.lzErr {β : Type} {g : β → β} {P : β → Prop} {eb eg : Except Err β}
    (h : SimE g P eb eg) : SimE g P (lzErr eb) (lzErr eg) := by
  constructor
  intro x hx
  cases eb with
  | error e => cases hx
  | ok y =>
    obtain ⟨e1, p⟩ := h.ok_of_ok y rfl
    cases hx
    rw [e1]; exact ⟨rfl, p⟩

/-- `match e with | .ok x => .ok x | .error _ => .error e'` -/
theorem SimE.remap {β : Type} {g : β → β} {P : β → Prop} (eb eg : Except Err β) (e' : Err) :
    SimE g P eb eg →
    SimE g P (match eb with | .ok x => .ok x | .error _ => .error e')
      (match eg with | .ok x => .ok x | .error _ => .error e') := by
  intro h
  constructor
  intro x hx
  cases eb with
  | error e => cases hx
  | ok y =>
    obtain ⟨e1, p⟩ := h.ok_of_ok y rfl
    cases hx
    rw [e1]; exact ⟨rfl, p⟩

/-! ## the relation on `M` -/

/-- `mb` is the run on the faulty reader, `mg` the fault-free run: success of `mb` is success of
`mg` with the same sink and the related value; on failure of `mb` the bytes it delivered are a
prefix of what `mg` delivers -/
structure Sim {β : Type} (g : β → β) (P : β → Prop) (mb mg : M β) : Prop where
  run : ∀ snk,
    (∀ sb x, mb snk = (sb, .ok x) → mg snk = (sb, .ok (g x)) ∧ P x) ∧
    (∀ sb e, mb snk = (sb, .error e) → APre sb.out (mg snk).1.out)

abbrev SimG {β : Type} [Gd β] (b : Bool) (mb mg : M β) : Prop := Sim Gd.gd (Gd.fl b) mb mg
abbrev SimI {β : Type} (mb mg : M β) : Prop := Sim id (fun _ => True) mb mg

theorem Sim.refl {β : Type} (m : M β) : SimI m m := by
  constructor
  intro snk
  refine ⟨fun sb x h => ⟨h, trivial⟩, fun sb e h => ?_⟩
  rw [h]; exact APre.refl _

theorem Sim.imp {β : Type} {g : β → β} {P Q : β → Prop} {mb mg : M β}
    (h : Sim g P mb mg) (hpq : ∀ x, P x → Q x) : Sim g Q mb mg := by
  constructor
  intro snk
  refine ⟨fun sb x hx => ?_, (h.run snk).2⟩
  exact ⟨((h.run snk).1 sb x hx).1, hpq x ((h.run snk).1 sb x hx).2⟩

theorem Sim.liftE {β : Type} {g : β → β} {P : β → Prop} {eb eg : Except Err β}
    (h : SimE g P eb eg) : Sim g P (liftE eb) (liftE eg) := by
  constructor
  intro snk
  constructor
  · intro sb x hx
    cases eb with
    | error e => simp at hx
    | ok y =>
      simp at hx
      obtain ⟨rfl, rfl⟩ := hx
      obtain ⟨e1, p⟩ := h.ok_of_ok y rfl
      rw [e1]; exact ⟨rfl, p⟩
  · intro sb e hx
    cases eb with
    | ok y => simp at hx
    | error e' =>
      simp at hx
      obtain ⟨rfl, rfl⟩ := hx
      cases eg <;> exact APre.refl _

theorem Sim.pure {β : Type} {g : β → β} {P : β → Prop} {x : β} (h : P x) :
    Sim g P (pure x) (pure (g x)) := by
  constructor
  intro snk
  refine ⟨fun sb y hy => ?_, fun sb e hy => ?_⟩
  · simp at hy; obtain ⟨rfl, rfl⟩ := hy; exact ⟨rfl, h⟩
  · simp at hy

theorem Sim.throw {β : Type} {g : β → β} {P : β → Prop} (e e' : Err) :
    Sim g P (throwM e : M β) (throwM e') := by
  constructor
  intro snk
  refine ⟨fun sb y hy => ?_, fun sb e hy => ?_⟩
  · simp at hy
  · simp at hy; rw [← hy.1]; exact APre.refl _

/-- the faulty side throws; the fault-free side only appends -/
theorem Sim.throw_left {β : Type} {g : β → β} {P : β → Prop} (e : Err) {mg : M β} (h : Mono mg) :
    Sim g P (throwM e : M β) mg := by
  constructor
  intro snk
  refine ⟨fun sb y hy => ?_, fun sb e hy => ?_⟩
  · simp at hy
  · simp at hy; rw [← hy.1]; exact h snk

theorem Sim.bind {α β : Type} {g : α → α} {P : α → Prop} {h : β → β} {Q : β → Prop}
    {mb mg : M α} {fb fg : α → M β}
    (h1 : Sim g P mb mg) (h2 : ∀ x, P x → Sim h Q (fb x) (fg (g x)))
    (h3 : ∀ y, Mono (fg y)) :
    Sim h Q (mb >>= fb) (mg >>= fg) := by
  constructor
  intro snk
  obtain ⟨a1, a2⟩ := h1.run snk
  rcases hb : mb snk with ⟨s1, r⟩
  cases r with
  | ok x =>
    obtain ⟨e1, p⟩ := a1 s1 x hb
    rw [bind_run_ok hb, bind_run_ok e1]
    exact (h2 x p).run s1
  | error e =>
    have pre := a2 s1 e hb
    rw [bind_run_error hb]
    refine ⟨fun sb x hx => (by cases hx), fun sb e' hx => ?_⟩
    cases hx
    rcases hg : mg snk with ⟨s2, r2⟩
    rw [hg] at pre
    cases r2 with
    | ok y => rw [bind_run_ok hg]; exact pre.trans (h3 y s2)
    | error e2 => rw [bind_run_error hg]; exact pre

theorem Sim.bindG {α β : Type} [Gd α] {b : Bool} {h : β → β} {Q : β → Prop}
    {mb mg : M α} {fb fg : α → M β}
    (h1 : SimG b mb mg) (h2 : ∀ x, Gd.fl b x → Sim h Q (fb x) (fg (Gd.gd x)))
    (h3 : ∀ y, Mono (fg y)) :
    Sim h Q (mb >>= fb) (mg >>= fg) := Sim.bind h1 h2 h3

theorem Sim.bindI {α β : Type} {h : β → β} {Q : β → Prop}
    {mb mg : M α} {fb fg : α → M β}
    (h1 : SimI mb mg) (h2 : ∀ x, True → Sim h Q (fb x) (fg x))
    (h3 : ∀ y, Mono (fg y)) :
    Sim h Q (mb >>= fb) (mg >>= fg) := Sim.bind h1 h2 h3

/-- `if c then throwM e` followed by the rest `k` of a `do` block (both copies of the join point) -/
theorem Sim.guard {β : Type} {g : β → β} {P : β → Prop} {c : Prop} [Decidable c] {e e' : Err}
    {kb kg : M β} (h : ¬c → Sim g P kb kg) :
    Sim g P (if c then ((throwM e : M PUnit) >>= fun _ => kb) else kb)
      (if c then ((throwM e' : M PUnit) >>= fun _ => kg) else kg) := by
  split
  · constructor
    intro snk
    refine ⟨fun sb x hx => ?_, fun sb e hx => ?_⟩
    · simp [bind_run] at hx
    · simp [bind_run] at hx ⊢; rw [← hx.1]; exact APre.refl _
  · exact h ‹_›

theorem Sim.ite {β : Type} {g : β → β} {P : β → Prop} {c : Prop} [Decidable c]
    {a b a' b' : M β} (h1 : c → Sim g P a a') (h2 : ¬c → Sim g P b b') :
    Sim g P (if c then a else b) (if c then a' else b') := by
  split
  · exact h1 ‹_›
  · exact h2 ‹_›

theorem Mono.of_om {α : Type} {m : M α} (h : OM m) : Mono m := h.mono

/-- `if c then throwM e` followed by the rest of a `do` block, without duplicating the work for
the two copies of the join point -/
theorem OM.guard {β : Type} {c : Prop} [Decidable c] {e : Err} {k : M β} (h : OM k) :
    OM (if c then ((throwM e : M PUnit) >>= fun _ => k) else k) := by
  split
  · exact OM.bind (OM.throw e) fun _ => h
  · exact h
macro_rules | `(tactic| om_step) => `(tactic| apply OM.guard)

/-- consequences used by the property theorems -/
theorem Sim.ok {β : Type} {g : β → β} {P : β → Prop} {mb mg : M β} (h : Sim g P mb mg)
    {snk sb : Sink} {x : β} (hx : mb snk = (sb, .ok x)) : mg snk = (sb, .ok (g x)) ∧ P x :=
  (h.run snk).1 sb x hx

theorem Sim.error_of_error {β : Type} {g : β → β} {P : β → Prop} {mb mg : M β} (h : Sim g P mb mg)
    {snk sg : Sink} {e : Err} (hx : mg snk = (sg, .error e)) :
    ∃ sb e', mb snk = (sb, .error e') ∧ APre sb.out sg.out := by
  rcases hb : mb snk with ⟨sb, r⟩
  cases r with
  | ok x =>
    have := ((h.run snk).1 sb x hb).1
    rw [hx] at this; cases this
  | error e' =>
    have := (h.run snk).2 sb e' hb
    rw [hx] at this
    exact ⟨sb, e', rfl, this⟩

/-! ## reader primitives -/

section prim
variable {b : Bool}

theorem readU8_sim (r : Rd) (hb : r.bad = b) : SimEG b r.readU8 r.good.readU8 := by
  constructor
  intro x hx
  unfold Rd.readU8 at hx ⊢
  cases hr : r.rem with
  | nil => simp [hr] at hx
  | cons c rest =>
    simp [hr] at hx
    subst hx
    simp [hr, Rd.good, hb]

theorem readExact_sim (r : Rd) (n : Nat) (hb : r.bad = b) :
    SimEG b (r.readExact n) (r.good.readExact n) := by
  constructor
  intro x hx
  unfold Rd.readExact at hx ⊢
  by_cases hn : n ≤ r.rem.length
  · simp [hn] at hx
    subst hx
    simp [hn, Rd.good, hb]
  · simp [hn] at hx

theorem readU16BE_sim (r : Rd) (hb : r.bad = b) : SimEG b r.readU16BE r.good.readU16BE := by
  unfold Rd.readU16BE
  refine SimE.bind (readExact_sim r 2 hb) fun x hx => ?_
  exact SimE.pure hx

theorem readU32BE_sim (r : Rd) (hb : r.bad = b) : SimEG b r.readU32BE r.good.readU32BE := by
  unfold Rd.readU32BE
  refine SimE.bind (readExact_sim r 4 hb) fun x hx => ?_
  exact SimE.pure hx

theorem readU32LE_sim (r : Rd) (hb : r.bad = b) : SimEG b r.readU32LE r.good.readU32LE := by
  unfold Rd.readU32LE
  refine SimE.bind (readExact_sim r 4 hb) fun x hx => ?_
  exact SimE.pure hx

theorem readU64LE_sim (r : Rd) (hb : r.bad = b) : SimEG b r.readU64LE r.good.readU64LE := by
  unfold Rd.readU64LE
  refine SimE.bind (readExact_sim r 8 hb) fun x hx => ?_
  exact SimE.pure hx

theorem readTag_sim (r : Rd) (tag : Bytes) (hb : r.bad = b) :
    SimEG b (r.readTag tag) (r.good.readTag tag) := by
  unfold Rd.readTag
  refine SimE.bind (readExact_sim r _ hb) fun x hx => ?_
  exact SimE.pure hx

theorem isEof_sim (r : Rd) : SimEI r.isEof r.good.isEof := by
  constructor
  intro x hx
  unfold Rd.isEof at hx ⊢
  cases hr : r.rem <;> cases hbad : r.bad <;> simp_all

theorem fillBuf_sim (r : Rd) : SimEI r.fillBuf r.good.fillBuf := by
  constructor
  intro x hx
  exact ⟨by simp [Rd.fillBuf], trivial⟩

theorem flushZeroPadding_sim (r : Rd) (hb : r.bad = b) :
    SimEG b r.flushZeroPadding r.good.flushZeroPadding := by
  constructor
  intro x hx
  obtain ⟨rem, bad⟩ := r
  simp only at hb
  subst hb
  unfold Rd.flushZeroPadding at hx ⊢
  simp only [Rd.good] at hx ⊢
  by_cases h1 : rem.isEmpty = true
  · cases bad
    · simp [h1] at hx ⊢; subst hx; simp [Gd.gd, Gd.fl, Rd.good]
    · simp [h1] at hx
  · by_cases h2 : rem.all (· == 0) = true
    · cases bad
      · simp only [h1, h2] at hx ⊢; simp at hx; subst hx; simp [Gd.gd, Gd.fl, Rd.good]
      · simp only [h1, h2] at hx; simp at hx
    · simp only [h1, h2] at hx ⊢
      simp at hx; subst hx; simp [Gd.gd, Gd.fl, Rd.good]

theorem split_good (r : Rd) (n : Nat) : r.good.split n = ((r.split n).1.good, (r.split n).2) := by
  simp [Rd.split, Rd.good]

theorem unsplit_good (r inner : Rd) (rest : Bytes) :
    r.good.unsplit inner.good rest = (r.unsplit inner rest).good := by
  cases r; exact rfl

@[simp] theorem unsplit_bad (r inner : Rd) (rest : Bytes) : (r.unsplit inner rest).bad = r.bad := rfl

end prim

/-! ## automation: structural descent through `do` blocks (cf. `om` in `Lemmas/Sink.lean`) -/

section auto
variable {b : Bool}


theorem forall_prod {α β : Type} {Q : α × β → Prop} (h : ∀ a x, Q (a, x)) : ∀ x, Q x :=
  fun x => h x.1 x.2

theorem SimE.pureI {β : Type} (x : β) : SimEI (Pure.pure x : Except Err β) (Pure.pure x) := SimE.refl _

macro "sim_red" : tactic =>
  `(tactic| (try simp -zeta -zetaHave only [gd_pair, gd_rd, fl_pair, fl_rd, id, Rd.good_rem] at *))

syntax "sim_flag" : tactic
macro_rules | `(tactic| sim_flag) => `(tactic| first
  | assumption
  | exact True.intro
  | (simp only [fl_pair, fl_rd, unsplit_bad]; assumption)
  | exact rfl)

/-- lemma applications for `SimE` goals (extended by `macro_rules` as lemmas are proved) -/
syntax "sime_lem" : tactic
macro_rules | `(tactic| sime_lem) => `(tactic| first
  | with_reducible_and_instances exact SimE.pure (by sim_flag)
  | with_reducible_and_instances exact SimE.ok (by sim_flag)
  | with_reducible exact SimE.pureI _
  | with_reducible exact SimE.error _ _
  | with_reducible exact SimE.throw _ _
  | with_reducible exact SimE.refl _
  | with_reducible exact readU8_sim _ (by sim_flag)
  | with_reducible exact readExact_sim _ _ (by sim_flag)
  | with_reducible exact readU16BE_sim _ (by sim_flag)
  | with_reducible exact readU32BE_sim _ (by sim_flag)
  | with_reducible exact readU32LE_sim _ (by sim_flag)
  | with_reducible exact readU64LE_sim _ (by sim_flag)
  | with_reducible exact readTag_sim _ _ (by sim_flag)
  | with_reducible exact flushZeroPadding_sim _ (by sim_flag)
  | with_reducible exact isEof_sim _
  | with_reducible exact fillBuf_sim _
  | apply SimE.hdrErr
  | apply SimE.lzErr
  | apply SimE.remap
  | (with_reducible apply_assumption; sim_flag; done))

/-- structural steps common to `SimE` and `Sim` goals -/
syntax "sim_generic" : tactic
macro_rules | `(tactic| sim_generic) => `(tactic| first
  | (refine forall_prod ?_; intro _)
  | (intro _ _; sim_red)
  | contradiction
  | (apply SimE.guard; intro _)
  | (apply Sim.guard; intro _)
  | (with_reducible apply SimE.ite <;> intro _)
  | (with_reducible apply Sim.ite <;> intro _)
  | simp -zeta -zetaHave only [Rd.good_rem, unsplit_good, split_good]
  | split
  | dsimp only)

syntax "sime_step" : tactic
macro_rules | `(tactic| sime_step) => `(tactic| first
  | sime_lem
  | with_reducible apply SimE.bindI (SimE.refl _)
  | apply SimE.bindG
  | apply SimE.bindI
  | sim_generic)
macro "sime" : tactic => `(tactic| repeat' sime_step)

theorem rcNew_sim (rd : Rd) (hb : rd.bad = b) : SimEG b (RC.new rd) (RC.new rd.good) := by
  unfold RC.new; sime
macro_rules | `(tactic| sime_lem) => `(tactic| with_reducible exact rcNew_sim _ (by sim_flag))

theorem normalize_sim (rc : RC) (rd : Rd) (hb : rd.bad = b) :
    SimEG b (rc.normalize rd) (rc.normalize rd.good) := by
  unfold RC.normalize; sime
macro_rules | `(tactic| sime_lem) => `(tactic| with_reducible exact normalize_sim _ _ (by sim_flag))

theorem getBit_sim (rc : RC) (rd : Rd) (hb : rd.bad = b) :
    SimEG b (rc.getBit rd) (rc.getBit rd.good) := by
  unfold RC.getBit; sime
macro_rules | `(tactic| sime_lem) => `(tactic| with_reducible exact getBit_sim _ _ (by sim_flag))

theorem decodeBit_sim (u : Bool) (p : Nat) (rc : RC) (rd : Rd) (hb : rd.bad = b) :
    SimEG b (rc.decodeBit u p rd) (rc.decodeBit u p rd.good) := by
  unfold RC.decodeBit; sime
macro_rules | `(tactic| sime_lem) => `(tactic| with_reducible exact decodeBit_sim _ _ _ _ (by sim_flag))


theorem runDec_sim {σ ι α : Type} [ProbStore σ ι] (u : Bool) (t : Coder ι α) :
    ∀ (s : σ) (rc : RC) (rd : Rd), rd.bad = b →
      SimEG b (runDec u t s rc rd) (runDec u t s rc rd.good) := by
  induction t with
  | ret a => intro s rc rd hb; unfold runDec; sime
  | fail e => intro s rc rd hb; unfold runDec; sime
  | bit i k ih =>
    intro s rc rd hb
    unfold runDec
    split
    · sime
    · have h := decodeBit_sim u ‹Nat› rc rd hb
      constructor
      intro x hx
      split at hx
      · cases hx
      · rename_i bb p' rc' rd' heq
        obtain ⟨e1, p⟩ := h.ok_of_ok _ heq
        simp only [gd_pair, gd_rd, fl_pair, fl_rd] at e1 p
        rw [e1]
        exact (ih bb _ rc' rd' p).ok_of_ok x hx
  | direct k ih =>
    intro s rc rd hb
    unfold runDec
    have h := getBit_sim rc rd hb
    constructor
    intro x hx
    split at hx
    · cases hx
    · rename_i bb rc' rd' heq
      obtain ⟨e1, p⟩ := h.ok_of_ok _ heq
      simp only [gd_pair, gd_rd, fl_pair, fl_rd] at e1 p
      rw [e1]
      exact (ih bb _ rc' rd' p).ok_of_ok x hx
macro_rules | `(tactic| sime_lem) => `(tactic| with_reducible exact runDec_sim _ _ _ _ _ (by sim_flag))

theorem isFinishedOk_sim (rc : RC) (rd : Rd) : SimEI (rc.isFinishedOk rd) (rc.isFinishedOk rd.good) := by
  unfold RC.isFinishedOk; sime
macro_rules | `(tactic| sime_lem) => `(tactic| with_reducible exact isFinishedOk_sim _ _)

theorem readPartialInputBuf_sim (s : DState) (rd : Rd) (hb : rd.bad = b) :
    SimEG b (s.readPartialInputBuf rd) (s.readPartialInputBuf rd.good) := by
  constructor
  intro x hx
  unfold DState.readPartialInputBuf at hx ⊢
  simp only [Rd.good_rem, Rd.good_bad] at hx ⊢
  split at hx
  · cases hx
  · cases hx
    simp [Rd.good, hb]



theorem Sim.pureI {β : Type} (x : β) : SimI (Pure.pure x : M β) (Pure.pure x) := Sim.refl _

/-- lemma applications for `Sim` goals (extended by `macro_rules` as lemmas are proved) -/
syntax "sim_lem" : tactic
macro_rules | `(tactic| sim_lem) => `(tactic| first
  | with_reducible_and_instances exact Sim.pure (by sim_flag)
  | with_reducible exact Sim.pureI _
  | with_reducible exact Sim.throw _ _
  | with_reducible exact Sim.refl _
  | apply Sim.liftE
  | focus (intro _; with_reducible apply Mono.of_om; om; done)
  | (with_reducible apply_assumption; sim_flag; done))

syntax "sim_step" : tactic
macro_rules | `(tactic| sim_step) => `(tactic| first
  | sim_lem
  | sime_lem
  | with_reducible apply Sim.bindI (Sim.refl _)
  | apply Sim.bindG
  | apply Sim.bindI
  | with_reducible apply SimE.bindI (SimE.refl _)
  | apply SimE.bindG
  | apply SimE.bindI
  | sim_generic)
macro "sim" : tactic => `(tactic| repeat' sim_step)

macro_rules | `(tactic| sime_lem) => `(tactic| with_reducible exact readPartialInputBuf_sim _ _ (by sim_flag))

section
variable {ω : Type} [LzBuf ω]

theorem applySym_sim (s : DState) (w : ω) (rc : RC) (rd : Rd) (sym : RawSym) :
    SimI (s.applySym w rc rd sym) (s.applySym w rc rd.good sym) := by
  cases sym <;> (unfold DState.applySym; sim)
macro_rules | `(tactic| sim_lem) => `(tactic| with_reducible exact applySym_sim _ _ _ _ _)

variable [OMBuf ω]

theorem processNext_sim (s : DState) (w : ω) (rc : RC) (rd : Rd) (hb : rd.bad = b) :
    SimG b (s.processNext w rc rd) (s.processNext w rc rd.good) := by
  unfold DState.processNext; sim
macro_rules | `(tactic| sim_lem) => `(tactic| with_reducible exact processNext_sim _ _ _ _ (by sim_flag))

theorem processLoop_sim (mode : DState.Mode) (fuel : Nat) : ∀ (s : DState) (w : ω) (rc : RC) (rd : Rd),
    rd.bad = b →
    SimG b (DState.processLoop mode fuel s w rc rd) (DState.processLoop mode fuel s w rc rd.good) := by
  induction fuel with
  | zero => intro s w rc rd hb; unfold DState.processLoop; sim
  | succ n ih =>
    intro s w rc rd hb
    unfold DState.processLoop
    sim
macro_rules | `(tactic| sim_lem) => `(tactic| with_reducible exact processLoop_sim _ _ _ _ _ _ (by sim_flag))

theorem loopFuel_good (s : DState) (rd : Rd) : DState.loopFuel s rd.good = DState.loopFuel s rd := by
  unfold DState.loopFuel; rw [Rd.good_rem]

theorem processMode_sim (mode : DState.Mode) (s : DState) (w : ω) (rc : RC) (rd : Rd) (hb : rd.bad = b) :
    SimG b (s.processMode mode w rc rd) (s.processMode mode w rc rd.good) := by
  unfold DState.processMode
  rw [loopFuel_good]
  generalize DState.loopFuel s rd = fuel
  sim
macro_rules | `(tactic| sim_lem) => `(tactic| with_reducible exact processMode_sim _ _ _ _ _ (by sim_flag))

end

/-! ## LZMA -/

theorem readHeader_sim (rd : Rd) (opts : Options) (hb : rd.bad = b) :
    SimEG b (readHeader rd opts) (readHeader rd.good opts) := by
  unfold readHeader; sime
macro_rules | `(tactic| sime_lem) => `(tactic| with_reducible exact readHeader_sim _ _ (by sim_flag))

/-- `match e with | .ok x => .ok x | .error _ => .error e'` (whatever matcher the model's
definition was compiled to), given the relation for `e` -/
macro "sim_remap" lem:term : tactic => `(tactic|
  (constructor; intro x hx; split at hx <;> first
    | (cases hx; done)
    | (rename_i y hy; have hxy : y = x := Except.ok.inj hx; subst hxy
       have h := SimE.ok_of_ok $lem _ hy; rw [h.1]; exact ⟨rfl, h.2⟩)))

theorem lzmaDecoder_decompress_sim (d : LzmaDecoder) (rd : Rd) (hb : rd.bad = b) :
    SimG b (d.decompress rd) (d.decompress rd.good) := by
  unfold LzmaDecoder.decompress
  apply Sim.bindG (b := b)
  · apply Sim.liftE
    sim_remap (rcNew_sim rd hb)
  all_goals sim
macro_rules | `(tactic| sim_lem) => `(tactic| with_reducible exact lzmaDecoder_decompress_sim _ _ (by sim_flag))

theorem lzmaDecompress_sim (rd : Rd) (opts : Options) (hb : rd.bad = b) :
    SimG b (lzmaDecompress rd opts) (lzmaDecompress rd.good opts) := by
  unfold lzmaDecompress; sim

/-! ## LZMA2 -/

theorem parseUncompressed_sim (accum : Accum) (rd : Rd) (resetDict : Bool) (hb : rd.bad = b) :
    SimG b (Lzma2Decoder.parseUncompressed accum rd resetDict)
      (Lzma2Decoder.parseUncompressed accum rd.good resetDict) := by
  unfold Lzma2Decoder.parseUncompressed; sim
macro_rules | `(tactic| sim_lem) => `(tactic| with_reducible exact parseUncompressed_sim _ _ _ (by sim_flag))

section lzma2
open Lzma.L2 Lzma2Decoder
/-- `parse_lzma` as a short monadic composition of the stages of `Lemmas/Lzma2.lean` -/
def parseLzmaM (d : Lzma2Decoder) (accum : Accum) (rd : Rd) (status : Nat) :
    M (Lzma2Decoder × Accum × Rd) :=
  if status &&& 0x80 = 0 then throwM .lzma
  else do
    let x ← liftE (lzErr rd.readU16BE)
    let y ← liftE (lzErr x.2.readU16BE)
    let a0 ← (if (status >>> 5) &&& 0x3 = 3 then accum.reset else pure accum)
    let z ← liftE (propsStage d y.2 ((status >>> 5) &&& 0x3))
    payloadDo lzProc (z.1.setUnpackedSize (some ((((status &&& 0x1F) <<< 16) ||| x.1) + 1 + a0.len)))
      a0 z.2 (y.1 + 1)

theorem parseLzma_eq_M (d : Lzma2Decoder) (accum : Accum) (rd : Rd) (status : Nat) :
    d.parseLzma accum rd status = parseLzmaM d accum rd status := by
  funext s
  rw [parseLzma_eq_NF]
  unfold parseLzmaNF parseLzmaM
  split
  · rfl
  cases h1 : lzErr rd.readU16BE with
  | error e => simp [bind_run]
  | ok x =>
    obtain ⟨u, rd1⟩ := x
    simp only [bind_run, liftE_ok]
    cases h2 : lzErr rd1.readU16BE with
    | error e => simp
    | ok y =>
      obtain ⟨p, rd2⟩ := y
      simp only [liftE_ok]
      rcases h3 : (if status >>> 5 &&& 3 = 3 then accum.reset else pure accum) s with ⟨s0, r⟩
      cases r with
      | error e => rfl
      | ok a0 =>
        simp only
        cases h4 : propsStage d rd2 (status >>> 5 &&& 3) with
        | error e => simp
        | ok z =>
          obtain ⟨st0, rd3⟩ := z
          simp only [liftE_ok]
          exact (payloadDo_eq _ _ _ _ _ _).symm

theorem propsStage_sim (d : Lzma2Decoder) (rd : Rd) (cls : Nat) (hb : rd.bad = b) :
    SimEG b (propsStage d rd cls) (propsStage d rd.good cls) := by
  unfold propsStage
  split
  · split
    · constructor
      intro x hx
      split at hx
      · cases hx
      · rename_i c rd1 heq
        obtain ⟨e1, p⟩ := (SimE.lzErr (readU8_sim rd hb)).ok_of_ok _ heq
        rw [e1]
        simp only [gd_pair, gd_rd, fl_pair, fl_rd] at p ⊢
        by_cases h225 : c.toNat ≥ 225
        · simp [h225] at hx
        by_cases h4 : c.toNat % 9 + c.toNat / 9 % 5 > 4
        · simp [h225, h4] at hx
        simp only [h225, h4, if_false] at hx ⊢
        cases hst : d.lzmaState.resetState (propsOfByte c) with
        | error e => simp [hst] at hx
        | ok st =>
          simp only [hst] at hx ⊢
          cases hx
          exact ⟨rfl, p⟩
    · sime
  · sime

theorem OM.payloadDo (st : DState) (a0 : Accum) (rd : Rd) (k : Nat) : OM (payloadDo lzProc st a0 rd k) := by
  unfold L2.payloadDo
  simp only [lzProc_eq]
  om
macro_rules | `(tactic| om_step) => `(tactic| with_reducible exact OM.payloadDo _ _ _ _)

theorem payloadDo_sim (st : DState) (a0 : Accum) (rd : Rd) (k : Nat) (hb : rd.bad = b) :
    SimG b (payloadDo lzProc st a0 rd k) (payloadDo lzProc st a0 rd.good k) := by
  unfold payloadDo
  simp only [lzProc_eq]
  sim

theorem parseLzma_sim (d : Lzma2Decoder) (accum : Accum) (rd : Rd) (status : Nat) (hb : rd.bad = b) :
    SimG b (d.parseLzma accum rd status) (d.parseLzma accum rd.good status) := by
  rw [parseLzma_eq_M, parseLzma_eq_M]
  unfold parseLzmaM
  have := @payloadDo_sim
  have := @propsStage_sim
  sim
macro_rules | `(tactic| sim_lem) => `(tactic| with_reducible exact parseLzma_sim _ _ _ _ (by sim_flag))

theorem chunkLoop_sim (fuel : Nat) : ∀ (d : Lzma2Decoder) (accum : Accum) (rd : Rd), rd.bad = b →
    SimG b (chunkLoop fuel d accum rd) (chunkLoop fuel d accum rd.good) := by
  induction fuel with
  | zero => intro d accum rd hb; unfold chunkLoop; sim
  | succ n ih => intro d accum rd hb; unfold chunkLoop; sim
macro_rules | `(tactic| sim_lem) => `(tactic| with_reducible exact chunkLoop_sim _ _ _ _ (by sim_flag))

theorem lzma2Decoder_decompress_sim (d : Lzma2Decoder) (rd : Rd) (hb : rd.bad = b) :
    SimG b (d.decompress rd) (d.decompress rd.good) := by
  unfold Lzma2Decoder.decompress; sim
macro_rules | `(tactic| sim_lem) => `(tactic| with_reducible exact lzma2Decoder_decompress_sim _ _ (by sim_flag))

theorem lzma2Decompress_sim (rd : Rd) (hb : rd.bad = b) :
    SimG b (lzma2Decompress rd) (lzma2Decompress rd.good) := by
  unfold lzma2Decompress; sim


end lzma2

/-! ## XZ -/


theorem parseStreamHeader_sim (rd : Rd) (hb : rd.bad = b) :
    SimEG b (parseStreamHeader rd) (parseStreamHeader rd.good) := by
  unfold parseStreamHeader; sime
macro_rules | `(tactic| sime_lem) => `(tactic| with_reducible exact parseStreamHeader_sim _ (by sim_flag))

theorem getMultibyteAux_sim (fuel : Nat) : ∀ (i result : Nat) (acc : Bytes) (rd : Rd), rd.bad = b →
    SimEG b (getMultibyteAux fuel i result acc rd) (getMultibyteAux fuel i result acc rd.good) := by
  induction fuel with
  | zero => intro i result acc rd hb; unfold getMultibyteAux; sime
  | succ n ih => intro i result acc rd hb; unfold getMultibyteAux; sime
macro_rules | `(tactic| sime_lem) => `(tactic| with_reducible exact getMultibyteAux_sim _ _ _ _ _ (by sim_flag))

theorem getMultibyte_sim (rd : Rd) (hb : rd.bad = b) :
    SimEG b (getMultibyte rd) (getMultibyte rd.good) := by
  unfold getMultibyte; sime
macro_rules | `(tactic| sime_lem) => `(tactic| with_reducible exact getMultibyte_sim _ (by sim_flag))

theorem readZeroBytes_sim (n : Nat) : ∀ (acc : Bytes) (rd : Rd), rd.bad = b →
    SimEG b (readZeroBytes n acc rd) (readZeroBytes n acc rd.good) := by
  induction n with
  | zero => intro acc rd hb; unfold readZeroBytes; sime
  | succ n ih => intro acc rd hb; unfold readZeroBytes; sime
macro_rules | `(tactic| sime_lem) => `(tactic| with_reducible exact readZeroBytes_sim _ _ _ (by sim_flag))

theorem checkRecords_sim (rs : List Record) : ∀ (dig : Bytes) (rd : Rd), rd.bad = b →
    SimEG b (checkRecords rs dig rd) (checkRecords rs dig rd.good) := by
  induction rs with
  | nil => intro dig rd hb; unfold checkRecords; sime
  | cons r rs ih => intro dig rd hb; unfold checkRecords; sime
macro_rules | `(tactic| sime_lem) => `(tactic| with_reducible exact checkRecords_sim _ _ _ (by sim_flag))

theorem checkIndex_sim (start : Nat) (records : List Record) (rd : Rd) (hb : rd.bad = b) :
    SimEG b (checkIndex start records rd) (checkIndex start records rd.good) := by
  unfold checkIndex; sime
macro_rules | `(tactic| sime_lem) => `(tactic| with_reducible exact checkIndex_sim _ _ _ (by sim_flag))


/-- `match e with | .ok x => k x | .error _ => throw e' >>= k'` where `e` is a pair-valued read:
leaves the goal for `k` -/
macro "sime_match" lem:term : tactic => `(tactic|
  (constructor; intro x hx; split at hx <;> first
    | (cases hx; done)
    | (rename_i y hy; obtain ⟨y1, y2⟩ := y; have h := SimE.ok_of_ok $lem _ hy; rw [h.1]
       have hfl := h.2
       simp only [gd_pair, gd_rd, fl_pair, fl_rd] at hfl
       refine SimE.ok_of_ok ?_ x hx)))

macro "sime_rf" : tactic =>
  `(tactic| repeat' (first | sime_match (readExact_sim _ _ (by sim_flag)) | sime_step))

theorem readFilters_sim (n : Nat) : ∀ (hs : Nat) (acc : List Filter) (rd : Rd), rd.bad = b →
    SimEG b (readFilters n hs acc rd) (readFilters n hs acc rd.good) := by
  induction n with
  | zero => intro hs acc rd hb; unfold readFilters; sime
  | succ n ih =>
    intro hs acc rd hb
    unfold readFilters
    sime_rf

macro_rules | `(tactic| sime_lem) => `(tactic| with_reducible exact readFilters_sim _ _ _ _ (by sim_flag))

theorem readBlockHeader_sim (rd : Rd) (hs : Nat) (hb : rd.bad = b) :
    SimEG b (readBlockHeader rd hs) (readBlockHeader rd.good hs) := by
  unfold readBlockHeader; sime
macro_rules | `(tactic| sime_lem) => `(tactic| with_reducible exact readBlockHeader_sim _ _ (by sim_flag))

theorem validateBlockCheck_sim (rd : Rd) (buf : Bytes) (c : CheckMethod) (hb : rd.bad = b) :
    SimEG b (validateBlockCheck rd buf c) (validateBlockCheck rd.good buf c) := by
  cases c <;> (unfold validateBlockCheck; sime)
macro_rules | `(tactic| sime_lem) => `(tactic| with_reducible exact validateBlockCheck_sim _ _ _ (by sim_flag))

theorem decodeFilter_sim (rd : Rd) (f : Filter) (hb : rd.bad = b) :
    SimEG b (decodeFilter rd f) (decodeFilter rd.good f) := by
  unfold decodeFilter
  dsimp only
  split
  · constructor; intro x hx; cases hx
  apply SimE.bindI (SimE.refl _); intro d _
  have h := lzma2Decoder_decompress_sim d rd hb
  constructor
  intro x hx
  split at hx
  · rename_i snk d' rd' heq
    obtain ⟨e1, p⟩ := h.ok heq
    have hxy := Except.ok.inj hx
    subst hxy
    simp only [gd_pair, gd_rd, fl_pair, fl_rd] at e1 p
    rw [e1]
    exact ⟨rfl, p⟩
  · cases hx
macro_rules | `(tactic| sime_lem) => `(tactic| with_reducible exact decodeFilter_sim _ _ (by sim_flag))


def readBlockM (start : Nat) (rd : Rd) (check : CheckMethod) (hsByte : UInt8) : M (Record × Rd) := do
  let headerSize ← liftE (subChk "read_block: (header_size << 2) - 1" (hsByte.toNat <<< 2) 1)
  let x ← liftE (readBlockHeader (rd.split headerSize).1 headerSize)
  let y ← liftE (rd.unsplit x.2 (rd.split headerSize).2).readU32LE
  if y.1 ≠ crc32 (hsByte :: (rd.split headerSize).1.rem) then throwM .xz
  else do
    let z ← liftE (readBlockFilters x.1 y.2)
    match x.1.unpackedSize with
    | some e => if z.1.length ≠ e then throwM .xz else readBlockTail start z.2 z.1 check
    | none => readBlockTail start z.2 z.1 check

theorem readBlock_eq_M (start : Nat) (rd : Rd) (check : CheckMethod) (hsByte : UInt8) :
    readBlock start rd check hsByte = readBlockM start rd check hsByte := by
  funext s
  unfold readBlock readBlockM
  cases h0 : subChk "read_block: (header_size << 2) - 1" (hsByte.toNat <<< 2) 1 with
  | error e => simp [bind_run]
  | ok headerSize =>
    simp only [bind_run, liftE_ok]
    cases h1 : readBlockHeader (rd.split headerSize).1 headerSize with
    | error e => simp
    | ok x =>
      simp only [liftE_ok]
      cases h2 : (rd.unsplit x.2 (rd.split headerSize).2).readU32LE with
      | error e => simp
      | ok y =>
        simp only [liftE_ok]
        split
        · simp [bind_run]
        · unfold readBlockFilters readBlockTail
          simp only [bind_run]
          split
          · rename_i h3
            split
            · rename_i h4
              have h4 := h3.symm.trans h4
              cases h4
              rename_i s1 a1 _
              cases hu : x.fst.unpackedSize with
              | none => rfl
              | some e =>
                dsimp only
                by_cases hc : a1.fst.length ≠ e
                · simp [hc, bind_run]
                · rw [if_neg hc, if_neg hc]
            · rename_i h4
              have h4 := h3.symm.trans h4
              cases h4
          · rename_i h3
            split
            · rename_i h4
              have h4 := h3.symm.trans h4
              cases h4
            · rename_i h4
              have h4 := h3.symm.trans h4
              cases h4
              rfl


theorem readBlockFilters_sim (bh : BlockHeader) (rd : Rd) (hb : rd.bad = b) :
    SimEG b (readBlockFilters bh rd) (readBlockFilters bh rd.good) := by
  unfold readBlockFilters; sime
macro_rules | `(tactic| sime_lem) => `(tactic| with_reducible exact readBlockFilters_sim _ _ (by sim_flag))

theorem readBlockTail_sim (start : Nat) (rd : Rd) (tmpbuf : Bytes) (check : CheckMethod) (hb : rd.bad = b) :
    SimG b (readBlockTail start rd tmpbuf check) (readBlockTail start rd.good tmpbuf check) := by
  unfold readBlockTail; sim
macro_rules | `(tactic| sim_lem) => `(tactic| with_reducible exact readBlockTail_sim _ _ _ _ (by sim_flag))

theorem OM.readBlockTail (start : Nat) (rd : Rd) (tmpbuf : Bytes) (check : CheckMethod) :
    OM (readBlockTail start rd tmpbuf check) := by
  unfold Lzma.readBlockTail; om
macro_rules | `(tactic| om_step) => `(tactic| with_reducible exact OM.readBlockTail _ _ _ _)

theorem readBlock_sim (start : Nat) (rd : Rd) (check : CheckMethod) (hsByte : UInt8) (hb : rd.bad = b) :
    SimG b (readBlock start rd check hsByte) (readBlock start rd.good check hsByte) := by
  rw [readBlock_eq_M, readBlock_eq_M]
  unfold readBlockM
  sim

macro_rules | `(tactic| sim_lem) => `(tactic| with_reducible exact readBlock_sim _ _ _ _ (by sim_flag))

theorem blockLoop_sim (check : CheckMethod) (fuel : Nat) : ∀ (records : List Record) (rd : Rd), rd.bad = b →
    SimG b (blockLoop check fuel records rd) (blockLoop check fuel records rd.good) := by
  induction fuel with
  | zero => intro records rd hb; unfold blockLoop; sim
  | succ n ih => intro records rd hb; unfold blockLoop; sim
macro_rules | `(tactic| sim_lem) => `(tactic| with_reducible exact blockLoop_sim _ _ _ _ (by sim_flag))

theorem xzDecompress_sim (rd : Rd) (hb : rd.bad = b) :
    SimG b (xzDecompress rd) (xzDecompress rd.good) := by
  unfold xzDecompress
  sim


end auto

/-! ## decoders that end by probing for the end of input return a fault-free reader -/

section eof
open Lzma.L2 DState
variable {ω : Type} [LzBuf ω]

/-- `applySym` reports `finished` only after `is_finished_ok`, which on a faulty reader at the
end of its data is an I/O error -/
theorem applySym_finished_good {st : DState} {w : ω} {rc : RC} {rd : Rd} {sym : RawSym}
    {s s' : Sink} {status : Status} {st' : DState} {w' : ω}
    (h : applySym st w rc rd sym s = (s', .ok (status, st', w'))) :
    status = .finished → rd.rem = [] ∧ rd.bad = false := by
  cases sym with
  | lit byte =>
    simp only [applySym] at h
    obtain ⟨a, s1, -, h2⟩ := bind_ok_inv h
    simp at h2; rw [← h2.2.1]; simp
  | shortRep =>
    simp only [applySym] at h
    obtain ⟨a, s1, -, h2⟩ := bind_ok_inv h
    simp at h2; rw [← h2.2.1]; simp
  | rep idx len =>
    simp only [applySym] at h
    obtain ⟨a, s1, -, h2⟩ := bind_ok_inv h
    simp at h2; rw [← h2.2.1]; simp
  | mtch len r0 =>
    simp only [applySym] at h
    split at h
    · obtain ⟨fin, s1, h1, h2⟩ := bind_ok_inv h
      split at h2
      · rename_i hf
        intro _
        subst hf
        exact (isFinishedOk_true_iff.1 (liftE_ok_inv h1).1).2
      · simp at h2
    · obtain ⟨a, s1, -, h2⟩ := bind_ok_inv h
      simp at h2; rw [← h2.2.1]; simp

theorem processNext_finished_good {st : DState} {w : ω} {rc : RC} {rd : Rd}
    {s s' : Sink} {status : Status} {st' : DState} {w' : ω} {rc' : RC} {rd' : Rd}
    (h : processNext st w rc rd s = (s', .ok (status, st', w', rc', rd'))) :
    status = .finished → rd'.rem = [] ∧ rd'.bad = false := by
  simp only [processNext] at h
  obtain ⟨⟨sym, probs, rc1, rd1⟩, s1, -, h2⟩ := bind_ok_inv h
  obtain ⟨⟨st2, s2, w2⟩, s3, h3, h4⟩ := bind_ok_inv h2
  simp at h4
  obtain ⟨rfl, rfl, rfl, rfl, rfl, rfl⟩ := h4
  exact applySym_finished_good h3

/-- In `Finish` mode with no size in effect and an empty `partial_input_buf`, both exits of the
`process_mode` loop go through a successful `is_eof`: the reader returned is not faulty. -/
theorem processLoop_finish_none_good (fuel : Nat) :
    ∀ {st : DState} {w : ω} {rc : RC} {rd : Rd} {s s' : Sink}
      {st' : DState} {w' : ω} {rc' : RC} {rd' : Rd},
      processLoop .finish fuel st w rc rd s = (s', .ok (st', w', rc', rd')) →
      st.unpackedSize = none → st.partialBuf = [] → rd'.rem = [] ∧ rd'.bad = false := by
  induction fuel with
  | zero => intro st w rc rd s s' st' w' rc' rd' h; simp [processLoop] at h
  | succ fuel ih =>
    intro st w rc rd s s' st' w' rc' rd' h hn hp
    simp only [processLoop] at h
    obtain ⟨stop, s1, h0, h⟩ := bind_ok_inv h
    have h0' := (liftE_ok_inv h0).1
    rw [hn] at h0'
    simp only [show ¬ (Mode.finish = Mode.stream) by decide] at h
    split at h
    · rename_i hstop
      simp at h
      obtain ⟨-, -, -, -, rfl⟩ := h
      cases hf : rc.isFinishedOk rd with
      | error e => simp [hf, bind, Except.bind] at h0'
      | ok f =>
        simp [hf, bind, Except.bind, pure, Except.pure] at h0'
        subst h0'
        simp at hstop
        exact (isFinishedOk_true_iff.1 (by rw [hf, hstop.1])).2
    · rw [hp] at h
      simp only [List.isEmpty_nil, Bool.not_true, Bool.false_eq_true, if_false, false_and] at h
      obtain ⟨_, s2, -, h⟩ := bind_ok_inv h
      obtain ⟨⟨status, st2, w2, rc2, rd2⟩, s3, h2, h⟩ := bind_ok_inv h
      obtain ⟨e1, -⟩ := processNext_partialBuf_finished h2
      have e2 := processNext_finished_good h2
      have e3 := processNext_unpackedSize h2
      dsimp only at h
      split at h
      · rename_i hfin
        simp at h
        obtain ⟨-, -, -, -, rfl⟩ := h
        exact e2 hfin
      · exact ih h (by rw [e3, hn]) (by rw [e1, hp])

theorem processMode_finish_none_good {st : DState} {w : ω} {rc : RC} {rd : Rd} {s s' : Sink}
    {st' : DState} {w' : ω} {rc' : RC} {rd' : Rd}
    (h : processMode .finish st w rc rd s = (s', .ok (st', w', rc', rd')))
    (hn : st.unpackedSize = none) (hp : st.partialBuf = []) : rd'.rem = [] ∧ rd'.bad = false := by
  simp only [processMode] at h
  obtain ⟨⟨st1, w1, rc1, rd1⟩, s1, h1, h⟩ := bind_ok_inv h
  have e := processLoop_unpackedSize _ _ h1
  have r := processLoop_finish_none_good _ h1 hn hp
  dsimp only at h
  rw [e, hn] at h
  simp at h
  rw [← h.2.2.2.2]; exact r

end eof

/-- `lzma_decompress` with no unpacked size in effect returns, on success, a reader that is at
the end of its data and is not faulty (its last operation was a successful `is_eof`) -/
theorem lzmaDecompress_no_size_good {rd rd' : Rd} {opts : Options} {s s' : Sink}
    (h : lzmaDecompress rd opts s = (s', .ok rd'))
    (hn : ∀ params rd1, readHeader rd opts = .ok (params, rd1) → params.unpackedSize = none) :
    rd'.rem = [] ∧ rd'.bad = false := by
  open Lzma.L2 in
  unfold lzmaDecompress at h
  obtain ⟨⟨params, rd1⟩, s1, h1, h⟩ := bind_ok_inv h
  have hnone := hn params rd1 (liftE_ok_inv h1).1
  obtain ⟨dec, s2, h2, h⟩ := bind_ok_inv h
  obtain ⟨⟨dec', rd2⟩, s3, h3, h⟩ := bind_ok_inv h
  simp at h
  obtain ⟨-, rfl⟩ := h
  have hdec := (liftE_ok_inv h2).1
  unfold LzmaDecoder.new at hdec
  split at hdec
  · simp [bind, Except.bind, throw, throwThe, MonadExceptOf.throw] at hdec
  obtain ⟨st, hst, hdec⟩ := Except.bind_ok_inv hdec
  simp [pure, Except.pure] at hdec
  unfold DState.new at hst
  obtain ⟨_, -, hst⟩ := Except.bind_ok_inv hst
  simp [pure, Except.pure] at hst
  have hs1 : dec.state.unpackedSize = none := by rw [← hdec, ← hst]; exact hnone
  have hs2 : dec.state.partialBuf = [] := by rw [← hdec, ← hst]
  unfold LzmaDecoder.decompress at h3
  obtain ⟨⟨rc, rd3⟩, s4, -, h3⟩ := bind_ok_inv h3
  obtain ⟨⟨st', w', rc', rd4⟩, s5, h4, h3⟩ := bind_ok_inv h3
  obtain ⟨_, s6, -, h3⟩ := bind_ok_inv h3
  simp at h3
  obtain ⟨-, -, rfl⟩ := h3
  exact processMode_finish_none_good h4 hs1 hs2

theorem isEof_true_good {r : Rd} (h : r.isEof = .ok true) : r.rem = [] ∧ r.bad = false := by
  unfold Rd.isEof at h
  cases hr : r.rem <;> cases hbad : r.bad <;> simp_all

/-- `xz_decompress` returns, on success, a reader that is at the end of its data and is not
faulty (its last operation was a successful `is_eof`) -/
theorem xzDecompress_ok_good {rd rd' : Rd} {s s' : Sink}
    (h : xzDecompress rd s = (s', .ok rd')) : rd'.rem = [] ∧ rd'.bad = false := by
  open Lzma.L2 in
  unfold xzDecompress at h
  obtain ⟨⟨check, rd1⟩, s1, -, h⟩ := bind_ok_inv h
  dsimp only at h
  split at h
  · exact (throwM_bind_ok h).elim
  obtain ⟨⟨indexSize, rd2⟩, s2, -, h⟩ := bind_ok_inv h
  obtain ⟨⟨crc, rd3⟩, s3, -, h⟩ := bind_ok_inv h
  obtain ⟨⟨bsBytes, rd4⟩, s4, -, h⟩ := bind_ok_inv h
  dsimp only at h
  split at h
  · exact (throwM_bind_ok h).elim
  obtain ⟨⟨flagBytes, rd5⟩, s5, -, h⟩ := bind_ok_inv h
  obtain ⟨flags, s6, -, h⟩ := bind_ok_inv h
  dsimp only at h
  split at h
  · exact (throwM_bind_ok h).elim
  split at h
  · exact (throwM_bind_ok h).elim
  obtain ⟨⟨ok, rd6⟩, s7, -, h⟩ := bind_ok_inv h
  dsimp only at h
  split at h
  · exact (throwM_bind_ok h).elim
  obtain ⟨eof, s8, h8, h⟩ := bind_ok_inv h
  split at h
  · exact (throwM_bind_ok h).elim
  rename_i hne
  simp at h hne
  obtain ⟨-, rfl⟩ := h
  have := (liftE_ok_inv h8).1
  subst hne
  exact isEof_true_good this

end SF
end Lzma
