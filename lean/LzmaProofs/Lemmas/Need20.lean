/-
  C05 (L3) — the 20-byte look-ahead bound, arithmetic and generic part.

  One probability-coded bit shrinks `range` by at most the factor
  `253921 / 2^24` (`253921 = 31 * 8191`), one direct bit by at most
  `(2^24 - 1) / 2^25`; every consumed input byte multiplies `range` by exactly
  256, and `2^24 ≤ range < 2^32` between bits.  Hence along a run with `a`
  probability bits, `b` direct bits and `n` consumed bytes

      range₀ * 253921^a * (2^24-1)^b * 256^n ≤ range * 2^(24a + 25b)

  which bounds `n` for every tree with a bound on `a` and `b` (`BitBound`).
-/
import LzmaProofs.Lemmas.SafetyTree
namespace Lzma
namespace Need20
open Safety

/-! ## pure arithmetic -/

/-- numerator of the shrink factor of `a` probability bits and `b` direct bits -/
def W (a b : Nat) : Nat := 253921 ^ a * 16777215 ^ b
/-- denominator of the shrink factor -/
def D (a b : Nat) : Nat := 2 ^ (24 * a + 25 * b)

theorem W_zero : W 0 0 = 1 := rfl
theorem D_zero : D 0 0 = 1 := rfl
theorem W_succ_a (a b : Nat) : W (a + 1) b = 253921 * W a b := by
  simp only [W, Nat.pow_succ]; ac_rfl
theorem W_succ_b (a b : Nat) : W a (b + 1) = 16777215 * W a b := by
  simp only [W, Nat.pow_succ]; ac_rfl
theorem D_succ_a (a b : Nat) : D (a + 1) b = D a b * 16777216 := by
  have e : 24 * (a + 1) + 25 * b = (24 * a + 25 * b) + 24 := by omega
  simp only [D, e, Nat.pow_add]
theorem D_succ_b (a b : Nat) : D a (b + 1) = D a b * 33554432 := by
  have e : 24 * a + 25 * (b + 1) = (24 * a + 25 * b) + 25 := by omega
  simp only [D, e, Nat.pow_add]
theorem D_pos (a b : Nat) : 0 < D a b := Nat.pow_pos (by omega)

/-- chaining one bit (`r0 → r1`, factor `k/d`, `Pm = 256^m`) with the rest of the run -/
theorem chain_le {r0 r1 r2 k d Wt Dt Pm P : Nat} (h1 : r0 * k * Pm ≤ r1 * d)
    (h2 : r1 * Wt * P ≤ r2 * Dt) : r0 * (k * Wt) * (Pm * P) ≤ r2 * (Dt * d) := by
  have e1 : r0 * (k * Wt) * (Pm * P) = (r0 * k * Pm) * (Wt * P) := by ac_rfl
  have e2 : r1 * d * (Wt * P) = (r1 * Wt * P) * d := by ac_rfl
  have e3 : r2 * (Dt * d) = r2 * Dt * d := by ac_rfl
  rw [e1, e3]
  exact Nat.le_trans (Nat.mul_le_mul_right _ h1) (e2 ▸ Nat.mul_le_mul_right _ h2)

theorem chain_lt {r0 r1 k d Wt Dt Pm P T : Nat} (hd : 0 < d) (h1 : r0 * k * Pm ≤ r1 * d)
    (h2 : r1 * Wt * P < T * Dt) : r0 * (k * Wt) * (Pm * P) < T * (Dt * d) := by
  have e1 : r0 * (k * Wt) * (Pm * P) = (r0 * k * Pm) * (Wt * P) := by ac_rfl
  have e2 : r1 * d * (Wt * P) = (r1 * Wt * P) * d := by ac_rfl
  have e3 : T * (Dt * d) = T * Dt * d := by ac_rfl
  rw [e1, e3]
  exact Nat.lt_of_le_of_lt (Nat.mul_le_mul_right _ h1) (e2 ▸ Nat.mul_lt_mul_of_pos_right h2 hd)

/-- the per-bit factors are below 1: a bound for fewer bits is a bound for more bits -/
theorem W_D_mono (a' b' : Nat) : ∀ d e, W (a' + d) (b' + e) * D a' b' ≤ W a' b' * D (a' + d) (b' + e)
  | 0, 0 => by simp [Nat.mul_comm]
  | 0, e + 1 => by
    have ih := W_D_mono a' b' 0 e
    rw [← Nat.add_assoc, W_succ_b, D_succ_b]
    have e1 : 16777215 * W (a' + 0) (b' + e) * D a' b' = (W (a' + 0) (b' + e) * D a' b') * 16777215 := by
      ac_rfl
    have e2 : W a' b' * (D (a' + 0) (b' + e) * 33554432) = (W a' b' * D (a' + 0) (b' + e)) * 33554432 := by
      ac_rfl
    rw [e1, e2]
    exact Nat.mul_le_mul ih (by omega)
  | d + 1, e => by
    have ih := W_D_mono a' b' d e
    rw [← Nat.add_assoc, W_succ_a, D_succ_a]
    have e1 : 253921 * W (a' + d) (b' + e) * D a' b' = (W (a' + d) (b' + e) * D a' b') * 253921 := by
      ac_rfl
    have e2 : W a' b' * (D (a' + d) (b' + e) * 16777216) = (W a' b' * D (a' + d) (b' + e)) * 16777216 := by
      ac_rfl
    rw [e1, e2]
    exact Nat.mul_le_mul ih (by omega)

theorem W_D_mono' {a' b' a b : Nat} (ha : a' ≤ a) (hb : b' ≤ b) :
    W a b * D a' b' ≤ W a' b' * D a b := by
  have := W_D_mono a' b' (a - a') (b - b')
  rwa [Nat.add_sub_cancel' ha, Nat.add_sub_cancel' hb] at this

/-- lifting a strict bound from the actual counts `(a', b')` to a dominating pair `(A, B)` -/
theorem lift_lt_dom {a' b' A B X Y : Nat} (hm : W A B * D a' b' ≤ W a' b' * D A B)
    (h : X * W a' b' < Y * D a' b') : X * W A B < Y * D A B := by
  have hpos := D_pos a' b'
  apply Nat.lt_of_mul_lt_mul_right (a := D a' b')
  have e1 : X * W A B * D a' b' = X * (W A B * D a' b') := by ac_rfl
  have e2 : Y * D A B * D a' b' = (Y * D a' b') * D A B := by ac_rfl
  have e3 : X * (W a' b' * D A B) = (X * W a' b') * D A B := by ac_rfl
  rw [e1, e2]
  exact Nat.lt_of_le_of_lt (Nat.mul_le_mul_left _ hm)
    (e3 ▸ Nat.mul_lt_mul_of_pos_right h (D_pos A B))

/-- if `n` bytes were consumed on a path with counts `(a', b')` dominated by `(A, B)`,
and `N + 1` bytes are impossible for `(A, B)`, then `n ≤ N` -/
theorem count_le {a' b' A B N n r : Nat} (hr : 16777216 ≤ r)
    (hm : W A B * D a' b' ≤ W a' b' * D A B)
    (hN : 2 ^ 32 * D A B ≤ 256 ^ (N + 1) * 2 ^ 24 * W A B)
    (h : r * W a' b' * 256 ^ n < 4294967296 * D a' b') : n ≤ N := by
  have h1 : 256 ^ n * 2 ^ 24 * W a' b' ≤ r * W a' b' * 256 ^ n := by
    have e : 256 ^ n * 2 ^ 24 * W a' b' = 2 ^ 24 * (W a' b' * 256 ^ n) := by ac_rfl
    rw [e, Nat.mul_assoc]
    exact Nat.mul_le_mul_right _ hr
  have h2 : 256 ^ n * 2 ^ 24 * W A B < 2 ^ 32 * D A B :=
    lift_lt_dom hm (Nat.lt_of_le_of_lt h1 h)
  have h3 : 256 ^ n * (2 ^ 24 * W A B) < 256 ^ (N + 1) * (2 ^ 24 * W A B) := by
    rw [← Nat.mul_assoc, ← Nat.mul_assoc]
    exact Nat.lt_of_lt_of_le h2 hN
  have h4 : 256 ^ n < 256 ^ (N + 1) := Nat.lt_of_mul_lt_mul_right h3
  have := (Nat.pow_lt_pow_iff_right (by omega : 1 < 256)).1 h4
  omega

/-! ## one bit -/

/-- not an end-of-data error -/
def NoEnd (e : Err) : Prop := e ≠ .eof ∧ e ≠ .io

theorem NoEnd.ne_endErr {e : Err} (h : NoEnd e) (rd : Rd) : e ≠ rd.endErr := by
  unfold Rd.endErr; split
  · exact h.2
  · exact h.1

theorem NoEnd_panic (w : String) : NoEnd (.panic w) := ⟨by simp, by simp⟩
theorem NoEnd_fuel : NoEnd .fuel := ⟨by simp, by simp⟩
theorem NoEnd_lzma : NoEnd .lzma := ⟨by simp, by simp⟩

/-- What one bit with shrink factor `num / den` does to `(range, reader)`:
on success `m ∈ {0, 1}` bytes are consumed and
`range * num * 256^m ≤ range' * den`; an end-of-data error means that the
reader was empty although one more byte was due. -/
def BitSpec (num den : Nat) (rc : RC) (rd : Rd) : Except Err (RC × Rd) → Prop
  | .ok (rc', rd') => rd'.bad = rd.bad ∧ ∃ m, rd'.rem.length + m = rd.rem.length ∧
      rc.range * num * 256 ^ m ≤ rc'.range * den
  | .error e => e = rd.endErr → rd.rem.length = 0 ∧ rc.range * num * 256 < 4294967296 * den

/-- `normalize` of a pre-normalisation range `r1` with `r0 * num ≤ r1 * den` -/
theorem normalize_spec {num den : Nat} (rc0 rc1 : RC) (rd : Rd) (hden : 0 < den)
    (h : rc0.range * num ≤ rc1.range * den) :
    BitSpec num den rc0 rd (RC.normalize rc1 rd) := by
  unfold RC.normalize
  split
  · rename_i hsm
    unfold Rd.readU8
    split
    · rename_i b rest hrem
      refine ⟨rfl, 1, by simp [hrem], ?_⟩
      have e : shlU32 rc1.range 8 = rc1.range * 256 := by
        simp only [shlU32, U32, Nat.shiftLeft_eq]; omega
      show rc0.range * num * 256 ^ 1 ≤ shlU32 rc1.range 8 * den
      rw [e, Nat.pow_one, Nat.mul_right_comm rc1.range 256 den]
      exact Nat.mul_le_mul_right _ h
    · rename_i hrem
      intro _
      refine ⟨by simp [hrem], ?_⟩
      have h2 : rc1.range * den ≤ 16777215 * den := Nat.mul_le_mul_right _ (by omega)
      generalize rc0.range * num = A at *
      generalize rc1.range * den = X at *
      omega
  · exact ⟨rfl, 0, by simp, by simpa using h⟩

theorem BitSpec_bind {α : Type} {num den : Nat} {rc : RC} {rd : Rd} (π : α → RC × Rd)
    {N : Except Err (RC × Rd)} {g : RC × Rd → Except Err α} (h : BitSpec num den rc rd N)
    (hg : ∀ y, (g y).map π = .ok y) : BitSpec num den rc rd ((N >>= g).map π) := by
  cases N with
  | ok y => show BitSpec num den rc rd ((g y).map π); rw [hg y]; exact h
  | error e => exact h

/-- a direct bit: factor `(2^24 - 1) / 2^25` -/
theorem getBit_spec (rc : RC) (rd : Rd) (h : RCInv rc) :
    BitSpec 16777215 33554432 rc rd ((RC.getBit rc rd).map (fun x => x.2)) := by
  unfold RC.getBit
  obtain ⟨h1, h2, h3⟩ := h
  have hr : rc.range >>> 1 = rc.range / 2 := by simp [Nat.shiftRight_eq_div_pow]
  refine BitSpec_bind _ (normalize_spec rc _ rd (by omega) ?_) ?_
  · show rc.range * 16777215 ≤ (rc.range >>> 1) * 33554432
    rw [hr]; omega
  · rintro ⟨a, b⟩; rfl

/-- a probability bit: factor `31 * 8191 / 2^24` -/
theorem decodeBit_spec (u : Bool) (p : Nat) (rc : RC) (rd : Rd) (hp : PVal p) (h : RCInv rc) :
    BitSpec 253921 16777216 rc rd ((RC.decodeBit u p rc rd).map (fun x => x.2.2)) := by
  unfold RC.decodeBit
  obtain ⟨h1, h2, h3⟩ := h
  have hp' := hp
  obtain ⟨hp1, hp2⟩ := hp'
  have hq : rc.range >>> 11 = rc.range / 2048 := by simp [Nat.shiftRight_eq_div_pow]
  have hb1 : rc.range / 2048 * 31 ≤ rc.range / 2048 * p := Nat.mul_le_mul_left _ hp1
  have hb2 : rc.range / 2048 * p ≤ rc.range / 2048 * 2017 := Nat.mul_le_mul_left _ hp2
  rw [hq]
  generalize hbd : rc.range / 2048 * p = bound at *
  have hmul : mulChk U32 "decode_bit: bound overflow" (rc.range / 2048) p = .ok bound := by
    rw [← hbd]; apply mulChk_safe; rw [hbd]; simp only [U32]; omega
  rw [hmul]
  show BitSpec _ _ rc rd (Except.map _ (if rc.code < bound then _ else _))
  split
  · rename_i hlt
    have hup := PVal_up hp
    have key : ∀ p' : Nat, BitSpec 253921 16777216 rc rd
        (Except.map (fun x : Bool × Nat × RC × Rd => x.2.2)
        (do let (rc', rd') ← RC.normalize { range := bound, code := rc.code } rd
            pure (false, p', rc', rd'))) := by
      intro p'
      refine BitSpec_bind _ (normalize_spec rc _ rd (by omega) ?_) ?_
      · show rc.range * 253921 ≤ bound * 16777216
        omega
      · rintro ⟨a, b⟩; rfl
    cases u
    · exact key p
    · simp only [if_true]
      rw [subChk_safe (by omega)]
      simp only [ok_bind]
      rw [addChk_safe (by unfold PVal at hup; simp only [U16]; omega)]
      exact key _
  · rename_i hge
    rw [subChk_safe (by omega)]
    simp only [ok_bind]
    rw [subChk_safe (by omega)]
    simp only [ok_bind]
    refine BitSpec_bind _ (normalize_spec rc _ rd (by omega) ?_) ?_
    · show rc.range * 253921 ≤ (rc.range - bound) * 16777216
      omega
    · rintro ⟨a, b⟩; rfl

/-! ## trees with a bound on the bits of every path -/

/-- every root-to-leaf path of the tree has at most `a` probability bits and at
most `b` direct bits; every returned value satisfies `Q`; no `.fail` leaf
carries an end-of-data error -/
inductive BitBound {ι α : Type} (Q : α → Prop) : Nat → Nat → Coder ι α → Prop
  | ret {a b : Nat} {x : α} : Q x → BitBound Q a b (.ret x)
  | fail {a b : Nat} {e : Err} : NoEnd e → BitBound Q a b (.fail e)
  | bit {a b : Nat} {i : ι} {k : Bool → Coder ι α} :
      (∀ c, BitBound Q a b (k c)) → BitBound Q (a + 1) b (.bit i k)
  | direct {a b : Nat} {k : Bool → Coder ι α} :
      (∀ c, BitBound Q a b (k c)) → BitBound Q a (b + 1) (.direct k)

theorem BitBound.mono {ι α : Type} {Q Q' : α → Prop} {a b : Nat} {t : Coder ι α}
    (h : BitBound Q a b t) : ∀ {a' b' : Nat}, a ≤ a' → b ≤ b' → (∀ x, Q x → Q' x) →
      BitBound Q' a' b' t := by
  induction h with
  | ret hq => intro a' b' _ _ hQ; exact .ret (hQ _ hq)
  | fail he => intro a' b' _ _ _; exact .fail he
  | bit _ ih =>
    intro a' b' ha hb hQ
    obtain ⟨a'', rfl⟩ : ∃ a'', a' = a'' + 1 := ⟨a' - 1, by omega⟩
    exact .bit (fun c => ih c (by omega) hb hQ)
  | direct _ ih =>
    intro a' b' ha hb hQ
    obtain ⟨b'', rfl⟩ : ∃ b'', b' = b'' + 1 := ⟨b' - 1, by omega⟩
    exact .direct (fun c => ih c ha (by omega) hQ)

/-- bounds add under sequencing -/
theorem BitBound.bind {ι α β : Type} {Q : α → Prop} {Q' : β → Prop} {a b a2 b2 : Nat}
    {t : Coder ι α} {f : α → Coder ι β} (h : BitBound Q a b t)
    (hf : ∀ x, Q x → BitBound Q' a2 b2 (f x)) : BitBound Q' (a + a2) (b + b2) (t.bind f) := by
  induction h with
  | ret hq => exact (hf _ hq).mono (by omega) (by omega) (fun _ h => h)
  | fail he => exact .fail he
  | @bit a b i k _ ih =>
    have e : a + 1 + a2 = (a + a2) + 1 := by omega
    rw [e]; exact .bit ih
  | @direct a b k _ ih =>
    have e : b + 1 + b2 = (b + b2) + 1 := by omega
    rw [e]; exact .direct ih

theorem BitBound.map {ι α β : Type} {Q : α → Prop} {Q' : β → Prop} {a b : Nat}
    {t : Coder ι α} {f : α → β} (h : BitBound Q a b t) (hf : ∀ x, Q x → Q' (f x)) :
    BitBound Q' a b (t.map f) :=
  BitBound.bind (a2 := 0) (b2 := 0) h (fun x hx => .ret (hf x hx))

theorem BitBound_ofExcept {ι α : Type} {Q : α → Prop} {a b : Nat} {x : Except Err α}
    (hok : ∀ v, x = .ok v → Q v) (herr : ∀ e, x = .error e → NoEnd e) :
    BitBound Q a b (Coder.ofExcept x : Coder ι α) := by
  cases x with
  | ok v => exact .ret (hok v rfl)
  | error e => exact .fail (herr e rfl)

/-! ## the general form: a predicate on the bit counts of path prefixes -/

/-- `P a b` holds for the numbers `(a, b)` of probability / direct bits of every
path prefix (from the root of the tree to any node); every returned value
satisfies `Q`; no `.fail` leaf carries an end-of-data error.  (`BitBound Q a b`
is the special case `P a' b' := a' ≤ a ∧ b' ≤ b`; the general form is needed
because the longest path of the symbol decoder in probability bits – 23, with a
`pos_slot` of 12 or 13 – is not the one with the 26 direct bits.) -/
inductive PathBound {ι α : Type} (Q : α → Prop) : (Nat → Nat → Prop) → Coder ι α → Prop
  | ret {P : Nat → Nat → Prop} {x : α} : P 0 0 → Q x → PathBound Q P (.ret x)
  | fail {P : Nat → Nat → Prop} {e : Err} : P 0 0 → NoEnd e → PathBound Q P (.fail e)
  | bit {P : Nat → Nat → Prop} {i : ι} {k : Bool → Coder ι α} : P 0 0 →
      (∀ c, PathBound Q (fun a b => P (a + 1) b) (k c)) → PathBound Q P (.bit i k)
  | direct {P : Nat → Nat → Prop} {k : Bool → Coder ι α} : P 0 0 →
      (∀ c, PathBound Q (fun a b => P a (b + 1)) (k c)) → PathBound Q P (.direct k)

theorem PathBound.root {ι α : Type} {Q : α → Prop} {P : Nat → Nat → Prop} {t : Coder ι α}
    (h : PathBound Q P t) : P 0 0 := by
  cases h <;> assumption

theorem PathBound.mono {ι α : Type} {Q Q' : α → Prop} {P : Nat → Nat → Prop} {t : Coder ι α}
    (h : PathBound Q P t) : ∀ {P' : Nat → Nat → Prop}, (∀ a b, P a b → P' a b) →
      (∀ x, Q x → Q' x) → PathBound Q' P' t := by
  induction h with
  | ret h0 hq => intro P' hP hQ; exact .ret (hP _ _ h0) (hQ _ hq)
  | fail h0 he => intro P' hP _; exact .fail (hP _ _ h0) he
  | bit h0 _ ih => intro P' hP hQ; exact .bit (hP _ _ h0) (fun c => ih c (fun a b => hP _ _) hQ)
  | direct h0 _ ih =>
    intro P' hP hQ; exact .direct (hP _ _ h0) (fun c => ih c (fun a b => hP _ _) hQ)

theorem BitBound.pathBound {ι α : Type} {Q : α → Prop} {a b : Nat} {t : Coder ι α}
    (h : BitBound Q a b t) : ∀ {P : Nat → Nat → Prop}, (∀ a' b', a' ≤ a → b' ≤ b → P a' b') →
      PathBound Q P t := by
  induction h with
  | ret hq => intro P hP; exact .ret (hP 0 0 (Nat.zero_le _) (Nat.zero_le _)) hq
  | fail he => intro P hP; exact .fail (hP 0 0 (Nat.zero_le _) (Nat.zero_le _)) he
  | bit _ ih =>
    intro P hP
    exact .bit (hP 0 0 (Nat.zero_le _) (Nat.zero_le _))
      (fun c => ih c (fun a' b' ha hb => hP _ _ (by omega) hb))
  | direct _ ih =>
    intro P hP
    exact .direct (hP 0 0 (Nat.zero_le _) (Nat.zero_le _))
      (fun c => ih c (fun a' b' ha hb => hP _ _ ha (by omega)))

/-- sequencing: a `BitBound` prefix, then a continuation checked from the counts reached -/
theorem PathBound.bind {ι α β : Type} {Q : α → Prop} {Q' : β → Prop} {a b : Nat}
    {t : Coder ι α} {f : α → Coder ι β} (h : BitBound Q a b t) :
    ∀ {P : Nat → Nat → Prop}, (∀ a' b', a' ≤ a → b' ≤ b → P a' b') →
      (∀ x a' b', Q x → a' ≤ a → b' ≤ b → PathBound Q' (fun a2 b2 => P (a' + a2) (b' + b2)) (f x)) →
      PathBound Q' P (t.bind f) := by
  induction h with
  | ret hq =>
    intro P _ hf
    refine (hf _ 0 0 hq (Nat.zero_le _) (Nat.zero_le _)).mono ?_ (fun _ h => h)
    intro a2 b2 h
    simpa using h
  | fail he => intro P hP _; exact .fail (hP 0 0 (Nat.zero_le _) (Nat.zero_le _)) he
  | bit _ ih =>
    intro P hP hf
    refine .bit (hP 0 0 (Nat.zero_le _) (Nat.zero_le _)) (fun c => ih c ?_ ?_)
    · intro a' b' ha hb; exact hP _ _ (by omega) hb
    · intro x a' b' hq ha hb
      refine (hf x (a' + 1) b' hq (by omega) hb).mono ?_ (fun _ h => h)
      intro a2 b2 h
      have e : a' + 1 + a2 = a' + a2 + 1 := by omega
      rw [e] at h; exact h
  | direct _ ih =>
    intro P hP hf
    refine .direct (hP 0 0 (Nat.zero_le _) (Nat.zero_le _)) (fun c => ih c ?_ ?_)
    · intro a' b' ha hb; exact hP _ _ ha (by omega)
    · intro x a' b' hq ha hb
      refine (hf x a' (b' + 1) hq ha (by omega)).mono ?_ (fun _ h => h)
      intro a2 b2 h
      have e : b' + 1 + b2 = b' + b2 + 1 := by omega
      rw [e] at h; exact h

/-! ## the interpreter on a bounded tree -/

/-- what the bound needs from a probability store with invariant `I` -/
structure StoreOk {σ ι : Type} [ProbStore σ ι] (I : σ → Prop) : Prop where
  get_ok : ∀ s i v, I s → ProbStore.get s i = .ok v → PVal v
  get_err : ∀ s i e, I s → ProbStore.get s i = .error e → NoEnd e
  set_ok : ∀ s i v, I s → PVal v → I (ProbStore.set s i v)

/-- The run invariant.  On success: the path taken has `a'` probability bits and
`b'` direct bits with `P a' b'`, `n` bytes were consumed and
`range * W a' b' * 256^n ≤ range' * D a' b'`.
On an end-of-data error: the whole reader plus one more byte would have been
consumed by a path prefix with counts `(a', b')`, `P a' b'`. -/
def RunSpec {σ α : Type} (I : σ → Prop) (Q : α → Prop) (P : Nat → Nat → Prop) (rc : RC) (rd : Rd) :
    Except Err (α × σ × RC × Rd) → Prop
  | .ok (x, s', rc', rd') => Q x ∧ I s' ∧ RCInv rc' ∧ rd'.bad = rd.bad ∧
      ∃ a' b' n, P a' b' ∧ rd'.rem.length + n = rd.rem.length ∧
        rc.range * W a' b' * 256 ^ n ≤ rc'.range * D a' b'
  | .error e => e = rd.endErr → ∃ a' b', P a' b' ∧
      rc.range * W a' b' * 256 ^ (rd.rem.length + 1) < 4294967296 * D a' b'

theorem endErr_congr {rd rd' : Rd} (h : rd'.bad = rd.bad) : rd'.endErr = rd.endErr := by
  simp [Rd.endErr, h]

/-- one bit (factor `k / d`) followed by a run that satisfies `RunSpec` -/
theorem RunSpec_step {σ α : Type} {I : σ → Prop} {Q : α → Prop} {P P1 : Nat → Nat → Prop}
    {k d : Nat} {rc rc1 : RC} {rd rd1 : Rd} {r : Except Err (α × σ × RC × Rd)}
    (hd : 0 < d)
    (hW : ∀ a' b', P1 a' b' → ∃ a'' b'', P a'' b'' ∧
      W a'' b'' = k * W a' b' ∧ D a'' b'' = D a' b' * d)
    (hbit : BitSpec k d rc rd (.ok (rc1, rd1))) (h : RunSpec I Q P1 rc1 rd1 r) :
    RunSpec I Q P rc rd r := by
  obtain ⟨hbad, m, hm, hle⟩ := hbit
  cases r with
  | error e =>
    intro he
    rw [← endErr_congr hbad] at he
    obtain ⟨a', b', hP', hlt⟩ := h he
    obtain ⟨a'', b'', hP'', eW, eD⟩ := hW a' b' hP'
    refine ⟨a'', b'', hP'', ?_⟩
    have e : rd.rem.length + 1 = m + (rd1.rem.length + 1) := by omega
    rw [eW, eD, e, Nat.pow_add]
    exact chain_lt hd hle hlt
  | ok z =>
    obtain ⟨x, s', rc', rd'⟩ := z
    obtain ⟨hq, hI, hrc', hbad', a', b', n, hP', hn, hle'⟩ := h
    obtain ⟨a'', b'', hP'', eW, eD⟩ := hW a' b' hP'
    refine ⟨hq, hI, hrc', hbad'.trans hbad, a'', b'', m + n, hP'', by omega, ?_⟩
    rw [eW, eD, Nat.pow_add]
    exact chain_le hle hle'

/-- **The run invariant of `runDec`** on a tree whose path prefixes have bit
counts in `P`. -/
theorem runDec_spec {σ ι α : Type} [ProbStore σ ι] {I : σ → Prop} (SO : StoreOk I) (u : Bool)
    {Q : α → Prop} {P : Nat → Nat → Prop} {t : Coder ι α} (h : PathBound Q P t) :
    ∀ (s : σ) (rc : RC) (rd : Rd), I s → RCInv rc →
      RunSpec I Q P rc rd (runDec u t s rc rd) := by
  induction h with
  | ret h0 hq =>
    intro s rc rd hI hrc
    exact ⟨hq, hI, hrc, rfl, 0, 0, 0, h0, rfl, by simp [W_zero, D_zero]⟩
  | fail _ he =>
    intro s rc rd hI hrc
    exact fun h => absurd h (he.ne_endErr rd)
  | @bit P i k _ hk ih =>
    intro s rc rd hI hrc
    cases hg : ProbStore.get s i with
    | error e =>
      simp only [runDec, hg]
      exact fun h => absurd h ((SO.get_err s i e hI hg).ne_endErr rd)
    | ok p =>
      simp only [runDec, hg]
      have hpv := SO.get_ok s i p hI hg
      have hsafe := decodeBit_safe u p rc rd hpv hrc
      have hspec := decodeBit_spec u p rc rd hpv hrc
      cases hx : RC.decodeBit u p rc rd with
      | error e =>
        rw [hx] at hspec
        simp only []
        intro he
        obtain ⟨hl, hlt⟩ := hspec he
        refine ⟨1, 0, (hk true).root, ?_⟩
        rw [hl]
        simpa [W, D] using hlt
      | ok y =>
        obtain ⟨c, p', rc1, rd1⟩ := y
        rw [hx] at hspec hsafe
        obtain ⟨hpv', hrc1, _, _⟩ := hsafe
        have hI' : I (if u = true then ProbStore.set s i p' else s) := by
          split
          · exact SO.set_ok s i p' hI hpv'
          · exact hI
        have := ih c _ rc1 rd1 hI' hrc1
        simp only []
        refine RunSpec_step (k := 253921) (d := 16777216) (by omega) ?_ hspec this
        intro a' b' hP'
        exact ⟨a' + 1, b', hP', W_succ_a a' b', D_succ_a a' b'⟩
  | @direct P k _ hk ih =>
    intro s rc rd hI hrc
    simp only [runDec]
    have hsafe := getBit_safe rc rd hrc
    have hspec := getBit_spec rc rd hrc
    cases hx : RC.getBit rc rd with
    | error e =>
      rw [hx] at hspec
      simp only []
      intro he
      obtain ⟨hl, hlt⟩ := hspec he
      refine ⟨0, 1, (hk true).root, ?_⟩
      rw [hl]
      simpa [W, D] using hlt
    | ok y =>
      obtain ⟨c, rc1, rd1⟩ := y
      rw [hx] at hspec hsafe
      obtain ⟨hrc1, _, _⟩ := hsafe
      have := ih c s rc1 rd1 hI hrc1
      simp only []
      refine RunSpec_step (k := 16777215) (d := 33554432) (by omega) ?_ hspec this
      intro a' b' hP'
      exact ⟨a', b' + 1, hP', W_succ_b a' b', D_succ_b a' b'⟩

/-! ## consequences: the number of consumed bytes -/

/-- General form.  `(A, B)` dominates every path prefix (`hdom`) and `N + 1`
bytes are arithmetically impossible for `(A, B)` (`hN`): a successful run
consumes at most `N` bytes, and with at least `N` bytes available the run never
fails with the reader's end-of-data error. -/
theorem runDec_bytes_le {σ ι α : Type} [ProbStore σ ι] {I : σ → Prop} (SO : StoreOk I) (u : Bool)
    {Q : α → Prop} {P : Nat → Nat → Prop} {t : Coder ι α} (h : PathBound Q P t) {A B N : Nat}
    (hdom : ∀ a' b', P a' b' → W A B * D a' b' ≤ W a' b' * D A B)
    (hN : 2 ^ 32 * D A B ≤ 256 ^ (N + 1) * 2 ^ 24 * W A B)
    {s : σ} {rc : RC} {rd : Rd} (hI : I s) (hrc : RCInv rc) :
    (N ≤ rd.rem.length → runDec u t s rc rd ≠ .error rd.endErr) ∧
    (∀ x s' rc' rd', runDec u t s rc rd = .ok (x, s', rc', rd') →
      Q x ∧ I s' ∧ RCInv rc' ∧ rd'.bad = rd.bad ∧
        ∃ n, rd'.rem.length + n = rd.rem.length ∧ n ≤ N) := by
  have hs := runDec_spec SO u h s rc rd hI hrc
  constructor
  · intro hlen he
    rw [he] at hs
    obtain ⟨a', b', hP, hlt⟩ := hs rfl
    have := count_le hrc.1 (hdom a' b' hP) hN hlt
    omega
  · intro x s' rc' rd' he
    rw [he] at hs
    obtain ⟨hq, hI', hrc', hbad, a', b', n, hP, hn, hle⟩ := hs
    refine ⟨hq, hI', hrc', hbad, n, hn, ?_⟩
    refine count_le hrc.1 (hdom a' b' hP) hN (Nat.lt_of_le_of_lt hle ?_)
    exact Nat.mul_lt_mul_of_pos_right hrc'.2.1 (D_pos a' b')

/-- **`runDec_bytes_bound`**: a successful run on a tree with at most `a`
probability bits and `b` direct bits per path took a path with `a' ≤ a`, `b' ≤ b`
bits, consumed `n` bytes, and satisfies the range invariant; in particular `n`
is bounded by the closed inequality for `(a', b')` and for `(a, b)`. -/
theorem runDec_bytes_bound {σ ι α : Type} [ProbStore σ ι] {I : σ → Prop} (SO : StoreOk I) (u : Bool)
    {Q : α → Prop} {a b : Nat} {t : Coder ι α} (h : BitBound Q a b t)
    {s s' : σ} {rc rc' : RC} {rd rd' : Rd} {x : α} (hI : I s) (hrc : RCInv rc)
    (hr : runDec u t s rc rd = .ok (x, s', rc', rd')) :
    Q x ∧ I s' ∧ RCInv rc' ∧ rd'.bad = rd.bad ∧
      ∃ a' b' n, a' ≤ a ∧ b' ≤ b ∧ rd'.rem.length + n = rd.rem.length ∧
        rc.range * (253921 ^ a' * (2 ^ 24 - 1) ^ b') * 256 ^ n ≤ rc'.range * 2 ^ (24 * a' + 25 * b') ∧
        256 ^ n * 2 ^ 24 * (253921 ^ a' * (2 ^ 24 - 1) ^ b') < 2 ^ 32 * 2 ^ (24 * a' + 25 * b') ∧
        256 ^ n * 2 ^ 24 * (253921 ^ a * (2 ^ 24 - 1) ^ b) < 2 ^ 32 * 2 ^ (24 * a + 25 * b) := by
  have hs := runDec_spec SO u (h.pathBound (P := fun a' b' => a' ≤ a ∧ b' ≤ b)
    (fun _ _ ha hb => ⟨ha, hb⟩)) s rc rd hI hrc
  rw [hr] at hs
  obtain ⟨hq, hI', hrc', hbad, a', b', n, ⟨ha, hb⟩, hn, hle⟩ := hs
  refine ⟨hq, hI', hrc', hbad, a', b', n, ha, hb, hn, hle, ?_⟩
  have h1 : 256 ^ n * 2 ^ 24 * W a' b' ≤ rc.range * W a' b' * 256 ^ n := by
    have e : 256 ^ n * 2 ^ 24 * W a' b' = 2 ^ 24 * (W a' b' * 256 ^ n) := by ac_rfl
    rw [e, Nat.mul_assoc]
    exact Nat.mul_le_mul_right _ hrc.1
  have h2 : 256 ^ n * 2 ^ 24 * W a' b' < 2 ^ 32 * D a' b' :=
    Nat.lt_of_le_of_lt (Nat.le_trans h1 hle) (Nat.mul_lt_mul_of_pos_right hrc'.2.1 (D_pos a' b'))
  exact ⟨h2, lift_lt_dom (W_D_mono' ha hb) h2⟩

/-- **EOF-freedom**: `N + 1` bytes being arithmetically impossible for `(a, b)`,
a run with at least `N` bytes available never fails with the reader's
end-of-data error (`.eof` for an ordinary reader), and a successful run
consumes at most `N` bytes. -/
theorem runDec_no_eof {σ ι α : Type} [ProbStore σ ι] {I : σ → Prop} (SO : StoreOk I) (u : Bool)
    {Q : α → Prop} {a b N : Nat} {t : Coder ι α} (h : BitBound Q a b t)
    (hN : 2 ^ 32 * 2 ^ (24 * a + 25 * b) ≤ 256 ^ (N + 1) * 2 ^ 24 * (253921 ^ a * (2 ^ 24 - 1) ^ b))
    {s : σ} {rc : RC} {rd : Rd} (hI : I s) (hrc : RCInv rc) :
    (N ≤ rd.rem.length → runDec u t s rc rd ≠ .error rd.endErr) ∧
    (N ≤ rd.rem.length → rd.bad = false → runDec u t s rc rd ≠ .error .eof) ∧
    (∀ x s' rc' rd', runDec u t s rc rd = .ok (x, s', rc', rd') →
      ∃ n, rd'.rem.length + n = rd.rem.length ∧ n ≤ N) := by
  have := runDec_bytes_le SO u (h.pathBound (P := fun a' b' => a' ≤ a ∧ b' ≤ b)
    (fun _ _ ha hb => ⟨ha, hb⟩)) (A := a) (B := b) (N := N)
    (fun a' b' hP => W_D_mono' hP.1 hP.2) hN hI hrc (rd := rd)
  refine ⟨this.1, ?_, fun x s' rc' rd' he => (this.2 x s' rc' rd' he).2.2.2.2⟩
  intro hlen hbad
  have := this.1 hlen
  simpa [Rd.endErr, hbad] using this

/-! ## the probability tables of the LZMA decoder -/

/-- a read of a probability yields a valid probability or an error that is not end-of-data -/
def GoodGet : Except Err Nat → Prop
  | .ok v => PVal v
  | .error e => NoEnd e

theorem GoodGet_oob : GoodGet (oob : Except Err Nat) := NoEnd_panic _

theorem GoodGet_arrGet {n : Nat} {a : Array Nat} (h : ArrOk n a) (i : Nat) : GoodGet (arrGet a i) := by
  unfold arrGet
  split
  · rename_i v hv
    obtain ⟨hi, rfl⟩ := Array.getElem?_eq_some_iff.1 hv
    exact h.2 i hi
  · exact GoodGet_oob

theorem GoodGet_ite {c : Prop} [Decidable c] {r : Except Err Nat} (h : GoodGet r) :
    GoodGet (if c then r else oob) := by
  split
  · exact h
  · exact GoodGet_oob

theorem LenProbs.get_good {l : LenProbs} (h : LenOk l) (i : PIdx) : GoodGet (l.get i) := by
  cases i <;> simp only [LenProbs.get] <;> first
    | exact GoodGet_oob
    | exact h.choice
    | exact h.choice2
    | exact GoodGet_ite (GoodGet_arrGet h.low _)
    | exact GoodGet_ite (GoodGet_arrGet h.mid _)
    | exact GoodGet_arrGet h.high _

theorem Probs.get_good {p : Probs} (h : ProbsInv p) (i : PIdx) : GoodGet (p.get i) := by
  have hl : ∀ rep : Bool, LenOk (if rep = true then p.repLen else p.len) := by
    intro rep; cases rep
    · exact h.len
    · exact h.repLen
  cases i <;> simp only [Probs.get] <;> first
    | exact GoodGet_ite (GoodGet_arrGet h.lit _)
    | exact GoodGet_ite (GoodGet_arrGet h.posSlot _)
    | exact GoodGet_arrGet h.align _
    | exact GoodGet_arrGet h.posDec _
    | exact GoodGet_arrGet h.isMatch _
    | exact GoodGet_arrGet h.isRep _
    | exact GoodGet_arrGet h.isRepG0 _
    | exact GoodGet_arrGet h.isRepG1 _
    | exact GoodGet_arrGet h.isRepG2 _
    | exact GoodGet_arrGet h.isRep0Long _
    | exact LenProbs.get_good (hl _) _

/-- `ProbsInv` is all the bound needs from the tables – no index validity: an
out-of-bounds index yields a panic, not an end-of-data error. -/
theorem probs_storeOk : StoreOk (σ := Probs) ProbsInv where
  get_ok := by
    intro s i v hI hg
    have := Probs.get_good hI i
    have hg' : s.get i = .ok v := hg
    rw [hg'] at this; exact this
  get_err := by
    intro s i e hI hg
    have := Probs.get_good hI i
    have hg' : s.get i = .error e := hg
    rw [hg'] at this; exact this
  set_ok := fun s i v hI hv => (Probs.set_inv hI hv i).1

end Need20
end Lzma
