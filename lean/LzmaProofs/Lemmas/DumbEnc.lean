/-
  The literal-only encoder of lzma-rs (`encode/dumbencoder.rs`, model
  `LzmaModel/Encoder.lean`: `DumbEnc`) against the format-level reference encoder
  (`LzmaSpec/Sym.lean`: `encodeProg` / `encodeEvents`).

  * `DumbEnc.toProbs`: the encoder's two small tables embedded into the full `Probs`
    store of the reference encoder (all other tables fresh).
  * `encodeLiteralLoop_sim`, `processLoop_sim`: lock-step simulation of the literal
    loop — both encoders are run on all-accepting sinks and append the same bytes.
  * the end marker: the Rust encoder codes all 41 marker bits after the `is_match`
    bit with a fresh probability `0x400`; the reference encoder codes 26 of them as
    direct bits.  `marker_range_divisible` shows that the two codings perform the
    same range-coder arithmetic (`2^11 ∣ range` at every direct-bit position).
-/
import LzmaProofs.Lemmas.RangeCoder
import LzmaProofs.Lemmas.SymLayerNoDup
namespace Lzma
open RcArith
open REnc

/-! ## small sink helpers -/

theorem writeBytes_ext (bs : Bytes) (snk : Sink) (h : snk.script = []) :
    ∃ snk', writeBytes bs snk = (snk', .ok ()) ∧ SinkExt snk snk' bs := by
  unfold writeBytes writeAll
  by_cases hb : bs.toArray.isEmpty
  · refine ⟨snk, by simp [hb], ?_⟩
    have : bs = [] := by simpa using hb
    subst this
    exact SinkExt.refl h
  · refine ⟨{ snk with out := snk.out ++ bs.toArray, writes := snk.writes + 1, lastFlush := false },
      by simp [hb, h], ?_⟩
    simp [SinkExt, h]

namespace DumbEnc

/-! ## the encoder's tables inside the full probability store -/

/-- the `Probs` store that the reference encoder holds when the literal-only encoder
holds `d`: its `lit` table is `literal_probs` (8 rows of `0x300`), the first four cells of
`isMatch` (state 0, `pos_state` 0..3) are `is_match`, everything else is untouched -/
def toProbs (d : DumbEnc) : Probs :=
  { Probs.init 8 with lit := d.litProbs, isMatch := d.isMatch ++ Array.replicate 188 0x400 }

/-- well-formed encoder state -/
structure WF (d : DumbEnc) : Prop where
  lit : d.litProbs.size = 8 * 0x300
  im : d.isMatch.size = 4
  rc : EOk d.rc
  probs : ProbsOk d.toProbs

theorem toProbs_fresh (opt : EncSizeOpt) : toProbs { opt := opt } = Probs.init 8 := by
  simp [toProbs, Probs.init]

theorem wf_fresh (opt : EncSizeOpt) : WF { opt := opt } :=
  ⟨by simp, by simp, eok_fresh, by rw [toProbs_fresh]; exact probsOk_init 8⟩

theorem toProbs_setLit (d : DumbEnc) (rc : REnc) (row col v : Nat) :
    toProbs { d with rc := rc, litProbs := d.litProbs.setIfInBounds (row * 0x300 + col) v } =
      d.toProbs.set (.lit row col) v := rfl

theorem toProbs_setIsMatch (d : DumbEnc) (rc : REnc) (i v : Nat) (hi : i < d.isMatch.size) :
    toProbs { d with rc := rc, isMatch := d.isMatch.setIfInBounds i v } =
      d.toProbs.set (.isMatch i) v := by
  simp only [toProbs, Probs.set]
  rw [Array.setIfInBounds_append_left hi]

theorem toProbs_get_lit (d : DumbEnc) (hd : d.WF) (row col : Nat) (hr : row < 8) (hc : col < 0x300) :
    ∃ v, arrGet d.litProbs (row * 0x300 + col) = .ok v ∧ d.toProbs.get (.lit row col) = .ok v := by
  have hs := hd.lit
  have hlt : row * 0x300 + col < d.litProbs.size := by omega
  refine ⟨d.litProbs[row * 0x300 + col], ?_, ?_⟩
  · simp [arrGet, Array.getElem?_eq_getElem hlt]
  · have : row * 0x300 + 0x300 ≤ d.litProbs.size ∧ col < 0x300 := ⟨by omega, hc⟩
    simp only [toProbs, Probs.get]
    simp [this, arrGet, Array.getElem?_eq_getElem hlt]

theorem toProbs_get_isMatch (d : DumbEnc) (hd : d.WF) (i : Nat) (hi : i < 4) :
    ∃ v, arrGet d.isMatch i = .ok v ∧ d.toProbs.get (.isMatch i) = .ok v := by
  have hs := hd.im
  have hlt : i < d.isMatch.size := by omega
  refine ⟨d.isMatch[i], ?_, ?_⟩
  · simp [arrGet, Array.getElem?_eq_getElem hlt]
  · simp only [toProbs, Probs.get]
    simp [arrGet, Array.getElem?_append_left hlt, Array.getElem?_eq_getElem hlt]

/-! ## one literal -/

theorem encodeLiteralLoop_zero (row byte result : Nat) (e : DumbEnc) :
    encodeLiteralLoop row byte 0 result e = pure e := rfl

theorem encodeLiteralLoop_succ (row byte n result : Nat) (e : DumbEnc) :
    encodeLiteralLoop row byte (n + 1) result e =
      (liftE (if row < 8 ∧ result < 0x300 then arrGet e.litProbs (row * 0x300 + result) else oob) >>=
        fun p => e.rc.encodeBit p (((byte >>> (7 - (8 - (n + 1)))) &&& 1) != 0) >>= fun x =>
          encodeLiteralLoop row byte n
            (2 * result + ((((byte >>> (7 - (8 - (n + 1)))) &&& 1) != 0).toNat))
            { e with rc := x.1, litProbs := e.litProbs.setIfInBounds (row * 0x300 + result) x.2 }) := rfl

/-- **(b)** the literal loop of the Rust encoder emits the events `litPlainEv`: run on
all-accepting sinks `sD` (Rust encoder) and `sR` (reference encoder), both append the same
bytes `bs`, and the tables stay in correspondence -/
theorem encodeLiteralLoop_sim (row byte : Nat) (hrow : row < 8) :
    ∀ (n result : Nat) (d : DumbEnc) (sD sR : Sink), n ≤ 8 → result < 2 ^ (9 - n) → d.WF →
      sD.script = [] → sR.script = [] →
      ∃ d' sD' sR' bs, encodeLiteralLoop row byte n result d sD = (sD', .ok d') ∧ d'.WF ∧
        d'.opt = d.opt ∧ SinkExt sD sD' bs ∧ SinkExt sR sR' bs ∧
        ∀ rest, encodeEvents (litPlainEv row byte n result ++ rest) d.toProbs d.rc sR =
          encodeEvents rest d'.toProbs d'.rc sR'
  | 0, result, d, sD, sR, _, _, hd, hD, hR =>
    ⟨d, sD, sR, [], rfl, hd, rfl, SinkExt.refl hD, SinkExt.refl hR, fun _ => rfl⟩
  | n+1, result, d, sD, sR, hn, hres, hd, hD, hR => by
    have hpow : 2 ^ (9 - n) = 2 * 2 ^ (9 - (n + 1)) := by
      rw [show 9 - n = (9 - (n + 1)) + 1 by omega, Nat.pow_succ]; omega
    have hle : 2 ^ (9 - (n + 1)) ≤ 2 ^ 8 := Nat.pow_le_pow_right (by decide) (by omega)
    have hres' : result < 0x300 := by omega
    have hsh : 7 - (8 - (n + 1)) = n := by omega
    obtain ⟨v, hgD, hgR⟩ := toProbs_get_lit d hd row result hrow hres'
    have hv : ProbOk v := hd.probs _ _ hgR
    generalize hbit : (((byte >>> n) &&& 1) != 0) = bit
    have hb1 : (byte >>> n) &&& 1 < 2 := by rw [shr_and_one]; exact Nat.mod_lt _ (by decide)
    have hbn : bit.toNat = (byte >>> n) &&& 1 := by rw [← hbit]; exact bit_toNat _ hb1
    obtain ⟨sD1, hrun, xD⟩ := encodeBit_run d.rc v bit sD hD hd.rc hv
    obtain ⟨sR1, xR, heq⟩ := encodeEvents_pbit (i := .lit row result) (b := bit) (probs := d.toProbs)
      hR hd.rc hgR hv
    have hd1 : WF ({ d with rc := (stepBit d.rc v bit).1,
                            litProbs := d.litProbs.setIfInBounds (row * 0x300 + result) (updP v bit) } : DumbEnc) :=
      ⟨by simpa using hd.lit, hd.im, stepBit_ok bit hd.rc hv, by
        rw [toProbs_setLit]; exact hd.probs.set _ (hv.upd bit)⟩
    obtain ⟨d', sD', sR', bs, h1, h2, h3, h4, h5, h6⟩ :=
      encodeLiteralLoop_sim row byte hrow n (2 * result + bit.toNat) _ sD1 sR1 (by omega)
        (by rw [hbn]; omega) hd1 xD.1 xR.1
    refine ⟨d', sD', sR', (stepBit d.rc v bit).2 ++ bs, ?_, h2, h3, xD.trans h4, xR.trans h5, ?_⟩
    · rw [encodeLiteralLoop_succ, if_pos ⟨hrow, hres'⟩, hgD, rc_liftE_ok_bind, hsh, hbit,
        bind_run_ok hrun]
      exact h1
    · intro rest
      have : litPlainEv row byte (n + 1) result ++ rest =
          .pbit (.lit row result) bit :: (litPlainEv row byte n (2 * result + bit.toNat) ++ rest) := by
        simp only [litPlainEv, List.cons_append, hbit, hbn]
      rw [this, heq, ← h6 rest, toProbs_setLit]

theorem encodeLiteral_sim (byte prev : Nat) (hp : prev < 256) (d : DumbEnc) (sD sR : Sink) (hd : d.WF)
    (hD : sD.script = []) (hR : sR.script = []) :
    ∃ d' sD' sR' bs, d.encodeLiteral byte prev sD = (sD', .ok d') ∧ d'.WF ∧
      d'.opt = d.opt ∧ SinkExt sD sD' bs ∧ SinkExt sR sR' bs ∧
      ∀ rest, encodeEvents (litPlainEv (prev >>> 5) byte 8 1 ++ rest) d.toProbs d.rc sR =
        encodeEvents rest d'.toProbs d'.rc sR' := by
  have : prev >>> 5 < 8 := by rw [Nat.shiftRight_eq_div_pow]; omega
  exact encodeLiteralLoop_sim (prev >>> 5) byte this 8 1 d sD sR (by omega) (by decide) hd hD hR

end DumbEnc

/-! ## the end marker: arithmetic of a run of bits coded with probability `0x400` -/

/-- range after one bit coded with probability `0x400` (and normalisation) -/
def nextRange (r : Nat) (b : Bool) : Nat :=
  let m := if b then r - (r >>> 11) * 0x400 else (r >>> 11) * 0x400
  if m < 0x1000000 then m * 256 else m

/-- the divisibility invariant of the marker (main phase): the larger the range, the more
trailing zero bits it has — `2^(11+i) ∣ r` whenever `2^(24+i) ≤ r`.  (Equivalent to the
paper form "`2^(18−c) ∣ r` and `r < 2^(32−c)` for some `c ≤ 7` bits since the last
normalisation"; this form has no existential and is preserved by halving + normalisation.) -/
def MInv (r : Nat) : Prop :=
  r % 2048 = 0 ∧ (33554432 ≤ r → r % 4096 = 0) ∧ (67108864 ≤ r → r % 8192 = 0) ∧
  (134217728 ≤ r → r % 16384 = 0) ∧ (268435456 ≤ r → r % 32768 = 0) ∧
  (536870912 ≤ r → r % 65536 = 0) ∧ (1073741824 ≤ r → r % 131072 = 0) ∧
  (2147483648 ≤ r → r % 262144 = 0)

theorem minv_of_mod {r : Nat} (h : r % 262144 = 0) : MInv r := by
  unfold MInv
  refine ⟨by omega, fun _ => by omega, fun _ => by omega, fun _ => by omega, fun _ => by omega,
    fun _ => by omega, fun _ => by omega, fun _ => h⟩

theorem minv_step {r : Nat} (b : Bool) (h : MInv r) (hlo : 16777216 ≤ r) (hhi : r < 4294967296) :
    MInv (nextRange r b) := by
  have hs : r >>> 11 = r / 2048 := Nat.shiftRight_eq_div_pow r 11
  unfold nextRange
  rw [hs]
  obtain ⟨h0, h1, h2, h3, h4, h5, h6, h7⟩ := h
  have hm : (if b then r - r / 2048 * 0x400 else r / 2048 * 0x400) = r / 2 := by
    cases b <;> simp <;> omega
  rw [hm]
  simp only []
  split
  · apply minv_of_mod; omega
  · refine ⟨?_, fun g => ?_, fun g => ?_, fun g => ?_, fun g => ?_, fun g => ?_, fun g => ?_,
      fun g => ?_⟩
    · have := h1 (by omega); omega
    · have := h2 (by omega); omega
    · have := h3 (by omega); omega
    · have := h4 (by omega); omega
    · have := h5 (by omega); omega
    · have := h6 (by omega); omega
    · have := h7 (by omega); omega
    · omega

/-- start-up phase: `k` bits coded with probability `0x400` so far, the first one a zero
(which makes `2^10 ∣ r`), no normalisation yet (`r ≤ 2^(32-k)`) — or already `MInv` -/
def QInv (r k : Nat) : Prop :=
  MInv r ∨ (r % 1024 = 0 ∧
    ((k = 1 ∧ r ≤ 2147483648) ∨ (k = 2 ∧ r ≤ 1073741824) ∨ (k = 3 ∧ r ≤ 536870912) ∨
     (k = 4 ∧ r ≤ 268435456) ∨ (k = 5 ∧ r ≤ 134217728) ∨ (k = 6 ∧ r ≤ 67108864) ∨
     (k = 7 ∧ r ≤ 33554432) ∨ (8 ≤ k ∧ r ≤ 16777216)))

theorem qinv_first {r : Nat} (hlo : 16777216 ≤ r) (hhi : r < 4294967296) : QInv (nextRange r false) 1 := by
  have hs : r >>> 11 = r / 2048 := Nat.shiftRight_eq_div_pow r 11
  unfold nextRange
  rw [hs]
  simp only [Bool.false_eq_true, if_false]
  split
  · left; apply minv_of_mod; omega
  · right; exact ⟨by omega, .inl ⟨rfl, by omega⟩⟩

theorem qinv_step {r k : Nat} (b : Bool) (h : QInv r k) (hlo : 16777216 ≤ r) (hhi : r < 4294967296) :
    QInv (nextRange r b) (k + 1) := by
  rcases h with h | ⟨hd, hk⟩
  · exact .inl (minv_step b h hlo hhi)
  · have hs : r >>> 11 = r / 2048 := Nat.shiftRight_eq_div_pow r 11
    unfold nextRange
    rw [hs]
    have hm1 : (if b then r - r / 2048 * 0x400 else r / 2048 * 0x400) % 1024 = 0 := by
      cases b <;> simp <;> omega
    have hm2 : 2 * (if b then r - r / 2048 * 0x400 else r / 2048 * 0x400) ≤ r + 1024 := by
      cases b <;> simp <;> omega
    generalize (if b then r - r / 2048 * 0x400 else r / 2048 * 0x400) = m at hm1 hm2
    simp only []
    split
    · left; apply minv_of_mod; omega
    · right
      refine ⟨hm1, ?_⟩
      rcases hk with ⟨rfl, h⟩ | ⟨rfl, h⟩ | ⟨rfl, h⟩ | ⟨rfl, h⟩ | ⟨rfl, h⟩ | ⟨rfl, h⟩ | ⟨rfl, h⟩ | ⟨hk, h⟩ <;>
        omega

theorem qinv_final {r k : Nat} (h : QInv r k) (hk : 8 ≤ k) (hlo : 16777216 ≤ r) : MInv r := by
  rcases h with h | ⟨hd, hk'⟩
  · exact h
  · have : r = 16777216 := by omega
    subst this; apply minv_of_mod; rfl

/-! ## pure runs -/

namespace REnc

theorem stepBit_range (e : REnc) (b : Bool) : (stepBit e 0x400 b).1.range = nextRange e.range b := by
  unfold stepBit norm1 nextRange
  cases b
  · simp only [midBit, Bool.false_eq_true, if_false]
    split
    · rw [wl_range]
    · rfl
  · simp only [midBit, if_true]
    split
    · rw [wl_range]
    · rfl

/-- **the key arithmetic fact**: when `2^11 ∣ range`, a bit coded with probability
`0x400` and a direct bit perform the same interval update -/
theorem midDirect_eq_midBit (e : REnc) (b : Bool) (h : e.range % 2048 = 0) :
    midDirect e b = midBit e 0x400 b := by
  have h1 : e.range >>> 1 = e.range / 2 := Nat.shiftRight_eq_div_pow e.range 1
  have h2 : e.range >>> 11 = e.range / 2048 := Nat.shiftRight_eq_div_pow e.range 11
  have h3 : e.range / 2048 * 0x400 = e.range / 2 := by omega
  cases b
  · simp only [midDirect, midBit, h1, h2, h3, Bool.false_eq_true, if_false]
  · have h4 : e.range - e.range / 2 = e.range / 2 := by omega
    simp only [midDirect, midBit, h1, h2, h3, h4, if_true]

theorem stepDirect_eq_stepBit (e : REnc) (b : Bool) (h : e.range % 2048 = 0) :
    stepDirect e b = stepBit e 0x400 b := by
  unfold stepDirect stepBit
  rw [midDirect_eq_midBit e b h]

/-- a run of bits, each coded with a fresh probability `0x400` -/
def freshRun : List Bool → REnc → REnc × Bytes
  | [], e => (e, [])
  | b :: bs, e => ((freshRun bs (stepBit e 0x400 b).1).1, (stepBit e 0x400 b).2 ++ (freshRun bs (stepBit e 0x400 b).1).2)

/-- a run of events in which every probability read is `0x400` -/
def ev400Run : List Ev → REnc → REnc × Bytes
  | [], e => (e, [])
  | .pbit _ b :: evs, e =>
    ((ev400Run evs (stepBit e 0x400 b).1).1, (stepBit e 0x400 b).2 ++ (ev400Run evs (stepBit e 0x400 b).1).2)
  | .dbit b :: evs, e =>
    ((ev400Run evs (stepDirect e b).1).1, (stepDirect e b).2 ++ (ev400Run evs (stepDirect e b).1).2)

theorem freshRun_append (a b : List Bool) (e : REnc) :
    freshRun (a ++ b) e = ((freshRun b (freshRun a e).1).1, (freshRun a e).2 ++ (freshRun b (freshRun a e).1).2) := by
  induction a generalizing e with
  | nil => simp [freshRun]
  | cons x a ih => simp [freshRun, ih, List.append_assoc]

theorem freshRun_ok (bs : List Bool) (e : REnc) (he : EOk e) : EOk (freshRun bs e).1 := by
  induction bs generalizing e with
  | nil => exact he
  | cons b bs ih => exact ih _ (stepBit_ok b he probOk_init)

theorem freshRun_qinv (bs : List Bool) (e : REnc) (k : Nat) (he : EOk e) (h : QInv e.range k) :
    QInv (freshRun bs e).1.range (k + bs.length) := by
  induction bs generalizing e k with
  | nil => exact h
  | cons b bs ih =>
    have := ih (stepBit e 0x400 b).1 (k + 1) (stepBit_ok b he probOk_init)
      (by rw [stepBit_range]; exact qinv_step b h he.lo he.hi)
    simpa [freshRun, Nat.add_assoc, Nat.add_comm 1] using this

/-- once the invariant holds, direct bits and `0x400`-bits are interchangeable -/
theorem ev400Run_eq_freshRun (evs : List Ev) (e : REnc) (he : EOk e) (h : MInv e.range) :
    ev400Run evs e = freshRun (rcBitsOf evs) e := by
  induction evs generalizing e with
  | nil => rfl
  | cons ev evs ih =>
    cases ev with
    | pbit i b =>
      have h1 := ih (stepBit e 0x400 b).1 (stepBit_ok b he probOk_init)
        (by rw [stepBit_range]; exact minv_step b h he.lo he.hi)
      simp only [ev400Run, rcBitsOf, List.map_cons, freshRun] at h1 ⊢
      rw [h1]
    | dbit b =>
      have hd := stepDirect_eq_stepBit e b h.1
      have h1 := ih (stepBit e 0x400 b).1 (stepBit_ok b he probOk_init)
        (by rw [stepBit_range]; exact minv_step b h he.lo he.hi)
      simp only [ev400Run, rcBitsOf, List.map_cons, freshRun, hd] at h1 ⊢
      rw [h1]

/-- all events are probability-coded: nothing to show -/
theorem ev400Run_pbits (evs : List Ev) (hall : ∀ ev ∈ evs, ∃ i b, ev = .pbit i b) (e : REnc) :
    ev400Run evs e = freshRun (rcBitsOf evs) e := by
  induction evs generalizing e with
  | nil => rfl
  | cons ev evs ih =>
    obtain ⟨i, b, rfl⟩ := hall ev (by simp)
    have h1 := ih (fun x hx => hall x (by simp [hx])) (stepBit e 0x400 b).1
    simp only [ev400Run, rcBitsOf, List.map_cons, freshRun] at h1 ⊢
    rw [h1]

theorem ev400Run_append (a b : List Ev) (e : REnc) :
    ev400Run (a ++ b) e = ((ev400Run b (ev400Run a e).1).1, (ev400Run a e).2 ++ (ev400Run b (ev400Run a e).1).2) := by
  induction a generalizing e with
  | nil => simp [ev400Run]
  | cons x a ih => cases x <;> simp [ev400Run, ih, List.append_assoc]

end REnc

/-! ## the marker's events -/

/-- the events of the end marker after its `isMatch` bit (`pos_state = ps`):
`isRep` 0; length 0 (choice 0, three low-tree zeros); slot 63 (six ones);
26 direct ones; four align ones -/
def markerHead (ps : Nat) : List Ev :=
  [.pbit (.isRep 0) false, .pbit (.lenChoice false) false, .pbit (.lenLow false ps 1) false,
   .pbit (.lenLow false ps 2) false, .pbit (.lenLow false ps 4) false,
   .pbit (.posSlot 0 1) true, .pbit (.posSlot 0 3) true, .pbit (.posSlot 0 7) true,
   .pbit (.posSlot 0 15) true, .pbit (.posSlot 0 31) true, .pbit (.posSlot 0 63) true]

def markerRest : List Ev :=
  List.replicate 26 (.dbit true) ++
  [.pbit (.align 1) true, .pbit (.align 3) true, .pbit (.align 7) true, .pbit (.align 15) true]

def markerTail (ps : Nat) : List Ev := markerHead ps ++ markerRest

theorem rawSymEvents_eos (c : ECtx) (h0 : c.state = 0) :
    rawSymEvents c (Sym.toRaw .eos) = .pbit (.isMatch c.posState) true :: markerTail c.posState := by
  simp [Sym.toRaw, rawSymEvents, distEv, show posSlotOf 0xFFFFFFFF = 63 by decide +kernel, bitTreeEv,
    directEv, revBitTreeEv, lenEv, markerTail, markerHead, markerRest, h0, List.replicate]

/-- the bits the Rust encoder codes after the marker's `is_match` bit -/
def markerBits : List Bool :=
  false :: (List.replicate 4 false ++ (List.replicate 6 true ++ List.replicate 30 true))

theorem rcBitsOf_markerHead (ps : Nat) :
    rcBitsOf (markerHead ps) = false :: (List.replicate 4 false ++ List.replicate 6 true) := rfl

theorem rcBitsOf_markerRest : rcBitsOf markerRest = List.replicate 30 true := by decide

/-- **`marker_range_divisible`** (state form): after the eleven `0x400`-coded bits that
follow the marker's `is_match` bit (`is_rep`, four length bits, six slot bits) the invariant
`MInv` holds — in particular `2^11 ∣ range` — whatever the encoder state before was -/
theorem marker_minv (ps : Nat) (e : REnc) (he : EOk e) :
    MInv (ev400Run (markerHead ps) e).1.range ∧ EOk (ev400Run (markerHead ps) e).1 := by
  rw [ev400Run_pbits _ (by simp [markerHead]), rcBitsOf_markerHead]
  have he1 := stepBit_ok false he probOk_init
  have hq1 : QInv (stepBit e 0x400 false).1.range 1 := by
    rw [stepBit_range]; exact qinv_first he.lo he.hi
  have hq := freshRun_qinv (List.replicate 4 false ++ List.replicate 6 true) _ 1 he1 hq1
  have hok := freshRun_ok (List.replicate 4 false ++ List.replicate 6 true) _ he1
  simp only [freshRun]
  exact ⟨qinv_final hq (by simp) hok.lo, hok⟩

/-- **(c)** the Rust encoder's way of writing the marker (41 bits with a fresh `0x400`)
and the format's way (26 of them direct) drive the range coder identically -/
theorem marker_eq (ps : Nat) (e : REnc) (he : EOk e) :
    ev400Run (markerTail ps) e = freshRun markerBits e := by
  obtain ⟨hm, hok⟩ := marker_minv ps e he
  unfold markerTail
  rw [ev400Run_append, ev400Run_eq_freshRun markerRest _ hok hm, rcBitsOf_markerRest]
  rw [ev400Run_pbits _ (by simp [markerHead]), rcBitsOf_markerHead]
  have : markerBits = (false :: (List.replicate 4 false ++ List.replicate 6 true)) ++ List.replicate 30 true := by
    decide
  rw [this, freshRun_append]

/-! ## events that read `0x400` everywhere -/

/-- every probability read while encoding `evs` from the store `p` is the initial `0x400` -/
def Fresh400 : Probs → List Ev → Prop
  | _, [] => True
  | p, .pbit i b :: evs => p.get i = .ok 0x400 ∧ Fresh400 (p.set i (updP 0x400 b)) evs
  | p, .dbit _ :: evs => Fresh400 p evs

theorem fresh400_of_nodup : ∀ (evs : List Ev) (p : Probs),
    (∀ i ∈ evs.filterMap Ev.idx?, p.get i = .ok 0x400) → (evs.filterMap Ev.idx?).Nodup →
      Fresh400 p evs
  | [], _, _, _ => trivial
  | .pbit i b :: evs, p, hg, hn => by
    simp only [List.filterMap_cons, Ev.idx?, List.nodup_cons] at hn
    have hi := hg i (by simp [Ev.idx?])
    refine ⟨hi, fresh400_of_nodup evs _ (fun j hj => ?_) hn.2⟩
    have hne : j ≠ i := fun h => hn.1 (h ▸ hj)
    rw [Probs.get_set_ne p i j _ _ hi hne]
    exact hg j (by simp [Ev.idx?, hj])
  | .dbit b :: evs, p, hg, hn => by
    have hf : (Ev.dbit b :: evs).filterMap Ev.idx? = evs.filterMap Ev.idx? := rfl
    rw [hf] at hg hn
    exact fresh400_of_nodup evs p hg hn

theorem encodeEvents_fresh : ∀ (evs : List Ev) (p : Probs) (e : REnc) (snk : Sink),
    Fresh400 p evs → snk.script = [] → EOk e →
    ∃ snk' p', encodeEvents evs p e snk = (snk', .ok (p', (ev400Run evs e).1)) ∧
      SinkExt snk snk' (ev400Run evs e).2
  | [], p, e, snk, _, hs, _ => ⟨snk, p, rfl, SinkExt.refl hs⟩
  | .pbit i b :: evs, p, e, snk, hf, hs, he => by
    obtain ⟨s1, x1, heq⟩ := encodeEvents_pbit (b := b) hs he hf.1 probOk_init
    obtain ⟨s2, p2, h2, x2⟩ := encodeEvents_fresh evs _ _ s1 hf.2 x1.1 (stepBit_ok b he probOk_init)
    exact ⟨s2, p2, by rw [heq]; exact h2, x1.trans x2⟩
  | .dbit b :: evs, p, e, snk, hf, hs, he => by
    obtain ⟨s1, x1, heq⟩ := encodeEvents_dbit (b := b) hs he
    obtain ⟨s2, p2, h2, x2⟩ := encodeEvents_fresh evs p _ s1 hf x1.1 (stepDirect_ok b he)
    exact ⟨s2, p2, by rw [heq]; exact h2, x1.trans x2⟩

/-- the tables a literal-only program never touches -/
def tailIdx : PIdx → Bool
  | .lit _ _ => false
  | .isMatch _ => false
  | _ => true

theorem get_tailIdx (d : DumbEnc) (k v : Nat) (i : PIdx) (h : tailIdx i = true) :
    (d.toProbs.set (.isMatch k) v).get i = (Probs.init 8).get i := by
  cases i
  case lit r c => simp [tailIdx] at h
  case isMatch j => simp [tailIdx] at h
  all_goals rfl

/-- an untouched table cell that still holds `0x400` in the fresh store -/
def okInit (i : PIdx) : Bool :=
  tailIdx i && (match (Probs.init 8).get i with
    | .ok v => v == 0x400
    | .error _ => false)

theorem okInit_spec {i : PIdx} (h : okInit i = true) :
    tailIdx i = true ∧ (Probs.init 8).get i = .ok 0x400 := by
  unfold okInit at h
  rw [Bool.and_eq_true] at h
  refine ⟨h.1, ?_⟩
  have h2 := h.2
  split at h2
  · rename_i v hv; rw [hv]; simp at h2; rw [h2]
  · cases h2

theorem markerTail_gets (ps : Nat) (hps : ps < 4) :
    ∀ i ∈ (markerTail ps).filterMap Ev.idx?, tailIdx i = true ∧ (Probs.init 8).get i = .ok 0x400 := by
  have : ps = 0 ∨ ps = 1 ∨ ps = 2 ∨ ps = 3 := by omega
  have h : ∀ i ∈ (markerTail ps).filterMap Ev.idx?, okInit i = true := by
    rcases this with rfl | rfl | rfl | rfl <;> decide +kernel
  exact fun i hi => okInit_spec (h i hi)

theorem markerTail_nodup (ps : Nat) (hps : ps < 4) : ((markerTail ps).filterMap Ev.idx?).Nodup := by
  have : ps = 0 ∨ ps = 1 ∨ ps = 2 ∨ ps = 3 := by omega
  rcases this with rfl | rfl | rfl | rfl <;> decide +kernel

/-- a literal-only program leaves `isRep`, the length coder, `posSlot` and `align` at `0x400` -/
theorem markerTail_fresh (d : DumbEnc) (k v ps : Nat) (hps : ps < 4) :
    Fresh400 (d.toProbs.set (.isMatch k) v) (markerTail ps) :=
  fresh400_of_nodup _ _ (fun i hi => by
    obtain ⟨h1, h2⟩ := markerTail_gets ps hps i hi
    rw [get_tailIdx d k v i h1, h2]) (markerTail_nodup ps hps)

namespace DumbEnc

/-! ## the marker in the Rust encoder -/

theorem encodeFresh_run (bit : Bool) : ∀ (n : Nat) (rc : REnc) (snk : Sink), snk.script = [] → EOk rc →
    ∃ snk', encodeFresh bit n rc snk = (snk', .ok (freshRun (List.replicate n bit) rc).1) ∧
      SinkExt snk snk' (freshRun (List.replicate n bit) rc).2
  | 0, rc, snk, hs, _ => ⟨snk, rfl, SinkExt.refl hs⟩
  | n+1, rc, snk, hs, he => by
    obtain ⟨s1, h1, x1⟩ := encodeBit_run rc 0x400 bit snk hs he probOk_init
    obtain ⟨s2, h2, x2⟩ := encodeFresh_run bit n _ s1 x1.1 (stepBit_ok bit he probOk_init)
    refine ⟨s2, ?_, by simpa [List.replicate_succ, freshRun] using x1.trans x2⟩
    show (rc.encodeBit 0x400 bit >>= fun x => encodeFresh bit n x.1) snk = _
    rw [bind_run_ok h1]
    simpa [List.replicate_succ, freshRun] using h2

theorem finish_marker_eq (d : DumbEnc) (inputLen : Nat) (hopt : d.opt = .writeToHeader none) :
    d.finish inputLen =
      (liftE (arrGet d.isMatch (inputLen &&& 3)) >>= fun p => d.rc.encodeBit p true >>= fun x =>
          x.1.encodeBit 0x400 false >>= fun y => encodeFresh false 4 y.1 >>= fun rc =>
          encodeFresh true 6 rc >>= fun rc => encodeFresh true 30 rc >>= fun rc =>
        rc.finish >>= fun _ => pure ()) := by
  obtain ⟨rc, lp, im, opt⟩ := d
  simp only at hopt
  subst hopt
  rfl

theorem finish_nomarker_eq (d : DumbEnc) (inputLen : Nat) (hopt : d.opt ≠ .writeToHeader none) :
    d.finish inputLen = (d.rc.finish >>= fun _ => pure ()) := by
  obtain ⟨rc, lp, im, opt⟩ := d
  simp only at hopt
  cases opt with
  | skipWritingToHeader => rfl
  | writeToHeader x =>
    cases x with
    | none => exact absurd rfl hopt
    | some n => rfl

/-- the bytes of the marker and the flush, as a pure function of the coder state and the
`is_match` probability -/
def markerBytes (e : REnc) (v : Nat) : Bytes :=
  (stepBit e v true).2 ++ (freshRun markerBits (stepBit e v true).1).2 ++
    (fin (freshRun markerBits (stepBit e v true).1).1).2

theorem finish_marker_run (d : DumbEnc) (inputLen v : Nat) (hopt : d.opt = .writeToHeader none)
    (hg : arrGet d.isMatch (inputLen &&& 3) = .ok v) (hv : ProbOk v) (he : EOk d.rc)
    (snk : Sink) (hs : snk.script = []) :
    ∃ snk', d.finish inputLen snk = (snk', .ok ()) ∧ SinkExt snk snk' (markerBytes d.rc v) := by
  obtain ⟨s0, h0, x0⟩ := encodeBit_run d.rc v true snk hs he hv
  have e0 := stepBit_ok true he hv
  obtain ⟨s1, h1, x1⟩ := encodeBit_run _ 0x400 false s0 x0.1 e0 probOk_init
  have e1 := stepBit_ok false e0 probOk_init
  obtain ⟨s2, h2, x2⟩ := encodeFresh_run false 4 _ s1 x1.1 e1
  have e2 := freshRun_ok (List.replicate 4 false) _ e1
  obtain ⟨s3, h3, x3⟩ := encodeFresh_run true 6 _ s2 x2.1 e2
  have e3 := freshRun_ok (List.replicate 6 true) _ e2
  obtain ⟨s4, h4, x4⟩ := encodeFresh_run true 30 _ s3 x3.1 e3
  have e4 := freshRun_ok (List.replicate 30 true) _ e3
  obtain ⟨s5, h5, x5, _⟩ := finish_run _ s4 x4.1 e4
  have hbits : freshRun markerBits (stepBit d.rc v true).1 =
      ((freshRun (List.replicate 30 true) (freshRun (List.replicate 6 true) (freshRun (List.replicate 4 false)
          (stepBit (stepBit d.rc v true).1 0x400 false).1).1).1).1,
       (stepBit (stepBit d.rc v true).1 0x400 false).2 ++
        ((freshRun (List.replicate 4 false) (stepBit (stepBit d.rc v true).1 0x400 false).1).2 ++
         ((freshRun (List.replicate 6 true) (freshRun (List.replicate 4 false)
            (stepBit (stepBit d.rc v true).1 0x400 false).1).1).2 ++
          (freshRun (List.replicate 30 true) (freshRun (List.replicate 6 true) (freshRun (List.replicate 4 false)
            (stepBit (stepBit d.rc v true).1 0x400 false).1).1).1).2))) := by
    simp only [markerBits, freshRun, freshRun_append]
  refine ⟨s5, ?_, ?_⟩
  · rw [finish_marker_eq d inputLen hopt]
    rw [hg, rc_liftE_ok_bind, bind_run_ok h0, bind_run_ok h1, bind_run_ok h2, bind_run_ok h3,
      bind_run_ok h4, bind_run_ok h5]
    rfl
  · have := ((((x0.trans x1).trans x2).trans x3).trans x4).trans x5
    unfold markerBytes
    rw [hbits]
    simpa [List.append_assoc] using this

end DumbEnc

/-! ## reading the input one byte at a time -/

theorem erd_read_nil (fr : List Nat) :
    ERd.read { rem := [], bad := false, frags := fr } 1 = .ok ([], { rem := [], bad := false, frags := fr }) := rfl

/-- **(e)** `read(&mut [0u8; 1])` returns exactly the next byte whatever the fragmentation says -/
theorem erd_read_cons (b : UInt8) (r : Bytes) (fr : List Nat) :
    ∃ fr', ERd.read { rem := b :: r, bad := false, frags := fr } 1 =
      .ok ([b], { rem := r, bad := false, frags := fr' }) := by
  cases fr with
  | nil => exact ⟨[], rfl⟩
  | cons f fs =>
    refine ⟨fs, ?_⟩
    have : (if f = 0 then 1 else min f 1) = 1 := by split <;> omega
    simp [ERd.read, this]

namespace DumbEnc

theorem processLoop_succ (fuel outLen inputLen prev : Nat) (e : DumbEnc) (rd : ERd) :
    processLoop (fuel + 1) outLen inputLen prev e rd =
      (liftE (rd.read 1) >>= fun x => match x.1 with
        | [] => pure (e, inputLen)
        | byte :: _ =>
          liftE (arrGet e.isMatch (outLen &&& 3)) >>= fun p =>
          e.rc.encodeBit p false >>= fun y =>
          ({ e with rc := y.1, isMatch := e.isMatch.setIfInBounds (outLen &&& 3) y.2 } : DumbEnc).encodeLiteral
            byte.toNat prev >>= fun e' =>
          processLoop fuel (outLen + 1) outLen byte.toNat e' x.2) := by
  rfl

/-! ## correspondence with the reference encoder's state -/

/-- the reference encoder state that corresponds to the Rust encoder `d` after `outLen`
literals, the last of which was `prev` -/
structure Rel (d : DumbEnc) (s : EncSt) (outLen prev : Nat) : Prop where
  props : s.props = ⟨3, 0, 2⟩
  probs : s.probs = d.toProbs
  state : s.spec.state = 0
  size : s.spec.hist.size = outLen
  prev : prev = if outLen = 0 then 0 else (s.spec.hist[outLen - 1]?.getD 0).toNat

theorem Rel.fresh (opt : EncSizeOpt) : Rel { opt := opt } (EncSt.new ⟨3, 0, 2⟩) 0 0 :=
  ⟨rfl, by rw [toProbs_fresh]; rfl, rfl, rfl, rfl⟩

theorem Rel.prev_lt {d : DumbEnc} {s : EncSt} {outLen prev : Nat} (h : Rel d s outLen prev) :
    prev < 256 := by
  rw [h.prev]; split
  · decide
  · exact UInt8.toNat_lt _

theorem Rel.ctx {d : DumbEnc} {s : EncSt} {outLen prev : Nat} (h : Rel d s outLen prev) :
    s.ctx.state = 0 ∧ s.ctx.posState = outLen &&& 3 ∧ s.ctx.litRow = prev >>> 5 := by
  obtain ⟨h1, h2, h3, h4, h5⟩ := h
  refine ⟨h3, ?_, ?_⟩
  · simp [EncSt.ctx, h1, h4]
  · simp [EncSt.ctx, h1, h4, h5]

theorem Rel.litEvents {d : DumbEnc} {s : EncSt} {outLen prev : Nat} (h : Rel d s outLen prev) (b : UInt8) :
    rawSymEvents s.ctx (Sym.toRaw (.lit b)) =
      .pbit (.isMatch (outLen &&& 3)) false :: litPlainEv (prev >>> 5) b.toNat 8 1 := by
  obtain ⟨c1, c2, c3⟩ := h.ctx
  simp [Sym.toRaw, rawSymEvents, c1, c2, c3]

theorem encodeProg_cons (dict : Nat) (sym : Sym) (rest : List Sym) (s : EncSt) (e : REnc) :
    encodeProg dict (sym :: rest) s e =
      (encodeEvents (rawSymEvents s.ctx sym.toRaw) s.probs e >>= fun x =>
        encodeProg dict rest { s with probs := x.1, spec := match SpecSt.step dict s.spec sym with
          | some (st, _) => st
          | none =>
            match sym with
            | .mtch dist _ => { s.spec with rep3 := s.spec.rep2, rep2 := s.spec.rep1, rep1 := s.spec.rep0,
                                            rep0 := dist - 1, state := if s.spec.state < 7 then 7 else 10 }
            | _ => s.spec } x.2) := rfl

theorem and3_lt (n : Nat) : n &&& 3 < 4 := by
  have : n &&& 3 = n % 4 := Nat.and_two_pow_sub_one_eq_mod n 2
  omega

/-- **(a), (b), (e)** the literal loop: both encoders, run on all-accepting sinks, append
the same bytes for the whole input, and end in corresponding states -/
theorem processLoop_sim (dict : Nat) (tail : List Sym) :
    ∀ (data : Bytes) (fuel outLen inputLen prev : Nat) (d : DumbEnc) (fr : List Nat) (s : EncSt)
      (sD sR : Sink), data.length < fuel → d.WF → Rel d s outLen prev →
      sD.script = [] → sR.script = [] →
      ∃ d' sD' sR' bs s' il prev', processLoop fuel outLen inputLen prev d
            { rem := data, bad := false, frags := fr } sD = (sD', .ok (d', il)) ∧
        d'.WF ∧ d'.opt = d.opt ∧ SinkExt sD sD' bs ∧ SinkExt sR sR' bs ∧
        encodeProg dict (data.map Sym.lit ++ tail) s d.rc sR = encodeProg dict tail s' d'.rc sR' ∧
        Rel d' s' (outLen + data.length) prev' ∧
        (data = [] → d' = d) ∧
        il = (if data = [] then inputLen else outLen + data.length - 1)
  | [], fuel, outLen, inputLen, prev, d, fr, s, sD, sR, hf, hd, hr, hD, hR => by
    obtain ⟨fuel, rfl⟩ : ∃ k, fuel = k + 1 := ⟨fuel - 1, by simp at hf; omega⟩
    refine ⟨d, sD, sR, [], s, inputLen, prev, ?_, hd, rfl, SinkExt.refl hD, SinkExt.refl hR, rfl,
      hr, fun _ => rfl, rfl⟩
    rw [processLoop_succ, erd_read_nil, rc_liftE_ok_bind]
    rfl
  | b :: data, fuel, outLen, inputLen, prev, d, fr, s, sD, sR, hf, hd, hr, hD, hR => by
    obtain ⟨fuel, rfl⟩ : ∃ k, fuel = k + 1 := ⟨fuel - 1, by simp at hf; omega⟩
    obtain ⟨fr', hread⟩ := erd_read_cons b data fr
    have hps := and3_lt outLen
    obtain ⟨v, hgD, hgR⟩ := toProbs_get_isMatch d hd (outLen &&& 3) hps
    have hv : ProbOk v := hd.probs _ _ hgR
    -- the `is_match` bit
    obtain ⟨sD1, hrun, xD⟩ := encodeBit_run d.rc v false sD hD hd.rc hv
    obtain ⟨sR1, xR, heq⟩ := encodeEvents_pbit (i := .isMatch (outLen &&& 3)) (b := false)
      (probs := d.toProbs) hR hd.rc hgR hv
    have hd1 : WF ({ d with rc := (stepBit d.rc v false).1,
                            isMatch := d.isMatch.setIfInBounds (outLen &&& 3) (updP v false) } : DumbEnc) :=
      ⟨hd.lit, by simpa using hd.im, stepBit_ok false hd.rc hv, by
        rw [toProbs_setIsMatch _ _ _ _ (by rw [hd.im]; exact hps)]; exact hd.probs.set _ (hv.upd false)⟩
    -- the literal's eight bits
    obtain ⟨d2, sD2, sR2, bs2, h1, hd2, hopt2, xD2, xR2, heq2⟩ :=
      encodeLiteral_sim b.toNat prev hr.prev_lt _ sD1 sR1 hd1 xD.1 xR.1
    -- the reference encoder on this symbol
    have hsym : encodeEvents (rawSymEvents s.ctx (Sym.toRaw (.lit b))) s.probs d.rc sR =
        (sR2, .ok (d2.toProbs, d2.rc)) := by
      rw [hr.litEvents b, hr.probs, heq]
      have := heq2 []
      rw [List.append_nil, toProbs_setIsMatch _ _ _ _ (by rw [hd.im]; exact hps)] at this
      rw [this]; rfl
    have hr2 : Rel d2
        { s with
          probs := d2.toProbs,
          spec := { s.spec with hist := s.spec.hist.push b, state := SpecSt.litState s.spec.state } }
        (outLen + 1) b.toNat :=
      ⟨hr.props, rfl, by simp [hr.state, SpecSt.litState], by simp [hr.size], by
        have : (s.spec.hist.push b)[outLen]? = some b := by
          rw [← hr.size]; simp
        simp [this]⟩
    obtain ⟨d', sD', sR', bs, s', il, prev', h3, hd', hopt', xD', xR', heq', hr', _, hil⟩ :=
      processLoop_sim dict tail data fuel (outLen + 1) outLen b.toNat d2 fr' _ sD2 sR2
        (by simp at hf; omega) hd2 hr2 xD2.1 xR2.1
    refine ⟨d', sD', sR', (stepBit d.rc v false).2 ++ bs2 ++ bs, s', il, prev', ?_, hd',
      by rw [hopt', hopt2], (xD.trans xD2).trans xD', (xR.trans xR2).trans xR', ?_, ?_,
      (fun h => by cases h), ?_⟩
    · rw [processLoop_succ, hread, rc_liftE_ok_bind]
      simp only []
      rw [hgD, rc_liftE_ok_bind, bind_run_ok hrun, bind_run_ok h1]
      exact h3
    · rw [List.map_cons, List.cons_append, encodeProg_cons, bind_run_ok hsym]
      exact heq'
    · have : outLen + (b :: data).length = outLen + 1 + data.length := by simp; omega
      rw [this]; exact hr'
    · rw [hil]
      simp only [List.length_cons, reduceCtorEq, if_false]
      split
      · rename_i h; subst h; simp
      · omega

/-! ## the end of the stream -/

theorem encodeProg_nil (dict : Nat) (s : EncSt) (e : REnc) (snk : Sink) :
    encodeProg dict [] s e snk = (snk, .ok (s, e)) := rfl

/-- the reference encoder on the end marker, followed by the flush -/
theorem encodeProg_eos (dict : Nat) (d : DumbEnc) (s : EncSt) (outLen prev v : Nat) (hd : d.WF)
    (hr : Rel d s outLen prev) (hg : d.toProbs.get (.isMatch (outLen &&& 3)) = .ok v)
    (sR : Sink) (hR : sR.script = []) :
    ∃ sR' s' e' sB e2, encodeProg dict [.eos] s d.rc sR = (sR', .ok (s', e')) ∧
      e'.finish sR' = (sB, .ok e2) ∧ SinkExt sR sB (markerBytes d.rc v) := by
  have hps := and3_lt outLen
  have hv : ProbOk v := hd.probs _ _ hg
  obtain ⟨c1, c2, _⟩ := hr.ctx
  obtain ⟨s1, x1, heq⟩ := encodeEvents_pbit (i := .isMatch (outLen &&& 3)) (b := true)
    (probs := d.toProbs) hR hd.rc hg hv
  have e1 := stepBit_ok true hd.rc hv
  obtain ⟨s2, p2, h2, x2⟩ := encodeEvents_fresh (markerTail (outLen &&& 3)) _ _ s1
    (markerTail_fresh d (outLen &&& 3) (updP v true) (outLen &&& 3) hps) x1.1 e1
  rw [marker_eq _ _ e1] at h2 x2
  have e2 := freshRun_ok markerBits _ e1
  obtain ⟨s3, h3, x3, _⟩ := finish_run _ s2 x2.1 e2
  have key : ∃ s', encodeProg dict [.eos] s d.rc sR =
      (s2, .ok (s', (freshRun markerBits (stepBit d.rc v true).1).1)) := by
    have hev : encodeEvents (.pbit (.isMatch (outLen &&& 3)) true :: markerTail (outLen &&& 3))
        d.toProbs d.rc sR = (s2, .ok (p2, (freshRun markerBits (stepBit d.rc v true).1).1)) := by
      rw [heq]; exact h2
    refine ⟨?w, ?h⟩
    case h =>
      rw [encodeProg_cons, rawSymEvents_eos _ c1, c2, hr.probs, bind_run_ok hev, encodeProg_nil]
  obtain ⟨s', hs'⟩ := key
  refine ⟨s2, s', _, s3, _, hs', h3, ?_⟩
  have := (x1.trans x2).trans x3
  simpa [markerBytes] using this

/-! ## the header -/

/-- the size field the encoder writes for an option -/
def hdrSize : EncSizeOpt → Option Nat
  | .writeToHeader none => some 0xFFFFFFFFFFFFFFFF
  | .writeToHeader (some n) => some n
  | .skipWritingToHeader => none

/-- **(d)** `Encoder::from_stream` writes the `.lzma` header for `lc = 3, lp = 0, pb = 2`,
dictionary size `0x00800000` -/
theorem fromStream_run (opt : EncSizeOpt) (snk : Sink) (hs : snk.script = []) :
    ∃ snk', fromStream opt snk = (snk', .ok { opt := opt }) ∧
      SinkExt snk snk' (lzmaHeader ⟨3, 0, 2⟩ 0x00800000 (hdrSize opt)) := by
  obtain ⟨s1, h1, x1⟩ := writeBytes_ext [UInt8.ofNat (3 + 9 * (0 + 5 * 2))] snk hs
  obtain ⟨s2, h2, x2⟩ := writeBytes_ext (leBytes 4 0x00800000) s1 x1.1
  cases opt with
  | skipWritingToHeader =>
    refine ⟨s2, ?_, by simpa [lzmaHeader, hdrSize] using x1.trans x2⟩
    show (writeBytes _ >>= fun _ => writeBytes _ >>= fun _ => pure _) snk = _
    rw [bind_run_ok h1, bind_run_ok h2]; rfl
  | writeToHeader x =>
    cases x with
    | none =>
      obtain ⟨s3, h3, x3⟩ := writeBytes_ext (leBytes 8 0xFFFFFFFFFFFFFFFF) s2 x2.1
      refine ⟨s3, ?_, by simpa [lzmaHeader, hdrSize] using (x1.trans x2).trans x3⟩
      show (writeBytes _ >>= fun _ => writeBytes _ >>= fun _ =>
        writeBytes (leBytes 8 0xFFFFFFFFFFFFFFFF) >>= fun _ => pure _) snk = _
      rw [bind_run_ok h1, bind_run_ok h2, bind_run_ok h3]; rfl
    | some n =>
      obtain ⟨s3, h3, x3⟩ := writeBytes_ext (leBytes 8 n) s2 x2.1
      refine ⟨s3, ?_, by simpa [lzmaHeader, hdrSize] using (x1.trans x2).trans x3⟩
      show (writeBytes _ >>= fun _ => writeBytes _ >>= fun _ =>
        writeBytes (leBytes 8 n) >>= fun _ => pure _) snk = _
      rw [bind_run_ok h1, bind_run_ok h2, bind_run_ok h3]; rfl

/-! ## the whole encoder -/

/-- the symbol program of the literal-only encoder -/
def litProg (data : Bytes) (opt : EncSizeOpt) : List Sym :=
  data.map Sym.lit ++ (if opt = .writeToHeader none then [.eos] else [])

theorem encodeSyms_of_run {props : Props} {dict : Nat} {prog : List Sym} {sR sB : Sink} {s : EncSt}
    {e e2 : REnc} {bs : Bytes}
    (h1 : encodeProg dict prog (EncSt.new props) {} {} = (sR, .ok (s, e)))
    (h2 : e.finish sR = (sB, .ok e2)) (hx : SinkExt {} sB bs) :
    encodeSyms props dict prog = bs := by
  unfold encodeSyms
  simp only []
  rw [bind_run_ok h1]
  simp only []
  rw [bind_run_ok h2]
  simp only [pure_run]
  rw [hx.2]; rfl

/-- `Encoder::process` on an all-accepting sink appends exactly the reference encoding of
"all bytes as literals (+ end marker)" -/
theorem process_sim (dict : Nat) (data : Bytes) (fr : List Nat) (opt : EncSizeOpt) (sD : Sink)
    (hD : sD.script = []) :
    ∃ sD', ({ opt := opt } : DumbEnc).process { rem := data, frags := fr } sD = (sD', .ok ()) ∧
      SinkExt sD sD' (encodeSyms ⟨3, 0, 2⟩ dict (litProg data opt)) := by
  obtain ⟨d', sD1, sR1, bs, s', il, prev', h1, hd', hopt', xD, xR, heq, hr', hnil, hil⟩ :=
    processLoop_sim dict (if opt = .writeToHeader none then [.eos] else []) data (data.length + 1)
      0 0 0 { opt := opt } fr (EncSt.new ⟨3, 0, 2⟩) sD {} (by omega) (wf_fresh opt) (Rel.fresh opt)
      hD rfl
  have hproc : ∀ r, d'.finish (il + 1) sD1 = r →
      ({ opt := opt } : DumbEnc).process { rem := data, frags := fr } sD = r := by
    intro r hr
    show (processLoop (data.length + 1) 0 0 0 _ _ >>= fun x => x.1.finish (x.2 + 1)) sD = r
    rw [bind_run_ok h1]; exact hr
  simp only [Nat.zero_add] at hr' hil
  by_cases hm : opt = .writeToHeader none
  · -- with end marker
    rw [if_pos hm] at heq
    have hps := and3_lt data.length
    -- the `is_match` probability the Rust encoder uses: same value as the format's
    have hv : ∃ v, arrGet d'.isMatch ((il + 1) &&& 3) = .ok v ∧
        d'.toProbs.get (.isMatch (data.length &&& 3)) = .ok v := by
      by_cases hdn : data = []
      · -- empty input: index 1 instead of 0, both cells still hold `0x400`
        rw [hnil hdn, hdn]
        exact ⟨0x400, by rw [hil, if_pos hdn]; simp [arrGet],
          by rw [toProbs_fresh]; simp [Probs.get, Probs.init, arrGet]⟩
      · have hlen : 0 < data.length := List.length_pos_iff.mpr hdn
        have : il + 1 = data.length := by rw [hil, if_neg hdn]; omega
        rw [this]
        exact toProbs_get_isMatch d' hd' _ hps
    obtain ⟨v, hgD, hgR⟩ := hv
    have hpv : ProbOk v := hd'.probs _ _ hgR
    obtain ⟨sD2, h2, xD2⟩ := finish_marker_run d' (il + 1) v (by rw [hopt', hm]) hgD hpv hd'.rc sD1 xD.1
    obtain ⟨sR2, s2, e2, sB, e3, h3, h4, xR2⟩ := encodeProg_eos dict d' s' data.length prev' v hd' hr' hgR sR1 xR.1
    refine ⟨sD2, hproc _ h2, ?_⟩
    have henc : encodeSyms ⟨3, 0, 2⟩ dict (litProg data opt) = bs ++ markerBytes d'.rc v :=
      encodeSyms_of_run (by unfold litProg; rw [if_pos hm, heq]; exact h3) h4 (xR.trans xR2)
    rw [henc]
    exact xD.trans xD2
  · -- no end marker
    rw [if_neg hm] at heq
    obtain ⟨sD2, h2, xD2, _⟩ := finish_run d'.rc sD1 xD.1 hd'.rc
    obtain ⟨sB, h4, xR2, _⟩ := finish_run d'.rc sR1 xR.1 hd'.rc
    refine ⟨sD2, hproc _ ?_, ?_⟩
    · rw [finish_nomarker_eq d' _ (by rw [hopt']; exact hm), bind_run_ok h2]; rfl
    · have henc : encodeSyms ⟨3, 0, 2⟩ dict (litProg data opt) = bs ++ (fin d'.rc).2 :=
        encodeSyms_of_run (by unfold litProg; rw [if_neg hm, heq]; exact encodeProg_nil _ _ _ _) h4
          (xR.trans xR2)
      rw [henc]
      exact xD.trans xD2

end DumbEnc

/-! ## `marker_range_divisible` -/

theorem REnc.freshRun_minv (bs : List Bool) (e : REnc) (he : EOk e) (h : MInv e.range) :
    MInv (freshRun bs e).1.range := by
  induction bs generalizing e with
  | nil => exact h
  | cons b bs ih =>
    exact ih _ (stepBit_ok b he probOk_init) (by rw [stepBit_range]; exact minv_step b h he.lo he.hi)

/-- **`marker_range_divisible`**: start from ANY consistent encoder state (in particular the
one after the marker's `is_match` bit, whose probability is arbitrary).  Code the marker's
`is_rep` bit, four length bits and six slot bits with probability `0x400`, then any number `k`
of further one-bits with probability `0x400`.  The range then is a multiple of `2^11`, so the
next such bit halves the range exactly like a direct bit. -/
theorem marker_range_divisible (e : REnc) (he : EOk e) (k : Nat) :
    2 ^ 11 ∣ (freshRun ((false :: (List.replicate 4 false ++ List.replicate 6 true)) ++
      List.replicate k true) e).1.range := by
  obtain ⟨hm, hok⟩ := marker_minv 0 e he
  rw [ev400Run_pbits _ (by simp [markerHead]), rcBitsOf_markerHead] at hm hok
  rw [freshRun_append]
  exact Nat.dvd_of_mod_eq_zero (freshRun_minv _ _ hok hm).1

end Lzma
