/-
  C07 — layer 9: the streaming decoder `Stream` (`write`, `flush`, `finish`, the
  `writeS` transition and the `feed` loop).
-/
import LzmaProofs.Lemmas.SafetyLzma
namespace Lzma
namespace Safety

/-- invariant of `RunState` -/
def RunInv (rs : RunState) : Prop :=
  DStateInv rs.decoder ∧ RCInv { range := rs.range, code := rs.code } ∧ CircSafe rs.output

/-- invariant of a `Stream` object -/
def StreamInv (st : Stream) : Prop :=
  match st.state with
  | some (.data rs) => RunInv rs
  | _ => True

theorem StreamInv_new (opts : Options) : StreamInv (Stream.newWithOptions opts) := trivial

theorem StreamInv_failed (st : Stream) : StreamInv st.failed := trivial

theorem Stream_readHeader_safe (rd : Rd) (opts : Options) :
    ESafe (fun x => ∀ rs, x.1 = some rs → RunInv rs) (Stream.readHeader rd opts) := by
  unfold Stream.readHeader
  have h := readHeader_safe rd opts
  cases hx : Lzma.readHeader rd opts with
  | ok x =>
    obtain ⟨params, rd'⟩ := x
    rw [hx] at h
    obtain ⟨hp, hd, _⟩ := h
    have h2 := DState_new_safe hp params.unpackedSize
    dsimp only at hp hd h2 ⊢
    split
    · rename_i e he; rw [he] at h2; exact h2
    · rename_i decoder hdec
      rw [hdec] at h2
      have h3 := RC_new_safe rd'
      split
      · rename_i rc rd'' hrc
        rw [hrc] at h3
        refine ESafe_ok.mpr ?_
        intro rs hrs
        cases hrs
        exact ⟨h2.1, h3.1, CircSafe_fromStream hd⟩
      · refine ESafe_ok.mpr ?_
        intro rs hrs
        cases hrs
  | error e =>
    rw [hx] at h
    cases e <;> first
      | exact h
      | (refine ESafe_ok.mpr ?_; intro rs hrs; cases hrs)

theorem readData_safe {rs : RunState} (h : RunInv rs) (rd : Rd) :
    MSafe (fun x => RunInv x.1 ∧ x.2.rem.length ≤ rd.rem.length) (Stream.readData rs rd) := by
  unfold Stream.readData
  refine MSafe.bind (processMode_safe (ω := Circ) .stream rd h.1 h.2.2 h.2.1) ?_
  rintro ⟨dec, out, rc, rd'⟩ ⟨h1, h2, h3, h4⟩
  exact MSafe_pure.mpr ⟨⟨h1, h3, h2⟩, h4⟩

theorem Stream_write_safe {st : Stream} (h : StreamInv st) (data : Bytes) :
    MSafe (fun x => StreamInv x.1) (st.write data) := by
  unfold Stream.write
  split
  · exact MSafe_pure.mpr h
  · by_cases hc : st.tmp.length > 0
    · simp only [hc, ↓reduceIte]
      intro snk
      have := Stream_readHeader_safe (Rd.ofBytes (st.tmp ++ List.take (min data.length (MAX_TMP_LEN - st.tmp.length)) data)) st.options
      dsimp only
      split
      · rename_i e he; rw [he] at this; exact this
      · rename_i rs rd' he
        rw [he] at this
        exact this rs rfl
      · trivial
    · simp only [hc, ↓reduceIte]
      intro snk
      have := Stream_readHeader_safe (Rd.ofBytes data) st.options
      dsimp only
      split
      · rename_i e he; rw [he] at this; exact this
      · rename_i rs rd' he
        rw [he] at this
        exact this rs rfl
      · trivial
  · rename_i rs hst
    have hrs : RunInv rs := by unfold StreamInv at h; rw [hst] at h; exact h
    extract_lets jp
    have hjp : ∀ rs1, RunInv rs1 → MSafe (fun x => StreamInv x.1) (jp rs1) := by
      intro rs1 h1
      simp -zeta only [jp]
      refine MSafe.bind (readData_safe h1 _) ?_
      rintro ⟨rs2, rd⟩ ⟨h2, _⟩
      exact MSafe_pure.mpr h2
    split
    · refine MSafe.bind (readData_safe hrs _) ?_
      rintro ⟨rs1, _⟩ ⟨h1, _⟩
      dsimp -zeta only
      rw [M_pure_bind]
      exact hjp _ h1
    · rw [M_pure_bind]
      exact hjp _ hrs

theorem Stream_writeS_safe {st : Stream} (h : StreamInv st) (data : Bytes) (snk : Sink) :
    StreamInv (st.writeS data snk).2.1 ∧ ESafe (fun _ => True) (st.writeS data snk).2.2 := by
  unfold Stream.writeS
  have := Stream_write_safe h data snk
  split
  · rename_i snk' st' n heq
    rw [heq] at this
    exact ⟨this, trivial⟩
  · rename_i snk' e heq
    rw [heq] at this
    exact ⟨StreamInv_failed st, this⟩

theorem Stream_feed_safe : ∀ (fuel : Nat) (st : Stream) (data : Bytes) (acc : Nat) (snk : Sink),
    StreamInv st →
    StreamInv (Stream.feed fuel st data acc snk).2.1 ∧
      ESafe (fun _ => True) (Stream.feed fuel st data acc snk).2.2 := by
  intro fuel
  induction fuel with
  | zero => intro st data acc snk h; exact ⟨h, trivial⟩
  | succ fuel ih =>
    intro st data acc snk h
    unfold Stream.feed
    split
    · exact ⟨h, trivial⟩
    · have := Stream_writeS_safe h data snk
      split
      · rename_i snk' st' e heq
        rw [heq] at this
        exact this
      · rename_i snk' st' n heq
        rw [heq] at this
        split
        · exact ⟨this.1, trivial⟩
        · exact ih st' _ _ snk' this.1

theorem Stream_flush_safe (st : Stream) : MSafe (fun _ => True) st.flush := by
  unfold Stream.flush
  split
  · exact flushSink_safe
  · exact MSafe_pure.mpr trivial

theorem Stream_finish_safe {st : Stream} (h : StreamInv st) : MSafe (fun _ => True) st.finish := by
  unfold Stream.finish
  split
  · simp
  · split <;> simp
  · rename_i rs hst
    have hrs : RunInv rs := by unfold StreamInv at h; rw [hst] at h; exact h
    extract_lets jp
    split
    · refine MSafe.bind (processMode_safe (ω := Circ) .finish _ hrs.1 hrs.2.2 hrs.2.1) ?_
      rintro ⟨_, out, _, _⟩ ⟨_, h2, _, _⟩
      dsimp -zeta only
      rw [M_pure_bind]
      exact Circ.finish_safe out h2
    · rw [M_pure_bind]
      exact Circ.finish_safe _ hrs.2.2

/-- the streams a caller can ever hold: a fresh one, or the one left behind by a
`write` (successful or not) on a reachable stream with any data and any sink -/
inductive Reachable (opts : Options) : Stream → Prop
  | new : Reachable opts (Stream.newWithOptions opts)
  | write {st : Stream} (h : Reachable opts st) (data : Bytes) (snk : Sink) :
      Reachable opts (st.writeS data snk).2.1

theorem Reachable.inv {opts : Options} {st : Stream} (h : Reachable opts st) : StreamInv st := by
  induction h with
  | new => exact StreamInv_new opts
  | write _ data snk ih => exact (Stream_writeS_safe ih data snk).1

/-! ### the 18-byte staging buffer stays within its capacity -/

theorem Stream_readHeader_len (rd : Rd) (opts : Options) :
    ESafe (fun x => x.2.rem.length ≤ rd.rem.length) (Stream.readHeader rd opts) := by
  unfold Stream.readHeader
  have h := readHeader_safe rd opts
  cases hx : Lzma.readHeader rd opts with
  | ok x =>
    obtain ⟨params, rd'⟩ := x
    rw [hx] at h
    obtain ⟨hp, hd, hl⟩ := h
    have h2 := DState_new_safe hp params.unpackedSize
    dsimp only at hp hd hl h2 ⊢
    split
    · rename_i e he; rw [he] at h2; exact h2
    · have h3 := RC_new_safe rd'
      split
      · rename_i rc rd'' hrc
        rw [hrc] at h3
        refine ESafe_ok.mpr ?_
        have := h3.2
        dsimp only at this ⊢
        omega
      · exact ESafe_ok.mpr hl
  | error e =>
    rw [hx] at h
    cases e <;> first
      | exact h
      | exact ESafe_ok.mpr (Nat.le_refl _)

theorem Stream_write_tmp_le {st : Stream} (hinv : StreamInv st) (h : st.tmp.length ≤ 18) (data : Bytes) :
    MSafe (fun x => x.1.tmp.length ≤ 18) (st.write data) := by
  unfold Stream.write
  split
  · exact MSafe_pure.mpr h
  · by_cases hc : st.tmp.length > 0
    · simp only [hc, ↓reduceIte]
      intro snk
      have := Stream_readHeader_len (Rd.ofBytes (st.tmp ++ List.take (min data.length (MAX_TMP_LEN - st.tmp.length)) data)) st.options
      have hlen : (st.tmp ++ List.take (min data.length (MAX_TMP_LEN - st.tmp.length)) data).length ≤ 18 := by
        simp [MAX_TMP_LEN]; omega
      dsimp only
      split
      · rename_i e he; rw [he] at this; exact this
      · rename_i rs rd' he
        rw [he] at this
        exact Nat.le_trans this hlen
      · exact hlen
    · simp only [hc, ↓reduceIte]
      intro snk
      have := Stream_readHeader_len (Rd.ofBytes data) st.options
      dsimp only
      split
      · rename_i e he; rw [he] at this; exact this
      · exact h
      · show (List.take (min data.length MAX_TMP_LEN) data).length ≤ 18
        simp [MAX_TMP_LEN]; omega
  · rename_i rs hst
    extract_lets jp
    have hrs : RunInv rs := by unfold StreamInv at hinv; rw [hst] at hinv; exact hinv
    have hjp : ∀ rs1, RunInv rs1 → MSafe (fun x => x.1.tmp.length ≤ 18) (jp rs1) := by
      intro rs1 h1
      simp -zeta only [jp]
      refine MSafe.bind (readData_safe h1 _) ?_
      rintro ⟨rs2, rd⟩ _
      exact MSafe_pure.mpr (Nat.zero_le _)
    split
    · refine MSafe.bind (readData_safe hrs _) ?_
      rintro ⟨rs1, _⟩ ⟨h1, _⟩
      dsimp -zeta only
      rw [M_pure_bind]
      exact hjp _ h1
    · rw [M_pure_bind]
      exact hjp _ hrs

theorem Reachable.tmp_le {opts : Options} {st : Stream} (h : Reachable opts st) :
    st.tmp.length ≤ 18 := by
  induction h with
  | new => exact Nat.zero_le _
  | write _ data snk ih =>
    have := Stream_write_tmp_le (Reachable.inv ‹_›) ih data snk
    unfold Stream.writeS
    split
    · rename_i snk' st' n heq
      rw [heq] at this
      exact this
    · exact ih

theorem Reachable.feed {opts : Options} : ∀ (fuel : Nat) {st : Stream} (data : Bytes) (acc : Nat)
    (snk : Sink), Reachable opts st → Reachable opts (Stream.feed fuel st data acc snk).2.1 := by
  intro fuel
  induction fuel with
  | zero => intro st data acc snk h; exact h
  | succ fuel ih =>
    intro st data acc snk h
    unfold Stream.feed
    split
    · exact h
    · have := Reachable.write h data snk
      split
      · rename_i snk' st' e heq
        rw [heq] at this
        exact this
      · rename_i snk' st' n heq
        rw [heq] at this
        split
        · exact this
        · exact ih _ _ snk' this

end Safety
end Lzma
