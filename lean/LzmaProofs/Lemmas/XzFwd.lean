/-
  Forward exactness of the XZ container decoder and the framing of the LZMA2 / XZ encoders:
  helper lemmas and the specification `buildXz` of well-formed files.
-/
import LzmaProofs.Lemmas.Multibyte
namespace Lzma

/-! ## perfect sinks -/

/-- the effect of one `write_all` on a sink whose script is exhausted -/
def Sink.put (s : Sink) (bs : Bytes) : Sink :=
  if bs = [] then s
  else { s with out := s.out ++ bs.toArray, writes := s.writes + 1, lastFlush := false }

@[simp] theorem Sink.put_script (s : Sink) (bs : Bytes) : (s.put bs).script = s.script := by
  unfold Sink.put; split <;> rfl
@[simp] theorem Sink.put_flushes (s : Sink) (bs : Bytes) : (s.put bs).flushes = s.flushes := by
  unfold Sink.put; split <;> rfl
@[simp] theorem Sink.put_out (s : Sink) (bs : Bytes) : (s.put bs).out = s.out ++ bs.toArray := by
  unfold Sink.put; split
  · rename_i h; subst h; simp
  · rfl
@[simp] theorem Sink.put_nil (s : Sink) : s.put [] = s := by simp [Sink.put]

theorem Fwd.writeAll_perfect (s : Sink) (h : s.script = []) (bs : Array UInt8) :
    writeAll bs s = (s.put bs.toList, .ok ()) := by
  unfold writeAll Sink.put
  by_cases hb : bs.isEmpty
  · have : bs.toList = [] := by simpa using hb
    simp [hb, this]
  · have : bs.toList ≠ [] := by simpa using hb
    simp [hb, h, this]

theorem Fwd.writeBytes_perfect (s : Sink) (h : s.script = []) (bs : Bytes) :
    writeBytes bs s = (s.put bs, .ok ()) := by
  unfold writeBytes; rw [Fwd.writeAll_perfect s h]

theorem Fwd.M_bind_ok {m : M α} {f : α → M β} {s s' : Sink} {a : α} (h : m s = (s', .ok a)) :
    (m >>= f) s = f a s' := bind_run_ok h

@[simp] theorem Fwd.liftE_ok_bind (a : α) (f : α → M β) (s : Sink) :
    (liftE (.ok a) >>= f) s = f a s := rfl
@[simp] theorem Fwd.liftE_error_bind (e : Err) (f : α → M β) (s : Sink) :
    ((liftE (.error e) : M α) >>= f) s = (s, .error e) := rfl

/-! ## byte-order helpers -/

theorem Fwd.leVal_leBytes : ∀ (k n : Nat), n < 256 ^ k → leVal (leBytes k n) = n
  | 0, n, h => by simp at h; subst h; rfl
  | k+1, n, h => by
    have hk : n / 256 < 256 ^ k := by
      rw [Nat.pow_succ] at h
      exact Nat.div_lt_of_lt_mul (by rwa [Nat.mul_comm] at h)
    simp only [leBytes, leVal, Fwd.leVal_leBytes k (n / 256) hk, UInt8.toNat_ofNat']
    omega

@[simp] theorem Fwd.leBytes_length (k n : Nat) : (leBytes k n).length = k := by
  induction k generalizing n with
  | zero => rfl
  | succ k ih => simp [leBytes, ih]

theorem Fwd.beVal_beBytes2 (n : Nat) (h : n < 65536) : beVal (beBytes 2 n) = n := by
  simp [beBytes, leBytes, beVal, UInt8.toNat_ofNat']
  omega

@[simp] theorem Fwd.beBytes_length (k n : Nat) : (beBytes k n).length = k := by simp [beBytes]

theorem Fwd.readExact_append (l r : Bytes) (b : Bool) (n : Nat) (h : l.length = n) :
    Rd.readExact { rem := l ++ r, bad := b } n = .ok (l, { rem := r, bad := b }) := by
  subst h
  simp [Rd.readExact]

/-! ## LZMA2: frames of uncompressed chunks -/

theorem Fwd.M_bind_apply (m : M α) (f : α → M β) (s : Sink) :
    m.bind f s = match m s with
      | (s', .ok a) => f a s'
      | (s', .error e) => (s', .error e) := rfl

/-- the LZMA2 stream made of one "uncompressed, dictionary reset" chunk per element of the
list, followed by the end marker -/
def lzma2Frame : List Bytes → Bytes
  | [] => [0]
  | c :: cs => 1 :: (beBytes 2 (c.length - 1) ++ (c ++ lzma2Frame cs))

def ChunksOk (cs : List Bytes) : Prop := ∀ c ∈ cs, 1 ≤ c.length ∧ c.length ≤ 65536

theorem lzma2Frame_length_ge (cs : List Bytes) : cs.length + 1 ≤ (lzma2Frame cs).length := by
  induction cs with
  | nil => simp [lzma2Frame]
  | cons c cs ih => simp [lzma2Frame]; omega

theorem Fwd.parseUncompressed_reset (accum : Accum) (c r : Bytes) (b : Bool) (s : Sink)
    (hs : s.script = []) (h1 : 1 ≤ c.length) (h2 : c.length ≤ 65536) :
    Lzma2Decoder.parseUncompressed accum { rem := beBytes 2 (c.length - 1) ++ (c ++ r), bad := b } true s
      = (s.put accum.buf.toList,
          .ok ({ accum with buf := c.toArray, len := c.length }, { rem := r, bad := b })) := by
  unfold Lzma2Decoder.parseUncompressed
  simp only [Rd.readU16BE, Fwd.readExact_append _ _ _ 2 (Fwd.beBytes_length 2 _), bind, Except.bind, pure,
    Except.pure, lzErr, Fwd.beVal_beBytes2 (c.length - 1) (by omega)]
  have hlen : c.length - 1 + 1 = c.length := by omega
  simp [Fwd.M_bind_apply, liftE, M.pure, Accum.reset, Fwd.writeAll_perfect, hs, hlen, Fwd.readExact_append,
    Accum.appendBytes, bind, pure]

theorem Fwd.chunkLoop_frame : ∀ (cs : List Bytes) (fuel : Nat) (d : Lzma2Decoder) (accum : Accum)
    (t : Bytes) (b : Bool) (s : Sink), s.script = [] → ChunksOk cs → cs.length + 1 ≤ fuel →
    ∃ s' accum', Lzma2Decoder.chunkLoop fuel d accum { rem := lzma2Frame cs ++ t, bad := b } s
        = (s', .ok (d, accum', { rem := t, bad := b }))
      ∧ s'.script = [] ∧ s'.flushes = s.flushes
      ∧ s'.out ++ accum'.buf = s.out ++ accum.buf ++ cs.flatten.toArray
  | [], fuel, d, accum, t, b, s, hs, _, hf => by
    obtain ⟨fuel, rfl⟩ : ∃ f, fuel = f + 1 := ⟨fuel - 1, by simp at hf; omega⟩
    refine ⟨s, accum, ?_, hs, rfl, by simp⟩
    unfold Lzma2Decoder.chunkLoop
    simp [lzma2Frame, Rd.readU8, lzErr, bind, Fwd.M_bind_apply, liftE, M.pure, pure]
  | c :: cs, fuel, d, accum, t, b, s, hs, hc, hf => by
    obtain ⟨fuel, rfl⟩ : ∃ f, fuel = f + 1 := ⟨fuel - 1, by simp at hf; omega⟩
    have hc1 := hc c (by simp)
    have hcs : ChunksOk cs := fun x hx => hc x (by simp [hx])
    obtain ⟨s', accum', hrun, hs', hfl, hout⟩ :=
      Fwd.chunkLoop_frame cs fuel d { accum with buf := c.toArray, len := c.length } t b
        (s.put accum.buf.toList) (by simp [hs]) hcs (by simp at hf; omega)
    refine ⟨s', accum', ?_, hs', by simpa using hfl, by simpa [Array.append_assoc] using hout⟩
    have hp := Fwd.parseUncompressed_reset accum c (lzma2Frame cs ++ t) b s hs hc1.1 hc1.2
    unfold Lzma2Decoder.chunkLoop
    simp [lzma2Frame, Rd.readU8, lzErr, bind, Fwd.M_bind_apply, liftE, hp, hrun]

theorem Fwd.Lzma2Decoder_new_ok : ∃ d, Lzma2Decoder.new = .ok d := by
  simp [Lzma2Decoder.new, DState.new, Props.validate, Lzma2Decoder.zeroProps, bind, Except.bind, pure, Except.pure]


theorem Fwd.flushSink_perfect (s : Sink) (h : s.script = []) :
    flushSink s = ({ s with flushes := s.flushes + 1, lastFlush := true }, .ok ()) := by
  unfold flushSink; rw [h]

theorem lzma2Decompress_frame (cs : List Bytes) (t : Bytes) (b : Bool) (s : Sink)
    (hs : s.script = []) (hc : ChunksOk cs) :
    ∃ s', lzma2Decompress { rem := lzma2Frame cs ++ t, bad := b } s = (s', .ok { rem := t, bad := b })
      ∧ s'.script = [] ∧ s'.out = s.out ++ cs.flatten.toArray
      ∧ s'.flushes = s.flushes + 1 ∧ s'.lastFlush = true := by
  obtain ⟨d, hd⟩ := Fwd.Lzma2Decoder_new_ok
  obtain ⟨s', accum', hrun, hs', hfl, hout⟩ :=
    Fwd.chunkLoop_frame cs ((lzma2Frame cs ++ t).length + 1) d (Accum.fromStream USIZE_MAX) t b s hs hc
      (by have := lzma2Frame_length_ge cs; simp; omega)
  refine ⟨{ (s'.put accum'.buf.toList) with flushes := s'.flushes + 1, lastFlush := true }, ?_, ?_, ?_, ?_, ?_⟩
  · unfold lzma2Decompress Lzma2Decoder.decompress
    simp [-List.length_append, hd, bind, Fwd.M_bind_apply, liftE, M.pure, pure, hrun, Accum.finish, Fwd.writeAll_perfect, hs',
      Fwd.flushSink_perfect]
  · simpa using hs'
  · simpa [Accum.fromStream] using hout
  · simp [hfl]
  · rfl

theorem decodeFilter_frame (cs : List Bytes) (t : Bytes) (x : UInt8) (hc : ChunksOk cs) :
    decodeFilter (Rd.ofBytes (lzma2Frame cs ++ t)) { props := [x] } = .ok (cs.flatten, { rem := t }) := by
  obtain ⟨d, hd⟩ := Fwd.Lzma2Decoder_new_ok
  obtain ⟨s', accum', hrun, hs', hfl, hout⟩ :=
    Fwd.chunkLoop_frame cs ((lzma2Frame cs ++ t).length + 1) d (Accum.fromStream USIZE_MAX) t false {} rfl hc
      (by have := lzma2Frame_length_ge cs; simp; omega)
  unfold decodeFilter Lzma2Decoder.decompress
  have : (s'.out ++ accum'.buf).toList = cs.flatten := by
    rw [hout]; simp [Accum.fromStream]
  simp [-List.length_append, hd, bind, Except.bind, Fwd.M_bind_apply, M.pure, pure, Except.pure, Rd.ofBytes, hrun, Accum.finish,
    Fwd.writeAll_perfect, hs', Fwd.flushSink_perfect]
  simpa using this

/-! ## the LZMA2 encoder -/

theorem ERd.read_spec (rd : ERd) (hb : rd.bad = false) :
    ∃ buf rd', rd.read 0x10000 = .ok (buf, rd') ∧ rd'.bad = false ∧ buf ++ rd'.rem = rd.rem
      ∧ buf.length ≤ 65536 ∧ (rd.rem ≠ [] → buf ≠ []) := by
  unfold ERd.read
  by_cases he : rd.rem = []
  · exact ⟨[], rd, by simp [he, hb], hb, by simp, by simp, fun h => absurd he h⟩
  · have hne : rd.rem.length ≠ 0 := by simpa using he
    rcases rd with ⟨rem, bad, frags⟩
    simp only at he hb hne
    simp only [List.isEmpty_iff, he, if_false]
    rcases frags with _ | ⟨f, fs⟩
    · refine ⟨_, _, rfl, hb, by simp, ?_, ?_⟩
      · simp only [List.length_take]; omega
      · intro _
        simp only [ne_eq, List.take_eq_nil_iff, he, or_false]; omega
    · refine ⟨_, _, rfl, hb, by simp, ?_, ?_⟩
      · simp only [List.length_take]; split <;> omega
      · intro _
        simp only [ne_eq, List.take_eq_nil_iff, he, or_false]; split <;> omega

theorem lzma2EncodeLoop_spec : ∀ (fuel : Nat) (rd : ERd) (s : Sink), rd.bad = false → s.script = [] →
    rd.rem.length + 1 ≤ fuel →
    ∃ cs s' rd', lzma2EncodeLoop fuel rd s = (s', .ok rd')
      ∧ rd'.rem = [] ∧ rd'.bad = false
      ∧ s'.script = [] ∧ s'.flushes = s.flushes ∧ s'.out = s.out ++ (lzma2Frame cs).toArray
      ∧ ChunksOk cs ∧ cs.flatten = rd.rem
  | 0, _, _, _, _, hf => by omega
  | fuel+1, rd, s, hb, hs, hf => by
    obtain ⟨buf, rd', hread, hb', happ, hlen, hne⟩ := ERd.read_spec rd hb
    unfold lzma2EncodeLoop
    by_cases he : buf = []
    · subst he
      have hrem : rd.rem = [] := by
        by_cases h : rd.rem = []
        · exact h
        · exact absurd rfl (hne h)
      refine ⟨[], s.put [0], rd', ?_, ?_, hb', by simpa using hs, by simp, by simp [lzma2Frame], ?_, ?_⟩
      · simp [hread, bind, Fwd.M_bind_apply, liftE, M.pure, pure, Fwd.writeBytes_perfect, hs]
      · simpa [hrem] using happ
      · intro c hc; simp at hc
      · simp [hrem]
    · have hpos : 1 ≤ buf.length := by
        rcases buf with _ | ⟨x, l⟩
        · exact absurd rfl he
        · simp
      obtain ⟨cs, s', rd'', hrun, h1, h2, h3, h4, h5, h6, h7⟩ :=
        lzma2EncodeLoop_spec fuel rd'
          ((((s.put [1]).put (beBytes 2 (buf.length - 1))).put buf)) hb' (by simpa using hs)
          (by have : rd.rem.length = buf.length + rd'.rem.length := by rw [← happ]; simp
              omega)
      refine ⟨buf :: cs, s', rd'', ?_, h1, h2, h3, by simpa using h4, ?_, ?_, ?_⟩
      · have hmod : (buf.length - 1) % U16 = buf.length - 1 := by
          apply Nat.mod_eq_of_lt; simp [U16]; omega
        simp [hread, bind, Fwd.M_bind_apply, liftE, M.pure, pure, Fwd.writeBytes_perfect, Fwd.writeAll_perfect, hs, he,
          subChk, hpos, hmod, hrun]
      · rw [h5]; simp [lzma2Frame, Array.append_assoc]
      · intro c hc
        rcases List.mem_cons.mp hc with rfl | hc
        · exact ⟨hpos, hlen⟩
        · exact h6 c hc
      · simp [h7, happ]

/-! ## the specification of well-formed `.xz` files -/

/-- bytes to the next multiple of four -/
def pad4 (n : Nat) : Nat := (4 - n % 4) % 4

/-- a multibyte field of requested width `w`: the actual width is `max w (minimal width)`,
so `w = 0` asks for the minimal encoding and every legal longer encoding is expressible -/
def mbW (w v : Nat) : Nat := max w (mbWidth v)
def mbField (w v : Nat) : Bytes := encodeMb (mbW w v) v

def checkSize : CheckMethod → Nat
  | .none => 0 | .crc32 => 4 | .crc64 => 8 | .sha256 => 32

def checkBytes (check : CheckMethod) (out : Bytes) : Bytes :=
  match check with
  | .none => []
  | .crc32 => leBytes 4 (crc32 out)
  | .crc64 => leBytes 8 (crc64 out)
  | .sha256 => []

structure XzBlockSpec where
  /-- the compressed data: an LZMA2 stream -/
  payload : Bytes
  /-- its meaning -/
  out : Bytes
  /-- the block header carries the compressed size -/
  declPacked : Bool := false
  /-- the block header carries the uncompressed size -/
  declUnpacked : Bool := false
  /-- the LZMA2 dictionary-size byte (ignored by lzma-rs) -/
  dictByte : UInt8 := 22
  /-- extra four-byte zero words of header padding -/
  extraPadWords : Nat := 0
  /-- requested widths of the multibyte fields (`0` = minimal) -/
  wPacked : Nat := 0
  wUnpacked : Nat := 0
  wFilterId : Nat := 0
  wPropsSize : Nat := 0
  wIdxUnpadded : Nat := 0
  wIdxUnpacked : Nat := 0

namespace XzBlockSpec

def flagsNat (b : XzBlockSpec) : Nat :=
  (if b.declPacked then 0x40 else 0) + (if b.declUnpacked then 0x80 else 0)

/-- the header fields between the size byte and the padding -/
def fields (b : XzBlockSpec) : Bytes :=
  [UInt8.ofNat b.flagsNat]
    ++ ((if b.declPacked then mbField b.wPacked b.payload.length else [])
    ++ ((if b.declUnpacked then mbField b.wUnpacked b.out.length else [])
    ++ (mbField b.wFilterId 0x21 ++ (mbField b.wPropsSize 1 ++ [b.dictByte]))))

def hdrPad (b : XzBlockSpec) : Nat := pad4 (1 + b.fields.length) + 4 * b.extraPadWords

/-- the header without its size byte and CRC -/
def hdrBody (b : XzBlockSpec) : Bytes := b.fields ++ List.replicate b.hdrPad 0

/-- the value of the header-size byte: the real header size is `(hdrWords + 1) * 4` -/
def hdrWords (b : XzBlockSpec) : Nat := (1 + b.hdrBody.length) / 4

def sizeByte (b : XzBlockSpec) : UInt8 := UInt8.ofNat b.hdrWords

/-- everything of the block after the header-size byte -/
def rest (check : CheckMethod) (b : XzBlockSpec) : Bytes :=
  b.hdrBody ++ (leBytes 4 (crc32 (b.sizeByte :: b.hdrBody)) ++ (b.payload
    ++ (List.replicate (pad4 b.payload.length) 0 ++ checkBytes check b.out)))

def bytes (check : CheckMethod) (b : XzBlockSpec) : Bytes := b.sizeByte :: b.rest check

/-- the "unpadded size" of the index record -/
def unpadded (check : CheckMethod) (b : XzBlockSpec) : Nat :=
  1 + b.hdrBody.length + 4 + b.payload.length + checkSize check

def record (check : CheckMethod) (b : XzBlockSpec) : Bytes :=
  mbField b.wIdxUnpadded (b.unpadded check) ++ mbField b.wIdxUnpacked b.out.length

/-- legality of the sizes -/
structure WF (check : CheckMethod) (b : XzBlockSpec) : Prop where
  hdr : b.hdrWords ≤ 255
  packed : b.declPacked = true → mbW b.wPacked b.payload.length ≤ 9
  unpacked : b.declUnpacked = true → mbW b.wUnpacked b.out.length ≤ 9
  filterId : b.wFilterId ≤ 9
  propsSize : b.wPropsSize ≤ 9
  idxUnpadded : mbW b.wIdxUnpadded (b.unpadded check) ≤ 9
  idxUnpacked : mbW b.wIdxUnpacked b.out.length ≤ 9

end XzBlockSpec

def xzIndexBody (check : CheckMethod) (blocks : List XzBlockSpec) (wCount : Nat) : Bytes :=
  [0] ++ (mbField wCount blocks.length ++ (blocks.map (·.record check)).flatten)

def xzIndex (check : CheckMethod) (blocks : List XzBlockSpec) (wCount : Nat) : Bytes :=
  let body := xzIndexBody check blocks wCount
  let padded := body ++ List.replicate (pad4 body.length) 0
  padded ++ leBytes 4 (crc32 padded)

def xzStreamHeader (check : CheckMethod) : Bytes :=
  [0xFD, 0x37, 0x7A, 0x58, 0x5A, 0x00] ++ ([0, UInt8.ofNat check.id]
    ++ leBytes 4 (crc32 [0, UInt8.ofNat check.id]))

def xzFooter (check : CheckMethod) (indexLen : Nat) : Bytes :=
  let f := leBytes 4 (indexLen / 4 - 1) ++ [0, UInt8.ofNat check.id]
  leBytes 4 (crc32 f) ++ (f ++ [0x59, 0x5A])

/-- the `.xz` file with the given integrity check and blocks; `wCount` is the requested width
of the record count in the index -/
def buildXz (check : CheckMethod) (blocks : List XzBlockSpec) (wCount : Nat := 0) : Bytes :=
  xzStreamHeader check ++ ((blocks.map (·.bytes check)).flatten
    ++ (xzIndex check blocks wCount ++ xzFooter check (xzIndex check blocks wCount).length))

/-! ## reader lemmas -/

/-- The only facts about the CRC functions that are used anywhere: their ranges (they are
`UInt32.toNat` / `UInt64.toNat` of something).  Needed because the files store them in 4 / 8
little-endian bytes. -/
theorem Fwd.crc32_lt (bs : Bytes) : crc32 bs < 256 ^ 4 := by
  unfold crc32; exact UInt32.toNat_lt _
theorem Fwd.crc64_lt (bs : Bytes) : crc64 bs < 256 ^ 8 := by
  unfold crc64; exact UInt64.toNat_lt _

theorem mbW_pos (w v : Nat) : 1 ≤ mbW w v := by
  have := mbWidth_pos v; unfold mbW; omega

theorem getMultibyte_mbField (w v : Nat) (r : Bytes) (b : Bool) (h : mbW w v ≤ 9) :
    getMultibyte { rem := mbField w v ++ r, bad := b } = .ok (v, mbField w v, { rem := r, bad := b }) :=
  multibyte_roundtrip _ v r b (mbW_pos w v) h (lt_of_mbWidth_le _ v (by unfold mbW; omega))

theorem Fwd.readU32LE_leBytes (v : Nat) (h : v < 256 ^ 4) (r : Bytes) (b : Bool) :
    Rd.readU32LE { rem := leBytes 4 v ++ r, bad := b } = .ok (v, { rem := r, bad := b }) := by
  simp [Rd.readU32LE, Fwd.readExact_append _ _ _ 4 (Fwd.leBytes_length 4 v), Fwd.leVal_leBytes 4 v h, bind, Except.bind,
    pure, Except.pure]

theorem Fwd.readU64LE_leBytes (v : Nat) (h : v < 256 ^ 8) (r : Bytes) (b : Bool) :
    Rd.readU64LE { rem := leBytes 8 v ++ r, bad := b } = .ok (v, { rem := r, bad := b }) := by
  simp [Rd.readU64LE, Fwd.readExact_append _ _ _ 8 (Fwd.leBytes_length 8 v), Fwd.leVal_leBytes 8 v h, bind, Except.bind,
    pure, Except.pure]

theorem Fwd.readZeroBytes_replicate : ∀ (n : Nat) (acc r : Bytes) (b : Bool),
    readZeroBytes n acc { rem := List.replicate n 0 ++ r, bad := b }
      = .ok (acc ++ List.replicate n 0, { rem := r, bad := b })
  | 0, acc, r, b => by simp [readZeroBytes, pure, Except.pure]
  | n+1, acc, r, b => by
    simp [readZeroBytes, List.replicate_succ, Rd.readU8, bind, Except.bind,
      Fwd.readZeroBytes_replicate n (acc ++ [0]) r b]

theorem Fwd.flushZeroPadding_zeros (n : Nat) :
    Rd.flushZeroPadding { rem := List.replicate n 0, bad := false }
      = .ok (true, { rem := [], bad := false }) := by
  unfold Rd.flushZeroPadding
  rcases n with _ | n
  · simp
  · simp [List.replicate_succ]


namespace XzBlockSpec

def blockHeader (b : XzBlockSpec) : BlockHeader :=
  { filters := [{ props := [b.dictByte] }]
    packedSize := if b.declPacked then some b.payload.length else none
    unpackedSize := if b.declUnpacked then some b.out.length else none }

theorem readFilters_one (b : XzBlockSpec) (hs : Nat) (h1 : 1 ≤ hs) (n : Nat)
    (hf : b.wFilterId ≤ 9) (hp : b.wPropsSize ≤ 9) :
    readFilters 1 hs [] { rem := mbField b.wFilterId 0x21 ++ (mbField b.wPropsSize 1
        ++ b.dictByte :: List.replicate n 0), bad := false }
      = .ok ([{ props := [b.dictByte] }], { rem := List.replicate n 0, bad := false }) := by
  have e1 : mbWidth 0x21 = 1 := mbWidth_of_lt (by omega)
  have e2 : mbWidth 1 = 1 := mbWidth_of_lt (by omega)
  have w1 : mbW b.wFilterId 0x21 ≤ 9 := by unfold mbW; omega
  have w2 : mbW b.wPropsSize 1 ≤ 9 := by unfold mbW; omega
  have hn : ¬ (1 > hs) := by omega
  simp [readFilters, getMultibyte_mbField _ _ _ _ w1, getMultibyte_mbField _ _ _ _ w2, bind, Except.bind,
    pure, Except.pure, hn, Rd.readExact]

theorem readBlockHeader_spec (b : XzBlockSpec) (check : CheckMethod) (hwf : b.WF check) (hs : Nat)
    (h1 : 1 ≤ hs) :
    readBlockHeader { rem := b.hdrBody, bad := false } hs
      = .ok (b.blockHeader, { rem := [], bad := false }) := by
  have hrf := fun n => readFilters_one b hs h1 n hwf.filterId hwf.propsSize
  unfold readBlockHeader hdrBody fields blockHeader flagsNat
  rcases hp : b.declPacked <;> rcases hu : b.declUnpacked
  · simp [Rd.readU8, bind, Except.bind, pure, Except.pure, hrf, Fwd.flushZeroPadding_zeros]
  · have := hwf.unpacked hu
    simp [Rd.readU8, bind, Except.bind, pure, Except.pure, hrf, Fwd.flushZeroPadding_zeros,
      getMultibyte_mbField _ _ _ _ this]
  · have := hwf.packed hp
    simp [Rd.readU8, bind, Except.bind, pure, Except.pure, hrf, Fwd.flushZeroPadding_zeros,
      getMultibyte_mbField _ _ _ _ this]
  · have h1 := hwf.unpacked hu
    have h2 := hwf.packed hp
    simp [Rd.readU8, bind, Except.bind, pure, Except.pure, hrf, Fwd.flushZeroPadding_zeros,
      getMultibyte_mbField _ _ _ _ h1, getMultibyte_mbField _ _ _ _ h2]

end XzBlockSpec


theorem pad4_lt (n : Nat) : pad4 n < 4 := by unfold pad4; omega
theorem add_pad4_mod (n : Nat) : (n + pad4 n) % 4 = 0 := by unfold pad4; omega
theorem paddingSize_eq_pad4 (n : Nat) : paddingSize n = pad4 n := padding_formula n

theorem Fwd.Rd_split_append (l r : Bytes) (b : Bool) :
    Rd.split { rem := l ++ r, bad := b } l.length = ({ rem := l, bad := false }, r) := by
  simp [Rd.split]

namespace XzBlockSpec

theorem hdr_len (b : XzBlockSpec) : 1 + b.hdrBody.length = 4 * b.hdrWords := by
  have : (1 + b.hdrBody.length) % 4 = 0 := by
    have := add_pad4_mod (1 + b.fields.length)
    simp only [hdrBody, hdrPad, List.length_append, List.length_replicate]
    omega
  unfold hdrWords; omega

theorem hdrWords_pos (b : XzBlockSpec) : 1 ≤ b.hdrWords := by
  have := b.hdr_len
  have : 1 ≤ b.fields.length := by simp [fields]
  have : b.fields.length ≤ b.hdrBody.length := by simp [hdrBody]
  omega

theorem sizeByte_toNat (b : XzBlockSpec) (h : b.hdrWords ≤ 255) : b.sizeByte.toNat = b.hdrWords := by
  simp [sizeByte, UInt8.toNat_ofNat']; omega

theorem sizeByte_ne_zero (b : XzBlockSpec) (h : b.hdrWords ≤ 255) : b.sizeByte ≠ 0 := by
  intro hc
  have := b.sizeByte_toNat h
  have := b.hdrWords_pos
  rw [hc] at *
  simp at *
  omega

theorem validateBlockCheck_spec (check : CheckMethod) (hck : check ≠ .sha256) (out t : Bytes) :
    validateBlockCheck { rem := checkBytes check out ++ t, bad := false } out check
      = .ok { rem := t, bad := false } := by
  cases check
  · simp [validateBlockCheck, checkBytes, pure, Except.pure]
  · simp [validateBlockCheck, checkBytes, Fwd.readU32LE_leBytes _ (Fwd.crc32_lt _), bind, Except.bind, pure, Except.pure]
  · simp [validateBlockCheck, checkBytes, Fwd.readU64LE_leBytes _ (Fwd.crc64_lt _), bind, Except.bind, pure, Except.pure]
  · exact absurd rfl hck

theorem checkBytes_length (check : CheckMethod) (hck : check ≠ .sha256) (out : Bytes) :
    (checkBytes check out).length = checkSize check := by
  cases check <;> simp [checkBytes, checkSize] at *

theorem readBlock_spec (check : CheckMethod) (b : XzBlockSpec) (t : Bytes) (s : Sink)
    (hs : s.script = []) (hwf : b.WF check) (hck : check ≠ .sha256)
    (hdec : ∀ t, decodeFilter (Rd.ofBytes (b.payload ++ t)) { props := [b.dictByte] }
      = .ok (b.out, { rem := t })) :
    readBlock ((b.rest check ++ t).length + 1) { rem := b.rest check ++ t, bad := false } check b.sizeByte s
      = (s.put b.out, .ok ({ unpaddedSize := b.unpadded check, unpackedSize := b.out.length },
          { rem := t, bad := false })) := by
  have hlen := b.hdr_len
  have hpos := b.hdrWords_pos
  have hsz : subChk "read_block: (header_size << 2) - 1" (b.sizeByte.toNat <<< 2) 1
      = .ok b.hdrBody.length := by
    rw [b.sizeByte_toNat hwf.hdr, Nat.shiftLeft_eq]
    simp [subChk]
    rw [if_pos (by omega)]
    congr 1; omega
  have hbh := b.readBlockHeader_spec check hwf b.hdrBody.length (by omega)
  have hdec' := fun t => hdec t
  simp only [Rd.ofBytes] at hdec'
  have hpadeq : paddingSize (1 + b.hdrBody.length + 4 + b.payload.length) = pad4 b.payload.length := by
    rw [paddingSize_eq_pad4]; unfold pad4; omega
  have hcl := checkBytes_length check hck b.out
  generalize hN : (b.rest check ++ t).length + 1 = N
  have hN1 : N - (List.replicate (pad4 b.payload.length) (0:UInt8) ++ (checkBytes check b.out ++ t)).length
      = 1 + b.hdrBody.length + 4 + b.payload.length := by
    rw [← hN]; simp [rest]; omega
  simp only [List.length_append, List.length_replicate] at hN1
  have hN2 : N - t.length = 1 + b.hdrBody.length + 4 + b.payload.length + pad4 b.payload.length
      + checkSize check := by
    rw [← hN]; simp [rest]; omega
  unfold readBlock
  simp only [hsz, rest, List.append_assoc, Fwd.Rd_split_append, hbh, bind, Fwd.M_bind_apply, liftE, M.pure, pure,
    Rd.unsplit, List.nil_append, Fwd.readU32LE_leBytes _ (Fwd.crc32_lt _), blockHeader, hdec', Except.bind]
  have hsub : subChk "read_block: count - padding_size" (N - t.length) (pad4 b.payload.length)
      = .ok (b.unpadded check) := by
    rw [hN2]; unfold subChk unpadded
    rw [if_pos (by omega)]; congr 1; omega
  rcases hp : b.declPacked <;> rcases hu : b.declUnpacked <;>
    simp [laterFilters, Fwd.M_bind_apply, M.pure, Except.pure, pure, hN1, hpadeq, Fwd.readZeroBytes_replicate,
      validateBlockCheck_spec check hck, Fwd.writeAll_perfect, hs, hsub]

end XzBlockSpec
/-! ## the decoder on `buildXz` -/

/-- the index record the decoder computes for a block -/
def XzBlockSpec.toRecord (check : CheckMethod) (b : XzBlockSpec) : Record :=
  { unpaddedSize := b.unpadded check, unpackedSize := b.out.length }

/-- the LZMA2 decoder, run on the payload followed by anything, decodes exactly the payload
to `out` (this is property C02 for the payload) -/
def XzBlockSpec.Decodes (b : XzBlockSpec) : Prop :=
  ∀ t, decodeFilter (Rd.ofBytes (b.payload ++ t)) { props := [b.dictByte] } = .ok (b.out, { rem := t })

/-- the sink after one `write_all` per block with non-empty output -/
def Sink.putBlocks (s : Sink) (blocks : List XzBlockSpec) : Sink :=
  blocks.foldl (fun s b => s.put b.out) s

def blocksBytes (check : CheckMethod) (blocks : List XzBlockSpec) : Bytes :=
  (blocks.map (·.bytes check)).flatten

def recordsBytes (check : CheckMethod) (blocks : List XzBlockSpec) : Bytes :=
  (blocks.map (·.record check)).flatten

theorem checkRecords_spec (check : CheckMethod) : ∀ (blocks : List XzBlockSpec) (dig r : Bytes),
    (∀ b ∈ blocks, b.WF check) →
    checkRecords (blocks.map (·.toRecord check)) dig { rem := recordsBytes check blocks ++ r, bad := false }
      = .ok (dig ++ recordsBytes check blocks, { rem := r, bad := false })
  | [], dig, r, _ => by simp [checkRecords, recordsBytes, pure, Except.pure]
  | b :: bs, dig, r, h => by
    have hb := h b (by simp)
    have ih := checkRecords_spec check bs (dig ++ mbField b.wIdxUnpadded (b.unpadded check)
      ++ mbField b.wIdxUnpacked b.out.length) r (fun x hx => h x (by simp [hx]))
    simp only [recordsBytes] at ih ⊢
    simp [checkRecords, XzBlockSpec.record, XzBlockSpec.toRecord, getMultibyte_mbField _ _ _ _ hb.idxUnpadded,
      getMultibyte_mbField _ _ _ _ hb.idxUnpacked, bind, Except.bind]
    simpa [XzBlockSpec.record, XzBlockSpec.toRecord] using ih

/-- the index after its indicator byte -/
def xzIndexTail (check : CheckMethod) (blocks : List XzBlockSpec) (wCount : Nat) : Bytes :=
  let body := xzIndexBody check blocks wCount
  mbField wCount blocks.length ++ (recordsBytes check blocks
    ++ (List.replicate (pad4 body.length) 0
    ++ leBytes 4 (crc32 (body ++ List.replicate (pad4 body.length) 0))))

theorem xzIndex_eq (check : CheckMethod) (blocks : List XzBlockSpec) (wCount : Nat) :
    xzIndex check blocks wCount = 0 :: xzIndexTail check blocks wCount := by
  simp [xzIndex, xzIndexTail, xzIndexBody, recordsBytes]

theorem xzIndex_length_mod (check : CheckMethod) (blocks : List XzBlockSpec) (wCount : Nat) :
    (xzIndex check blocks wCount).length % 4 = 0 ∧ 8 ≤ (xzIndex check blocks wCount).length := by
  have h := add_pad4_mod (xzIndexBody check blocks wCount).length
  have h1 : 2 ≤ (xzIndexBody check blocks wCount).length := by
    have := mbW_pos wCount blocks.length
    simp [xzIndexBody, mbField]; omega
  simp only [xzIndex, List.length_append, List.length_replicate, Fwd.leBytes_length]
  omega

theorem checkIndex_spec (check : CheckMethod) (blocks : List XzBlockSpec) (wCount : Nat) (t : Bytes)
    (hw : ∀ b ∈ blocks, b.WF check) (hc : mbW wCount blocks.length ≤ 9) :
    checkIndex ((xzIndexTail check blocks wCount ++ t).length + 1) (blocks.map (·.toRecord check))
        { rem := xzIndexTail check blocks wCount ++ t, bad := false }
      = .ok { rem := t, bad := false } := by
  generalize hN : (xzIndexTail check blocks wCount ++ t).length + 1 = N
  have hcnt : N - (List.replicate (pad4 (xzIndexBody check blocks wCount).length) (0 : UInt8)
      ++ (leBytes 4 (crc32 (xzIndexBody check blocks wCount
          ++ List.replicate (pad4 (xzIndexBody check blocks wCount).length) 0)) ++ t)).length
      = (xzIndexBody check blocks wCount).length := by
    rw [← hN]; simp [xzIndexTail, xzIndexBody, recordsBytes]; omega
  have hbody : [0] ++ (mbField wCount blocks.length ++ recordsBytes check blocks)
      = xzIndexBody check blocks wCount := by simp [xzIndexBody, recordsBytes]
  unfold checkIndex xzIndexTail
  simp only [List.append_assoc, getMultibyte_mbField _ _ _ _ hc, bind, Except.bind, List.length_map,
    ne_eq, not_true, if_false, checkRecords_spec check blocks _ _ hw, hcnt, paddingSize_eq_pad4,
    Fwd.readZeroBytes_replicate, List.nil_append, Fwd.readU32LE_leBytes _ (Fwd.crc32_lt _), hbody]
  simp [pure, Except.pure]


theorem blocksBytes_length_ge (check : CheckMethod) (blocks : List XzBlockSpec) :
    blocks.length ≤ (blocksBytes check blocks).length := by
  induction blocks with
  | nil => simp
  | cons b bs ih => simp [blocksBytes, XzBlockSpec.bytes] at ih ⊢; omega

theorem blockLoop_spec (check : CheckMethod) (hck : check ≠ .sha256) (idx t : Bytes) :
    ∀ (blocks : List XzBlockSpec) (fuel : Nat) (recs : List Record) (s : Sink),
    s.script = [] → (∀ b ∈ blocks, b.WF check ∧ b.Decodes) → blocks.length + 1 ≤ fuel →
    checkIndex ((idx ++ t).length + 1) (recs ++ blocks.map (·.toRecord check)) { rem := idx ++ t, bad := false }
      = .ok { rem := t, bad := false } →
    blockLoop check fuel recs { rem := blocksBytes check blocks ++ (0 :: (idx ++ t)), bad := false } s
      = (s.putBlocks blocks, .ok (idx.length + 1, { rem := t, bad := false }))
  | [], fuel, recs, s, hs, _, hf, hidx => by
    obtain ⟨fuel, rfl⟩ : ∃ f, fuel = f + 1 := ⟨fuel - 1, by simp at hf; omega⟩
    unfold blockLoop
    simp at hidx
    simp [blocksBytes, Rd.readU8, bind, Fwd.M_bind_apply, liftE, M.pure, pure, hidx, Sink.putBlocks]
    omega
  | b :: bs, fuel, recs, s, hs, hb, hf, hidx => by
    obtain ⟨fuel, rfl⟩ : ∃ f, fuel = f + 1 := ⟨fuel - 1, by simp at hf; omega⟩
    obtain ⟨hwf, hdec⟩ := hb b (by simp)
    have ih := blockLoop_spec check hck idx t bs fuel (recs ++ [b.toRecord check]) (s.put b.out)
      (by simpa using hs) (fun x hx => hb x (by simp [hx])) (by simp at hf; omega)
      (by simpa using hidx)
    have hrb := b.readBlock_spec check (blocksBytes check bs ++ (0 :: (idx ++ t))) s hs hwf hck hdec
    have hne := b.sizeByte_ne_zero hwf.hdr
    unfold blockLoop
    have hcons : blocksBytes check (b :: bs) ++ (0 :: (idx ++ t))
        = b.sizeByte :: (b.rest check ++ (blocksBytes check bs ++ (0 :: (idx ++ t)))) := by
      simp [blocksBytes, XzBlockSpec.bytes]
    rw [hcons]
    simp only [Rd.readU8, bind, Fwd.M_bind_apply, liftE, M.pure, pure, hne, if_false, List.length_cons, hrb]
    simpa [XzBlockSpec.toRecord, Sink.putBlocks] using ih


theorem Fwd.parseStreamFlags_id (check : CheckMethod) :
    parseStreamFlags (beVal [0, UInt8.ofNat check.id]) = .ok check := by
  cases check <;> simp [parseStreamFlags, CheckMethod.id, beVal, CheckMethod.tryFrom, pure, Except.pure]

theorem Fwd.readExact_cons2 (a b : UInt8) (r : Bytes) (bad : Bool) :
    Rd.readExact { rem := a :: b :: r, bad := bad } 2 = .ok ([a, b], { rem := r, bad := bad }) :=
  Fwd.readExact_append [a, b] r bad 2 rfl
theorem Fwd.readExact_cons4 (a b c d : UInt8) (r : Bytes) (bad : Bool) :
    Rd.readExact { rem := a :: b :: c :: d :: r, bad := bad } 4
      = .ok ([a, b, c, d], { rem := r, bad := bad }) :=
  Fwd.readExact_append [a, b, c, d] r bad 4 rfl
theorem Fwd.readExact_cons6 (a b c d e f : UInt8) (r : Bytes) (bad : Bool) :
    Rd.readExact { rem := a :: b :: c :: d :: e :: f :: r, bad := bad } 6
      = .ok ([a, b, c, d, e, f], { rem := r, bad := bad }) :=
  Fwd.readExact_append [a, b, c, d, e, f] r bad 6 rfl

theorem parseStreamHeader_spec (check : CheckMethod) (r : Bytes) :
    parseStreamHeader { rem := xzStreamHeader check ++ r, bad := false }
      = .ok (check, { rem := r, bad := false }) := by
  unfold parseStreamHeader xzStreamHeader
  simp only [List.cons_append, List.nil_append, Rd.readTag, XZ_MAGIC, List.length_cons,
    List.length_nil, bind, Except.bind]
  rw [Fwd.readExact_cons6]
  simp [Fwd.readExact_cons2, Fwd.readU32LE_leBytes _ (Fwd.crc32_lt _), Fwd.parseStreamFlags_id, pure, Except.pure]

theorem Sink.putBlocks_out (s : Sink) (blocks : List XzBlockSpec) :
    (s.putBlocks blocks).out = s.out ++ (blocks.map (·.out)).flatten.toArray := by
  induction blocks generalizing s with
  | nil => simp [Sink.putBlocks]
  | cons b bs ih =>
    have := ih (s.put b.out)
    simp only [Sink.putBlocks, List.foldl_cons] at this ⊢
    rw [this]; simp [Array.append_assoc]

theorem Sink.putBlocks_script (s : Sink) (blocks : List XzBlockSpec) :
    (s.putBlocks blocks).script = s.script := by
  induction blocks generalizing s with
  | nil => simp [Sink.putBlocks]
  | cons b bs ih =>
    have := ih (s.put b.out)
    simp only [Sink.putBlocks, List.foldl_cons] at this ⊢
    rw [this]; simp

theorem Fwd.readTag_footer :
    Rd.readTag { rem := [0x59, 0x5A], bad := false } XZ_MAGIC_FOOTER = .ok (true, { rem := [], bad := false }) := by
  rfl

theorem xzDecompress_buildXz (check : CheckMethod) (blocks : List XzBlockSpec) (wCount : Nat) (s : Sink)
    (hck : check ≠ .sha256) (hs : s.script = [])
    (hb : ∀ b ∈ blocks, b.WF check ∧ b.Decodes)
    (hc : mbW wCount blocks.length ≤ 9)
    (hidx : (xzIndex check blocks wCount).length / 4 - 1 < 2 ^ 32) :
    xzDecompress (Rd.ofBytes (buildXz check blocks wCount)) s
      = (s.putBlocks blocks, .ok { rem := [] }) := by
  obtain ⟨hmod, hge⟩ := xzIndex_length_mod check blocks wCount
  have hlen : (xzIndex check blocks wCount).length = (xzIndexTail check blocks wCount).length + 1 := by
    rw [xzIndex_eq]; simp
  have hci := checkIndex_spec check blocks wCount
    (xzFooter check (xzIndex check blocks wCount).length) (fun b h => (hb b h).1) hc
  have hbl := blockLoop_spec check hck (xzIndexTail check blocks wCount)
    (xzFooter check (xzIndex check blocks wCount).length) blocks
    ((blocksBytes check blocks ++ (0 :: (xzIndexTail check blocks wCount ++
      xzFooter check (xzIndex check blocks wCount).length))).length + 1) [] s hs hb
    (by have := blocksBytes_length_ge check blocks; simp; omega) (by simpa using hci)
  have hbuild : buildXz check blocks wCount = xzStreamHeader check ++ (blocksBytes check blocks
      ++ (0 :: (xzIndexTail check blocks wCount ++ xzFooter check (xzIndex check blocks wCount).length))) := by
    simp [buildXz, blocksBytes, xzIndex_eq]
  unfold xzDecompress
  rw [hbuild]
  simp only [Rd.ofBytes, parseStreamHeader_spec, bind, Fwd.M_bind_apply, liftE, M.pure, pure, hck, if_false]
  rw [hbl]
  generalize (xzIndex check blocks wCount).length = L at *
  have hshift : (L / 4 - 1 + 1) <<< 2 = L := by rw [Nat.shiftLeft_eq]; omega
  have hr4 := fun (r : Bytes) => Fwd.readExact_append (leBytes 4 (L / 4 - 1)) r false 4 (Fwd.leBytes_length _ _)
  have hlv := Fwd.leVal_leBytes 4 (L / 4 - 1) (by simpa using hidx)
  simp only [xzFooter, List.append_assoc, Fwd.readU32LE_leBytes _ (Fwd.crc32_lt _), Fwd.M_bind_apply, M.pure, hr4, hlv,
    hshift, ← hlen, ne_eq, not_true, if_false, List.cons_append, List.nil_append, Fwd.readExact_cons2,
    Fwd.parseStreamFlags_id, Fwd.readTag_footer, Rd.isEof]
  simp [Fwd.M_bind_apply, M.pure]

/-! ## the XZ writer -/

/-- `s'` is `s` after some successful writes on an exhausted script that appended `bs` -/
def Sink.Wrote (s s' : Sink) (bs : Bytes) : Prop :=
  s'.script = [] ∧ s'.out.toList = s.out.toList ++ bs

theorem xzWriteHeader_spec (check : CheckMethod) (s : Sink) (hs : s.script = []) :
    ∃ s', xzWriteHeader check s = (s', .ok ()) ∧ s.Wrote s' (xzStreamHeader check) := by
  refine ⟨((s.put XZ_MAGIC).put [0, UInt8.ofNat check.id]).put (leBytes 4 (crc32 [0, UInt8.ofNat check.id])),
    ?_, ?_⟩
  · unfold xzWriteHeader
    simp [bind, Fwd.M_bind_apply, Fwd.writeAll_perfect, Fwd.writeBytes_perfect, hs]
  · simp [Sink.Wrote, hs, xzStreamHeader, XZ_MAGIC, Array.append_assoc]

/-- the block written by `xz_compress` for the LZMA2 chunks `cs` -/
def encBlock (cs : List Bytes) : XzBlockSpec := { payload := lzma2Frame cs, out := cs.flatten }

theorem mbField_zero_small (v : Nat) (h : v < 128) : mbField 0 v = [UInt8.ofNat v] := by
  simp [mbField, mbW, mbWidth_of_lt h, encodeMb, Nat.mod_eq_of_lt h]

theorem encBlock_hdrBody (cs : List Bytes) : (encBlock cs).hdrBody = [0x00, 0x21, 1, 22, 0, 0, 0] := by
  have h1 := mbField_zero_small 0x21 (by omega)
  have h2 := mbField_zero_small 1 (by omega)
  have hf : (encBlock cs).fields = [0x00, 0x21, 1, 22] := by
    simp [XzBlockSpec.fields, encBlock, XzBlockSpec.flagsNat, h1, h2]
  simp [XzBlockSpec.hdrBody, XzBlockSpec.hdrPad, hf, pad4]; rfl

theorem encBlock_sizeByte (cs : List Bytes) : (encBlock cs).sizeByte = 2 := by
  simp [XzBlockSpec.sizeByte, XzBlockSpec.hdrWords, encBlock_hdrBody]


theorem Fwd.M_bind_apply_fun (g : Sink → Sink × Except Err α) (f : α → M β) (s : Sink) :
    M.bind g f s = match g s with
      | (s', .ok a) => f a s'
      | (s', .error e) => (s', .error e) := rfl

theorem lzma2Compress_spec (rd : ERd) (s : Sink) (hb : rd.bad = false) (hs : s.script = []) :
    ∃ cs s' rd', lzma2Compress rd s = (s', .ok rd') ∧ rd'.rem = [] ∧ rd'.bad = false
      ∧ s.Wrote s' (lzma2Frame cs) ∧ ChunksOk cs ∧ cs.flatten = rd.rem := by
  obtain ⟨cs, s', rd', h, h1, h2, h3, _, h5, h6, h7⟩ :=
    lzma2EncodeLoop_spec (rd.rem.length + 1) rd s hb hs (Nat.le_refl _)
  exact ⟨cs, s', rd', h, h1, h2, ⟨h3, by simp [h5]⟩, h6, h7⟩

theorem xzWriteBlock_spec (rd : ERd) (s : Sink) (hb : rd.bad = false) (hs : s.script = []) :
    ∃ cs s', xzWriteBlock rd s = (s', .ok ((encBlock cs).unpadded .none, rd.rem.length))
      ∧ ChunksOk cs ∧ cs.flatten = rd.rem ∧ s.Wrote s' ((encBlock cs).bytes .none) := by
  let s1 := ((((((s.put [2]).put [0]).put [0x21]).put [1]).put [22]).put [0, 0, 0]).put
    (leBytes 4 (crc32 [2, 0x00, 0x21, 1, 22, 0, 0, 0]))
  have hs1 : s1.script = [] := by simp [s1, hs]
  obtain ⟨cs, s2, rd', hrun, hrem, _, ⟨hs2, hout2⟩, hok, hfl⟩ := lzma2Compress_spec rd s1 hb hs1
  have hsz : s2.out.size - s.out.size = 12 + (lzma2Frame cs).length := by
    have := congrArg List.length hout2
    simp [s1] at this; omega
  have hpad : paddingSize (12 + (lzma2Frame cs).length) = pad4 (lzma2Frame cs).length := by
    rw [paddingSize_eq_pad4]; unfold pad4; omega
  refine ⟨cs, s2.put (List.replicate (pad4 (lzma2Frame cs).length) 0), ?_, hok, hfl, ?_⟩
  · unfold xzWriteBlock
    simp [bind, Fwd.M_bind_apply, Fwd.M_bind_apply_fun, M.pure, pure, Fwd.writeBytes_perfect, hs]
    have hrun' : lzma2Compress rd (((((((s.put [2]).put [0]).put [33]).put [1]).put [22]).put [0, 0, 0]).put
          (leBytes 4 (crc32 [2, 0, 33, 1, 22, 0, 0, 0]))) = (s2, Except.ok rd') := hrun
    rw [hrun']
    have hunp : (encBlock cs).unpadded .none = 12 + (lzma2Frame cs).length := by
      simp [XzBlockSpec.unpadded, encBlock_hdrBody, checkSize]; simp [encBlock]
    simp [hsz, hpad, Fwd.writeAll_perfect, hs2, hrem, hunp]
  · refine ⟨by simpa using hs2, ?_⟩
    simp [Sink.put_out, hout2, s1, XzBlockSpec.bytes, XzBlockSpec.rest, encBlock_hdrBody, encBlock_sizeByte,
      checkBytes, Array.append_assoc]
    simp [encBlock]


theorem Fwd.forM_writeBytes : ∀ (body : Bytes) (s : Sink), s.script = [] →
    ∃ s', (body.forM (fun b => writeBytes [b]) : M PUnit) s = (s', .ok ⟨⟩) ∧ s.Wrote s' body
  | [], s, hs => ⟨s, rfl, hs, by simp⟩
  | b :: body, s, hs => by
    obtain ⟨s', h, hs', hout⟩ := Fwd.forM_writeBytes body (s.put [b]) (by simpa using hs)
    refine ⟨s', ?_, hs', ?_⟩
    · simp [List.forM_cons, bind, Fwd.M_bind_apply, Fwd.writeBytes_perfect, hs]
      exact h
    · rw [hout]; simp

theorem mbField_zero (v : Nat) (h : v < 2 ^ 63) : mbField 0 v = multibyteBytes v := by
  rw [multibyteBytes_eq v h]; simp [mbField, mbW]

theorem xzWriteIndex_spec (b : XzBlockSpec) (s : Sink) (hs : s.script = [])
    (hu : b.unpadded .none < 2 ^ 63) (ho : b.out.length < 2 ^ 63)
    (hw1 : b.wIdxUnpadded = 0) (hw2 : b.wIdxUnpacked = 0) :
    ∃ s', xzWriteIndex (b.unpadded .none) b.out.length s = (s', .ok (xzIndex .none [b] 0).length)
      ∧ s.Wrote s' (xzIndex .none [b] 0) := by
  have hbody : [0] ++ multibyteBytes 1 ++ multibyteBytes (b.unpadded .none) ++ multibyteBytes b.out.length
      = xzIndexBody .none [b] 0 := by
    simp [xzIndexBody, XzBlockSpec.record, hw1, hw2, mbField_zero _ hu, mbField_zero _ ho,
      mbField_zero 1 (by omega)]
  obtain ⟨s1, h1, hs1, hout1⟩ := Fwd.forM_writeBytes (xzIndexBody .none [b] 0) s hs
  refine ⟨(s1.put (List.replicate (pad4 (xzIndexBody .none [b] 0).length) 0)).put
    (leBytes 4 (crc32 (xzIndexBody .none [b] 0 ++ List.replicate (pad4 (xzIndexBody .none [b] 0).length) 0))),
    ?_, by simpa using hs1, ?_⟩
  · unfold xzWriteIndex
    simp only [hbody, bind, Fwd.M_bind_apply, h1, paddingSize_eq_pad4, Fwd.writeAll_perfect, Fwd.writeBytes_perfect, hs1,
      Sink.put_script, pure, M.pure]
    simp [xzIndex]; omega
  · simp [hout1, xzIndex]


theorem xzWriteFooter_spec (check : CheckMethod) (L : Nat) (hL : 4 ≤ L) (hLb : L / 4 - 1 < 2 ^ 32)
    (s : Sink) (hs : s.script = []) :
    ∃ s', xzWriteFooter check L s = (s', .ok ()) ∧ s.Wrote s' (xzFooter check L) := by
  have hmod : (L / 4 - 1) % U32 = L / 4 - 1 := Nat.mod_eq_of_lt (by simpa [U32] using hLb)
  have hsub : subChk "write_footer: (index_size >> 2) - 1" (L >>> 2) 1 = .ok (L / 4 - 1) := by
    rw [Nat.shiftRight_eq_div_pow]; unfold subChk; rw [if_pos (by omega)]
  refine ⟨((s.put (leBytes 4 (crc32 (leBytes 4 (L / 4 - 1) ++ [0x00, UInt8.ofNat check.id])))).put
    (leBytes 4 (L / 4 - 1) ++ [0x00, UInt8.ofNat check.id])).put XZ_MAGIC_FOOTER, ?_, by simpa using hs, ?_⟩
  · unfold xzWriteFooter
    simp [hsub, hmod, bind, Fwd.M_bind_apply, liftE, M.pure, Fwd.writeAll_perfect, Fwd.writeBytes_perfect, hs]
  · simp [xzFooter, XZ_MAGIC_FOOTER]

theorem Sink.Wrote.trans {s s1 s2 : Sink} {a b : Bytes} (h1 : s.Wrote s1 a) (h2 : s1.Wrote s2 b) :
    s.Wrote s2 (a ++ b) :=
  ⟨h2.1, by rw [h2.2, h1.2, List.append_assoc]⟩

theorem lzma2Frame_length (cs : List Bytes) :
    (lzma2Frame cs).length = cs.flatten.length + 3 * cs.length + 1 := by
  induction cs with
  | nil => simp [lzma2Frame]
  | cons c cs ih => simp [lzma2Frame, ih]; omega

theorem ChunksOk.length_le {cs : List Bytes} (h : ChunksOk cs) : cs.length ≤ cs.flatten.length := by
  induction cs with
  | nil => simp
  | cons c cs ih =>
    have := h c (by simp)
    have := ih (fun x hx => h x (by simp [hx]))
    simp only [List.flatten_cons, List.length_append, List.length_cons]; omega

theorem decodes_of_frame (b : XzBlockSpec) (cs : List Bytes) (hp : b.payload = lzma2Frame cs)
    (ho : b.out = cs.flatten) (hok : ChunksOk cs) : b.Decodes := by
  intro t
  rw [hp, ho]
  exact decodeFilter_frame cs t b.dictByte hok

theorem encBlock_facts (cs : List Bytes) (hok : ChunksOk cs) (hlen : cs.flatten.length < 2 ^ 60) :
    (encBlock cs).unpadded .none < 2 ^ 63 ∧ (encBlock cs).out.length < 2 ^ 63
      ∧ (xzIndex .none [encBlock cs] 0).length / 4 - 1 < 2 ^ 32
      ∧ (encBlock cs).WF .none ∧ (encBlock cs).Decodes := by
  have hfr := lzma2Frame_length cs
  have hcl := hok.length_le
  have hu : (encBlock cs).unpadded .none < 2 ^ 63 := by
    simp [XzBlockSpec.unpadded, encBlock_hdrBody, checkSize]; simp [encBlock]; omega
  have ho : (encBlock cs).out.length < 2 ^ 63 := by
    show cs.flatten.length < 2 ^ 63
    omega
  have h9a : mbW 0 (encBlock cs).out.length ≤ 9 := by
    have := mbWidth_le_nine _ ho; simpa [mbW] using this
  have h9b : mbW 0 ((encBlock cs).unpadded .none) ≤ 9 := by
    have := mbWidth_le_nine _ hu; simpa [mbW] using this
  have e2 : (encBlock cs).wIdxUnpadded = 0 := rfl
  have e3 : (encBlock cs).wIdxUnpacked = 0 := rfl
  refine ⟨hu, ho, ?_, ?_, decodes_of_frame _ cs rfl rfl hok⟩
  · have : (xzIndex .none [encBlock cs] 0).length ≤ 27 := by
      have := pad4_lt (xzIndexBody .none [encBlock cs] 0).length
      have e1 : mbW 0 1 = 1 := by simp [mbW, mbWidth_of_lt]
      have hb : (xzIndexBody .none [encBlock cs] 0).length ≤ 20 := by
        simp only [xzIndexBody, XzBlockSpec.record, mbField, List.length_append, encodeMb_length, e1, e2, e3,
          List.map_cons, List.map_nil, List.flatten_cons, List.flatten_nil, List.length_cons, List.length_nil]
        omega
      simp only [xzIndex, List.length_append, List.length_replicate, Fwd.leBytes_length]
      omega
    omega
  · refine ⟨?_, fun h => by simp [encBlock] at h, fun h => by simp [encBlock] at h, by simp [encBlock],
      by simp [encBlock], by rw [e2]; exact h9b, by rw [e3]; exact h9a⟩
    simp [XzBlockSpec.hdrWords, encBlock_hdrBody]

theorem xzCompress_spec (rd : ERd) (s : Sink) (hb : rd.bad = false) (hs : s.script = [])
    (hlen : rd.rem.length < 2 ^ 60) :
    ∃ cs s', xzCompress rd s = (s', .ok ()) ∧ ChunksOk cs ∧ cs.flatten = rd.rem
      ∧ s.Wrote s' (buildXz .none [encBlock cs]) := by
  obtain ⟨s1, h1, w1⟩ := xzWriteHeader_spec .none s hs
  obtain ⟨cs, s2, h2, hok, hfl, w2⟩ := xzWriteBlock_spec rd s1 hb w1.1
  obtain ⟨hu, ho, hLb, _, _⟩ := encBlock_facts cs hok (by rw [hfl]; exact hlen)
  obtain ⟨s3, h3, w3⟩ := xzWriteIndex_spec (encBlock cs) s2 w2.1 hu ho rfl rfl
  obtain ⟨hmod, hge⟩ := xzIndex_length_mod .none [encBlock cs] 0
  obtain ⟨s4, h4, w4⟩ := xzWriteFooter_spec .none _ (by omega) hLb s3 w3.1
  refine ⟨cs, s4, ?_, hok, hfl, ?_⟩
  · have hol : (encBlock cs).out.length = rd.rem.length := by simp [encBlock, hfl]
    rw [hol] at h3
    unfold xzCompress
    simp [bind, Fwd.M_bind_apply, h1, h2, h3, h4]
  · have := ((w1.trans w2).trans w3).trans w4
    simpa [buildXz] using this

end Lzma
