/-
  C05 — the symbol loop `process_mode`: invariants (from the C07 safety layer),
  the loop body with an explicit continuation, irrelevance of the fuel, and the
  fuel-free one-shot tail `fin` (`.finish` loop, size check, `output.finish`).
-/
import LzmaProofs.Lemmas.StreamEquivNext
namespace Lzma
namespace StreamEq

open DState Safety

/-! ## probabilities read from invariant tables -/

theorem arrGet_pval {n : Nat} {a : Array Nat} (h : ArrOk n a) {j v : Nat}
    (hg : arrGet a j = .ok v) : PVal v := by
  unfold arrGet at hg
  split at hg
  · rename_i x hx
    cases hg
    rw [Array.getElem?_eq_some_iff] at hx
    obtain ⟨hj, rfl⟩ := hx
    exact h.2 j hj
  · cases hg

theorem lenGet_pval {l : LenProbs} (h : LenOk l) {i : PIdx} {v : Nat}
    (hg : l.get i = .ok v) : PVal v := by
  cases i <;> simp only [LenProbs.get, oob] at hg <;> first
    | (cases hg; done)
    | (cases hg; exact h.choice)
    | (cases hg; exact h.choice2)
    | exact arrGet_pval h.high hg
    | (split at hg <;> first
        | exact arrGet_pval h.low hg
        | exact arrGet_pval h.mid hg
        | (cases hg; done))

theorem probs_get_pval {p : Probs} (h : ProbsInv p) {i : PIdx} {v : Nat}
    (hg : p.get i = .ok v) : PVal v := by
  cases i with
  | lit row col =>
    simp only [Probs.get, oob] at hg
    split at hg
    · exact arrGet_pval h.lit hg
    · cases hg
  | posSlot ls t =>
    simp only [Probs.get, oob] at hg
    split at hg
    · exact arrGet_pval h.posSlot hg
    · cases hg
  | align t => exact arrGet_pval h.align hg
  | posDec i => exact arrGet_pval h.posDec hg
  | isMatch i => exact arrGet_pval h.isMatch hg
  | isRep i => exact arrGet_pval h.isRep hg
  | isRepG0 i => exact arrGet_pval h.isRepG0 hg
  | isRepG1 i => exact arrGet_pval h.isRepG1 hg
  | isRepG2 i => exact arrGet_pval h.isRepG2 hg
  | isRep0Long i => exact arrGet_pval h.isRep0Long hg
  | lenChoice rep =>
    cases rep <;> simp only [Probs.get, Bool.false_eq_true, if_false, if_true] at hg <;>
      first | exact lenGet_pval h.len hg | exact lenGet_pval h.repLen hg
  | lenChoice2 rep =>
    cases rep <;> simp only [Probs.get, Bool.false_eq_true, if_false, if_true] at hg <;>
      first | exact lenGet_pval h.len hg | exact lenGet_pval h.repLen hg
  | lenLow rep ps t =>
    cases rep <;> simp only [Probs.get, Bool.false_eq_true, if_false, if_true] at hg <;>
      first | exact lenGet_pval h.len hg | exact lenGet_pval h.repLen hg
  | lenMid rep ps t =>
    cases rep <;> simp only [Probs.get, Bool.false_eq_true, if_false, if_true] at hg <;>
      first | exact lenGet_pval h.len hg | exact lenGet_pval h.repLen hg
  | lenHigh rep t =>
    cases rep <;> simp only [Probs.get, Bool.false_eq_true, if_false, if_true] at hg <;>
      first | exact lenGet_pval h.len hg | exact lenGet_pval h.repLen hg

/-- dry-run fidelity: `try_process_next` succeeds exactly when the real bit-level
decoding of the next symbol succeeds -/
theorem try_iff {s : DState} (w : Circ) (buf : Bytes) (rc : RC) (hp : ProbsInv s.probs) :
    tryProcessNext s w buf rc = true ↔ ∃ r, dec1 s w rc ⟨buf, false⟩ = .ok r := by
  have h := runDec_update_irrelevant_aux (symTree (s.mkCtx w)) (fun _ => False)
    (symTree_nodup_lemma _) s.probs s.probs
    (fun i v hg => by have := (probs_get_pval hp hg).2; omega) (fun _ _ => rfl) rc ⟨buf, false⟩
  unfold tryProcessNext dec1
  show (match runDec false (symTree (s.mkCtx w)) s.probs rc ⟨buf, false⟩ with
    | .ok _ => true | .error _ => false) = true ↔ _
  cases hF : runDec false (symTree (s.mkCtx w)) s.probs rc ⟨buf, false⟩ with
  | error e =>
    cases hT : runDec true (symTree (s.mkCtx w)) s.probs rc ⟨buf, false⟩ with
    | error e' => simp
    | ok r => rw [hF, hT] at h; simp [Except.map] at h
  | ok r =>
    cases hT : runDec true (symTree (s.mkCtx w)) s.probs rc ⟨buf, false⟩ with
    | error e' => rw [hF, hT] at h; simp [Except.map] at h
    | ok r' => simp

/-! ## the invariant of the data phase -/

structure Inv (s : DState) (w : Circ) (rc : RC) : Prop where
  ds : DStateInv s
  cw : CircSafe w
  dict : w.dictSize < 4294967296
  rc : RCInv rc

theorem appendLiteral_dict (w : Circ) (b : UInt8) (h : CircSafe w) :
    MSafe (fun w' => CircSafe w' ∧ w'.dictSize = w.dictSize) (w.appendLiteral b) :=
  (Circ.appendLiteral_safe w b h).mono (fun _ h' => ⟨h'.1, h'.2.1⟩)

theorem copyLoop_dict : ∀ (n : Nat) (w : Circ) (off : Nat), CircSafe w →
    MSafe (fun w' => CircSafe w' ∧ w'.dictSize = w.dictSize) (Circ.copyLoop n w off)
  | 0, w, off, h => by simp [Circ.copyLoop, h]
  | n+1, w, off, h => by
    simp only [Circ.copyLoop]
    refine MSafe.bind (appendLiteral_dict w _ h) ?_
    intro w1 ⟨h1, h2⟩
    exact (copyLoop_dict n w1 _ h1).mono (fun w' h' => ⟨h'.1, h'.2.trans h2⟩)

theorem appendLz_dict (w : Circ) (l d : Nat) (h : CircSafe w) :
    MSafe (fun w' => CircSafe w' ∧ w'.dictSize = w.dictSize) (w.appendLz l d) := by
  unfold Circ.appendLz
  split
  · simp
  · split
    · simp
    · refine MSafe.bind (MSafe.liftE (Circ.offsetOf_safe w d h (by omega))) ?_
      intro off _
      exact copyLoop_dict l w off h

theorem applySym_dict (s : DState) (w : Circ) (rc : RC) (rd : Rd) (sym : RawSym) (hw : CircSafe w) :
    MSafe (fun x => x.2.2.dictSize = w.dictSize) (applySym s w rc rd sym) := by
  cases sym with
  | lit byte =>
    simp only [applySym]
    refine MSafe.bind (appendLiteral_dict w _ hw) ?_
    intro w' hw'
    exact MSafe_pure.mpr hw'.2
  | shortRep =>
    simp only [applySym]
    refine MSafe.bind (appendLz_dict w _ _ hw) ?_
    intro w' hw'
    exact MSafe_pure.mpr hw'.2
  | rep idx len =>
    simp only [applySym]
    refine MSafe.bind (appendLz_dict w _ _ hw) ?_
    intro w' hw'
    exact MSafe_pure.mpr hw'.2
  | mtch len r0 =>
    simp only [applySym]
    split
    · refine MSafe.bind (MSafe.liftE (isFinishedOk_safe rc rd)) ?_
      intro fin _
      split
      · exact MSafe_pure.mpr rfl
      · simp
    · refine MSafe.bind (appendLz_dict w _ _ hw) ?_
      intro w' hw'
      exact MSafe_pure.mpr hw'.2

/-- measure of the symbol loop: staged + visible bytes, then the range -/
def lmu (s : DState) (rc : RC) (a : Bytes) : Nat :=
  (a.length + s.partialBuf.length) * 4294967296 + rc.range

/-- one `process_next` keeps the invariant, only shrinks the reader and strictly
decreases `mu` -/
theorem processNext_inv {s : DState} {w : Circ} {rc : RC} {a : Bytes} {snk k : Sink}
    {st : Status} {s' : DState} {w' : Circ} {rc' : RC} {rd' : Rd} (hI : Inv s w rc)
    (h : processNext s w rc ⟨a, false⟩ snk = (k, .ok (st, s', w', rc', rd'))) :
    Inv s' w' rc' ∧ rd'.bad = false ∧ rd'.rem <:+ a ∧
      rd'.rem.length * 4294967296 + rc'.range < a.length * 4294967296 + rc.range ∧
      s'.partialBuf = s.partialBuf ∧ s'.unpackedSize = s.unpackedSize := by
  have h1 := processNext_safe (ω := Circ) ⟨a, false⟩ hI.ds hI.cw hI.rc snk
  rw [h] at h1
  obtain ⟨hds, hcw, hrc, _, hmu, hpb, hus⟩ := h1
  have hd : w'.dictSize = w.dictSize ∧ rd'.bad = false ∧ rd'.rem <:+ a := by
    rw [processNext_eq] at h
    cases hr : runDec true (symTree (s.mkCtx w)) s.probs rc ⟨a, false⟩ with
    | error e => rw [hr] at h; simp at h
    | ok x =>
      obtain ⟨sym, probs, rc1, rd1⟩ := x
      rw [hr] at h
      simp only at h
      obtain ⟨hb, hsuf, _⟩ := runDec_ok_app true _ _ _ _ _ _ _ _ hr
      have h2 := applySym_dict { s with probs := probs } w rc1 rd1 sym hI.cw snk
      rcases ha : applySym { s with probs := probs } w rc1 rd1 sym snk with ⟨k2, r⟩
      rw [ha] at h h2
      cases r with
      | error e => simp at h
      | ok y =>
        obtain ⟨st2, s2, w2⟩ := y
        simp only [Prod.mk.injEq, Except.ok.injEq] at h
        obtain ⟨_, _, _, rfl, _, rfl⟩ := h
        exact ⟨h2, hb, hsuf⟩
  refine ⟨⟨hds, hcw, by rw [hd.1]; exact hI.dict, hrc⟩, hd.2.1, hd.2.2, hmu, hpb, hus⟩

/-! ## the loop body with an explicit continuation -/

/-- the body of `processLoop` with the recursive call replaced by `k` -/
def loopBody (mode : Mode) (k : DState → Circ → RC → Rd → M (DState × Circ × RC × Rd))
    (s : DState) (w : Circ) (rc : RC) (rd : Rd) : M (DState × Circ × RC × Rd) := do
  let stop ← liftE (match s.unpackedSize with
    | some n => pure (decide (LzBuf.len w ≥ n))
    | none =>
      match mode with
      | .stream => do
        let e ← rd.isEof
        pure (e && s.partialBuf.isEmpty)
      | .finish => do
        let f ← rc.isFinishedOk rd
        pure (f && s.partialBuf.isEmpty))
  if stop then pure (s, w, rc, rd)
  else if !s.partialBuf.isEmpty then do
    let (s, rd) ← liftE (s.readPartialInputBuf rd)
    if mode = .stream ∧ s.partialBuf.length < MAX_REQUIRED_INPUT ∧
        !(s.tryProcessNext w s.partialBuf rc) then
      pure (s, w, rc, rd)
    else do
      let (st, s', w, rc, tmp) ← processNext s w rc (Rd.ofBytes s.partialBuf)
      let s := { s' with partialBuf := tmp.rem }
      if st = .finished then pure (s, w, rc, rd) else k s w rc rd
  else do
    liftE rd.fillBuf
    if mode = .stream ∧ rd.rem.length < MAX_REQUIRED_INPUT ∧ !(s.tryProcessNext w rd.rem rc) then do
      let (s, rd) ← liftE (s.readPartialInputBuf rd)
      pure (s, w, rc, rd)
    else do
      let (st, s, w, rc, rd) ← processNext s w rc rd
      if st = .finished then pure (s, w, rc, rd) else k s w rc rd

theorem processLoop_succ (mode : Mode) (f : Nat) (s : DState) (w : Circ) (rc : RC) (rd : Rd) :
    processLoop mode (f + 1) s w rc rd = loopBody mode (processLoop mode f) s w rc rd := rfl

/-- the loop's stop test on a flat reader -/
def stopB (mode : Mode) (s : DState) (w : Circ) (rc : RC) (a : Bytes) : Bool :=
  match s.unpackedSize with
  | some n => decide (w.len ≥ n)
  | none =>
    match mode with
    | .stream => a.isEmpty && s.partialBuf.isEmpty
    | .finish => (rc.code == 0 && a.isEmpty) && s.partialBuf.isEmpty

theorem stop_eq (mode : Mode) (s : DState) (w : Circ) (rc : RC) (a : Bytes) :
    (match s.unpackedSize with
    | some n => pure (decide (LzBuf.len w ≥ n))
    | none =>
      match mode with
      | .stream => do
        let e ← (⟨a, false⟩ : Rd).isEof
        pure (e && s.partialBuf.isEmpty)
      | .finish => do
        let f ← rc.isFinishedOk ⟨a, false⟩
        pure (f && s.partialBuf.isEmpty) : Except Err Bool) = .ok (stopB mode s w rc a) := by
  unfold stopB
  cases s.unpackedSize with
  | some n => rfl
  | none =>
    cases mode with
    | stream => cases a <;> rfl
    | finish =>
      simp only [RC.isFinishedOk]
      by_cases hc : rc.code = 0
      · cases a <;> simp [hc, Rd.isEof, bind, Except.bind, pure, Except.pure]
      · cases a <;> simp [hc, bind, Except.bind, pure, Except.pure]

theorem LB_stop {mode : Mode} {k} {s : DState} {w : Circ} {rc : RC} {a : Bytes} (snk : Sink)
    (h : stopB mode s w rc a = true) :
    loopBody mode k s w rc ⟨a, false⟩ snk = (snk, .ok (s, w, rc, ⟨a, false⟩)) := by
  unfold loopBody
  rw [stop_eq]
  simp [bind_run, h]

/-- the part of an iteration after `process_next` -/
def pnTail (k : DState → Circ → RC → Rd → M (DState × Circ × RC × Rd)) (a1 : Rd) (stage : Bool)
    (res : Sink × Except Err (Status × DState × Circ × RC × Rd)) :
    Sink × Except Err (DState × Circ × RC × Rd) :=
  match res with
  | (k', Except.ok (st, s', w', rc', tmp)) =>
    if stage then
      (if st = .finished then (k', Except.ok ({ s' with partialBuf := tmp.rem }, w', rc', a1))
       else k { s' with partialBuf := tmp.rem } w' rc' a1 k')
    else
      (if st = .finished then (k', Except.ok (s', w', rc', tmp)) else k s' w' rc' tmp k')
  | (k', Except.error e) => (k', Except.error e)

theorem readPartial_eq (s : DState) (a : Bytes) :
    s.readPartialInputBuf ⟨a, false⟩ =
      .ok ({ s with partialBuf := s.partialBuf ++ a.take (min (20 - s.partialBuf.length) a.length) },
        ⟨a.drop (min (20 - s.partialBuf.length) a.length), false⟩) := by
  simp [readPartialInputBuf, MAX_REQUIRED_INPUT]

theorem LB_buf_ret {mode : Mode} {k} {s s1 : DState} {w : Circ} {rc : RC} {a : Bytes} {rd1 : Rd} (snk : Sink)
    (h : stopB mode s w rc a = false) (hpb : s.partialBuf ≠ [])
    (hr : s.readPartialInputBuf ⟨a, false⟩ = .ok (s1, rd1))
    (hc : mode = .stream ∧ s1.partialBuf.length < 20 ∧ tryProcessNext s1 w s1.partialBuf rc = false) :
    loopBody mode k s w rc ⟨a, false⟩ snk = (snk, .ok (s1, w, rc, rd1)) := by
  unfold loopBody
  rw [stop_eq, hr]
  have hne : s.partialBuf.isEmpty = false := by cases hs : s.partialBuf <;> simp_all
  have hc' : mode = .stream ∧ s1.partialBuf.length < MAX_REQUIRED_INPUT ∧
      (!tryProcessNext s1 w s1.partialBuf rc) = true := by
    simpa [MAX_REQUIRED_INPUT] using hc
  simp only [bind_run, liftE_ok, h, Bool.false_eq_true, if_false, hne, Bool.not_false, if_true]
  rw [if_pos hc']
  rfl

theorem LB_buf_next {mode : Mode} {k} {s s1 : DState} {w : Circ} {rc : RC} {a : Bytes} {rd1 : Rd} (snk : Sink)
    (h : stopB mode s w rc a = false) (hpb : s.partialBuf ≠ [])
    (hr : s.readPartialInputBuf ⟨a, false⟩ = .ok (s1, rd1))
    (hc : ¬ (mode = .stream ∧ s1.partialBuf.length < 20 ∧ tryProcessNext s1 w s1.partialBuf rc = false)) :
    loopBody mode k s w rc ⟨a, false⟩ snk =
      pnTail k rd1 true (processNext s1 w rc ⟨s1.partialBuf, false⟩ snk) := by
  unfold loopBody
  rw [stop_eq, hr]
  have hne : s.partialBuf.isEmpty = false := by cases hs : s.partialBuf <;> simp_all
  have hc' : ¬ (mode = .stream ∧ s1.partialBuf.length < MAX_REQUIRED_INPUT ∧
      (!tryProcessNext s1 w s1.partialBuf rc) = true) := by
    simpa [MAX_REQUIRED_INPUT] using hc
  simp only [bind_run, liftE_ok, h, Bool.false_eq_true, if_false, hne, Bool.not_false, if_true]
  rw [if_neg hc', bind_run]
  show _ = pnTail k rd1 true (processNext s1 w rc (Rd.ofBytes s1.partialBuf) snk)
  rcases processNext s1 w rc (Rd.ofBytes s1.partialBuf) snk with ⟨k', r⟩
  cases r with
  | error e => rfl
  | ok y =>
    obtain ⟨st, s', w', rc', tmp⟩ := y
    simp only [pnTail, if_true]
    split <;> rfl

theorem LB_direct_ret {mode : Mode} {k} {s : DState} {w : Circ} {rc : RC} {a : Bytes} (snk : Sink)
    (h : stopB mode s w rc a = false) (hpb : s.partialBuf = [])
    (hc : mode = .stream ∧ a.length < 20 ∧ tryProcessNext s w a rc = false) :
    loopBody mode k s w rc ⟨a, false⟩ snk =
      (snk, .ok ({ s with partialBuf := a }, w, rc, ⟨[], false⟩)) := by
  unfold loopBody
  have hr : s.readPartialInputBuf ⟨a, false⟩ = .ok ({ s with partialBuf := a }, ⟨[], false⟩) := by
    rw [readPartial_eq, hpb]
    have : min (20 - ([] : Bytes).length) a.length = a.length := by simp; omega
    rw [this]; simp
  rw [stop_eq, hr]
  have hne : s.partialBuf.isEmpty = true := by simp [hpb]
  have hc' : mode = .stream ∧ a.length < MAX_REQUIRED_INPUT ∧ (!tryProcessNext s w a rc) = true := by
    simpa [MAX_REQUIRED_INPUT] using hc
  simp only [bind_run, liftE_ok, h, Bool.false_eq_true, if_false, hne, Bool.not_true, Rd.fillBuf,
    List.isEmpty_iff, Bool.and_false]
  rw [if_pos hc']
  rfl

theorem LB_direct_next {mode : Mode} {k} {s : DState} {w : Circ} {rc : RC} {a : Bytes} (snk : Sink)
    (h : stopB mode s w rc a = false) (hpb : s.partialBuf = [])
    (hc : ¬ (mode = .stream ∧ a.length < 20 ∧ tryProcessNext s w a rc = false)) :
    loopBody mode k s w rc ⟨a, false⟩ snk =
      pnTail k ⟨[], false⟩ false (processNext s w rc ⟨a, false⟩ snk) := by
  unfold loopBody
  rw [stop_eq]
  have hne : s.partialBuf.isEmpty = true := by simp [hpb]
  have hc' : ¬ (mode = .stream ∧ a.length < MAX_REQUIRED_INPUT ∧ (!tryProcessNext s w a rc) = true) := by
    simpa [MAX_REQUIRED_INPUT] using hc
  simp only [bind_run, liftE_ok, h, Bool.false_eq_true, if_false, hne, Bool.not_true, Rd.fillBuf,
    List.isEmpty_iff, Bool.and_false]
  rw [if_neg hc', bind_run]
  rcases processNext s w rc ⟨a, false⟩ snk with ⟨k', r⟩
  cases r with
  | error e => rfl
  | ok y =>
    obtain ⟨st, s', w', rc', tmp⟩ := y
    simp only [pnTail, Bool.false_eq_true, if_false]
    split <;> rfl

/-! ## facts about `read_partial_input_buf` -/

theorem readPartial_facts {s : DState} {w : Circ} {rc : RC} (a : Bytes) (hI : Inv s w rc) :
    ∃ pb1 a1, s.readPartialInputBuf ⟨a, false⟩ = .ok ({ s with partialBuf := pb1 }, ⟨a1, false⟩) ∧
      s.partialBuf ++ a = pb1 ++ a1 ∧ pb1.length ≤ 20 ∧ (pb1.length < 20 → a1 = []) ∧
      Inv { s with partialBuf := pb1 } w rc ∧ a1 <:+ a ∧
      (s.partialBuf.length < 20 → a ≠ [] → a1.length < a.length) ∧
      (s.partialBuf ≠ [] → pb1 ≠ []) ∧
      a1.length + pb1.length = a.length + s.partialBuf.length := by
  have hpl := hI.ds.pbuf
  refine ⟨_, _, readPartial_eq s a, ?_, ?_, ?_, ?_, ?_, ?_, ?_, ?_⟩
  · rw [List.append_assoc, List.take_append_drop]
  · simp only [List.length_append, List.length_take]; omega
  · intro h
    simp only [List.length_append, List.length_take] at h
    apply List.drop_eq_nil_of_le; omega
  · refine ⟨hI.ds.of_eq rfl hI.ds.state rfl ?_, hI.cw, hI.dict, hI.rc⟩
    simp only [List.length_append, List.length_take]; omega
  · exact List.drop_suffix _ _
  · intro h1 h2
    have : 0 < a.length := List.length_pos_iff.mpr h2
    simp only [List.length_drop]; omega
  · intro h1 h2
    exact h1 (List.append_eq_nil_iff.mp h2).1
  · simp only [List.length_append, List.length_take, List.length_drop]; omega

end StreamEq
end Lzma
