/-
  C07 — layer 8: the `.xz` container.
-/
import LzmaProofs.Lemmas.SafetyLzma2
namespace Lzma
namespace Safety

theorem tryFrom_safe (id : Nat) : ESafe (fun _ => True) (CheckMethod.tryFrom id) := by
  unfold CheckMethod.tryFrom
  repeat' split
  all_goals first | trivial | rfl

theorem parseStreamFlags_safe (f : Nat) : ESafe (fun _ => True) (parseStreamFlags f) := by
  unfold parseStreamFlags
  split
  · rfl
  · exact tryFrom_safe _

theorem parseStreamHeader_safe (rd : Rd) :
    ESafe (fun x => x.2.rem.length ≤ rd.rem.length) (parseStreamHeader rd) := by
  unfold parseStreamHeader
  refine (readTag_safe rd _).bind ?_
  rintro ⟨ok, rd1⟩ h1
  dsimp -zeta only at h1 ⊢
  extract_lets jp1
  split
  · exact ESafe_throw_bind rfl
  simp -zeta only [jp1]
  refine (readExact_safe rd1 2).bind ?_
  rintro ⟨fb, rd2⟩ ⟨h2, _⟩
  dsimp -zeta only at h2 ⊢
  refine (readU32LE_safe rd2).bind ?_
  rintro ⟨crc, rd3⟩ ⟨h3, _⟩
  dsimp -zeta only at h3 ⊢
  extract_lets jp2
  split
  · exact ESafe_throw_bind rfl
  simp -zeta only [jp2]
  refine (parseStreamFlags_safe _).bind ?_
  intro check _
  refine ESafe_pure.mpr ?_
  dsimp only; omega

theorem getMultibyteAux_safe : ∀ (fuel i result : Nat) (acc : Bytes) (rd : Rd),
    ESafe (fun x => x.2.2.rem.length ≤ rd.rem.length) (getMultibyteAux fuel i result acc rd) := by
  intro fuel
  induction fuel with
  | zero => intro i result acc rd; rfl
  | succ fuel ih =>
    intro i result acc rd
    unfold getMultibyteAux
    refine (readU8_safe rd).bind ?_
    rintro ⟨byte, rd1⟩ h1
    dsimp only at h1 ⊢
    split
    · refine ESafe_pure.mpr ?_
      dsimp only; omega
    · refine (ih _ _ _ rd1).mono ?_
      intro x hx; omega

theorem getMultibyte_safe (rd : Rd) :
    ESafe (fun x => x.2.2.rem.length ≤ rd.rem.length) (getMultibyte rd) :=
  getMultibyteAux_safe 9 0 0 [] rd

theorem readZeroBytes_safe : ∀ (n : Nat) (acc : Bytes) (rd : Rd),
    ESafe (fun x => x.2.rem.length + n = rd.rem.length) (readZeroBytes n acc rd) := by
  intro n
  induction n with
  | zero => intro acc rd; exact ESafe_pure.mpr rfl
  | succ n ih =>
    intro acc rd
    unfold readZeroBytes
    refine (readU8_safe rd).bind ?_
    rintro ⟨b, rd1⟩ h1
    dsimp -zeta only at h1 ⊢
    extract_lets jp1
    split
    · exact ESafe_throw_bind rfl
    simp -zeta only [jp1]
    refine (ih _ rd1).mono ?_
    intro x hx; omega

theorem checkRecords_safe : ∀ (rs : List Record) (dig : Bytes) (rd : Rd),
    ESafe (fun x => x.2.rem.length ≤ rd.rem.length) (checkRecords rs dig rd) := by
  intro rs
  induction rs with
  | nil => intro dig rd; exact ESafe_pure.mpr (Nat.le_refl _)
  | cons r rs ih =>
    intro dig rd
    unfold checkRecords
    refine (getMultibyte_safe rd).bind ?_
    rintro ⟨unpadded, b1, rd1⟩ h1
    dsimp -zeta only at h1 ⊢
    extract_lets jp1
    split
    · exact ESafe_throw_bind rfl
    simp -zeta only [jp1]
    refine (getMultibyte_safe rd1).bind ?_
    rintro ⟨unpacked, b2, rd2⟩ h2
    dsimp -zeta only at h2 ⊢
    extract_lets jp2
    split
    · exact ESafe_throw_bind rfl
    simp -zeta only [jp2]
    refine (ih _ rd2).mono ?_
    intro x hx; omega

theorem checkIndex_safe (start : Nat) (records : List Record) (rd : Rd) :
    ESafe (fun rd' => rd'.rem.length ≤ rd.rem.length) (checkIndex start records rd) := by
  unfold checkIndex
  extract_lets dig0
  refine (getMultibyte_safe rd).bind ?_
  rintro ⟨numRecords, b, rd1⟩ h1
  dsimp -zeta only at h1 ⊢
  extract_lets jp1
  split
  · exact ESafe_throw_bind rfl
  simp -zeta only [jp1]
  refine (checkRecords_safe records _ rd1).bind ?_
  rintro ⟨dig, rd2⟩ h2
  dsimp -zeta only at h2 ⊢
  extract_lets count
  refine (readZeroBytes_safe _ [] rd2).bind ?_
  rintro ⟨pad, rd3⟩ h3
  dsimp -zeta only at h3 ⊢
  extract_lets dig'
  refine (readU32LE_safe rd3).bind ?_
  rintro ⟨crc, rd4⟩ ⟨h4, _⟩
  dsimp -zeta only at h4 ⊢
  extract_lets jp2
  split
  · exact ESafe_throw_bind rfl
  simp -zeta only [jp2]
  refine ESafe_pure.mpr ?_
  omega

theorem readFilters_safe : ∀ (n headerSize : Nat) (acc : List Filter) (rd : Rd),
    ESafe (fun x => x.2.rem.length ≤ rd.rem.length) (readFilters n headerSize acc rd) := by
  intro n
  induction n with
  | zero => intro hs acc rd; exact ESafe_pure.mpr (Nat.le_refl _)
  | succ n ih =>
    intro hs acc rd
    unfold readFilters
    refine (getMultibyte_safe rd).bind ?_
    rintro ⟨id, b1, rd1⟩ h1
    dsimp -zeta only at h1 ⊢
    extract_lets jpK jp1
    split
    · exact ESafe_throw_bind rfl
    simp -zeta only [jp1]
    refine (getMultibyte_safe rd1).bind ?_
    rintro ⟨sz, b2, rd2⟩ h2
    dsimp -zeta only at h2 ⊢
    extract_lets jp2
    split
    · exact ESafe_throw_bind rfl
    simp -zeta only [jp2]
    have := readExact_safe rd2 sz
    split
    · rename_i x hx
      rw [hx] at this
      rw [pure_bind']
      simp -zeta only [jpK]
      refine (ih _ _ x.2).mono ?_
      intro y hy
      have := this.1
      omega
    · exact ESafe_throw_bind rfl

theorem readBlockHeader_safe (rd : Rd) (headerSize : Nat) :
    ESafe (fun x => x.2.rem.length ≤ rd.rem.length) (readBlockHeader rd headerSize) := by
  unfold readBlockHeader
  refine (readU8_safe rd).bind ?_
  rintro ⟨flags, rd1⟩ h1
  dsimp -zeta only at h1 ⊢
  extract_lets fl nf jpA jp1
  split
  · exact ESafe_throw_bind rfl
  simp -zeta only [jp1]
  have hjpA : ∀ x : Option Nat × Rd, x.2.rem.length ≤ rd1.rem.length →
      ESafe (fun x => x.2.rem.length ≤ rd.rem.length) (jpA x) := by
    rintro ⟨ps, rd2⟩ h2
    simp -zeta only [jpA]
    extract_lets jpB
    have hjpB : ∀ x : Option Nat × Rd, x.2.rem.length ≤ rd2.rem.length →
        ESafe (fun x => x.2.rem.length ≤ rd.rem.length) (jpB x) := by
      rintro ⟨us, rd3⟩ h3
      simp -zeta only [jpB]
      refine (readFilters_safe _ _ _ rd3).bind ?_
      rintro ⟨filters, rd4⟩ h4
      dsimp -zeta only at h4 ⊢
      refine (flushZeroPadding_safe rd4).bind ?_
      rintro ⟨ok, rd5⟩ h5
      dsimp -zeta only at h5 ⊢
      extract_lets jp2
      split
      · exact ESafe_throw_bind rfl
      simp -zeta only [jp2]
      refine ESafe_pure.mpr ?_
      dsimp only at h2 h3 ⊢; omega
    split
    · refine (getMultibyte_safe rd2).bind ?_
      rintro ⟨v, b, rd3⟩ h3
      rw [pure_bind']
      exact hjpB _ h3
    · rw [pure_bind']
      exact hjpB _ (Nat.le_refl _)
  split
  · refine (getMultibyte_safe rd1).bind ?_
    rintro ⟨v, b, rd2⟩ h2
    rw [pure_bind']
    exact hjpA _ h2
  · rw [pure_bind']
    exact hjpA _ (Nat.le_refl _)

theorem decodeFilter_safe (rd : Rd) (f : Filter) :
    ESafe (fun x => x.2.rem.length ≤ rd.rem.length) (decodeFilter rd f) := by
  unfold decodeFilter
  extract_lets jp1
  split
  · exact ESafe_throw_bind rfl
  simp -zeta only [jp1]
  refine Lzma2Decoder_new_safe.bind ?_
  intro d hd
  have := Lzma2Decoder_decompress_safe hd rd {}
  split
  · rename_i snk d' rd' heq
    rw [heq] at this
    exact ESafe_pure.mpr this.2
  · rename_i snk e heq
    rw [heq] at this
    exact this

theorem laterFilters_safe : ∀ (fs : List Filter) (buf : Bytes),
    ESafe (fun _ => True) (laterFilters fs buf) := by
  intro fs
  induction fs with
  | nil => intro buf; trivial
  | cons f fs ih =>
    intro buf
    unfold laterFilters
    refine (decodeFilter_safe _ f).bind ?_
    rintro ⟨nb, _⟩ _
    exact ih nb

theorem validateBlockCheck_safe (rd : Rd) (buf : Bytes) (c : CheckMethod) :
    ESafe (fun rd' => rd'.rem.length ≤ rd.rem.length) (validateBlockCheck rd buf c) := by
  cases c with
  | none => exact ESafe_pure.mpr (Nat.le_refl _)
  | crc32 =>
    unfold validateBlockCheck
    refine (readU32LE_safe rd).bind ?_
    rintro ⟨crc, rd1⟩ ⟨h1, _⟩
    dsimp -zeta only at h1 ⊢
    extract_lets jp1
    split
    · exact ESafe_throw_bind rfl
    simp -zeta only [jp1]
    refine ESafe_pure.mpr ?_
    omega
  | crc64 =>
    unfold validateBlockCheck
    refine (readU64LE_safe rd).bind ?_
    rintro ⟨crc, rd1⟩ ⟨h1, _⟩
    dsimp -zeta only at h1 ⊢
    extract_lets jp1
    split
    · exact ESafe_throw_bind rfl
    simp -zeta only [jp1]
    refine ESafe_pure.mpr ?_
    omega
  | sha256 => rfl

theorem readBlock_safe (start : Nat) (rd : Rd) (check : CheckMethod) (hs : UInt8)
    (hhs : hs ≠ 0) (hstart : rd.rem.length ≤ start) :
    MSafe (fun x => x.2.rem.length ≤ rd.rem.length) (readBlock start rd check hs) := by
  unfold readBlock
  have h0 : 1 ≤ hs.toNat <<< 2 := by
    have : hs.toNat ≠ 0 := fun h => hhs (UInt8.toNat_inj.mp h)
    rw [Nat.shiftLeft_eq]; omega
  rw [subChk_safe h0]
  rw [liftE_ok']
  generalize hsp : rd.split (hs.toNat <<< 2 - 1) = sp
  obtain ⟨hdrRd, rest⟩ := sp
  have hlen := split_length rd (hs.toNat <<< 2 - 1)
  rw [hsp] at hlen
  dsimp -zeta only at hlen ⊢
  extract_lets hdrBytes
  refine MSafe.bind (MSafe.liftE (readBlockHeader_safe hdrRd _)) ?_
  rintro ⟨bh, hdrRd1⟩ h1
  dsimp -zeta only at h1 ⊢
  extract_lets rd1
  have hrd1 : rd1.rem.length ≤ rd.rem.length := by
    simp only [rd1]; rw [unsplit_length]; omega
  refine MSafe.bind (MSafe.liftE (readU32LE_safe rd1)) ?_
  rintro ⟨crc, rd2⟩ ⟨h2, _⟩
  dsimp -zeta only at h2 ⊢
  extract_lets before jp1
  split
  · exact MSafe_throw_bind rfl
  simp -zeta only [jp1]
  refine MSafe.bind (P := fun (x : Bytes × Rd) => x.2.rem.length ≤ rd2.rem.length)
    (MSafe.liftE ?_) ?_
  · split
    · exact ESafe_pure.mpr (Nat.le_refl _)
    · rename_i f fs _
      refine (decodeFilter_safe rd2 f).bind ?_
      rintro ⟨buf, rd3⟩ h3
      dsimp -zeta only at h3 ⊢
      extract_lets packed jp2
      have hjp2 : ESafe (fun (x : Bytes × Rd) => x.2.rem.length ≤ rd2.rem.length) (jp2 ()) := by
        simp -zeta only [jp2]
        refine (laterFilters_safe fs buf).bind ?_
        intro b _; exact ESafe_pure.mpr h3
      split
      · split
        · exact ESafe_throw_bind rfl
        · exact hjp2
      · exact hjp2
  rintro ⟨tmpbuf, rd3⟩ h3
  dsimp -zeta only at h3 ⊢
  extract_lets usz count padding jp3
  have hjp3 : MSafe (fun x => x.2.rem.length ≤ rd.rem.length) (jp3 ()) := by
    simp -zeta only [jp3]
    refine MSafe.bind (MSafe.liftE (readZeroBytes_safe padding [] rd3)) ?_
    rintro ⟨_, rd4⟩ h4
    dsimp -zeta only at h4 ⊢
    refine MSafe.bind (MSafe.liftE (validateBlockCheck_safe rd4 tmpbuf check)) ?_
    intro rd5 h5
    refine MSafe.bind (writeAll_safe _) ?_
    intro _ _
    rw [subChk_safe (by omega), liftE_ok']
    refine MSafe_pure.mpr ?_
    dsimp only
    omega
  split
  · split
    · exact MSafe_throw_bind rfl
    · exact hjp3
  · exact hjp3

theorem blockLoop_safe (check : CheckMethod) : ∀ (fuel : Nat) (records : List Record) (rd : Rd),
    rd.rem.length < fuel →
    MSafe (fun x => x.2.rem.length ≤ rd.rem.length) (blockLoop check fuel records rd) := by
  intro fuel
  induction fuel with
  | zero => intro records rd hf; omega
  | succ fuel ih =>
    intro records rd hf
    unfold blockLoop
    extract_lets start
    refine MSafe.bind (MSafe.liftE (readU8_safe rd)) ?_
    rintro ⟨hs, rd1⟩ h1
    dsimp -zeta only at h1 ⊢
    split
    · refine MSafe.bind (MSafe.liftE (checkIndex_safe start records rd1)) ?_
      intro rd2 h2
      refine MSafe_pure.mpr ?_
      dsimp only; omega
    · rename_i hne
      refine MSafe.bind (readBlock_safe start rd1 check hs hne (by simp only [start]; omega)) ?_
      rintro ⟨rec, rd2⟩ h2
      dsimp -zeta only at h2 ⊢
      refine (ih _ rd2 (by omega)).mono ?_
      intro x hx; omega

theorem xzDecompress_safe (rd : Rd) :
    MSafe (fun rd' => rd'.rem.length ≤ rd.rem.length) (xzDecompress rd) := by
  unfold xzDecompress
  refine MSafe.bind (MSafe.liftE (parseStreamHeader_safe rd)) ?_
  rintro ⟨check, rd1⟩ h1
  dsimp -zeta only at h1 ⊢
  extract_lets jp1
  split
  · exact MSafe_throw_bind rfl
  simp -zeta only [jp1]
  refine MSafe.bind (blockLoop_safe check _ [] rd1 (by omega)) ?_
  rintro ⟨indexSize, rd2⟩ h2
  dsimp -zeta only at h2 ⊢
  refine MSafe.bind (MSafe.liftE (readU32LE_safe rd2)) ?_
  rintro ⟨crc, rd3⟩ ⟨h3, _⟩
  dsimp -zeta only at h3 ⊢
  refine MSafe.bind (MSafe.liftE (readExact_safe rd3 4)) ?_
  rintro ⟨bs, rd4⟩ ⟨h4, _⟩
  dsimp -zeta only at h4 ⊢
  extract_lets bsz jp2
  split
  · exact MSafe_throw_bind rfl
  simp -zeta only [jp2]
  refine MSafe.bind (MSafe.liftE (readExact_safe rd4 2)) ?_
  rintro ⟨fb, rd5⟩ ⟨h5, _⟩
  dsimp -zeta only at h5 ⊢
  refine MSafe.bind (MSafe.liftE (parseStreamFlags_safe _)) ?_
  intro flags _
  extract_lets jpA jpB
  split
  · exact MSafe_throw_bind rfl
  simp -zeta only [jpB]
  split
  · exact MSafe_throw_bind rfl
  simp -zeta only [jpA]
  refine MSafe.bind (MSafe.liftE (readTag_safe rd5 _)) ?_
  rintro ⟨ok, rd6⟩ h6
  dsimp -zeta only at h6 ⊢
  extract_lets jp6 jp5
  split
  · exact MSafe_throw_bind rfl
  simp -zeta only [jp5]
  refine MSafe.bind (MSafe.liftE (isEof_safe rd6)) ?_
  intro eof _
  split
  · exact MSafe_throw_bind rfl
  simp -zeta only [jp6]
  refine MSafe_pure.mpr ?_
  omega

theorem xzDecompress_no_panic (rd : Rd) (snk : Sink) (w : String) :
    (xzDecompress rd snk).2 ≠ .error (.panic w) :=
  (xzDecompress_safe rd snk).ne_panic w

theorem xzDecompress_terminates (rd : Rd) (snk : Sink) :
    (xzDecompress rd snk).2 ≠ .error .fuel :=
  (xzDecompress_safe rd snk).ne_fuel

end Safety
end Lzma
