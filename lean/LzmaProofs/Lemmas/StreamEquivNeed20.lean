/-
  C05 — the 20-byte bound (L3): `MAX_REQUIRED_INPUT = 20` bytes always suffice
  to decode one symbol.

  Potential argument.  Let `Φ = range * 256 ^ (bytes left)`.  `normalize` keeps
  `Φ`; a probability bit shrinks it by at most `253921 / 2^24` (`p ≥ 31`,
  `range ≥ 2^24`), a direct bit by at most `(2^24 - 1) / 2^25`.  Running out of
  input means `Φ < 2^24`.  With 20 bytes `Φ ≥ 2^184` at the start, and no path
  of `symTree` has more than 22 probability bits + 26 direct bits (or 23 + 0):
  `2^184 * (253921/2^24)^22 * ((2^24-1)/2^25)^26 ≥ 2^24`.
-/
import LzmaProofs.Lemmas.StreamEquivStep
namespace Lzma
namespace StreamEq

open DState Safety

/-! ## the numeric region -/

/-- after `k` probability bits and `d` direct bits the potential is still `≥ 2^24` -/
def Ineq (k d : Nat) : Prop :=
  2 ^ 24 * (2 ^ (24 * k) * 2 ^ (25 * d)) ≤ 2 ^ 184 * (253921 ^ k * 16777215 ^ d)

/-- the potential `Φ` has lost at most `k` probability bits and `d` direct bits from `2^184` -/
def J (k d Φ : Nat) : Prop :=
  2 ^ 184 * (253921 ^ k * 16777215 ^ d) ≤ Φ * (2 ^ (24 * k) * 2 ^ (25 * d))

theorem J_init {Φ : Nat} (h : 2 ^ 184 ≤ Φ) : J 0 0 Φ := by
  unfold J
  simpa using h

theorem J_prob {k d Φ Φ' : Nat} (h : J k d Φ) (h2 : Φ * 253921 ≤ Φ' * 2 ^ 24) : J (k + 1) d Φ' := by
  unfold J at *
  generalize hP : 253921 ^ k * 16777215 ^ d = P at h
  generalize hB : 2 ^ (24 * k) * 2 ^ (25 * d) = B at h
  have e1 : 253921 ^ (k + 1) * 16777215 ^ d = P * 253921 := by
    rw [← hP, Nat.pow_succ]; ac_rfl
  have e2 : 2 ^ (24 * (k + 1)) * 2 ^ (25 * d) = B * 2 ^ 24 := by
    rw [← hB, Nat.mul_add, Nat.pow_add]; ac_rfl
  rw [e1, e2]
  calc 2 ^ 184 * (P * 253921) = (2 ^ 184 * P) * 253921 := by ac_rfl
    _ ≤ (Φ * B) * 253921 := Nat.mul_le_mul_right _ h
    _ = (Φ * 253921) * B := by ac_rfl
    _ ≤ (Φ' * 2 ^ 24) * B := Nat.mul_le_mul_right _ h2
    _ = Φ' * (B * 2 ^ 24) := by ac_rfl

theorem J_direct {k d Φ Φ' : Nat} (h : J k d Φ) (h2 : Φ * 16777215 ≤ Φ' * 2 ^ 25) : J k (d + 1) Φ' := by
  unfold J at *
  generalize hP : 253921 ^ k * 16777215 ^ d = P at h
  generalize hB : 2 ^ (24 * k) * 2 ^ (25 * d) = B at h
  have e1 : 253921 ^ k * 16777215 ^ (d + 1) = P * 16777215 := by
    rw [← hP, Nat.pow_succ]; ac_rfl
  have e2 : 2 ^ (24 * k) * 2 ^ (25 * (d + 1)) = B * 2 ^ 25 := by
    rw [← hB, Nat.mul_add, Nat.pow_add]; ac_rfl
  rw [e1, e2]
  calc 2 ^ 184 * (P * 16777215) = (2 ^ 184 * P) * 16777215 := by ac_rfl
    _ ≤ (Φ * B) * 16777215 := Nat.mul_le_mul_right _ h
    _ = (Φ * 16777215) * B := by ac_rfl
    _ ≤ (Φ' * 2 ^ 25) * B := Nat.mul_le_mul_right _ h2
    _ = Φ' * (B * 2 ^ 25) := by ac_rfl

theorem J_ge {k d Φ : Nat} (h : J k d Φ) (hi : Ineq k d) : 2 ^ 24 ≤ Φ := by
  unfold J at h
  unfold Ineq at hi
  have hB : 0 < 2 ^ (24 * k) * 2 ^ (25 * d) := Nat.mul_pos (Nat.pow_pos (by omega)) (Nat.pow_pos (by omega))
  exact Nat.le_of_mul_le_mul_right (Nat.le_trans hi h) hB

theorem Ineq_pred_k {k d : Nat} (h : Ineq (k + 1) d) : Ineq k d := by
  unfold Ineq at *
  generalize hP : 253921 ^ k * 16777215 ^ d = P
  generalize hB : 2 ^ (24 * k) * 2 ^ (25 * d) = B
  have e1 : 253921 ^ (k + 1) * 16777215 ^ d = P * 253921 := by
    rw [← hP, Nat.pow_succ]; ac_rfl
  have e2 : 2 ^ (24 * (k + 1)) * 2 ^ (25 * d) = B * 2 ^ 24 := by
    rw [← hB, Nat.mul_add, Nat.pow_add]; ac_rfl
  rw [e1, e2] at h
  have h3 : (2 ^ 24 * B) * 253921 ≤ (2 ^ 184 * P) * 253921 :=
    calc (2 ^ 24 * B) * 253921 ≤ (2 ^ 24 * B) * 2 ^ 24 := Nat.mul_le_mul_left _ (by decide)
      _ = 2 ^ 24 * (B * 2 ^ 24) := by ac_rfl
      _ ≤ 2 ^ 184 * (P * 253921) := h
      _ = (2 ^ 184 * P) * 253921 := by ac_rfl
  exact Nat.le_of_mul_le_mul_right h3 (by decide)

theorem Ineq_pred_d {k d : Nat} (h : Ineq k (d + 1)) : Ineq k d := by
  unfold Ineq at *
  generalize hP : 253921 ^ k * 16777215 ^ d = P
  generalize hB : 2 ^ (24 * k) * 2 ^ (25 * d) = B
  have e1 : 253921 ^ k * 16777215 ^ (d + 1) = P * 16777215 := by
    rw [← hP, Nat.pow_succ]; ac_rfl
  have e2 : 2 ^ (24 * k) * 2 ^ (25 * (d + 1)) = B * 2 ^ 25 := by
    rw [← hB, Nat.mul_add, Nat.pow_add]; ac_rfl
  rw [e1, e2] at h
  have h3 : (2 ^ 24 * B) * 16777215 ≤ (2 ^ 184 * P) * 16777215 :=
    calc (2 ^ 24 * B) * 16777215 ≤ (2 ^ 24 * B) * 2 ^ 25 := Nat.mul_le_mul_left _ (by decide)
      _ = 2 ^ 24 * (B * 2 ^ 25) := by ac_rfl
      _ ≤ 2 ^ 184 * (P * 16777215) := h
      _ = (2 ^ 184 * P) * 16777215 := by ac_rfl
  exact Nat.le_of_mul_le_mul_right h3 (by decide)

theorem Ineq_mono {k d k' d' : Nat} (hk : k' ≤ k) (hd : d' ≤ d) (h : Ineq k d) : Ineq k' d' := by
  obtain ⟨i, rfl⟩ := Nat.le.dest hk
  obtain ⟨j, rfl⟩ := Nat.le.dest hd
  induction i with
  | zero =>
    induction j with
    | zero => exact h
    | succ j ih => exact ih (by omega) (Ineq_pred_d h)
  | succ i ih => exact ih (by omega) (Ineq_pred_k h)

set_option exponentiation.threshold 2000 in
theorem Ineq_22_26 : Ineq 22 26 := by
  unfold Ineq; decide +kernel

set_option exponentiation.threshold 2000 in
theorem Ineq_23_0 : Ineq 23 0 := by
  unfold Ineq; decide +kernel

/-- the (probability bits, direct bits) pairs that occur on paths of `symTree` -/
def G (k d : Nat) : Prop := (k ≤ 22 ∧ d ≤ 26) ∨ (k ≤ 23 ∧ d = 0)

theorem G_ineq {k d : Nat} (h : G k d) : Ineq k d := by
  rcases h with ⟨h1, h2⟩ | ⟨h1, h2⟩
  · exact Ineq_mono h1 h2 Ineq_22_26
  · exact Ineq_mono h1 (by omega) Ineq_23_0

theorem G_mono {k d k' d' : Nat} (hk : k' ≤ k) (hd : d' ≤ d) (h : G k d) : G k' d' := by
  unfold G at *; omega

/-! ## one bit and the potential -/

theorem normalize_phi {rc0 rc' : RC} {a : Bytes} {rd' : Rd} (hr : rc0.range < 4294967296)
    (h : RC.normalize rc0 ⟨a, false⟩ = .ok (rc', rd')) :
    rd'.bad = false ∧ rc'.range * 256 ^ rd'.rem.length = rc0.range * 256 ^ a.length := by
  unfold RC.normalize at h
  split at h
  · rename_i hlt
    cases a with
    | nil => simp [Rd.readU8, Rd.endErr, bind, Except.bind] at h
    | cons x r =>
      simp only [Rd.readU8, bind, Except.bind, pure, Except.pure, Except.ok.injEq, Prod.mk.injEq] at h
      obtain ⟨rfl, rfl⟩ := h
      refine ⟨rfl, ?_⟩
      have : shlU32 rc0.range 8 = rc0.range * 256 := by
        unfold shlU32 U32
        rw [Nat.shiftLeft_eq]
        exact Nat.mod_eq_of_lt (by omega)
      simp only [this, List.length_cons, Nat.pow_succ]
      ac_rfl
  · simp only [pure, Except.pure, Except.ok.injEq, Prod.mk.injEq] at h
    obtain ⟨rfl, rfl⟩ := h
    exact ⟨rfl, rfl⟩

theorem normalize_eof {rc0 : RC} {a : Bytes} {e : Err}
    (h : RC.normalize rc0 ⟨a, false⟩ = .error e) : rc0.range < 16777216 ∧ a = [] := by
  unfold RC.normalize at h
  split at h
  · rename_i hlt
    cases a with
    | nil => exact ⟨hlt, rfl⟩
    | cons x r => simp [Rd.readU8, bind, Except.bind, pure, Except.pure] at h
  · simp [pure, Except.pure] at h

theorem decPre_err {u : Bool} {p : Nat} {rc : RC} {e : Err} (h : decPre u p rc = .error e) :
    e ≠ .eof := by
  unfold decPre at h
  unfold mulChk subChk addChk at h
  intro he
  subst he
  split at h
  · simp only [exc_ok_bind] at h
    split at h
    · cases u
      · simp [exc_ok_bind, exc_pure, pure, Except.pure, bind, Except.bind] at h
      · simp only [if_true] at h
        split at h
        · simp only [exc_ok_bind] at h
          split at h
          · simp [exc_ok_bind, pure, Except.pure, bind, Except.bind] at h
          · simp [bind, Except.bind] at h
        · simp [bind, Except.bind] at h
    · split at h
      · simp only [exc_ok_bind] at h
        split at h
        · simp [exc_ok_bind, pure, Except.pure, bind, Except.bind] at h
        · simp [bind, Except.bind] at h
      · simp [bind, Except.bind] at h
  · simp [bind, Except.bind] at h

theorem decPre_phi {u : Bool} {p p' : Nat} {rc rc0 : RC} {bit : Bool} (hp : PVal p) (hrc : RCInv rc)
    (h : decPre u p rc = .ok (bit, p', rc0)) :
    rc.range * 253921 ≤ rc0.range * 16777216 ∧ rc0.range < 4294967296 := by
  obtain ⟨h1, h2, h3⟩ := hrc
  obtain ⟨hp1, hp2⟩ := hp
  have hq : rc.range >>> 11 = rc.range / 2048 := by simp [Nat.shiftRight_eq_div_pow]
  have hq1 : 2048 * (rc.range / 2048) ≤ rc.range := Nat.mul_div_le _ _
  have hq2 : rc.range < 2048 * (rc.range / 2048) + 2048 := by
    have := Nat.lt_div_mul_add (a := rc.range) (b := 2048) (by omega); omega
  have hb1 : rc.range / 2048 * 31 ≤ rc.range / 2048 * p := Nat.mul_le_mul_left _ hp1
  have hb2 : rc.range / 2048 * p ≤ rc.range / 2048 * 2017 := Nat.mul_le_mul_left _ hp2
  unfold decPre at h
  rw [hq] at h
  generalize hbd : rc.range / 2048 * p = bound at *
  generalize hqq : rc.range / 2048 = q at *
  have hmul : mulChk U32 "decode_bit: bound overflow" q p = .ok bound := by
    rw [← hbd]; apply mulChk_safe; rw [hbd]; simp only [U32]; omega
  rw [hmul] at h
  simp only [exc_ok_bind] at h
  by_cases hlt : rc.code < bound
  · simp only [hlt, if_true] at h
    have key : rc0.range = bound := by
      cases u
      · simp only [Bool.false_eq_true, if_false, exc_pure, exc_ok_bind, Except.ok.injEq,
          Prod.mk.injEq] at h
        rw [← h.2.2]
      · simp only [if_true] at h
        cases hs : subChk "decode_bit: 0x800 - prob" 0x800 p with
        | error e => rw [hs] at h; cases h
        | ok dd =>
          rw [hs] at h; simp only [exc_ok_bind] at h
          cases ha : addChk U16 "decode_bit: prob += overflow" p (dd >>> 5) with
          | error e => rw [ha] at h; cases h
          | ok pp =>
            rw [ha] at h
            simp only [exc_ok_bind, exc_pure, Except.ok.injEq, Prod.mk.injEq] at h
            rw [← h.2.2]
    rw [key]
    constructor <;> omega
  · simp only [hlt, if_false] at h
    rw [subChk_safe (by omega)] at h
    simp only [exc_ok_bind] at h
    rw [subChk_safe (by omega)] at h
    simp only [exc_ok_bind, exc_pure, Except.ok.injEq, Prod.mk.injEq] at h
    have key : rc0.range = rc.range - bound := by rw [← h.2.2]
    rw [key]
    constructor <;> omega

theorem decodeBit_phi {u : Bool} {p p' : Nat} {rc rc' : RC} {a : Bytes} {rd' : Rd} {bit : Bool}
    (hp : PVal p) (hrc : RCInv rc)
    (h : RC.decodeBit u p rc ⟨a, false⟩ = .ok (bit, p', rc', rd')) :
    rd'.bad = false ∧
      rc.range * 256 ^ a.length * 253921 ≤ rc'.range * 256 ^ rd'.rem.length * 2 ^ 24 := by
  rw [decodeBit_factor] at h
  cases hpre : decPre u p rc with
  | error e => rw [hpre] at h; cases h
  | ok x =>
    obtain ⟨bit0, p0, rc0⟩ := x
    rw [hpre] at h
    simp only at h
    obtain ⟨g1, g2⟩ := decPre_phi hp hrc hpre
    cases hn : RC.normalize rc0 ⟨a, false⟩ with
    | error e => rw [hn] at h; cases h
    | ok y =>
      obtain ⟨rc1, rd1⟩ := y
      rw [hn] at h
      simp only [Except.ok.injEq, Prod.mk.injEq] at h
      obtain ⟨_, _, rfl, rfl⟩ := h
      obtain ⟨n1, n2⟩ := normalize_phi g2 hn
      refine ⟨n1, ?_⟩
      rw [n2]
      calc rc.range * 256 ^ a.length * 253921 = (rc.range * 253921) * 256 ^ a.length := by ac_rfl
        _ ≤ (rc0.range * 16777216) * 256 ^ a.length := Nat.mul_le_mul_right _ g1
        _ = rc0.range * 256 ^ a.length * 2 ^ 24 := by
          have : (16777216 : Nat) = 2 ^ 24 := by decide
          rw [this]; ac_rfl

theorem decodeBit_eof {u : Bool} {p : Nat} {rc : RC} {a : Bytes} (hp : PVal p) (hrc : RCInv rc)
    (h : RC.decodeBit u p rc ⟨a, false⟩ = .error .eof) :
    a = [] ∧ ∃ r0, r0 < 2 ^ 24 ∧ rc.range * 253921 ≤ r0 * 2 ^ 24 := by
  rw [decodeBit_factor] at h
  cases hpre : decPre u p rc with
  | error e =>
    rw [hpre] at h
    simp only [Except.error.injEq] at h
    exact absurd h (decPre_err hpre)
  | ok x =>
    obtain ⟨bit0, p0, rc0⟩ := x
    rw [hpre] at h
    simp only at h
    obtain ⟨g1, _⟩ := decPre_phi hp hrc hpre
    cases hn : RC.normalize rc0 ⟨a, false⟩ with
    | error e =>
      obtain ⟨n1, n2⟩ := normalize_eof hn
      exact ⟨n2, rc0.range, by simpa using n1, by simpa using g1⟩
    | ok y => obtain ⟨rc1, rd1⟩ := y; rw [hn] at h; cases h

theorem getBit_phi {rc rc' : RC} {a : Bytes} {rd' : Rd} {bit : Bool} (hrc : RCInv rc)
    (h : RC.getBit rc ⟨a, false⟩ = .ok (bit, rc', rd')) :
    rd'.bad = false ∧
      rc.range * 256 ^ a.length * 16777215 ≤ rc'.range * 256 ^ rd'.rem.length * 2 ^ 25 := by
  obtain ⟨h1, h2, _⟩ := hrc
  unfold RC.getBit at h
  simp only [bind, Except.bind, pure, Except.pure] at h
  have hr : rc.range >>> 1 = rc.range / 2 := by simp [Nat.shiftRight_eq_div_pow]
  rw [hr] at h
  split at h
  · cases h
  · rename_i x hn
    obtain ⟨rc1, rd1⟩ := x
    simp only [Except.ok.injEq, Prod.mk.injEq] at h
    obtain ⟨_, rfl, rfl⟩ := h
    obtain ⟨n1, n2⟩ := normalize_phi (rc0 := ⟨rc.range / 2, _⟩) (by show rc.range / 2 < 4294967296; omega) hn
    refine ⟨n1, ?_⟩
    rw [n2]
    show rc.range * 256 ^ a.length * 16777215 ≤ rc.range / 2 * 256 ^ a.length * 2 ^ 25
    have g : rc.range * 16777215 ≤ rc.range / 2 * 33554432 := by omega
    calc rc.range * 256 ^ a.length * 16777215 = (rc.range * 16777215) * 256 ^ a.length := by ac_rfl
      _ ≤ (rc.range / 2 * 33554432) * 256 ^ a.length := Nat.mul_le_mul_right _ g
      _ = rc.range / 2 * 256 ^ a.length * 2 ^ 25 := by
        have : (33554432 : Nat) = 2 ^ 25 := by decide
        rw [this]; ac_rfl

theorem getBit_eof {rc : RC} {a : Bytes} {e : Err} (hrc : RCInv rc)
    (h : RC.getBit rc ⟨a, false⟩ = .error e) :
    a = [] ∧ ∃ r0, r0 < 2 ^ 24 ∧ rc.range * 16777215 ≤ r0 * 2 ^ 25 := by
  obtain ⟨h1, h2, _⟩ := hrc
  unfold RC.getBit at h
  simp only [bind, Except.bind, pure, Except.pure] at h
  have hr : rc.range >>> 1 = rc.range / 2 := by simp [Nat.shiftRight_eq_div_pow]
  rw [hr] at h
  split at h
  · rename_i e' hn
    obtain ⟨n1, n2⟩ := normalize_eof hn
    refine ⟨n2, rc.range / 2, by simpa using n1, ?_⟩
    have : (2 : Nat) ^ 25 = 33554432 := by decide
    rw [this]; omega
  · cases h

/-! ## failing reads of the probability tables are panics, not `eof` -/

theorem arrGet_err {a : Array Nat} {i : Nat} {e : Err} (h : arrGet a i = .error e) : e ≠ .eof := by
  intro he; subst he
  unfold arrGet oob at h
  split at h <;> cases h

theorem lenGet_err {l : LenProbs} {i : PIdx} {e : Err} (h : l.get i = .error e) : e ≠ .eof := by
  intro he; subst he
  cases i <;> simp only [LenProbs.get, oob] at h <;> first
    | (cases h; done)
    | exact arrGet_err h rfl
    | (split at h <;> first | exact arrGet_err h rfl | (cases h; done))

theorem probs_get_err {p : Probs} {i : PIdx} {e : Err} (h : p.get i = .error e) : e ≠ .eof := by
  intro he; subst he
  cases i with
  | lit row col =>
    simp only [Probs.get, oob] at h
    split at h
    · exact arrGet_err h rfl
    · cases h
  | posSlot ls t =>
    simp only [Probs.get, oob] at h
    split at h
    · exact arrGet_err h rfl
    · cases h
  | align t => exact arrGet_err h rfl
  | posDec i => exact arrGet_err h rfl
  | isMatch i => exact arrGet_err h rfl
  | isRep i => exact arrGet_err h rfl
  | isRepG0 i => exact arrGet_err h rfl
  | isRepG1 i => exact arrGet_err h rfl
  | isRepG2 i => exact arrGet_err h rfl
  | isRep0Long i => exact arrGet_err h rfl
  | lenChoice rep => simp only [Probs.get] at h; exact lenGet_err h rfl
  | lenChoice2 rep => simp only [Probs.get] at h; exact lenGet_err h rfl
  | lenLow rep ps t => simp only [Probs.get] at h; exact lenGet_err h rfl
  | lenMid rep ps t => simp only [Probs.get] at h; exact lenGet_err h rfl
  | lenHigh rep t => simp only [Probs.get] at h; exact lenGet_err h rfl

/-! ## trees whose every node lies in the region -/

/-- every node reached after `k` probability bits and `d` direct bits (counted
from the root offsets `k`, `d`) satisfies `G`, and no leaf fails with `eof` -/
def Bounded {ι α : Type} : Coder ι α → Nat → Nat → Prop
  | .ret _, _, _ => True
  | .fail e, _, _ => e ≠ .eof
  | .bit _ f, k, d => G (k + 1) d ∧ ∀ b, Bounded (f b) (k + 1) d
  | .direct f, k, d => G k (d + 1) ∧ ∀ b, Bounded (f b) k (d + 1)

/-- **Potential argument.**  On a tree all of whose nodes lie in the region, with
valid tables, a normalised range and potential `Φ = range * 256^(bytes left)` not
below the `J` bound, the decoder never reports `eof`. -/
theorem runDec_no_eof {α : Type} (t : Coder PIdx α) : ∀ (k d : Nat) (p : Probs) (rc : RC) (a : Bytes),
    ProbsInv p → RCInv rc → Bounded t k d → J k d (rc.range * 256 ^ a.length) →
    runDec true t p rc ⟨a, false⟩ ≠ .error .eof := by
  induction t with
  | ret v => intro k d p rc a _ _ _ _ h; simp [runDec] at h
  | fail e =>
    intro k d p rc a _ _ hb _ h
    simp only [runDec, Except.error.injEq] at h
    exact hb h
  | bit i f ih =>
    intro k d p rc a hp hrc hb hJ h
    obtain ⟨hG, hbf⟩ := hb
    simp only [runDec] at h
    cases hg : ProbStore.get p i with
    | error e =>
      rw [hg] at h
      simp only [Except.error.injEq] at h
      exact probs_get_err (p := p) hg h
    | ok v =>
      rw [hg] at h
      simp only at h
      have hv : PVal v := probs_get_pval hp hg
      cases hd : RC.decodeBit true v rc ⟨a, false⟩ with
      | error e =>
        rw [hd] at h
        simp only [Except.error.injEq] at h
        subst h
        obtain ⟨ha, r0, hr0, hr1⟩ := decodeBit_eof hv hrc hd
        subst ha
        have hJ' : J (k + 1) d r0 := J_prob hJ (by simpa using hr1)
        have := J_ge hJ' (G_ineq hG)
        omega
      | ok y =>
        obtain ⟨bit, p', rc', rd'⟩ := y
        rw [hd] at h
        simp only [if_true] at h
        have hsafe := decodeBit_safe true v rc ⟨a, false⟩ hv hrc
        rw [hd] at hsafe
        obtain ⟨hpv, hrc', _, _⟩ := hsafe
        obtain ⟨hbad, hphi⟩ := decodeBit_phi hv hrc hd
        obtain ⟨a', _⟩ := rd'
        simp only at hbad hphi
        subst hbad
        exact ih bit (k + 1) d _ rc' a' (Probs.set_inv hp hpv i).1 hrc' (hbf bit) (J_prob hJ hphi) h
  | direct f ih =>
    intro k d p rc a hp hrc hb hJ h
    obtain ⟨hG, hbf⟩ := hb
    simp only [runDec] at h
    cases hd : RC.getBit rc ⟨a, false⟩ with
    | error e =>
      obtain ⟨ha, r0, hr0, hr1⟩ := getBit_eof hrc hd
      subst ha
      have hJ' : J k (d + 1) r0 := J_direct hJ (by simpa using hr1)
      have := J_ge hJ' (G_ineq hG)
      omega
    | ok y =>
      obtain ⟨bit, rc', rd'⟩ := y
      rw [hd] at h
      simp only at h
      have hsafe := getBit_safe rc ⟨a, false⟩ hrc
      rw [hd] at hsafe
      obtain ⟨hrc', _, _⟩ := hsafe
      obtain ⟨hbad, hphi⟩ := getBit_phi hrc hd
      obtain ⟨a', _⟩ := rd'
      simp only at hbad hphi
      subst hbad
      exact ih bit k (d + 1) p rc' a' hp hrc' (hbf bit) (J_direct hJ hphi) h

theorem Bounded.mono {ι α : Type} {t : Coder ι α} : ∀ {k d k' d' : Nat}, Bounded t k d → k' ≤ k → d' ≤ d →
    Bounded t k' d' := by
  induction t with
  | ret v => intros; trivial
  | fail e => intro k d k' d' h _ _; exact h
  | bit i f ih =>
    intro k d k' d' h hk hd
    exact ⟨G_mono (by omega) hd h.1, fun b => ih b (h.2 b) (by omega) hd⟩
  | direct f ih =>
    intro k d k' d' h hk hd
    exact ⟨G_mono hk (by omega) h.1, fun b => ih b (h.2 b) hk (by omega)⟩

theorem Bounded.map {ι α β : Type} {t : Coder ι α} (g : α → β) : ∀ {k d : Nat}, Bounded t k d →
    Bounded (t.map g) k d := by
  induction t with
  | ret v => intros; trivial
  | fail e => intro k d h; exact h
  | bit i f ih => intro k d h; exact ⟨h.1, fun b => ih b (h.2 b)⟩
  | direct f ih => intro k d h; exact ⟨h.1, fun b => ih b (h.2 b)⟩

/-- a tree of probability bits only, of depth at most `n`, whose returned values satisfy `Q` -/
def PDepth {ι α : Type} (Q : α → Prop) : Coder ι α → Nat → Prop
  | .ret a, _ => Q a
  | .fail e, _ => e ≠ .eof
  | .bit _ f, n + 1 => ∀ b, PDepth Q (f b) n
  | .bit _ _, 0 => False
  | .direct _, _ => False

theorem PDepth.mono {ι α : Type} {Q Q' : α → Prop} {t : Coder ι α} (hq : ∀ a, Q a → Q' a) :
    ∀ {n n' : Nat}, PDepth Q t n → n ≤ n' → PDepth Q' t n' := by
  induction t with
  | ret v => intro n n' h _; exact hq v h
  | fail e => intro n n' h _; exact h
  | bit i f ih =>
    intro n n' h hn
    cases n with
    | zero => exact h.elim
    | succ n =>
      cases n' with
      | zero => omega
      | succ n' => exact fun b => ih b (h b) (by omega)
  | direct f ih => intro n n' h _; exact h.elim

theorem PDepth.bind {ι α β : Type} {Q : α → Prop} {Q' : β → Prop} {t : Coder ι α} {f : α → Coder ι β}
    {m : Nat} (hf : ∀ a, Q a → PDepth Q' (f a) m) : ∀ {n : Nat}, PDepth Q t n → PDepth Q' (t.bind f) (n + m) := by
  induction t with
  | ret v => intro n h; exact (hf v h).mono (fun _ x => x) (by omega)
  | fail e => intro n h; exact h
  | bit i g ih =>
    intro n h
    cases n with
    | zero => exact h.elim
    | succ n =>
      have : n + 1 + m = (n + m) + 1 := by omega
      rw [this]
      exact fun b => ih b (h b)
  | direct g ih => intro n h; exact h.elim

theorem PDepth.map {ι α β : Type} {Q : α → Prop} {Q' : β → Prop} {t : Coder ι α} {g : α → β}
    (hg : ∀ a, Q a → Q' (g a)) {n : Nat} (h : PDepth Q t n) : PDepth Q' (t.map g) n := by
  have := PDepth.bind (Q' := Q') (f := fun a => Coder.ret (g a)) (m := 0) (fun a ha => hg a ha) h
  simpa [Coder.map] using this

/-- a depth-bounded probability tree followed by anything bounded -/
theorem Bounded_bind_pdepth {ι α β : Type} {Q : α → Prop} {t : Coder ι α} {f : α → Coder ι β} :
    ∀ {n k d : Nat}, PDepth Q t n → G (k + n) d → (∀ a, Q a → Bounded (f a) (k + n) d) →
    Bounded (t.bind f) k d := by
  induction t with
  | ret v => intro n k d h _ hf; exact (hf v h).mono (by omega) (Nat.le_refl _)
  | fail e => intro n k d h _ _; exact h
  | bit i g ih =>
    intro n k d h hG hf
    cases n with
    | zero => exact h.elim
    | succ n =>
      refine ⟨G_mono (by omega) (Nat.le_refl _) hG, fun b => ?_⟩
      refine ih b (h b) ?_ ?_
      · have : k + 1 + n = k + (n + 1) := by omega
        rw [this]; exact hG
      · intro a ha
        have : k + 1 + n = k + (n + 1) := by omega
        rw [this]; exact hf a ha
  | direct g ih => intro n k d h _ _; exact h.elim

theorem Bounded_of_pdepth {ι α : Type} {Q : α → Prop} {t : Coder ι α} {n k d : Nat}
    (h : PDepth Q t n) (hG : G (k + n) d) : Bounded t k d := by
  have := Bounded_bind_pdepth (f := fun a => (Coder.ret a : Coder ι α)) h hG (fun _ _ => trivial)
  have e : t.bind (fun a => (Coder.ret a : Coder ι α)) = t := by
    clear this h
    induction t with
    | ret v => rfl
    | fail e => rfl
    | bit i g ih => simp only [Coder.bind]; congr; funext b; exact ih b
    | direct g ih => simp only [Coder.bind]; congr; funext b; exact ih b
  rw [e] at this
  exact this

/-! ## the trees of the symbol decoder -/

theorem subChk_err {what : String} {a b : Nat} {e : Err} (h : subChk what a b = .error e) : e ≠ .eof := by
  unfold subChk at h
  split at h
  · cases h
  · cases h; simp

theorem pdepth_ofExcept_subChk {ι : Type} (what : String) (a b : Nat) (Q : Nat → Prop)
    (hq : b ≤ a → Q (a - b)) : PDepth Q (Coder.ofExcept (subChk what a b) : Coder ι Nat) 0 := by
  cases h : subChk what a b with
  | error e => exact subChk_err h
  | ok v =>
    unfold subChk at h
    split at h
    · cases h; rename_i hle; exact hq hle
    · cases h

theorem bitTreeAux_pdepth {ι : Type} (mk : Nat → ι) : ∀ (n tmp : Nat),
    PDepth (fun v => tmp * 2 ^ n ≤ v ∧ v < (tmp + 1) * 2 ^ n) (bitTreeAux mk n tmp) n
  | 0, tmp => by simp [bitTreeAux, PDepth]
  | n + 1, tmp => by
    simp only [bitTreeAux, PDepth]
    intro b
    refine (bitTreeAux_pdepth mk n (2 * tmp + b.toNat)).mono ?_ (Nat.le_refl _)
    intro v ⟨h1, h2⟩
    have hb : b.toNat ≤ 1 := by cases b <;> simp
    rw [Nat.pow_succ]
    constructor
    · calc tmp * (2 ^ n * 2) = (2 * tmp) * 2 ^ n := by ac_rfl
        _ ≤ (2 * tmp + b.toNat) * 2 ^ n := Nat.mul_le_mul_right _ (by omega)
        _ ≤ v := h1
    · calc v < (2 * tmp + b.toNat + 1) * 2 ^ n := h2
        _ ≤ (2 * (tmp + 1)) * 2 ^ n := Nat.mul_le_mul_right _ (by omega)
        _ = (tmp + 1) * (2 ^ n * 2) := by ac_rfl

theorem bitTree_pdepth {ι : Type} (mk : Nat → ι) (n : Nat) :
    PDepth (fun v => v < 2 ^ n) (bitTree mk n) n := by
  unfold bitTree
  have := PDepth.bind (Q' := fun v => v < 2 ^ n) (m := 0)
    (f := fun tmp => (Coder.ofExcept (subChk "parse_bit_tree: tmp - (1 << num_bits)" tmp (1 <<< n)) : Coder ι Nat))
    (fun tmp ⟨h1, h2⟩ => pdepth_ofExcept_subChk _ _ _ _ (fun _ => by
      rw [Nat.shiftLeft_eq, Nat.one_mul]
      simp only [Nat.one_mul] at h1
      have : (1 + 1) * 2 ^ n = 2 ^ n + 2 ^ n := by rw [Nat.add_mul, Nat.one_mul]
      omega))
    (bitTreeAux_pdepth mk n 1)
  simpa using this

theorem revBitTreeAux_pdepth {ι : Type} (mk : Nat → ι) (off : Nat) : ∀ (n i tmp res : Nat),
    PDepth (fun _ => True) (revBitTreeAux mk off n i tmp res) n
  | 0, _, _, _ => by simp [revBitTreeAux, PDepth]
  | n + 1, i, tmp, res => by
    simp only [revBitTreeAux, PDepth]
    intro b
    exact revBitTreeAux_pdepth mk off n _ _ _

theorem revBitTree_pdepth {ι : Type} (mk : Nat → ι) (off n : Nat) :
    PDepth (fun _ => True) (revBitTree mk off n) n :=
  revBitTreeAux_pdepth mk off n 0 1 0

theorem lenTree_pdepth (rep : Bool) (ps : Nat) : PDepth (fun _ => True) (lenTree rep ps) 10 := by
  unfold lenTree
  simp only [PDepth]
  intro b
  cases b
  · simp only [Bool.not_false, if_true]
    exact (bitTree_pdepth _ 3).mono (fun _ _ => trivial) (by omega)
  · simp only [Bool.not_true, Bool.false_eq_true, if_false, PDepth]
    intro b
    cases b
    · simp only [Bool.not_false, if_true]
      exact ((bitTree_pdepth _ 3).map (Q' := fun _ => True) (fun _ _ => trivial)).mono (fun _ x => x) (by omega)
    · simp only [Bool.not_true, Bool.false_eq_true, if_false]
      exact (bitTree_pdepth _ 8).map (Q' := fun _ => True) (fun _ _ => trivial)

theorem litPlain_pdepth (row : Nat) : ∀ (fuel result : Nat),
    PDepth (fun _ => True) (litPlain row fuel result) fuel
  | 0, result => by
    simp only [litPlain]
    split
    · simp [PDepth]
    · trivial
  | fuel + 1, result => by
    simp only [litPlain]
    split
    · simp only [PDepth]
      intro b
      exact litPlain_pdepth row fuel _
    · trivial

theorem litMatched_pdepth (row : Nat) : ∀ (fuel mb result : Nat),
    PDepth (fun _ => True) (litMatched row fuel mb result) fuel
  | 0, mb, result => by
    simp only [litMatched]
    split
    · simp [PDepth]
    · trivial
  | fuel + 1, mb, result => by
    simp only [litMatched]
    split
    · simp only [PDepth]
      intro b
      split
      · exact litPlain_pdepth row fuel _
      · exact litMatched_pdepth row fuel _ _
    · trivial

theorem Bounded_bind_directBits {ι β : Type} {f : Nat → Coder ι β} : ∀ (n acc k d : Nat),
    G k (d + n) → (∀ a, Bounded (f a) k (d + n)) → Bounded ((directBits n acc : Coder ι Nat).bind f) k d
  | 0, acc, k, d, _, hf => by simpa [directBits, Coder.bind] using hf acc
  | n + 1, acc, k, d, hG, hf => by
    simp only [directBits, Coder.bind, Bounded]
    refine ⟨G_mono (Nat.le_refl _) (by omega) hG, fun b => ?_⟩
    refine Bounded_bind_directBits n _ k (d + 1) ?_ ?_
    · have : d + 1 + n = d + (n + 1) := by omega
      rw [this]; exact hG
    · intro a
      have : d + 1 + n = d + (n + 1) := by omega
      rw [this]; exact hf a

theorem distTree_bounded (len : Nat) : Bounded (distTree len) 12 0 := by
  unfold distTree
  simp only
  refine Bounded_bind_pdepth (bitTree_pdepth _ 6) (by unfold G; omega) ?_
  intro posSlot hps
  have hps' : posSlot < 64 := hps
  show Bounded _ 18 0
  split
  · trivial
  · rename_i h4
    have hnd : posSlot >>> 1 = posSlot / 2 := by simp [Nat.shiftRight_eq_div_pow]
    split
    · rename_i h14
      split
      · rename_i e he
        exact subChk_err he
      · refine Bounded.map _ (Bounded_of_pdepth (revBitTree_pdepth _ _ _) ?_)
        rw [hnd]; unfold G; omega
    · rename_i h14
      refine Bounded_bind_directBits _ _ _ _ ?_ ?_
      · rw [hnd]; unfold G; omega
      · intro a
        refine Bounded.map _ (Bounded_of_pdepth (revBitTree_pdepth _ _ _) ?_)
        rw [hnd]; unfold G; omega

theorem symTree_bounded (c : Ctx) (h1 : c.litRow ≠ .error .eof) (h2 : c.matchByte ≠ .error .eof) :
    Bounded (symTree c) 0 0 := by
  unfold symTree
  refine ⟨by unfold G; omega, fun b => ?_⟩
  cases b
  · -- literal
    simp only [Bool.not_false, if_true]
    cases hr : c.litRow with
    | error e => exact fun he => h1 (by rw [hr, he])
    | ok row =>
      simp only
      have ht : PDepth (fun _ => True)
          (if c.state ≥ 7 then
            match c.matchByte with
            | .error e => .fail e
            | .ok mb => litMatched row 8 mb 1
          else litPlain row 8 1 : Coder PIdx Nat) 8 := by
        split
        · cases hm : c.matchByte with
          | error e => exact fun he => h2 (by rw [hm, he])
          | ok mb => exact litMatched_pdepth row 8 mb 1
        · exact litPlain_pdepth row 8 1
      refine Bounded_bind_pdepth ht (by unfold G; omega) ?_
      intro result _
      split
      · rename_i e he; exact subChk_err he
      · trivial
  · simp only [Bool.not_true, Bool.false_eq_true, if_false]
    refine ⟨by unfold G; omega, fun b => ?_⟩
    cases b
    · -- match
      simp only [Bool.false_eq_true, if_false]
      refine Bounded_bind_pdepth (lenTree_pdepth false _) (by unfold G; omega) ?_
      intro len _
      exact Bounded.map _ (distTree_bounded len)
    · simp only [if_true]
      refine ⟨by unfold G; omega, fun b => ?_⟩
      cases b
      · simp only [Bool.not_false, if_true]
        refine ⟨by unfold G; omega, fun b => ?_⟩
        cases b
        · trivial
        · exact Bounded.map _ (Bounded_of_pdepth (lenTree_pdepth true _) (by unfold G; omega))
      · simp only [Bool.not_true, Bool.false_eq_true, if_false]
        refine ⟨by unfold G; omega, fun b => ?_⟩
        cases b
        · exact Bounded.map _ (Bounded_of_pdepth (lenTree_pdepth true _) (by unfold G; omega))
        · refine ⟨by unfold G; omega, fun b => ?_⟩
          cases b
          · exact Bounded.map _ (Bounded_of_pdepth (lenTree_pdepth true _) (by unfold G; omega))
          · exact Bounded.map _ (Bounded_of_pdepth (lenTree_pdepth true _) (by unfold G; omega))

/-- **The 20-byte bound holds.** -/
theorem need20 : Need20 := by
  intro c p rc a h1 h2 hp hrc hlen
  refine runDec_no_eof (symTree c) 0 0 p rc a hp hrc (symTree_bounded c h1 h2) (J_init ?_)
  have hr := hrc.1
  have hpow : 256 ^ 20 ≤ 256 ^ a.length := Nat.pow_le_pow_right (by omega) hlen
  have h184 : (2 : Nat) ^ 184 = 16777216 * 256 ^ 20 := by decide
  rw [h184]
  exact Nat.mul_le_mul hr hpow

end StreamEq
end Lzma
