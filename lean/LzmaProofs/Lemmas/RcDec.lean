/-
  The range DECODER: evaluation lemmas for `normalize`, `decode_bit`, `get_bit`,
  absence of panics, range/probability invariants and progress.
-/
import LzmaProofs.Lemmas.RcStep
namespace Lzma
open RcArith

theorem rc_except_ok_bind {ε α β : Type} (a : α) (f : α → Except ε β) :
    ((Except.ok a : Except ε α) >>= f) = f a := rfl

theorem rc_except_pure_bind {ε α β : Type} (a : α) (f : α → Except ε β) :
    ((pure a : Except ε α) >>= f) = f a := rfl

namespace RC

theorem normalize_ge (rc : RC) (rd : Rd) (h : 16777216 ≤ rc.range) :
    RC.normalize rc rd = .ok (rc, rd) := by
  have : ¬ rc.range < 0x01000000 := by omega
  simp [RC.normalize, this]; rfl

theorem normalize_lt (rc : RC) (rd : Rd) (b : UInt8) (rest : Bytes) (h : rc.range < 16777216)
    (hc : rc.code < 16777216) (hrem : rd.rem = b :: rest) :
    RC.normalize rc rd =
      .ok ({ range := rc.range * 256, code := rc.code * 256 + b.toNat }, { rd with rem := rest }) := by
  have h0 : rc.range < 0x01000000 := h
  have hr : rd.readU8 = .ok (b, { rd with rem := rest }) := by
    simp [Rd.readU8, hrem]
  simp only [RC.normalize, h0, if_true, hr, rc_except_ok_bind]
  rw [shlU32_eq _ h, shlU32_eq _ hc, xor_byte _ _ b.toNat_lt]
  rfl

theorem normalize_eof (rc : RC) (rd : Rd) (h : rc.range < 16777216) (hrem : rd.rem = []) :
    RC.normalize rc rd = .error rd.endErr := by
  have h0 : rc.range < 0x01000000 := h
  have hr : rd.readU8 = .error rd.endErr := by simp [Rd.readU8, hrem]
  simp only [RC.normalize, h0, if_true, hr]
  rfl

/-- `decode_bit`, branch 0 -/
theorem decodeBit_false (u : Bool) (p : Nat) (rc : RC) (rd : Rd) (res : Except Err (RC × Rd))
    (hb : (rc.range >>> 11) * p < 4294967296) (hp : p ≤ 2048)
    (hlt : rc.code < (rc.range >>> 11) * p)
    (hn : RC.normalize { range := (rc.range >>> 11) * p, code := rc.code } rd = res) :
    RC.decodeBit u p rc rd = res.map (fun x => (false, if u then updP p false else p, x.1, x.2)) := by
  have h1 : mulChk U32 "decode_bit: bound overflow" (rc.range >>> 11) p = .ok ((rc.range >>> 11) * p) := by
    simp [mulChk, U32, hb]
  have h2 : subChk "decode_bit: 0x800 - prob" 0x800 p = .ok (0x800 - p) := by
    simp [subChk, hp]
  have h3 : addChk U16 "decode_bit: prob += overflow" p ((0x800 - p) >>> 5) = .ok (p + ((0x800 - p) >>> 5)) := by
    have : p + (2048 - p) >>> 5 < U16 := by
      rw [Nat.shiftRight_eq_div_pow]; unfold U16; omega
    simp [addChk, this]
  unfold RC.decodeBit
  rw [h1]
  cases u
  · simp only [rc_except_ok_bind, rc_except_pure_bind, hlt, if_true, Bool.false_eq_true, if_false, hn]
    cases res <;> rfl
  · simp only [rc_except_ok_bind, hlt, if_true, h2, h3, hn]
    cases res <;> rfl

/-- `decode_bit`, branch 1 -/
theorem decodeBit_true (u : Bool) (p : Nat) (rc : RC) (rd : Rd) (res : Except Err (RC × Rd))
    (hb : (rc.range >>> 11) * p < 4294967296)
    (hge : (rc.range >>> 11) * p ≤ rc.code) (hr : (rc.range >>> 11) * p ≤ rc.range)
    (hn : RC.normalize { range := rc.range - (rc.range >>> 11) * p,
                         code := rc.code - (rc.range >>> 11) * p } rd = res) :
    RC.decodeBit u p rc rd = res.map (fun x => (true, if u then updP p true else p, x.1, x.2)) := by
  have h1 : mulChk U32 "decode_bit: bound overflow" (rc.range >>> 11) p = .ok ((rc.range >>> 11) * p) := by
    simp [mulChk, U32, hb]
  have h2 : subChk "decode_bit: code -= bound" rc.code ((rc.range >>> 11) * p)
      = .ok (rc.code - (rc.range >>> 11) * p) := by simp [subChk, hge]
  have h3 : subChk "decode_bit: range -= bound" rc.range ((rc.range >>> 11) * p)
      = .ok (rc.range - (rc.range >>> 11) * p) := by simp [subChk, hr]
  have hlt : ¬ rc.code < (rc.range >>> 11) * p := by omega
  unfold RC.decodeBit
  rw [h1]
  simp only [rc_except_ok_bind, hlt, if_false, h2, h3, hn]
  cases u <;> cases res <;> rfl

theorem getBit_eq (rc : RC) (rd : Rd) :
    RC.getBit rc rd =
      (RC.normalize { range := rc.range >>> 1,
                      code := if rc.range >>> 1 ≤ rc.code then rc.code - rc.range >>> 1 else rc.code } rd).map
        (fun x => (decide (rc.range >>> 1 ≤ rc.code), x.1, x.2)) := by
  unfold RC.getBit
  simp only [ge_iff_le, decide_eq_true_eq]
  cases RC.normalize _ rd <;> rfl

/-! ## no panics, invariants, progress -/

theorem bound_le (range p : Nat) (hp : p ≤ 2048) : (range >>> 11) * p ≤ range := by
  rw [Nat.shiftRight_eq_div_pow]
  have h1 : range / 2 ^ 11 * p ≤ range / 2 ^ 11 * 2048 := Nat.mul_le_mul_left _ hp
  omega

/-- what `normalize` can do -/
theorem normalize_cases (rc : RC) (rd : Rd) :
    (16777216 ≤ rc.range ∧ RC.normalize rc rd = .ok (rc, rd)) ∨
    (rc.range < 16777216 ∧ rd.rem = [] ∧ RC.normalize rc rd = .error rd.endErr) ∨
    (rc.range < 16777216 ∧ ∃ b rest, rd.rem = b :: rest ∧
      RC.normalize rc rd = .ok ({ range := rc.range * 256, code := shlU32 rc.code 8 ^^^ b.toNat },
        { rd with rem := rest })) := by
  by_cases h : 16777216 ≤ rc.range
  · exact .inl ⟨h, normalize_ge rc rd h⟩
  · have h' : rc.range < 16777216 := by omega
    have h0 : rc.range < 0x01000000 := h'
    cases hrem : rd.rem with
    | nil => exact .inr (.inl ⟨h', rfl, normalize_eof rc rd h' hrem⟩)
    | cons b rest =>
      refine .inr (.inr ⟨h', b, rest, rfl, ?_⟩)
      have hr : rd.readU8 = .ok (b, { rd with rem := rest }) := by simp [Rd.readU8, hrem]
      simp only [RC.normalize, h0, if_true, hr, rc_except_ok_bind]
      rw [shlU32_eq _ h']
      rfl

theorem endErr_ne_panic (rd : Rd) (s : String) : rd.endErr ≠ .panic s := by
  unfold Rd.endErr; split <;> simp

theorem normalize_no_panic (rc : RC) (rd : Rd) (s : String) :
    RC.normalize rc rd ≠ .error (.panic s) := by
  rcases normalize_cases rc rd with ⟨_, h⟩ | ⟨_, _, h⟩ | ⟨_, b, rest, _, h⟩ <;> rw [h] <;> simp
  exact endErr_ne_panic rd s

/-- `decode_bit` as one normalisation of the narrowed state -/
theorem decodeBit_spec (u : Bool) (p : Nat) (rc : RC) (rd : Rd) (hp : p ≤ 2048)
    (hr : rc.range < 4294967296) :
    RC.decodeBit u p rc rd =
      (RC.normalize
        (if rc.code < (rc.range >>> 11) * p then { range := (rc.range >>> 11) * p, code := rc.code }
         else { range := rc.range - (rc.range >>> 11) * p, code := rc.code - (rc.range >>> 11) * p }) rd).map
        (fun x => (decide ((rc.range >>> 11) * p ≤ rc.code),
          if u then updP p (decide ((rc.range >>> 11) * p ≤ rc.code)) else p, x.1, x.2)) := by
  have hb := bound_le rc.range p hp
  by_cases hlt : rc.code < (rc.range >>> 11) * p
  · have hd : decide ((rc.range >>> 11) * p ≤ rc.code) = false := by simp; omega
    rw [if_pos hlt, hd]
    exact decodeBit_false u p rc rd _ (by omega) hp hlt rfl
  · have hd : decide ((rc.range >>> 11) * p ≤ rc.code) = true := by simp; omega
    rw [if_neg hlt, hd]
    exact decodeBit_true u p rc rd _ (by omega) (by omega) hb rfl

theorem map_ne_panic {α β : Type} {r : Except Err α} {f : α → β} {s : String}
    (h : r ≠ .error (.panic s)) : r.map f ≠ .error (.panic s) := by
  cases r with
  | ok a => simp [Except.map]
  | error e => simpa [Except.map] using h

/-- **`decode_bit` never panics** (for a probability `≤ 0x800` and a `u32` range): the three
checked operations succeed; the only possible errors are the reader's EOF / I/O error. -/
theorem decodeBit_no_panic (u : Bool) (p : Nat) (rc : RC) (rd : Rd) (hp : p ≤ 2048)
    (hr : rc.range < 4294967296) (s : String) :
    RC.decodeBit u p rc rd ≠ .error (.panic s) := by
  rw [decodeBit_spec u p rc rd hp hr]
  exact map_ne_panic (normalize_no_panic _ _ _)

/-- **`get_bit` never panics.** -/
theorem getBit_no_panic (rc : RC) (rd : Rd) (s : String) :
    RC.getBit rc rd ≠ .error (.panic s) := by
  rw [getBit_eq]
  exact map_ne_panic (normalize_no_panic _ _ _)

theorem map_eq_ok {α β : Type} {r : Except Err α} {f : α → β} {y : β} (h : r.map f = .ok y) :
    ∃ x, r = .ok x ∧ f x = y := by
  cases r with
  | ok a => exact ⟨a, rfl, by simpa [Except.map] using h⟩
  | error e => simp [Except.map] at h

/-- normalisation of a narrowed state of width at least `2^16`: range back in
`[2^24, 2^32)`; either nothing is read (and the width did not grow) or exactly one byte is read -/
theorem normalize_ok_inv {m rc' : RC} {rd rd' : Rd} (hlo : 65536 ≤ m.range)
    (hhi : m.range < 4294967296) (h : RC.normalize m rd = .ok (rc', rd')) :
    16777216 ≤ rc'.range ∧ rc'.range < 4294967296 ∧ rd'.bad = rd.bad ∧
    (m.code < m.range → rc'.code < rc'.range) ∧
    ((rd' = rd ∧ rc' = m) ∨ (m.range < 16777216 ∧ ∃ x, rd.rem = x :: rd'.rem)) := by
  rcases normalize_cases m rd with ⟨h1, h2⟩ | ⟨_, _, h2⟩ | ⟨h1, b, rest, hrem, h2⟩
  · rw [h2] at h; cases h
    exact ⟨h1, hhi, rfl, fun h => h, .inl ⟨rfl, rfl⟩⟩
  · rw [h2] at h; cases h
  · rw [h2] at h; cases h
    refine ⟨by simp; omega, by simp; omega, rfl, fun hc => ?_, .inr ⟨h1, b, hrem⟩⟩
    have hc' : m.code < 16777216 := by omega
    have := b.toNat_lt
    simp only [shlU32_eq _ hc', xor_byte _ _ this]
    omega

/-- **Invariants and progress of `decode_bit`** for an admissible probability and a
normalised range. -/
theorem decodeBit_ok_inv {u : Bool} {p : Nat} {rc : RC} {rd : Rd} {b : Bool} {p' : Nat} {rc' : RC}
    {rd' : Rd} (hp : ProbOk p) (hlo : 16777216 ≤ rc.range) (hhi : rc.range < 4294967296)
    (h : RC.decodeBit u p rc rd = .ok (b, p', rc', rd')) :
    16777216 ≤ rc'.range ∧ rc'.range < 4294967296 ∧
    p' = (if u then updP p b else p) ∧ ProbOk p' ∧ rd'.bad = rd.bad ∧
    (rc.code < rc.range → rc'.code < rc'.range) ∧
    ((rd' = rd ∧ rc'.range < rc.range) ∨ (∃ x, rd.rem = x :: rd'.rem)) := by
  obtain ⟨hb1, hb2⟩ := REnc.bound_facts hlo hhi hp
  rw [decodeBit_spec u p rc rd (by have := hp.2; omega) hhi] at h
  obtain ⟨⟨rc1, rd1⟩, hn, hf⟩ := map_eq_ok h
  simp only [Prod.mk.injEq] at hf
  obtain ⟨rfl, rfl, rfl, rfl⟩ := hf
  have hpo : ProbOk (if u then updP p (decide ((rc.range >>> 11) * p ≤ rc.code)) else p) := by
    cases u
    · exact hp
    · exact hp.upd _
  by_cases hlt : rc.code < (rc.range >>> 11) * p
  · rw [if_pos hlt] at hn
    obtain ⟨a1, a2, a3, a4, a5⟩ := normalize_ok_inv (by simpa using hb1) (by simp; omega) hn
    refine ⟨a1, a2, rfl, hpo, a3, fun _ => a4 hlt, ?_⟩
    rcases a5 with ⟨e1, e2⟩ | ⟨_, x⟩
    · left; rw [e2]; exact ⟨e1, by simp; omega⟩
    · right; exact x
  · rw [if_neg hlt] at hn
    obtain ⟨a1, a2, a3, a4, a5⟩ := normalize_ok_inv (by simp; omega) (by simp; omega) hn
    refine ⟨a1, a2, rfl, hpo, a3, fun hc => a4 (by simp; omega), ?_⟩
    rcases a5 with ⟨e1, e2⟩ | ⟨_, x⟩
    · left; rw [e2]; exact ⟨e1, by simp; omega⟩
    · right; exact x

/-- **Invariants and progress of `get_bit`** for a normalised range. -/
theorem getBit_ok_inv {rc : RC} {rd : Rd} {b : Bool} {rc' : RC} {rd' : Rd}
    (hlo : 16777216 ≤ rc.range) (hhi : rc.range < 4294967296)
    (h : RC.getBit rc rd = .ok (b, rc', rd')) :
    16777216 ≤ rc'.range ∧ rc'.range < 4294967296 ∧ rd'.bad = rd.bad ∧
    ((rd' = rd ∧ rc'.range < rc.range) ∨ (∃ x, rd.rem = x :: rd'.rem)) := by
  rw [getBit_eq] at h
  obtain ⟨⟨rc1, rd1⟩, hn, hf⟩ := map_eq_ok h
  simp only [Prod.mk.injEq] at hf
  obtain ⟨rfl, rfl, rfl⟩ := hf
  have hs : rc.range >>> 1 = rc.range / 2 := by rw [Nat.shiftRight_eq_div_pow]
  obtain ⟨a1, a2, a3, a4, a5⟩ := normalize_ok_inv (by simp; omega) (by simp; omega) hn
  refine ⟨a1, a2, a3, ?_⟩
  rcases a5 with ⟨e1, e2⟩ | ⟨_, x⟩
  · left; rw [e2]; exact ⟨e1, by simp; omega⟩
  · right; exact x

/-- `get_bit` does not preserve `code < range` when `range` is odd (such a state is
unreachable from a conforming encoder, see `RcSim`) -/
example : RC.getBit { range := 0x01000001, code := 0x01000000 } { rem := [0] }
    = .ok (true, { range := 0x80000000, code := 0x80000000 }, { rem := [] }) := by rfl

/-- with an inadmissible probability the decoder's single-shift `normalize` does
not restore `range ≥ 2^24` (this is why `ProbOk` is `31 ≤ p ≤ 2017`, the set closed
under the update rule, and not merely `0 < p < 0x800`) -/
example : RC.decodeBit true 1 { range := 0x01000000, code := 0 } { rem := [0] }
    = .ok (false, 64, { range := 0x200000, code := 0 }, { rem := [] }) := by rfl

end RC
end Lzma
