/-
  Basic rewriting lemmas for the `M` monad (shared by all proof files).
-/
import LzmaModel
namespace Lzma

@[simp] theorem M.pure_run (a : α) (s : Sink) : (M.pure a : M α) s = (s, .ok a) := rfl
@[simp] theorem pure_run (a : α) (s : Sink) : (pure a : M α) s = (s, .ok a) := rfl
@[simp] theorem throwM_run (e : Err) (s : Sink) : (throwM e : M α) s = (s, .error e) := rfl
@[simp] theorem liftE_ok (a : α) (s : Sink) : (liftE (.ok a) : M α) s = (s, .ok a) := rfl
@[simp] theorem liftE_error (e : Err) (s : Sink) : (liftE (.error e) : M α) s = (s, .error e) := rfl

theorem bind_run (m : M α) (f : α → M β) (s : Sink) :
    (m >>= f) s = match m s with
      | (s', .ok a) => f a s'
      | (s', .error e) => (s', .error e) := rfl

theorem bind_run_ok {m : M α} {f : α → M β} {s s' : Sink} {a : α} (h : m s = (s', .ok a)) :
    (m >>= f) s = f a s' := by
  simp [bind_run, h]

theorem bind_run_error {m : M α} {f : α → M β} {s s' : Sink} {e : Err} (h : m s = (s', .error e)) :
    (m >>= f) s = (s', .error e) := by
  simp [bind_run, h]

end Lzma
