/-
  End-to-end exactness, part 3: the reference encoder `encodeProg` flattened to ONE event list
  (`progEvents`), totality of the reference encoder on raw-well-formed programs, and
  `ForcesRead`: event lists (like the end marker's) whose coding shifts out at least one byte, so
  that the decoder's reader cannot be exhausted before them.
-/
import LzmaProofs.Lemmas.RangeCoder
import LzmaProofs.Lemmas.DecodeExactStep
import LzmaProofs.Lemmas.SafetyLoop
namespace Lzma
open REnc

/-! ## `encodeEvents` on an appended list -/

theorem encodeEvents_append (a b : List Ev) : ∀ (p : Probs) (e : REnc) (snk : Sink),
    encodeEvents (a ++ b) p e snk =
      match encodeEvents a p e snk with
      | (snk', .ok r) => encodeEvents b r.1 r.2 snk'
      | (snk', .error x) => (snk', .error x) := by
  induction a with
  | nil => intro p e snk; rfl
  | cons ev a ih =>
    intro p e snk
    cases ev with
    | pbit i bit =>
      rw [List.cons_append, encodeEvents_pbit_eq, encodeEvents_pbit_eq]
      cases hg : p.get i with
      | error x => rfl
      | ok v =>
        simp only [bind_run, liftE_ok]
        rcases hb : e.encodeBit v bit snk with ⟨s1, _ | x⟩
        · rfl
        · exact ih _ _ _
    | dbit bit =>
      rw [List.cons_append, encodeEvents_dbit_eq, encodeEvents_dbit_eq]
      simp only [bind_run]
      rcases hb : REnc.encodeDirect e bit snk with ⟨s1, _ | x⟩
      · rfl
      · exact ih _ _ _

theorem encodeEvents_append_ok {a b : List Ev} {p : Probs} {e : REnc} {snk snkF : Sink}
    {r : Probs × REnc} (h : encodeEvents (a ++ b) p e snk = (snkF, .ok r)) :
    ∃ snk' p' e', encodeEvents a p e snk = (snk', .ok (p', e')) ∧
      encodeEvents b p' e' snk' = (snkF, .ok r) := by
  rw [encodeEvents_append] at h
  rcases ha : encodeEvents a p e snk with ⟨s1, x | ⟨p', e'⟩⟩
  · rw [ha] at h; cases h
  · rw [ha] at h; exact ⟨s1, p', e', rfl, h⟩

/-- a successful `encodeEvents` keeps every invariant of the coder state -/
theorem encodeEvents_ok_inv : ∀ (evs : List Ev) (p : Probs) (e : REnc) (snk snkF : Sink)
    (pF : Probs) (eF : REnc), snk.script = [] → EOk e → ProbsOk p →
    encodeEvents evs p e snk = (snkF, .ok (pF, eF)) →
    snkF.script = [] ∧ EOk eF ∧ ProbsOk pF ∧
      normCount evs p e + EN e snk.out.toList = EN eF snkF.out.toList
  | [], p, e, snk, snkF, pF, eF, hs, he, hp, h => by
    rw [encodeEvents_nil] at h; cases h
    exact ⟨hs, he, hp, by simp [normCount]⟩
  | .pbit i b :: rest, p, e, snk, snkF, pF, eF, hs, he, hp, h => by
    obtain ⟨v, hg⟩ := encodeEvents_pbit_get h
    have hv := hp i v hg
    have hen := encode_en _ _ _ _ _ _ _ hs he hp h
    obtain ⟨s1, x1, heq⟩ := encodeEvents_pbit (b := b) hs he hg hv
    rw [heq] at h
    obtain ⟨a, b', c, _⟩ := encodeEvents_ok_inv rest _ _ s1 snkF pF eF x1.1 (stepBit_ok b he hv)
      (hp.set i (hv.upd b)) h
    exact ⟨a, b', c, by omega⟩
  | .dbit b :: rest, p, e, snk, snkF, pF, eF, hs, he, hp, h => by
    have hen := encode_en _ _ _ _ _ _ _ hs he hp h
    obtain ⟨s1, x1, heq⟩ := encodeEvents_dbit (b := b) hs he
    rw [heq] at h
    obtain ⟨a, b', c, _⟩ := encodeEvents_ok_inv rest _ _ s1 snkF pF eF x1.1 (stepDirect_ok b he) hp h
    exact ⟨a, b', c, by omega⟩

/-! ## the events of a whole program -/

/-- the encoder's context as a function of properties and spec state (`EncSt.ctx` does not
look at the probabilities) -/
def ctxOf (props : Props) (spec : SpecSt) : ECtx :=
  EncSt.ctx { props := props, probs := Probs.init 0, spec := spec }

theorem EncSt.ctx_eq (s : EncSt) : s.ctx = ctxOf s.props s.spec := rfl

/-- the spec state `encodeProg` continues with after `sym` (an ill-formed match still rotates
the registers) -/
def nextSpec (dict : Nat) (spec : SpecSt) (sym : Sym) : SpecSt :=
  match SpecSt.step dict spec sym with
  | some (st, _) => st
  | none =>
    match sym with
    | .mtch dist _ => { spec with rep3 := spec.rep2, rep2 := spec.rep1, rep1 := spec.rep0,
                                  rep0 := dist - 1, state := if spec.state < 7 then 7 else 10 }
    | _ => spec

theorem nextSpec_of_step {dict : Nat} {spec spec' : SpecSt} {sym : Sym} {b : Bool}
    (h : SpecSt.step dict spec sym = some (spec', b)) : nextSpec dict spec sym = spec' := by
  simp [nextSpec, h]

/-- all events `encodeProg` emits for a program, in order -/
def progEvents (dict : Nat) (props : Props) : SpecSt → List Sym → List Ev
  | _, [] => []
  | spec, sym :: rest =>
    rawSymEvents (ctxOf props spec) sym.toRaw ++ progEvents dict props (nextSpec dict spec sym) rest

/-- the spec state after `encodeProg` -/
def progSpec (dict : Nat) : SpecSt → List Sym → SpecSt
  | spec, [] => spec
  | spec, sym :: rest => progSpec dict (nextSpec dict spec sym) rest

theorem progEvents_append (dict : Nat) (props : Props) : ∀ (a b : List Sym) (spec : SpecSt),
    progEvents dict props spec (a ++ b) =
      progEvents dict props spec a ++ progEvents dict props (progSpec dict spec a) b
  | [], b, spec => rfl
  | s :: a, b, spec => by
    simp only [List.cons_append, progEvents, progSpec, List.append_assoc]
    rw [progEvents_append dict props a b]

theorem progSpec_of_run {dict : Nat} : ∀ (prog : List Sym) (spec st : SpecSt) (b : Bool),
    SpecSt.run dict spec prog = some (st, b) → progSpec dict spec prog = st
  | [], spec, st, b, h => by
    simp only [SpecSt.run, Option.some.injEq, Prod.mk.injEq] at h
    exact h.1
  | sym :: rest, spec, st, b, h => by
    simp only [SpecSt.run] at h
    split at h
    · cases h
    · rename_i st' hs
      split at h
      · cases h
        rename_i hr
        have : rest = [] := by simpa using hr
        subst this
        simp [progSpec, nextSpec_of_step hs]
      · cases h
    · rename_i st' hs
      simp only [progSpec, nextSpec_of_step hs]
      exact progSpec_of_run rest st' st b h

/-- **`encodeProg` is `encodeEvents` on the flattened event list** -/
theorem encodeProg_eq (dict : Nat) : ∀ (prog : List Sym) (s : EncSt) (e : REnc) (snk : Sink),
    encodeProg dict prog s e snk =
      match encodeEvents (progEvents dict s.props s.spec prog) s.probs e snk with
      | (snk', .ok r) => (snk', .ok ({ s with probs := r.1, spec := progSpec dict s.spec prog }, r.2))
      | (snk', .error x) => (snk', .error x)
  | [], s, e, snk => rfl
  | sym :: rest, s, e, snk => by
    have hunf0 : encodeProg dict (sym :: rest) s e =
        (encodeEvents (rawSymEvents s.ctx sym.toRaw) s.probs e >>= fun r =>
          encodeProg dict rest { s with probs := r.1, spec := nextSpec dict s.spec sym } r.2) := rfl
    have hunf : encodeProg dict (sym :: rest) s e snk =
        match encodeEvents (rawSymEvents s.ctx sym.toRaw) s.probs e snk with
        | (snk', .ok r) =>
          encodeProg dict rest { s with probs := r.1, spec := nextSpec dict s.spec sym } r.2 snk'
        | (snk', .error x) => (snk', .error x) := by
      rw [hunf0, bind_run]
      rcases encodeEvents (rawSymEvents s.ctx sym.toRaw) s.probs e snk with ⟨s1, x | r⟩ <;> rfl
    rw [hunf, progEvents, encodeEvents_append, EncSt.ctx_eq]
    rcases encodeEvents (rawSymEvents (ctxOf s.props s.spec) sym.toRaw) s.probs e snk
      with ⟨s1, x | ⟨p', e'⟩⟩
    · rfl
    · simp only
      rw [encodeProg_eq dict rest]
      rfl

/-! ## index validity of the events -/

theorem treeSafe_path {α : Type} {R : Nat} {Q : α → Prop} {t : Coder PIdx α} (ht : Safety.TreeSafe R Q t) :
    ∀ {evs rest : List Ev} {a : α}, runEv t evs = some (a, rest) →
    ∃ used, evs = used ++ rest ∧ ∀ i b, Ev.pbit i b ∈ used → Safety.IdxValid R i := by
  induction t with
  | ret a' => intro evs rest a h; simp at h; exact ⟨[], by simp [h.2], by simp⟩
  | fail e => intro evs rest a h; simp at h
  | bit i k ih =>
    intro evs rest a h
    cases evs with
    | nil => simp [runEv] at h
    | cons ev rest' =>
      cases ev with
      | pbit j b =>
        by_cases hij : i = j
        · subst hij
          simp at h
          obtain ⟨u, hu, hv⟩ := ih b (ht.2 b) h
          refine ⟨.pbit i b :: u, by simp [hu], ?_⟩
          intro i' b' hm
          rcases List.mem_cons.1 hm with h1 | h1
          · cases h1; exact ht.1
          · exact hv i' b' h1
        · simp [runEv, hij] at h
      | dbit b => simp [runEv] at h
  | direct k ih =>
    intro evs rest a h
    cases evs with
    | nil => simp [runEv] at h
    | cons ev rest' =>
      cases ev with
      | pbit j b => simp [runEv] at h
      | dbit b =>
        simp at h
        obtain ⟨u, hu, hv⟩ := ih b (ht b) h
        refine ⟨.dbit b :: u, by simp [hu], ?_⟩
        intro i' b' hm
        rcases List.mem_cons.1 hm with h1 | h1
        · cases h1
        · exact hv i' b' h1

/-- every probability index among the events of a well-formed raw symbol is in bounds -/
theorem rawSymEvents_valid {R : Nat} {c : ECtx} (hst : c.state < 12) (hps : c.posState < 16)
    (hrow : c.litRow < R) {raw : RawSym} (hwf : raw.WF) :
    ∀ i b, Ev.pbit i b ∈ rawSymEvents c raw → Safety.IdxValid R i := by
  let dc : Ctx := { state := c.state, posState := c.posState, litRow := .ok c.litRow,
                    matchByte := .ok c.matchByte }
  have hsafe : Safety.TreeSafe R (fun _ => True) (symTree dc) :=
    Safety.symTree_safe ⟨hst, hps, hrow, trivial⟩
  have hrt := sym_roundtrip_lemma dc c raw ⟨rfl, rfl, fun _ => rfl, fun _ _ => rfl⟩ hwf []
  obtain ⟨u, hu, hv⟩ := treeSafe_path hsafe hrt
  simp only [List.append_nil] at hu
  rw [hu]
  exact hv

/-- symbols whose raw form the decoder can return: lengths 2..273, distances 1..2^32 (the
largest is the end marker), `rep` index 0..3 -/
def Sym.RawOk (s : Sym) : Prop := s.toRaw.WF

instance : DecidablePred Sym.RawOk := fun s => inferInstanceAs (Decidable s.toRaw.WF)

theorem ctxOf_bounds {props : Props} (hp : Safety.PropsOk props) (spec : SpecSt) :
    (ctxOf props spec).posState < 16 ∧ (ctxOf props spec).litRow < 1 <<< (props.lc + props.lp) := by
  obtain ⟨hlc, hlp, hpb⟩ := hp
  constructor
  · show spec.hist.size &&& ((1 <<< props.pb) - 1) < 16
    have h1 : spec.hist.size &&& ((1 <<< props.pb) - 1) ≤ (1 <<< props.pb) - 1 := Nat.and_le_right
    have h2 : 2 ^ props.pb ≤ 2 ^ 4 := Nat.pow_le_pow_right (by omega) hpb
    rw [Nat.shiftLeft_eq, Nat.one_mul] at h1 ⊢
    omega
  · rw [Nat.shiftLeft_eq, Nat.one_mul]
    refine Safety.litRow_bound (len := spec.hist.size) (lp := props.lp) hlc ?_
    split
    · omega
    · exact UInt8.toNat_lt _

theorem nextSpec_state {dict : Nat} {spec : SpecSt} (h : spec.state < 12) (sym : Sym) :
    (nextSpec dict spec sym).state < 12 := by
  unfold nextSpec
  split
  · rename_i st b hs
    cases sym with
    | lit b =>
      simp only [SpecSt.step, Option.some.injEq, Prod.mk.injEq] at hs
      rw [← hs.1]; simp only [SpecSt.litState]
      split
      · omega
      · split <;> omega
    | mtch dist len =>
      simp only [SpecSt.step] at hs
      split at hs
      · cases hs
      · obtain ⟨h', -, hs'⟩ := Option.map_eq_some_iff.1 hs
        simp only [Prod.mk.injEq] at hs'
        rw [← hs'.1]; simp only; split <;> omega
    | shortRep =>
      simp only [SpecSt.step] at hs
      split at hs
      · cases hs
      · obtain ⟨h', -, hs'⟩ := Option.map_eq_some_iff.1 hs
        simp only [Prod.mk.injEq] at hs'
        rw [← hs'.1]; simp only; split <;> omega
    | rep idx len =>
      simp only [SpecSt.step] at hs
      split at hs
      · cases hs
      · rename_i hg
        have hidx : idx = 0 ∨ idx = 1 ∨ idx = 2 ∨ idx = 3 := by omega
        rcases hidx with rfl | rfl | rfl | rfl <;>
        · simp only at hs
          split at hs
          · cases hs
          · obtain ⟨h', -, hs'⟩ := Option.map_eq_some_iff.1 hs
            simp only [Prod.mk.injEq] at hs'
            rw [← hs'.1]; simp only; split <;> omega
    | eos =>
      simp only [SpecSt.step, Option.some.injEq, Prod.mk.injEq] at hs
      rw [← hs.1]; exact h
  · cases sym <;> simp only <;> first | exact h | (split <;> omega)

theorem progEvents_valid {dict : Nat} {props : Props} (hp : Safety.PropsOk props) :
    ∀ (prog : List Sym) (spec : SpecSt), spec.state < 12 → (∀ s ∈ prog, Sym.RawOk s) →
    ∀ i b, Ev.pbit i b ∈ progEvents dict props spec prog →
      Safety.IdxValid (1 <<< (props.lc + props.lp)) i
  | [], _, _, _, i, b, h => by simp [progEvents] at h
  | sym :: rest, spec, hst, hwf, i, b, h => by
    simp only [progEvents, List.mem_append] at h
    rcases h with h | h
    · obtain ⟨h1, h2⟩ := ctxOf_bounds hp spec
      exact rawSymEvents_valid (c := ctxOf props spec) hst h1 h2 (hwf sym (by simp)) i b h
    · exact progEvents_valid hp rest _ (nextSpec_state hst sym)
        (fun s hs => hwf s (by simp [hs])) i b h

/-- a program that runs in the spec consists of raw-well-formed symbols -/
theorem run_rawOk {dict : Nat} : ∀ (prog : List Sym) (spec st : SpecSt) (b : Bool),
    SpecSt.run dict spec prog = some (st, b) → ∀ s ∈ prog, Sym.RawOk s
  | [], _, _, _, _, s, hs => by simp at hs
  | sym :: rest, spec, st, b, h, s, hs => by
    simp only [SpecSt.run] at h
    split at h
    · cases h
    · rename_i st' hstep
      split at h
      · rename_i hr
        have : rest = [] := by simpa using hr
        subst this
        simp only [List.mem_cons, List.not_mem_nil, or_false] at hs
        subst hs
        exact Sym.toRaw_wf hstep
      · cases h
    · rename_i st' hstep
      rcases List.mem_cons.1 hs with rfl | hs'
      · exact Sym.toRaw_wf hstep
      · exact run_rawOk rest st' st b h s hs'

/-! ## totality of the reference encoder -/

/-- from fresh tables the reference encoder encodes every raw-well-formed program (well-formed in
the spec or not) and flushes, on an all-accepting sink, without error -/
theorem encodeProg_total {props : Props} (hp : Safety.PropsOk props) (dict : Nat) (prog : List Sym)
    (hwf : ∀ s ∈ prog, Sym.RawOk s) (snk : Sink) (hs : snk.script = []) :
    ∃ snkF probsF eF snkB e2,
      encodeEvents (progEvents dict props {} prog) (Probs.init (1 <<< (props.lc + props.lp))) {} snk
        = (snkF, .ok (probsF, eF)) ∧
      eF.finish snkF = (snkB, .ok e2) := by
  refine encodeEvents_total _ _ {} snk hs eok_fresh (probsOk_init _) ?_
  intro i b hm
  have hv := progEvents_valid (dict := dict) hp prog {} (by show (0 : Nat) < 12; omega) hwf i b hm
  obtain ⟨v, hg, -⟩ := Safety.Probs.get_safe (Safety.ProbsInv_init (1 <<< (props.lc + props.lp))) hv
  exact ⟨v, hg⟩

/-- `encodeSyms` is the sink content after `encodeEvents` on the flattened events and `finish` -/
theorem encodeSyms_eq {props : Props} {dict : Nat} {prog : List Sym} {snkF snkB : Sink}
    {probsF : Probs} {eF e2 : REnc}
    (henc : encodeEvents (progEvents dict props {} prog) (Probs.init (1 <<< (props.lc + props.lp))) {} {}
      = (snkF, .ok (probsF, eF)))
    (hfin : eF.finish snkF = (snkB, .ok e2)) :
    encodeSyms props dict prog = snkB.out.toList := by
  unfold encodeSyms
  simp only
  rw [bind_run, encodeProg_eq]
  have h0 : (EncSt.new props).props = props := rfl
  have h1 : (EncSt.new props).spec = {} := rfl
  have h2 : (EncSt.new props).probs = Probs.init (1 <<< (props.lc + props.lp)) := rfl
  rw [h0, h1, h2, henc]
  simp only [bind_run, hfin, pure_run]

/-! ## event lists that force the coder to shift out a byte -/

/-- coding `evs` (from any consistent state) performs at least one normalisation shift -/
def ForcesRead (evs : List Ev) : Prop :=
  ∀ (probs : Probs) (e : REnc) (snk snkF : Sink) (r : Probs × REnc), snk.script = [] → EOk e →
    ProbsOk probs → encodeEvents evs probs e snk = (snkF, .ok r) → 0 < normCount evs probs e

theorem normCount_append {a b : List Ev} {p p' : Probs} {e e' : REnc} {snk snk' : Sink}
    (hs : snk.script = []) (he : EOk e) (hp : ProbsOk p)
    (ha : encodeEvents a p e snk = (snk', .ok (p', e'))) {snkF : Sink} {r : Probs × REnc}
    (hb : encodeEvents b p' e' snk' = (snkF, .ok r)) :
    normCount (a ++ b) p e = normCount a p e + normCount b p' e' := by
  obtain ⟨hs', he', hp', hn⟩ := encodeEvents_ok_inv a p e snk snk' p' e' hs he hp ha
  have hab : encodeEvents (a ++ b) p e snk = (snkF, .ok r) := by
    rw [encodeEvents_append, ha]; exact hb
  obtain ⟨pF, eF⟩ := r
  obtain ⟨-, -, -, hn1⟩ := encodeEvents_ok_inv (a ++ b) p e snk snkF pF eF hs he hp hab
  obtain ⟨-, -, -, hn2⟩ := encodeEvents_ok_inv b p' e' snk' snkF pF eF hs' he' hp' hb
  omega

theorem ForcesRead.append_left (a : List Ev) {b : List Ev} (h : ForcesRead b) : ForcesRead (a ++ b) := by
  intro p e snk snkF r hs he hp henc
  obtain ⟨snk', p', e', ha, hb⟩ := encodeEvents_append_ok henc
  obtain ⟨hs', he', hp', -⟩ := encodeEvents_ok_inv a p e snk snk' p' e' hs he hp ha
  have := h p' e' snk' snkF r hs' he' hp' hb
  rw [normCount_append hs he hp ha hb]
  omega

theorem normCount_directEv_zero : ∀ (n v : Nat) (rest : List Ev) (p : Probs) (e : REnc), EOk e →
    normCount (directEv n v ++ rest) p e = 0 → 2 ^ (24 + n) ≤ e.range
  | 0, _, _, _, e, he, _ => by have := he.lo; simpa using this
  | n+1, v, rest, p, e, he, h => by
    simp only [directEv, List.cons_append, normCount] at h
    have h1 : ¬ (midDirect e (((v >>> n) &&& 1) != 0)).range < 16777216 := by
      intro hlt; rw [if_pos hlt] at h; omega
    rw [if_neg h1, Nat.zero_add] at h
    have hstep : (stepDirect e (((v >>> n) &&& 1) != 0)).1 = midDirect e (((v >>> n) &&& 1) != 0) := by
      unfold stepDirect norm1
      rw [if_neg h1]
    have he1 := stepDirect_ok (((v >>> n) &&& 1) != 0) he
    have ih := normCount_directEv_zero n v rest p _ he1 h
    rw [hstep] at ih
    have hr : (midDirect e (((v >>> n) &&& 1) != 0)).range = e.range / 2 := by
      simp [midDirect, Nat.shiftRight_eq_div_pow]
    rw [hr] at ih
    have : 2 ^ (24 + (n + 1)) = 2 * 2 ^ (24 + n) := by
      rw [show 24 + (n + 1) = (24 + n) + 1 by omega, Nat.pow_succ]; omega
    omega

/-- nine or more direct bits in a row force a shift (the range is below `2^32`) -/
theorem forcesRead_direct {n : Nat} (hn : 9 ≤ n) (v : Nat) (rest : List Ev) :
    ForcesRead (directEv n v ++ rest) := by
  intro p e snk snkF r hs he hp henc
  apply Nat.pos_of_ne_zero
  intro h0
  have h1 := normCount_directEv_zero n v rest p e he h0
  have h2 := he.hi
  have : (2 : Nat) ^ 33 ≤ 2 ^ (24 + n) := Nat.pow_le_pow_right (by omega) (by omega)
  omega

theorem distEv_marker :
    distEv 0 0xFFFFFFFF =
      bitTreeEv (.posSlot 0) 6 1 63 ++ (directEv 26 0xFFFFFFF ++ revBitTreeEv .align 0 4 1 0xF) := by
  decide +kernel

/-- the end marker cannot be coded without shifting: before it the decoder's reader is not empty -/
theorem forcesRead_marker (c : ECtx) (rest : List Ev) :
    ForcesRead (rawSymEvents c (.mtch 0 0xFFFFFFFF) ++ rest) := by
  have : rawSymEvents c (.mtch 0 0xFFFFFFFF) ++ rest =
      ([.pbit (.isMatch ((c.state <<< 4) + c.posState)) true, .pbit (.isRep c.state) false] ++
        lenEv false c.posState 0 ++ bitTreeEv (.posSlot 0) 6 1 63) ++
      (directEv 26 0xFFFFFFF ++ (revBitTreeEv .align 0 4 1 0xF ++ rest)) := by
    simp only [rawSymEvents, distEv_marker, List.append_assoc]
  rw [this]
  exact ForcesRead.append_left _ (forcesRead_direct (by omega) _ _)

end Lzma
