/-
  C05 — layer B/L5: one `process_next` on a local reader versus on an extended
  reader; the `partial_input_buf` field is irrelevant for `process_next`; after
  an end marker no further symbol can be decoded (`after_marker_continuation_errs`).
-/
import LzmaProofs.Lemmas.StreamEquiv
namespace Lzma
namespace StreamEq

open DState

/-! ## `processNext` unfolded -/

theorem processNext_eq (s : DState) (w : Circ) (rc : RC) (rd : Rd) (snk : Sink) :
    processNext s w rc rd snk =
      match runDec true (symTree (s.mkCtx w)) s.probs rc rd with
      | .error e => (snk, .error e)
      | .ok (sym, probs, rc', rd') =>
        match applySym { s with probs := probs } w rc' rd' sym snk with
        | (k, .ok (st, s', w')) => (k, .ok (st, s', w', rc', rd'))
        | (k, .error e) => (k, .error e) := by
  unfold processNext
  cases h : runDec true (symTree (s.mkCtx w)) s.probs rc rd with
  | error e => rfl
  | ok x =>
    obtain ⟨sym, probs, rc', rd'⟩ := x
    show (applySym { s with probs := probs } w rc' rd' sym >>= _) snk = _
    rw [bind_run]
    simp only
    rcases applySym { s with probs := probs } w rc' rd' sym snk with ⟨k, r⟩
    cases r with
    | error e => rfl
    | ok y => obtain ⟨st, s', w'⟩ := y; rfl

/-! ## `applySym`: only the end marker looks at the reader -/

theorem applySym_rd_irrel (s : DState) (w : Circ) (rc : RC) (rd1 rd2 : Rd) (sym : RawSym)
    (hm : ∀ len, sym ≠ .mtch len 0xFFFFFFFF) :
    applySym s w rc rd1 sym = applySym s w rc rd2 sym := by
  cases sym with
  | lit b => rfl
  | shortRep => rfl
  | rep i l => rfl
  | mtch l r0 =>
    have : r0 ≠ 0xFFFFFFFF := fun h => hm l (by rw [h])
    simp only [applySym, this, if_false]

theorem bind_pure_ok {α β : Type} {m : M α} {f : α → β} {snk k : Sink} {y : β}
    (h : (m >>= fun x => (pure (f x) : M β)) snk = (k, .ok y)) :
    ∃ x, m snk = (k, .ok x) ∧ y = f x := by
  rw [bind_run] at h
  rcases hm : m snk with ⟨k', r⟩
  rw [hm] at h
  cases r with
  | error e => simp at h
  | ok x =>
    simp only [pure_run, Prod.mk.injEq, Except.ok.injEq] at h
    exact ⟨x, by rw [h.1], h.2.symm⟩

theorem applySym_continue (s : DState) (w : Circ) (rc : RC) (rd : Rd) (sym : RawSym)
    (hm : ∀ len, sym ≠ .mtch len 0xFFFFFFFF) {snk k : Sink} {st : Status} {s' : DState} {w' : Circ}
    (h : applySym s w rc rd sym snk = (k, .ok (st, s', w'))) : st = .continue := by
  cases sym with
  | lit b =>
    simp only [applySym] at h
    obtain ⟨x, _, hx⟩ := bind_pure_ok (f := fun w => (Status.continue, _, w)) h
    exact (Prod.mk.inj hx).1
  | shortRep =>
    simp only [applySym] at h
    obtain ⟨x, _, hx⟩ := bind_pure_ok (f := fun w => (Status.continue, _, w)) h
    exact (Prod.mk.inj hx).1
  | rep i l =>
    simp only [applySym] at h
    obtain ⟨x, _, hx⟩ := bind_pure_ok (f := fun w => (Status.continue, _, w)) h
    exact (Prod.mk.inj hx).1
  | mtch l r0 =>
    have : r0 ≠ 0xFFFFFFFF := fun h => hm l (by rw [h])
    simp only [applySym, this, if_false] at h
    obtain ⟨x, _, hx⟩ := bind_pure_ok (f := fun w => (Status.continue, _, w)) h
    exact (Prod.mk.inj hx).1

/-- the decoder state after an end marker -/
def markerState (s : DState) : DState :=
  { s with rep3 := s.rep2, rep2 := s.rep1, rep1 := s.rep0, rep0 := 0xFFFFFFFF,
           state := if s.state < 7 then 7 else 10 }

theorem applySym_marker (s : DState) (w : Circ) (rc : RC) (l : Bytes) (len : Nat) (snk : Sink) :
    applySym s w rc ⟨l, false⟩ (.mtch len 0xFFFFFFFF) snk =
      if rc.code = 0 ∧ l = [] then (snk, .ok (.finished, markerState s, w))
      else (snk, .error .lzma) := by
  simp only [applySym, if_true, RC.isFinishedOk, Rd.isEof, markerState]
  by_cases hc : rc.code = 0
  · cases l with
    | nil => simp [hc, bind_run]
    | cons x r => simp [hc, bind_run, pure, Except.pure]
  · simp [hc, bind_run, pure, Except.pure]

/-! ## one `process_next` on `a` versus on `a ++ b` -/

/-- the bit-level part of `process_next` -/
abbrev dec1 (s : DState) (w : Circ) (rc : RC) (rd : Rd) :=
  runDec true (symTree (s.mkCtx w)) s.probs rc rd

theorem processNext_cases (s : DState) (w : Circ) (rc : RC) (a : Bytes) (snk : Sink) :
    (dec1 s w rc ⟨a, false⟩ = .error .eof) ∨
    (∃ k e, ∀ b, processNext s w rc ⟨a ++ b, false⟩ snk = (k, .error e)) ∨
    (∃ k s' w' rc' a', a' <:+ a ∧ ∀ b, processNext s w rc ⟨a ++ b, false⟩ snk =
        (k, .ok (.continue, s', w', rc', ⟨a' ++ b, false⟩))) ∨
    (∃ s' rc', processNext s w rc ⟨a, false⟩ snk = (snk, .ok (.finished, s', w, rc', ⟨[], false⟩)) ∧
        rc'.code = 0 ∧ s'.rep0 = 0xFFFFFFFF ∧ 7 ≤ s'.state ∧
        ∀ b, b ≠ [] → processNext s w rc ⟨a ++ b, false⟩ snk = (snk, .error .lzma)) := by
  cases hd : dec1 s w rc ⟨a, false⟩ with
  | error e =>
    rcases runDec_err_app true _ _ _ _ _ hd with h | h
    · left; rw [h]
    · right; left
      refine ⟨snk, e, fun b => ?_⟩
      rw [processNext_eq, h b]
  | ok x =>
    obtain ⟨sym, probs, rc', rd'⟩ := x
    obtain ⟨hb, hsuf, happ⟩ := runDec_ok_app true _ _ _ _ _ _ _ _ hd
    obtain ⟨a', _⟩ := rd'
    simp only at hb hsuf happ
    subst hb
    right
    by_cases hm : ∀ len, sym ≠ .mtch len 0xFFFFFFFF
    · rcases hr : applySym { s with probs := probs } w rc' ⟨a', false⟩ sym snk with ⟨k, r⟩
      cases r with
      | error e =>
        left
        refine ⟨k, e, fun b => ?_⟩
        rw [processNext_eq, happ b]
        simp only
        rw [applySym_rd_irrel _ _ _ _ ⟨a', false⟩ _ hm, hr]
      | ok y =>
        obtain ⟨st, s', w'⟩ := y
        have hst := applySym_continue _ _ _ _ _ hm hr
        subst hst
        right; left
        refine ⟨k, s', w', rc', a', hsuf, fun b => ?_⟩
        rw [processNext_eq, happ b]
        simp only
        rw [applySym_rd_irrel _ _ _ _ ⟨a', false⟩ _ hm, hr]
    · have : ∃ len, sym = .mtch len 0xFFFFFFFF := by
        refine Classical.byContradiction fun hc => hm fun len h => hc ⟨len, h⟩
      obtain ⟨len, rfl⟩ := this
      by_cases hfin : rc'.code = 0 ∧ a' = []
      · right; right
        obtain ⟨hc0, rfl⟩ := hfin
        refine ⟨markerState { s with probs := probs }, rc', ?_, hc0, rfl, ?_, ?_⟩
        · have := happ []
          simp only [List.append_nil] at this
          rw [processNext_eq, this]
          simp only
          rw [applySym_marker]
          simp [hc0]
        · show 7 ≤ (if s.state < 7 then 7 else 10)
          split <;> omega
        · intro b hbne
          rw [processNext_eq, happ b]
          simp only
          rw [applySym_marker]
          simp [hbne]
      · left
        refine ⟨snk, .lzma, fun b => ?_⟩
        rw [processNext_eq, happ b]
        simp only
        rw [applySym_marker]
        have : ¬ (rc'.code = 0 ∧ a' ++ b = []) := by
          intro ⟨h1, h2⟩
          exact hfin ⟨h1, (List.append_eq_nil_iff.mp h2).1⟩
        rw [if_neg this]

/-! ## `partial_input_buf` is invisible to `process_next` -/

/-- put a `partial_input_buf` value into the state of a `process_next` result -/
def setPB (x : Bytes) (r : Sink × Except Err (Status × DState × Circ × RC × Rd)) :
    Sink × Except Err (Status × DState × Circ × RC × Rd) :=
  match r with
  | (k, Except.ok (st, s', w', rc', rd')) => (k, Except.ok (st, { s' with partialBuf := x }, w', rc', rd'))
  | (k, Except.error e) => (k, Except.error e)

theorem applySym_pbuf (s : DState) (x : Bytes) (w : Circ) (rc : RC) (rd : Rd) (sym : RawSym) (snk : Sink) :
    applySym { s with partialBuf := x } w rc rd sym snk =
      match applySym s w rc rd sym snk with
      | (k, Except.ok (st, s', w')) => (k, Except.ok (st, { s' with partialBuf := x }, w'))
      | (k, Except.error e) => (k, Except.error e) := by
  cases sym with
  | lit b =>
    simp only [applySym, bind_run]
    rcases LzBuf.appendLiteral w (UInt8.ofNat b) snk with ⟨k, r⟩
    cases r <;> rfl
  | shortRep =>
    simp only [applySym, bind_run]
    rcases LzBuf.appendLz w 1 (s.rep0 + 1) snk with ⟨k, r⟩
    cases r <;> rfl
  | rep i l =>
    simp only [applySym, bind_run]
    rcases i with _ | _ | _ | i
    all_goals
      simp only
      generalize hgen : LzBuf.appendLz w (l + 2) _ snk = res
      rcases res with ⟨k, r⟩
      cases r <;> rfl
  | mtch l r0 =>
    simp only [applySym]
    by_cases h : r0 = 0xFFFFFFFF
    · simp only [h, if_true, bind_run]
      rcases liftE (rc.isFinishedOk rd) snk with ⟨k, r⟩
      cases r with
      | error e => rfl
      | ok fin => cases fin <;> rfl
    · simp only [h, if_false, bind_run]
      generalize hgen : LzBuf.appendLz w (l + 2) _ snk = res
      rcases res with ⟨k, r⟩
      cases r <;> rfl

theorem processNext_pbuf (s : DState) (x : Bytes) (w : Circ) (rc : RC) (rd : Rd) (snk : Sink) :
    processNext { s with partialBuf := x } w rc rd snk = setPB x (processNext s w rc rd snk) := by
  rw [processNext_eq, processNext_eq]
  show (match runDec true (symTree (s.mkCtx w)) s.probs rc rd with
      | Except.error e => (snk, Except.error e)
      | Except.ok (sym, probs, rc', rd') =>
        match applySym { { s with probs := probs } with partialBuf := x } w rc' rd' sym snk with
        | (k, Except.ok (st, s', w')) => (k, Except.ok (st, s', w', rc', rd'))
        | (k, Except.error e) => (k, Except.error e)) = _
  cases runDec true (symTree (s.mkCtx w)) s.probs rc rd with
  | error e => rfl
  | ok y =>
    obtain ⟨sym, probs, rc', rd'⟩ := y
    have h := applySym_pbuf { s with probs := probs } x w rc' rd' sym snk
    dsimp only at h ⊢
    rw [h]
    rcases applySym { s with probs := probs } w rc' rd' sym snk with ⟨k, r⟩
    cases r with
    | error e => rfl
    | ok z => obtain ⟨st, s', w'⟩ := z; rfl

/-! ## after the end marker nothing decodes -/

/-- `after_marker_continuation_errs`: with `code = 0`, `rep0 = 0xFFFFFFFF` and
`state ≥ 7` (the decoder state right after an end marker) the next `is_match`
bit is 0 (`code = 0 < bound`), the literal is decoded in matched mode and
`last_n(rep0 + 1) = last_n(2^32)` fails because the dictionary is smaller than
`2^32` — whatever the input is, dry run or real run. -/
theorem after_marker_continuation_errs (u : Bool) (s : DState) (w : Circ) (rc : RC) (rd : Rd)
    (hcode : rc.code = 0) (hrep : s.rep0 = 0xFFFFFFFF) (hstate : 7 ≤ s.state)
    (hdict : w.dictSize < 4294967296) (hrange : 2048 ≤ rc.range)
    (hp : ∀ v, s.probs.get (.isMatch ((s.state <<< 4) + (s.mkCtx w).posState)) = .ok v → 0 < v) :
    ∃ e, runDec u (symTree (s.mkCtx w)) s.probs rc rd = .error e := by
  have hmb : (s.mkCtx w).matchByte = .error .lzma := by
    show (do let b ← Circ.lastN w (s.rep0 + 1); pure b.toNat) = _
    rw [hrep]
    unfold Circ.lastN
    have : (0xFFFFFFFF + 1 : Nat) > w.dictSize := by omega
    simp [this, bind, Except.bind]
  have hst : (s.mkCtx w).state = s.state := rfl
  unfold symTree
  rw [hst]
  simp only [runDec]
  cases hg : ProbStore.get s.probs (PIdx.isMatch ((s.state <<< 4) + (s.mkCtx w).posState)) with
  | error e => exact ⟨e, rfl⟩
  | ok p =>
    have hp0 : 0 < p := hp p hg
    simp only
    rw [decodeBit_factor]
    cases hpre : decPre u p rc with
    | error e => exact ⟨e, rfl⟩
    | ok x =>
      obtain ⟨bit, p', rc0⟩ := x
      have hbit : bit = false := by
        unfold decPre at hpre
        cases hmul : mulChk U32 "decode_bit: bound overflow" (rc.range >>> 11) p with
        | error e => rw [hmul] at hpre; cases hpre
        | ok bound =>
          rw [hmul] at hpre
          have hb : bound = (rc.range >>> 11) * p := by
            unfold mulChk at hmul; split at hmul
            · cases hmul; rfl
            · cases hmul
          have hq : 1 ≤ rc.range >>> 11 := by
            rw [Nat.shiftRight_eq_div_pow]; omega
          have hbpos : 0 < bound := by rw [hb]; exact Nat.mul_pos hq hp0
          have hlt : rc.code < bound := by rw [hcode]; exact hbpos
          simp only [exc_ok_bind, hlt, if_true] at hpre
          cases u
          · simp only [Bool.false_eq_true, if_false, exc_pure, exc_ok_bind, Except.ok.injEq,
              Prod.mk.injEq] at hpre
            exact hpre.1.symm
          · simp only [if_true] at hpre
            cases h1 : subChk "decode_bit: 0x800 - prob" 0x800 p with
            | error e => rw [h1] at hpre; cases hpre
            | ok d =>
              rw [h1] at hpre; simp only [exc_ok_bind] at hpre
              cases h2 : addChk U16 "decode_bit: prob += overflow" p (d >>> 5) with
              | error e => rw [h2] at hpre; cases hpre
              | ok q =>
                rw [h2] at hpre
                simp only [exc_ok_bind, exc_pure, Except.ok.injEq, Prod.mk.injEq] at hpre
                exact hpre.1.symm
      subst hbit
      simp only
      cases RC.normalize rc0 rd with
      | error e => exact ⟨e, rfl⟩
      | ok y =>
        obtain ⟨rc1, rd1⟩ := y
        simp only [Bool.not_false, if_true]
        cases hrow : (s.mkCtx w).litRow with
        | error e => exact ⟨e, by simp [runDec]⟩
        | ok row =>
          simp only [hmb, ge_iff_le, hstate, if_true, Coder.bind, runDec]
          exact ⟨_, rfl⟩

end StreamEq
end Lzma
