/-
  Lemmas about the LZMA2 framing layer (`LzmaModel/Lzma2.lean`) and the generic
  `process_mode` facts they need.
-/
import LzmaProofs.Lemmas.Monad
set_option linter.unusedSimpArgs false
namespace Lzma
-- all helper definitions and lemmas of the LZMA2 framing proofs live in `Lzma.L2`
namespace L2

/-! ## `M`-monad inversion helpers -/

theorem bind_ok_inv {m : M α} {f : α → M β} {s s' : Sink} {b : β}
    (h : (m >>= f) s = (s', .ok b)) :
    ∃ a s1, m s = (s1, .ok a) ∧ f a s1 = (s', .ok b) := by
  rw [bind_run] at h
  split at h
  · exact ⟨_, _, by assumption, h⟩
  · simp at h

theorem liftE_ok_inv {e : Except Err α} {s s' : Sink} {a : α}
    (h : (liftE e : M α) s = (s', .ok a)) : e = .ok a ∧ s' = s := by
  cases e with
  | ok x => simp at h; exact ⟨by rw [h.2], h.1.symm⟩
  | error x => simp at h

theorem lzErr_ok_inv {e : Except Err α} {a : α} (h : lzErr e = .ok a) : e = .ok a := by
  cases e <;> simp_all [lzErr]

theorem lzErr_error_inv {e : Except Err α} {x : Err} (h : lzErr e = .error x) : x = .lzma := by
  cases e <;> simp_all [lzErr]

/-! ## `process_mode` never changes `unpacked_size`; in `Finish` mode it checks it -/

section
open DState
variable {ω : Type} [LzBuf ω]

theorem applySym_unpackedSize {st : DState} {w : ω} {rc : RC} {rd : Rd} {sym : RawSym}
    {s s' : Sink} {status : Status} {st' : DState} {w' : ω}
    (h : applySym st w rc rd sym s = (s', .ok (status, st', w'))) :
    st'.unpackedSize = st.unpackedSize := by
  cases sym with
  | lit byte =>
    simp only [applySym] at h
    obtain ⟨a, s1, -, h2⟩ := bind_ok_inv h
    simp at h2; rw [← h2.2.2.1]
  | shortRep =>
    simp only [applySym] at h
    obtain ⟨a, s1, -, h2⟩ := bind_ok_inv h
    simp at h2; rw [← h2.2.2.1]
  | rep idx len =>
    simp only [applySym] at h
    obtain ⟨a, s1, -, h2⟩ := bind_ok_inv h
    simp at h2; rw [← h2.2.2.1]
    split <;> rfl
  | mtch len r0 =>
    simp only [applySym] at h
    split at h
    · obtain ⟨a, s1, -, h2⟩ := bind_ok_inv h
      split at h2
      · simp at h2; rw [← h2.2.2.1]
      · simp at h2
    · obtain ⟨a, s1, -, h2⟩ := bind_ok_inv h
      simp at h2; rw [← h2.2.2.1]

theorem processNext_unpackedSize {st : DState} {w : ω} {rc : RC} {rd : Rd}
    {s s' : Sink} {status : Status} {st' : DState} {w' : ω} {rc' : RC} {rd' : Rd}
    (h : processNext st w rc rd s = (s', .ok (status, st', w', rc', rd'))) :
    st'.unpackedSize = st.unpackedSize := by
  simp only [processNext] at h
  obtain ⟨⟨sym, probs, rc1, rd1⟩, s1, -, h2⟩ := bind_ok_inv h
  obtain ⟨⟨st2, s2, w2⟩, s3, h3, h4⟩ := bind_ok_inv h2
  simp at h4
  have := applySym_unpackedSize h3
  rw [← h4.2.2.1, this]

theorem readPartialInputBuf_unpackedSize {st st' : DState} {rd rd' : Rd}
    (h : st.readPartialInputBuf rd = .ok (st', rd')) : st'.unpackedSize = st.unpackedSize := by
  simp only [readPartialInputBuf] at h
  split at h
  · simp at h
  · simp at h; rw [← h.1]

theorem processLoop_unpackedSize (mode : Mode) (fuel : Nat) :
    ∀ {st : DState} {w : ω} {rc : RC} {rd : Rd} {s s' : Sink}
      {st' : DState} {w' : ω} {rc' : RC} {rd' : Rd},
      processLoop mode fuel st w rc rd s = (s', .ok (st', w', rc', rd')) →
      st'.unpackedSize = st.unpackedSize := by
  induction fuel with
  | zero => intro st w rc rd s s' st' w' rc' rd' h; simp [processLoop] at h
  | succ fuel ih =>
    intro st w rc rd s s' st' w' rc' rd' h
    simp only [processLoop] at h
    obtain ⟨stop, s1, -, h⟩ := bind_ok_inv h
    split at h
    · simp at h; rw [h.2.1]
    · split at h
      · obtain ⟨⟨st1, rd1⟩, s2, h1, h⟩ := bind_ok_inv h
        have e1 := readPartialInputBuf_unpackedSize (liftE_ok_inv h1).1
        dsimp only at h
        split at h
        · simp at h; rw [← h.2.1, e1]
        · obtain ⟨⟨status, st2, w2, rc2, tmp⟩, s3, h2, h⟩ := bind_ok_inv h
          have e2 := processNext_unpackedSize h2
          dsimp only at h
          split at h
          · simp at h; rw [← h.2.1]; simp [e2, e1]
          · have := ih h; simp at this; rw [this, e2, e1]
      · obtain ⟨_, s2, -, h⟩ := bind_ok_inv h
        split at h
        · obtain ⟨⟨st1, rd1⟩, s3, h1, h⟩ := bind_ok_inv h
          have e1 := readPartialInputBuf_unpackedSize (liftE_ok_inv h1).1
          simp at h; rw [← h.2.1, e1]
        · obtain ⟨⟨status, st2, w2, rc2, rd2⟩, s3, h2, h⟩ := bind_ok_inv h
          have e2 := processNext_unpackedSize h2
          dsimp only at h
          split at h
          · simp at h; rw [← h.2.1, e2]
          · rw [ih h, e2]

/-- The final check of `process_mode` in `Finish` mode: with a size in effect, success
means that exactly that many bytes are in the window (counted by `len`), and the loop
never changes `unpacked_size`. -/
theorem processMode_finish_size {st : DState} {w : ω} {rc : RC} {rd : Rd} {s s' : Sink}
    {st' : DState} {w' : ω} {rc' : RC} {rd' : Rd} {n : Nat}
    (h : processMode .finish st w rc rd s = (s', .ok (st', w', rc', rd')))
    (hn : st.unpackedSize = some n) :
    LzBuf.len w' = n ∧ st'.unpackedSize = st.unpackedSize := by
  simp only [processMode] at h
  obtain ⟨⟨st1, w1, rc1, rd1⟩, s1, h1, h⟩ := bind_ok_inv h
  have e := processLoop_unpackedSize _ _ h1
  dsimp only at h
  rw [e, hn] at h
  dsimp only at h
  split at h
  · simp at h
  · simp at h
    obtain ⟨-, rfl, rfl, -, -⟩ := h
    rename_i hh
    simp at hh
    exact ⟨hh.symm, e⟩

theorem processMode_unpackedSize {mode : Mode} {st : DState} {w : ω} {rc : RC} {rd : Rd}
    {s s' : Sink} {st' : DState} {w' : ω} {rc' : RC} {rd' : Rd}
    (h : processMode mode st w rc rd s = (s', .ok (st', w', rc', rd'))) :
    st'.unpackedSize = st.unpackedSize := by
  simp only [processMode] at h
  obtain ⟨⟨st1, w1, rc1, rd1⟩, s1, h1, h⟩ := bind_ok_inv h
  have e := processLoop_unpackedSize _ _ h1
  dsimp only at h
  cases hu : st1.unpackedSize with
  | some n =>
    rw [hu] at h; dsimp only at h
    split at h
    · simp at h
    · simp at h; rw [← h.2.1, e]
  | none =>
    rw [hu] at h; simp at h; rw [← h.2.1, e]

end

/-! ## reader lemmas -/
namespace Rd
open Lzma.Rd

theorem readU8_ok_iff {r r' : Rd} {b : UInt8} :
    r.readU8 = .ok (b, r') ↔ ∃ rest, r.rem = b :: rest ∧ r' = { r with rem := rest } := by
  unfold readU8
  split
  · rename_i b' rest h
    simp [h]
    constructor
    · rintro ⟨rfl, rfl⟩; exact ⟨rest, ⟨rfl, rfl⟩, rfl⟩
    · rintro ⟨_, ⟨rfl, rfl⟩, rfl⟩; exact ⟨rfl, rfl⟩
  · rename_i h; simp [h]

theorem readExact_ok_iff {r r' : Rd} {n : Nat} {bs : Bytes} :
    r.readExact n = .ok (bs, r') ↔
      n ≤ r.rem.length ∧ bs = r.rem.take n ∧ r' = { r with rem := r.rem.drop n } := by
  unfold readExact
  split
  · simp [*]; constructor
    · rintro ⟨rfl, rfl⟩; exact ⟨rfl, rfl⟩
    · rintro ⟨rfl, rfl⟩; exact ⟨rfl, rfl⟩
  · simp; intro h; omega

theorem readExact_ok_iff' {r r' : Rd} {n : Nat} {bs : Bytes} :
    r.readExact n = .ok (bs, r') ↔
      ∃ rest, r.rem = bs ++ rest ∧ bs.length = n ∧ r' = { r with rem := rest } := by
  rw [readExact_ok_iff]
  constructor
  · rintro ⟨h, rfl, rfl⟩
    exact ⟨r.rem.drop n, by simp, by simp [h], rfl⟩
  · rintro ⟨rest, h, rfl, rfl⟩
    simp [h]

theorem readU16BE_ok_iff {r r' : Rd} {v : Nat} :
    r.readU16BE = .ok (v, r') ↔
      ∃ b1 b2 rest, r.rem = b1 :: b2 :: rest ∧ v = b1.toNat * 256 + b2.toNat ∧
        r' = { r with rem := rest } := by
  unfold readU16BE
  cases h : r.readExact 2 with
  | error e =>
    simp [bind, Except.bind]
    intro b1 b2 rest hr
    simp [readExact, hr] at h
  | ok p =>
    obtain ⟨bs, r1⟩ := p
    rw [readExact_ok_iff'] at h
    obtain ⟨rest, h1, h2, rfl⟩ := h
    match bs, h2 with
    | [b1, b2], _ =>
      simp [bind, Except.bind, pure, Except.pure, beVal, h1]
      constructor
      · rintro ⟨rfl, rfl⟩; exact ⟨b1, b2, rest, ⟨rfl, rfl, rfl⟩, rfl, rfl⟩
      · rintro ⟨_, _, _, ⟨rfl, rfl, rfl⟩, rfl, rfl⟩; exact ⟨rfl, rfl⟩

theorem readU16BE_lt {r r' : Rd} {v : Nat} (h : r.readU16BE = .ok (v, r')) : v < 65536 := by
  obtain ⟨b1, b2, rest, -, rfl, -⟩ := readU16BE_ok_iff.1 h
  have := b1.toNat_lt; have := b2.toNat_lt; omega

end Rd

open Lzma2Decoder

theorem parseUncompressed_ok_iff {accum accum' : Accum} {rd rd' : Rd} {resetDict : Bool}
    {s s' : Sink} :
    parseUncompressed accum rd resetDict s = (s', .ok (accum', rd')) ↔
      ∃ b1 b2 data rest a0, rd.rem = b1 :: b2 :: (data ++ rest) ∧
        data.length = b1.toNat * 256 + b2.toNat + 1 ∧
        (if resetDict then accum.reset else pure accum) s = (s', .ok a0) ∧
        accum' = a0.appendBytes data ∧ rd' = { rd with rem := rest } := by
  constructor
  · intro h
    simp only [parseUncompressed] at h
    obtain ⟨⟨u, rd1⟩, s1, h1, h⟩ := bind_ok_inv h
    obtain ⟨h1', rfl⟩ := liftE_ok_inv h1
    obtain ⟨b1, b2, rest1, hr, rfl, rfl⟩ := Rd.readU16BE_ok_iff.1 (lzErr_ok_inv h1')
    dsimp only at h
    have h' : ((if resetDict then accum.reset else pure accum) >>= fun accum => do
        let __x ← liftE (lzErr (({ rd with rem := rest1 } : Rd).readExact (b1.toNat * 256 + b2.toNat + 1)))
        pure (accum.appendBytes __x.fst, __x.snd)) s1 = (s', .ok (accum', rd')) := by
      cases resetDict <;> exact h
    clear h
    obtain ⟨a0, s2, h2, h⟩ := bind_ok_inv h'
    obtain ⟨⟨buf, rd2⟩, s3, h3, h⟩ := bind_ok_inv h
    obtain ⟨h3', rfl⟩ := liftE_ok_inv h3
    obtain ⟨rest, hr2, hl, rfl⟩ := Rd.readExact_ok_iff'.1 (lzErr_ok_inv h3')
    simp at h
    obtain ⟨rfl, rfl, rfl⟩ := h
    dsimp only at hr2
    exact ⟨b1, b2, buf, rest, a0, by rw [hr, hr2], hl, h2, rfl, rfl⟩
  · rintro ⟨b1, b2, data, rest, a0, hr, hl, h2, rfl, rfl⟩
    simp only [parseUncompressed]
    have h1 : rd.readU16BE = .ok (b1.toNat * 256 + b2.toNat, { rd with rem := data ++ rest }) :=
      Rd.readU16BE_ok_iff.2 ⟨b1, b2, _, hr, rfl, rfl⟩
    rw [bind_run_ok (a := (b1.toNat * 256 + b2.toNat, { rd with rem := data ++ rest })) (s' := s)
      (by rw [h1]; rfl)]
    dsimp only
    have h3 : ({ rd with rem := data ++ rest } : Rd).readExact (b1.toNat * 256 + b2.toNat + 1)
        = .ok (data, { rd with rem := rest }) :=
      Rd.readExact_ok_iff'.2 ⟨rest, rfl, hl, rfl⟩
    cases resetDict
    all_goals
      simp only [Bool.false_eq_true, if_false, if_true] at h2 ⊢
      rw [bind_run_ok h2]
      rw [bind_run_ok (a := (data, { rd with rem := rest })) (s' := s') (by rw [h3]; rfl)]
      rfl

/-! ## `parse_lzma` in staged normal form

The symbol loop (`process_mode`) is abstracted as a parameter `proc` so that no tactic ever
unfolds it (its fuel is `… * 2^32 + 1`, which `whnf` must not touch). -/

abbrev Proc := DState → Accum → RC → Rd → M (DState × Accum × RC × Rd)

/-- `process_mode` in `Finish` mode, as used by `parse_lzma` -/
@[irreducible] def lzProc : Proc := fun st a rc rd => st.processMode .finish a rc rd

theorem lzProc_eq (st : DState) (a : Accum) (rc : RC) (rd : Rd) :
    lzProc st a rc rd = st.processMode .finish a rc rd := by
  unfold lzProc; rfl

def propsOfByte (b : UInt8) : Props :=
  { lc := b.toNat % 9, lp := b.toNat / 9 % 5, pb := b.toNat / 9 / 5 }

/-- the last stage of `parse_lzma`: decode `packedSize` bytes of range-coded payload -/
def payloadStage (proc : Proc) (st : DState) (accum : Accum) (rd : Rd) (packedSize : Nat) :
    M (Lzma2Decoder × Accum × Rd) := fun s =>
  match lzErr (RC.new (rd.split packedSize).1) with
  | .error e => (s, .error e)
  | .ok (rc, taken) =>
    match proc st accum rc taken s with
    | (s1, .error e) => (s1, .error e)
    | (s1, .ok (st1, accum1, rc1, taken1)) =>
      match rc1.isFinishedOk taken1 with
      | .error e => (s1, .error e)
      | .ok fin =>
        if fin then (s1, .ok ({ lzmaState := st1 }, accum1, rd.unsplit taken1 (rd.split packedSize).2))
        else (s1, .error .lzma)

/-- the optional property byte and state reset of `parse_lzma` -/
def propsStage (d : Lzma2Decoder) (rd : Rd) (cls : Nat) : Except Err (DState × Rd) :=
  if cls ≥ 1 then
    if cls ≥ 2 then
      match lzErr rd.readU8 with
      | .error e => .error e
      | .ok (b, rd1) =>
        if b.toNat ≥ 225 then .error .lzma
        else if b.toNat % 9 + b.toNat / 9 % 5 > 4 then .error .lzma
        else
          match d.lzmaState.resetState (propsOfByte b) with
          | .error e => .error e
          | .ok st => .ok (st, rd1)
    else
      match d.lzmaState.resetState d.lzmaState.props with
      | .error e => .error e
      | .ok st => .ok (st, rd)
  else .ok (d.lzmaState, rd)

/-- `parse_lzma` in staged normal form -/
def parseLzmaNF (proc : Proc) (d : Lzma2Decoder) (accum : Accum) (rd : Rd) (status : Nat) :
    M (Lzma2Decoder × Accum × Rd) := fun s =>
  if status &&& 0x80 = 0 then (s, .error .lzma)
  else
    match lzErr rd.readU16BE with
    | .error e => (s, .error e)
    | .ok (u, rd1) =>
      match lzErr rd1.readU16BE with
      | .error e => (s, .error e)
      | .ok (p, rd2) =>
        match (if (status >>> 5) &&& 0x3 = 3 then accum.reset else pure accum) s with
        | (s0, .error e) => (s0, .error e)
        | (s0, .ok a0) =>
          match propsStage d rd2 ((status >>> 5) &&& 0x3) with
          | .error e => (s0, .error e)
          | .ok (st0, rd3) =>
            payloadStage proc
              (st0.setUnpackedSize (some ((((status &&& 0x1F) <<< 16) ||| u) + 1 + a0.len)))
              a0 rd3 (p + 1) s0

/-- the payload stage as the `do` block of the model -/
def payloadDo (proc : Proc) (st : DState) (a0 : Accum) (rd3 : Rd) (packed : Nat) :
    M (Lzma2Decoder × Accum × Rd) := do
  let (taken, rest) := rd3.split packed
  let (rc, taken) ← liftE (lzErr (RC.new taken))
  let (st, accum, rc, taken) ← proc st a0 rc taken
  let fin ← liftE (rc.isFinishedOk taken)
  if !fin then throwM .lzma
  pure ({ lzmaState := st }, accum, rd3.unsplit taken rest)

theorem payloadDo_eq (proc : Proc) (st : DState) (a0 : Accum) (rd3 : Rd) (packed : Nat) (s : Sink) :
    payloadDo proc st a0 rd3 packed s = payloadStage proc st a0 rd3 packed s := by
  unfold payloadDo payloadStage
  cases h1 : lzErr (RC.new (rd3.split packed).1) with
  | error e => simp [bind_run, h1]
  | ok x =>
    obtain ⟨rc, taken⟩ := x
    simp only [bind_run, h1, liftE_ok]
    cases h2 : proc st a0 rc taken s with
    | mk s1 r =>
      cases r with
      | error e => simp
      | ok y =>
        obtain ⟨st1, accum1, rc1, taken1⟩ := y
        simp only
        cases h3 : rc1.isFinishedOk taken1 with
        | error e => simp
        | ok fin => cases fin <;> simp [bind_run]

/-- the text of the model's `parseLzma` with the symbol loop abstracted -/
def parseLzmaDo (proc : Proc) (d : Lzma2Decoder) (accum : Accum) (rd : Rd) (status : Nat) :
    M (Lzma2Decoder × Accum × Rd) := do
  if status &&& 0x80 = 0 then throwM .lzma
  let cls := (status >>> 5) &&& 0x3
  let resetDict := cls = 3
  let resetState := cls ≥ 1
  let resetProps := cls ≥ 2
  let (u, rd) ← liftE (lzErr rd.readU16BE)
  let unpackedSize := (((status &&& 0x1F) <<< 16) ||| u) + 1
  let (p, rd) ← liftE (lzErr rd.readU16BE)
  let packedSize := p + 1
  let accum ← if resetDict then accum.reset else pure accum
  let (st, rd) ← if resetState then do
      let (newProps, rd) ← if resetProps then do
          let (props, rd) ← liftE (lzErr rd.readU8)
          let pb := props.toNat
          if pb ≥ 225 then throwM .lzma
          let lc := pb % 9
          let pb := pb / 9
          let lp := pb % 5
          let pb := pb / 5
          if lc + lp > 4 then throwM .lzma
          pure (({ lc := lc, lp := lp, pb := pb } : Props), rd)
        else pure (d.lzmaState.props, rd)
      let st ← liftE (d.lzmaState.resetState newProps)
      pure (st, rd)
    else pure (d.lzmaState, rd)
  let st := st.setUnpackedSize (some (unpackedSize + accum.len))
  let (taken, rest) := rd.split packedSize
  let (rc, taken) ← liftE (lzErr (RC.new taken))
  let (st, accum, rc, taken) ← proc st accum rc taken
  let fin ← liftE (rc.isFinishedOk taken)
  if !fin then throwM .lzma
  pure ({ lzmaState := st }, accum, rd.unsplit taken rest)

theorem parseLzma_eq_Do (d : Lzma2Decoder) (accum : Accum) (rd : Rd) (status : Nat) :
    parseLzma d accum rd status = parseLzmaDo lzProc d accum rd status := by
  unfold parseLzma parseLzmaDo
  simp only [lzProc_eq]

theorem parseLzmaDo_eq_NF (proc : Proc) (d : Lzma2Decoder) (accum : Accum) (rd : Rd) (status : Nat)
    (s : Sink) :
    parseLzmaDo proc d accum rd status s = parseLzmaNF proc d accum rd status s := by
  unfold parseLzmaNF
  split
  · rename_i h; simp [parseLzmaDo, h, bind_run]
  rename_i h80
  split
  · rename_i e h1; simp [parseLzmaDo, h80, bind_run, h1]
  rename_i u rd1 h1
  split
  · rename_i e h2; simp [parseLzmaDo, h80, bind_run, h1, h2]
  rename_i p rd2 h2
  split
  · rename_i s0 e h3
    by_cases hc : status >>> 5 &&& 3 = 3
    · simp only [hc, if_true] at h3
      simp [parseLzmaDo, h80, bind_run, h1, h2, hc, h3]
    · simp [hc] at h3
  rename_i s0 a0 h3
  unfold propsStage
  have hcase : ∀ (K : Accum → M (Lzma2Decoder × Accum × Rd)),
      (if status >>> 5 &&& 3 = 3 then accum.reset >>= K else pure accum >>= K) s = K a0 s0 := by
    intro K
    by_cases hc : status >>> 5 &&& 3 = 3
    · simp only [hc, if_true] at h3 ⊢; rw [bind_run_ok h3]
    · simp only [hc, if_false] at h3 ⊢; rw [bind_run_ok h3]
  by_cases hc1 : status >>> 5 &&& 3 ≥ 1
  · by_cases hc2 : status >>> 5 &&& 3 ≥ 2
    · simp only [parseLzmaDo, h80, bind_run, h1, h2, if_false, liftE_ok, hcase, hc1, hc2, if_true]
      cases h4 : lzErr rd2.readU8 with
      | error e => simp
      | ok x =>
        obtain ⟨b, rd3⟩ := x
        simp only [liftE_ok]
        by_cases h5 : b.toNat ≥ 225
        · simp [h5, bind_run]
        simp only [h5, if_false]
        by_cases h6 : b.toNat % 9 + b.toNat / 9 % 5 > 4
        · simp [h6, bind_run]
        simp only [h6, if_false]
        cases h7 : d.lzmaState.resetState (propsOfByte b) with
        | error e => simp [bind_run, propsOfByte] at h7 ⊢; simp [h7]
        | ok st =>
          simp only [propsOfByte] at h7
          simp only [bind_run, h7, liftE_ok, pure_run]
          exact payloadDo_eq _ _ _ _ _ _
    · simp only [parseLzmaDo, h80, bind_run, h1, h2, if_false, liftE_ok, hcase, hc1, hc2, if_true, pure_run]
      cases h7 : d.lzmaState.resetState d.lzmaState.props with
      | error e => simp [h7]
      | ok st =>
        simp only [liftE_ok, pure_run]
        exact payloadDo_eq _ _ _ _ _ _
  · simp only [parseLzmaDo, h80, bind_run, h1, h2, if_false, liftE_ok, hcase, hc1, if_true]
    simp only [pure_run]
    exact payloadDo_eq _ _ _ _ _ _

theorem parseLzma_eq_NF (d : Lzma2Decoder) (accum : Accum) (rd : Rd) (status : Nat) (s : Sink) :
    parseLzma d accum rd status s = parseLzmaNF lzProc d accum rd status s := by
  rw [parseLzma_eq_Do, parseLzmaDo_eq_NF]

theorem isFinishedOk_true_iff {rc : RC} {rd : Rd} :
    rc.isFinishedOk rd = .ok true ↔ rc.code = 0 ∧ rd.rem = [] ∧ rd.bad = false := by
  unfold RC.isFinishedOk Rd.isEof
  by_cases h : rc.code = 0
  · cases hr : rd.rem <;> cases hb : rd.bad <;> simp [h, pure, Except.pure]
  · simp [h, pure, Except.pure]

theorem payloadStage_ok_iff {proc : Proc} {st : DState} {a : Accum} {rd : Rd} {k : Nat}
    {s s' : Sink} {d' : Lzma2Decoder} {a' : Accum} {rd' : Rd} :
    payloadStage proc st a rd k s = (s', .ok (d', a', rd')) ↔
      ∃ rc tk st1 rc1 tk1, RC.new (rd.split k).1 = .ok (rc, tk) ∧
        proc st a rc tk s = (s', .ok (st1, a', rc1, tk1)) ∧
        rc1.code = 0 ∧ tk1.rem = [] ∧ tk1.bad = false ∧
        d' = { lzmaState := st1 } ∧ rd' = { rd with rem := rd.rem.drop k } := by
  unfold payloadStage
  constructor
  · intro h
    split at h
    · simp at h
    rename_i rc tk h1
    split at h
    · simp at h
    rename_i s1 st1 a1 rc1 tk1 h2
    split at h
    · simp at h
    rename_i fin h3
    split at h
    · rename_i hf
      subst hf
      simp at h
      obtain ⟨rfl, rfl, rfl, rfl⟩ := h
      obtain ⟨h4, h5, h6⟩ := isFinishedOk_true_iff.1 h3
      refine ⟨rc, tk, st1, rc1, tk1, lzErr_ok_inv h1, h2, h4, h5, h6, rfl, ?_⟩
      simp [Rd.unsplit, Rd.split, h5]
    · simp at h
  · rintro ⟨rc, tk, st1, rc1, tk1, h1, h2, h4, h5, h6, rfl, rfl⟩
    have h3 := isFinishedOk_true_iff.2 ⟨h4, h5, h6⟩
    simp only [h1, lzErr, h2, h3]
    simp [Rd.unsplit, Rd.split, h5]

theorem propsStage_ok_iff {d : Lzma2Decoder} {rd rd3 : Rd} {cls : Nat} {st0 : DState} :
    propsStage d rd cls = .ok (st0, rd3) ↔
      (cls = 0 ∧ st0 = d.lzmaState ∧ rd3 = rd) ∨
      (cls = 1 ∧ d.lzmaState.resetState d.lzmaState.props = .ok st0 ∧ rd3 = rd) ∨
      (cls ≥ 2 ∧ ∃ b rest, rd.rem = b :: rest ∧ b.toNat < 225 ∧ b.toNat % 9 + b.toNat / 9 % 5 ≤ 4 ∧
        d.lzmaState.resetState (propsOfByte b) = .ok st0 ∧ rd3 = { rd with rem := rest }) := by
  constructor
  · intro h
    unfold propsStage at h
    split at h
    · split at h
      · split at h
        · simp at h
        rename_i b rd1 h4
        split at h
        · simp at h
        split at h
        · simp at h
        split at h
        · simp at h
        rename_i h5 h6 _ st h7
        simp at h
        obtain ⟨rfl, rfl⟩ := h
        obtain ⟨rest, hr, rfl⟩ := Rd.readU8_ok_iff.1 (lzErr_ok_inv h4)
        exact Or.inr (Or.inr ⟨by assumption, b, rest, hr, by omega, by omega, h7, rfl⟩)
      · split at h
        · simp at h
        rename_i st h7
        simp at h
        obtain ⟨rfl, rfl⟩ := h
        exact Or.inr (Or.inl ⟨by omega, h7, rfl⟩)
    · simp at h
      obtain ⟨rfl, rfl⟩ := h
      exact Or.inl ⟨by omega, rfl, rfl⟩
  · rintro (⟨rfl, rfl, rfl⟩ | ⟨rfl, h, rfl⟩ | ⟨hc, b, rest, hr, hb1, hb2, h, rfl⟩)
    · simp [propsStage]
    · simp [propsStage, h]
    · have h4 : lzErr rd.readU8 = .ok (b, { rd with rem := rest }) := by
        simp [Rd.readU8, hr, lzErr]
      have hc1 : cls ≥ 1 := by omega
      have h5 : ¬ b.toNat ≥ 225 := by omega
      have h6 : ¬ b.toNat % 9 + b.toNat / 9 % 5 > 4 := by omega
      simp only [propsStage, hc, hc1, if_true, h4, h5, h6, if_false, h]


/-- the declared unpacked size of a compressed chunk -/
def lzUnpacked (status u : Nat) : Nat := (((status &&& 0x1F) <<< 16) ||| u) + 1

theorem parseLzmaNF_ok_iff {proc : Proc} {d d' : Lzma2Decoder} {a a' : Accum} {rd rd' : Rd}
    {status : Nat} {s s' : Sink} :
    parseLzmaNF proc d a rd status s = (s', .ok (d', a', rd')) ↔
      status &&& 0x80 ≠ 0 ∧
      ∃ u1 u2 p1 p2 rest s0 a0 st0 rd3 rc tk st1 rc1 tk1,
        rd.rem = u1 :: u2 :: p1 :: p2 :: rest ∧
        (if (status >>> 5) &&& 0x3 = 3 then a.reset else pure a) s = (s0, .ok a0) ∧
        propsStage d { rd with rem := rest } ((status >>> 5) &&& 0x3) = .ok (st0, rd3) ∧
        RC.new (rd3.split (p1.toNat * 256 + p2.toNat + 1)).1 = .ok (rc, tk) ∧
        proc (st0.setUnpackedSize (some (lzUnpacked status (u1.toNat * 256 + u2.toNat) + a0.len)))
          a0 rc tk s0 = (s', .ok (st1, a', rc1, tk1)) ∧
        rc1.code = 0 ∧ tk1.rem = [] ∧ tk1.bad = false ∧
        d' = { lzmaState := st1 } ∧
        rd' = { rd3 with rem := rd3.rem.drop (p1.toNat * 256 + p2.toNat + 1) } := by
  unfold parseLzmaNF
  constructor
  · intro h
    split at h
    · simp at h
    rename_i h80
    refine ⟨h80, ?_⟩
    split at h
    · simp at h
    rename_i u rd1 h1
    obtain ⟨u1, u2, r1, hr1, rfl, rfl⟩ := Rd.readU16BE_ok_iff.1 (lzErr_ok_inv h1)
    split at h
    · simp at h
    rename_i p rd2 h2
    obtain ⟨p1, p2, r2, hr2, rfl, rfl⟩ := Rd.readU16BE_ok_iff.1 (lzErr_ok_inv h2)
    dsimp only at hr2
    split at h
    · simp at h
    rename_i s0 a0 h3
    split at h
    · simp at h
    rename_i st0 rd3 h4
    obtain ⟨rc, tk, st1, rc1, tk1, g1, g2, g3, g4, g5, g6, g7⟩ := payloadStage_ok_iff.1 h
    exact ⟨u1, u2, p1, p2, r2, s0, a0, st0, rd3, rc, tk, st1, rc1, tk1, by rw [hr1, hr2], h3, h4,
      g1, g2, g3, g4, g5, g6, g7⟩
  · rintro ⟨h80, u1, u2, p1, p2, r2, s0, a0, st0, rd3, rc, tk, st1, rc1, tk1, hr, h3, h4,
      g1, g2, g3, g4, g5, g6, g7⟩
    have h1 : lzErr rd.readU16BE = .ok (u1.toNat * 256 + u2.toNat, { rd with rem := p1 :: p2 :: r2 }) := by
      rw [Rd.readU16BE_ok_iff.2 ⟨u1, u2, _, hr, rfl, rfl⟩]; rfl
    have h2 : lzErr ({ rd with rem := p1 :: p2 :: r2 } : Rd).readU16BE
        = .ok (p1.toNat * 256 + p2.toNat, { rd with rem := r2 }) := by
      rw [Rd.readU16BE_ok_iff.2 ⟨p1, p2, _, rfl, rfl, rfl⟩]; rfl
    simp only [if_neg h80, h1, h2, h3, h4]
    exact payloadStage_ok_iff.2 ⟨rc, tk, st1, rc1, tk1, g1, g2, g3, g4, g5, g6, g7⟩

theorem beBytes_two (n : Nat) : beBytes 2 n = [UInt8.ofNat (n / 256), UInt8.ofNat n] := by
  simp [beBytes, leBytes]
  constructor <;> (apply UInt8.toNat_inj.1; simp)

theorem beBytes_two_of_bytes (b1 b2 : UInt8) : beBytes 2 (b1.toNat * 256 + b2.toNat) = [b1, b2] := by
  have h1 := b1.toNat_lt; have h2 := b2.toNat_lt
  rw [beBytes_two]
  have e1 : (b1.toNat * 256 + b2.toNat) / 256 = b1.toNat := by omega
  rw [e1]
  have e2 : UInt8.ofNat (b1.toNat * 256 + b2.toNat) = b2 := by
    apply UInt8.toNat_inj.1
    simp
  rw [e2]; simp

theorem beBytes_two_val (n : Nat) (h : n < 65536) :
    ∃ b1 b2 : UInt8, beBytes 2 n = [b1, b2] ∧ b1.toNat * 256 + b2.toNat = n := by
  refine ⟨UInt8.ofNat (n / 256), UInt8.ofNat n, beBytes_two n, ?_⟩
  simp; omega

theorem lzUnpacked_eq (status u : Nat) (hu : u < 65536) :
    lzUnpacked status u = (status % 32) * 65536 + u + 1 := by
  unfold lzUnpacked
  rw [← Nat.shiftLeft_add_eq_or_of_lt (i := 16) (by simpa using hu)]
  rw [Nat.shiftLeft_eq, show (0x1F : Nat) = 2 ^ 5 - 1 from rfl, Nat.and_two_pow_sub_one_eq_mod]

theorem cls_eq : ∀ c < 256, (c >>> 5) &&& 0x3 = c / 32 % 4 := by decide +kernel
theorem and80_eq : ∀ c < 256, (c &&& 0x80 ≠ 0) = (0x80 ≤ c) := by decide +kernel


/-! ## The LZMA2 chunk grammar -/

/-- One LZMA2 chunk as it lies in the input. -/
inductive Chunk where
  /-- uncompressed chunk: control byte 1 (dictionary reset) or 2 -/
  | raw (resetDict : Bool) (data : Bytes)
  /-- LZMA chunk: control byte ≥ 0x80, declared unpacked size, optional property byte,
  range-coded payload -/
  | packed (control : UInt8) (unpackedSize : Nat) (props : Option UInt8) (payload : Bytes)
  deriving Repr, DecidableEq

namespace Chunk

def control : Chunk → UInt8
  | .raw r _ => if r then 1 else 2
  | .packed c _ _ _ => c

/-- everything after the control byte -/
def body : Chunk → Bytes
  | .raw _ data => beBytes 2 (data.length - 1) ++ data
  | .packed _ u p payload =>
    beBytes 2 ((u - 1) % 65536) ++ (beBytes 2 (payload.length - 1) ++ (p.toList ++ payload))

def bytes (c : Chunk) : Bytes := c.control :: c.body

/-- the static (syntactic) well-formedness of a chunk -/
def WF : Chunk → Prop
  | .raw _ data => 1 ≤ data.length ∧ data.length ≤ 65536
  | .packed c u p payload =>
    0x80 ≤ c.toNat ∧ 1 ≤ u ∧ (u - 1) / 65536 = c.toNat % 32 ∧
    5 ≤ payload.length ∧ payload.length ≤ 65536 ∧
    (match p with
     | none => c.toNat < 0xC0
     | some b => 0xC0 ≤ c.toNat ∧ b.toNat < 225 ∧ b.toNat % 9 + b.toNat / 9 % 5 ≤ 4)

instance (c : Chunk) : Decidable c.WF := by
  cases c with
  | raw r data => unfold WF; infer_instance
  | packed c u p payload =>
    cases p <;> (unfold WF; infer_instance)

/-- the effect of a chunk on decoder state, window and sink -/
def Exec : Chunk → Lzma2Decoder → Accum → Sink → Lzma2Decoder → Accum → Sink → Prop
  | .raw r data, d, a, s, d', a', s' =>
    d' = d ∧ ∃ a0, (if r then a.reset else pure a) s = (s', .ok a0) ∧ a' = a0.appendBytes data
  | .packed c u p payload, d, a, s, d', a', s' =>
    ∃ s0 a0 st0 rc tk st1 rc1 tk1,
      -- dictionary reset (history flushed to the sink) iff control ≥ 0xE0
      (if 0xE0 ≤ c.toNat then a.reset else pure a) s = (s0, .ok a0) ∧
      -- state reset iff control ≥ 0xA0, with the new properties if there are any
      (if 0xA0 ≤ c.toNat then
          d.lzmaState.resetState (match p with
            | some b => propsOfByte b
            | none => d.lzmaState.props)
        else .ok d.lzmaState) = .ok st0 ∧
      -- the payload is a complete range-coder stream for exactly `u` more bytes
      RC.new (Rd.ofBytes payload) = .ok (rc, tk) ∧
      (st0.setUnpackedSize (some (u + a0.len))).processMode .finish a0 rc tk s0
        = (s', .ok (st1, a', rc1, tk1)) ∧
      rc1.code = 0 ∧ tk1.rem = [] ∧ tk1.bad = false ∧
      d' = { lzmaState := st1 }

end Chunk

/-- a sequence of chunks executed from left to right -/
inductive Run : List Chunk → Lzma2Decoder → Accum → Sink → Lzma2Decoder → Accum → Sink → Prop
  | nil (d a s) : Run [] d a s d a s
  | cons {c cs d a s d1 a1 s1 d2 a2 s2} :
      c.Exec d a s d1 a1 s1 → Run cs d1 a1 s1 d2 a2 s2 → Run (c :: cs) d a s d2 a2 s2

theorem Chunk.bytes_length_pos (c : Chunk) : 1 ≤ c.bytes.length := by simp [Chunk.bytes]

theorem flatMap_bytes_length (cs : List Chunk) : cs.length ≤ (cs.flatMap Chunk.bytes).length := by
  induction cs with
  | nil => simp
  | cons c cs ih =>
    have := c.bytes_length_pos
    rw [List.flatMap_cons, List.length_append, List.length_cons]; omega

/-- an executed compressed chunk produced exactly its declared unpacked size -/
theorem Chunk.Exec.packed_len {c u p payload d a s d' a' s'}
    (h : (Chunk.packed c u p payload).Exec d a s d' a' s') :
    a'.len = (if 0xE0 ≤ c.toNat then 0 else a.len) + u := by
  obtain ⟨s0, a0, st0, rc, tk, st1, rc1, tk1, h1, h2, h3, h4, -⟩ := h
  have := (processMode_finish_size h4 rfl).1
  have e : a0.len = (if 0xE0 ≤ c.toNat then 0 else a.len) := by
    split at h1
    · simp only [Accum.reset] at h1
      obtain ⟨_, _, _, h⟩ := bind_ok_inv h1
      simp at h; rw [← h.2]; simp [*]
    · simp at h1; rw [← h1.2]; simp [*]
  change a'.len = _ at this
  omega


theorem RC.new_ok_length {rd : Rd} {rc : RC} {tk : Rd} (h : RC.new rd = .ok (rc, tk)) :
    5 ≤ rd.rem.length := by
  unfold RC.new at h
  cases h1 : rd.readU8 with
  | error e => simp [h1, bind, Except.bind] at h
  | ok x =>
    obtain ⟨b, rd1⟩ := x
    obtain ⟨rest, hr, rfl⟩ := Rd.readU8_ok_iff.1 h1
    simp only [h1, bind, Except.bind] at h
    unfold Rd.readU32BE at h
    cases h2 : ({ rd with rem := rest } : Rd).readExact 4 with
    | error e => simp [h2, bind, Except.bind] at h
    | ok y =>
      obtain ⟨bs, rd2⟩ := y
      obtain ⟨hl, -, -⟩ := Rd.readExact_ok_iff.1 h2
      simp at hl
      rw [hr]; simp; omega

theorem RC.new_short {rd : Rd} (h : rd.rem.length < 5) : ∃ e, RC.new rd = .error e := by
  cases h1 : RC.new rd with
  | error e => exact ⟨e, rfl⟩
  | ok x => obtain ⟨rc, tk⟩ := x; have := RC.new_ok_length h1; omega

/-- raw chunk: `parse_uncompressed` succeeds iff the reader holds a well-formed raw chunk body -/
theorem parseUncompressed_ok_iff_chunk {a a' : Accum} {rd rd' : Rd} {r : Bool} {s s' : Sink}
    (d : Lzma2Decoder) :
    parseUncompressed a rd r s = (s', .ok (a', rd')) ↔
      ∃ data, (Chunk.raw r data).WF ∧ rd.rem = (Chunk.raw r data).body ++ rd'.rem ∧
        rd'.bad = rd.bad ∧ (Chunk.raw r data).Exec d a s d a' s' := by
  rw [parseUncompressed_ok_iff]
  constructor
  · rintro ⟨b1, b2, data, rest, a0, hr, hl, h2, rfl, rfl⟩
    have := b1.toNat_lt; have := b2.toNat_lt
    refine ⟨data, ⟨by omega, by omega⟩, ?_, rfl, rfl, a0, h2, rfl⟩
    simp only [Chunk.body]
    rw [show data.length - 1 = b1.toNat * 256 + b2.toNat by omega, beBytes_two_of_bytes, hr]
    simp
  · rintro ⟨data, ⟨hw1, hw2⟩, hr, hb, -, a0, h2, rfl⟩
    obtain ⟨b1, b2, hbe, hv⟩ := beBytes_two_val (data.length - 1) (by omega)
    refine ⟨b1, b2, data, rd'.rem, a0, ?_, by omega, h2, rfl, ?_⟩
    · rw [hr]; simp [Chunk.body, hbe]
    · cases rd'; simp at hb ⊢; exact hb


theorem cls_cases (c : UInt8) (h80 : 0x80 ≤ c.toNat) :
    ((c.toNat >>> 5) &&& 0x3 = 3 ↔ 0xE0 ≤ c.toNat) ∧
    ((c.toNat >>> 5) &&& 0x3 ≥ 1 ↔ 0xA0 ≤ c.toNat) ∧
    ((c.toNat >>> 5) &&& 0x3 ≥ 2 ↔ 0xC0 ≤ c.toNat) := by
  have := c.toNat_lt
  rw [cls_eq _ (by simpa using this)]
  omega

/-- the state-reset clause of `Chunk.Exec` is what `propsStage` computes -/
theorem propsStage_ok_iff_chunk {d : Lzma2Decoder} {rd rd3 : Rd} {c : UInt8} {st0 : DState}
    (h80 : 0x80 ≤ c.toNat) :
    propsStage d rd ((c.toNat >>> 5) &&& 0x3) = .ok (st0, rd3) ↔
      ∃ p : Option UInt8, rd.rem = p.toList ++ rd3.rem ∧ rd3.bad = rd.bad ∧
        (match p with
         | none => c.toNat < 0xC0
         | some b => 0xC0 ≤ c.toNat ∧ b.toNat < 225 ∧ b.toNat % 9 + b.toNat / 9 % 5 ≤ 4) ∧
        (if 0xA0 ≤ c.toNat then
            d.lzmaState.resetState (match p with
              | some b => propsOfByte b
              | none => d.lzmaState.props)
          else .ok d.lzmaState) = .ok st0 := by
  obtain ⟨h3, h1, h2⟩ := cls_cases c h80
  rw [propsStage_ok_iff]
  constructor
  · rintro (⟨hc, rfl, rfl⟩ | ⟨hc, h, rfl⟩ | ⟨hc, b, rest, hr, hb1, hb2, h, rfl⟩)
    · refine ⟨none, by simp, rfl, ?_, ?_⟩
      · simp only; omega
      · rw [if_neg (by omega)]
    · refine ⟨none, by simp, rfl, ?_, ?_⟩
      · simp only; omega
      · rw [if_pos (by omega)]; exact h
    · refine ⟨some b, by simp [hr], rfl, ⟨by omega, hb1, hb2⟩, ?_⟩
      rw [if_pos (by omega)]; exact h
  · rintro ⟨p, hr, hb, hp, h⟩
    have e3 : rd3 = { rd with rem := rd3.rem } := by cases rd3; simp at hb ⊢; exact hb
    cases p with
    | none =>
      simp only at hp
      simp at hr
      have e : rd3 = rd := by rw [e3, ← hr]
      by_cases ha : 0xA0 ≤ c.toNat
      · rw [if_pos ha] at h
        exact Or.inr (Or.inl ⟨by omega, h, e⟩)
      · rw [if_neg ha] at h
        simp at h
        exact Or.inl ⟨by omega, h.symm, e⟩
    | some b =>
      simp only at hp
      rw [if_pos (by omega)] at h
      exact Or.inr (Or.inr ⟨by omega, b, rd3.rem, by simpa using hr, hp.2.1, hp.2.2, h, e3⟩)

theorem packed_step_inv {d d' : Lzma2Decoder} {a a' : Accum} {rd rd' : Rd} {c : UInt8}
    {s s' : Sink} (h : parseLzma d a rd c.toNat s = (s', .ok (d', a', rd'))) (hne : rd'.rem ≠ []) :
    ∃ u p payload, (Chunk.packed c u p payload).WF ∧
      rd.rem = (Chunk.packed c u p payload).body ++ rd'.rem ∧ rd'.bad = rd.bad ∧
      (Chunk.packed c u p payload).Exec d a s d' a' s' := by
  rw [parseLzma_eq_NF, parseLzmaNF_ok_iff] at h
  obtain ⟨h80, u1, u2, p1, p2, rest, s0, a0, st0, rd3, rc, tk, st1, rc1, tk1, hr, h3, h4, g1, g2,
    g3, g4, g5, rfl, rfl⟩ := h
  have hc := c.toNat_lt
  rw [and80_eq _ (by simpa using hc)] at h80
  obtain ⟨p, hr3, hb3, hp, hst⟩ := (propsStage_ok_iff_chunk h80).1 h4
  have := u1.toNat_lt; have := u2.toNat_lt; have := p1.toNat_lt; have := p2.toNat_lt
  have hv : u1.toNat * 256 + u2.toNat < 65536 := by omega
  dsimp only at hne hr3 hb3
  have hlen : p1.toNat * 256 + p2.toNat + 1 < rd3.rem.length := by
    exact Nat.lt_of_not_le fun hcon => hne (List.drop_eq_nil_of_le hcon)
  rw [lzUnpacked_eq c.toNat (u1.toNat * 256 + u2.toNat) hv, lzProc_eq] at g2
  refine ⟨c.toNat % 32 * 65536 + (u1.toNat * 256 + u2.toNat) + 1, p,
    rd3.rem.take (p1.toNat * 256 + p2.toNat + 1), ?_, ?_, hb3, ?_⟩
  · have := RC.new_ok_length g1
    simp [Rd.split] at this
    refine ⟨h80, by omega, by omega, ?_, ?_, hp⟩
    · simp; omega
    · simp; omega
  · simp only [Chunk.body]
    rw [show (c.toNat % 32 * 65536 + (u1.toNat * 256 + u2.toNat) + 1 - 1) % 65536
        = u1.toNat * 256 + u2.toNat by omega, beBytes_two_of_bytes]
    rw [show (List.take (p1.toNat * 256 + p2.toNat + 1) rd3.rem).length - 1
        = p1.toNat * 256 + p2.toNat by simp; omega, beBytes_two_of_bytes]
    rw [hr, hr3]; simp
  · refine ⟨s0, a0, st0, rc, tk, st1, rc1, tk1, ?_, hst, ?_, g2, g3, g4, g5, rfl⟩
    · simp only [(cls_cases c h80).1] at h3; exact h3
    · rw [← g1]; congr 1
      simp [Rd.split, Rd.ofBytes]
      intro _; omega


set_option maxRecDepth 8000 in
theorem packed_step_intro {d d' : Lzma2Decoder} {a a' : Accum} {rd : Rd} {c : UInt8}
    {u : Nat} {p : Option UInt8} {payload rest : Bytes} {s s' : Sink}
    (hwf : (Chunk.packed c u p payload).WF)
    (hex : (Chunk.packed c u p payload).Exec d a s d' a' s')
    (hr : rd.rem = (Chunk.packed c u p payload).body ++ rest) :
    parseLzma d a rd c.toNat s = (s', .ok (d', a', { rd with rem := rest })) := by
  obtain ⟨h80, hu1, hu2, hp1, hp2, hp⟩ := hwf
  obtain ⟨s0, a0, st0, rc, tk, st1, rc1, tk1, h3, hst, g1, g2, g3, g4, g5, rfl⟩ := hex
  have hc := c.toNat_lt
  obtain ⟨u1, u2, hbu, hvu⟩ := beBytes_two_val ((u - 1) % 65536) (by omega)
  obtain ⟨p1, p2, hbp, hvp⟩ := beBytes_two_val (payload.length - 1) (by omega)
  simp only [Chunk.body, hbu, hbp] at hr
  rw [parseLzma_eq_NF, parseLzmaNF_ok_iff]
  refine ⟨by rw [and80_eq _ (by simpa using hc)]; exact h80, ?_⟩
  have hpk : p1.toNat * 256 + p2.toNat + 1 = payload.length := by
    omega
  refine ⟨u1, u2, p1, p2, p.toList ++ (payload ++ rest), s0, a0, st0,
    { rd with rem := payload ++ rest }, rc, tk, st1, rc1, tk1, by simpa using hr, ?_, ?_, ?_, ?_,
    g3, g4, g5, rfl, ?_⟩
  · simp only [(cls_cases c h80).1]; exact h3
  · exact (propsStage_ok_iff_chunk h80).2 ⟨p, rfl, rfl, hp, hst⟩
  · rw [← g1]; congr 1
    simp [Rd.split, Rd.ofBytes, hpk]
  · rw [lzUnpacked_eq c.toNat _ (by omega), lzProc_eq, hvu]
    rw [show c.toNat % 32 * 65536 + (u - 1) % 65536 + 1 = u by omega]
    exact g2
  · simp [hpk]


/-- one iteration of the chunk loop, in match form -/
theorem chunkLoop_succ (fuel : Nat) (d : Lzma2Decoder) (a : Accum) (rd : Rd) (s : Sink) :
    chunkLoop (fuel + 1) d a rd s =
      match lzErr rd.readU8 with
      | .error e => (s, .error e)
      | .ok (c, rd1) =>
        if c.toNat = 0 then (s, .ok (d, a, rd1))
        else if c.toNat = 1 then
          match parseUncompressed a rd1 true s with
          | (s1, .error e) => (s1, .error e)
          | (s1, .ok (a1, rd2)) => chunkLoop fuel d a1 rd2 s1
        else if c.toNat = 2 then
          match parseUncompressed a rd1 false s with
          | (s1, .error e) => (s1, .error e)
          | (s1, .ok (a1, rd2)) => chunkLoop fuel d a1 rd2 s1
        else
          match parseLzma d a rd1 c.toNat s with
          | (s1, .error e) => (s1, .error e)
          | (s1, .ok (d1, a1, rd2)) => chunkLoop fuel d1 a1 rd2 s1 := by
  rw [chunkLoop]
  cases h1 : lzErr rd.readU8 with
  | error e => simp [bind_run]
  | ok x =>
    obtain ⟨c, rd1⟩ := x
    simp only [bind_run, liftE_ok]
    by_cases h0 : c.toNat = 0
    · simp [h0]
    by_cases h1 : c.toNat = 1
    · simp only [if_neg h0, if_pos h1]
      cases hr : parseUncompressed a rd1 true s with
      | mk s1 r =>
        cases r with
        | error e => simp only [bind_run_error hr]
        | ok y => simp only [bind_run_ok hr]
    by_cases h2 : c.toNat = 2
    · simp only [if_neg h0, if_neg h1, if_pos h2]
      cases hr : parseUncompressed a rd1 false s with
      | mk s1 r =>
        cases r with
        | error e => simp only [bind_run_error hr]
        | ok y => simp only [bind_run_ok hr]
    · simp only [if_neg h0, if_neg h1, if_neg h2]
      cases hr : parseLzma d a rd1 c.toNat s with
      | mk s1 r =>
        cases r with
        | error e => simp only [bind_run_error hr]
        | ok y => simp only [bind_run_ok hr]

theorem Rd.eq_of_rem_bad {r r' : Rd} (h1 : r'.rem = r.rem) (h2 : r'.bad = r.bad) : r' = r := by
  cases r; cases r'; simp at h1 h2; simp [h1, h2]

theorem readU8_lzErr_ok_iff {rd rd1 : Rd} {c : UInt8} :
    lzErr rd.readU8 = .ok (c, rd1) ↔ rd.rem = c :: rd1.rem ∧ rd1.bad = rd.bad := by
  constructor
  · intro h
    obtain ⟨rest, hr, rfl⟩ := Rd.readU8_ok_iff.1 (lzErr_ok_inv h)
    exact ⟨hr, rfl⟩
  · rintro ⟨h1, h2⟩
    rw [Rd.readU8_ok_iff.2 ⟨rd1.rem, h1, (Rd.eq_of_rem_bad (r := rd1) (r' := { rd with rem := rd1.rem }) rfl h2.symm).symm⟩]; rfl

theorem chunkLoop_ok_inv (fuel : Nat) : ∀ {d d' : Lzma2Decoder} {a a' : Accum} {rd rd' : Rd}
    {s s' : Sink}, chunkLoop fuel d a rd s = (s', .ok (d', a', rd')) →
    ∃ cs : List Chunk, cs.length < fuel ∧ (∀ c ∈ cs, c.WF) ∧
      rd.rem = cs.flatMap Chunk.bytes ++ 0 :: rd'.rem ∧ rd'.bad = rd.bad ∧
      Run cs d a s d' a' s' := by
  induction fuel with
  | zero => intro d d' a a' rd rd' s s' h; simp [chunkLoop] at h
  | succ fuel ih =>
    intro d d' a a' rd rd' s s' h
    rw [chunkLoop_succ] at h
    split at h
    · simp at h
    rename_i c rd1 h1
    obtain ⟨hr1, hb1⟩ := readU8_lzErr_ok_iff.1 h1
    split at h
    · rename_i h0
      simp at h
      obtain ⟨rfl, rfl, rfl, rfl⟩ := h
      have : c = 0 := UInt8.toNat_inj.1 (by simpa using h0)
      subst this
      exact ⟨[], by simp, by simp, by simpa using hr1, hb1, Run.nil _ _ _⟩
    rename_i h0
    split at h
    · rename_i hc1
      have : c = 1 := UInt8.toNat_inj.1 (by simpa using hc1)
      subst this
      split at h
      · simp at h
      rename_i s1 a1 rd2 h2
      obtain ⟨data, hwf, hr2, hb2, hex⟩ := (parseUncompressed_ok_iff_chunk d).1 h2
      obtain ⟨cs, hl, hwfs, hr3, hb3, hrun⟩ := ih h
      refine ⟨Chunk.raw true data :: cs, by simp; omega, ?_, ?_, by rw [hb3, hb2, hb1],
        Run.cons hex hrun⟩
      · intro c hc; simp at hc; rcases hc with rfl | hc
        · exact hwf
        · exact hwfs c hc
      · rw [hr1, hr2, hr3]; simp [Chunk.bytes, Chunk.control]
    rename_i hc1
    split at h
    · rename_i hc2
      have : c = 2 := UInt8.toNat_inj.1 (by simpa using hc2)
      subst this
      split at h
      · simp at h
      rename_i s1 a1 rd2 h2
      obtain ⟨data, hwf, hr2, hb2, hex⟩ := (parseUncompressed_ok_iff_chunk d).1 h2
      obtain ⟨cs, hl, hwfs, hr3, hb3, hrun⟩ := ih h
      refine ⟨Chunk.raw false data :: cs, by simp; omega, ?_, ?_, by rw [hb3, hb2, hb1],
        Run.cons hex hrun⟩
      · intro c hc; simp at hc; rcases hc with rfl | hc
        · exact hwf
        · exact hwfs c hc
      · rw [hr1, hr2, hr3]; simp [Chunk.bytes, Chunk.control]
    rename_i hc2
    split at h
    · simp at h
    rename_i s1 d1 a1 rd2 h2
    obtain ⟨cs, hl, hwfs, hr3, hb3, hrun⟩ := ih h
    have hne : rd2.rem ≠ [] := by rw [hr3]; simp
    obtain ⟨u, p, payload, hwf, hr2, hb2, hex⟩ := packed_step_inv h2 hne
    refine ⟨Chunk.packed c u p payload :: cs, by simp; omega, ?_, ?_, by rw [hb3, hb2, hb1],
      Run.cons hex hrun⟩
    · intro c hc; simp at hc; rcases hc with rfl | hc
      · exact hwf
      · exact hwfs c hc
    · rw [hr1, hr2, hr3]; simp [Chunk.bytes, Chunk.control]


theorem chunkLoop_ok_intro : ∀ (cs : List Chunk) {fuel : Nat} {d d' : Lzma2Decoder} {a a' : Accum}
    {rd rd' : Rd} {s s' : Sink}, cs.length < fuel → (∀ c ∈ cs, c.WF) →
    rd.rem = cs.flatMap Chunk.bytes ++ 0 :: rd'.rem → rd'.bad = rd.bad →
    Run cs d a s d' a' s' → chunkLoop fuel d a rd s = (s', .ok (d', a', rd')) := by
  intro cs
  induction cs with
  | nil =>
    intro fuel d d' a a' rd rd' s s' hl _ hr hb hrun
    cases hrun
    obtain ⟨fuel, rfl⟩ : ∃ f, fuel = f + 1 := ⟨fuel - 1, by simp at hl; omega⟩
    rw [chunkLoop_succ, readU8_lzErr_ok_iff.2 ⟨by simpa using hr, hb⟩]
    simp
  | cons c cs ih =>
    intro fuel d d' a a' rd rd' s s' hl hwf hr hb hrun
    obtain ⟨fuel, rfl⟩ : ∃ f, fuel = f + 1 := ⟨fuel - 1, by simp at hl; omega⟩
    cases hrun with
    | cons hex hrun =>
    rename_i d1 a1 s1
    have hwfc := hwf c (by simp)
    have hwfs : ∀ c ∈ cs, c.WF := fun c hc => hwf c (by simp [hc])
    have hl' : cs.length < fuel := by simp at hl; omega
    -- the reader after the control byte, and after the chunk
    have hr1 : rd.rem = c.control ::
        ({ rd with rem := c.body ++ (cs.flatMap Chunk.bytes ++ 0 :: rd'.rem) } : Rd).rem := by
      rw [hr]; simp [Chunk.bytes]
    rw [chunkLoop_succ, readU8_lzErr_ok_iff.2 ⟨hr1, rfl⟩]
    have hrest : ({ rd with rem := cs.flatMap Chunk.bytes ++ 0 :: rd'.rem } : Rd).rem
        = cs.flatMap Chunk.bytes ++ 0 :: rd'.rem := rfl
    have hnext := ih (rd := { rd with rem := cs.flatMap Chunk.bytes ++ 0 :: rd'.rem })
      hl' hwfs hrest hb hrun
    cases c with
    | raw r data =>
      have hd : d1 = d := hex.1
      subst hd
      have hpu := (parseUncompressed_ok_iff_chunk (rd := { rd with rem := (Chunk.raw r data).body ++
        (cs.flatMap Chunk.bytes ++ 0 :: rd'.rem) })
        (rd' := { rd with rem := cs.flatMap Chunk.bytes ++ 0 :: rd'.rem }) d1).2
        ⟨data, hwfc, rfl, rfl, hex⟩
      cases r
      · simp only [Chunk.control]
        simp [hpu, hnext]
      · simp only [Chunk.control]
        simp [hpu, hnext]
    | packed c u p payload =>
      have h80 : 0x80 ≤ c.toNat := hwfc.1
      have hpl := packed_step_intro (rd := { rd with rem := (Chunk.packed c u p payload).body ++
        (cs.flatMap Chunk.bytes ++ 0 :: rd'.rem) }) hwfc hex rfl
      simp only [Chunk.control]
      have e0 : ¬ c.toNat = 0 := by omega
      have e1 : ¬ c.toNat = 1 := by omega
      have e2 : ¬ c.toNat = 2 := by omega
      simp only [e0, e1, e2, if_false, hpl]
      exact hnext


theorem chunkLoop_ok_iff {fuel : Nat} {d d' : Lzma2Decoder} {a a' : Accum} {rd rd' : Rd}
    {s s' : Sink} :
    chunkLoop fuel d a rd s = (s', .ok (d', a', rd')) ↔
      ∃ cs : List Chunk, cs.length < fuel ∧ (∀ c ∈ cs, c.WF) ∧
        rd.rem = cs.flatMap Chunk.bytes ++ 0 :: rd'.rem ∧ rd'.bad = rd.bad ∧
        Run cs d a s d' a' s' :=
  ⟨chunkLoop_ok_inv fuel, fun ⟨cs, h1, h2, h3, h4, h5⟩ => chunkLoop_ok_intro cs h1 h2 h3 h4 h5⟩

/-- the decoder `Lzma2Decoder::new()` returns -/
def Lzma2Decoder.init : Lzma2Decoder :=
  { lzmaState := { props := zeroProps, unpackedSize := none, probs := Probs.init 1 } }

theorem Lzma2Decoder.new_eq : Lzma2Decoder.new = .ok Lzma2Decoder.init := by
  simp [Lzma2Decoder.new, DState.new, Props.validate, zeroProps, Lzma2Decoder.init, bind, Except.bind,
    pure, Except.pure]

theorem decompress_ok_iff {d d' : Lzma2Decoder} {rd rd' : Rd} {s s' : Sink} :
    d.decompress rd s = (s', .ok (d', rd')) ↔
      ∃ (cs : List Chunk) (a' : Accum) (s1 : Sink), (∀ c ∈ cs, c.WF) ∧
        rd.rem = cs.flatMap Chunk.bytes ++ 0 :: rd'.rem ∧ rd'.bad = rd.bad ∧
        Run cs d (Accum.fromStream USIZE_MAX) s d' a' s1 ∧ a'.finish s1 = (s', .ok ()) := by
  unfold decompress
  constructor
  · intro h
    obtain ⟨⟨d1, a1, rd1⟩, s1, h1, h⟩ := bind_ok_inv h
    obtain ⟨_, s2, h2, h⟩ := bind_ok_inv h
    simp at h
    obtain ⟨rfl, rfl, rfl⟩ := h
    obtain ⟨cs, -, hwf, hr, hb, hrun⟩ := chunkLoop_ok_iff.1 h1
    exact ⟨cs, a1, s1, hwf, hr, hb, hrun, h2⟩
  · rintro ⟨cs, a', s1, hwf, hr, hb, hrun, hfin⟩
    have hl : cs.length < rd.rem.length + 1 := by
      have := flatMap_bytes_length cs
      rw [hr, List.length_append, List.length_cons]; omega
    have h1 := chunkLoop_ok_iff.2 ⟨cs, hl, hwf, hr, hb, hrun⟩
    rw [bind_run_ok h1]
    dsimp only
    rw [bind_run_ok hfin]
    rfl

theorem lzma2Decompress_ok_iff {rd rd' : Rd} {s s' : Sink} :
    lzma2Decompress rd s = (s', .ok rd') ↔
      ∃ (cs : List Chunk) (d' : Lzma2Decoder) (a' : Accum) (s1 : Sink), (∀ c ∈ cs, c.WF) ∧
        rd.rem = cs.flatMap Chunk.bytes ++ 0 :: rd'.rem ∧ rd'.bad = rd.bad ∧
        Run cs Lzma2Decoder.init (Accum.fromStream USIZE_MAX) s d' a' s1 ∧
        a'.finish s1 = (s', .ok ()) := by
  unfold lzma2Decompress
  rw [Lzma2Decoder.new_eq]
  constructor
  · intro h
    obtain ⟨d0, s0, h0, h⟩ := bind_ok_inv h
    simp at h0
    obtain ⟨rfl, rfl⟩ := h0
    obtain ⟨⟨d1, rd1⟩, s1, h1, h⟩ := bind_ok_inv h
    simp at h
    obtain ⟨rfl, rfl⟩ := h
    obtain ⟨cs, a', s1, h⟩ := decompress_ok_iff.1 h1
    exact ⟨cs, d1, a', s1, h⟩
  · rintro ⟨cs, d', a', s1, h⟩
    have h1 := decompress_ok_iff.2 ⟨cs, a', s1, h⟩
    simp only [bind_run, liftE_ok, h1, pure_run]


theorem write1_error {s s' : Sink} {bs : Bytes} {e : Err} (h : s.write1 bs = (s', .error e)) :
    e = .io := by
  unfold Sink.write1 at h
  split at h <;> simp at h
  exact h.2.symm

theorem writeAllList_error : ∀ (n : Nat) (bs : Bytes), bs.length ≤ n → ∀ {s s' : Sink} {e : Err},
    writeAllList bs s = (s', .error e) → e = .io := by
  intro n
  induction n with
  | zero =>
    intro bs hl s s' e h
    have : bs = [] := List.eq_nil_of_length_eq_zero (by omega)
    subst this
    unfold writeAllList at h
    simp at h
  | succ n ih =>
    intro bs hl s s' e h
    unfold writeAllList at h
    split at h
    · simp at h
    · split at h
      · rename_i h1
        simp at h
        rw [← h.2]; exact write1_error h1
      · split at h
        · simp at h; exact h.2.symm
        · split at h
          · simp at h
          · rename_i k _ hk0 hk
            exact ih (bs.drop k) (by simp; omega) h

theorem writeAll_error {bs : Array UInt8} {s s' : Sink} {e : Err}
    (h : writeAll bs s = (s', .error e)) : e = .io := by
  unfold writeAll at h
  split at h
  · simp at h
  · split at h
    · simp at h
    · exact writeAllList_error _ _ (Nat.le_refl _) h

theorem writeAll_perfect {bs : Array UInt8} {s : Sink} (hs : s.script = []) :
    ∃ s', writeAll bs s = (s', .ok ()) ∧ s'.script = [] := by
  unfold writeAll
  split
  · exact ⟨s, rfl, hs⟩
  · simp [hs]

theorem Accum.reset_error {a : Accum} {s s' : Sink} {e : Err}
    (h : a.reset s = (s', .error e)) : e = .io := by
  unfold Accum.reset at h
  rw [bind_run] at h
  split at h
  · simp at h
  · rename_i h1; simp at h; rw [← h.2]; exact writeAll_error h1

/-- the result of the optional dictionary reset: an error can only be an I/O error of the sink -/
theorem optReset_error {c : Prop} [Decidable c] {a : Accum} {s s' : Sink} {e : Err}
    (h : (if c then a.reset else pure a) s = (s', .error e)) : e = .io := by
  split at h
  · exact Accum.reset_error h
  · simp at h


/-- the optional dictionary reset either succeeds or fails with the sink's I/O error (which
needs a scripted sink) -/
theorem optReset_result (c : Prop) [Decidable c] (a : Accum) (s : Sink) :
    (∃ s0 a0, (if c then a.reset else pure a) s = (s0, .ok a0)) ∨
    (c ∧ s.script ≠ [] ∧ ∃ s0, (if c then a.reset else pure a) s = (s0, .error .io)) := by
  by_cases hc : c
  · simp only [hc, if_true]
    cases h : a.reset s with
    | mk s0 r =>
      cases r with
      | ok a0 => exact Or.inl ⟨s0, a0, rfl⟩
      | error e =>
        have := Accum.reset_error h
        subst this
        refine Or.inr ⟨trivial, ?_, s0, rfl⟩
        intro hs
        obtain ⟨s1, h1, -⟩ := writeAll_perfect (bs := a.buf) hs
        simp [Accum.reset, bind_run, h1] at h
  · simp only [hc, if_false]
    exact Or.inl ⟨s, a, rfl⟩

theorem chunkLoop_of_parseLzma_error {fuel : Nat} {d : Lzma2Decoder} {a : Accum} {rd : Rd}
    {s s' : Sink} {c : UInt8} {rest : Bytes} {e : Err} (hr : rd.rem = c :: rest)
    (h3 : 3 ≤ c.toNat)
    (h : parseLzma d a { rd with rem := rest } c.toNat s = (s', .error e)) :
    chunkLoop (fuel + 1) d a rd s = (s', .error e) := by
  have h1 : lzErr rd.readU8 = .ok (c, { rd with rem := rest }) :=
    readU8_lzErr_ok_iff.2 ⟨hr, rfl⟩
  rw [chunkLoop_succ, h1]
  have e0 : ¬ c.toNat = 0 := by omega
  have e1 : ¬ c.toNat = 1 := by omega
  have e2 : ¬ c.toNat = 2 := by omega
  simp only [e0, e1, e2, if_false, h]

theorem chunkLoop_of_parseUncompressed_error {fuel : Nat} {d : Lzma2Decoder} {a : Accum} {rd : Rd}
    {s s' : Sink} {c : UInt8} {rest : Bytes} {e : Err} (hr : rd.rem = c :: rest)
    (hc : c.toNat = 1 ∨ c.toNat = 2)
    (h : parseUncompressed a { rd with rem := rest } (decide (c.toNat = 1)) s = (s', .error e)) :
    chunkLoop (fuel + 1) d a rd s = (s', .error e) := by
  have h1 : lzErr rd.readU8 = .ok (c, { rd with rem := rest }) :=
    readU8_lzErr_ok_iff.2 ⟨hr, rfl⟩
  rw [chunkLoop_succ, h1]
  rcases hc with hc | hc
  · have e0 : ¬ c.toNat = 0 := by omega
    simp only [hc, decide_true] at h
    simp only [if_neg e0, if_pos hc, h]
  · have e0 : ¬ c.toNat = 0 := by omega
    have e1 : ¬ c.toNat = 1 := by omega
    simp only [e1, decide_false] at h
    simp only [if_neg e0, if_neg e1, if_pos hc, h]

theorem readU16BE_short {rd : Rd} (h : rd.rem.length < 2) : lzErr rd.readU16BE = .error .lzma := by
  cases h1 : rd.readU16BE with
  | error e => rfl
  | ok x =>
    obtain ⟨v, rd1⟩ := x
    obtain ⟨b1, b2, rest, hr, -, -⟩ := Rd.readU16BE_ok_iff.1 h1
    rw [hr] at h; simp at h; omega

theorem readU16BE_cons2 (b1 b2 : UInt8) (rest : Bytes) (bad : Bool) :
    lzErr ({ rem := b1 :: b2 :: rest, bad := bad } : Rd).readU16BE
      = .ok (b1.toNat * 256 + b2.toNat, { rem := rest, bad := bad }) := by
  rw [Rd.readU16BE_ok_iff.2 ⟨b1, b2, rest, rfl, rfl, rfl⟩]; rfl

theorem readExact_short {rd : Rd} {n : Nat} (h : rd.rem.length < n) :
    lzErr (rd.readExact n) = .error .lzma := by
  unfold Rd.readExact
  rw [if_neg (by omega)]; rfl


/-- A successful LZMA2 decode depends only on the bytes it consumed: they end with the `0`
control byte, and the same bytes followed by anything else (and any reader end kind) give the
same sink, the same verdict and leave the reader exactly at what follows. -/
theorem lzma2Decompress_tail_irrelevant {rd rd' : Rd} {s s' : Sink}
    (h : lzma2Decompress rd s = (s', .ok rd')) :
    ∃ pre, rd.rem = pre ++ 0 :: rd'.rem ∧ rd'.bad = rd.bad ∧
      ∀ (t : Bytes) (bad : Bool),
        lzma2Decompress { rem := pre ++ 0 :: t, bad := bad } s = (s', .ok { rem := t, bad := bad }) := by
  obtain ⟨cs, d', a', s1, hwf, hr, hb, hrun, hfin⟩ := lzma2Decompress_ok_iff.1 h
  refine ⟨cs.flatMap Chunk.bytes, hr, hb, fun t bad => ?_⟩
  exact lzma2Decompress_ok_iff.2 ⟨cs, d', a', s1, hwf, rfl, rfl, hrun, hfin⟩

/-- no strict prefix of the consumed part of a valid LZMA2 stream is accepted -/
theorem lzma2Decompress_strict_prefix_error {rd rd' : Rd} {s s' : Sink}
    (h : lzma2Decompress rd s = (s', .ok rd')) (y z : Bytes)
    (hy : rd.rem = y ++ z ++ rd'.rem) (hz : z ≠ []) (bad : Bool) :
    ∃ s2 e, lzma2Decompress { rem := y, bad := bad } s = (s2, .error e) := by
  cases h2 : lzma2Decompress { rem := y, bad := bad } s with
  | mk s2 r =>
    cases r with
    | error e => exact ⟨s2, e, rfl⟩
    | ok rd2 =>
      exfalso
      obtain ⟨pre2, hr2, -, hall⟩ := lzma2Decompress_tail_irrelevant h2
      dsimp only at hr2
      have h3 := hall (rd2.rem ++ z ++ rd'.rem) rd.bad
      have e : ({ rem := pre2 ++ 0 :: (rd2.rem ++ z ++ rd'.rem), bad := rd.bad } : Rd) = rd := by
        apply Rd.eq_of_rem_bad
        · show pre2 ++ 0 :: (rd2.rem ++ z ++ rd'.rem) = rd.rem
          rw [hy, hr2]; simp
        · rfl
      rw [e, h] at h3
      simp at h3
      have := congrArg (fun r => r.rem.length) h3.2
      simp at this
      have : z.length = 0 := by omega
      exact hz (List.eq_nil_of_length_eq_zero this)

section
open DState
variable {ω : Type} [LzBuf ω]

theorem isFinishedOk_true_rem {rc : RC} {rd : Rd} (h : rc.isFinishedOk rd = .ok true) :
    rd.rem = [] := (isFinishedOk_true_iff.1 h).2.1

/-- `applySym` keeps `partial_input_buf`, and reports `finished` only after `is_finished_ok` -/
theorem applySym_partialBuf_finished {st : DState} {w : ω} {rc : RC} {rd : Rd} {sym : RawSym}
    {s s' : Sink} {status : Status} {st' : DState} {w' : ω}
    (h : applySym st w rc rd sym s = (s', .ok (status, st', w'))) :
    st'.partialBuf = st.partialBuf ∧ (status = .finished → rd.rem = []) := by
  cases sym with
  | lit byte =>
    simp only [applySym] at h
    obtain ⟨a, s1, -, h2⟩ := bind_ok_inv h
    simp at h2; rw [← h2.2.2.1, ← h2.2.1]; simp
  | shortRep =>
    simp only [applySym] at h
    obtain ⟨a, s1, -, h2⟩ := bind_ok_inv h
    simp at h2; rw [← h2.2.2.1, ← h2.2.1]; simp
  | rep idx len =>
    simp only [applySym] at h
    obtain ⟨a, s1, -, h2⟩ := bind_ok_inv h
    simp at h2; rw [← h2.2.2.1, ← h2.2.1]
    refine ⟨?_, by simp⟩
    split <;> rfl
  | mtch len r0 =>
    simp only [applySym] at h
    split at h
    · obtain ⟨fin, s1, h1, h2⟩ := bind_ok_inv h
      split at h2
      · rename_i hf
        simp at h2; rw [← h2.2.2.1]
        refine ⟨rfl, fun _ => ?_⟩
        subst hf
        exact isFinishedOk_true_rem (liftE_ok_inv h1).1
      · simp at h2
    · obtain ⟨a, s1, -, h2⟩ := bind_ok_inv h
      simp at h2; rw [← h2.2.2.1, ← h2.2.1]; simp

theorem processNext_partialBuf_finished {st : DState} {w : ω} {rc : RC} {rd : Rd}
    {s s' : Sink} {status : Status} {st' : DState} {w' : ω} {rc' : RC} {rd' : Rd}
    (h : processNext st w rc rd s = (s', .ok (status, st', w', rc', rd'))) :
    st'.partialBuf = st.partialBuf ∧ (status = .finished → rd'.rem = []) := by
  simp only [processNext] at h
  obtain ⟨⟨sym, probs, rc1, rd1⟩, s1, -, h2⟩ := bind_ok_inv h
  obtain ⟨⟨st2, s2, w2⟩, s3, h3, h4⟩ := bind_ok_inv h2
  simp at h4
  obtain ⟨rfl, rfl, rfl, rfl, rfl, rfl⟩ := h4
  have := applySym_partialBuf_finished h3
  exact this

/-- In `Finish` mode with no size in effect and an empty `partial_input_buf`, both exits of
the `process_mode` loop go through `is_finished_ok`, so the reader is at EOF. -/
theorem processLoop_finish_none_eof (fuel : Nat) :
    ∀ {st : DState} {w : ω} {rc : RC} {rd : Rd} {s s' : Sink}
      {st' : DState} {w' : ω} {rc' : RC} {rd' : Rd},
      processLoop .finish fuel st w rc rd s = (s', .ok (st', w', rc', rd')) →
      st.unpackedSize = none → st.partialBuf = [] → rd'.rem = [] := by
  induction fuel with
  | zero => intro st w rc rd s s' st' w' rc' rd' h; simp [processLoop] at h
  | succ fuel ih =>
    intro st w rc rd s s' st' w' rc' rd' h hn hp
    simp only [processLoop] at h
    obtain ⟨stop, s1, h0, h⟩ := bind_ok_inv h
    have h0' := (liftE_ok_inv h0).1
    rw [hn] at h0'
    simp only [show ¬ (Mode.finish = Mode.stream) by decide] at h
    split at h
    · rename_i hstop
      simp at h
      obtain ⟨-, -, -, -, rfl⟩ := h
      cases hf : rc.isFinishedOk rd with
      | error e => simp [hf, bind, Except.bind] at h0'
      | ok f =>
        simp [hf, bind, Except.bind, pure, Except.pure] at h0'
        subst h0'
        simp at hstop
        exact isFinishedOk_true_rem (by rw [hf, hstop.1])
    · rw [hp] at h
      simp only [List.isEmpty_nil, Bool.not_true, Bool.false_eq_true, if_false, false_and] at h
      obtain ⟨_, s2, -, h⟩ := bind_ok_inv h
      obtain ⟨⟨status, st2, w2, rc2, rd2⟩, s3, h2, h⟩ := bind_ok_inv h
      obtain ⟨e1, e2⟩ := processNext_partialBuf_finished h2
      have e3 := processNext_unpackedSize h2
      dsimp only at h
      split at h
      · rename_i hfin
        simp at h
        obtain ⟨-, -, -, -, rfl⟩ := h
        exact e2 hfin
      · exact ih h (by rw [e3, hn]) (by rw [e1, hp])

theorem processMode_finish_none_eof {st : DState} {w : ω} {rc : RC} {rd : Rd} {s s' : Sink}
    {st' : DState} {w' : ω} {rc' : RC} {rd' : Rd}
    (h : processMode .finish st w rc rd s = (s', .ok (st', w', rc', rd')))
    (hn : st.unpackedSize = none) (hp : st.partialBuf = []) : rd'.rem = [] := by
  simp only [processMode] at h
  obtain ⟨⟨st1, w1, rc1, rd1⟩, s1, h1, h⟩ := bind_ok_inv h
  have e := processLoop_unpackedSize _ _ h1
  have r := processLoop_finish_none_eof _ h1 hn hp
  dsimp only at h
  rw [e, hn] at h
  simp at h
  rw [← h.2.2.2.2]; exact r

end

theorem throwM_bind_ok {e : Err} {f : α → M β} {s s' : Sink} {b : β}
    (h : (throwM e >>= f) s = (s', .ok b)) : False := by
  simp [bind_run] at h

theorem xzDecompress_ok_eof {rd rd' : Rd} {s s' : Sink}
    (h : xzDecompress rd s = (s', .ok rd')) : rd'.rem = [] := by
  unfold xzDecompress at h
  obtain ⟨⟨check, rd1⟩, s1, -, h⟩ := bind_ok_inv h
  dsimp only at h
  split at h
  · exact (throwM_bind_ok h).elim
  obtain ⟨⟨indexSize, rd2⟩, s2, -, h⟩ := bind_ok_inv h
  obtain ⟨⟨crc, rd3⟩, s3, -, h⟩ := bind_ok_inv h
  obtain ⟨⟨bsBytes, rd4⟩, s4, -, h⟩ := bind_ok_inv h
  dsimp only at h
  split at h
  · exact (throwM_bind_ok h).elim
  obtain ⟨⟨flagBytes, rd5⟩, s5, -, h⟩ := bind_ok_inv h
  obtain ⟨flags, s6, -, h⟩ := bind_ok_inv h
  dsimp only at h
  split at h
  · exact (throwM_bind_ok h).elim
  split at h
  · exact (throwM_bind_ok h).elim
  obtain ⟨⟨ok, rd6⟩, s7, -, h⟩ := bind_ok_inv h
  dsimp only at h
  split at h
  · exact (throwM_bind_ok h).elim
  obtain ⟨eof, s8, h8, h⟩ := bind_ok_inv h
  split at h
  · exact (throwM_bind_ok h).elim
  rename_i hne
  simp at h hne
  obtain ⟨-, rfl⟩ := h
  have := (liftE_ok_inv h8).1
  subst hne
  unfold Rd.isEof at this
  split at this
  · rename_i he; simpa using he
  · simp at this


theorem Except.bind_ok_inv {x : Except Err α} {f : α → Except Err β} {b : β}
    (h : (x >>= f) = .ok b) : ∃ a, x = .ok a ∧ f a = .ok b := by
  cases x with
  | error e => simp [bind, Except.bind] at h
  | ok a => exact ⟨a, rfl, h⟩

theorem hdrErr_ok_inv {e : Except Err α} {a : α} (h : hdrErr e = .ok a) : e = .ok a := by
  cases e <;> simp_all [hdrErr]

/-- which size is in effect after `read_header` -/
theorem readHeader_unpackedSize {rd rd1 : Rd} {opts : Options} {params : LzmaParams}
    (h : readHeader rd opts = .ok (params, rd1)) :
    params.unpackedSize =
      match opts.unpackedSize with
      | .readFromHeader =>
        if leVal ((rd.rem.drop 5).take 8) = 0xFFFFFFFFFFFFFFFF then none
        else some (leVal ((rd.rem.drop 5).take 8))
      | .readHeaderButUseProvided x => x
      | .useProvided x => x := by
  unfold readHeader at h
  obtain ⟨⟨props, rd2⟩, h1, h⟩ := Except.bind_ok_inv h
  obtain ⟨r2, hr2, rfl⟩ := Rd.readU8_ok_iff.1 (hdrErr_ok_inv h1)
  dsimp only at h
  split at h
  · simp [bind, Except.bind, throw, throwThe, MonadExceptOf.throw] at h
  obtain ⟨⟨dictProvided, rd3⟩, h2, h⟩ := Except.bind_ok_inv h
  unfold Rd.readU32LE at h2
  obtain ⟨⟨bs4, rd3'⟩, h2', h2''⟩ := Except.bind_ok_inv (hdrErr_ok_inv h2)
  obtain ⟨r3, hr3, hl3, rfl⟩ := Rd.readExact_ok_iff'.1 h2'
  simp [pure, Except.pure] at h2''
  obtain ⟨rfl, rfl⟩ := h2''
  dsimp only at h hr3
  have hdrop : rd.rem.drop 5 = r3 := by
    rw [hr2, hr3]
    match bs4, hl3 with
    | [a, b, c, d], _ => rfl
  cases ho : opts.unpackedSize with
  | readFromHeader =>
    rw [ho] at h
    dsimp only at h ⊢
    obtain ⟨⟨u, rd5⟩, h4, h5⟩ := Except.bind_ok_inv h
    unfold Rd.readU64LE at h4
    obtain ⟨⟨bs8, rd5'⟩, h4', h4''⟩ := Except.bind_ok_inv (hdrErr_ok_inv h4)
    obtain ⟨hl, rfl, rfl⟩ := Rd.readExact_ok_iff.1 h4'
    simp [pure, Except.pure, bind, Except.bind] at h4'' h5
    obtain ⟨rfl, rfl⟩ := h4''
    rw [← h5.1, hdrop]
  | readHeaderButUseProvided x =>
    rw [ho] at h
    dsimp only at h ⊢
    obtain ⟨⟨u, rd5⟩, h4, h5⟩ := Except.bind_ok_inv h
    simp [pure, Except.pure, bind, Except.bind] at h5
    rw [← h5.1]
  | useProvided x =>
    rw [ho] at h
    simp [pure, Except.pure, bind, Except.bind] at h
    rw [← h.1]

open DState in
/-- `lzma_decompress` with no unpacked size in effect accepts only input that it consumed
completely: both loop exits (marker and marker-less) go through `is_finished_ok`. -/
theorem lzmaDecompress_no_size_eof {rd rd' : Rd} {opts : Options} {s s' : Sink}
    (h : lzmaDecompress rd opts s = (s', .ok rd'))
    (hn : ∀ params rd1, readHeader rd opts = .ok (params, rd1) → params.unpackedSize = none) :
    rd'.rem = [] := by
  unfold lzmaDecompress at h
  obtain ⟨⟨params, rd1⟩, s1, h1, h⟩ := bind_ok_inv h
  have hnone := hn params rd1 (liftE_ok_inv h1).1
  obtain ⟨dec, s2, h2, h⟩ := bind_ok_inv h
  obtain ⟨⟨dec', rd2⟩, s3, h3, h⟩ := bind_ok_inv h
  simp at h
  obtain ⟨-, rfl⟩ := h
  -- the decoder state created by `LzmaDecoder::new`
  have hdec := (liftE_ok_inv h2).1
  unfold LzmaDecoder.new at hdec
  split at hdec
  · simp [bind, Except.bind, throw, throwThe, MonadExceptOf.throw] at hdec
  obtain ⟨st, hst, hdec⟩ := Except.bind_ok_inv hdec
  simp [pure, Except.pure] at hdec
  unfold DState.new at hst
  obtain ⟨_, -, hst⟩ := Except.bind_ok_inv hst
  simp [pure, Except.pure] at hst
  have hs1 : dec.state.unpackedSize = none := by rw [← hdec, ← hst]; exact hnone
  have hs2 : dec.state.partialBuf = [] := by rw [← hdec, ← hst]
  unfold LzmaDecoder.decompress at h3
  obtain ⟨⟨rc, rd3⟩, s4, -, h3⟩ := bind_ok_inv h3
  obtain ⟨⟨st', w', rc', rd4⟩, s5, h4, h3⟩ := bind_ok_inv h3
  obtain ⟨_, s6, -, h3⟩ := bind_ok_inv h3
  simp at h3
  obtain ⟨-, -, rfl⟩ := h3
  exact processMode_finish_none_eof h4 hs1 hs2


/-! ### error classes of the stages of `parse_lzma` -/

theorem resetState_error_iff {st : DState} {p : Props} {e : Err} :
    st.resetState p = .error e ↔ p.validate = .error e := by
  unfold DState.resetState
  cases h : p.validate with
  | error e' => simp [bind, Except.bind]
  | ok u => simp [bind, Except.bind, pure, Except.pure]

theorem propsOfByte_valid {b : UInt8} (h : b.toNat < 225) : (propsOfByte b).validate = .ok () := by
  unfold Props.validate propsOfByte
  rw [if_pos (by dsimp only; omega)]; rfl

/-- error classes of the property stage: `LzmaError`, or the `validate` panic when the previous
properties of an (unreachable) decoder state are invalid -/
theorem propsStage_error_class {d : Lzma2Decoder} {rd : Rd} {cls : Nat} {e : Err}
    (h : propsStage d rd cls = .error e) :
    e = .lzma ∨ d.lzmaState.props.validate = .error e := by
  unfold propsStage at h
  split at h
  · split at h
    · split at h
      · rename_i h1; simp at h; subst h; exact Or.inl (lzErr_error_inv h1)
      · split at h
        · simp at h; exact Or.inl h.symm
        · split at h
          · simp at h; exact Or.inl h.symm
          · split at h
            · rename_i hb _ _ _ h7
              have := propsOfByte_valid (b := by assumption) (by omega)
              rw [resetState_error_iff, this] at h7
              simp at h7
            · simp at h
    · split at h
      · rename_i h7; simp at h; subst h; exact Or.inr (resetState_error_iff.1 h7)
      · simp at h
  · simp at h

theorem payloadStage_short {proc : Proc} {st : DState} {a : Accum} {rd : Rd} {k : Nat} {s : Sink}
    (h : rd.rem.length < 5) : payloadStage proc st a rd k s = (s, .error .lzma) := by
  unfold payloadStage
  have : lzErr (RC.new (rd.split k).1) = .error .lzma := by
    obtain ⟨e, he⟩ := RC.new_short (rd := (rd.split k).1) (by simp [Rd.split]; omega)
    rw [he]; rfl
  simp only [this]

end L2
end Lzma
