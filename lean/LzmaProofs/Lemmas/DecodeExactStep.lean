/-
  End-to-end exactness, part 2: the coupling invariant `DecEnc` between the decoder state, its
  window and the reference encoder's state; the decoder's context `mkCtx` equals the encoder's
  `EncSt.ctx`; `applySym` on `sym.toRaw` performs exactly `SpecSt.step`.
-/
import LzmaProofs.Lemmas.DecodeExactWin
import LzmaProofs.Lemmas.SymLayerDist
import LzmaProofs.Lemmas.RcProbs
import LzmaProofs.Lemmas.SafetyLoop
namespace Lzma
open DState

variable {ω : Type} [LzBuf ω]

/-- **Coupling invariant** between the decoder (`s`, window `w`, sink `k`) and the reference
encoder / spec state `es`.  Nothing is assumed about where the coder starts: adapted
probabilities, non-zero `state`/`rep` and a non-empty history are all allowed (LZMA2 chunks
continue like that).  `mb`: after a match (`state ≥ 7`) the remembered distance `rep0 + 1` lies
inside the history and the window limit, so the matched-literal read `last_n(rep0 + 1)`
succeeds. -/
structure DecEnc (M : WinModel ω) (s : DState) (w : ω) (k : Sink) (es : EncSt) : Prop where
  probs : s.probs = es.probs
  props : s.props = es.props
  state : s.state = es.spec.state
  rep0 : s.rep0 = es.spec.rep0
  rep1 : s.rep1 = es.spec.rep1
  rep2 : s.rep2 = es.spec.rep2
  rep3 : s.rep3 = es.spec.rep3
  lc : es.props.lc ≤ 8
  litsz : es.probs.lit.size = (1 <<< (es.props.lc + es.props.lp)) * 0x300
  pok : ProbsOk es.probs
  win : M.Rep w es.spec.hist.toList k
  mb : es.spec.state ≥ 7 → es.spec.rep0 + 1 ≤ es.spec.hist.size ∧ es.spec.rep0 + 1 ≤ M.lim

/-! ## contexts -/

theorem getLast_toNat (hist : Array UInt8) :
    (hist.toList.getLast?.getD 0).toNat =
      if hist.size = 0 then 0 else (hist[hist.size - 1]?.getD 0).toNat := by
  rw [List.getLast?_eq_getElem?, Array.length_toList, Array.getElem?_toList]
  by_cases h : hist.size = 0
  · rw [if_pos h, Array.getElem?_eq_none (by omega)]; rfl
  · rw [if_neg h]

/-- the decoder's context is the encoder's context -/
theorem DecEnc.ctx {M : WinModel ω} {s : DState} {w : ω} {k : Sink} {es : EncSt}
    (h : DecEnc M s w k es) (raw : RawSym) : CtxMatch (s.mkCtx w) es.ctx raw := by
  have hlen : LzBuf.len w = es.spec.hist.size := by rw [M.len h.win, Array.length_toList]
  refine ⟨h.state, ?_, fun _ => ?_, fun _ hst => ?_⟩
  · show LzBuf.len w &&& ((1 <<< s.props.pb) - 1) = es.spec.hist.size &&& ((1 <<< es.props.pb) - 1)
    rw [hlen, h.props]
  · show (do
      let prev ← LzBuf.lastOr w 0
      let sh ← subChk "decode_literal: 8 - lc" 8 s.props.lc
      let row := ((LzBuf.len w &&& ((1 <<< s.props.lp) - 1)) <<< s.props.lc) + (prev.toNat >>> sh)
      if row * 0x300 + 0x300 ≤ s.probs.lit.size then pure row else oob) = .ok es.ctx.litRow
    rw [M.lastOr 0 h.win, hlen, h.props, h.probs, Safety.subChk_safe h.lc]
    simp only [bind, Except.bind]
    have hb := Safety.litRow_bound (len := es.spec.hist.size) (lp := es.props.lp) h.lc
      (es.spec.hist.toList.getLast?.getD 0).toNat_lt
    rw [getLast_toNat] at hb ⊢
    have hsz := h.litsz
    rw [Nat.shiftLeft_eq, Nat.one_mul] at hsz
    have hrow : es.ctx.litRow = ((es.spec.hist.size &&& ((1 <<< es.props.lp) - 1)) <<< es.props.lc) +
        ((if es.spec.hist.size = 0 then 0 else (es.spec.hist[es.spec.hist.size - 1]?.getD 0).toNat)
          >>> (8 - es.props.lc)) := rfl
    rw [hrow]
    generalize ((es.spec.hist.size &&& ((1 <<< es.props.lp) - 1)) <<< es.props.lc) +
      ((if es.spec.hist.size = 0 then 0 else (es.spec.hist[es.spec.hist.size - 1]?.getD 0).toNat)
        >>> (8 - es.props.lc)) = row at hb ⊢
    rw [if_pos (by rw [hsz]; generalize 2 ^ (es.props.lc + es.props.lp) = X at *; omega)]
    rfl
  · show (do
      let b ← LzBuf.lastN w (s.rep0 + 1)
      pure b.toNat) = .ok es.ctx.matchByte
    obtain ⟨h1, h2⟩ := h.mb hst
    have h1' : es.spec.rep0 + 1 ≤ es.spec.hist.toList.length := by rw [Array.length_toList]; exact h1
    rw [h.rep0, M.lastN h.win (by omega) h2 h1']
    simp only [bind, Except.bind, pure, Except.pure]
    have hm : es.ctx.matchByte =
        (es.spec.hist[es.spec.hist.size - (es.spec.rep0 + 1)]?.getD 0).toNat := rfl
    rw [hm]
    have hlt : es.spec.hist.size - (es.spec.rep0 + 1) < es.spec.hist.size := by omega
    simp [Array.getElem?_eq_getElem hlt]

/-! ## well-formedness of the raw symbol -/

theorem Sym.toRaw_wf {dict : Nat} {st st' : SpecSt} {sym : Sym} {b : Bool}
    (h : SpecSt.step dict st sym = some (st', b)) : sym.toRaw.WF := by
  cases sym with
  | lit b => exact b.toNat_lt
  | mtch dist len =>
    simp only [SpecSt.step] at h
    split at h
    · cases h
    · show len - 2 < 272 ∧ dist - 1 < 2 ^ 32
      omega
  | shortRep => trivial
  | rep idx len =>
    simp only [SpecSt.step] at h
    split at h
    · cases h
    · show idx ≤ 3 ∧ len - 2 < 272
      omega
  | eos => show 0 < 272 ∧ 0xFFFFFFFF < 2 ^ 32; omega

/-! ## `applySym` performs `SpecSt.step` -/

theorem DecEnc.withProbs {M : WinModel ω} {s : DState} {w : ω} {k : Sink} {es : EncSt}
    (h : DecEnc M s w k es) {p : Probs} (hp : ProbsOk p) (hsz : p.lit.size = es.probs.lit.size) :
    DecEnc M { s with probs := p } w k { es with probs := p } :=
  ⟨rfl, h.props, h.state, h.rep0, h.rep1, h.rep2, h.rep3, h.lc, hsz.trans h.litsz, hp, h.win, h.mb⟩

theorem litState_lt {x : Nat} (h : ¬ x ≥ 7) : ¬ SpecSt.litState x ≥ 7 := by
  unfold SpecSt.litState
  split
  · omega
  · split <;> omega

set_option hygiene false in
/-- the four `rep idx` cases of `apply_step` differ only in the rotated state and the distance -/
local macro "rep_case " s1:term ", " d:term : tactic => `(tactic| (
  simp only at hstep
  split at hstep
  · cases hstep
  · rename_i hg2
    obtain ⟨h', hcopy, hs'⟩ := Option.map_eq_some_iff.1 hstep
    simp only [Prod.mk.injEq, and_true] at hs'
    subst hs'
    obtain ⟨hd, hh'⟩ := SpecSt.copy_spec _ _ _ _ hcopy
    try simp only at hd
    try simp only at hg2
    have e1 : len - 2 + 2 = len := by omega
    have hsz : h'.size = es.spec.hist.size + len := by
      rw [← Array.length_toList, hh']; simp
    have hfit' : M.Fits (es.spec.hist.toList.length + len) := by
      rw [Array.length_toList, ← hsz]; exact hfit
    obtain ⟨w', k', ha, hrep⟩ := M.appendLz len (d := $d) hwin (by omega) (by omega)
      (by rw [Array.length_toList]; omega) hfit'
    refine ⟨{ ($s1 : DState) with state := if s.state < 7 then 8 else 11 }, w', k', ?_, ?_⟩
    · simp only [Sym.toRaw, applySym, bind_run, hr0, hr1, hr2, hr3, e1, ha, pure_run]
    · refine ⟨hprobs, hprops, ?_, ?_, ?_, ?_, ?_, hlc, hlitsz, hpok, by rw [hh']; exact hrep, ?_⟩
      · simp only [hstate]
      all_goals first | rfl | assumption | skip
      · intro _
        refine ⟨?_, ?_⟩ <;> (try simp only [hsz]) <;> omega))

/-- **`applySym` on `sym.toRaw` is `SpecSt.step`**: for a symbol that is well-formed in the
current spec state (and not the end marker), the decoder's effects succeed, return `Continue`
and re-establish the coupling for the spec's next state. -/
theorem DecEnc.apply_step {M : WinModel ω} {s : DState} {w : ω} {k : Sink} {es : EncSt}
    (h : DecEnc M s w k es) {dict : Nat} (hdict : dict ≤ M.lim) {sym : Sym} {spec' : SpecSt}
    (hstep : SpecSt.step dict es.spec sym = some (spec', false))
    (hfit : M.Fits spec'.hist.size) (rc : RC) (rd : Rd) :
    ∃ s' w' k', applySym s w rc rd sym.toRaw k = (k', .ok (.continue, s', w')) ∧
      DecEnc M s' w' k' { es with spec := spec' } := by
  obtain ⟨hprobs, hprops, hstate, hr0, hr1, hr2, hr3, hlc, hlitsz, hpok, hwin, hmb⟩ := h
  cases sym with
  | eos => simp [SpecSt.step] at hstep
  | lit b =>
    simp only [SpecSt.step, Option.some.injEq, Prod.mk.injEq, and_true] at hstep
    subst hstep
    obtain ⟨w', k', ha, hrep⟩ := M.appendLiteral b hwin (by simpa using hfit)
    refine ⟨{ s with state := if s.state < 4 then 0 else if s.state < 10 then s.state - 3
        else s.state - 6 }, w', k', ?_, ?_⟩
    · simp only [Sym.toRaw, applySym, bind_run, UInt8.ofNat_toNat, ha, pure_run]
    · refine ⟨hprobs, hprops, ?_, hr0, hr1, hr2, hr3, hlc, hlitsz, hpok, by simpa using hrep, ?_⟩
      · simp only [SpecSt.litState, hstate]
      · intro hge
        have : es.spec.state ≥ 7 := by
          by_cases h7 : es.spec.state ≥ 7
          · exact h7
          · exact absurd hge (litState_lt h7)
        obtain ⟨a, b⟩ := hmb this
        exact ⟨by simp only [Array.size_push]; omega, b⟩
  | mtch dist len =>
    simp only [SpecSt.step] at hstep
    split at hstep
    · cases hstep
    · rename_i hg
      obtain ⟨h', hcopy, hs'⟩ := Option.map_eq_some_iff.1 hstep
      simp only [Prod.mk.injEq, and_true] at hs'
      subst hs'
      obtain ⟨hd, hh'⟩ := SpecSt.copy_spec _ _ _ _ hcopy
      have hd' : 1 ≤ dist ∧ dist ≤ es.spec.hist.size := by omega
      have hfit' : M.Fits (es.spec.hist.toList.length + len) := by
        have : h'.size = es.spec.hist.toList.length + len := by
          rw [← Array.length_toList, hh']; simp
        rw [← this]; exact hfit
      obtain ⟨w', k', ha, hrep⟩ := M.appendLz len (d := dist) hwin hd'.1 (by omega)
        (by rw [Array.length_toList]; exact hd'.2) hfit'
      have e1 : len - 2 + 2 = len := by omega
      have e2 : dist - 1 + 1 = dist := by omega
      have e3 : ¬ dist - 1 = 0xFFFFFFFF := by omega
      refine ⟨{ s with rep3 := s.rep2, rep2 := s.rep1, rep1 := s.rep0, rep0 := dist - 1,
                        state := if s.state < 7 then 7 else 10 }, w', k', ?_, ?_⟩
      · simp only [Sym.toRaw, applySym, e3, if_false, bind_run, e1, e2, ha, pure_run]
      · refine ⟨hprobs, hprops, ?_, rfl, hr0, hr1, hr2, hlc, hlitsz, hpok, by rw [hh']; exact hrep, ?_⟩
        · simp only [hstate]
        · intro _
          have : h'.size = es.spec.hist.size + len := by
            rw [← Array.length_toList, hh']; simp
          exact ⟨by simp only [e2, this]; omega, by simp only [e2]; omega⟩
  | shortRep =>
    simp only [SpecSt.step] at hstep
    split at hstep
    · cases hstep
    · rename_i hg
      obtain ⟨h', hcopy, hs'⟩ := Option.map_eq_some_iff.1 hstep
      simp only [Prod.mk.injEq, and_true] at hs'
      subst hs'
      obtain ⟨hd, hh'⟩ := SpecSt.copy_spec _ _ _ _ hcopy
      have hd' : es.spec.rep0 + 1 ≤ es.spec.hist.size := by omega
      have hsz : h'.size = es.spec.hist.size + 1 := by
        rw [← Array.length_toList, hh']; simp
      have hfit' : M.Fits (es.spec.hist.toList.length + 1) := by
        rw [Array.length_toList, ← hsz]; exact hfit
      obtain ⟨w', k', ha, hrep⟩ := M.appendLz 1 (d := es.spec.rep0 + 1) hwin (by omega) (by omega)
        (by rw [Array.length_toList]; exact hd') hfit'
      refine ⟨{ s with state := if s.state < 7 then 9 else 11 }, w', k', ?_, ?_⟩
      · simp only [Sym.toRaw, applySym, bind_run, hr0, ha, pure_run]
      · refine ⟨hprobs, hprops, ?_, hr0, hr1, hr2, hr3, hlc, hlitsz, hpok, by rw [hh']; exact hrep, ?_⟩
        · simp only [hstate]
        · intro _
          refine ⟨?_, ?_⟩ <;> (try simp only [hsz]) <;> omega
  | rep idx len =>
    simp only [SpecSt.step] at hstep
    split at hstep
    · cases hstep
    · rename_i hg
      have hidx : idx = 0 ∨ idx = 1 ∨ idx = 2 ∨ idx = 3 := by omega
      rcases hidx with rfl | rfl | rfl | rfl
      · rep_case s, es.spec.rep0 + 1
      · rep_case { s with rep0 := s.rep1, rep1 := s.rep0 }, es.spec.rep1 + 1
      · rep_case { s with rep0 := s.rep2, rep1 := s.rep0, rep2 := s.rep1 }, es.spec.rep2 + 1
      · rep_case { s with rep0 := s.rep3, rep1 := s.rep0, rep2 := s.rep1, rep3 := s.rep2 },
          es.spec.rep3 + 1

end Lzma
